// Command vharness drives the real mainchain application in-process through ABCI and writes
// scripts and traces in the line protocol of /verif/PROTOCOL.md.
//
//	vharness replay -script FILE -out FILE.impl
//	vharness chain  -seed S -scripts N -blocks B -maxtx T -focus NAME -outdir DIR [-jobs J]
//	vharness twin   -script FILE -out FILE.twin -db memdb|goleveldb [-crashseed S]
//	vharness version
package main

import (
	"bufio"
	"flag"
	"fmt"
	"os"
	"runtime"
	"strings"

	"verif/harness/internal/gen"
	"verif/harness/internal/real"
)

const version = "vharness 1 (protocol 1; cosmos-sdk v0.47.13; cometbft v0.37.5)"

func main() {
	if len(os.Args) < 2 {
		usage()
	}
	switch os.Args[1] {
	case "version":
		fmt.Println(version)
	case "replay":
		replay(os.Args[2:])
	case "chain":
		chain(os.Args[2:])
	case "twin":
		twin(os.Args[2:])
	default:
		usage()
	}
}

func usage() {
	fmt.Fprintln(os.Stderr, "usage: vharness replay|chain|twin|version [flags]")
	os.Exit(2)
}

func die(code int, f string, a ...interface{}) {
	fmt.Fprintf(os.Stderr, "vharness: "+f+"\n", a...)
	os.Exit(code)
}

func replay(args []string) {
	fs := flag.NewFlagSet("replay", flag.ExitOnError)
	in := fs.String("script", "", "script file")
	out := fs.String("out", "", "trace file to write")
	verbose := fs.Bool("v", false, "print one diagnostic line with the ABCI log per TX / CHECK to stderr")
	fs.Parse(args)
	if *in == "" || *out == "" {
		die(2, "replay: -script and -out are required")
	}
	f, err := os.Open(*in)
	if err != nil {
		die(1, "%v", err)
	}
	defer f.Close()
	home, err := os.MkdirTemp("", "vharness-home-")
	if err != nil {
		die(1, "%v", err)
	}
	code := func() int {
		defer os.RemoveAll(home)
		ip := &real.Interp{Home: home}
		if *verbose {
			ip.Log = os.Stderr
		}
		var trace []string
		sc := bufio.NewScanner(f)
		sc.Buffer(make([]byte, 1<<20), 1<<26)
		for ln := 1; sc.Scan(); ln++ {
			lines, err := ip.Exec(sc.Text())
			if err != nil {
				fmt.Fprintf(os.Stderr, "vharness: %s:%d: %v\n", *in, ln, err)
				return 2
			}
			trace = append(trace, lines...)
		}
		if err := sc.Err(); err != nil {
			fmt.Fprintf(os.Stderr, "vharness: %v\n", err)
			return 1
		}
		if err := os.WriteFile(*out, []byte(strings.Join(trace, "\n")+"\n"), 0o644); err != nil {
			fmt.Fprintf(os.Stderr, "vharness: %v\n", err)
			return 1
		}
		return 0
	}()
	os.Exit(code)
}

// twin replays a script on one application with the chosen database backend and writes the
// consensus-relevant lines (PROTOCOL.md §9).
func twin(args []string) {
	fs := flag.NewFlagSet("twin", flag.ExitOnError)
	in := fs.String("script", "", "script file")
	out := fs.String("out", "", "twin trace file to write")
	db := fs.String("db", "memdb", "database backend: memdb|goleveldb")
	seed := fs.Int64("crashseed", 0, "restart at pseudo-random points derived from this seed (0: never)")
	fs.IntVar(&real.RestartPct, "crashpct", 0, "probability (percent) of a restart at each eligible point (0: default 12)")
	fs.UintVar(&real.InvCheckPeriod, "invperiod", 0, "node-local --inv-check-period of this instance (0: invariants are not asserted in EndBlock)")
	fs.Parse(args)
	if *in == "" || *out == "" {
		die(2, "twin: -script and -out are required")
	}
	if *db != "memdb" && *db != "goleveldb" {
		die(2, "twin: -db must be memdb or goleveldb")
	}
	f, err := os.Open(*in)
	if err != nil {
		die(1, "%v", err)
	}
	defer f.Close()
	home, err := os.MkdirTemp("", "vharness-twin-")
	if err != nil {
		die(1, "%v", err)
	}
	code := func() int {
		defer os.RemoveAll(home)
		tw := real.NewTwin(home, *db, *seed)
		sc := bufio.NewScanner(f)
		sc.Buffer(make([]byte, 1<<20), 1<<26)
		for ln := 1; sc.Scan(); ln++ {
			if err := tw.Exec(sc.Text()); err != nil {
				tw.Finish()
				fmt.Fprintf(os.Stderr, "vharness: %s:%d: %v\n", *in, ln, err)
				return 2
			}
		}
		if err := sc.Err(); err != nil {
			tw.Finish()
			fmt.Fprintf(os.Stderr, "vharness: %v\n", err)
			return 1
		}
		if err := os.WriteFile(*out, []byte(strings.Join(tw.Finish(), "\n")+"\n"), 0o644); err != nil {
			fmt.Fprintf(os.Stderr, "vharness: %v\n", err)
			return 1
		}
		return 0
	}()
	os.Exit(code)
}

func chain(args []string) {
	fs := flag.NewFlagSet("chain", flag.ExitOnError)
	var o gen.Options
	fs.Int64Var(&o.Seed, "seed", 1, "campaign seed")
	fs.IntVar(&o.Scripts, "scripts", 8, "number of scripts")
	fs.IntVar(&o.Blocks, "blocks", 20, "blocks per script")
	fs.IntVar(&o.MaxTx, "maxtx", 6, "maximum transactions per block")
	fs.StringVar(&o.Focus, "focus", "all", "generator focus: "+strings.Join(gen.Focuses(), "|"))
	fs.StringVar(&o.OutDir, "outdir", "", "output directory")
	fs.IntVar(&o.Jobs, "jobs", runtime.NumCPU(), "parallel workers")
	fs.Parse(args)
	if o.OutDir == "" {
		die(2, "chain: -outdir is required")
	}
	if err := gen.Run(o); err != nil {
		die(2, "chain: %v", err)
	}
}
