package main

import (
	"bufio"
	"encoding/binary"
	"encoding/hex"
	"fmt"
	"hash/fnv"
	"math/big"
	"math/rand"
	"sort"
	"strconv"
	"strings"
)

// A kind has a fixed (seed independent) boundary table and a random generator.
// `gen -n N` emits, per kind, min(len(table), ceil(3N/4)) table rows (a seeded sample, in table
// order, when the table is larger) followed by random requests up to N lines.
// `gen -full` emits every table completely followed by N random requests.
// The random stream of a kind depends only on (seed, kind name), not on -kinds.
type kind struct {
	name   string
	table  func() []string
	random func(r *rand.Rand) string
}

func runGen(w *bufio.Writer, seed int64, n int, sel []string, full bool) error {
	if n < 0 {
		return fmt.Errorf("negative -n")
	}
	kinds := allKinds()
	used := make([]bool, len(sel))
	for _, k := range kinds {
		if len(sel) > 0 {
			hit := false
			for i, s := range sel {
				if kindMatches(k.name, s) {
					hit, used[i] = true, true
				}
			}
			if !hit {
				continue
			}
		}
		h := fnv.New64a()
		h.Write([]byte(k.name))
		r := rand.New(rand.NewSource(seed*1000003 ^ int64(h.Sum64())))
		tbl := k.table()
		emitted := 0
		if full {
			for _, l := range tbl {
				fmt.Fprintln(w, l)
			}
		} else {
			take := (3*n + 3) / 4
			if take > len(tbl) {
				take = len(tbl)
			}
			if take == len(tbl) {
				for _, l := range tbl {
					fmt.Fprintln(w, l)
				}
			} else {
				idx := r.Perm(len(tbl))[:take]
				sort.Ints(idx)
				for _, i := range idx {
					fmt.Fprintln(w, tbl[i])
				}
			}
			emitted = take
		}
		for ; emitted < n; emitted++ {
			fmt.Fprintln(w, k.random(r))
		}
	}
	for i, u := range used {
		if !u {
			return fmt.Errorf("no kind matches %q (see `vpure kinds`)", sel[i])
		}
	}
	return nil
}

func kindMatches(name, s string) bool {
	s = strings.TrimSuffix(s, "*")
	s = strings.TrimSuffix(s, ".")
	return name == s || strings.HasPrefix(name, s+".")
}

// ---------------------------------------------------------------- numeric helpers

func bi(s string) *big.Int {
	v, ok := new(big.Int).SetString(s, 10)
	if !ok {
		panic("bad literal " + s)
	}
	return v
}
func p2(k uint) *big.Int               { return new(big.Int).Lsh(big.NewInt(1), k) }
func p10(k int64) *big.Int             { return new(big.Int).Exp(big.NewInt(10), big.NewInt(k), nil) }
func add(a *big.Int, d int64) *big.Int { return new(big.Int).Add(a, big.NewInt(d)) }
func sum(a, b *big.Int) *big.Int       { return new(big.Int).Add(a, b) }
func mul(a *big.Int, m int64) *big.Int { return new(big.Int).Mul(a, big.NewInt(m)) }

// logUniform: bit length uniform in [0,maxBits], then uniform among values of that bit length.
func logUniform(r *rand.Rand, maxBits int) *big.Int {
	bits := r.Intn(maxBits + 1)
	if bits == 0 {
		return big.NewInt(0)
	}
	v := new(big.Int).Rand(r, p2(uint(bits-1)))
	return v.Add(v, p2(uint(bits-1)))
}

func uniformBelow(r *rand.Rand, n *big.Int) *big.Int { return new(big.Int).Rand(r, n) }

var u64Bounds = []uint64{0, 1, 2, 255, 256, 1<<32 - 1, 1 << 32, 1<<32 + 1, 1<<63 - 1, 1 << 63, 1<<64 - 2, 1<<64 - 1}
var u64ParamBounds = []uint64{0, 1, 2, 1<<63 - 1, 1 << 63, 1<<64 - 1}

func randU64(r *rand.Rand) uint64 {
	switch r.Intn(4) {
	case 0:
		return u64Bounds[r.Intn(len(u64Bounds))]
	case 1: // near a power of two
		return (uint64(1) << uint(r.Intn(64))) + uint64(r.Intn(3)) - 1
	case 2:
		return logUniform(r, 64).Uint64()
	}
	return r.Uint64()
}

func randParamU64(r *rand.Rand) uint64 {
	if r.Intn(3) == 0 {
		return u64ParamBounds[r.Intn(len(u64ParamBounds))]
	}
	if r.Intn(2) == 0 {
		return uint64(r.Intn(8))
	}
	return randU64(r)
}

func u(v uint64) string { return strconv.FormatUint(v, 10) }

func pick[T any](r *rand.Rand, xs []T) T { return xs[r.Intn(len(xs))] }

// ---------------------------------------------------------------- addresses

func fill(n int, b byte) []byte {
	x := make([]byte, n)
	for i := range x {
		x[i] = b
	}
	return x
}

func randBytes(r *rand.Rand, n int) []byte {
	x := make([]byte, n)
	r.Read(x)
	return x
}

var addrLens = []int{1, 2, 19, 20, 21, 32, 255}

// boundaryAddrs is seed independent. With ext it also contains the lengths 0 and 256.
func boundaryAddrs(ext bool) [][]byte {
	r := rand.New(rand.NewSource(0x5eed))
	var res [][]byte
	lens := addrLens
	if ext {
		res = append(res, []byte{})
		lens = append(append([]int{}, addrLens...), 256)
	}
	for _, n := range lens {
		res = append(res, fill(n, 0x00), fill(n, 0xff), randBytes(r, n))
	}
	// pairs where one address is a proper prefix of the other
	a20 := randBytes(r, 20)
	a32 := randBytes(r, 32)
	res = append(res, a20[:19], a20, append(append([]byte{}, a20...), 0x00), a32[:20], a32)
	// an address whose first byte looks like a length prefix of what follows
	res = append(res, append([]byte{19}, a20[:19]...))
	return res
}

func randAddr(r *rand.Rand, ext bool) []byte {
	var n int
	switch r.Intn(4) {
	case 0:
		n = 20
	case 1:
		n = pick(r, addrLens)
	default:
		n = 1 + r.Intn(255)
	}
	if ext && r.Intn(40) == 0 {
		n = pick(r, []int{0, 256})
	}
	switch r.Intn(6) {
	case 0:
		return fill(n, 0x00)
	case 1:
		return fill(n, 0xff)
	}
	return randBytes(r, n)
}

// related returns an address that is a prefix / extension / near copy of a.
func related(r *rand.Rand, a []byte) []byte {
	switch r.Intn(3) {
	case 0:
		if len(a) > 1 {
			return a[:1+r.Intn(len(a)-1)]
		}
	case 1:
		if len(a) < 250 {
			return append(append([]byte{}, a...), randBytes(r, 1+r.Intn(4))...)
		}
	}
	b := append([]byte{}, a...)
	if len(b) > 0 {
		b[r.Intn(len(b))] ^= byte(1 << uint(r.Intn(8)))
	}
	return b
}

func streamKeyBytes(rcv, snd []byte) []byte {
	k := []byte{0x11, byte(len(rcv))}
	k = append(k, rcv...)
	k = append(k, byte(len(snd)))
	return append(k, snd...)
}

func corruptions(key []byte, rlen int) [][]byte {
	cp := func() []byte { return append([]byte{}, key...) }
	var res [][]byte
	res = append(res, key[:len(key)-1]) // drop last byte
	if len(key) > 3 {
		res = append(res, key[:len(key)-2])
	}
	res = append(res, key[:2+rlen])       // cut before the sender length byte
	res = append(res, key[:2+rlen+1])     // cut right after the sender length byte
	res = append(res, append(cp(), 0xaa)) // trailing garbage
	res = append(res, append(cp(), 0x00, 0x01))
	for _, d := range []int{-1, 1} { // receiver length byte +-1
		c := cp()
		c[1] = byte(int(c[1]) + d)
		res = append(res, c)
	}
	for _, d := range []int{-1, 1} { // sender length byte +-1
		c := cp()
		c[2+rlen] = byte(int(c[2+rlen]) + d)
		res = append(res, c)
	}
	c := cp()
	c[1] = 0
	res = append(res, c)
	c = cp()
	c[1] = 255
	res = append(res, c)
	c = cp()
	c[2+rlen] = 0
	res = append(res, c)
	c = cp()
	c[2+rlen] = 255
	res = append(res, c)
	c = cp()
	c[0] = 0x12 // prefix byte is not inspected by the parser
	res = append(res, c)
	return res
}

// ---------------------------------------------------------------- kinds

func allKinds() []kind {
	var ks []kind

	for _, nm := range []string{"ent.po", "ent.raised", "ent.accepted"} {
		ks = append(ks, kindU64("key."+nm, "key "+nm))
	}
	for _, nm := range []string{"ent.locked", "ent.spent", "ent.wl"} {
		ks = append(ks, kindAddr("key."+nm, "key "+nm, false))
	}
	for _, nm := range []string{"wrk.chain", "wrk.limit", "wrk.blocks"} {
		ks = append(ks, kindU64("key."+nm, "key "+nm))
	}
	ks = append(ks, kindU64x2("key.wrk.block", "key wrk.block"))
	for _, nm := range []string{"bcn.beacon", "bcn.limit", "bcn.tss"} {
		ks = append(ks, kindU64("key."+nm, "key "+nm))
	}
	ks = append(ks, kindU64x2("key.bcn.ts", "key bcn.ts"))
	ks = append(ks, kindStrStream())
	ks = append(ks, kindAddr("key.str.recv", "key str.recv", true))
	ks = append(ks, kindParseStream(), kindParseU64())
	ks = append(ks, kindDur(), kindClaim(), kindValFee(), kindAddSec(), kindConv())
	ks = append(ks, kindEntParams(), kindRegParams(), kindStrParams())
	ks = append(ks, kindCoins("coins.lt"), kindCoins("coins.gt"))
	ks = append(ks, kindOwnerGate(), kindOwnerMsg())
	return ks
}

func kindU64(name, head string) kind {
	return kind{name,
		func() []string {
			var t []string
			for _, v := range u64Bounds {
				t = append(t, head+" "+u(v))
			}
			return t
		},
		func(r *rand.Rand) string { return head + " " + u(randU64(r)) }}
}

func kindU64x2(name, head string) kind {
	return kind{name,
		func() []string {
			var t []string
			for _, a := range u64Bounds {
				for _, b := range u64Bounds {
					t = append(t, head+" "+u(a)+" "+u(b))
				}
			}
			return t
		},
		func(r *rand.Rand) string { return head + " " + u(randU64(r)) + " " + u(randU64(r)) }}
}

func kindAddr(name, head string, ext bool) kind {
	return kind{name,
		func() []string {
			var t []string
			for _, a := range boundaryAddrs(ext) {
				t = append(t, head+" "+hexTok(a))
			}
			return t
		},
		func(r *rand.Rand) string { return head + " " + hexTok(randAddr(r, ext)) }}
}

func kindStrStream() kind {
	return kind{"key.str.stream",
		func() []string {
			var t []string
			as := boundaryAddrs(true)
			for _, a := range as {
				for _, b := range as {
					t = append(t, "key str.stream "+hexTok(a)+" "+hexTok(b))
				}
			}
			return t
		},
		func(r *rand.Rand) string {
			a := randAddr(r, true)
			b := randAddr(r, true)
			if r.Intn(4) == 0 {
				b = related(r, a)
			}
			if r.Intn(2) == 0 {
				a, b = b, a
			}
			return "key str.stream " + hexTok(a) + " " + hexTok(b)
		}}
}

func kindParseStream() kind {
	return kind{"parse.str.stream",
		func() []string {
			var t []string
			emit := func(b []byte) { t = append(t, "parse str.stream "+hexTok(b)) }
			emit([]byte{})
			emit([]byte{0x11})
			emit([]byte{0x11, 0x00})
			emit([]byte{0x11, 0x00, 0x00})
			emit([]byte{0x11, 0x01})
			emit([]byte{0x11, 0x01, 0xab})
			emit([]byte{0x11, 0x01, 0xab, 0x00})
			emit([]byte{0x11, 0x01, 0xab, 0x01})
			emit([]byte{0x11, 0x00, 0x01, 0xab})
			var as [][]byte
			for _, a := range boundaryAddrs(false) {
				as = append(as, a)
			}
			// valid keys for every ordered pair (round trip), corruptions for a thinner set
			for i, a := range as {
				for j, b := range as {
					k := streamKeyBytes(a, b)
					emit(k)
					if (i+j)%5 == 0 {
						for _, c := range corruptions(k, len(a)) {
							emit(c)
						}
					}
				}
			}
			return t
		},
		func(r *rand.Rand) string {
			a := randAddr(r, false)
			b := randAddr(r, false)
			if r.Intn(5) == 0 {
				b = related(r, a)
				if len(b) == 0 || len(b) > 255 {
					b = a
				}
			}
			k := streamKeyBytes(a, b)
			switch r.Intn(4) {
			case 0:
				k = pick(r, corruptions(k, len(a)))
			case 1:
				if r.Intn(3) == 0 {
					k = randBytes(r, r.Intn(48)) // unstructured
				}
			}
			return "parse str.stream " + hexTok(k)
		}}
}

func kindParseU64() kind {
	enc := func(v uint64) string {
		var b [8]byte
		binary.BigEndian.PutUint64(b[:], v)
		return "parse u64 " + hex.EncodeToString(b[:])
	}
	return kind{"parse.u64",
		func() []string {
			var t []string
			for _, v := range u64Bounds {
				t = append(t, enc(v))
			}
			return t
		},
		func(r *rand.Rand) string { return enc(randU64(r)) }}
}

// ---- dur

func randRate(r *rand.Rand) int64 {
	v := logUniform(r, 63).Int64() // 0 … 2^63-1
	return v
}

func kindDur() kind {
	deps := []*big.Int{big.NewInt(0), big.NewInt(1), big.NewInt(59), big.NewInt(60), big.NewInt(61),
		add(p2(63), -1), p2(63), p2(64), p10(21), p10(27), p2(200), p2(255)}
	rates := []int64{-1, 0, 1, 2, 59, 60, 61, 1 << 31, 1 << 62, 1<<63 - 1}
	return kind{"dur",
		func() []string {
			var t []string
			for _, d := range deps {
				for _, rt := range rates {
					t = append(t, fmt.Sprintf("dur %s %d", d, rt))
				}
			}
			// around the int64 result boundary and the 256-bit Int / 316-bit Dec boundaries
			t = append(t,
				fmt.Sprintf("dur %s 1", add(p2(63), 1)),
				fmt.Sprintf("dur %s 2", add(p2(64), -1)),
				fmt.Sprintf("dur %s 2", p2(64)),
				fmt.Sprintf("dur %s %d", add(p2(256), -1), int64(1<<63-1)),
				fmt.Sprintf("dur %s 1", add(p2(256), -1)),
				fmt.Sprintf("dur %s %d", p2(255), int64(-1<<63)),
			)
			return t
		},
		func(r *rand.Rand) string {
			var d *big.Int
			switch r.Intn(5) {
			case 0:
				d = pick(r, deps)
			case 1:
				d = logUniform(r, 256)
			default:
				d = logUniform(r, 100)
			}
			var rt int64
			switch r.Intn(12) {
			case 0:
				rt = pick(r, rates)
			case 1:
				rt = -randRate(r)
			default:
				rt = randRate(r)
			}
			if r.Intn(6) == 0 && rt > 0 { // deposit = k*rate + small: exact-division boundary
				k := logUniform(r, 62)
				d = sum(new(big.Int).Mul(k, big.NewInt(rt)), big.NewInt(int64(r.Intn(3))-1))
				if d.Sign() < 0 {
					d = big.NewInt(0)
				}
			}
			return fmt.Sprintf("dur %s %d", d, rt)
		}}
}

// ---- claim

var baseNs = mul(p10(9), 1700000000)

var okFracs = []int64{0, 400000000, 500000000}

// snapFrac floors the nanosecond part of t to the nearest allowed value {0, .4, .5}.
func snapFrac(t *big.Int) *big.Int {
	sec, fr := new(big.Int).DivMod(t, billion, new(big.Int))
	f := fr.Int64()
	s := int64(0)
	for _, a := range okFracs {
		if a <= f {
			s = a
		}
	}
	return sum(new(big.Int).Mul(sec, billion), big.NewInt(s))
}

func kindClaim() kind {
	rates := []int64{1, 2, 1000, 1 << 31, 1 << 62, 1<<63 - 1}
	deps := []*big.Int{big.NewInt(1), big.NewInt(100), p10(9), add(p2(63), -1), add(p2(64), -1), p2(64), p2(70), p2(200)}
	lastFr := []int64{0, 400000000}
	gaps := []*big.Int{big.NewInt(0), big.NewInt(1), big.NewInt(999999999), p10(9), add(p10(9), 1),
		mul(p10(9), 5), mul(p10(9), 60), p2(62), add(p2(63), -1), p2(63), sum(p2(63), p10(9)), p10(19)}
	zoffs := []*big.Int{mul(p10(9), -1), big.NewInt(-1), big.NewInt(0), big.NewInt(1), p10(9), p10(18)}
	line := func(now, zero, last, dep *big.Int, rate int64) string {
		return fmt.Sprintf("claim %s %s %s %s %d", now, zero, last, dep, rate)
	}
	return kind{"claim",
		func() []string {
			var t []string
			for _, rt := range rates {
				for _, d := range deps {
					for _, lf := range lastFr {
						last := add(baseNs, lf)
						for _, g := range gaps {
							now := snapFrac(sum(last, g))
							for _, zo := range zoffs {
								t = append(t, line(now, sum(now, zo), last, d, rt))
							}
						}
					}
				}
			}
			return t
		},
		func(r *rand.Rand) string {
			rt := randRate(r)
			if rt == 0 {
				rt = 1
			}
			if r.Intn(5) == 0 {
				rt = pick(r, rates)
			}
			var d *big.Int
			switch r.Intn(6) {
			case 0:
				d = pick(r, deps)
			case 1:
				d = logUniform(r, 256)
			default:
				d = logUniform(r, 90)
			}
			last := sum(baseNs, mul(p10(9), int64(r.Intn(1<<30))))
			last = add(last, pick(r, lastFr))
			// elapsed whole seconds; sometimes tuned so that seconds*rate is near the deposit or near 2^63/2^64
			var secs *big.Int
			switch r.Intn(6) {
			case 0:
				secs = new(big.Int).Quo(d, big.NewInt(rt))
				secs = add(secs, int64(r.Intn(3))-1)
			case 1:
				secs = new(big.Int).Quo(pick(r, []*big.Int{p2(63), p2(64)}), big.NewInt(rt))
				secs = add(secs, int64(r.Intn(3))-1)
			case 2:
				secs = pick(r, gaps)
				secs = new(big.Int).Quo(secs, billion)
			default:
				secs = logUniform(r, 36)
			}
			if secs.Sign() < 0 {
				secs = big.NewInt(0)
			}
			if secs.BitLen() > 36 { // keep `now` far inside time.Time's range
				secs = logUniform(r, 36)
			}
			lastSec := new(big.Int).Div(last, billion)
			lastF := new(big.Int).Mod(last, billion).Int64()
			nowSec := sum(lastSec, secs)
			nf := pick(r, okFracs)
			if secs.Sign() == 0 && nf < lastF {
				nf = lastF
			}
			now := add(new(big.Int).Mul(nowSec, billion), nf)
			// deposit-zero time: realistic (last + deposit/rate seconds), near now, or far away
			var zero *big.Int
			switch r.Intn(4) {
			case 0:
				dur := new(big.Int).Quo(d, big.NewInt(rt))
				if dur.BitLen() > 36 {
					dur = logUniform(r, 36)
				}
				zero = sum(last, new(big.Int).Mul(dur, billion))
			case 1:
				zero = sum(now, pick(r, zoffs))
			default:
				off := logUniform(r, 62)
				if r.Intn(4) == 0 {
					off.Neg(off)
				}
				zero = sum(now, off)
			}
			return line(now, zero, last, d, rt)
		}}
}

// ---- valfee

func kindValFee() kind {
	fees := []*big.Int{big.NewInt(0), big.NewInt(1), p10(16), mul(p10(17), 5), add(p10(18), -1), p10(18)}
	amts := []*big.Int{big.NewInt(0), big.NewInt(1), big.NewInt(99), big.NewInt(100), big.NewInt(101), p10(9),
		add(p2(63), -1), p2(63), p2(64), mul(p10(19), 93), p10(21), p10(27), p2(200), p2(255)}
	return kind{"valfee",
		func() []string {
			var t []string
			for _, f := range fees {
				for _, a := range amts {
					t = append(t, fmt.Sprintf("valfee %s %s", f, a))
				}
			}
			return t
		},
		func(r *rand.Rand) string {
			var f *big.Int
			switch r.Intn(5) {
			case 0:
				f = pick(r, fees)
			case 1:
				f = logUniform(r, 59) // < 2^59 < 10^18
			case 2:
				f = mul(p10(16), int64(r.Intn(101))) // whole percents
			default:
				f = uniformBelow(r, add(p10(18), 1))
			}
			var a *big.Int
			switch r.Intn(6) {
			case 0:
				a = pick(r, amts)
			case 1:
				a = logUniform(r, 256)
			case 2: // amount*fee near the int64 limit
				if f.Sign() > 0 {
					a = new(big.Int).Quo(new(big.Int).Mul(p2(63), p10(18)), f)
					a = add(a, int64(r.Intn(5))-2)
					if a.BitLen() > 256 {
						a = logUniform(r, 256)
					}
				} else {
					a = logUniform(r, 80)
				}
			default:
				a = logUniform(r, 80)
			}
			return fmt.Sprintf("valfee %s %s", f, a)
		}}
}

// ---- addsec

func kindAddSec() kind {
	ds := []int64{0, 1, 60, 9223372036, 9223372037, 10000000000, 1 << 62, 1<<63 - 1, -1}
	return kind{"addsec",
		func() []string {
			var t []string
			for _, fr := range []int64{0, 400000000} {
				for _, d := range ds {
					t = append(t, fmt.Sprintf("addsec %s %d", add(baseNs, fr), d))
				}
			}
			return t
		},
		func(r *rand.Rand) string {
			tm := sum(baseNs, mul(p10(9), int64(r.Intn(1<<30))))
			tm = add(tm, pick(r, []int64{0, 400000000}))
			var d int64
			switch r.Intn(6) {
			case 0:
				d = pick(r, ds)
			case 1:
				d = 9223372036 + int64(r.Intn(5)) - 2
			case 2: // multiples of 2^64/10^9-ish wrap points
				d = int64(r.Intn(1<<20)) * 18446744073
			default:
				d = logUniform(r, 63).Int64()
			}
			if r.Intn(8) == 0 {
				d = -d
			}
			return fmt.Sprintf("addsec %s %d", tm, d)
		}}
}

// ---- conv

func randDigits(r *rand.Rand, n int, leadNonZero bool) string {
	b := make([]byte, n)
	for i := range b {
		b[i] = byte('0' + r.Intn(10))
	}
	if leadNonZero && n > 0 && b[0] == '0' {
		b[0] = byte('1' + r.Intn(9))
	}
	return string(b)
}

func kindConv() kind {
	ints := []string{"0", "1", "2", "9", "123456789", "120000000", "999999999", "1000000000", "1000000001",
		"9007199254740991", "9007199254740992", "9007199254740993", "18014398509481985",
		"123456789123456789", "999999999999999999999",
		// whole-FUND parts beyond 2^63 (28–30 digit nund amounts)
		"9223372036854775807999999999", "9223372036854775808000000000", "9876543210987654321123456789", "18446744073709551616000000001",
		"123456789012345678901234567890", "999999999999999999999999999999"}
	for k := int64(1); k <= 20; k++ {
		ints = append(ints, add(p10(k), -1).String(), p10(k).String(), add(p10(k), 1).String())
	}
	fracs := []string{"0.000000001", "123456789.123456789", "120000000.000000001", "0.1", "0.5", "1.5", "0.0", "1.0",
		"0.999999999", "1.000000001", "1.10", "0.3", "0.7", "4.35", "1.15", "2.675", "0.000000009", "8.000000007",
		"9007199254740993.5", "99999999999.999999999", "123456789012345678901.123456789"}
	// zero-padded spellings (fixed-width output of scripts) are decimal too
	ints = append(ints, "010", "0100", "007", "00", "09", "0800", "0000000000500000000", "000000000001", "0777", "01234567")
	fracs = append(fracs, "010.5", "00000120.25", "00.000000001", "0777.000000777")
	// fractional parts that are all zeros (what nund -> fund prints for round amounts), integer parts ending in 0
	fracs = append(fracs, "10.0", "200.00", "120000000.000000000", "10.000000000", "1000.000", "0.000000000", "100.10", "50.050")
	malformed := []string{"-", "abc", "1.2.3", "-5", "1e3"}
	ln := func(a, f, t string) string { return "conv " + a + " " + f + " " + t }
	return kind{"conv",
		func() []string {
			var t []string
			for _, a := range ints {
				t = append(t, ln(a, "fund", "nund"), ln(a, "nund", "fund"))
			}
			for _, a := range fracs {
				t = append(t, ln(a, "fund", "nund"))
			}
			for _, a := range malformed {
				t = append(t, ln(a, "fund", "nund"), ln(a, "nund", "fund"))
			}
			for _, a := range []string{"1", "0", "1.5", "abc", "-", "9007199254740993"} {
				t = append(t, ln(a, "fund", "fund"), ln(a, "nund", "nund"))
			}
			return t
		},
		func(r *rand.Rand) string {
			nd := 1 + r.Intn(21)
			if r.Intn(8) == 0 {
				nd = 22 + r.Intn(9) // up to 30 digits
			}
			ip := randDigits(r, nd, true)
			if nd == 1 && r.Intn(3) == 0 {
				ip = "0"
			}
			if r.Intn(10) == 0 { // round numbers
				ip = ip[:1] + strings.Repeat("0", nd-1)
			}
			if r.Intn(12) == 0 { // zero padded
				ip = strings.Repeat("0", 1+r.Intn(3)) + ip
			}
			if r.Intn(2) == 0 {
				return ln(ip, "nund", "fund")
			}
			if fd := r.Intn(10); fd > 0 {
				if r.Intn(6) == 0 {
					ip += "." + strings.Repeat("0", fd) // a zero tail
				} else {
					ip += "." + randDigits(r, fd, false)
				}
			}
			return ln(ip, "fund", "nund")
		}}
}

// ---- params

func paramDenoms() []string {
	return []string{"nund", "-", "a", "ab", "abc", "1abc", "nund!", "Nund", "a/b", "nund~", "~nund", "^nund", "~", "nu~nd", "stake~~", "ibc/27394FB092D2ECCD56123C74F36E4C1F926001CEADA9CA97EA622B25F41E5EB2",
		"a" + strings.Repeat("b", 127), "a" + strings.Repeat("b", 128)}
}

func randDenom(r *rand.Rand) string {
	if r.Intn(6) != 0 {
		return "nund"
	}
	return pick(r, paramDenoms())
}

var signerLists = []string{"A0", "U0", "X", "-", "A0,", ",A0", ",", "A0,A1", "A0,,A1", "A0,A0", "A0,U0", "U0,U1", "A0,X", "X,A0",
	"A0,A1,A2", "A0,A1,A2,A3", "A0,A1,A2,A3,A4", "U0,A1,U2,A3,U4", "A0,A1,A2,A3,X", "A0,A1,A2,A3,"}

func randSigners(r *rand.Rand) string {
	if r.Intn(12) == 0 {
		return "-"
	}
	n := 1 + r.Intn(5)
	parts := make([]string, n)
	for i := range parts {
		switch x := r.Intn(20); {
		case x == 0:
			parts[i] = "X"
		case x == 1:
			parts[i] = ""
		case x < 6:
			parts[i] = "U" + strconv.Itoa(r.Intn(5))
		default:
			parts[i] = "A" + strconv.Itoa(r.Intn(5))
		}
	}
	s := strings.Join(parts, ",")
	if s == "" { // a single empty element is not representable; it is the same string as `-`
		return "-"
	}
	return s
}

func kindEntParams() kind {
	ln := func(d string, m, l uint64, s string) string {
		return "entparams " + d + " " + u(m) + " " + u(l) + " " + s
	}
	mins := []uint64{0, 1, 2, 3, 4, 5, 6, 1<<63 - 1, 1 << 63, 1<<64 - 1}
	return kind{"entparams",
		func() []string {
			var t []string
			for _, d := range paramDenoms() {
				t = append(t, ln(d, 1, 84600, "A0"))
			}
			for _, l := range u64ParamBounds {
				t = append(t, ln("nund", 1, l, "A0"))
			}
			for _, m := range mins {
				for _, s := range signerLists {
					t = append(t, ln("nund", m, 84600, s))
				}
			}
			t = append(t, ln("-", 0, 0, "-"), ln("nund", 0, 0, "X"), ln("1abc", 1, 0, "A0"), ln("nund", 0, 1, "-"))
			return t
		},
		func(r *rand.Rand) string {
			s := randSigners(r)
			if r.Intn(4) == 0 {
				s = pick(r, signerLists)
			}
			var m uint64
			switch r.Intn(4) {
			case 0:
				m = pick(r, mins)
			case 1:
				m = uint64(r.Intn(7))
			default: // at or next to the number of list elements
				cnt := 0
				if s != "-" {
					cnt = strings.Count(s, ",") + 1
				}
				m = uint64(cnt + r.Intn(3) - 1)
				if cnt == 0 && m > 2 {
					m = 1
				}
			}
			l := randParamU64(r)
			if r.Intn(2) == 0 {
				l = 84600
			}
			return ln(randDenom(r), m, l, s)
		}}
}

func kindRegParams() kind {
	ln := func(mod, d string, v [5]uint64) string {
		return fmt.Sprintf("regparams %s %s %d %d %d %d %d", mod, d, v[0], v[1], v[2], v[3], v[4])
	}
	return kind{"regparams",
		func() []string {
			var t []string
			for _, mod := range []string{"wrk", "bcn"} {
				for _, d := range paramDenoms() {
					t = append(t, ln(mod, d, [5]uint64{1, 1, 1, 1, 1}))
				}
				for fld := 0; fld < 5; fld++ {
					for _, x := range u64ParamBounds {
						v := [5]uint64{1, 1, 1, 1, 1<<64 - 1}
						v[fld] = x
						t = append(t, ln(mod, "nund", v))
					}
				}
				for _, a := range u64ParamBounds {
					for _, b := range u64ParamBounds {
						t = append(t, ln(mod, "nund", [5]uint64{1, 1, 1, a, b}))
					}
				}
				t = append(t, ln(mod, "-", [5]uint64{0, 0, 0, 0, 0}), ln(mod, "nund", [5]uint64{0, 0, 0, 2, 1}))
			}
			return t
		},
		func(r *rand.Rand) string {
			var v [5]uint64
			for i := range v {
				if r.Intn(8) == 0 {
					v[i] = randParamU64(r)
				} else {
					v[i] = 1 + uint64(r.Intn(1000))
				}
			}
			switch r.Intn(4) {
			case 0:
				v[4] = v[3]
			case 1:
				v[4] = v[3] + 1
			case 2:
				v[4] = v[3] - 1
			}
			return ln(pick(r, []string{"wrk", "bcn"}), randDenom(r), v)
		}}
}

func kindStrParams() kind {
	vals := []*big.Int{big.NewInt(-1), big.NewInt(0), big.NewInt(1), p10(16), add(p10(18), -1), p10(18), add(p10(18), 1), mul(p10(18), 2)}
	return kind{"strparams",
		func() []string {
			var t []string
			for _, v := range vals {
				t = append(t, "strparams "+v.String())
			}
			t = append(t, "strparams "+new(big.Int).Neg(p10(18)).String(), "strparams "+p2(200).String(), "strparams "+new(big.Int).Neg(p2(200)).String())
			return t
		},
		func(r *rand.Rand) string {
			var v *big.Int
			switch r.Intn(4) {
			case 0:
				v = add(p10(18), int64(r.Intn(21))-10)
			case 1:
				v = big.NewInt(int64(r.Intn(21)) - 10)
			case 2:
				v = uniformBelow(r, add(p10(18), 1))
			default:
				v = logUniform(r, 70)
				if r.Intn(3) == 0 {
					v.Neg(v)
				}
			}
			return "strparams " + v.String()
		}}
}

// ---- coins

var coinDenoms = []string{"atoken", "btoken", "nund"} // already in sorted order
var coinAmts = []string{"1", "2", "5", "24", "25", "1000000000000"}

func smallCoinSets() []string {
	sets := []string{"-"}
	for _, d := range coinDenoms {
		for _, a := range coinAmts {
			sets = append(sets, a+d)
		}
	}
	for i := 0; i < len(coinDenoms); i++ {
		for j := i + 1; j < len(coinDenoms); j++ {
			for _, a := range coinAmts {
				for _, b := range coinAmts {
					sets = append(sets, a+coinDenoms[i]+","+b+coinDenoms[j])
				}
			}
		}
	}
	return sets
}

func randCoinSet(r *rand.Rand) string {
	var parts []string
	for _, d := range coinDenoms {
		if r.Intn(2) == 0 {
			continue
		}
		a := pick(r, coinAmts)
		if r.Intn(3) == 0 {
			a = strconv.Itoa(1 + r.Intn(30))
		}
		parts = append(parts, a+d)
	}
	if len(parts) == 0 {
		return "-"
	}
	return strings.Join(parts, ",")
}

func kindCoins(name string) kind {
	return kind{name,
		func() []string {
			sets := smallCoinSets()
			t := make([]string, 0, len(sets)*len(sets))
			for _, a := range sets {
				for _, b := range sets {
					t = append(t, name+" "+a+" "+b)
				}
			}
			return t
		},
		func(r *rand.Rand) string { return name + " " + randCoinSet(r) + " " + randCoinSet(r) }}
}


// kindOwnerGate: the table is the whole domain (2 modules x 19 stored spellings x 3 recorders)
func kindOwnerGate() kind {
	all := func() []string {
		var t []string
		for _, m := range []string{"wrk", "bcn"} {
			var stored []string
			for _, c := range []string{"A", "U", "F", "T"} {
				for i := 0; i < 4; i++ {
					stored = append(stored, fmt.Sprintf("%s%d", c, i))
				}
			}
			stored = append(stored, "J", "-", "none")
			for _, s := range stored {
				for j := 0; j < 3; j++ {
					t = append(t, fmt.Sprintf("ownergate %s %s A%d", m, s, j))
				}
			}
		}
		return t
	}
	return kind{"ownergate", all, func(r *rand.Rand) string { t := all(); return t[r.Intn(len(t))] }}
}


// kindOwnerMsg: the same table through the message servers (record and storage purchase)
func kindOwnerMsg() kind {
	all := func() []string {
		var t []string
		for _, l := range kindOwnerGate().table() {
			f := strings.Fields(l)
			for _, op := range []string{"rec", "buy"} {
				t = append(t, fmt.Sprintf("ownermsg %s %s %s %s", f[1], op, f[2], f[3]))
			}
		}
		return t
	}
	return kind{"ownermsg", all, func(r *rand.Rand) string { t := all(); return t[r.Intn(len(t))] }}
}
