package main

import (
	"bufio"
	"bytes"
	"context"
	"encoding/hex"
	"fmt"
	"github.com/cosmos/cosmos-sdk/client"
	undcmd "github.com/unification-com/mainchain/cmd/und/cmd"
	"io"
	"math/big"
	"os"
	"strconv"
	"strings"
	"time"
	"verif/harness/internal/real"
	"verif/harness/internal/script"

	tmproto "github.com/cometbft/cometbft/proto/tendermint/types"
	"github.com/cosmos/cosmos-sdk/types/bech32"

	"github.com/cosmos/cosmos-sdk/crypto/keys/secp256k1"
	sdk "github.com/cosmos/cosmos-sdk/types"

	"github.com/unification-com/mainchain/app"
	undtypes "github.com/unification-com/mainchain/types"
	beaconkeeper "github.com/unification-com/mainchain/x/beacon/keeper"
	beacontypes "github.com/unification-com/mainchain/x/beacon/types"
	wrkkeeper "github.com/unification-com/mainchain/x/wrkchain/keeper"
	enttypes "github.com/unification-com/mainchain/x/enterprise/types"
	streamtypes "github.com/unification-com/mainchain/x/stream/types"
	wrktypes "github.com/unification-com/mainchain/x/wrkchain/types"
)

// A request is parsed (errors here are harness bugs, answered "badreq …" and a non-zero exit
// status) into a thunk; only the thunk – i.e. the real code plus the SDK constructors feeding
// it – runs under recover().
type thunk func() string

func runEval() int {
	app.SetConfig()
	in := bufio.NewReaderSize(os.Stdin, 1<<20)
	out := bufio.NewWriterSize(os.Stdout, 1<<20)
	defer out.Flush()
	bad := 0
	for {
		line, err := in.ReadString('\n')
		if len(line) > 0 {
			line = strings.TrimRight(line, "\r\n")
			th, perr := parseRequest(line)
			if perr != nil {
				bad++
				fmt.Fprintf(out, "badreq %s\n", strings.ReplaceAll(perr.Error(), "\n", " "))
			} else {
				fmt.Fprintln(out, protect(th))
			}
		}
		if err != nil {
			break
		}
	}
	if bad > 0 {
		out.Flush()
		fmt.Fprintf(os.Stderr, "vpure eval: %d malformed request(s)\n", bad)
		return 1
	}
	return 0
}

func protect(th thunk) (res string) {
	defer func() {
		if r := recover(); r != nil {
			res = "panic"
		}
	}()
	return th()
}

// ---------------------------------------------------------------- an application with empty stores (owner gate requests)

var (
	gateA   *app.App
	gateCtx sdk.Context
)

func gateApp() (*app.App, sdk.Context) {
	if gateA == nil {
		home, err := os.MkdirTemp("", "vpure-home-")
		if err != nil {
			panic(err)
		}
		gateA = real.NewBareApp(home)
		gateCtx = gateA.BaseApp.NewContext(true, tmproto.Header{ChainID: real.ChainID, Height: 1})
		_ = os.RemoveAll(home)
	}
	return gateA, gateCtx
}

// storedOwner maps the stored-owner token of an ownergate request to the string written into the registration.
func storedOwner(tok string) (string, bool, error) {
	switch {
	case tok == "none":
		return "", false, nil
	case tok == "-":
		return "", true, nil
	case tok == "J":
		return "owner", true, nil
	case len(tok) >= 2 && strings.ContainsRune("AUFT", rune(tok[0])):
		i, err := strconv.Atoi(tok[1:])
		if err != nil {
			return "", false, err
		}
		canon := accBech32(i)
		switch tok[0] {
		case 'A':
			return canon, true, nil
		case 'U':
			return strings.ToUpper(canon), true, nil
		case 'F':
			bz, err := sdk.AccAddressFromBech32(canon)
			if err != nil {
				return "", false, err
			}
			s, err := bech32.ConvertAndEncode("cosmos", bz)
			return s, true, err
		default:
			last := canon[len(canon)-1]
			repl := byte('q')
			if last == 'q' {
				repl = 'p'
			}
			return canon[:len(canon)-1] + string(repl), true, nil
		}
	}
	return "", false, fmt.Errorf("ownergate: unknown stored-owner token %q", tok)
}

// ---------------------------------------------------------------- token decoding

func hexTok(b []byte) string {
	if len(b) == 0 {
		return "-"
	}
	return hex.EncodeToString(b)
}

func parseHex(tok string) ([]byte, error) {
	if tok == "-" {
		return []byte{}, nil
	}
	b, err := hex.DecodeString(tok)
	if err != nil {
		return nil, fmt.Errorf("bad hex %q", tok)
	}
	return b, nil
}

func parseU64(tok string) (uint64, error) {
	v, err := strconv.ParseUint(tok, 10, 64)
	if err != nil {
		return 0, fmt.Errorf("bad u64 %q", tok)
	}
	return v, nil
}

func parseI64(tok string) (int64, error) {
	v, err := strconv.ParseInt(tok, 10, 64)
	if err != nil {
		return 0, fmt.Errorf("bad int64 %q", tok)
	}
	return v, nil
}

func parseBig(tok string) (*big.Int, error) {
	v, ok := new(big.Int).SetString(tok, 10)
	if !ok {
		return nil, fmt.Errorf("bad integer %q", tok)
	}
	return v, nil
}

func strTok(tok string) string {
	if tok == "-" {
		return ""
	}
	return tok
}

func outTok(s string) string {
	if s == "" {
		return "-"
	}
	return s
}

var billion = big.NewInt(1_000_000_000)

// nsToTime builds time.Unix(floor(ns/1e9), ns mod 1e9).UTC().
func nsToTime(ns *big.Int) (time.Time, error) {
	sec, nsec := new(big.Int).DivMod(ns, billion, new(big.Int)) // Euclidean = floor for a positive divisor
	if !sec.IsInt64() {
		return time.Time{}, fmt.Errorf("time out of range %s", ns)
	}
	return time.Unix(sec.Int64(), nsec.Int64()).UTC(), nil
}

// timeToNs prints sec*10^9+nsec with big integers.
func timeToNs(t time.Time) string {
	v := new(big.Int).Mul(big.NewInt(t.Unix()), billion)
	v.Add(v, big.NewInt(int64(t.Nanosecond())))
	return v.String()
}

var accCache = map[int]string{}

func accBech32(i int) string {
	if s, ok := accCache[i]; ok {
		return s
	}
	priv := secp256k1.GenPrivKeyFromSecret([]byte(fmt.Sprintf("verif-acc-%d", i)))
	s := sdk.AccAddress(priv.PubKey().Address()).String()
	accCache[i] = s
	return s
}

// signersString maps the signers token to the real parameter string.
func signersString(tok string) (string, error) {
	if tok == "-" {
		return "", nil
	}
	parts := strings.Split(tok, ",")
	for k, p := range parts {
		switch {
		case p == "":
		case p == "X":
			parts[k] = "notanaddress"
		case len(p) >= 2 && (p[0] == 'A' || p[0] == 'U'):
			i, err := strconv.Atoi(p[1:])
			if err != nil || i < 0 {
				return "", fmt.Errorf("bad signer token %q", p)
			}
			s := accBech32(i)
			if p[0] == 'U' {
				s = strings.ToUpper(s)
			}
			parts[k] = s
		default:
			return "", fmt.Errorf("bad signer token %q", p)
		}
	}
	return strings.Join(parts, ","), nil
}

type rawCoin struct {
	denom  string
	amount *big.Int
}

func parseCoins(tok string) ([]rawCoin, error) {
	if tok == "-" {
		return nil, nil
	}
	var res []rawCoin
	for _, p := range strings.Split(tok, ",") {
		k := 0
		for k < len(p) && p[k] >= '0' && p[k] <= '9' {
			k++
		}
		if k == 0 || k == len(p) {
			return nil, fmt.Errorf("bad coin %q", p)
		}
		a, _ := new(big.Int).SetString(p[:k], 10)
		res = append(res, rawCoin{denom: p[k:], amount: a})
	}
	return res, nil
}

func mkCoins(rc []rawCoin) sdk.Coins {
	cs := make(sdk.Coins, 0, len(rc))
	for _, c := range rc {
		cs = append(cs, sdk.Coin{Denom: c.denom, Amount: sdk.NewIntFromBigInt(c.amount)})
	}
	return cs
}

func boolTok(b bool) string {
	if b {
		return "1"
	}
	return "0"
}

func okErr(err error) string {
	if err != nil {
		return "err"
	}
	return "ok"
}

// ---------------------------------------------------------------- dispatch

var key1u64 = map[string]func(uint64) []byte{
	"ent.po":       enttypes.PurchaseOrderKey,
	"ent.raised":   enttypes.RaisedQueueStoreKey,
	"ent.accepted": enttypes.AcceptedQueueStoreKey,
	"wrk.chain":    wrktypes.WrkChainKey,
	"wrk.limit":    wrktypes.WrkChainStorageLimitKey,
	"wrk.blocks":   wrktypes.WrkChainAllBlocksKey,
	"bcn.beacon":   beacontypes.BeaconKey,
	"bcn.limit":    beacontypes.BeaconStorageLimitKey,
	"bcn.tss":      beacontypes.BeaconAllTimestampsKey,
}

var key2u64 = map[string]func(uint64, uint64) []byte{
	"wrk.block": wrktypes.WrkChainBlockKey,
	"bcn.ts":    beacontypes.BeaconTimestampKey,
}

var keyAddr = map[string]func(sdk.AccAddress) []byte{
	"ent.locked": enttypes.LockedUndAddressStoreKey,
	"ent.spent":  enttypes.SpentEFUNDAddressStoreKey,
	"ent.wl":     enttypes.WhitelistAddressStoreKey,
	"str.recv":   streamtypes.GetStreamsByReceiverKey,
}

// runConvertCmd executes the cobra command behind `und convert` in process and returns what it prints after " = ".
func runConvertCmd(amount, from, to string) (string, error) {
	cmd := undcmd.GetDenomConversionCmd()
	var buf bytes.Buffer
	cctx := client.Context{}.WithOutput(&buf)
	ctx := context.WithValue(context.Background(), client.ClientContextKey, &cctx)
	cmd.SetContext(ctx)
	cmd.SetOut(&buf)
	cmd.SetErr(io.Discard)
	cmd.SilenceUsage, cmd.SilenceErrors = true, true
	cmd.SetArgs([]string{"--", amount, from, to})
	if err := cmd.Execute(); err != nil {
		return "", err
	}
	out := strings.TrimRight(buf.String(), "\n")
	i := strings.LastIndex(out, " = ")
	if i < 0 {
		return "", fmt.Errorf("unexpected output %q", out)
	}
	return out[i+3:], nil
}

func need(f []string, n int) error {
	if len(f) != n {
		return fmt.Errorf("%s: want %d tokens, got %d", f[0], n, len(f))
	}
	return nil
}

func parseRequest(line string) (thunk, error) {
	f := strings.Split(line, " ")
	if len(f) == 0 || f[0] == "" {
		return nil, fmt.Errorf("empty request")
	}
	for _, t := range f {
		if t == "" {
			return nil, fmt.Errorf("empty token (double space?) in %q", line)
		}
	}
	switch f[0] {
	case "key":
		if len(f) < 3 {
			return nil, fmt.Errorf("key: too few tokens")
		}
		if fn, ok := key1u64[f[1]]; ok {
			if err := need(f, 3); err != nil {
				return nil, err
			}
			v, err := parseU64(f[2])
			if err != nil {
				return nil, err
			}
			return func() string { return hexTok(fn(v)) }, nil
		}
		if fn, ok := key2u64[f[1]]; ok {
			if err := need(f, 4); err != nil {
				return nil, err
			}
			a, err := parseU64(f[2])
			if err != nil {
				return nil, err
			}
			b, err := parseU64(f[3])
			if err != nil {
				return nil, err
			}
			return func() string { return hexTok(fn(a, b)) }, nil
		}
		if fn, ok := keyAddr[f[1]]; ok {
			if err := need(f, 3); err != nil {
				return nil, err
			}
			a, err := parseHex(f[2])
			if err != nil {
				return nil, err
			}
			return func() string { return hexTok(fn(sdk.AccAddress(a))) }, nil
		}
		if f[1] == "str.stream" {
			if err := need(f, 4); err != nil {
				return nil, err
			}
			r, err := parseHex(f[2])
			if err != nil {
				return nil, err
			}
			s, err := parseHex(f[3])
			if err != nil {
				return nil, err
			}
			return func() string {
				return hexTok(streamtypes.GetStreamKey(sdk.AccAddress(r), sdk.AccAddress(s)))
			}, nil
		}
		return nil, fmt.Errorf("unknown key kind %q", f[1])

	case "parse":
		if err := need(f, 3); err != nil {
			return nil, err
		}
		bz, err := parseHex(f[2])
		if err != nil {
			return nil, err
		}
		switch f[1] {
		case "str.stream":
			return func() string {
				r, s := streamtypes.AddressesFromStreamKey(bz)
				return hexTok(r) + " " + hexTok(s)
			}, nil
		case "u64":
			return func() string {
				return strconv.FormatUint(enttypes.GetPurchaseOrderIDFromBytes(bz), 10)
			}, nil
		}
		return nil, fmt.Errorf("unknown parse kind %q", f[1])

	case "dur":
		if err := need(f, 3); err != nil {
			return nil, err
		}
		dep, err := parseBig(f[1])
		if err != nil {
			return nil, err
		}
		rate, err := parseI64(f[2])
		if err != nil {
			return nil, err
		}
		return func() string {
			coin := sdk.NewCoin("nund", sdk.NewIntFromBigInt(dep))
			return strconv.FormatInt(streamtypes.CalculateDuration(coin, rate), 10)
		}, nil

	case "claim":
		if err := need(f, 6); err != nil {
			return nil, err
		}
		var ts [3]time.Time
		for k := 0; k < 3; k++ {
			ns, err := parseBig(f[1+k])
			if err != nil {
				return nil, err
			}
			if ts[k], err = nsToTime(ns); err != nil {
				return nil, err
			}
		}
		dep, err := parseBig(f[4])
		if err != nil {
			return nil, err
		}
		rate, err := parseI64(f[5])
		if err != nil {
			return nil, err
		}
		return func() string {
			coin := sdk.NewCoin("nund", sdk.NewIntFromBigInt(dep))
			c, r := streamtypes.CalculateAmountToClaim(ts[0], ts[1], ts[2], coin, rate)
			return c.Amount.String() + " " + r.Amount.String()
		}, nil

	case "valfee":
		if err := need(f, 3); err != nil {
			return nil, err
		}
		fee, err := parseBig(f[1])
		if err != nil {
			return nil, err
		}
		amt, err := parseBig(f[2])
		if err != nil {
			return nil, err
		}
		return func() string {
			dec := sdk.NewDecFromBigIntWithPrec(fee, 18)
			coin := sdk.NewCoin("nund", sdk.NewIntFromBigInt(amt))
			fin, vf := streamtypes.CalculateValidatorFee(dec, coin)
			return fin.Amount.String() + " " + vf.Amount.String()
		}, nil

	case "addsec":
		if err := need(f, 3); err != nil {
			return nil, err
		}
		ns, err := parseBig(f[1])
		if err != nil {
			return nil, err
		}
		t, err := nsToTime(ns)
		if err != nil {
			return nil, err
		}
		d, err := parseI64(f[2])
		if err != nil {
			return nil, err
		}
		return func() string {
			// exactly the expression used by the stream keeper
			return timeToNs(t.Add(time.Second * time.Duration(d)))
		}, nil

	case "conv":
		if err := need(f, 4); err != nil {
			return nil, err
		}
		amount, from, to := strTok(f[1]), strTok(f[2]), strTok(f[3])
		return func() string {
			// through the node's conversion command (cmd/und/cmd), as a user runs it: `und convert <amount> <from> <to>`
			res, err := runConvertCmd(amount, from, to)
			if err != nil {
				return "err"
			}
			// the library function underneath must agree with what the command prints
			if lib, lerr := undtypes.ConvertUndDenomination(amount, from, to); lerr != nil || lib != res {
				return "cli=" + outTok(res) + "/lib=" + outTok(lib)
			}
			return outTok(res)
		}, nil

	case "entparams":
		if err := need(f, 5); err != nil {
			return nil, err
		}
		minAcc, err := parseU64(f[2])
		if err != nil {
			return nil, err
		}
		limit, err := parseU64(f[3])
		if err != nil {
			return nil, err
		}
		signers, err := signersString(f[4])
		if err != nil {
			return nil, err
		}
		denom := script.Untok(f[1]) // `~` = blank, `^` = tab
		return func() string {
			return okErr(enttypes.NewParams(denom, minAcc, limit, signers).Validate())
		}, nil

	case "regparams":
		if err := need(f, 8); err != nil {
			return nil, err
		}
		var u [5]uint64
		for k := range u {
			v, err := parseU64(f[3+k])
			if err != nil {
				return nil, err
			}
			u[k] = v
		}
		denom := script.Untok(f[2]) // `~` = blank, `^` = tab
		switch f[1] {
		case "wrk":
			return func() string {
				return okErr(wrktypes.NewParams(u[0], u[1], u[2], denom, u[3], u[4]).Validate())
			}, nil
		case "bcn":
			return func() string {
				return okErr(beacontypes.NewParams(u[0], u[1], u[2], denom, u[3], u[4]).Validate())
			}, nil
		}
		return nil, fmt.Errorf("regparams: unknown module %q", f[1])

	case "strparams":
		if err := need(f, 2); err != nil {
			return nil, err
		}
		fee, err := parseBig(f[1])
		if err != nil {
			return nil, err
		}
		return func() string {
			return okErr(streamtypes.NewParams(sdk.NewDecFromBigIntWithPrec(fee, 18)).Validate())
		}, nil

	case "ownergate":
		// ownergate <wrk|bcn> <stored owner> <recorder A<j>>: the keeper's IsAuthorisedToRecord on a registration (id 1) whose
		// stored Owner string is: A<i> canonical bech32, U<i> the same in upper case, F<i> the same bytes under a foreign
		// prefix, T<i> canonical with a wrong last character, J an arbitrary word, - the empty string, none: no registration
		if err := need(f, 4); err != nil {
			return nil, err
		}
		if f[1] != "wrk" && f[1] != "bcn" {
			return nil, fmt.Errorf("ownergate: unknown module %q", f[1])
		}
		stored, present, err := storedOwner(f[2])
		if err != nil {
			return nil, err
		}
		if !strings.HasPrefix(f[3], "A") {
			return nil, fmt.Errorf("ownergate: recorder must be A<j>")
		}
		j, err := strconv.Atoi(f[3][1:])
		if err != nil {
			return nil, err
		}
		mod := f[1]
		return func() string {
			a, base := gateApp()
			ctx, _ := base.CacheContext()
			rec, err := sdk.AccAddressFromBech32(accBech32(j))
			if err != nil {
				return "panic"
			}
			if mod == "bcn" {
				if present {
					_ = a.BeaconKeeper.SetBeacon(ctx, beacontypes.Beacon{BeaconId: 1, Moniker: "m", Name: "n", Owner: stored})
				}
				return boolTok(a.BeaconKeeper.IsAuthorisedToRecord(ctx, 1, rec))
			}
			if present {
				_ = a.WrkchainKeeper.SetWrkChain(ctx, wrktypes.WrkChain{WrkchainId: 1, Moniker: "m", Name: "n", Owner: stored})
			}
			return boolTok(a.WrkchainKeeper.IsAuthorisedToRecord(ctx, 1, rec))
		}, nil

	case "ownermsg":
		// ownermsg <wrk|bcn> <rec|buy> <stored owner> <A<j>>: the MESSAGE SERVER's record / storage-purchase handler, called with
		// a message naming A<j> as owner, on a registration (id 1, limit 3, default parameters) whose stored Owner string is as
		// in `ownergate`; 1 = the message took effect, 0 = it was refused
		if err := need(f, 5); err != nil {
			return nil, err
		}
		if (f[1] != "wrk" && f[1] != "bcn") || (f[2] != "rec" && f[2] != "buy") {
			return nil, fmt.Errorf("ownermsg: want <wrk|bcn> <rec|buy>")
		}
		stored, present, err := storedOwner(f[3])
		if err != nil {
			return nil, err
		}
		if !strings.HasPrefix(f[4], "A") {
			return nil, fmt.Errorf("ownermsg: recorder must be A<j>")
		}
		j, err := strconv.Atoi(f[4][1:])
		if err != nil {
			return nil, err
		}
		mod, op := f[1], f[2]
		return func() string {
			a, base := gateApp()
			ctx, _ := base.CacheContext()
			ctx = ctx.WithBlockTime(time.Unix(1700000000, 0))
			who := accBech32(j)
			var e error
			if mod == "bcn" {
				_ = a.BeaconKeeper.SetParams(ctx, beacontypes.DefaultParams())
				if present {
					_ = a.BeaconKeeper.SetBeacon(ctx, beacontypes.Beacon{BeaconId: 1, Moniker: "m", Name: "n", Owner: stored})
					_ = a.BeaconKeeper.SetBeaconStorageLimit(ctx, 1, 3)
				}
				srv := beaconkeeper.NewMsgServerImpl(a.BeaconKeeper)
				if op == "rec" {
					_, e = srv.RecordBeaconTimestamp(sdk.WrapSDKContext(ctx), &beacontypes.MsgRecordBeaconTimestamp{BeaconId: 1, Hash: "h", SubmitTime: 1700000000, Owner: who})
				} else {
					_, e = srv.PurchaseBeaconStateStorage(sdk.WrapSDKContext(ctx), &beacontypes.MsgPurchaseBeaconStateStorage{BeaconId: 1, Number: 1, Owner: who})
				}
			} else {
				_ = a.WrkchainKeeper.SetParams(ctx, wrktypes.DefaultParams())
				if present {
					_ = a.WrkchainKeeper.SetWrkChain(ctx, wrktypes.WrkChain{WrkchainId: 1, Moniker: "m", Name: "n", Owner: stored})
					_ = a.WrkchainKeeper.SetWrkChainStorageLimit(ctx, 1, 3)
				}
				srv := wrkkeeper.NewMsgServerImpl(a.WrkchainKeeper)
				if op == "rec" {
					_, e = srv.RecordWrkChainBlock(sdk.WrapSDKContext(ctx), &wrktypes.MsgRecordWrkChainBlock{WrkchainId: 1, Height: 1, BlockHash: "a", Owner: who})
				} else {
					_, e = srv.PurchaseWrkChainStateStorage(sdk.WrapSDKContext(ctx), &wrktypes.MsgPurchaseWrkChainStateStorage{WrkchainId: 1, Number: 1, Owner: who})
				}
			}
			return boolTok(e == nil)
		}, nil

	case "coins.lt", "coins.gt":
		if err := need(f, 3); err != nil {
			return nil, err
		}
		ra, err := parseCoins(f[1])
		if err != nil {
			return nil, err
		}
		rb, err := parseCoins(f[2])
		if err != nil {
			return nil, err
		}
		lt := f[0] == "coins.lt"
		return func() string {
			a, b := mkCoins(ra), mkCoins(rb)
			if lt {
				return boolTok(a.IsAllLT(b))
			}
			return boolTok(a.IsAllGT(b))
		}, nil
	}
	return nil, fmt.Errorf("unknown request %q", f[0])
}
