// Command vpure is the Go side of the "pure engine" (PROTOCOL.md §5).
//
//	vpure eval < requests > answers   call the real functions of the app under test, one answer per request
//	vpure gen -seed S -n N [-kinds a,b] [-full]   deterministic, boundary-heavy request generator
//	vpure version
//
// The program only imports the repository under test; it never writes into it.
package main

import (
	"bufio"
	"flag"
	"fmt"
	"os"
	"strings"
)

const version = "vpure 1 (PROTOCOL.md section 5)"

func usage() {
	fmt.Fprintln(os.Stderr, "usage: vpure eval < requests > answers")
	fmt.Fprintln(os.Stderr, "       vpure gen -seed S -n N [-kinds a,b,c] [-full] > requests")
	fmt.Fprintln(os.Stderr, "       vpure kinds")
	fmt.Fprintln(os.Stderr, "       vpure version")
	os.Exit(2)
}

func main() {
	if len(os.Args) < 2 {
		usage()
	}
	switch os.Args[1] {
	case "version":
		fmt.Println(version)
	case "kinds":
		for _, k := range allKinds() {
			fmt.Println(k.name)
		}
	case "eval":
		os.Exit(runEval())
	case "gen":
		fs := flag.NewFlagSet("gen", flag.ExitOnError)
		seed := fs.Int64("seed", 1, "math/rand seed")
		n := fs.Int("n", 100, "requests per kind")
		kinds := fs.String("kinds", "", "comma separated kind names or prefixes (default: all); see `vpure kinds`")
		full := fs.Bool("full", false, "emit every boundary table completely, then n random requests per kind")
		_ = fs.Parse(os.Args[2:])
		var sel []string
		if *kinds != "" {
			sel = strings.Split(*kinds, ",")
		}
		w := bufio.NewWriterSize(os.Stdout, 1<<20)
		if err := runGen(w, *seed, *n, sel, *full); err != nil {
			w.Flush()
			fmt.Fprintln(os.Stderr, "vpure gen:", err)
			os.Exit(2)
		}
		w.Flush()
	default:
		usage()
	}
}
