// Package script holds the symbolic (token level) representation of the line protocol of
// /verif/PROTOCOL.md §2: genesis, transactions and messages, with parser and printer.
// Nothing in here knows about the real application; tokens are kept verbatim so that
// print(parse(line)) == line for every line the generator emits.
package script

import (
	"fmt"
	"strconv"
	"strings"
)

// Msg is one message in prefix form. Args are the raw tokens after the kind. For
// authz.exec Args = [grantee] and Sub holds the payload messages.
type Msg struct {
	Kind string
	Args []string
	Sub  []Msg
}

// Arity is the number of argument tokens of every message kind (authz.exec: grantee and
// count, followed by the payload messages).
var Arity = map[string]int{
	"ent.raise": 3, "ent.decide": 3, "ent.wl": 3, "ent.params": 5,
	"wrk.reg": 5, "wrk.rec": 8, "wrk.buy": 3, "wrk.params": 7,
	"bcn.reg": 3, "bcn.rec": 4, "bcn.buy": 3, "bcn.params": 7,
	"str.create": 5, "str.claim": 2, "str.topup": 4, "str.rate": 3, "str.cancel": 2, "str.params": 2,
	"bank.send": 3, "authz.grant": 3, "authz.revoke": 3, "authz.exec": 2, "feegrant.grant": 2,
}

// Kinds lists the message kinds in a fixed order (used by generator and statistics).
var Kinds = []string{
	"ent.raise", "ent.decide", "ent.wl", "ent.params",
	"wrk.reg", "wrk.rec", "wrk.buy", "wrk.params",
	"bcn.reg", "bcn.rec", "bcn.buy", "bcn.params",
	"str.create", "str.claim", "str.topup", "str.rate", "str.cancel", "str.params",
	"bank.send", "authz.grant", "authz.revoke", "authz.exec", "feegrant.grant",
}

// M builds a plain message.
func M(kind string, args ...string) Msg { return Msg{Kind: kind, Args: args} }

// Exec builds an authz.exec message.
func Exec(grantee string, payload ...Msg) Msg {
	return Msg{Kind: "authz.exec", Args: []string{grantee}, Sub: payload}
}

func (m Msg) String() string {
	if m.Kind == "authz.exec" {
		parts := []string{m.Kind, m.Args[0], strconv.Itoa(len(m.Sub))}
		for _, s := range m.Sub {
			parts = append(parts, s.String())
		}
		return strings.Join(parts, " ")
	}
	return m.Kind + " " + strings.Join(m.Args, " ")
}

// parseMsg consumes one message from toks and returns the rest.
func parseMsg(toks []string) (Msg, []string, error) {
	if len(toks) == 0 {
		return Msg{}, nil, fmt.Errorf("missing message")
	}
	kind := toks[0]
	n, ok := Arity[kind]
	if !ok {
		return Msg{}, nil, fmt.Errorf("unknown message kind %q", kind)
	}
	if len(toks) < 1+n {
		return Msg{}, nil, fmt.Errorf("%s: want %d arguments, have %d", kind, n, len(toks)-1)
	}
	if kind != "authz.exec" {
		return Msg{Kind: kind, Args: append([]string(nil), toks[1:1+n]...)}, toks[1+n:], nil
	}
	k, err := strconv.Atoi(toks[2])
	if err != nil || k < 0 {
		return Msg{}, nil, fmt.Errorf("authz.exec: bad payload count %q", toks[2])
	}
	m := Msg{Kind: kind, Args: []string{toks[1]}}
	rest := toks[3:]
	for i := 0; i < k; i++ {
		var s Msg
		if s, rest, err = parseMsg(rest); err != nil {
			return Msg{}, nil, err
		}
		m.Sub = append(m.Sub, s)
	}
	return m, rest, nil
}

// ParseMsg parses exactly one message from the tokens.
func ParseMsg(toks []string) (Msg, error) {
	m, rest, err := parseMsg(toks)
	if err == nil && len(rest) != 0 {
		err = fmt.Errorf("%s: trailing tokens %v", m.Kind, rest)
	}
	return m, err
}

// ParseMsgs parses "<msg> [; <msg>]…" (the body of a TX, CHECK or GOVEXEC line).
func ParseMsgs(toks []string) ([]Msg, error) {
	var out []Msg
	rest := toks
	for {
		m, r, err := parseMsg(rest)
		if err != nil {
			return nil, err
		}
		out = append(out, m)
		if len(r) == 0 {
			return out, nil
		}
		if r[0] != ";" {
			return nil, fmt.Errorf("expected ';' between messages, found %q", r[0])
		}
		rest = r[1:]
	}
}

// Tx is a TX or CHECK line.
type Tx struct {
	N       int
	Signers []string // A<i> tokens of the keys that sign, in order
	Granter string   // A<i> or "-"
	Payer   string   // explicit fee payer A<i>, "-" or "" when not set (optional field payer=)
	Fee     string   // coin list token or "-"
	Sig     string   // ok | badkey | badseq
	Msgs    []Msg
}

// Line prints the transaction with the given verb (TX or CHECK).
func (t Tx) Line(verb string) string {
	ms := make([]string, len(t.Msgs))
	for i, m := range t.Msgs {
		ms[i] = m.String()
	}
	payer := ""
	if t.Payer != "" && t.Payer != "-" {
		payer = " payer=" + t.Payer
	}
	return fmt.Sprintf("%s %d signers=%s granter=%s%s fee=%s sig=%s :: %s",
		verb, t.N, List(t.Signers), t.Granter, payer, t.Fee, t.Sig, strings.Join(ms, " ; "))
}

// ParseTx parses the tokens following TX / CHECK.
func ParseTx(toks []string) (Tx, error) {
	var t Tx
	if len(toks) >= 8 && toks[6] == "::" && strings.HasPrefix(toks[3], "payer=") { // optional payer= field
		t.Payer = strings.TrimPrefix(toks[3], "payer=")
		toks = append(append([]string{}, toks[:3]...), toks[4:]...)
	} else {
		t.Payer = "-"
	}
	if len(toks) < 7 || toks[5] != "::" {
		return t, fmt.Errorf("malformed transaction line")
	}
	n, err := strconv.Atoi(toks[0])
	if err != nil {
		return t, fmt.Errorf("bad transaction number %q", toks[0])
	}
	t.N = n
	kv, err := keyvals(toks[1:5], "signers", "granter", "fee", "sig")
	if err != nil {
		return t, err
	}
	t.Signers, t.Granter, t.Fee, t.Sig = SplitList(kv[0]), kv[1], kv[2], kv[3]
	if t.Sig != "ok" && t.Sig != "badkey" && t.Sig != "badseq" {
		return t, fmt.Errorf("bad sig mode %q", t.Sig)
	}
	rest := toks[6:]
	for {
		var m Msg
		if m, rest, err = parseMsg(rest); err != nil {
			return t, err
		}
		t.Msgs = append(t.Msgs, m)
		if len(rest) == 0 {
			return t, nil
		}
		if rest[0] != ";" {
			return t, fmt.Errorf("expected ';' between messages, found %q", rest[0])
		}
		rest = rest[1:]
	}
}

// keyvals checks that toks are exactly key=value tokens with the given keys in order.
func keyvals(toks []string, keys ...string) ([]string, error) {
	if len(toks) != len(keys) {
		return nil, fmt.Errorf("want fields %v", keys)
	}
	out := make([]string, len(keys))
	for i, k := range keys {
		if !strings.HasPrefix(toks[i], k+"=") {
			return nil, fmt.Errorf("want field %s=, found %q", k, toks[i])
		}
		out[i] = toks[i][len(k)+1:]
		if out[i] == "" {
			return nil, fmt.Errorf("empty value for %s (use -)", k)
		}
	}
	return out, nil
}

// List prints a token list ("-" when empty).
func List(xs []string) string {
	if len(xs) == 0 {
		return "-"
	}
	return strings.Join(xs, ",")
}

// SplitList is the inverse of List.
func SplitList(s string) []string {
	if s == "-" || s == "" {
		return nil
	}
	return strings.Split(s, ",")
}

// Tok prints a string as a token (empty string is "-"; a blank is written "~", a tab "^": tokens hold no white space).
func Tok(s string) string {
	if s == "" {
		return "-"
	}
	return strings.NewReplacer(" ", "~", "\t", "^").Replace(s)
}

// Untok is the inverse of Tok.
func Untok(s string) string {
	if s == "-" {
		return ""
	}
	return strings.NewReplacer("~", " ", "^", "\t").Replace(s)
}

// ---- genesis

// Acct is one "G acct" line.
type Acct struct {
	Kind    string // base | vest | none
	Coins   string // coin list token
	Vesting string // original vesting coin list token (vest only)
	End     int64  // vesting end time, unix seconds (vest only)
}

// Fees holds the wrkchain / beacon parameters plus the starting id.
type Fees struct {
	Denom                        string
	Reg, Rec, Buy, Def, Max, Sid uint64
}

// Genesis is the scenario genesis (§2.1).
type Genesis struct {
	Time  int64
	Accts []Acct
	Ent   struct {
		Denom           string
		Min, Limit, Sid uint64
		Signers, WL     []string
	}
	Wrk, Bcn Fees
	StrFee   string      // 18-decimal scaled integer
	Addrs    [][2]string // "G addr" lines in script order: token, lower-case hex of the address bytes (§6)
	Long     [][2]string // "G lacct <L-token> <coins>": a long (non-key) address that holds an account and coins in genesis
	Grants   [][3]string // "G authz <granter> <grantee> <kind>": authz grants (generic, no expiry) present in genesis
	seen     map[string]bool
}

func (f Fees) line(name string) string {
	return fmt.Sprintf("G %s denom=%s reg=%d rec=%d buy=%d def=%d max=%d startid=%d", name, Tok(f.Denom), f.Reg, f.Rec, f.Buy, f.Def, f.Max, f.Sid)
}

// Lines prints the genesis section including the terminating INIT.
func (g *Genesis) Lines() []string {
	out := []string{fmt.Sprintf("G time %d", g.Time)}
	for i, a := range g.Accts {
		switch a.Kind {
		case "base":
			out = append(out, fmt.Sprintf("G acct A%d base %s", i, a.Coins))
		case "vest":
			out = append(out, fmt.Sprintf("G acct A%d vest %s %s %d", i, a.Coins, a.Vesting, a.End))
		default:
			out = append(out, fmt.Sprintf("G acct A%d none", i))
		}
	}
	for _, a := range g.Addrs {
		out = append(out, fmt.Sprintf("G addr %s %s", a[0], a[1]))
	}
	for _, a := range g.Long {
		out = append(out, fmt.Sprintf("G lacct %s %s", a[0], a[1]))
	}
	for _, a := range g.Grants {
		out = append(out, fmt.Sprintf("G authz %s %s %s", a[0], a[1], a[2]))
	}
	out = append(out, fmt.Sprintf("G ent denom=%s min=%d limit=%d signers=%s wl=%s startid=%d",
		Tok(g.Ent.Denom), g.Ent.Min, g.Ent.Limit, List(g.Ent.Signers), List(g.Ent.WL), g.Ent.Sid))
	out = append(out, g.Wrk.line("wrk"), g.Bcn.line("bcn"), "G str fee="+g.StrFee, "INIT")
	return out
}

func parseFees(toks []string) (Fees, error) {
	var f Fees
	kv, err := keyvals(toks, "denom", "reg", "rec", "buy", "def", "max", "startid")
	if err != nil {
		return f, err
	}
	f.Denom = Untok(kv[0])
	for i, p := range []*uint64{&f.Reg, &f.Rec, &f.Buy, &f.Def, &f.Max, &f.Sid} {
		if *p, err = strconv.ParseUint(kv[i+1], 10, 64); err != nil {
			return f, err
		}
	}
	return f, nil
}

// AddLine consumes one "G …" line (toks[0] == "G").
func (g *Genesis) AddLine(toks []string) error {
	if len(toks) < 2 {
		return fmt.Errorf("malformed G line")
	}
	if g.seen == nil {
		g.seen = map[string]bool{}
	}
	what, rest := toks[1], toks[2:]
	if what != "acct" && what != "addr" && what != "lacct" && what != "authz" {
		if g.seen[what] {
			return fmt.Errorf("duplicate G %s", what)
		}
		g.seen[what] = true
	}
	var err error
	switch what {
	case "time":
		if len(rest) != 1 {
			return fmt.Errorf("G time: want one value")
		}
		g.Time, err = strconv.ParseInt(rest[0], 10, 64)
	case "acct":
		if len(rest) < 2 || rest[0] != fmt.Sprintf("A%d", len(g.Accts)) {
			return fmt.Errorf("G acct: accounts must be declared A0, A1, … in order")
		}
		if len(g.Accts) >= 16 {
			return fmt.Errorf("G acct: at most 16 accounts")
		}
		a := Acct{Kind: rest[1]}
		switch {
		case a.Kind == "base" && len(rest) == 3:
			a.Coins = rest[2]
		case a.Kind == "vest" && len(rest) == 5:
			a.Coins, a.Vesting = rest[2], rest[3]
			a.End, err = strconv.ParseInt(rest[4], 10, 64)
		case a.Kind == "none" && len(rest) == 2:
		default:
			return fmt.Errorf("G acct: malformed %v", rest)
		}
		g.Accts = append(g.Accts, a)
	case "lacct":
		if len(rest) != 2 || !strings.HasPrefix(rest[0], "L") {
			return fmt.Errorf("G lacct: want <L-token> <coins>")
		}
		g.Long = append(g.Long, [2]string{rest[0], rest[1]})
	case "authz":
		if len(rest) != 3 {
			return fmt.Errorf("G authz: want <granter> <grantee> <kind>")
		}
		g.Grants = append(g.Grants, [3]string{rest[0], rest[1], rest[2]})
	case "addr":
		if len(rest) != 2 || rest[1] == "" || rest[1] != strings.ToLower(rest[1]) {
			return fmt.Errorf("G addr: want <token> <lower-case hex>")
		}
		for _, a := range g.Addrs {
			if a[0] == rest[0] {
				return fmt.Errorf("duplicate G addr %s", rest[0])
			}
		}
		g.Addrs = append(g.Addrs, [2]string{rest[0], rest[1]})
	case "ent":
		var kv []string
		if kv, err = keyvals(rest, "denom", "min", "limit", "signers", "wl", "startid"); err != nil {
			return err
		}
		g.Ent.Denom, g.Ent.Signers, g.Ent.WL = Untok(kv[0]), SplitList(kv[3]), SplitList(kv[4])
		for _, f := range []struct {
			i int
			p *uint64
		}{{1, &g.Ent.Min}, {2, &g.Ent.Limit}, {5, &g.Ent.Sid}} {
			if *f.p, err = strconv.ParseUint(kv[f.i], 10, 64); err != nil {
				return err
			}
		}
	case "wrk":
		g.Wrk, err = parseFees(rest)
	case "bcn":
		g.Bcn, err = parseFees(rest)
	case "str":
		var kv []string
		if kv, err = keyvals(rest, "fee"); err == nil {
			g.StrFee = kv[0]
		}
	default:
		return fmt.Errorf("unknown genesis line G %s", what)
	}
	return err
}

// Complete reports whether every mandatory genesis line was given.
func (g *Genesis) Complete() error {
	for _, k := range []string{"time", "ent", "wrk", "bcn", "str"} {
		if !g.seen[k] {
			return fmt.Errorf("missing G %s", k)
		}
	}
	if len(g.Accts) == 0 {
		return fmt.Errorf("missing G acct")
	}
	return nil
}

// MarkAll marks a programmatically built genesis as complete.
func (g *Genesis) MarkAll() {
	g.seen = map[string]bool{"time": true, "ent": true, "wrk": true, "bcn": true, "str": true}
}
