package gen

import (
	"math/big"
	"sort"
	"strconv"
	"strings"

	"verif/harness/internal/script"
)

// exactFee is the fee the wrkchain / beacon ante handlers expect for the top-level messages,
// computed from the current parameters (nested authz.exec payloads are not charged).
func exactFee(v *view, msgs []script.Msg) map[string]*big.Int {
	fee := map[string]*big.Int{}
	add := func(denom string, per uint64, times string) {
		if denom == "" {
			return
		}
		n, ok := new(big.Int).SetString(times, 10)
		if !ok {
			return
		}
		if fee[denom] == nil {
			fee[denom] = new(big.Int)
		}
		fee[denom].Add(fee[denom], n.Mul(n, new(big.Int).SetUint64(per)))
	}
	for _, m := range msgs {
		rv := &v.wrk
		if strings.HasPrefix(m.Kind, "bcn.") {
			rv = &v.bcn
		}
		switch m.Kind {
		case "wrk.reg", "bcn.reg":
			add(rv.denom, rv.reg, "1")
		case "wrk.rec", "bcn.rec":
			add(rv.denom, rv.rec, "1")
		case "wrk.buy", "bcn.buy":
			add(rv.denom, rv.buy, m.Args[1])
		}
	}
	return fee
}

func coinList(fee map[string]*big.Int) string {
	var ds []string
	for d, x := range fee {
		if x.Sign() != 0 {
			ds = append(ds, d)
		}
	}
	sort.Strings(ds)
	for i, d := range ds {
		ds[i] = fee[d].String() + d
	}
	return script.List(ds)
}

// feeToken chooses the fee of a transaction: exact or one of the deviating shapes.
func (g *G) feeToken(v *view, msgs []script.Msg) string {
	fee := exactFee(v, msgs)
	if len(fee) == 0 {
		if g.chance(90) {
			return "-"
		}
		return g.pick("1nund", "5btoken", "1000atoken", "1btoken,1nund", "0nund", "1nund,1xtoken")
	}
	var first string
	for d := range fee {
		if first == "" || d < first {
			first = d
		}
	}
	bump := func(d string, by int64) {
		if fee[d] == nil {
			fee[d] = new(big.Int)
		}
		fee[d].Add(fee[d], big.NewInt(by))
	}
	// storage purchases with counts near 2^64: now and then pay what a check pays that adds the counts in uint64
	// (or multiplies them as int64) — the sum of the counts modulo 2^64
	{
		two64 := new(big.Int).Lsh(big.NewInt(1), 64)
		for _, mod := range []string{"wrk", "bcn"} {
			sum, huge := new(big.Int), false
			rv := &v.wrk
			if mod == "bcn" {
				rv = &v.bcn
			}
			for _, m := range msgs {
				if m.Kind == mod+".buy" && len(m.Args) > 1 {
					if n, ok := new(big.Int).SetString(m.Args[1], 10); ok {
						sum.Add(sum, n)
						huge = huge || n.BitLen() >= 63
					}
				}
			}
			if huge && rv.denom != "" && g.chance(50) {
				sum.Mod(sum, two64)
				sum.Mul(sum, new(big.Int).SetUint64(rv.buy))
				g.st.MsgsPerTx["fee-for-wrapped-count"]++
				if sum.Sign() == 0 {
					return "-"
				}
				return sum.String() + rv.denom
			}
		}
	}
	// several fee-bearing operations: now and then pay for a proper subset of them only (the last, the first, a
	// random subset) — an admission check that prices only some of the operations admits exactly these
	var bearing []script.Msg
	for _, m := range msgs {
		if len(exactFee(v, []script.Msg{m})) > 0 {
			bearing = append(bearing, m)
		}
	}
	if len(bearing) > 1 && g.chance(25) {
		var sub []script.Msg
		switch g.rng.Intn(3) {
		case 0:
			sub = bearing[len(bearing)-1:]
		case 1:
			sub = bearing[:1]
		default:
			for _, m := range bearing {
				if g.chance(50) {
					sub = append(sub, m)
				}
			}
			if len(sub) == 0 || len(sub) == len(bearing) {
				sub = bearing[1:]
			}
		}
		g.st.MsgsPerTx["fee-for-subset"]++
		return coinList(exactFee(v, sub))
	}
	x := g.rng.Intn(100)
	switch {
	case x < g.w.exactPct:
	case x < g.w.exactPct+(100-g.w.exactPct)/5:
		bump(first, 1)
	case x < g.w.exactPct+2*(100-g.w.exactPct)/5:
		bump(first, -1)
	case x < g.w.exactPct+3*(100-g.w.exactPct)/5:
		return "-"
	case x < g.w.exactPct+4*(100-g.w.exactPct)/5:
		bump(g.pick("btoken", "xtoken"), 1) // an extra denomination sorting before / after the native one
	default:
		if g.chance(50) {
			return "1" + first + ",1000xtoken"
		}
		return "1000btoken,1" + first
	}
	return coinList(fee)
}

// kind draws a message kind according to the focus weights.
func (g *G) kind() string {
	x := g.rng.Intn(g.w.total)
	for i, k := range g.w.kinds {
		if x -= g.w.weight[i]; x < 0 {
			return k
		}
	}
	return g.w.kinds[0]
}

// tx assembles one transaction from the live state v.
func (g *G) tx(v *view, check bool) script.Tx {
	aware := g.chance(85)
	kind := g.kind()
	if check && g.chance(70) { // probes concentrate on the fee-checked kinds
		kind = g.pick("wrk.reg", "wrk.rec", "wrk.buy", "bcn.reg", "bcn.rec", "bcn.buy")
	}
	if pre, ok := prerequisite[kind]; ok && aware && !g.feasible(kind, v, -1) && g.chance(75) {
		if kind = pre; !g.feasible(kind, v, -1) && prerequisite[kind] != "" {
			kind = prerequisite[kind]
		}
	}
	if g.w.bulkPct > 0 && g.chance(g.w.bulkPct) {
		kind = g.pick("wrk.buy", "bcn.buy")
	}
	if (kind == "wrk.buy" || kind == "bcn.buy") && (g.chance(30) || g.w.bulkPct > 0) {
		if t, ok := g.bulkBuy(v, kind); ok {
			return t
		}
	}
	var msgs []script.Msg
	first := g.msg(kind, v, aware, -1, 0)
	if g.chance(2) { // a parameter update sent as an ordinary transaction by an account that names itself as the authority
		first = g.govMsg(v)
		first.Args[0] = g.acct(g.liveAcct(v, true))
		kind = first.Kind
	}
	if kind != "authz.exec" && g.chance(g.w.execPct) {
		grantee := signerOf(first) // self exec: needs no grant
		if grantee < 0 || g.chance(20) {
			grantee = g.anyAcct()
		}
		first = script.Exec(A(grantee), first)
	}
	msgs = append(msgs, first)
	signer := signerOf(first)
	several := false // messages of several signers: every one of them must sign, the first one pays the fee
	if g.chance(g.w.multiPct) && signer >= 0 {
		several = g.chance(30)
		for extra := 1 + g.rng.Intn(3); extra > 0; extra-- {
			k := g.kind()
			who := signer
			if several {
				who = -1
			}
			if aware && !g.feasible(k, v, who) {
				k = g.pick(anyone...)
			}
			msgs = append(msgs, g.msg(k, v, aware, who, 0))
		}
	}
	if g.w.scramble > 0 && g.chance(g.w.scramble) { // signer focus: anybody signs, anybody is named
		m := &msgs[0]
		if p, ok := signerPos[m.Kind]; ok {
			m.Args[p] = g.acct(g.anyAcct())
			// name a holder of locked eFUND on a WRKChain/BEACON message now and then: the fee unlock acts on the
			// named payer before the signatures are verified
			if len(v.locked) > 0 && (m.Kind[:3] == "wrk" || m.Kind[:3] == "bcn") && g.chance(50) {
				m.Args[p] = A(g.pickInt(v.locked))
			}
			signer = signerOf(*m)
		}
		if p, ok := otherPos[m.Kind]; ok && g.chance(35) {
			m.Args[p] = g.acct(g.anyAcct())
		}
	}
	key := signer
	if key < 0 || (g.w.scramble > 0 && g.chance(25)) {
		key = g.anyAcct()
	}
	t := script.Tx{N: g.next(), Signers: []string{A(key)}, Granter: "-", Sig: "ok", Msgs: msgs}
	if several {
		var req []string
		seen := map[int]bool{}
		for _, m := range msgs {
			if i := signerOf(m); i >= 0 && !seen[i] {
				seen[i] = true
				req = append(req, A(i))
			}
		}
		if len(req) > 0 {
			switch x := g.rng.Intn(100); {
			case x < 85:
			case x < 90 && len(req) > 1:
				req = req[:len(req)-1] // one signature missing
			case x < 95 && len(req) > 1:
				req[0], req[1] = req[1], req[0] // wrong order: another account in the fee payer's place
			default:
				req = append(req, A(g.anyAcct())) // one signature too many
			}
			t.Signers = req
			key, _ = strconv.Atoi(req[0][1:])
			g.st.MsgsPerTx["several-signers"]++
		}
	}
	t.Fee = g.feeToken(v, msgs)
	// an explicit fee payer (AuthInfo.Fee.Payer) other than the first signer: it pays, and it signs too (last)
	if g.chance(g.w.payerPct) && len(t.Signers) >= 1 {
		p := g.liveAcct(v, aware)
		if len(v.locked) > 0 && g.chance(50) {
			p = g.pickInt(v.locked) // a holder of locked eFUND
		}
		t.Payer = A(p)
		key = p // the allowance that counts is the fee payer's
		has := false
		for _, s := range t.Signers {
			has = has || s == t.Payer
		}
		if !has && g.chance(92) { // now and then the payer's signature is missing
			t.Signers = append(t.Signers, t.Payer)
		}
		g.st.MsgsPerTx["explicit-fee-payer"]++
	}
	for _, fg := range v.feegrants {
		if fg[1] == key && g.chance(g.w.granterPct) {
			t.Granter = A(fg[0])
		}
	}
	if t.Granter == "-" && g.chance(2) {
		t.Granter = A(g.anyAcct())
	}
	switch x := g.rng.Intn(100); {
	case x < 2:
		t.Sig = "badkey"
	case x < 4:
		t.Sig = "badseq"
	}
	g.st.MsgsPerTx[itoa(len(msgs))]++
	return t
}

// bulkBuy assembles a transaction of several storage purchases of one module for different registrations —
// existing and unknown ones, within and beyond what may be purchased — signed by one account: the slot check of
// the ante handler sums the requests per registration in a map and walks that map.
func (g *G) bulkBuy(v *view, kind string) (script.Tx, bool) {
	rv := &v.wrk
	if kind[:3] == "bcn" {
		rv = &v.bcn
	}
	if len(rv.items) == 0 {
		return script.Tx{}, false
	}
	first := rv.items[g.rng.Intn(len(rv.items))]
	if first.owner < 0 {
		return script.Tx{}, false
	}
	var msgs []script.Msg
	if g.chance(15) { // two purchases for one registration whose counts add up to a small number modulo 2^64
		pair := [][2]uint64{{maxU64, 2}, {maxU64 - 1, 3}, {1 << 63, (1 << 63) + 1}, {2, maxU64}}[g.rng.Intn(4)]
		msgs = append(msgs, script.M(kind, u(first.id), u(pair[0]), A(first.owner)), script.M(kind, u(first.id), u(pair[1]), A(first.owner)))
	}
	for n := 2 + g.rng.Intn(3); n > 0 && len(msgs) == 0; n-- {
		id, room := g.unknownID(rv.next), rv.max
		if g.chance(60) {
			it := rv.items[g.rng.Intn(len(rv.items))]
			if g.chance(50) {
				it = first
			}
			id, room = u(it.id), 0
			if rv.max > it.limit {
				room = rv.max - it.limit
			}
		}
		num := uint64(1 + g.rng.Intn(3))
		switch g.rng.Intn(6) {
		case 0:
			num = room + 1
		case 1:
			num = rv.max + 1 + uint64(g.rng.Intn(3))
		case 2: // counts whose uint64 sum wraps to something small, or that turn negative as int64
			num = []uint64{maxU64, maxU64 - 1, 1 << 63, (1 << 63) + 1}[g.rng.Intn(4)]
		}
		msgs = append(msgs, script.M(kind, id, u(num), A(first.owner)))
	}
	t := script.Tx{N: g.next(), Signers: []string{A(first.owner)}, Granter: "-", Sig: "ok", Msgs: msgs}
	t.Fee = g.feeToken(v, msgs)
	g.st.MsgsPerTx[itoa(len(msgs))]++
	g.st.MsgsPerTx["bulk-buy"]++
	return t, true
}

// govMsg generates the payload of a GOVEXEC line: a parameter update of one of the four
// modules, valid (65 %) or invalid.
func (g *G) govMsg(v *view) script.Msg {
	valid := g.chance(65)
	auth := "Mgov"
	if !valid && g.chance(35) {
		auth = g.pick(A(g.anyAcct()), "X", "-", "Ment")
	}
	denom := "nund"
	if !valid && g.chance(25) {
		denom = g.pick("-", "atoken", "1bad", "nund~", "~nund", "^nund") // also well-formed but for a blank or tab at an end
	} else if g.chance(5) {
		denom = "atoken" // a legal, if unusual, change
	}
	which := g.rng.Intn(4)
	if g.w.quorum {
		which, valid, auth, denom = 0, valid || g.chance(60), "Mgov", "nund"
	}
	switch which {
	case 0:
		n := 1 + g.rng.Intn(minInt(g.n, 5))
		var signers []string
		for _, i := range g.rng.Perm(minInt(g.n, 6))[:n] {
			signers = append(signers, g.acct(i))
		}
		if g.chance(6) && len(signers) > 1 { // the same address listed twice (accepted by Validate: it does not de-duplicate)
			signers = append(signers, signers[0])
			n = len(signers)
		}
		min, limit := u(uint64(1+g.rng.Intn(n))), g.pick("30", "30", "5", "1", "100000", "10000000000", "9223372036854775808", "18446744073709551615")
		if g.w.quorum {
			limit = g.pick("100000", "100000", "30")
		}
		if !valid {
			switch g.rng.Intn(4) {
			case 0:
				min = g.pick("0", u(uint64(n+1)), u(maxU64))
			case 1:
				limit = "0"
			case 2:
				signers = g.rng2(signers, "X")
			case 3:
				signers = nil
			}
		}
		return script.M("ent.params", auth, denom, min, limit, script.List(signers))
	case 1, 2:
		kind := g.pick("wrk.params", "bcn.params")
		f := [][3]string{{"24", "2", "2"}, {"1000000000000", "1000000000", "5000000000"}, {"1", "1", "1"}, {"100", "7", "3"}}[g.rng.Intn(4)]
		l := [][2]string{{"3", "6"}, {"2", "2"}, {"1", "5"}, {"200", "300"}, {"4", "4"},
			{"3", "18446744073709551615"}, {"1", "9223372036854775808"}, {"5", "9223372036854775807"}, {"2", "4294967296"}}[g.rng.Intn(9)]
		if g.chance(8) { // fee parameters at the int64 boundary (the code converts them with int64())
			f = [][3]string{{"9223372036854775807", "1", "1"}, {"24", "9223372036854775808", "2"}, {"24", "2", "18446744073709551615"}}[g.rng.Intn(3)]
		}
		if !valid {
			switch g.rng.Intn(3) {
			case 0:
				f[g.rng.Intn(3)] = "0"
			case 1:
				l = [2]string{"7", "6"}
			case 2:
				l[g.rng.Intn(2)] = "0"
			}
		}
		return script.M(kind, auth, denom, f[0], f[1], f[2], l[0], l[1])
	}
	fee := g.pick("0", "1", "10000000000000000", "500000000000000000", "1000000000000000000", "240000000000000000",
		"25000000000000000", "5000000000000000", "999000000000000000", "123456789012345678")
	if !valid && g.chance(60) {
		fee = g.pick("-1", "1000000000000000001", "2000000000000000000")
	}
	return script.M("str.params", auth, fee)
}

// proposal generates the messages of one governance proposal: mostly a single parameter update; now and then two or
// three messages, among them an update that fails or a transfer out of the (usually empty) gov account, which makes
// x/gov discard everything the earlier messages of the proposal did.
func (g *G) proposal(v *view) []script.Msg {
	ms := []script.Msg{g.govMsg(v)}
	if !g.chance(25) {
		return ms
	}
	for n := 1 + g.rng.Intn(2); n > 0; n-- {
		if g.chance(40) {
			ms = append(ms, script.M("bank.send", "Mgov", A(g.anyAcct()), g.pick("1000000000000000000000nund", "7nund", "1atoken")))
		} else {
			ms = append(ms, g.govMsg(v))
		}
	}
	return ms
}

func (g *G) rng2(xs []string, x string) []string {
	if len(xs) == 0 {
		return []string{x}
	}
	xs[g.rng.Intn(len(xs))] = x
	return xs
}

func minInt(a, b int) int {
	if a < b {
		return a
	}
	return b
}
