package gen

import (
	"strconv"
	"strings"
	"time"

	sdk "github.com/cosmos/cosmos-sdk/types"
	"github.com/cosmos/cosmos-sdk/x/authz"
	"github.com/cosmos/cosmos-sdk/x/feegrant"
	streamtypes "github.com/unification-com/mainchain/x/stream/types"

	"verif/harness/internal/real"
	"verif/harness/internal/script"
)

// view is the part of the live application state the generator draws its state-aware
// choices from. Account references are scenario indices; -1 means "not a scenario account".
type view struct {
	now time.Time
	n   int // number of scenario accounts

	entDenom   string
	entSigners []int
	wl         []int
	raised     []poInfo
	poNext     uint64
	locked     []int // accounts holding locked eFUND

	wrk, bcn regView
	streams  []streamInfo
	strFee   string

	grants    []grant  // authz grants between scenario accounts
	feegrants [][2]int // (granter, grantee)
	funded    []int    // accounts that exist and can spend nund
	exists    map[int]bool
}

type poInfo struct {
	id      uint64
	decided map[int]bool
}

type regView struct {
	denom                   string
	reg, rec, buy, def, max uint64
	next                    uint64
	items                   []regItem
}

type regItem struct {
	id          uint64
	owner       int
	last, limit uint64
}

type streamInfo struct {
	r, s    int
	denom   string
	deposit sdk.Int
	rate    int64
	zero    time.Time
}

type grant struct {
	granter, grantee int
	kind             string
}

func acctIndex(tok string) int {
	if len(tok) >= 2 && (tok[0] == 'A' || tok[0] == 'U') {
		if i, err := strconv.Atoi(tok[1:]); err == nil {
			return i
		}
	}
	if len(tok) == 2 && tok[0] == 'L' { // the long addresses L0.. are the indexes -10, -11, ..
		return -10 - int(tok[1]-'0')
	}
	return -1
}

// newView reads the state through the application's keepers.
func newView(r *real.Runner, ctx sdk.Context) *view {
	a, sym := r.App, r.Sym
	v := &view{now: r.Time, n: len(sym.Addrs), exists: map[int]bool{}}
	idxS := func(s string) int { return acctIndex(sym.TokString(s)) }
	idxB := func(b []byte) int { return acctIndex(sym.TokBytes(b)) }

	ep := a.EnterpriseKeeper.GetParams(ctx)
	v.entDenom = ep.Denom
	for _, s := range strings.Split(ep.EntSigners, ",") {
		if i := idxS(s); i >= 0 {
			v.entSigners = append(v.entSigners, i)
		}
	}
	for _, s := range a.EnterpriseKeeper.GetAllWhitelistedAddresses(ctx) {
		if i := idxS(s); i >= 0 {
			v.wl = append(v.wl, i)
		}
	}
	for _, id := range a.EnterpriseKeeper.GetAllRaisedPurchaseOrders(ctx) {
		po, _ := a.EnterpriseKeeper.GetPurchaseOrder(ctx, id)
		info := poInfo{id: id, decided: map[int]bool{}}
		for _, d := range po.Decisions {
			info.decided[idxS(d.Signer)] = true
		}
		v.raised = append(v.raised, info)
	}
	v.poNext, _ = a.EnterpriseKeeper.GetHighestPurchaseOrderID(ctx)
	for _, l := range a.EnterpriseKeeper.GetAllLockedUnds(ctx) {
		if i := idxS(l.Owner); i >= 0 && l.Amount.Amount.IsPositive() {
			v.locked = append(v.locked, i)
		}
	}

	wp := a.WrkchainKeeper.GetParams(ctx)
	v.wrk = regView{denom: wp.Denom, reg: wp.FeeRegister, rec: wp.FeeRecord, buy: wp.FeePurchaseStorage, def: wp.DefaultStorageLimit, max: wp.MaxStorageLimit}
	v.wrk.next, _ = a.WrkchainKeeper.GetHighestWrkChainID(ctx)
	for _, c := range a.WrkchainKeeper.GetAllWrkChains(ctx) {
		l, _ := a.WrkchainKeeper.GetWrkChainStorageLimit(ctx, c.WrkchainId)
		v.wrk.items = append(v.wrk.items, regItem{id: c.WrkchainId, owner: idxS(c.Owner), last: c.Lastblock, limit: l.InStateLimit})
	}
	bp := a.BeaconKeeper.GetParams(ctx)
	v.bcn = regView{denom: bp.Denom, reg: bp.FeeRegister, rec: bp.FeeRecord, buy: bp.FeePurchaseStorage, def: bp.DefaultStorageLimit, max: bp.MaxStorageLimit}
	v.bcn.next, _ = a.BeaconKeeper.GetHighestBeaconID(ctx)
	for _, b := range a.BeaconKeeper.GetAllBeacons(ctx) {
		l, _ := a.BeaconKeeper.GetBeaconStorageLimit(ctx, b.BeaconId)
		v.bcn.items = append(v.bcn.items, regItem{id: b.BeaconId, owner: idxS(b.Owner), last: b.LastTimestampId, limit: l.InStateLimit})
	}

	v.strFee = a.StreamKeeper.GetParams(ctx).ValidatorFee.BigInt().String()
	func() {
		defer func() { _ = recover() }() // a key the parser chokes on: the digest reports it
		a.StreamKeeper.IterateAllStreams(ctx, func(recv, send sdk.AccAddress, s streamtypes.Stream) bool {
			v.streams = append(v.streams, streamInfo{r: idxB(recv), s: idxB(send), denom: s.Deposit.Denom, deposit: s.Deposit.Amount,
				rate: s.FlowRate, zero: s.DepositZeroTime})
			return false
		})
	}()

	kindOf := map[string]string{}
	for _, k := range script.Kinds {
		url, _ := real.TypeURL(k)
		kindOf[url] = k
	}
	a.AuthzKeeper.IterateGrants(ctx, func(granter, grantee sdk.AccAddress, g authz.Grant) bool {
		ga, ok := g.Authorization.GetCachedValue().(*authz.GenericAuthorization)
		if gi, ge := idxB(granter), idxB(grantee); ok && (gi >= 0 || gi <= -10) && ge >= 0 && kindOf[ga.Msg] != "" {
			v.grants = append(v.grants, grant{gi, ge, kindOf[ga.Msg]})
		}
		return false
	})
	_ = a.FeeGrantKeeper.IterateAllFeeAllowances(ctx, func(g feegrant.Grant) bool {
		if gi, ge := idxS(g.Granter), idxS(g.Grantee); gi >= 0 && ge >= 0 {
			v.feegrants = append(v.feegrants, [2]int{gi, ge})
		}
		return false
	})
	for i, addr := range sym.Addrs {
		if a.AccountKeeper.HasAccount(ctx, addr) {
			v.exists[i] = true
			if a.BankKeeper.SpendableCoins(ctx, addr).AmountOf("nund").GT(sdk.NewInt(1_000_000_000_000_000)) {
				v.funded = append(v.funded, i)
			}
		}
	}
	return v
}
