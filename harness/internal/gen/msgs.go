package gen

import (
	"fmt"
	"math"
	"math/big"
	"strconv"

	"verif/harness/internal/script"
)

// signerPos is the argument index holding the address whose signature the message needs.
var signerPos = map[string]int{
	"ent.raise": 0, "ent.decide": 2, "ent.wl": 2, "wrk.reg": 4, "wrk.rec": 7, "wrk.buy": 2,
	"bcn.reg": 2, "bcn.rec": 3, "bcn.buy": 2, "str.create": 1, "str.claim": 0, "str.topup": 1,
	"str.rate": 1, "str.cancel": 1, "bank.send": 0, "authz.grant": 0, "authz.revoke": 0,
	"authz.exec": 0, "feegrant.grant": 0,
	"ent.params": 0, "wrk.params": 0, "bcn.params": 0, "str.params": 0, // the authority named by a parameter update signs it
}

// otherPos is a second address argument (the "named address"), -1 if there is none.
var otherPos = map[string]int{
	"ent.wl": 1, "str.create": 0, "str.claim": 1, "str.topup": 0, "str.rate": 0, "str.cancel": 0,
	"bank.send": 1, "authz.grant": 1, "authz.revoke": 1, "feegrant.grant": 1,
}

// signerOf returns the scenario account that has to sign m (-1 if the signer position does
// not name one).
func signerOf(m script.Msg) int {
	p, ok := signerPos[m.Kind]
	if !ok || p >= len(m.Args) {
		return -1
	}
	return acctIndex(m.Args[p])
}

const maxU64 = math.MaxUint64

func u(x uint64) string { return strconv.FormatUint(x, 10) }
func A(i int) string    { return fmt.Sprintf("A%d", i) }

func (g *G) pick(xs ...string) string { return xs[g.rng.Intn(len(xs))] }
func (g *G) pickInt(xs []int) int     { return xs[g.rng.Intn(len(xs))] }
func (g *G) chance(pct int) bool      { return g.rng.Intn(100) < pct }
func (g *G) anyAcct() int             { return g.rng.Intn(g.n) }

// liveAcct prefers an account that exists and can pay (aware choices), else any account.
func (g *G) liveAcct(v *view, aware bool) int {
	if aware && len(v.funded) > 0 {
		return g.pickInt(v.funded)
	}
	return g.anyAcct()
}

// feasible reports whether the live state offers who (-1: anybody) an object on which a
// message of the kind can succeed.
func (g *G) feasible(kind string, v *view, who int) bool {
	has := func(xs []int) bool {
		for _, x := range xs {
			if who < 0 || x == who {
				return true
			}
		}
		return false
	}
	switch kind {
	case "ent.raise":
		return has(v.wl)
	case "ent.wl":
		return has(v.entSigners)
	case "ent.decide":
		for _, po := range v.raised {
			for _, s := range v.entSigners {
				if !po.decided[s] && (who < 0 || s == who) {
					return true
				}
			}
		}
		return false
	case "wrk.rec", "bcn.rec", "wrk.buy", "bcn.buy":
		rv := &v.wrk
		if kind[:3] == "bcn" {
			rv = &v.bcn
		}
		for _, it := range rv.items {
			if ((who < 0 && it.owner >= 0) || it.owner == who) && (kind[4:] == "rec" || it.limit < rv.max) {
				return true
			}
		}
		return false
	case "str.claim":
		_, ok := g.pickStream(v, who, 'r')
		return ok
	case "str.topup", "str.rate", "str.cancel":
		_, ok := g.pickStream(v, who, 's')
		return ok
	case "authz.revoke":
		for _, x := range v.grants {
			if x.granter >= 0 && (who < 0 || x.granter == who) {
				return true
			}
		}
		return false
	}
	return true
}

// prerequisite is the kind that creates what the given kind needs.
var prerequisite = map[string]string{
	"ent.decide": "ent.raise", "ent.raise": "ent.wl", "wrk.rec": "wrk.reg", "wrk.buy": "wrk.reg", "bcn.rec": "bcn.reg",
	"bcn.buy": "bcn.reg", "str.claim": "str.create", "str.topup": "str.create", "str.rate": "str.create",
	"str.cancel": "str.create", "authz.revoke": "authz.grant",
}

// anyone lists kinds every funded account can perform.
var anyone = []string{"bank.send", "str.create", "wrk.reg", "bcn.reg", "feegrant.grant", "authz.grant"}

// acct spells account i, now and then in upper case.
func (g *G) acct(i int) string {
	if i <= -10 {
		return fmt.Sprintf("L%d", -10-i)
	}
	if g.chance(4) {
		return fmt.Sprintf("U%d", i)
	}
	return A(i)
}

// badAddr is an address token that names no usable scenario account.
func (g *G) badAddr() string {
	return g.pick("X", "-", "Ment", "Mstr", "Mgov", "Mfee", "UMfee", "UMstr", "UMent", "UMdist", fmt.Sprintf("U%d", g.anyAcct()))
}

// payer picks an account able to pay fees and deposits (falls back to any account).
func (g *G) payer(v *view, who int) int {
	if who >= 0 || who <= -10 { // a scenario account, or a long address acting through a grant
		return who
	}
	if len(v.locked) > 0 && g.chance(g.w.lockedPct) {
		return g.pickInt(v.locked) // pays (partly) with locked eFUND
	}
	if len(v.funded) > 0 {
		return g.pickInt(v.funded)
	}
	return g.anyAcct()
}

func (g *G) other(not int) int {
	for {
		if i := g.anyAcct(); i != not || g.n == 1 {
			return i
		}
	}
}

const alnum = "abcdefghijklmnopqrstuvwxyzABCDEFGHIJKLMNOPQRSTUVWXYZ0123456789"

// str is a random [a-zA-Z0-9]* token. Aware: short, sometimes exactly at the limit;
// arbitrary: one of the boundary lengths.
func (g *G) str(aware bool, limit int) string {
	n := 1 + g.rng.Intn(10)
	switch {
	case !aware:
		n = []int{0, 64, 65, 66, 67, 128, 129}[g.rng.Intn(7)]
	case g.chance(6):
		n = limit
	case g.chance(4):
		n = 0
	}
	g.st.StrLen[strconv.Itoa(n)]++
	b := make([]byte, n)
	for i := range b {
		b[i] = alnum[g.rng.Intn(len(alnum))]
	}
	if n > 0 && g.chance(8) { // white space at the edges and inside (written ~ and ^ in the script, see script.Tok)
		b[0] = " \t"[g.rng.Intn(2)]
		if g.chance(60) {
			b[n-1] = ' '
		}
		if n > 2 && g.chance(30) {
			b[n/2] = ' '
		}
		g.st.StrLen["blank-padded"]++
	}
	return script.Tok(string(b))
}

// pickItem chooses a registration: aware prefers one owned by who (or by any scenario account).
func (g *G) pickItem(rv *regView, who int) (regItem, bool) {
	var own []regItem
	for _, it := range rv.items {
		if (who < 0 && it.owner >= 0) || (who >= 0 && it.owner == who) {
			own = append(own, it)
		}
	}
	if len(own) == 0 {
		return regItem{}, false
	}
	return own[g.rng.Intn(len(own))], true
}

func (g *G) unknownID(next uint64) string {
	return g.pick("0", u(next), u(next+3), u(maxU64), u(1+uint64(g.rng.Intn(4))))
}

// pickStream chooses an existing stream between scenario accounts; role 'r'/'s' restricts who.
func (g *G) pickStream(v *view, who int, role byte) (streamInfo, bool) {
	var c []streamInfo
	for _, s := range v.streams {
		if s.r == -1 || s.s == -1 || (s.r < 0 && role == 'r') { // the long addresses receive; they send only through a grant
			continue
		}
		if (who == -1 && s.s >= 0) || (role == 'r' && s.r == who) || (role == 's' && s.s == who) {
			c = append(c, s)
		}
	}
	if len(c) == 0 {
		return streamInfo{}, false
	}
	return c[g.rng.Intn(len(c))], true
}

// msg generates one message of the kind. aware: draw from the live state so that the message
// is likely to succeed; otherwise produce one of the malformed / unauthorised shapes.
// who >= 0 forces the account in the signer position.
func (g *G) msg(kind string, v *view, aware bool, who int, depth int) script.Msg {
	M := script.M
	switch kind {
	case "ent.raise":
		p := who
		if p == -1 {
			if p = g.liveAcct(v, aware); aware && len(v.wl) > 0 {
				p = g.pickInt(v.wl)
			}
		}
		ptok, amt, denom := g.acct(p), g.pick("1", "24", "1000", "5000", "1000000", "5000000000000", "2000000000000"), script.Tok(v.entDenom)
		if g.chance(7) { // totals beyond 2^62 / 2^63 / 2^64 and far beyond (sdk.Int is 256 bit)
			amt = g.pick("4611686018427387904", "9223372036854775807", "18446744073709551616",
				"1606938044258990275541962092341162602522202993782792835301376")
		}
		if !aware {
			switch g.rng.Intn(4) {
			case 0:
				amt = g.pick("0", "-1", "-5000", "57896044618658097711785492504343953926634992332820282019728792003956564819968")
			case 1:
				denom = g.pick("atoken", "-", "btoken", "NUND")
			case 2:
				ptok = g.badAddr()
			}
		}
		return M(kind, ptok, amt, denom)

	case "ent.decide":
		s, id, dec := who, g.unknownID(v.poNext), g.pick("2", "2", "2", "3")
		if g.w.quorum {
			dec = g.pick("2", "3")
		}
		if aware && len(v.raised) > 0 {
			po := v.raised[g.rng.Intn(len(v.raised))]
			id = u(po.id)
			var free []int
			for _, x := range v.entSigners {
				if !po.decided[x] {
					free = append(free, x)
				}
			}
			if s < 0 && len(free) > 0 {
				s = g.pickInt(free)
			}
		}
		if s < 0 {
			if s = g.liveAcct(v, aware); aware && len(v.entSigners) > 0 {
				s = g.pickInt(v.entSigners)
			}
		}
		stok := g.acct(s)
		if !aware {
			switch g.rng.Intn(3) {
			case 0:
				dec = g.pick("0", "1", "4", "5", "-1", "2147483647")
			case 1:
				if len(v.raised) > 0 {
					id = u(v.raised[0].id)
				}
				stok = A(g.anyAcct())
			}
		}
		return M(kind, id, dec, stok)

	case "ent.wl":
		s := who
		if s < 0 {
			if s = g.liveAcct(v, aware); aware && len(v.entSigners) > 0 {
				s = g.pickInt(v.entSigners)
			}
		}
		in := map[int]bool{}
		for _, x := range v.wl {
			in[x] = true
		}
		t := g.anyAcct()
		act := "1"
		if in[t] {
			act = "2"
		}
		ttok := g.acct(t)
		if !aware {
			switch g.rng.Intn(3) {
			case 0:
				act = g.pick("0", "3", "-1", "1", "2")
			case 1:
				ttok = g.badAddr()
			}
		}
		return M(kind, act, ttok, g.acct(s))

	case "wrk.reg":
		o := g.payer(v, who)
		otok := g.acct(o)
		if !aware && g.chance(30) {
			otok = g.badAddr()
		}
		return M(kind, g.moniker(aware), g.str(aware, 128), g.str(aware, 66), g.pick("geth", "tendermint", "cosmos", "-", g.str(aware, 10)), otok)

	case "bcn.reg":
		o := g.payer(v, who)
		otok := g.acct(o)
		if !aware && g.chance(30) {
			otok = g.badAddr()
		}
		return M(kind, g.moniker(aware), g.strNonEmpty(aware, 128), otok)

	case "wrk.rec", "bcn.rec", "wrk.buy", "bcn.buy":
		rv := &v.wrk
		if kind[:3] == "bcn" {
			rv = &v.bcn
		}
		it, ok := g.pickItem(rv, who)
		if !ok && who >= 0 { // forced signer owns nothing: aim at any registration
			it, ok = g.pickItem(rv, -1)
		}
		o, id := who, g.unknownID(rv.next)
		if ok {
			id = u(it.id)
			if o < 0 {
				o = it.owner
			}
		}
		if o < 0 {
			o = g.liveAcct(v, aware)
		}
		if !aware {
			switch g.rng.Intn(3) {
			case 0:
				id = g.unknownID(rv.next)
			case 1:
				if who < 0 {
					o = g.anyAcct() // most likely not the owner
				}
			}
		}
		otok := g.acct(o)
		switch kind {
		case "wrk.rec":
			h := it.last + 1
			switch x := g.rng.Intn(100); {
			case x < 15:
				h = it.last + 2 + uint64(g.rng.Intn(5))
			case x < 22:
				h = it.last
			case x < 25:
				h = 1
			case x < 27:
				h = maxU64
			case x < 33: // sparse heights: far more than any in-state limit above the last one
				h = it.last + []uint64{1000, 50001, 1 << 32, 1 << 62}[g.rng.Intn(4)]
			}
			if !aware && g.chance(30) {
				h = []uint64{0, 1, maxU64, it.last}[g.rng.Intn(4)]
			}
			return M(kind, id, u(h), g.strNonEmpty(aware, 66), g.str(aware, 66), g.str(aware, 66), g.str(aware, 66), g.str(aware, 66), otok)
		case "bcn.rec":
			sub := uint64(v.now.Unix())
			if g.chance(20) {
				sub = []uint64{1, 0, maxU64, uint64(g.rng.Intn(1000))}[g.rng.Intn(4)]
			}
			return M(kind, id, g.strNonEmpty(aware, 66), u(sub), otok)
		}
		num := uint64(1)
		if room := rv.max - it.limit; ok && rv.max > it.limit && g.chance(80) {
			num = 1 + uint64(g.rng.Int63n(int64(minU(room, 4))))
			if g.chance(15) {
				num = room
			}
		}
		if !aware || g.chance(5) {
			num = []uint64{0, maxU64, maxU64 - it.limit, maxU64 - it.limit + 1, 1 << 63, rv.max, rv.max + 1}[g.rng.Intn(7)]
		}
		return M(kind, id, u(num), otok)

	case "str.create":
		s := g.payer(v, who)
		r := g.other(s)
		if g.chance(g.w.longPct) {
			r = -10 - g.rng.Intn(5) // a receiver whose address is not 20 bytes long (or shares its first 20 bytes with another)
		}
		if aware { // prefer a pair without a stream
			for try := 0; try < 4 && g.hasStream(v, r, s); try++ {
				r = g.other(s)
			}
		}
		if who == -1 && g.chance(6) { // … now and then a pair whose stream has run out (claimed or not): refused, the record stays
			var old []streamInfo
			for _, x := range v.streams {
				if x.s >= 0 && x.r != -1 && !x.zero.After(v.now) {
					old = append(old, x)
				}
			}
			if len(old) > 0 {
				x := old[g.rng.Intn(len(old))]
				r, s = x.r, x.s
			}
		}
		denom := g.pick("nund", "nund", "atoken", "btoken")
		rate := []int64{1, 1 + int64(g.rng.Intn(50)), 1000, 1_000_000, 1_000_000_000}[g.rng.Intn(5)]
		dur := []int64{60, 61, 100, 3600, 86400, 31536000}[g.rng.Intn(6)]
		if g.chance(6) { // durations around and beyond what a time.Duration holds (292 years); some wrap to small positives
			dur = []int64{9223372036, 9223372037, 10000000000, 18446744074, 18446747674, 27670116110}[g.rng.Intn(6)]
			rate = 1
		}
		if denom == "btoken" && rate > 1000 {
			rate = 1000
		}
		dep := new(big.Int).Mul(big.NewInt(rate), big.NewInt(dur))
		dep.Add(dep, big.NewInt(int64(g.rng.Intn(int(minU(uint64(rate), 1000))))))
		rtok, stok, amt, rt := g.acct(r), g.acct(s), dep.String(), strconv.FormatInt(rate, 10)
		if !aware {
			switch g.rng.Intn(5) {
			case 0:
				rtok = stok // self stream
			case 1:
				rtok = g.badAddr()
			case 2:
				amt = g.pick("0", "-1", "59", new(big.Int).Mul(big.NewInt(rate), big.NewInt(59)).String())
			case 3:
				rt = g.pick("0", "-1", "9223372036854775807")
			case 4:
				amt, denom = "100000000000000000000000000000000000000", "atoken" // more than anybody owns
			}
		}
		return M(kind, rtok, stok, amt, denom, rt)

	case "str.claim", "str.topup", "str.rate", "str.cancel":
		role := byte('s')
		if kind == "str.claim" {
			role = 'r'
		}
		st, ok := g.pickStream(v, who, role)
		if !ok || !aware {
			me := who
			if me == -1 {
				me = g.liveAcct(v, aware)
			}
			if x, found := g.pickStream(v, -1, role); found && who == -1 && g.chance(50) {
				st = x // existing stream, but the wrong party acts
				st.r, st.s = x.s, x.r
			} else if st = (streamInfo{r: g.other(me), s: me, denom: "nund", rate: 1}); role == 'r' {
				st.r, st.s = me, g.other(me)
			}
		}
		rtok, stok := g.acct(st.r), g.acct(st.s)
		if !aware && g.chance(20) {
			if role == 'r' {
				stok = g.badAddr()
			} else {
				rtok = g.badAddr()
			}
		}
		switch kind {
		case "str.claim", "str.cancel":
			return M(kind, rtok, stok)
		case "str.topup":
			amt := new(big.Int).Mul(big.NewInt(st.rate), big.NewInt(1+int64(g.rng.Intn(600)))).String()
			denom := st.denom
			if !aware {
				switch g.rng.Intn(3) {
				case 0:
					amt = g.pick("0", "-1")
				case 1:
					denom = g.pick("btoken", "atoken", "nund", "-")
				}
			}
			return M(kind, rtok, stok, amt, script.Tok(denom))
		}
		rate := []int64{1, st.rate * 2, st.rate/2 + 1, 1 + int64(g.rng.Intn(50)), 1_000_000}[g.rng.Intn(5)]
		if rate < 1 || g.chance(3) {
			rate = math.MaxInt64
		}
		rt := strconv.FormatInt(rate, 10)
		if !aware && g.chance(50) {
			rt = g.pick("0", "-1", "-9223372036854775808")
		}
		return M(kind, rtok, stok, rt)

	case "bank.send":
		f := g.payer(v, who)
		ttok := g.acct(g.other(f))
		if g.chance(g.w.longPct / 2) {
			ttok = g.acct(-10 - g.rng.Intn(5))
		}
		if g.chance(8) {
			ttok = "Mgov"
			if g.w.genesis && g.chance(75) { // coins held by gov make every later genesis import fail: keep it rare
				ttok = g.acct(g.other(f))
			}
		}
		coins := g.pick("1nund", "1000nund", "5btoken", "7atoken", "1000000000000nund", "3btoken,9nund", "1atoken,1btoken,1nund", "2nund,5xtoken")
		ftok := g.acct(f)
		if !aware {
			switch g.rng.Intn(4) {
			case 0:
				ttok = g.pick("Ment", "Mstr", "Mfee", "Mdist", "Mbond", "X", "-", "UMent", "UMstr", "UMfee")
			case 1:
				coins = g.pick("0nund", "-1nund", "-", "5nund,3btoken", "1nund,1nund", "2000000000000000000nund", "1stake")
			case 2:
				ftok = g.badAddr()
			case 3:
				ftok = A(g.anyAcct()) // possibly the vesting or the never-funded account
			}
		}
		return M(kind, ftok, ttok, coins)

	case "authz.grant":
		gr := who
		if gr < 0 {
			gr = g.liveAcct(v, aware)
		}
		k := g.execKinds[g.rng.Intn(len(g.execKinds))]
		if aware { // grant something the granter can actually do
			var c []string
			for _, x := range v.entSigners {
				if x == gr {
					c = append(c, "ent.decide", "ent.wl")
				}
			}
			for _, x := range v.wl {
				if x == gr {
					c = append(c, "ent.raise")
				}
			}
			for _, it := range v.wrk.items {
				if it.owner == gr {
					c = append(c, "wrk.rec", "wrk.buy")
				}
			}
			for _, it := range v.bcn.items {
				if it.owner == gr {
					c = append(c, "bcn.rec", "bcn.buy")
				}
			}
			if len(c) > 0 && g.chance(60) {
				k = g.pick(c...)
			}
		}
		ge := A(g.other(gr))
		if !aware && g.chance(40) {
			ge = g.pick(A(gr), "X", "-")
		}
		return M(kind, A(gr), ge, k)

	case "authz.revoke":
		var mine []grant
		for _, x := range v.grants {
			if x.granter >= 0 && (who < 0 || x.granter == who) { // the grants of the long addresses stay: nobody can sign for them
				mine = append(mine, x)
			}
		}
		if aware && len(mine) > 0 {
			x := mine[g.rng.Intn(len(mine))]
			return M(kind, A(x.granter), A(x.grantee), x.kind)
		}
		gr := who
		if gr < 0 {
			gr = g.liveAcct(v, aware)
		}
		return M(kind, A(gr), A(g.other(gr)), g.execKinds[g.rng.Intn(len(g.execKinds))])

	case "authz.exec":
		return g.exec(v, aware, who, depth)

	case "feegrant.grant":
		gr := g.payer(v, who)
		ge := g.other(gr)
		if aware {
			for try := 0; try < 4 && g.hasFeegrant(v, gr, ge); try++ {
				ge = g.other(gr)
			}
			if len(v.locked) > 0 && g.chance(40) && v.locked[0] != gr {
				ge = g.pickInt(v.locked) // let somebody else pay for a locked-eFUND holder
			}
		}
		getok := A(ge)
		if !aware && g.chance(40) {
			getok = g.pick(A(gr), "X", "-")
		}
		return M(kind, A(gr), getok)
	}
	panic("generator: unknown kind " + kind)
}

// exec builds an authz.exec: through an existing grant, as a self-exec (grantee is the inner
// signer, which needs no grant) or without authorisation.
func (g *G) exec(v *view, aware bool, who int, depth int) script.Msg {
	inner := func(k string, signer int) script.Msg {
		if k == "authz.exec" && depth >= 2 {
			k = "bank.send"
		}
		return g.msg(k, v, true, signer, depth+1)
	}
	var usable []grant
	for _, x := range v.grants {
		if who < 0 || x.grantee == who {
			usable = append(usable, x)
		}
	}
	kinds := g.execKinds
	if depth < 2 {
		kinds = append(append([]string(nil), kinds...), "authz.exec")
	}
	randKind := func() string { return kinds[g.rng.Intn(len(kinds))] }
	switch x := g.rng.Intn(100); {
	case aware && len(usable) > 0 && x < 55:
		gr := usable[g.rng.Intn(len(usable))]
		return script.Exec(A(gr.grantee), inner(gr.kind, gr.granter))
	case aware:
		me := who
		if me < 0 {
			me = g.liveAcct(v, true)
		}
		feasibleKind := func() string {
			if k := randKind(); g.feasible(k, v, me) {
				return k
			}
			return g.pick(anyone...)
		}
		payload := []script.Msg{inner(feasibleKind(), me)}
		if g.chance(25) {
			payload = append(payload, inner(feasibleKind(), me))
		}
		return script.Exec(A(me), payload...)
	}
	me := who
	if me < 0 {
		me = g.anyAcct()
	}
	if g.chance(15) {
		return script.Exec(A(me)) // empty payload
	}
	return script.Exec(A(me), inner(randKind(), g.other(me)))
}

func (g *G) strNonEmpty(aware bool, limit int) string {
	for {
		if s := g.str(aware, limit); s != "-" || !aware {
			return s
		}
	}
}

// moniker: monikers are not unique — now and then one of a small pool, so that several owners share one
func (g *G) moniker(aware bool) string {
	if g.chance(20) {
		return g.pick("alpha", "beta", "gamma")
	}
	return g.strNonEmpty(aware, 64)
}

func (g *G) hasStream(v *view, r, s int) bool {
	for _, x := range v.streams {
		if x.r == r && x.s == s {
			return true
		}
	}
	return false
}

func (g *G) hasFeegrant(v *view, gr, ge int) bool {
	for _, x := range v.feegrants {
		if x[0] == gr && x[1] == ge {
			return true
		}
	}
	return false
}

func minU(a, b uint64) uint64 {
	if a < b {
		return a
	}
	return b
}
