package gen

type Options struct {
	Seed                         int64
	Scripts, Blocks, MaxTx, Jobs int
	Focus, OutDir                string
}

func Focuses() []string { return []string{"all"} }
func Run(o Options) error { return nil }
