// Package gen is the online, state-aware script generator of `vharness chain`. Every line
// it emits is first printed, then executed through real.Interp exactly as `replay` would
// execute it, so script files replay to byte-identical traces.
package gen

import (
	"encoding/json"
	"fmt"
	"math/rand"
	"os"
	"path/filepath"
	"sort"
	"strconv"
	"strings"
	"sync"
	"time"

	"verif/harness/internal/real"
	"verif/harness/internal/script"
)

// Options of a campaign.
type Options struct {
	Seed                         int64
	Scripts, Blocks, MaxTx, Jobs int
	Focus, OutDir                string
}

// weights is the operation mix selected by -focus.
type weights struct {
	kinds      []string
	weight     []int
	total      int
	exactPct   int // exact fee on wrk/bcn transactions
	execPct    int // wrap the first message into authz.exec
	multiPct   int // multi-message transactions
	bulkPct    int // transactions of several storage purchases for different registrations
	payerPct   int // transactions with an explicit fee payer
	longPct    int // stream receivers (and, at half the rate, transfer recipients) that are long addresses
	scramble   int // signer focus: random signer / named address
	granterPct int // use an existing fee grant
	lockedPct  int // prefer holders of locked eFUND as payers
	govPct     int // GOVEXEC per block
	maxCheck   int // CHECK probes per block gap
	longSteps  bool
	quorum     bool // gov messages are enterprise parameter updates; decisions are mixed

	// the three foci of PROTOCOL.md §7/§8; all zero for the older foci, whose output for a
	// given seed must not change (no random draw is made for a feature that is off)
	queries  bool // a burst of QUERY lines in every block gap
	genesis  bool // 1–3 EXPORTIMPORT lines per script, DIGEST now and then
	crashPct int  // CRASH lines: base probability (per cent) at every crash point
}

// txKinds are the kinds that can appear in transactions (parameter updates go through GOVEXEC).
var txKinds = []string{
	"ent.raise", "ent.decide", "ent.wl", "wrk.reg", "wrk.rec", "wrk.buy", "bcn.reg", "bcn.rec", "bcn.buy",
	"str.create", "str.claim", "str.topup", "str.rate", "str.cancel", "bank.send",
	"authz.grant", "authz.revoke", "authz.exec", "feegrant.grant",
}

var focusWeights = map[string]map[string]int{
	"all":    {},
	"ent":    {"ent.raise": 8, "ent.decide": 14, "ent.wl": 4, "wrk.reg": 2, "wrk.rec": 3, "bcn.reg": 1, "bcn.rec": 2, "bank.send": 2},
	"reg":    {"wrk.reg": 4, "wrk.rec": 12, "wrk.buy": 6, "bcn.reg": 4, "bcn.rec": 12, "bcn.buy": 6, "bank.send": 1},
	"stream": {"str.create": 6, "str.claim": 9, "str.topup": 4, "str.rate": 4, "str.cancel": 2, "bank.send": 2},
	"fees": {"wrk.reg": 3, "wrk.rec": 8, "wrk.buy": 5, "bcn.reg": 3, "bcn.rec": 8, "bcn.buy": 5, "ent.raise": 4, "ent.decide": 6,
		"feegrant.grant": 3, "bank.send": 1},
	"authz": {"authz.grant": 10, "authz.revoke": 2, "authz.exec": 20},
	"gov":   {},
	"signer": {"ent.raise": 5, "ent.decide": 8, "ent.wl": 2, "wrk.reg": 3, "wrk.rec": 6, "wrk.buy": 3, "bcn.reg": 3, "bcn.rec": 6, "bcn.buy": 3,
		"str.create": 3, "str.claim": 3, "str.topup": 2, "str.rate": 2, "str.cancel": 1, "bank.send": 2, "authz.grant": 2, "authz.revoke": 1,
		"authz.exec": 3, "feegrant.grant": 1},
	"query": {},
	"genesis": {"ent.wl": 3, "ent.raise": 7, "ent.decide": 7, "wrk.reg": 3, "wrk.rec": 10, "wrk.buy": 4, "bcn.reg": 3, "bcn.rec": 10, "bcn.buy": 4,
		"str.create": 5, "str.claim": 2, "str.topup": 2, "str.rate": 1, "str.cancel": 1, "bank.send": 2, "authz.grant": 1, "feegrant.grant": 1},
	"crash": {},
	// many concurrent orders with mixed accept / reject decisions while governance keeps changing the
	// signer set and the threshold (C03)
	"quorum": {"ent.raise": 8, "ent.decide": 24, "ent.wl": 3, "bank.send": 1},
}

// Focuses lists the accepted -focus names.
func Focuses() []string {
	var out []string
	for k := range focusWeights {
		out = append(out, k)
	}
	sort.Strings(out)
	return out
}

func newWeights(focus string) (*weights, error) {
	fw, ok := focusWeights[focus]
	if !ok {
		return nil, fmt.Errorf("unknown focus %q (want %s)", focus, strings.Join(Focuses(), "|"))
	}
	w := &weights{exactPct: 70, execPct: 10, multiPct: 15, granterPct: 10, lockedPct: 10, govPct: 5, maxCheck: 1, payerPct: 4, longPct: 10}
	for _, k := range txKinds {
		x := fw[k]
		if len(fw) == 0 || focus == "authz" && x == 0 {
			x = 1 // uniform, or background traffic that creates state for authz
		}
		if x > 0 {
			w.kinds, w.weight, w.total = append(w.kinds, k), append(w.weight, x), w.total+x
		}
	}
	switch focus {
	case "fees":
		w.exactPct, w.granterPct, w.lockedPct, w.maxCheck, w.execPct, w.payerPct = 40, 35, 45, 4, 5, 15
	case "authz":
		w.execPct = 25
	case "gov":
		w.govPct = 45
	case "signer":
		w.scramble = 45
	case "stream":
		w.longSteps, w.longPct = true, 20
	case "query":
		w.queries, w.longPct = true, 20
	case "genesis":
		w.genesis, w.govPct = true, 12 // parameter changes between purchases and exports (limits above a lowered maximum, …)
	case "crash":
		w.crashPct, w.bulkPct = 5, 8
	case "reg":
		w.bulkPct = 4
	case "quorum":
		w.govPct, w.quorum = 55, true
	}
	return w, nil
}

// Counts of outcomes.
type Counts struct{ Ok, Err, Panic int }

func (c *Counts) add(class string) {
	switch class {
	case "ok":
		c.Ok++
	case "err", "rejected":
		c.Err++
	default:
		c.Panic++
	}
}

// Stats is written to stats.json. Kinds: the outcome of a single-message transaction is
// counted under its message kind and, for authz.exec, also once as "authz.exec>KIND" for every
// direct payload kind; multi-message transactions are counted under "multi" (any failing
// message fails them all); CHECK probes as "check:…"; GOVEXEC lines as "gov:KIND".
type Stats struct {
	Seed                                  int64
	Focus                                 string
	Scripts, Blocks, Txs, Checks, GovExec int
	BeginPanics, EndPanics                int
	Kinds                                 map[string]*Counts
	MsgsPerTx, StrLen                     map[string]int
	WallSeconds                           float64

	// PROTOCOL.md §7/§8. Queries: outcome per query kind (Ok / Err). ExportImport: Ok / Panic.
	// Crashes: Ok = resumed at the committed height and hash, Err = "Z bad". CrashRedo: crashes
	// after which the interrupted block was emitted again. WalksCapped: paging walks cut off
	// because `next` never became "-" within the step limit (always 0 for a sound application).
	Queries                         map[string]*Counts `json:",omitempty"`
	QueryLines, Walks, WalksCapped  int
	WalkSteps                       map[string]int `json:",omitempty"`
	ExportImport, Crashes           Counts
	ExportDiff, CrashRedo, Digests  int
	PointMismatches, BrokenOnImport int
}

func newStats() *Stats {
	return &Stats{Kinds: map[string]*Counts{}, MsgsPerTx: map[string]int{}, StrLen: map[string]int{},
		Queries: map[string]*Counts{}, WalkSteps: map[string]int{}}
}

func (c *Counts) merge(o Counts) { c.Ok, c.Err, c.Panic = c.Ok+o.Ok, c.Err+o.Err, c.Panic+o.Panic }

func (s *Stats) count(key, class string) {
	if s.Kinds[key] == nil {
		s.Kinds[key] = &Counts{}
	}
	s.Kinds[key].add(class)
}

func (s *Stats) countTx(prefix string, t script.Tx, class string) {
	if len(t.Msgs) > 1 {
		s.count(prefix+"multi", class)
		return
	}
	seen := map[string]bool{}
	for _, m := range t.Msgs {
		keys := []string{prefix + m.Kind}
		for _, sub := range m.Sub {
			keys = append(keys, prefix+"authz.exec>"+sub.Kind)
		}
		for _, k := range keys {
			if !seen[k] {
				seen[k] = true
				s.count(k, class)
			}
		}
	}
}

func (s *Stats) merge(o *Stats) {
	s.Scripts, s.Blocks, s.Txs, s.Checks, s.GovExec = s.Scripts+o.Scripts, s.Blocks+o.Blocks, s.Txs+o.Txs, s.Checks+o.Checks, s.GovExec+o.GovExec
	s.BeginPanics, s.EndPanics = s.BeginPanics+o.BeginPanics, s.EndPanics+o.EndPanics
	for k, c := range o.Kinds {
		if s.Kinds[k] == nil {
			s.Kinds[k] = &Counts{}
		}
		s.Kinds[k].Ok, s.Kinds[k].Err, s.Kinds[k].Panic = s.Kinds[k].Ok+c.Ok, s.Kinds[k].Err+c.Err, s.Kinds[k].Panic+c.Panic
	}
	for k, c := range o.Queries {
		if s.Queries[k] == nil {
			s.Queries[k] = &Counts{}
		}
		s.Queries[k].merge(*c)
	}
	for k, n := range o.WalkSteps {
		s.WalkSteps[k] += n
	}
	s.QueryLines, s.Walks, s.WalksCapped = s.QueryLines+o.QueryLines, s.Walks+o.Walks, s.WalksCapped+o.WalksCapped
	s.ExportImport.merge(o.ExportImport)
	s.Crashes.merge(o.Crashes)
	s.ExportDiff, s.CrashRedo, s.Digests = s.ExportDiff+o.ExportDiff, s.CrashRedo+o.CrashRedo, s.Digests+o.Digests
	s.PointMismatches, s.BrokenOnImport = s.PointMismatches+o.PointMismatches, s.BrokenOnImport+o.BrokenOnImport
	for k, n := range o.MsgsPerTx {
		s.MsgsPerTx[k] += n
	}
	for k, n := range o.StrLen {
		s.StrLen[k] += n
	}
}

func itoa(i int) string { return strconv.Itoa(i) }

// G is the generator state of one script.
type G struct {
	rng       *rand.Rand
	w         *weights
	st        *Stats
	n         int // scenario accounts
	nextN     int
	execKinds []string
}

func (g *G) next() int { g.nextN++; return g.nextN }

// Run generates and executes o.Scripts scripts in parallel and writes scripts, traces and stats.
func Run(o Options) error {
	w, err := newWeights(o.Focus)
	if err != nil {
		return err
	}
	if o.Scripts < 0 || o.Blocks < 0 || o.MaxTx < 0 {
		return fmt.Errorf("negative size")
	}
	if o.Jobs < 1 {
		o.Jobs = 1
	}
	if err := os.MkdirAll(o.OutDir, 0o755); err != nil {
		return err
	}
	start := time.Now()
	total := newStats()
	total.Seed, total.Focus = o.Seed, o.Focus
	var mu sync.Mutex
	var firstErr error
	jobs := make(chan int)
	var wg sync.WaitGroup
	for j := 0; j < o.Jobs; j++ {
		wg.Add(1)
		go func() {
			defer wg.Done()
			for k := range jobs {
				st, err := one(o, w, k)
				mu.Lock()
				if err != nil && firstErr == nil {
					firstErr = fmt.Errorf("script s%d: %v", k, err)
				}
				if st != nil {
					total.merge(st)
				}
				mu.Unlock()
			}
		}()
	}
	for k := 0; k < o.Scripts; k++ {
		jobs <- k
	}
	close(jobs)
	wg.Wait()
	if firstErr != nil {
		return firstErr
	}
	total.WallSeconds = time.Since(start).Seconds()
	bz, _ := json.MarshalIndent(total, "", "  ")
	return os.WriteFile(filepath.Join(o.OutDir, "stats.json"), append(bz, '\n'), 0o644)
}

var steps = []time.Duration{0, 0, 400 * time.Millisecond, 400 * time.Millisecond, time.Second, time.Second, time.Second,
	5 * time.Second, 5 * time.Second, 5 * time.Second, 29 * time.Second, 31 * time.Second, 31 * time.Second, time.Hour, 365 * 24 * time.Hour}

// one generates, executes and writes script k.
func one(o Options, w *weights, k int) (st *Stats, err error) {
	rng := rand.New(rand.NewSource(o.Seed*1_000_003 + int64(k)))
	home, err := os.MkdirTemp("", "vharness-home-")
	if err != nil {
		return nil, err
	}
	defer os.RemoveAll(home)
	st = newStats()
	st.Scripts = 1
	g := &G{rng: rng, w: w, st: st}
	for _, kd := range txKinds {
		if kd != "authz.exec" {
			g.execKinds = append(g.execKinds, kd)
		}
	}
	ip := &real.Interp{Home: home}
	var lines, trace []string
	emit := func(line string) ([]string, error) {
		lines = append(lines, line)
		out, err := ip.Exec(line)
		if err != nil {
			return nil, fmt.Errorf("generated line rejected: %q: %v", line, err)
		}
		trace = append(trace, out...)
		return out, nil
	}
	defer func() { // write what was produced, also on error, for diagnosis
		base := filepath.Join(o.OutDir, fmt.Sprintf("s%d", k))
		e1 := os.WriteFile(base+".script", []byte(strings.Join(lines, "\n")+"\n"), 0o644)
		e2 := os.WriteFile(base+".impl", []byte(strings.Join(trace, "\n")+"\n"), 0o644)
		for _, e := range []error{e1, e2} {
			if err == nil {
				err = e
			}
		}
	}()

	gen := g.genesis()
	for _, l := range gen.Lines() {
		if _, err := emit(l); err != nil {
			return st, err
		}
	}
	now := time.Unix(gen.Time, 0).UTC()

	// EXPORTIMPORT positions (genesis focus): 1–3 block gaps after the first few blocks; gap b is
	// the one before block b, gap o.Blocks the one after the last block.
	exportAt := map[int]bool{}
	if w.genesis && o.Blocks > 0 {
		lo := 3
		if lo > o.Blocks {
			lo = o.Blocks
		}
		for k := 1 + g.rng.Intn(3); k > 0; k-- {
			exportAt[lo+g.rng.Intn(o.Blocks-lo+1)] = true
		}
	}
	// gap emits what the new foci place between blocks, before any CHECK line of that gap.
	gap := func(b int) error {
		if w.queries {
			if err := g.queryBurst(ip, emit); err != nil {
				return err
			}
		}
		if exportAt[b] {
			out, err := emit("EXPORTIMPORT")
			if err != nil {
				return err
			}
			if ip.LastX == "ok" {
				st.ExportImport.Ok++
				if strings.HasPrefix(out[len(out)-1], "X2 diff") {
					st.ExportDiff++
				}
				for _, l := range out {
					if strings.HasPrefix(l, "x inv ") {
						st.BrokenOnImport++
					}
				}
			} else {
				st.ExportImport.Panic++
			}
			if g.chance(40) {
				if _, err := emit("DIGEST"); err != nil {
					return err
				}
				st.Digests++
			}
		}
		return nil
	}
	crash := func() error {
		if _, err := emit("CRASH"); err != nil {
			return err
		}
		st.Crashes.add(map[string]string{"ok": "ok", "bad": "err"}[ip.LastX])
		return nil
	}
	var pending []script.Tx           // CHECKs admitted in the previous gap
	blockSigners := map[string]bool{} // accounts that signed a transaction of the block delivered last
	noCheck := false                  // no CHECK between a CRASH and the next COMMIT (the restarted check state has an empty header)

blocks:
	for b := 0; b < o.Blocks; b++ {
		if err := gap(b); err != nil {
			return st, err
		}
		gapSigners := map[string]bool{} // accounts with something admitted to the check state in this gap
		if !noCheck {
			// the mempool is re-validated after every commit: transactions admitted in the previous gap and still
			// pending are checked again (type Recheck) against the state committed since — a fee parameter may have changed
			if w.crashPct == 0 && !w.genesis {
				// only transactions whose signatures still carry the right sequence (the model has no sequence numbers):
				// nothing of their signers was admitted to the check state before them in their gap (see below), and the
				// signers signed nothing in the block delivered since
				for _, pt := range pending {
					fresh := true
					for _, sg := range pt.Signers {
						fresh = fresh && !blockSigners[sg]
					}
					if !fresh || !g.chance(70) {
						continue
					}
					line := strings.Replace(pt.Line("CHECK"), fmt.Sprintf("CHECK %d ", pt.N), fmt.Sprintf("RECHECK %d %d ", g.next(), pt.N), 1)
					if _, err := emit(line); err != nil {
						return st, err
					}
					st.Checks++
					st.count("recheck", ip.Last.Class)
					if ip.Last.Class == "ok" {
						for _, sg := range pt.Signers {
							gapSigners[sg] = true
						}
					}
				}
			}
			pending = pending[:0]
			for c := g.rng.Intn(w.maxCheck + 1); c > 0; c-- {
				t := g.tx(newView(ip.R, ip.R.CheckCtx()), true)
				if _, err := emit(t.Line("CHECK")); err != nil {
					return st, err
				}
				st.Checks++
				st.countTx("check:", t, ip.Last.Class)
				if ip.Last.Class == "ok" {
					first := true
					for _, sg := range t.Signers {
						first = first && !gapSigners[sg]
					}
					if first {
						pending = append(pending, t)
					}
					for _, sg := range t.Signers {
						gapSigners[sg] = true
					}
				}
			}
		}
		if w.crashPct > 0 && g.chance(w.crashPct) { // between blocks
			if err := crash(); err != nil {
				return st, err
			}
			noCheck = true
		}
		now = now.Add(steps[g.rng.Intn(len(steps))])
		if w.longSteps && g.chance(3) {
			now = now.AddDate(300, 0, 0) // beyond the range of time.Duration and of UnixNano
		}
		for k := range blockSigners {
			delete(blockSigners, k)
		}
		begin := fmt.Sprintf("BEGIN %d %d", now.Unix(), now.Nanosecond())
		if _, err := emit(begin); err != nil {
			return st, err
		}
		if ip.Stopped() {
			st.BeginPanics++
			break
		}
		st.Blocks++
		ntx := g.rng.Intn(o.MaxTx + 1)
		var govAt []int // positions (tx index) before which a GOVEXEC line is placed
		var govKinds []string
		for n := 0; n < 2 && g.chance(w.govPct); n++ {
			govAt = append(govAt, g.rng.Intn(ntx+1))
		}
		sort.Ints(govAt)

		// body of the open block so far, kept so that a crash focus can emit the block again
		type bodyLine struct {
			tx   *script.Tx   // TX line
			gov  []script.Msg // GOVEXEC line (tx == nil): the messages of one proposal
			vote string       // … and how the validator votes on it ("" = yes)
		}
		var body []bodyLine
		emitBody := func(l bodyLine) error {
			if l.tx == nil {
				ms := make([]string, len(l.gov))
				for i, m := range l.gov {
					ms[i] = m.String()
				}
				vote := ""
				if l.vote != "" {
					vote = "vote=" + l.vote + " "
				}
				if _, err := emit(fmt.Sprintf("GOVEXEC %d %s%s", g.next(), vote, strings.Join(ms, " ; "))); err != nil {
					return err
				}
				kind := l.gov[0].Kind
				if len(l.gov) > 1 {
					kind = "proposal-of-several"
				}
				govKinds = append(govKinds, kind)
				return nil
			}
			if _, err := emit(l.tx.Line("TX")); err != nil {
				return err
			}
			for _, sg := range l.tx.Signers {
				blockSigners[sg] = true
			}
			st.Txs++
			st.countTx("", *l.tx, ip.Last.Class)
			return nil
		}
		end := func() (stopped bool, err error) {
			out, err := emit("END")
			if err != nil {
				return false, err
			}
			if ip.Stopped() {
				st.EndPanics++
				return true, nil
			}
			for i, l := range out[1:] { // RG n ok|err, in GOVEXEC order
				st.GovExec++
				st.count("gov:"+govKinds[i], l[strings.LastIndexByte(l, ' ')+1:])
			}
			return false, nil
		}
		// crashPoint: with probability pct emit CRASH (at most once per block); afterwards either
		// the same block is emitted again (BEGIN at the same time, its lines with fresh running
		// numbers, END if it had run) or the block is abandoned and a different one follows.
		crashed := false
		crashPoint := func(pct int, ended bool) (abandon, stopped bool, err error) {
			if w.crashPct == 0 || crashed || !g.chance(pct) {
				return false, false, nil
			}
			crashed, noCheck = true, true
			if err := crash(); err != nil {
				return false, false, err
			}
			if !g.chance(50) {
				return true, false, nil
			}
			st.CrashRedo++
			if _, err := emit(begin); err != nil {
				return false, false, err
			}
			if ip.Stopped() {
				st.BeginPanics++
				return false, true, nil
			}
			govKinds = nil
			for _, l := range body {
				if l.tx != nil {
					l.tx.N = g.next()
				}
				if err := emitBody(l); err != nil {
					return false, false, err
				}
			}
			if ended {
				stopped, err = end()
			}
			return false, stopped, err
		}
		if abandon, stopped, err := crashPoint(w.crashPct, false); err != nil {
			return st, err
		} else if stopped {
			break
		} else if abandon {
			continue
		}
		for i := 0; i <= ntx; i++ {
			for len(govAt) > 0 && govAt[0] == i {
				govAt = govAt[1:]
				l := bodyLine{gov: g.proposal(newView(ip.R, ip.R.DeliverCtx()))}
				if g.chance(12) { // voted down, vetoed (the deposit is burned) or abstained from: nothing of it may run
					l.vote = g.pick("no", "veto", "abstain")
				}
				body = append(body, l)
				if err := emitBody(l); err != nil {
					return st, err
				}
			}
			if i == ntx {
				break
			}
			t := g.tx(newView(ip.R, ip.R.DeliverCtx()), false)
			l := bodyLine{tx: &t}
			body = append(body, l)
			if err := emitBody(l); err != nil {
				return st, err
			}
			if abandon, stopped, err := crashPoint(w.crashPct, false); err != nil {
				return st, err
			} else if stopped {
				break blocks
			} else if abandon {
				continue blocks
			}
		}
		if stopped, err := end(); err != nil {
			return st, err
		} else if stopped {
			break
		}
		if abandon, stopped, err := crashPoint(w.crashPct, true); err != nil {
			return st, err
		} else if stopped {
			break
		} else if abandon {
			continue
		}
		if _, err := emit("COMMIT"); err != nil {
			return st, err
		}
		noCheck = false
	}
	if !ip.Stopped() && ip.Idle() {
		if err := gap(o.Blocks); err != nil {
			return st, err
		}
	}
	return st, nil
}

// genesis draws the scenario genesis.
func (g *G) genesis() *script.Genesis {
	const base = "1000000000000000000nund,1000000000000000000000000000000atoken,1000000000000btoken,123456789ibc/C0FFEE,1000000000000xtoken" // ibc/…: a voucher-style denomination with upper-case characters
	gs := &script.Genesis{Time: 1_700_000_000}
	gs.MarkAll()
	g.n = 6 + g.rng.Intn(5)
	for i := 0; i < g.n; i++ {
		gs.Accts = append(gs.Accts, script.Acct{Kind: "base", Coins: base})
	}
	if g.chance(50) {
		gs.Accts[g.n-1] = script.Acct{Kind: "none"}
	}
	if g.chance(50) {
		gs.Accts[g.n-2] = script.Acct{Kind: "vest", Coins: "1000000000000000000nund", Vesting: "1000000000000000000nund",
			End: gs.Time + 10*365*24*3600}
	}
	ns := 1 + g.rng.Intn(5)
	for i := 0; i < ns; i++ {
		tok := A(i)
		if g.chance(8) {
			tok = fmt.Sprintf("U%d", i)
		}
		gs.Ent.Signers = append(gs.Ent.Signers, tok)
	}
	gs.Ent.Denom, gs.Ent.Min, gs.Ent.Limit = "nund", uint64(1+g.rng.Intn(ns)), 30
	if g.w.quorum {
		gs.Ent.Limit = 100000
	}
	for i := 0; i < g.n; i++ {
		if g.chance(45) {
			gs.Ent.WL = append(gs.Ent.WL, A(i))
		}
	}
	gs.Ent.Sid = []uint64{1, 1, 1, 5}[g.rng.Intn(4)]
	fees := func() script.Fees {
		f := script.Fees{Denom: "nund", Reg: 24, Rec: 2, Buy: 2}
		if g.chance(35) {
			f.Reg, f.Rec, f.Buy = 1_000_000_000_000, 1_000_000_000, 5_000_000_000
		}
		l := [][2]uint64{{3, 6}, {2, 2}, {1, 5}, {200, 300}, {3, 6}, {2, 18446744073709551615}, {3, 9223372036854775808}}[g.rng.Intn(7)]
		f.Def, f.Max, f.Sid = l[0], l[1], []uint64{1, 1, 7}[g.rng.Intn(3)]
		return f
	}
	gs.Wrk, gs.Bcn = fees(), fees()
	gs.StrFee = g.pick("0", "1", "10000000000000000", "500000000000000000", "1000000000000000000",
		"25000000000000000", "5000000000000000", "999000000000000000", "123456789012345678") // sub-percent rates too
	gs.Addrs = real.AddrTable(g.n)
	// now and then a long (non-key) address holds coins and has granted somebody the right to act for it: the only way
	// such an account (group policy, interchain account, module-derived address) ever sends a message
	if g.chance(g.w.longPct * 2) {
		for _, l := range []string{"L1", "L0"}[:1+g.rng.Intn(2)] {
			if l == "L1" && g.chance(35) {
				l = "L5"          // shares its first 20 bytes with A0; may buy eFUND (raises through its grantee) — when it is whitelisted itself:
				if g.chance(50) { // … A0's entry must not count for it
					gs.Ent.WL = append(gs.Ent.WL, l)
				} else if len(gs.Ent.WL) == 0 || gs.Ent.WL[0] != "A0" {
					gs.Ent.WL = append([]string{"A0"}, gs.Ent.WL...)
				}
				gs.Grants = append(gs.Grants, [3]string{l, A(g.rng.Intn(g.n)), "ent.raise"})
			}
			gs.Long = append(gs.Long, [2]string{l, "1000000000000000nund,1000000000btoken"})
			ge := A(g.rng.Intn(g.n))
			for _, k := range []string{"str.create", "str.topup", "str.rate", "str.cancel", "bank.send"} {
				if g.chance(80) {
					gs.Grants = append(gs.Grants, [3]string{l, ge, k})
				}
			}
		}
	}
	return gs
}
