package gen

// QUERY bursts of the query focus (PROTOCOL.md §7): point queries for live and for absent
// identifiers, complete paging walks that follow `next` from the live responses, offset walks,
// odd page requests, filters, unusual address spellings, supply and parameter queries.

import (
	"fmt"
	wrktypes "github.com/unification-com/mainchain/x/wrkchain/types"
	"strings"

	sdk "github.com/cosmos/cosmos-sdk/types"
	streamtypes "github.com/unification-com/mainchain/x/stream/types"

	"verif/harness/internal/real"
	"verif/harness/internal/script"
)

// walkCap bounds a paging walk; a sound application ends every walk long before.
const walkCap = 200

type qreg struct {
	id, first, last, num uint64
	owner, moniker       string
	held                 []uint64 // WRKChains: (some of) the heights held in state — they need not be contiguous
}

// qview is the committed state the query generator draws identifiers from.
type qview struct {
	pos              []qreg // purchase orders: id, owner = purchaser token, first = status
	poNext           uint64
	wl, locked       []string
	wrk, bcn         []qreg
	wrkNext, bcnNext uint64
	streams          [][2]string // receiver token, sender token
}

func newQView(r *real.Runner) *qview {
	ctx, a, sym := r.CheckCtx(), r.App, r.Sym
	v := &qview{}
	for _, po := range a.EnterpriseKeeper.GetAllPurchaseOrders(ctx) {
		v.pos = append(v.pos, qreg{id: po.Id, owner: sym.TokString(po.Purchaser), first: uint64(po.Status)})
	}
	v.poNext, _ = a.EnterpriseKeeper.GetHighestPurchaseOrderID(ctx)
	for _, s := range a.EnterpriseKeeper.GetAllWhitelistedAddresses(ctx) {
		v.wl = append(v.wl, sym.TokString(s))
	}
	for _, l := range a.EnterpriseKeeper.GetAllLockedUnds(ctx) {
		v.locked = append(v.locked, sym.TokString(l.Owner))
	}
	for _, s := range a.EnterpriseKeeper.GetAllSpentEFUNDs(ctx) {
		v.locked = append(v.locked, sym.TokString(s.Owner))
	}
	for _, c := range a.WrkchainKeeper.GetAllWrkChains(ctx) {
		r := qreg{id: c.WrkchainId, first: c.LowestHeight, last: c.Lastblock, num: c.NumBlocks, owner: sym.TokString(c.Owner), moniker: script.Tok(c.Moniker)}
		func() {
			defer func() { _ = recover() }()
			a.WrkchainKeeper.IterateWrkChainBlockHashes(ctx, c.WrkchainId, func(b wrktypes.WrkChainBlock) bool {
				r.held = append(r.held, b.Height)
				return len(r.held) >= 64
			})
		}()
		v.wrk = append(v.wrk, r)
	}
	v.wrkNext, _ = a.WrkchainKeeper.GetHighestWrkChainID(ctx)
	for _, b := range a.BeaconKeeper.GetAllBeacons(ctx) {
		v.bcn = append(v.bcn, qreg{id: b.BeaconId, first: b.FirstIdInState, last: b.LastTimestampId, num: b.NumInState, owner: sym.TokString(b.Owner), moniker: script.Tok(b.Moniker)})
	}
	v.bcnNext, _ = a.BeaconKeeper.GetHighestBeaconID(ctx)
	func() {
		defer func() { _ = recover() }() // a key the parser chokes on: the digest reports it
		a.StreamKeeper.IterateAllStreams(ctx, func(recv, send sdk.AccAddress, _ streamtypes.Stream) bool {
			if r, s := sym.TokBytes(recv), sym.TokBytes(send); usable(r) && usable(s) {
				v.streams = append(v.streams, [2]string{r, s})
			}
			return false
		})
	}()
	return v
}

// qgen issues the QUERY lines of one block gap.
type qgen struct {
	g    *G
	ip   *real.Interp
	emit func(string) ([]string, error)
	v    *qview
}

// query emits one QUERY line and returns the result tokens (nil unless ok).
func (q *qgen) query(kind string, args ...string) ([]string, error) {
	line := fmt.Sprintf("QUERY %d %s", q.g.next(), kind)
	if len(args) > 0 {
		line += " " + strings.Join(args, " ")
	}
	if _, err := q.emit(line); err != nil {
		return nil, err
	}
	st := q.g.st
	st.QueryLines++
	if st.Queries[kind] == nil {
		st.Queries[kind] = &Counts{}
	}
	o := q.ip.LastQuery
	st.Queries[kind].add(o.Class)
	if o.Class != "ok" {
		return nil, nil
	}
	for _, t := range o.Tokens {
		if strings.HasPrefix(t, "pm=") && t != "pm=0" {
			st.PointMismatches++
		}
	}
	return o.Tokens, nil
}

func field(toks []string, key string) string {
	for _, t := range toks {
		if strings.HasPrefix(t, key+"=") {
			return t[len(key)+1:]
		}
	}
	return ""
}

func page(key string, off, lim uint64, tot, rev bool) []string {
	b := func(x bool) string {
		if x {
			return "1"
		}
		return "0"
	}
	return []string{"key=" + key, "off=" + u(off), "lim=" + u(lim), "tot=" + b(tot), "rev=" + b(rev)}
}

// addr picks an address token: mostly one that occurs in the state, else another scenario
// account, an upper-case spelling, a module account, X or the empty string.
func (q *qgen) addr(all []string) string {
	g := q.g
	var live []string
	for _, t := range all {
		if usable(t) {
			live = append(live, t)
		}
	}
	x := g.rng.Intn(100)
	for _, t := range live {
		if t[0] == 'L' && g.chance(15) { // long addresses around: ask for their relatives (shared prefix / suffix) too
			return g.pick(real.GenLongTokens...)
		}
	}
	switch {
	case x < 55 && len(live) > 0:
		return g.pick(live...)
	case x < 67:
		if len(live) > 0 {
			if t := g.pick(live...); t[0] == 'A' {
				return "U" + t[1:]
			}
		}
		return fmt.Sprintf("U%d", g.anyAcct())
	case x < 82:
		return A(g.anyAcct())
	case x < 88:
		return g.pick(real.ModuleTokens...)
	case x < 92:
		return g.pick(real.GenLongTokens...)
	case x < 96:
		return "X"
	}
	return "-"
}

// usable reports whether a token printed from the state can be written into a script line.
func usable(t string) bool {
	return len(t) > 1 && (t[0] == 'A' || t[0] == 'U' || t[0] == 'M' || t[0] == 'L')
}

func (q *qgen) regID(items []qreg, next uint64) (qreg, string) {
	if len(items) > 0 && q.g.chance(70) {
		it := items[q.g.rng.Intn(len(items))]
		return it, u(it.id)
	}
	return qreg{}, q.g.unknownID(next)
}

// sub picks a block height / timestamp id of a registration: live (inside the retained window)
// or absent (pruned, beyond the last one, zero, maximal).
func (q *qgen) sub(it qreg) string {
	g := q.g
	if len(it.held) > 0 && g.chance(50) {
		return u(it.held[g.rng.Intn(len(it.held))])
	}
	if it.num > 0 && it.last >= it.first && g.chance(65) {
		return u(it.first + uint64(g.rng.Int63n(int64(minU(it.last-it.first, 1<<20)+1))))
	}
	return g.pick("0", "1", u(it.last+1), u(it.first-1), u(maxU64), u(it.last))
}

// recorded prefers the registrations that hold at least one block / timestamp.
func recorded(items []qreg) []qreg {
	var out []qreg
	for _, it := range items {
		if it.num > 0 {
			out = append(out, it)
		}
	}
	if len(out) == 0 {
		return items
	}
	return out
}

func owners(items []qreg) []string {
	var out []string
	for _, it := range items {
		out = append(out, it.owner)
	}
	return out
}

func (q *qgen) streamParties(i int) []string {
	var out []string
	for _, s := range q.v.streams {
		out = append(out, s[i])
	}
	return out
}

// point issues one point query.
func (q *qgen) point() error {
	g, v := q.g, q.v
	var err error
	switch g.rng.Intn(11) {
	case 0:
		_, id := q.regID(v.pos, v.poNext)
		_, err = q.query("ent.po", id)
	case 1:
		_, err = q.query("ent.wled", q.addr(v.wl))
	case 2:
		_, err = q.query(g.pick("ent.locked", "ent.spent"), q.addr(v.locked))
	case 3:
		_, id := q.regID(v.wrk, v.wrkNext)
		_, err = q.query("wrk.chain", id)
	case 4:
		it, id := q.regID(recorded(v.wrk), v.wrkNext)
		_, err = q.query("wrk.block", id, q.sub(it))
	case 5:
		_, id := q.regID(v.wrk, v.wrkNext)
		_, err = q.query("wrk.storage", id)
	case 6:
		_, id := q.regID(v.bcn, v.bcnNext)
		_, err = q.query("bcn.beacon", id)
	case 7:
		it, id := q.regID(recorded(v.bcn), v.bcnNext)
		_, err = q.query("bcn.ts", id, q.sub(it))
	case 8:
		_, id := q.regID(v.bcn, v.bcnNext)
		_, err = q.query("bcn.storage", id)
	default:
		rt, st := q.addr(q.streamParties(0)), q.addr(q.streamParties(1))
		if len(v.streams) > 0 && g.chance(70) {
			s := v.streams[g.rng.Intn(len(v.streams))]
			rt, st = s[0], s[1]
			switch x := g.rng.Intn(100); {
			case x < 8 && rt[0] == 'A':
				rt = "U" + rt[1:]
			case x < 16 && st[0] == 'A':
				st = "U" + st[1:]
			case x < 24:
				rt, st = st, rt
			}
		}
		_, err = q.query("str.stream", rt, st)
	}
	return err
}

// listing draws a paged query kind with its filter arguments and the size of the full list.
// plain: no filter (and a party that has streams), so that the list is as long as the state allows.
func (q *qgen) listing(plain bool) (kind string, prefix []string, count int) {
	g, v := q.g, q.v
	party := func(i int) string {
		if all := q.streamParties(i); plain && len(all) > 0 {
			return g.pick(all...)
		}
		return q.addr(q.streamParties(i))
	}
	moniker := func(items []qreg) string {
		if plain {
			return "-"
		}
		switch x := g.rng.Intn(100); {
		case x < 50:
			return "-"
		case x < 85 && len(items) > 0:
			return items[g.rng.Intn(len(items))].moniker
		}
		return "nosuchmoniker"
	}
	owner := func(items []qreg) string {
		if plain || g.chance(45) {
			return "-"
		}
		return q.addr(owners(items))
	}
	switch g.rng.Intn(8) {
	case 0, 1:
		status := "-"
		if !plain && g.chance(55) {
			status = g.pick("0", "1", "2", "3", "4", "5", "-1", "7")
		}
		purchaser := "-"
		if !plain && g.chance(45) {
			purchaser = q.addr(owners(v.pos))
		}
		return "ent.pos", []string{"status=" + status, "purchaser=" + purchaser}, len(v.pos)
	case 2:
		return "wrk.chains", []string{"moniker=" + moniker(v.wrk), "owner=" + owner(v.wrk)}, len(v.wrk)
	case 3:
		return "bcn.beacons", []string{"moniker=" + moniker(v.bcn), "owner=" + owner(v.bcn)}, len(v.bcn)
	case 4:
		return "str.bysender", []string{party(1)}, len(v.streams)
	case 5:
		return "str.byreceiver", []string{party(0)}, len(v.streams)
	case 6:
		return "ent.totalsupply", nil, 3
	}
	return "str.streams", nil, len(v.streams)
}

// limit draws L: 1…5, sometimes 0 (the default limit) or more than the list holds.
func (q *qgen) limit(count int) uint64 {
	switch x := q.g.rng.Intn(100); {
	case x < 8:
		return 0
	case x < 18:
		return uint64(count + 1 + q.g.rng.Intn(5))
	case x < 50:
		return 1
	}
	return uint64(1 + q.g.rng.Intn(5))
}

// walk follows `next` from the live responses until it is "-".
func (q *qgen) walk() error {
	plain := q.g.chance(60)
	kind, prefix, count := q.listing(plain)
	for try := 0; try < 3 && count < 2; try++ { // prefer a list worth walking
		kind, prefix, count = q.listing(plain)
	}
	lim, tot, rev := q.limit(count), q.g.chance(25), q.g.chance(25)
	st := q.g.st
	st.Walks++
	key := "-"
	for step := 1; ; step++ {
		toks, err := q.query(kind, append(append([]string(nil), prefix...), page(key, 0, lim, tot, rev)...)...)
		if err != nil {
			return err
		}
		if key = field(toks, "next"); toks == nil || key == "-" || key == "" {
			st.WalkSteps[itoa(step)]++
			return nil
		}
		if step == walkCap {
			st.WalksCapped++
			return nil
		}
	}
}

// offsetWalk pages with off = 0, L, 2L, … until a page comes back empty.
func (q *qgen) offsetWalk() error {
	kind, prefix, count := q.listing(q.g.chance(50))
	lim, tot, rev := uint64(1+q.g.rng.Intn(5)), q.g.chance(40), q.g.chance(25)
	for off := uint64(0); off <= uint64(count)+2*lim; off += lim {
		toks, err := q.query(kind, append(append([]string(nil), prefix...), page("-", off, lim, tot, rev)...)...)
		if err != nil {
			return err
		}
		if toks == nil || field(toks, "items") == "-" || field(toks, "coins") == "-" {
			return nil
		}
	}
	return nil
}

// odd issues a single unusual page request: key and offset together, a key that is no store
// key, an offset beyond the list, a huge limit.
func (q *qgen) odd() error {
	kind, prefix, count := q.listing(q.g.chance(30))
	g := q.g
	var pg []string
	switch g.rng.Intn(5) {
	case 0:
		pg = page(g.pick("00", "0000000000000001", "ff"), uint64(1+g.rng.Intn(3)), uint64(1+g.rng.Intn(5)), g.chance(50), g.chance(30))
	case 1:
		pg = page(g.pick("00", "ff", "0000000000000000", "ffffffffffffffff", "14"), 0, uint64(1+g.rng.Intn(5)), g.chance(30), g.chance(50))
	case 2:
		pg = page("-", uint64(count+g.rng.Intn(3)), uint64(g.rng.Intn(4)), true, g.chance(30))
	case 3:
		pg = page("-", 0, []uint64{100, 101, 1000, 4294967296, 1<<63 - 1, 1 << 63, 1<<64 - 1}[g.rng.Intn(7)], g.chance(50), g.chance(30))
	default:
		pg = page("-", 0, 0, g.chance(50), true)
	}
	_, err := q.query(kind, append(append([]string(nil), prefix...), pg...)...)
	return err
}

func (q *qgen) supply() error {
	g := q.g
	var err error
	switch g.rng.Intn(7) {
	case 0:
		_, err = q.query("ent.totallocked")
	case 1:
		_, err = q.query("ent.totalspent")
	case 2:
		_, err = q.query("ent.totalunlocked")
	case 3:
		_, err = q.query("ent.entsupply")
	case 4:
		_, err = q.query("ent.supplyof", g.pick("nund", "nund", "atoken", "btoken", "ibc/C0FFEE", "ibc/c0ffee", "stake", "-"))
	case 5:
		_, err = q.query("bank.supplyof", g.pick("nund", "nund", "atoken", "btoken", "ibc/C0FFEE", "stake", "-"))
	default:
		_, err = q.query("ent.totalsupply", page("-", 0, uint64(g.rng.Intn(4)), g.chance(50), g.chance(30))...)
	}
	return err
}

// queryBurst emits the QUERY lines of one block gap.
func (g *G) queryBurst(ip *real.Interp, emit func(string) ([]string, error)) error {
	q := &qgen{g: g, ip: ip, emit: emit, v: newQView(ip.R)}
	for k := 3 + g.rng.Intn(4); k > 0; k-- {
		var err error
		switch x := g.rng.Intn(100); {
		case x < 36:
			err = q.point()
		case x < 58:
			err = q.walk()
		case x < 68:
			err = q.offsetWalk()
		case x < 78:
			err = q.odd()
		case x < 90:
			err = q.supply()
		case x < 95:
			_, err = q.query("params", g.pick("ent", "wrk", "bcn", "str"))
		default:
			_, err = q.query("ent.wl")
		}
		if err != nil {
			return err
		}
	}
	return nil
}
