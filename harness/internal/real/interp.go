package real

import (
	"fmt"
	"io"
	"strconv"
	"strings"
	"time"

	"verif/harness/internal/script"
)

type phase int

const (
	phGenesis phase = iota // reading G lines
	phIdle                 // after INIT / COMMIT: CHECK or BEGIN
	phBlock                // after BEGIN: TX, GOVEXEC or END
	phEnded                // after END: COMMIT
	phStopped              // after B panic / E panic
)

// Interp executes a script line by line against a fresh application. Both `replay` and the
// online generator of `chain` go through Exec, so a written script replays identically.
type Interp struct {
	R    *Runner
	Home string // scratch home directory for the application
	Last Outcome
	Log  io.Writer // optional: receives one diagnostic line (with the ABCI log) per TX / CHECK

	Backend   string       // database backend: "" / memdb | goleveldb
	LastQuery QueryOutcome // outcome of the last QUERY line
	LastKind  string       // its kind
	LastX     string       // ok | panic: result of the last EXPORTIMPORT; ok | bad: of the last CRASH

	gen     script.Genesis
	ph      phase
	seenN   map[int]bool
	checked bool // a CHECK ran since the last Commit / restart: the check state differs from the committed state
}

// Idle reports whether the script is between blocks (after INIT / COMMIT / CRASH).
func (ip *Interp) Idle() bool { return ip.ph == phIdle }

// Stopped reports whether the script ended with a BeginBlock / EndBlock panic.
func (ip *Interp) Stopped() bool { return ip.ph == phStopped }

func (ip *Interp) number(n int) error {
	if ip.seenN == nil {
		ip.seenN = map[int]bool{}
	}
	if ip.seenN[n] {
		return fmt.Errorf("running number %d used twice", n)
	}
	ip.seenN[n] = true
	return nil
}

// Exec runs one script line and returns the trace lines it produces. Any error means the
// line is unsupported or malformed (exit status 2 in the command).
func (ip *Interp) Exec(line string) ([]string, error) {
	toks := strings.Fields(line)
	if len(toks) == 0 || strings.HasPrefix(toks[0], "#") || ip.ph == phStopped {
		return nil, nil
	}
	want := func(p phase, n int) error {
		if ip.ph != p {
			return fmt.Errorf("%s not allowed here", toks[0])
		}
		if n >= 0 && len(toks) != n {
			return fmt.Errorf("%s: want %d tokens", toks[0], n)
		}
		return nil
	}
	switch toks[0] {
	case "G":
		if err := want(phGenesis, -1); err != nil {
			return nil, err
		}
		return nil, ip.gen.AddLine(toks)
	case "INIT":
		if err := want(phGenesis, 1); err != nil {
			return nil, err
		}
		if err := ip.gen.Complete(); err != nil {
			return nil, err
		}
		r, err := NewOn(&ip.gen, ip.Home, ip.Backend)
		if err != nil {
			return nil, err
		}
		ip.R, ip.ph = r, phIdle
		return append([]string{"I ok"}, r.Digest()...), nil
	case "BEGIN":
		if err := want(phIdle, 3); err != nil {
			return nil, err
		}
		sec, err1 := strconv.ParseInt(toks[1], 10, 64)
		ns, err2 := strconv.ParseInt(toks[2], 10, 64)
		if err1 != nil || err2 != nil || ns < 0 || ns > 999_999_999 {
			return nil, fmt.Errorf("BEGIN: bad time")
		}
		if ok, why := ip.R.Begin(time.Unix(sec, ns)); !ok {
			ip.ph = phStopped
			return []string{"B panic", "b panic " + oneToken(why)}, nil
		}
		ip.ph = phBlock
		return []string{"B ok"}, nil
	case "TX", "CHECK":
		p, hard, soft, run := phBlock, "R", "r", ip.R.Deliver
		if toks[0] == "CHECK" {
			p, hard, soft, run = phIdle, "C", "c", ip.R.Check
		}
		if err := want(p, -1); err != nil {
			return nil, err
		}
		t, err := script.ParseTx(toks[1:])
		if err != nil {
			return nil, err
		}
		if err := ip.number(t.N); err != nil {
			return nil, err
		}
		o, err := run(t)
		if err != nil {
			return nil, err
		}
		if toks[0] == "CHECK" {
			ip.checked = true
		}
		ip.Last = o
		if ip.Log != nil {
			fmt.Fprintf(ip.Log, "%s %d %s %s:%d %s :: %s\n", toks[0], t.N, o.Class, o.Codespace, o.Code, strings.ReplaceAll(o.Log, "\n", " "), strings.Join(toks[7:], " "))
		}
		return o.TraceLines(hard, soft, t.N), nil
	case "RECHECK": // RECHECK <N> <n> <transaction fields of CHECK n> : CheckTx(Recheck) of the bytes of CHECK n
		if err := want(phIdle, -1); err != nil {
			return nil, err
		}
		if len(toks) < 4 {
			return nil, fmt.Errorf("RECHECK: want number, CHECK number and the transaction")
		}
		ref, err := strconv.Atoi(toks[2])
		if err != nil {
			return nil, fmt.Errorf("RECHECK: bad CHECK number %q", toks[2])
		}
		t, err := script.ParseTx(append([]string{toks[1]}, toks[3:]...))
		if err != nil {
			return nil, err
		}
		if err := ip.number(t.N); err != nil {
			return nil, err
		}
		o, err := ip.R.Recheck(ref)
		if err != nil {
			return nil, err
		}
		ip.checked = true
		ip.Last = o
		return o.TraceLines("CR", "cr", t.N), nil
	case "GOVEXEC":
		if err := want(phBlock, -1); err != nil {
			return nil, err
		}
		if len(toks) < 3 {
			return nil, fmt.Errorf("GOVEXEC: want number and message")
		}
		n, err := strconv.Atoi(toks[1])
		if err != nil {
			return nil, fmt.Errorf("GOVEXEC: bad number %q", toks[1])
		}
		if err := ip.number(n); err != nil {
			return nil, err
		}
		vote, rest := "yes", toks[2:]
		if strings.HasPrefix(rest[0], "vote=") { // how the only validator votes (default yes); anything else rejects the proposal
			vote, rest = rest[0][5:], rest[1:]
		}
		ms, err := script.ParseMsgs(rest)
		if err != nil {
			return nil, err
		}
		return nil, ip.R.GovExec(n, vote, ms)
	case "END":
		if err := want(phBlock, 1); err != nil {
			return nil, err
		}
		ok, results, err := ip.R.End()
		if err != nil {
			return nil, err
		}
		if !ok {
			ip.ph = phStopped
			return []string{"E panic"}, nil
		}
		ip.ph = phEnded
		return append([]string{"E ok"}, results...), nil
	case "COMMIT":
		if err := want(phEnded, 1); err != nil {
			return nil, err
		}
		ip.R.Commit()
		ip.ph, ip.checked = phIdle, false
		out := append([]string{"K ok"}, ip.R.Digest()...)
		// registered invariants of every module, evaluated on the committed state (soft lines, only when broken)
		return append(out, ip.R.BrokenInvariants()...), nil
	case "QUERY":
		if err := want(phIdle, -1); err != nil {
			return nil, err
		}
		if len(toks) < 3 {
			return nil, fmt.Errorf("QUERY: want number and kind")
		}
		n, err := strconv.Atoi(toks[1])
		if err != nil {
			return nil, fmt.Errorf("QUERY: bad number %q", toks[1])
		}
		if err := ip.number(n); err != nil {
			return nil, err
		}
		o, err := ip.R.Query(toks[2], toks[3:])
		if err != nil {
			return nil, err
		}
		ip.LastQuery, ip.LastKind = o, toks[2]
		if ip.Log != nil {
			fmt.Fprintf(ip.Log, "QUERY %d %s %d %s :: %s\n", n, o.Class, o.Code, strings.ReplaceAll(o.Log, "\n", " "), strings.Join(toks[2:], " "))
		}
		return o.TraceLines(n), nil
	case "DIGEST":
		if err := want(phIdle, 1); err != nil {
			return nil, err
		}
		if ip.checked {
			return nil, fmt.Errorf("DIGEST not allowed after CHECK in the same block gap (the check state carries ante effects)")
		}
		return ip.R.Digest(), nil
	case "EXPORTIMPORT":
		if err := want(phIdle, 1); err != nil {
			return nil, err
		}
		if ip.checked {
			return nil, fmt.Errorf("EXPORTIMPORT not allowed after CHECK in the same block gap (the export reads the check state)")
		}
		lines, ok, err := ip.R.ExportImport()
		if err != nil {
			return nil, err
		}
		if ip.LastX = "panic"; ok {
			ip.LastX = "ok"
		}
		return lines, nil
	case "CRASH":
		if ip.ph != phIdle && ip.ph != phBlock && ip.ph != phEnded {
			return nil, fmt.Errorf("CRASH not allowed here")
		}
		if len(toks) != 1 {
			return nil, fmt.Errorf("CRASH: want 1 token")
		}
		ok, err := ip.R.Crash()
		if err != nil {
			return nil, err
		}
		ip.ph, ip.checked = phIdle, false
		head := "Z bad"
		if ip.LastX = "bad"; ok {
			head, ip.LastX = fmt.Sprintf("Z ok %d", ip.R.Blocks), "ok"
		}
		return append([]string{head}, ip.R.Digest()...), nil
	}
	return nil, fmt.Errorf("unknown script line %q", toks[0])
}

// oneToken squeezes a message into one trace token (first 160 bytes, blanks to underscores).
func oneToken(s string) string {
	s = strings.Join(strings.Fields(s), "_")
	if len(s) > 160 {
		s = s[:160]
	}
	if s == "" {
		return "-"
	}
	return s
}
