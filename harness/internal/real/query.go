package real

// QUERY lines (PROTOCOL.md §7): every query goes through ABCI Query on the gRPC route of
// BaseApp, exactly as a client request would, at Height 0 (= last committed).

import (
	"bytes"
	"encoding/hex"
	"fmt"
	"math/big"
	"strconv"
	"strings"

	abci "github.com/cometbft/cometbft/abci/types"
	sdk "github.com/cosmos/cosmos-sdk/types"
	"github.com/cosmos/cosmos-sdk/types/query"
	banktypes "github.com/cosmos/cosmos-sdk/x/bank/types"
	"github.com/cosmos/gogoproto/proto"

	beacontypes "github.com/unification-com/mainchain/x/beacon/types"
	enttypes "github.com/unification-com/mainchain/x/enterprise/types"
	streamtypes "github.com/unification-com/mainchain/x/stream/types"
	wrktypes "github.com/unification-com/mainchain/x/wrkchain/types"

	"verif/harness/internal/script"
)

// gRPC service names.
const (
	entSvc  = "/mainchain.enterprise.v1.Query/"
	wrkSvc  = "/mainchain.wrkchain.v1.Query/"
	bcnSvc  = "/mainchain.beacon.v1.Query/"
	strSvc  = "/mainchain.stream.v1.Query/"
	bankSvc = "/cosmos.bank.v1beta1.Query/"
)

// QueryArity is the number of argument tokens of every query kind (a <page> counts five).
var QueryArity = map[string]int{
	"ent.po": 1, "ent.pos": 7, "ent.wl": 0, "ent.wled": 1, "ent.locked": 1, "ent.spent": 1,
	"ent.totallocked": 0, "ent.totalspent": 0, "ent.totalunlocked": 0, "ent.entsupply": 0,
	"ent.supplyof": 1, "ent.totalsupply": 5, "bank.supplyof": 1,
	"wrk.chain": 1, "wrk.chains": 7, "wrk.block": 2, "wrk.storage": 1,
	"bcn.beacon": 1, "bcn.beacons": 7, "bcn.ts": 2, "bcn.storage": 1,
	"str.stream": 2, "str.streams": 5, "str.bysender": 6, "str.byreceiver": 6,
	"params": 1,
}

// QueryOutcome is the classified result of a QUERY line.
type QueryOutcome struct {
	Class  string // ok | err
	Code   uint32
	Log    string
	Tokens []string // result tokens, only for ok
}

// TraceLines renders the hard and the soft line.
func (o QueryOutcome) TraceLines(n int) []string {
	h := fmt.Sprintf("Q %d %s", n, o.Class)
	if o.Class == "ok" && len(o.Tokens) > 0 {
		h += " " + strings.Join(o.Tokens, " ")
	}
	return []string{h, fmt.Sprintf("q %d %d:%s", n, o.Code, oneToken(o.Log))}
}

// queryFail carries an application-side query error through the helpers below.
type queryFail struct {
	code uint32
	log  string
}

func (q *queryFail) Error() string { return q.log }

// grpc runs one request on the gRPC query route of BaseApp and decodes the response.
func (r *Runner) grpc(path string, req, resp proto.Message) error {
	bz, err := proto.Marshal(req)
	if err != nil {
		return err
	}
	res := r.App.Query(abci.RequestQuery{Path: path, Data: bz, Height: 0})
	if res.Code != 0 {
		return &queryFail{res.Code, res.Log}
	}
	return proto.Unmarshal(res.Value, resp)
}

// sameProto compares two messages by their canonical encoding. (gogoproto's proto.Equal cannot
// descend into the custom math.Int type of sdk.Coin, so the encodings are compared instead;
// for these messages — no maps, no unknown fields — that is the same relation.)
func sameProto(a, b proto.Message) bool {
	x, err1 := proto.Marshal(a)
	y, err2 := proto.Marshal(b)
	return err1 == nil && err2 == nil && bytes.Equal(x, y)
}

// parsePage parses the five <page> tokens.
func parsePage(toks []string) (*query.PageRequest, error) {
	kv, err := splitKV(toks, "key", "off", "lim", "tot", "rev")
	if err != nil {
		return nil, err
	}
	p := &query.PageRequest{}
	if kv[0] != "-" {
		if p.Key, err = hex.DecodeString(kv[0]); err != nil || kv[0] != strings.ToLower(kv[0]) {
			return nil, fmt.Errorf("page: bad key %q", kv[0])
		}
	}
	if p.Offset, err = u64(kv[1]); err != nil {
		return nil, fmt.Errorf("page: bad off %q", kv[1])
	}
	if p.Limit, err = u64(kv[2]); err != nil {
		return nil, fmt.Errorf("page: bad lim %q", kv[2])
	}
	for i, dst := range []*bool{&p.CountTotal, &p.Reverse} {
		switch kv[3+i] {
		case "0":
		case "1":
			*dst = true
		default:
			return nil, fmt.Errorf("page: want 0|1, found %q", kv[3+i])
		}
	}
	return p, nil
}

func splitKV(toks []string, keys ...string) ([]string, error) {
	if len(toks) != len(keys) {
		return nil, fmt.Errorf("want fields %v", keys)
	}
	out := make([]string, len(keys))
	for i, k := range keys {
		if !strings.HasPrefix(toks[i], k+"=") || len(toks[i]) == len(k)+1 {
			return nil, fmt.Errorf("want field %s=<value>, found %q", k, toks[i])
		}
		out[i] = toks[i][len(k)+1:]
	}
	return out, nil
}

func pageTail(p *query.PageResponse) []string {
	next, total := "-", uint64(0)
	if p != nil {
		if len(p.NextKey) > 0 {
			next = hex.EncodeToString(p.NextKey)
		}
		total = p.Total
	}
	return []string{"next=" + next, "total=" + fu(total)}
}

// envCoins is what the environment holds (V, bonded / not-bonded pool, gov) on the committed state.
func (r *Runner) envCoins() (sdk.Coins, error) {
	ctx, err := r.App.CreateQueryContext(0, false)
	if err != nil {
		return nil, err
	}
	env := r.App.BankKeeper.GetAllBalances(ctx, r.ValAddr)
	for _, m := range []string{"Mbond", "Mnbond", "Mgov"} {
		env = env.Add(r.App.BankKeeper.GetAllBalances(ctx, r.Sym.Mods[m])...)
	}
	return env, nil
}

func adjust(c sdk.Coin, env sdk.Coins) sdk.Coin {
	if c.Amount.IsNil() {
		c.Amount = sdk.ZeroInt()
	}
	return sdk.Coin{Denom: c.Denom, Amount: c.Amount.Sub(env.AmountOfNoDenomValidation(c.Denom))}
}

func adjustU64(x uint64, denom string, env sdk.Coins) string {
	v := new(big.Int).SetUint64(x)
	return v.Sub(v, env.AmountOfNoDenomValidation(denom).BigInt()).String()
}

func qu64(s string) (uint64, error) {
	v, err := strconv.ParseUint(s, 10, 64)
	if err != nil {
		return 0, fmt.Errorf("bad unsigned integer %q", s)
	}
	return v, nil
}

func poTokens(sym *Symbols, po enttypes.EnterpriseUndPurchaseOrder) []string {
	ds := make([]string, len(po.Decisions))
	for i, d := range po.Decisions {
		ds[i] = fmt.Sprintf("%s:%d:%d", sym.TokString(d.Signer), int32(d.Decision), d.DecisionTime)
	}
	return []string{fu(po.Id), sym.TokString(po.Purchaser), fmtCoin(po.Amount), fmt.Sprint(int32(po.Status)),
		fu(po.RaiseTime), fu(po.CompletionTime), script.List(ds)}
}

func streamTokens(sym *Symbols, s *streamtypes.StreamResult) []string {
	st := s.Stream
	if st == nil {
		st = &streamtypes.Stream{}
	}
	c := "0"
	if st.Cancellable {
		c = "1"
	}
	return []string{sym.TokString(s.Receiver), sym.TokString(s.Sender), fmtCoin(st.Deposit), fmt.Sprint(st.FlowRate),
		FmtTime(st.LastOutflowTime), FmtTime(st.DepositZeroTime), c}
}

// Query executes a QUERY line. A harness-side problem (malformed line) is the error; an
// application-side error or panic is the outcome "err".
func (r *Runner) Query(kind string, args []string) (QueryOutcome, error) {
	n, known := QueryArity[kind]
	if !known {
		return QueryOutcome{}, fmt.Errorf("unknown query kind %q", kind)
	}
	if len(args) != n {
		return QueryOutcome{}, fmt.Errorf("QUERY %s: want %d arguments, have %d", kind, n, len(args))
	}
	toks, err := r.query(kind, args)
	if qf, ok := err.(*queryFail); ok {
		return QueryOutcome{Class: "err", Code: qf.code, Log: qf.log}, nil
	}
	if err != nil {
		return QueryOutcome{}, fmt.Errorf("QUERY %s: %v", kind, err)
	}
	return QueryOutcome{Class: "ok", Tokens: toks}, nil
}

func (r *Runner) query(kind string, a []string) ([]string, error) {
	sym := r.Sym
	id := func(i int) (uint64, error) { return qu64(a[i]) }
	items := func(xs []string, pm int, p *query.PageResponse) []string {
		return append([]string{"items=" + script.List(xs), fmt.Sprintf("pm=%d", pm)}, pageTail(p)...)
	}
	switch kind {
	// ---------------------------------------------------------------- enterprise
	case "ent.po":
		x, err := id(0)
		if err != nil {
			return nil, err
		}
		var resp enttypes.QueryEnterpriseUndPurchaseOrderResponse
		if err := r.grpc(entSvc+"EnterpriseUndPurchaseOrder", &enttypes.QueryEnterpriseUndPurchaseOrderRequest{PurchaseOrderId: x}, &resp); err != nil {
			return nil, err
		}
		return poTokens(sym, resp.PurchaseOrder), nil

	case "ent.pos":
		kv, err := splitKV(a[:2], "status", "purchaser")
		if err != nil {
			return nil, err
		}
		req := &enttypes.QueryEnterpriseUndPurchaseOrdersRequest{}
		if kv[0] != "-" {
			s, err := strconv.ParseInt(kv[0], 10, 32)
			if err != nil {
				return nil, fmt.Errorf("bad status %q", kv[0])
			}
			req.Status = enttypes.PurchaseOrderStatus(s)
		}
		if req.Purchaser, err = sym.Resolve(kv[1]); err != nil {
			return nil, err
		}
		if req.Pagination, err = parsePage(a[2:]); err != nil {
			return nil, err
		}
		var resp enttypes.QueryEnterpriseUndPurchaseOrdersResponse
		if err := r.grpc(entSvc+"EnterpriseUndPurchaseOrders", req, &resp); err != nil {
			return nil, err
		}
		var xs []string
		pm := 0
		for i := range resp.PurchaseOrders {
			po := &resp.PurchaseOrders[i]
			xs = append(xs, fu(po.Id))
			var pt enttypes.QueryEnterpriseUndPurchaseOrderResponse
			if err := r.grpc(entSvc+"EnterpriseUndPurchaseOrder", &enttypes.QueryEnterpriseUndPurchaseOrderRequest{PurchaseOrderId: po.Id}, &pt); err != nil || !sameProto(po, &pt.PurchaseOrder) {
				pm++
			}
		}
		return items(xs, pm, resp.Pagination), nil

	case "ent.wl":
		var resp enttypes.QueryWhitelistResponse
		if err := r.grpc(entSvc+"Whitelist", &enttypes.QueryWhitelistRequest{}, &resp); err != nil {
			return nil, err
		}
		xs := make([]string, len(resp.Addresses))
		for i, s := range resp.Addresses {
			xs[i] = sym.TokString(s)
		}
		return []string{"items=" + script.List(xs)}, nil

	case "ent.wled":
		addr, err := sym.Resolve(a[0])
		if err != nil {
			return nil, err
		}
		var resp enttypes.QueryWhitelistedResponse
		if err := r.grpc(entSvc+"Whitelisted", &enttypes.QueryWhitelistedRequest{Address: addr}, &resp); err != nil {
			return nil, err
		}
		if resp.Whitelisted {
			return []string{"1"}, nil
		}
		return []string{"0"}, nil

	case "ent.locked", "ent.spent":
		addr, err := sym.Resolve(a[0])
		if err != nil {
			return nil, err
		}
		// Both responses carry only the coin; the owner position of the result is always "-".
		if kind == "ent.locked" {
			var resp enttypes.QueryLockedUndByAddressResponse
			if err := r.grpc(entSvc+"LockedUndByAddress", &enttypes.QueryLockedUndByAddressRequest{Owner: addr}, &resp); err != nil {
				return nil, err
			}
			return []string{"-", fmtCoin(resp.Amount)}, nil
		}
		var resp enttypes.QuerySpentEFUNDByAddressResponse
		if err := r.grpc(entSvc+"SpentEFUNDByAddress", &enttypes.QuerySpentEFUNDByAddressRequest{Address: addr}, &resp); err != nil {
			return nil, err
		}
		return []string{"-", fmtCoin(resp.Amount)}, nil

	case "ent.totallocked":
		var resp enttypes.QueryTotalLockedResponse
		if err := r.grpc(entSvc+"TotalLocked", &enttypes.QueryTotalLockedRequest{}, &resp); err != nil {
			return nil, err
		}
		return []string{fmtCoin(resp.Amount)}, nil

	case "ent.totalspent":
		var resp enttypes.QueryTotalSpentEFUNDResponse
		if err := r.grpc(entSvc+"TotalSpentEFUND", &enttypes.QueryTotalSpentEFUNDRequest{}, &resp); err != nil {
			return nil, err
		}
		return []string{fmtCoin(resp.Amount)}, nil

	case "ent.totalunlocked":
		var resp enttypes.QueryTotalUnlockedResponse
		if err := r.grpc(entSvc+"TotalUnlocked", &enttypes.QueryTotalUnlockedRequest{}, &resp); err != nil {
			return nil, err
		}
		env, err := r.envCoins()
		if err != nil {
			return nil, err
		}
		return []string{fmtCoin(adjust(resp.Amount, env))}, nil

	case "ent.entsupply":
		var resp enttypes.QueryEnterpriseSupplyResponse
		if err := r.grpc(entSvc+"EnterpriseSupply", &enttypes.QueryEnterpriseSupplyRequest{}, &resp); err != nil {
			return nil, err
		}
		env, err := r.envCoins()
		if err != nil {
			return nil, err
		}
		s := resp.Supply
		return []string{script.Tok(s.Denom), fu(s.Locked), adjustU64(s.Amount, s.Denom, env), adjustU64(s.Total, s.Denom, env)}, nil

	case "ent.supplyof", "bank.supplyof":
		denom := script.Untok(a[0])
		var amount sdk.Coin
		if kind == "ent.supplyof" {
			var resp enttypes.QuerySupplyOfResponse
			if err := r.grpc(entSvc+"SupplyOf", &enttypes.QuerySupplyOfRequest{Denom: denom}, &resp); err != nil {
				return nil, err
			}
			amount = resp.Amount
		} else {
			var resp banktypes.QuerySupplyOfResponse
			if err := r.grpc(bankSvc+"SupplyOf", &banktypes.QuerySupplyOfRequest{Denom: denom}, &resp); err != nil {
				return nil, err
			}
			amount = resp.Amount
		}
		env, err := r.envCoins()
		if err != nil {
			return nil, err
		}
		return []string{fmtCoin(adjust(amount, env))}, nil

	case "ent.totalsupply":
		page, err := parsePage(a)
		if err != nil {
			return nil, err
		}
		var resp enttypes.QueryTotalSupplyResponse
		if err := r.grpc(entSvc+"TotalSupply", &enttypes.QueryTotalSupplyRequest{Pagination: page}, &resp); err != nil {
			return nil, err
		}
		env, err := r.envCoins()
		if err != nil {
			return nil, err
		}
		var cs []string
		for _, c := range resp.Supply {
			if adj := adjust(c, env); !adj.Amount.IsZero() {
				cs = append(cs, fmtCoin(adj))
			}
		}
		return append([]string{"coins=" + script.List(cs)}, pageTail(resp.Pagination)...), nil

	// ---------------------------------------------------------------- wrkchain
	case "wrk.chain":
		x, err := id(0)
		if err != nil {
			return nil, err
		}
		var resp wrktypes.QueryWrkChainResponse
		if err := r.grpc(wrkSvc+"WrkChain", &wrktypes.QueryWrkChainRequest{WrkchainId: x}, &resp); err != nil {
			return nil, err
		}
		c := resp.Wrkchain
		if c == nil {
			c = &wrktypes.WrkChain{}
		}
		limit, err := r.storedLimit("wrk", c.WrkchainId)
		if err != nil {
			return nil, err
		}
		return []string{fu(c.WrkchainId), sym.TokString(c.Owner), script.Tok(c.Moniker), script.Tok(c.Name), script.Tok(c.Genesis), script.Tok(c.Type),
			fu(c.RegTime), fu(c.Lastblock), fu(c.NumBlocks), fu(c.LowestHeight), limit}, nil

	case "wrk.chains":
		kv, err := splitKV(a[:2], "moniker", "owner")
		if err != nil {
			return nil, err
		}
		req := &wrktypes.QueryWrkChainsFilteredRequest{Moniker: script.Untok(kv[0])}
		if req.Owner, err = sym.Resolve(kv[1]); err != nil {
			return nil, err
		}
		if req.Pagination, err = parsePage(a[2:]); err != nil {
			return nil, err
		}
		var resp wrktypes.QueryWrkChainsFilteredResponse
		if err := r.grpc(wrkSvc+"WrkChainsFiltered", req, &resp); err != nil {
			return nil, err
		}
		var xs []string
		pm := 0
		for i := range resp.Wrkchains {
			c := &resp.Wrkchains[i]
			xs = append(xs, fu(c.WrkchainId))
			var pt wrktypes.QueryWrkChainResponse
			if err := r.grpc(wrkSvc+"WrkChain", &wrktypes.QueryWrkChainRequest{WrkchainId: c.WrkchainId}, &pt); err != nil || pt.Wrkchain == nil || !sameProto(c, pt.Wrkchain) {
				pm++
			}
		}
		return items(xs, pm, resp.Pagination), nil

	case "wrk.block":
		x, err1 := id(0)
		h, err2 := id(1)
		if err1 != nil || err2 != nil {
			return nil, fmt.Errorf("bad id or height")
		}
		var resp wrktypes.QueryWrkChainBlockResponse
		if err := r.grpc(wrkSvc+"WrkChainBlock", &wrktypes.QueryWrkChainBlockRequest{WrkchainId: x, Height: h}, &resp); err != nil {
			return nil, err
		}
		b := resp.Block
		if b == nil {
			b = &wrktypes.WrkChainBlock{}
		}
		return []string{fu(resp.WrkchainId), fu(b.Height), script.Tok(b.Blockhash), script.Tok(b.Parenthash), script.Tok(b.Hash1),
			script.Tok(b.Hash2), script.Tok(b.Hash3), fu(b.SubTime)}, nil

	case "wrk.storage":
		x, err := id(0)
		if err != nil {
			return nil, err
		}
		var resp wrktypes.QueryWrkChainStorageResponse
		if err := r.grpc(wrkSvc+"WrkChainStorage", &wrktypes.QueryWrkChainStorageRequest{WrkchainId: x}, &resp); err != nil {
			return nil, err
		}
		return []string{sym.TokString(resp.Owner), fu(resp.CurrentLimit), fu(resp.CurrentUsed), fu(resp.Max), fu(resp.MaxPurchasable)}, nil

	// ---------------------------------------------------------------- beacon
	case "bcn.beacon":
		x, err := id(0)
		if err != nil {
			return nil, err
		}
		var resp beacontypes.QueryBeaconResponse
		if err := r.grpc(bcnSvc+"Beacon", &beacontypes.QueryBeaconRequest{BeaconId: x}, &resp); err != nil {
			return nil, err
		}
		b := resp.Beacon
		if b == nil {
			b = &beacontypes.Beacon{}
		}
		limit, err := r.storedLimit("bcn", b.BeaconId)
		if err != nil {
			return nil, err
		}
		return []string{fu(b.BeaconId), sym.TokString(b.Owner), script.Tok(b.Moniker), script.Tok(b.Name), fu(b.RegTime),
			fu(b.LastTimestampId), fu(b.FirstIdInState), fu(b.NumInState), limit}, nil

	case "bcn.beacons":
		kv, err := splitKV(a[:2], "moniker", "owner")
		if err != nil {
			return nil, err
		}
		req := &beacontypes.QueryBeaconsFilteredRequest{Moniker: script.Untok(kv[0])}
		if req.Owner, err = sym.Resolve(kv[1]); err != nil {
			return nil, err
		}
		if req.Pagination, err = parsePage(a[2:]); err != nil {
			return nil, err
		}
		var resp beacontypes.QueryBeaconsFilteredResponse
		if err := r.grpc(bcnSvc+"BeaconsFiltered", req, &resp); err != nil {
			return nil, err
		}
		var xs []string
		pm := 0
		for i := range resp.Beacons {
			b := &resp.Beacons[i]
			xs = append(xs, fu(b.BeaconId))
			var pt beacontypes.QueryBeaconResponse
			if err := r.grpc(bcnSvc+"Beacon", &beacontypes.QueryBeaconRequest{BeaconId: b.BeaconId}, &pt); err != nil || pt.Beacon == nil || !sameProto(b, pt.Beacon) {
				pm++
			}
		}
		return items(xs, pm, resp.Pagination), nil

	case "bcn.ts":
		x, err1 := id(0)
		t, err2 := id(1)
		if err1 != nil || err2 != nil {
			return nil, fmt.Errorf("bad id or timestamp id")
		}
		var resp beacontypes.QueryBeaconTimestampResponse
		if err := r.grpc(bcnSvc+"BeaconTimestamp", &beacontypes.QueryBeaconTimestampRequest{BeaconId: x, TimestampId: t}, &resp); err != nil {
			return nil, err
		}
		ts := resp.Timestamp
		if ts == nil {
			ts = &beacontypes.BeaconTimestamp{}
		}
		return []string{fu(resp.BeaconId), fu(ts.TimestampId), script.Tok(ts.Hash), fu(ts.SubmitTime)}, nil

	case "bcn.storage":
		x, err := id(0)
		if err != nil {
			return nil, err
		}
		var resp beacontypes.QueryBeaconStorageResponse
		if err := r.grpc(bcnSvc+"BeaconStorage", &beacontypes.QueryBeaconStorageRequest{BeaconId: x}, &resp); err != nil {
			return nil, err
		}
		return []string{sym.TokString(resp.Owner), fu(resp.CurrentLimit), fu(resp.CurrentUsed), fu(resp.Max), fu(resp.MaxPurchasable)}, nil

	// ---------------------------------------------------------------- stream
	case "str.stream":
		recv, err1 := sym.Resolve(a[0])
		send, err2 := sym.Resolve(a[1])
		if err1 != nil || err2 != nil {
			return nil, fmt.Errorf("bad address token")
		}
		var resp streamtypes.QueryStreamByReceiverSenderResponse
		if err := r.grpc(strSvc+"StreamByReceiverSender", &streamtypes.QueryStreamByReceiverSenderRequest{ReceiverAddr: recv, SenderAddr: send}, &resp); err != nil {
			return nil, err
		}
		return streamTokens(sym, &resp.Stream), nil

	case "str.streams", "str.bysender", "str.byreceiver":
		var streams []*streamtypes.StreamResult
		var pageRes *query.PageResponse
		switch kind {
		case "str.streams":
			page, err := parsePage(a)
			if err != nil {
				return nil, err
			}
			var resp streamtypes.QueryStreamsResponse
			if err := r.grpc(strSvc+"Streams", &streamtypes.QueryStreamsRequest{Pagination: page}, &resp); err != nil {
				return nil, err
			}
			streams, pageRes = resp.Streams, resp.Pagination
		case "str.bysender":
			addr, err := sym.Resolve(a[0])
			if err != nil {
				return nil, err
			}
			page, err := parsePage(a[1:])
			if err != nil {
				return nil, err
			}
			var resp streamtypes.QueryAllStreamsForSenderResponse
			if err := r.grpc(strSvc+"AllStreamsForSender", &streamtypes.QueryAllStreamsForSenderRequest{SenderAddr: addr, Pagination: page}, &resp); err != nil {
				return nil, err
			}
			streams, pageRes = resp.Streams, resp.Pagination
		default:
			addr, err := sym.Resolve(a[0])
			if err != nil {
				return nil, err
			}
			page, err := parsePage(a[1:])
			if err != nil {
				return nil, err
			}
			var resp streamtypes.QueryAllStreamsForReceiverResponse
			if err := r.grpc(strSvc+"AllStreamsForReceiver", &streamtypes.QueryAllStreamsForReceiverRequest{ReceiverAddr: addr, Pagination: page}, &resp); err != nil {
				return nil, err
			}
			streams, pageRes = resp.Streams, resp.Pagination
		}
		var xs []string
		pm := 0
		for _, s := range streams {
			if s == nil {
				s = &streamtypes.StreamResult{}
			}
			xs = append(xs, sym.TokString(s.Receiver)+"/"+sym.TokString(s.Sender))
			var pt streamtypes.QueryStreamByReceiverSenderResponse
			if err := r.grpc(strSvc+"StreamByReceiverSender", &streamtypes.QueryStreamByReceiverSenderRequest{ReceiverAddr: s.Receiver, SenderAddr: s.Sender}, &pt); err != nil || !sameProto(s, &pt.Stream) {
				pm++
			}
		}
		return items(xs, pm, pageRes), nil

	// ---------------------------------------------------------------- params
	case "params":
		switch a[0] {
		case "ent":
			var resp enttypes.QueryParamsResponse
			if err := r.grpc(entSvc+"Params", &enttypes.QueryParamsRequest{}, &resp); err != nil {
				return nil, err
			}
			p := resp.Params
			return []string{script.Tok(p.Denom), fu(p.MinAccepts), fu(p.DecisionTimeLimit), r.signerList(p.EntSigners)}, nil
		case "wrk":
			var resp wrktypes.QueryParamsResponse
			if err := r.grpc(wrkSvc+"Params", &wrktypes.QueryParamsRequest{}, &resp); err != nil {
				return nil, err
			}
			p := resp.Params
			return []string{script.Tok(p.Denom), fu(p.FeeRegister), fu(p.FeeRecord), fu(p.FeePurchaseStorage), fu(p.DefaultStorageLimit), fu(p.MaxStorageLimit)}, nil
		case "bcn":
			var resp beacontypes.QueryParamsResponse
			if err := r.grpc(bcnSvc+"Params", &beacontypes.QueryParamsRequest{}, &resp); err != nil {
				return nil, err
			}
			p := resp.Params
			return []string{script.Tok(p.Denom), fu(p.FeeRegister), fu(p.FeeRecord), fu(p.FeePurchaseStorage), fu(p.DefaultStorageLimit), fu(p.MaxStorageLimit)}, nil
		case "str":
			var resp streamtypes.QueryParamsResponse
			if err := r.grpc(strSvc+"Params", &streamtypes.QueryParamsRequest{}, &resp); err != nil {
				return nil, err
			}
			return []string{resp.Params.ValidatorFee.BigInt().String()}, nil
		}
		return nil, fmt.Errorf("params: want ent|wrk|bcn|str, found %q", a[0])
	}
	return nil, fmt.Errorf("unhandled query kind %q", kind)
}

// storedLimit is the last token of `D wrk.chain` / `D bcn.beacon`: the stored in-state limit read
// from the committed state exactly as the digest reads it ("none" when no limit record exists).
func (r *Runner) storedLimit(mod string, id uint64) (string, error) {
	ctx, err := r.App.CreateQueryContext(0, false)
	if err != nil {
		return "", err
	}
	if mod == "wrk" {
		if l, ok := r.App.WrkchainKeeper.GetWrkChainStorageLimit(ctx, id); ok {
			return fu(l.InStateLimit), nil
		}
		return "none", nil
	}
	if l, ok := r.App.BeaconKeeper.GetBeaconStorageLimit(ctx, id); ok {
		return fu(l.InStateLimit), nil
	}
	return "none", nil
}
