package real

// GOVEXEC scheme
// --------------
// "GOVEXEC n <msg>" in block k means: <msg> is executed by the gov module, with the gov
// module account as authority, during the EndBlock of that same block k. To make this
// deterministic in generation and in replay, for every block time step (also step 0), the gov
// voting period is set to ZERO in genesis (gov InitGenesis stores params without validating
// them). At the position of the GOVEXEC line the harness delivers two environment
// transactions signed by V, neither of which is traced:
//
//	MsgSubmitProposal{messages: [msg], initial_deposit: 1nund, proposer: V}
//	MsgVote{proposal_id, voter: V, option: yes}
//
// The deposit meets min_deposit, so the proposal enters the voting period at once with
// voting_end_time = block time + 0 ≤ block time; the gov EndBlocker of block k therefore
// tallies it (V holds all bonded power → passes), executes the message on a cache context and
// refunds the deposit. Several GOVEXEC lines of one block are executed in script order
// (active queue key = end time ‖ proposal id). After EndBlock the proposal status is read:
// PASSED → "RG n ok", FAILED → "RG n err"; any other status is a harness bug.
//
// A message that real governance can never execute is reported as "RG n err" with no state
// change: if the submit transaction is rejected (inner ValidateBasic fails, or the signer of
// the message is not the gov module account) no proposal exists and the line yields err.

import (
	"fmt"
	"time"

	abci "github.com/cometbft/cometbft/abci/types"
	sdk "github.com/cosmos/cosmos-sdk/types"
	govv1 "github.com/cosmos/cosmos-sdk/x/gov/types/v1"
	"github.com/cosmos/gogoproto/proto"

	"verif/harness/internal/script"
)

// GovVotingPeriod is the voting period written into the gov genesis.
const GovVotingPeriod = time.Duration(0)

type govItem struct {
	n        int
	proposal uint64 // 0: submission was rejected
}

// envTx delivers an untraced environment transaction signed by V.
func (r *Runner) envTx(msg sdk.Msg) (abci.ResponseDeliverTx, error) {
	num, seq := r.accountInfo(r.DeliverCtx(), r.ValAddr)
	bz, err := r.signTx([]sdk.Msg{msg}, nil, nil, nil, []signer{{priv: r.valPriv, pub: r.valPriv.PubKey(), num: num, seq: seq}})
	if err != nil {
		return abci.ResponseDeliverTx{}, err
	}
	r.blk.txs = append(r.blk.txs, BlockTx{N: -1, Bz: bz})
	return r.App.DeliverTx(abci.RequestDeliverTx{Tx: bz}), nil
}

// GovExec handles a GOVEXEC line inside the open block.
func (r *Runner) GovExec(n int, vote string, ms []script.Msg) error {
	var msgs []sdk.Msg
	for _, m := range ms {
		msg, err := r.BuildMsg(m)
		if err != nil {
			return err
		}
		msgs = append(msgs, msg)
	}
	item := govItem{n: n}
	defer func() { r.gov = append(r.gov, item) }()
	submit, err := govv1.NewMsgSubmitProposal(msgs, sdk.NewCoins(sdk.NewInt64Coin(BondDenom, 1)), r.ValAddr.String(), "", "verif", "verif")
	if err != nil {
		return err
	}
	res, err := r.envTx(submit)
	if err != nil {
		return err
	}
	if res.Code != 0 {
		return nil // never reaches EndBlock: RG n err
	}
	var md sdk.TxMsgData
	var sr govv1.MsgSubmitProposalResponse
	if err := proto.Unmarshal(res.Data, &md); err != nil || len(md.MsgResponses) != 1 {
		return fmt.Errorf("GOVEXEC %d: cannot decode submit response", n)
	}
	if err := proto.Unmarshal(md.MsgResponses[0].Value, &sr); err != nil {
		return err
	}
	item.proposal = sr.ProposalId
	opt, ok := map[string]govv1.VoteOption{"yes": govv1.OptionYes, "no": govv1.OptionNo, "veto": govv1.OptionNoWithVeto, "abstain": govv1.OptionAbstain}[vote]
	if !ok {
		return fmt.Errorf("GOVEXEC %d: unknown vote %q", n, vote)
	}
	vres, err := r.envTx(govv1.NewMsgVote(r.ValAddr, sr.ProposalId, opt, ""))
	if err != nil {
		return err
	}
	if vres.Code != 0 {
		return fmt.Errorf("GOVEXEC %d: vote rejected: %s", n, vres.Log)
	}
	return nil
}

// govResults renders the RG lines after EndBlock.
func (r *Runner) govResults() ([]string, error) {
	var out []string
	ctx := r.DeliverCtx()
	for _, it := range r.gov {
		class := "err"
		if it.proposal != 0 {
			p, ok := r.App.GovKeeper.GetProposal(ctx, it.proposal)
			switch {
			case !ok:
				return nil, fmt.Errorf("GOVEXEC %d: proposal %d vanished", it.n, it.proposal)
			case p.Status == govv1.StatusPassed:
				class = "ok"
			case p.Status == govv1.StatusFailed:
			case p.Status == govv1.StatusRejected: // voted down, vetoed (deposit burned) or abstained from: no message ran
				class = "rejected"
			default:
				return nil, fmt.Errorf("GOVEXEC %d: proposal %d not tallied in this EndBlock (status %s)", it.n, it.proposal, p.Status)
			}
		}
		out = append(out, fmt.Sprintf("RG %d %s", it.n, class))
	}
	return out, nil
}
