// Package real drives the real application in-process through ABCI and renders the trace
// and digest lines of /verif/PROTOCOL.md §3/§4.
package real

import (
	"fmt"
	"regexp"
	"strings"
	"time"

	dbm "github.com/cometbft/cometbft-db"
	abci "github.com/cometbft/cometbft/abci/types"
	tmproto "github.com/cometbft/cometbft/proto/tendermint/types"
	"github.com/cosmos/cosmos-sdk/client"
	"github.com/cosmos/cosmos-sdk/crypto/keys/secp256k1"
	cryptotypes "github.com/cosmos/cosmos-sdk/crypto/types"
	sdk "github.com/cosmos/cosmos-sdk/types"
	"github.com/cosmos/cosmos-sdk/types/tx/signing"
	authsigning "github.com/cosmos/cosmos-sdk/x/auth/signing"

	"github.com/unification-com/mainchain/app"

	"verif/harness/internal/script"
)

// Runner owns one application instance and the scenario it was started with.
type Runner struct {
	App     *app.App
	G       *script.Genesis
	Sym     *Symbols
	ValAddr sdk.AccAddress // V
	Time    time.Time      // time of the current (or last committed) block
	Height  int64          // application height of the current block

	Home   string // scratch directory (application home; goleveldb directories live below it)
	Blocks int64  // blocks committed since INIT (counting continues over EXPORTIMPORT)

	valPriv, badPriv *secp256k1.PrivKey
	consAddr         []byte
	gov              []govItem // GOVEXEC lines of the current block

	backend string // memdb | goleveldb
	db      dbm.DB // database of App; survives dropping the application object
	dbDir   string // goleveldb: directory of db
	dbSeq   int

	commitHeight int64 // LastBlockHeight / LastCommitID().Hash / block time right after the last Commit
	commitHash   []byte
	checkBytes   map[int][]byte // signed bytes of the CHECK lines, by number (for RECHECK)
	commitTime   time.Time
	checkZero    bool // the check state carries a header with height 0 (after InitChain, after a restart)

	blk blockLog // what was executed in the open block (for Redo)
}

// blockLog records the open block so that a twin run can replay it with identical bytes.
type blockLog struct {
	begun, ended bool
	time         time.Time
	txs          []BlockTx
}

// BlockTx is one DeliverTx of the open block; N < 0 marks an untraced environment transaction.
type BlockTx struct {
	N  int
	Bz []byte
}

// Outcome is the classified result of a transaction.
type Outcome struct {
	Class     string // ok | err | panic
	Codespace string
	Code      uint32
	Log       string
	Fields    []string // response fields, only for ok

	GasWanted, GasUsed int64
	Data               []byte
}

var goroutineRe = regexp.MustCompile(`goroutine [0-9]+`)

func classify(code uint32, codespace string) string {
	switch {
	case code == 0:
		return "ok"
	case code == 111222 && (codespace == "undefined" || codespace == "sdk"):
		return "panic" // errorsmod.ErrPanic is registered in the codespace "undefined"
	}
	return "err"
}

func (r *Runner) header() tmproto.Header {
	return tmproto.Header{ChainID: ChainID, Height: r.Height, Time: r.Time, ProposerAddress: r.consAddr}
}

// DeliverCtx is a read context on the working state of the open block.
func (r *Runner) DeliverCtx() sdk.Context { return r.App.NewContext(false, r.header()) }

// CheckCtx is a read context on the check state (= committed state right after Commit).
func (r *Runner) CheckCtx() sdk.Context { return r.App.NewContext(true, r.header()) }

func guard(f func()) (panicked interface{}) {
	defer func() { panicked = recover() }()
	f()
	return nil
}

// Begin runs BeginBlock; ok is false when it panicked.
func (r *Runner) Begin(t time.Time) (ok bool, msg string) {
	r.Time, r.Height, r.gov = t.UTC(), r.App.LastBlockHeight()+1, nil
	r.blk = blockLog{begun: true, time: r.Time}
	if p := guard(func() { r.App.BeginBlock(abci.RequestBeginBlock{Header: r.header()}) }); p != nil {
		return false, fmt.Sprint(p)
	}
	return true, ""
}

// End runs EndBlock; ok is false when it panicked. results are the RG lines of this block.
func (r *Runner) End() (ok bool, results []string, err error) {
	if p := guard(func() { r.App.EndBlock(abci.RequestEndBlock{Height: r.Height}) }); p != nil {
		return false, nil, nil
	}
	r.blk.ended = true
	results, err = r.govResults()
	return true, results, err
}

// Commit commits the open block.
func (r *Runner) Commit() {
	r.App.Commit()
	r.Blocks++
	r.checkZero = false
	r.markCommitted()
}

// markCommitted remembers what a restart must find again.
func (r *Runner) markCommitted() {
	r.commitHeight, r.commitHash, r.commitTime = r.App.LastBlockHeight(), r.App.LastCommitID().Hash, r.Time
	r.blk = blockLog{}
}

// accountInfo reads account number and sequence (zero for a missing account).
func (r *Runner) accountInfo(ctx sdk.Context, addr sdk.AccAddress) (num, seq uint64) {
	if acc := r.App.AccountKeeper.GetAccount(ctx, addr); acc != nil {
		return acc.GetAccountNumber(), acc.GetSequence()
	}
	return 0, 0
}

type signer struct {
	priv     cryptotypes.PrivKey // key that signs
	pub      cryptotypes.PubKey  // key announced in signer_info
	num, seq uint64
}

// signTx builds and signs a transaction in SIGN_MODE_DIRECT (empty memo, no timeout).
func (r *Runner) signTx(msgs []sdk.Msg, fee sdk.Coins, granter, payer sdk.AccAddress, signers []signer) ([]byte, error) {
	cfg := r.App.TxConfig()
	txb := cfg.NewTxBuilder()
	if err := txb.SetMsgs(msgs...); err != nil {
		return nil, err
	}
	txb.SetFeeAmount(fee)
	txb.SetGasLimit(GasLimit)
	if granter != nil {
		txb.SetFeeGranter(granter)
	}
	if payer != nil {
		txb.SetFeePayer(payer)
	}
	return signWith(cfg, txb, signers)
}

func signWith(cfg client.TxConfig, txb client.TxBuilder, signers []signer) ([]byte, error) {
	mode := signing.SignMode_SIGN_MODE_DIRECT
	sigs := make([]signing.SignatureV2, len(signers))
	for i, s := range signers {
		sigs[i] = signing.SignatureV2{PubKey: s.pub, Data: &signing.SingleSignatureData{SignMode: mode}, Sequence: s.seq}
	}
	if err := txb.SetSignatures(sigs...); err != nil {
		return nil, err
	}
	for i, s := range signers {
		sd := authsigning.SignerData{ChainID: ChainID, AccountNumber: s.num, Sequence: s.seq, PubKey: s.pub,
			Address: sdk.AccAddress(s.pub.Address()).String()}
		bz, err := cfg.SignModeHandler().GetSignBytes(mode, sd, txb.GetTx())
		if err != nil {
			return nil, err
		}
		sig, err := s.priv.Sign(bz)
		if err != nil {
			return nil, err
		}
		sigs[i].Data.(*signing.SingleSignatureData).Signature = sig
	}
	if err := txb.SetSignatures(sigs...); err != nil {
		return nil, err
	}
	return cfg.TxEncoder()(txb.GetTx())
}

// encode turns a script transaction into signed bytes, reading account numbers and
// sequences from ctx. genesis: sign with account number 0 (see Check).
func (r *Runner) encode(ctx sdk.Context, t script.Tx, genesis bool) ([]byte, error) {
	msgs := make([]sdk.Msg, len(t.Msgs))
	for i, m := range t.Msgs {
		var err error
		if msgs[i], err = r.BuildMsg(m); err != nil {
			return nil, fmt.Errorf("message %d: %v", i, err)
		}
	}
	fee, err := ParseCoins(t.Fee)
	if err != nil {
		return nil, err
	}
	var granter sdk.AccAddress
	if t.Granter != "-" {
		i, err := r.Sym.AcctIndex(t.Granter)
		if err != nil {
			return nil, err
		}
		granter = r.Sym.Addrs[i]
	}
	var payer sdk.AccAddress
	if t.Payer != "-" && t.Payer != "" {
		i, err := r.Sym.AcctIndex(t.Payer)
		if err != nil {
			return nil, err
		}
		payer = r.Sym.Addrs[i]
	}
	var signers []signer
	for k, tok := range t.Signers {
		i, err := r.Sym.AcctIndex(tok)
		if err != nil {
			return nil, err
		}
		s := signer{priv: r.Sym.Privs[i], pub: r.Sym.Privs[i].PubKey()}
		s.num, s.seq = r.accountInfo(ctx, r.Sym.Addrs[i])
		if genesis {
			s.num = 0
		}
		if k == 0 && t.Sig == "badkey" {
			s.priv = r.badPriv
		}
		if k == 0 && t.Sig == "badseq" {
			s.seq += 7
		}
		signers = append(signers, s)
	}
	return r.signTx(msgs, fee, granter, payer, signers)
}

// Deliver executes a TX line in the open block.
func (r *Runner) Deliver(t script.Tx) (Outcome, error) {
	bz, err := r.encode(r.DeliverCtx(), t, false)
	if err != nil {
		return Outcome{}, err
	}
	r.blk.txs = append(r.blk.txs, BlockTx{N: t.N, Bz: bz})
	res := r.App.DeliverTx(abci.RequestDeliverTx{Tx: bz})
	o := outcomeOf(res)
	if o.Class == "ok" {
		if o.Fields, err = r.responseFields(res.Data); err != nil {
			return o, err
		}
	}
	return o, nil
}

func outcomeOf(res abci.ResponseDeliverTx) Outcome {
	return Outcome{Class: classify(res.Code, res.Codespace), Codespace: res.Codespace, Code: res.Code, Log: res.Log,
		GasWanted: res.GasWanted, GasUsed: res.GasUsed, Data: res.Data}
}

// Check executes a CHECK line (CheckTx, type New) on the check state. Before the first
// block the check state still carries the InitChain header (height 0) — and after a restart an
// empty header until the next Commit — where the SDK's signature verification substitutes
// account number 0; the harness signs accordingly so that sig=ok keeps meaning "valid signature".
func (r *Runner) Check(t script.Tx) (Outcome, error) {
	bz, err := r.encode(r.CheckCtx(), t, r.checkZero)
	if err != nil {
		return Outcome{}, err
	}
	if r.checkBytes == nil {
		r.checkBytes = map[int][]byte{}
	}
	r.checkBytes[t.N] = bz
	res := r.App.CheckTx(abci.RequestCheckTx{Tx: bz, Type: abci.CheckTxType_New})
	return Outcome{Class: classify(res.Code, res.Codespace), Codespace: res.Codespace, Code: res.Code, Log: res.Log}, nil
}

// Recheck re-validates the bytes of an earlier CHECK line the way CometBFT re-validates its mempool after a commit
// (CheckTx of type Recheck on the check state).
func (r *Runner) Recheck(ref int) (Outcome, error) {
	bz, ok := r.checkBytes[ref]
	if !ok {
		return Outcome{}, fmt.Errorf("RECHECK: no CHECK %d before", ref)
	}
	res := r.App.CheckTx(abci.RequestCheckTx{Tx: bz, Type: abci.CheckTxType_Recheck})
	return Outcome{Class: classify(res.Code, res.Codespace), Codespace: res.Codespace, Code: res.Code, Log: res.Log}, nil
}

// TraceLines renders the hard and the soft line of a TX (verb R/r) or CHECK (verb C/c).
func (o Outcome) TraceLines(hard, soft string, n int) []string {
	h := fmt.Sprintf("%s %d %s", hard, n, o.Class)
	if len(o.Fields) > 0 {
		h += " " + strings.Join(o.Fields, " ")
	}
	out := []string{h, fmt.Sprintf("%s %d %s:%d", soft, n, o.Codespace, o.Code)}
	if o.Class == "panic" {
		// the goroutine number in the recovered stack trace differs from run to run
		out = append(out, fmt.Sprintf("p %d %s", n, oneToken(goroutineRe.ReplaceAllString(o.Log, "goroutine N"))))
	}
	return out
}

// BrokenInvariants evaluates every invariant registered with the crisis keeper on the committed
// state and returns one soft line per broken (or panicking) invariant.
func (r *Runner) BrokenInvariants() []string {
	var out []string
	ctx := r.App.NewContext(true, r.header())
	for _, ir := range r.App.CrisisKeeper.Routes() {
		ir := ir
		var broken bool
		if p := guard(func() { _, broken = ir.Invar(ctx) }); p != nil {
			out = append(out, fmt.Sprintf("x inv %s panic", ir.FullRoute()))
			continue
		}
		if broken {
			out = append(out, fmt.Sprintf("x inv %s broken", ir.FullRoute()))
		}
	}
	return out
}
