package real

// Restart (CRASH), block replay for twin runs, and genesis export → import (EXPORTIMPORT),
// PROTOCOL.md §8 / §9.

import (
	"bytes"
	"encoding/json"
	"fmt"
	"github.com/cosmos/cosmos-sdk/types/module"
	"os"
	"path/filepath"
	"strings"

	dbm "github.com/cometbft/cometbft-db"
	abci "github.com/cometbft/cometbft/abci/types"
	tmtypes "github.com/cometbft/cometbft/types"

	"github.com/unification-com/mainchain/app"
)

// openDB opens a fresh, empty database of the runner's backend.
func (r *Runner) openDB() (dbm.DB, string, error) {
	switch r.backend {
	case "", "memdb":
		return dbm.NewMemDB(), "", nil
	case "goleveldb":
		r.dbSeq++
		dir := filepath.Join(r.Home, fmt.Sprintf("db-%d", r.dbSeq))
		db, err := dbm.NewGoLevelDB("application", dir)
		return db, dir, err
	}
	return nil, "", fmt.Errorf("unknown database backend %q (want memdb|goleveldb)", r.backend)
}

// Close releases the database.
func (r *Runner) Close() {
	if r.db != nil {
		r.db.Close()
	}
}

// Crash drops the application object without committing and constructs a new one on the same
// database (a goleveldb database is closed and opened again from its directory). ok reports
// whether the new application resumed at the height and hash of the last Commit.
func (r *Runner) Crash() (ok bool, err error) {
	r.App = nil
	if r.backend == "goleveldb" {
		if err := r.db.Close(); err != nil {
			return false, err
		}
		if r.db, err = dbm.NewGoLevelDB("application", r.dbDir); err != nil {
			return false, err
		}
	}
	if p := guard(func() { r.App = newAppOpts(r.db, r.Home, r.backend == "goleveldb") }); p != nil {
		return false, fmt.Errorf("restart: application does not load: %v", p)
	}
	r.gov, r.blk = nil, blockLog{}
	r.Time, r.Height, r.checkZero = r.commitTime, r.commitHeight, true
	return r.App.LastBlockHeight() == r.commitHeight && bytes.Equal(r.App.LastCommitID().Hash, r.commitHash), nil
}

// CommitInfo is the height and application hash after the last Commit.
func (r *Runner) CommitInfo() (int64, []byte) { return r.commitHeight, r.commitHash }

// OpenBlock returns the transactions delivered in the open block so far.
func (r *Runner) OpenBlock() (begun, ended bool, txs []BlockTx) {
	return r.blk.begun, r.blk.ended, r.blk.txs
}

// Redo restarts like Crash and then replays the interrupted block with identical bytes: BeginBlock
// at the same time, every DeliverTx executed so far (environment transactions included) and, if
// it had run, EndBlock. The outcomes of the replayed transactions are returned in order.
func (r *Runner) Redo() (ok bool, outs []Outcome, err error) {
	blk, gov := r.blk, r.gov
	if ok, err = r.Crash(); err != nil || !ok || !blk.begun {
		return ok, nil, err
	}
	if good, why := r.Begin(blk.time); !good {
		return false, nil, fmt.Errorf("replayed BeginBlock panicked: %s", why)
	}
	r.gov = gov
	for _, t := range blk.txs {
		r.blk.txs = append(r.blk.txs, t)
		outs = append(outs, outcomeOf(r.App.DeliverTx(abci.RequestDeliverTx{Tx: t.Bz})))
	}
	if blk.ended {
		good, _, err := r.End()
		if err != nil || !good {
			return false, outs, fmt.Errorf("replayed EndBlock failed: %v", err)
		}
	}
	return true, outs, nil
}

// exportSections are the genesis sections compared after a round trip.
var exportSections = []string{"enterprise", "wrkchain", "beacon", "stream", "bank", "auth", "authz", "feegrant"}

// ExportImport exports the genesis of the running application (not for zero height), starts a
// fresh application on an empty database from it (crisis invariants checked at InitChain) and
// commits. On any panic the old application stays in place and lines are "X panic" plus the soft
// reason. On success the runner continues on the new application.
func (r *Runner) ExportImport() (lines []string, ok bool, err error) {
	var (
		na         *app.App
		ndb        dbm.DB
		ndir       string
		first      map[string]json.RawMessage
		harnessErr error
	)
	p := guard(func() {
		// the SDK exports every module on a goroutine of its own, where a panic cannot be recovered and would end the
		// whole run: the four modules of this repository are exported once here, on this goroutine, first
		ectx := r.App.NewContext(true, r.header())
		for _, name := range []string{"enterprise", "wrkchain", "beacon", "stream"} {
			if m, ok := r.App.ModuleManager.Modules[name].(module.HasGenesis); ok {
				m.ExportGenesis(ectx, r.App.AppCodec())
			}
		}
		exp, err := r.App.ExportAppStateAndValidators(false, nil, nil)
		if err != nil {
			panic(fmt.Sprintf("export: %v", err))
		}
		if err := json.Unmarshal(exp.AppState, &first); err != nil {
			harnessErr = err
			return
		}
		vals := make([]abci.ValidatorUpdate, len(exp.Validators))
		for i, v := range exp.Validators {
			vals[i] = tmtypes.TM2PB.NewValidatorUpdate(v.PubKey, v.Power)
		}
		if ndb, ndir, harnessErr = r.openDB(); harnessErr != nil {
			return
		}
		na = newApp(ndb, r.Home)
		na.InitChain(abci.RequestInitChain{ChainId: ChainID, Time: r.commitTime, ConsensusParams: exp.ConsensusParams,
			Validators: vals, AppStateBytes: exp.AppState, InitialHeight: exp.Height})
		na.Commit()
	})
	if harnessErr != nil {
		return nil, false, harnessErr
	}
	if p != nil {
		if ndb != nil {
			ndb.Close()
			if ndir != "" {
				os.RemoveAll(ndir)
			}
		}
		return []string{"X panic", "x panic " + oneToken(fmt.Sprint(p))}, false, nil
	}
	// continue on the new chain; the old application and its database are dropped
	odb, odir := r.db, r.dbDir
	r.App, r.db, r.dbDir = na, ndb, ndir
	odb.Close()
	if odir != "" {
		os.RemoveAll(odir)
	}
	r.gov, r.blk = nil, blockLog{}
	r.Time, r.Height, r.checkZero = r.commitTime, na.LastBlockHeight(), false
	r.markCommitted()

	broken := r.BrokenInvariants()
	lines = append([]string{fmt.Sprintf("X ok inv=%d", len(broken))}, broken...)
	lines = append(lines, r.Digest()...)

	var second map[string]json.RawMessage
	var diff []string
	if p := guard(func() {
		exp, err := na.ExportAppStateAndValidators(false, nil, nil)
		if err != nil {
			panic(err)
		}
		harnessErr = json.Unmarshal(exp.AppState, &second)
	}); p != nil {
		return nil, false, fmt.Errorf("second export panicked: %v", p)
	}
	if harnessErr != nil {
		return nil, false, harnessErr
	}
	for _, m := range exportSections {
		if !bytes.Equal(compactJSON(first[m]), compactJSON(second[m])) {
			diff = append(diff, m)
		}
	}
	if len(diff) == 0 {
		return append(lines, "X2 same"), true, nil
	}
	return append(lines, "X2 diff "+joinComma(diff)), true, nil
}

func compactJSON(raw json.RawMessage) []byte {
	var b bytes.Buffer
	if err := json.Compact(&b, raw); err != nil {
		return raw
	}
	return b.Bytes()
}

func joinComma(xs []string) string { return strings.Join(xs, ",") }
