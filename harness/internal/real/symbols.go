package real

import (
	"fmt"
	"math/big"
	"regexp"
	"sort"
	"strconv"
	"strings"
	"time"

	"github.com/cosmos/cosmos-sdk/crypto/keys/secp256k1"
	sdk "github.com/cosmos/cosmos-sdk/types"
	"github.com/cosmos/cosmos-sdk/types/address"
	authtypes "github.com/cosmos/cosmos-sdk/x/auth/types"

	"github.com/unification-com/mainchain/app"
)

// Modules maps the module account tokens of PROTOCOL.md §1 to module names.
var Modules = map[string]string{
	"Ment": "enterprise", "Mstr": "stream", "Mfee": "fee_collector", "Mgov": "gov", "Mdist": "distribution",
	"Mbond": "bonded_tokens_pool", "Mnbond": "not_bonded_tokens_pool", "Mxfer": "transfer",
}

// NotAnAddress is the string behind the address token X.
const NotAnAddress = "notanaddress"

// Symbols translates between address tokens and real addresses.
type Symbols struct {
	Privs []*secp256k1.PrivKey
	Addrs []sdk.AccAddress
	strs  []string // canonical bech32 of Addrs
	Mods  map[string]sdk.AccAddress
}

// NewSymbols derives the n scenario accounts and the module accounts. app.SetConfig must have run.
func NewSymbols(n int) *Symbols {
	s := &Symbols{Mods: map[string]sdk.AccAddress{}}
	for i := 0; i < n; i++ {
		p := secp256k1.GenPrivKeyFromSecret([]byte(fmt.Sprintf("verif-acc-%d", i)))
		s.Privs = append(s.Privs, p)
		s.Addrs = append(s.Addrs, sdk.AccAddress(p.PubKey().Address()))
		s.strs = append(s.strs, s.Addrs[i].String())
	}
	for tok, name := range Modules {
		s.Mods[tok] = authtypes.NewModuleAddress(name)
	}
	// addresses that are not 20 bytes long (nobody holds a key for them: they are only ever named — as a stream receiver, a
	// transfer recipient, a whitelisted address): L0, L1 are 32-byte module-derived style addresses, L2 shares its first 20
	// bytes with L1, L3 is those 20 bytes as an address of its own, L4 the last 20 bytes of L1
	l0 := address.Module("verif-long", []byte{0})
	l1 := address.Module("verif-long", []byte{1})
	l2 := append(append([]byte{}, l1[:20]...), []byte{0xee, 0xee, 0xee, 0xee, 0xee, 0xee, 0xee, 0xee, 0xee, 0xee, 0xee, 0xee}...)
	s.Mods["L0"], s.Mods["L1"], s.Mods["L2"], s.Mods["L3"] = l0, l1, sdk.AccAddress(l2), sdk.AccAddress(append([]byte{}, l1[:20]...))
	s.Mods["L4"] = sdk.AccAddress(append([]byte{}, l1[12:]...)) // the last 20 bytes of L1 as an address of its own
	if n > 0 {                                                  // L5: the 20 bytes of the key-derived account A0 followed by 12 more — a long address sharing its first 20 bytes with an account that signs
		s.Mods["L5"] = sdk.AccAddress(append(append([]byte{}, s.Addrs[0]...), []byte{0xee, 0xee, 0xee, 0xee, 0xee, 0xee, 0xee, 0xee, 0xee, 0xee, 0xee, 0xee}...))
	}
	// L6, L7: 40-byte addresses (longer than a module-derived one) sharing their first 32 bytes — those of L1
	s.Mods["L6"] = sdk.AccAddress(append(append([]byte{}, l1...), []byte{0x11, 0x11, 0x11, 0x11, 0x11, 0x11, 0x11, 0x11}...))
	s.Mods["L7"] = sdk.AccAddress(append(append([]byte{}, l1...), []byte{0x22, 0x22, 0x22, 0x22, 0x22, 0x22, 0x22, 0x22}...))
	return s
}

// LongTokens lists the tokens of the addresses that are not key-derived (see NewSymbols).
var LongTokens = []string{"L0", "L1", "L2", "L3", "L4", "L5", "L6", "L7"}

// GenLongTokens: the ones the generator draws from (kept as it was when L6 and L7 were added, so that generated histories
// did not shift; L6 and L7 are exercised by scripts of the regress corpus)
var GenLongTokens = []string{"L0", "L1", "L2", "L3", "L4", "L5"}

// ModuleTokens lists the module account tokens in token order.
var ModuleTokens = []string{"Mbond", "Mdist", "Ment", "Mfee", "Mgov", "Mnbond", "Mstr", "Mxfer"}

// AddrTable returns the "G addr" table (§6) for n scenario accounts: A0…A<n-1>, then the module
// tokens in token order, each with the lower-case hex of its address bytes.
func AddrTable(n int) [][2]string {
	configOnce.Do(app.SetConfig) // before any bech32 string is built (the SDK caches them)
	s := NewSymbols(n)
	var out [][2]string
	for i, a := range s.Addrs {
		out = append(out, [2]string{fmt.Sprintf("A%d", i), fmt.Sprintf("%x", []byte(a))})
	}
	for _, tok := range append(append([]string{}, ModuleTokens...), LongTokens...) {
		out = append(out, [2]string{tok, fmt.Sprintf("%x", []byte(s.Mods[tok]))})
	}
	return out
}

// CheckAddrs verifies "G addr" lines against the real derivation.
func (s *Symbols) CheckAddrs(lines [][2]string) error {
	for _, l := range lines {
		var want sdk.AccAddress
		if m, ok := s.Mods[l[0]]; ok {
			want = m
		} else if i, err := s.AcctIndex(l[0]); err == nil {
			want = s.Addrs[i]
		} else {
			return fmt.Errorf("G addr: unknown token %q", l[0])
		}
		if l[1] != fmt.Sprintf("%x", []byte(want)) {
			return fmt.Errorf("G addr %s: script says %s, real derivation gives %x", l[0], l[1], []byte(want))
		}
	}
	return nil
}

// AcctIndex parses an "A<i>" token of a declared account.
func (s *Symbols) AcctIndex(tok string) (int, error) {
	if len(tok) < 2 || tok[0] != 'A' {
		return 0, fmt.Errorf("want account token A<i>, found %q", tok)
	}
	i, err := strconv.Atoi(tok[1:])
	if err != nil || i < 0 || i >= len(s.Addrs) || tok != fmt.Sprintf("A%d", i) {
		return 0, fmt.Errorf("unknown account %q", tok)
	}
	return i, nil
}

// Resolve turns an address token into the string placed in the message.
func (s *Symbols) Resolve(tok string) (string, error) {
	switch {
	case tok == "-":
		return "", nil
	case tok == "X":
		return NotAnAddress, nil
	case strings.HasPrefix(tok, "M"), strings.HasPrefix(tok, "L"):
		if a, ok := s.Mods[tok]; ok {
			return a.String(), nil
		}
	case strings.HasPrefix(tok, "A"):
		if i, err := s.AcctIndex(tok); err == nil {
			return s.strs[i], nil
		}
	case strings.HasPrefix(tok, "UM"): // a module account spelled in upper case (a legal bech32 spelling of the same address)
		if a, ok := s.Mods[tok[1:]]; ok {
			return strings.ToUpper(a.String()), nil
		}
	case strings.HasPrefix(tok, "U"):
		if i, err := s.AcctIndex("A" + tok[1:]); err == nil {
			return strings.ToUpper(s.strs[i]), nil
		}
	}
	return "", fmt.Errorf("unknown address token %q", tok)
}

// ResolveList resolves a comma separated token list into a comma separated string.
func (s *Symbols) ResolveList(toks []string) (string, error) {
	out := make([]string, len(toks))
	for i, t := range toks {
		var err error
		if out[i], err = s.Resolve(t); err != nil {
			return "", err
		}
	}
	return strings.Join(out, ","), nil
}

// TokBytes prints address bytes as A<i> / M… / H<hex> (lower-case hex).
func (s *Symbols) TokBytes(b []byte) string {
	for i, a := range s.Addrs {
		if a.Equals(sdk.AccAddress(b)) {
			return fmt.Sprintf("A%d", i)
		}
	}
	for tok, a := range s.Mods {
		if a.Equals(sdk.AccAddress(b)) {
			return tok
		}
	}
	return fmt.Sprintf("H%x", b)
}

// TokString prints a stored address string: canonical spelling A<i>, upper-case spelling
// U<i>, otherwise by decoded bytes, undecodable strings as S<string>, empty as "-".
func (s *Symbols) TokString(str string) string {
	if str == "" {
		return "-"
	}
	for i, c := range s.strs {
		if str == c {
			return fmt.Sprintf("A%d", i)
		}
		if str == strings.ToUpper(c) {
			return fmt.Sprintf("U%d", i)
		}
	}
	b, err := sdk.AccAddressFromBech32(str)
	if err != nil {
		return "S" + str
	}
	return s.TokBytes(b)
}

// tokKey orders tokens: A<i>/U<i> by i (A first), modules by token, H<hex>, S<string>.
func tokKey(t string) (class, num, sub int, str string) {
	if len(t) >= 2 && (t[0] == 'A' || t[0] == 'U') {
		if i, err := strconv.Atoi(t[1:]); err == nil {
			if t[0] == 'U' {
				sub = 1
			}
			return 0, i, sub, ""
		}
	}
	switch {
	case len(t) > 0 && t[0] == 'M':
		return 1, 0, 0, t
	case len(t) > 0 && t[0] == 'L':
		return 2, 0, 0, t
	case len(t) > 0 && t[0] == 'H':
		return 3, 0, 0, t[1:]
	}
	return 4, 0, 0, t
}

// TokLess is the digest order on address tokens.
func TokLess(a, b string) bool {
	ca, na, sa, ta := tokKey(a)
	cb, nb, sb, tb := tokKey(b)
	switch {
	case ca != cb:
		return ca < cb
	case na != nb:
		return na < nb
	case sa != sb:
		return sa < sb
	}
	return ta < tb
}

func sortToks(xs []string) {
	sort.SliceStable(xs, func(i, j int) bool { return TokLess(xs[i], xs[j]) })
}

// ---- coins, numbers, times

var coinRe = regexp.MustCompile(`^(-?[0-9]+)([a-zA-Z][a-zA-Z0-9/:._-]*)$`)

// ParseInt parses a decimal sdk.Int (possibly negative).
func ParseInt(s string) (sdk.Int, error) {
	v, ok := sdk.NewIntFromString(s)
	if !ok || v.BigInt().BitLen() > 256 {
		return sdk.Int{}, fmt.Errorf("bad integer %q", s)
	}
	return v, nil
}

// ParseCoins parses a coin list token verbatim (no sorting, no validation).
func ParseCoins(tok string) (sdk.Coins, error) {
	var out sdk.Coins
	if tok == "-" {
		return out, nil
	}
	for _, c := range strings.Split(tok, ",") {
		m := coinRe.FindStringSubmatch(c)
		if m == nil {
			return nil, fmt.Errorf("bad coin %q", c)
		}
		amt, err := ParseInt(m[1])
		if err != nil {
			return nil, err
		}
		out = append(out, sdk.Coin{Denom: m[2], Amount: amt})
	}
	return out, nil
}

// Coin builds a coin from separate amount and denom tokens (denom "-" is empty).
func Coin(amount, denom string) (sdk.Coin, error) {
	amt, err := ParseInt(amount)
	if err != nil {
		return sdk.Coin{}, err
	}
	if denom == "-" {
		denom = ""
	}
	return sdk.Coin{Denom: denom, Amount: amt}, nil
}

func fmtCoin(c sdk.Coin) string {
	if c.Amount.IsNil() {
		return "0" + c.Denom
	}
	return c.Amount.String() + c.Denom
}

// FmtCoins prints a coin list sorted by denom ("-" when empty).
func FmtCoins(cs sdk.Coins) string {
	if len(cs) == 0 {
		return "-"
	}
	cp := append(sdk.Coins(nil), cs...)
	sort.SliceStable(cp, func(i, j int) bool { return cp[i].Denom < cp[j].Denom })
	parts := make([]string, len(cp))
	for i, c := range cp {
		parts[i] = fmtCoin(c)
	}
	return strings.Join(parts, ",")
}

// FmtTime prints a time as total nanoseconds since the epoch without overflow.
func FmtTime(t time.Time) string {
	v := new(big.Int).Mul(big.NewInt(t.Unix()), big.NewInt(1_000_000_000))
	return v.Add(v, big.NewInt(int64(t.Nanosecond()))).String()
}

func u64(s string) (uint64, error) { return strconv.ParseUint(s, 10, 64) }

func fu(x uint64) string { return strconv.FormatUint(x, 10) }
