package real

import (
	"fmt"
	"strconv"

	codectypes "github.com/cosmos/cosmos-sdk/codec/types"
	sdk "github.com/cosmos/cosmos-sdk/types"
	"github.com/cosmos/cosmos-sdk/x/authz"
	banktypes "github.com/cosmos/cosmos-sdk/x/bank/types"
	"github.com/cosmos/cosmos-sdk/x/feegrant"
	"github.com/cosmos/gogoproto/proto"

	beacontypes "github.com/unification-com/mainchain/x/beacon/types"
	enttypes "github.com/unification-com/mainchain/x/enterprise/types"
	streamtypes "github.com/unification-com/mainchain/x/stream/types"
	wrktypes "github.com/unification-com/mainchain/x/wrkchain/types"

	"verif/harness/internal/script"
)

// prototypes of every message kind (used for the authz type URLs).
var prototypes = map[string]sdk.Msg{
	"ent.raise": &enttypes.MsgUndPurchaseOrder{}, "ent.decide": &enttypes.MsgProcessUndPurchaseOrder{},
	"ent.wl": &enttypes.MsgWhitelistAddress{}, "ent.params": &enttypes.MsgUpdateParams{},
	"wrk.reg": &wrktypes.MsgRegisterWrkChain{}, "wrk.rec": &wrktypes.MsgRecordWrkChainBlock{},
	"wrk.buy": &wrktypes.MsgPurchaseWrkChainStateStorage{}, "wrk.params": &wrktypes.MsgUpdateParams{},
	"bcn.reg": &beacontypes.MsgRegisterBeacon{}, "bcn.rec": &beacontypes.MsgRecordBeaconTimestamp{},
	"bcn.buy": &beacontypes.MsgPurchaseBeaconStateStorage{}, "bcn.params": &beacontypes.MsgUpdateParams{},
	"str.create": &streamtypes.MsgCreateStream{}, "str.claim": &streamtypes.MsgClaimStream{},
	"str.topup": &streamtypes.MsgTopUpDeposit{}, "str.rate": &streamtypes.MsgUpdateFlowRate{},
	"str.cancel": &streamtypes.MsgCancelStream{}, "str.params": &streamtypes.MsgUpdateParams{},
	"bank.send": &banktypes.MsgSend{}, "authz.grant": &authz.MsgGrant{}, "authz.revoke": &authz.MsgRevoke{},
	"authz.exec": &authz.MsgExec{}, "feegrant.grant": &feegrant.MsgGrantAllowance{},
}

// TypeURL of a message kind.
func TypeURL(kind string) (string, error) {
	p, ok := prototypes[kind]
	if !ok {
		return "", fmt.Errorf("unknown message kind %q", kind)
	}
	return sdk.MsgTypeURL(p), nil
}

// argReader converts argument tokens, remembering the first error.
type argReader struct {
	sym  *Symbols
	args []string
	err  error
}

func (a *argReader) fail(err error) {
	if a.err == nil && err != nil {
		a.err = err
	}
}
func (a *argReader) addr(i int) string { s, err := a.sym.Resolve(a.args[i]); a.fail(err); return s }
func (a *argReader) str(i int) string  { return script.Untok(a.args[i]) }
func (a *argReader) u64(i int) uint64  { v, err := u64(a.args[i]); a.fail(err); return v }
func (a *argReader) i64(i int) int64 {
	v, err := strconv.ParseInt(a.args[i], 10, 64)
	a.fail(err)
	return v
}
func (a *argReader) i32(i int) int32 {
	v, err := strconv.ParseInt(a.args[i], 10, 32)
	a.fail(err)
	return int32(v)
}
func (a *argReader) coin(amt, denom int) sdk.Coin {
	c, err := Coin(a.args[amt], a.args[denom])
	a.fail(err)
	return c
}
func (a *argReader) coins(i int) sdk.Coins { c, err := ParseCoins(a.args[i]); a.fail(err); return c }
func (a *argReader) addrList(i int) string {
	s, err := a.sym.ResolveList(script.SplitList(a.args[i]))
	a.fail(err)
	return s
}

// BuildMsg turns a symbolic message into the real sdk.Msg. No validation happens here:
// whatever the tokens say is what the application receives.
func (r *Runner) BuildMsg(m script.Msg) (sdk.Msg, error) {
	if n, ok := script.Arity[m.Kind]; !ok || (m.Kind != "authz.exec" && len(m.Args) != n) {
		return nil, fmt.Errorf("malformed message %q", m.Kind)
	}
	a := &argReader{sym: r.Sym, args: m.Args}
	var out sdk.Msg
	switch m.Kind {
	case "ent.raise":
		out = &enttypes.MsgUndPurchaseOrder{Purchaser: a.addr(0), Amount: a.coin(1, 2)}
	case "ent.decide":
		out = &enttypes.MsgProcessUndPurchaseOrder{PurchaseOrderId: a.u64(0), Decision: enttypes.PurchaseOrderStatus(a.i32(1)), Signer: a.addr(2)}
	case "ent.wl":
		out = &enttypes.MsgWhitelistAddress{Action: enttypes.WhitelistAction(a.i32(0)), Address: a.addr(1), Signer: a.addr(2)}
	case "ent.params":
		out = &enttypes.MsgUpdateParams{Authority: a.addr(0), Params: enttypes.Params{
			Denom: a.str(1), MinAccepts: a.u64(2), DecisionTimeLimit: a.u64(3), EntSigners: a.addrList(4)}}
	case "wrk.reg":
		out = &wrktypes.MsgRegisterWrkChain{Moniker: a.str(0), Name: a.str(1), GenesisHash: a.str(2), BaseType: a.str(3), Owner: a.addr(4)}
	case "wrk.rec":
		out = &wrktypes.MsgRecordWrkChainBlock{WrkchainId: a.u64(0), Height: a.u64(1), BlockHash: a.str(2), ParentHash: a.str(3),
			Hash1: a.str(4), Hash2: a.str(5), Hash3: a.str(6), Owner: a.addr(7)}
	case "wrk.buy":
		out = &wrktypes.MsgPurchaseWrkChainStateStorage{WrkchainId: a.u64(0), Number: a.u64(1), Owner: a.addr(2)}
	case "wrk.params":
		out = &wrktypes.MsgUpdateParams{Authority: a.addr(0), Params: wrktypes.Params{Denom: a.str(1), FeeRegister: a.u64(2),
			FeeRecord: a.u64(3), FeePurchaseStorage: a.u64(4), DefaultStorageLimit: a.u64(5), MaxStorageLimit: a.u64(6)}}
	case "bcn.reg":
		out = &beacontypes.MsgRegisterBeacon{Moniker: a.str(0), Name: a.str(1), Owner: a.addr(2)}
	case "bcn.rec":
		out = &beacontypes.MsgRecordBeaconTimestamp{BeaconId: a.u64(0), Hash: a.str(1), SubmitTime: a.u64(2), Owner: a.addr(3)}
	case "bcn.buy":
		out = &beacontypes.MsgPurchaseBeaconStateStorage{BeaconId: a.u64(0), Number: a.u64(1), Owner: a.addr(2)}
	case "bcn.params":
		out = &beacontypes.MsgUpdateParams{Authority: a.addr(0), Params: beacontypes.Params{Denom: a.str(1), FeeRegister: a.u64(2),
			FeeRecord: a.u64(3), FeePurchaseStorage: a.u64(4), DefaultStorageLimit: a.u64(5), MaxStorageLimit: a.u64(6)}}
	case "str.create":
		out = &streamtypes.MsgCreateStream{Receiver: a.addr(0), Sender: a.addr(1), Deposit: a.coin(2, 3), FlowRate: a.i64(4)}
	case "str.claim":
		out = &streamtypes.MsgClaimStream{Receiver: a.addr(0), Sender: a.addr(1)}
	case "str.topup":
		out = &streamtypes.MsgTopUpDeposit{Receiver: a.addr(0), Sender: a.addr(1), Deposit: a.coin(2, 3)}
	case "str.rate":
		out = &streamtypes.MsgUpdateFlowRate{Receiver: a.addr(0), Sender: a.addr(1), FlowRate: a.i64(2)}
	case "str.cancel":
		out = &streamtypes.MsgCancelStream{Receiver: a.addr(0), Sender: a.addr(1)}
	case "str.params":
		fee, err := ParseInt(a.args[1])
		a.fail(err)
		if err == nil {
			out = &streamtypes.MsgUpdateParams{Authority: a.addr(0), Params: streamtypes.Params{ValidatorFee: sdk.NewDecFromBigIntWithPrec(fee.BigInt(), 18)}}
		}
	case "bank.send":
		out = &banktypes.MsgSend{FromAddress: a.addr(0), ToAddress: a.addr(1), Amount: a.coins(2)}
	case "authz.grant":
		url, err := TypeURL(a.args[2])
		a.fail(err)
		auth, err := codectypes.NewAnyWithValue(authz.NewGenericAuthorization(url))
		a.fail(err)
		out = &authz.MsgGrant{Granter: a.addr(0), Grantee: a.addr(1), Grant: authz.Grant{Authorization: auth}}
	case "authz.revoke":
		url, err := TypeURL(a.args[2])
		a.fail(err)
		out = &authz.MsgRevoke{Granter: a.addr(0), Grantee: a.addr(1), MsgTypeUrl: url}
	case "authz.exec":
		ex := &authz.MsgExec{Grantee: a.addr(0)}
		for _, s := range m.Sub {
			inner, err := r.BuildMsg(s)
			if err != nil {
				return nil, err
			}
			any, err := codectypes.NewAnyWithValue(inner)
			a.fail(err)
			ex.Msgs = append(ex.Msgs, any)
		}
		out = ex
	case "feegrant.grant":
		allow, err := codectypes.NewAnyWithValue(&feegrant.BasicAllowance{})
		a.fail(err)
		out = &feegrant.MsgGrantAllowance{Granter: a.addr(0), Grantee: a.addr(1), Allowance: allow}
	}
	if a.err != nil {
		return nil, fmt.Errorf("%s: %v", m.Kind, a.err)
	}
	return out, nil
}

// responseFields decodes ResponseDeliverTx.Data and renders the fields of PROTOCOL.md §3.
func (r *Runner) responseFields(data []byte) ([]string, error) {
	var md sdk.TxMsgData
	if err := proto.Unmarshal(data, &md); err != nil {
		return nil, fmt.Errorf("cannot decode TxMsgData: %v", err)
	}
	var out []string
	add := func(k int, name, val string) { out = append(out, fmt.Sprintf("%d.%s=%s", k, name, val)) }
	for k, any := range md.MsgResponses {
		var resp proto.Message
		switch any.TypeUrl {
		case "/" + proto.MessageName(&enttypes.MsgUndPurchaseOrderResponse{}):
			resp = &enttypes.MsgUndPurchaseOrderResponse{}
		case "/" + proto.MessageName(&wrktypes.MsgRegisterWrkChainResponse{}):
			resp = &wrktypes.MsgRegisterWrkChainResponse{}
		case "/" + proto.MessageName(&beacontypes.MsgRegisterBeaconResponse{}):
			resp = &beacontypes.MsgRegisterBeaconResponse{}
		case "/" + proto.MessageName(&beacontypes.MsgRecordBeaconTimestampResponse{}):
			resp = &beacontypes.MsgRecordBeaconTimestampResponse{}
		case "/" + proto.MessageName(&wrktypes.MsgPurchaseWrkChainStateStorageResponse{}):
			resp = &wrktypes.MsgPurchaseWrkChainStateStorageResponse{}
		case "/" + proto.MessageName(&beacontypes.MsgPurchaseBeaconStateStorageResponse{}):
			resp = &beacontypes.MsgPurchaseBeaconStateStorageResponse{}
		case "/" + proto.MessageName(&streamtypes.MsgClaimStreamResponse{}):
			resp = &streamtypes.MsgClaimStreamResponse{}
		case "/" + proto.MessageName(&streamtypes.MsgTopUpDepositResponse{}):
			resp = &streamtypes.MsgTopUpDepositResponse{}
		default:
			continue
		}
		if err := proto.Unmarshal(any.Value, resp); err != nil {
			return nil, fmt.Errorf("cannot decode %s: %v", any.TypeUrl, err)
		}
		switch v := resp.(type) {
		case *enttypes.MsgUndPurchaseOrderResponse:
			add(k, "id", fu(v.PurchaseOrderId))
		case *wrktypes.MsgRegisterWrkChainResponse:
			add(k, "id", fu(v.WrkchainId))
		case *beacontypes.MsgRegisterBeaconResponse:
			add(k, "id", fu(v.BeaconId))
		case *beacontypes.MsgRecordBeaconTimestampResponse:
			add(k, "tsid", fu(v.TimestampId))
		case *wrktypes.MsgPurchaseWrkChainStateStorageResponse:
			add(k, "can", fu(v.NumCanPurchase))
		case *beacontypes.MsgPurchaseBeaconStateStorageResponse:
			add(k, "can", fu(v.NumCanPurchase))
		case *streamtypes.MsgClaimStreamResponse:
			add(k, "total", amt(v.TotalClaimed))
			add(k, "pay", amt(v.StreamPayment))
			add(k, "fee", amt(v.ValidatorFee))
			add(k, "rem", amt(v.RemainingDeposit))
		case *streamtypes.MsgTopUpDepositResponse:
			add(k, "dep", amt(v.CurrentDeposit))
			add(k, "zero", FmtTime(v.DepositZeroTime))
		}
	}
	return out, nil
}

func amt(c sdk.Coin) string {
	if c.Amount.IsNil() {
		return "0"
	}
	return c.Amount.String()
}
