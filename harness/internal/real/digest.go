package real

import (
	"fmt"
	"reflect"
	"sort"
	"strings"

	sdk "github.com/cosmos/cosmos-sdk/types"
	streamtypes "github.com/unification-com/mainchain/x/stream/types"

	"verif/harness/internal/script"
)

func ids(xs []uint64) string {
	if len(xs) == 0 {
		return "-"
	}
	xs = append([]uint64(nil), xs...)
	sort.Slice(xs, func(i, j int) bool { return xs[i] < xs[j] })
	parts := make([]string, len(xs))
	for i, x := range xs {
		parts[i] = fu(x)
	}
	return strings.Join(parts, ",")
}

// signerList prints the raw ent signers string with every address replaced by its token.
func (r *Runner) signerList(raw string) string {
	if raw == "" {
		return "-"
	}
	parts := strings.Split(raw, ",")
	for i, p := range parts {
		parts[i] = r.Sym.TokString(p)
	}
	return strings.Join(parts, ",")
}

// Digest renders the canonical state digest (PROTOCOL.md §4) of the committed state. It must
// be called right after InitChain+Commit or Commit, before any CheckTx touches the check state.
func (r *Runner) Digest() (out []string) {
	// reading the committed state back must not fail: a panic in a store iterator or key parser is a line of its own
	// (which the model never prints), not the end of the run
	if p := guard(func() { out = r.digest() }); p != nil {
		out = []string{"D panic reading-the-committed-state"}
	}
	return out
}

func (r *Runner) digest() []string {
	ctx := r.CheckCtx()
	a, sym, tok := r.App, r.Sym, script.Tok
	var out []string
	add := func(f string, args ...interface{}) { out = append(out, fmt.Sprintf(f, args...)) }

	// ---- enterprise
	ek := a.EnterpriseKeeper
	ep := ek.GetParams(ctx)
	add("D ent.params %s %d %d %s", tok(ep.Denom), ep.MinAccepts, ep.DecisionTimeLimit, r.signerList(ep.EntSigners))
	next, _ := ek.GetHighestPurchaseOrderID(ctx)
	add("D ent.next %d", next)
	pos := ek.GetAllPurchaseOrders(ctx)
	sort.SliceStable(pos, func(i, j int) bool { return pos[i].Id < pos[j].Id })
	for _, po := range pos {
		ds := make([]string, len(po.Decisions))
		for i, d := range po.Decisions {
			ds[i] = fmt.Sprintf("%s:%d:%d", sym.TokString(d.Signer), int32(d.Decision), d.DecisionTime)
		}
		add("D ent.po %d %s %s %d %d %d %s", po.Id, sym.TokString(po.Purchaser), fmtCoin(po.Amount), int32(po.Status),
			po.RaiseTime, po.CompletionTime, script.List(ds))
	}
	// a listed entity is the entity a point read returns (C18: listings do not alias one entity with another)
	for _, po := range pos {
		if p, ok := ek.GetPurchaseOrder(ctx, po.Id); !ok || !reflect.DeepEqual(p, po) {
			add("D ent.alias %d", po.Id)
		}
	}
	add("D ent.rq %s", ids(ek.GetAllRaisedPurchaseOrders(ctx)))
	add("D ent.aq %s", ids(ek.GetAllAcceptedPurchaseOrders(ctx)))
	var wl []string
	for _, s := range ek.GetAllWhitelistedAddresses(ctx) {
		wl = append(wl, sym.TokString(s))
	}
	sortToks(wl)
	add("D ent.wl %s", script.List(wl))
	var locked, spent [][2]string
	for _, l := range ek.GetAllLockedUnds(ctx) {
		locked = append(locked, [2]string{sym.TokString(l.Owner), fmtCoin(l.Amount)})
	}
	for _, s := range ek.GetAllSpentEFUNDs(ctx) {
		spent = append(spent, [2]string{sym.TokString(s.Owner), fmtCoin(s.Amount)})
	}
	for _, list := range [][][2]string{locked, spent} {
		list := list
		sort.SliceStable(list, func(i, j int) bool { return TokLess(list[i][0], list[j][0]) })
	}
	for _, l := range locked {
		add("D ent.locked %s %s", l[0], l[1])
	}
	for _, s := range spent {
		add("D ent.spent %s %s", s[0], s[1])
	}
	add("D ent.total %s %s", fmtCoin(ek.GetTotalLockedUnd(ctx)), fmtCoin(ek.GetTotalSpentEFUND(ctx)))

	// ---- wrkchain
	wk := a.WrkchainKeeper
	wp := wk.GetParams(ctx)
	add("D wrk.params %s %d %d %d %d %d", tok(wp.Denom), wp.FeeRegister, wp.FeeRecord, wp.FeePurchaseStorage, wp.DefaultStorageLimit, wp.MaxStorageLimit)
	wnext, _ := wk.GetHighestWrkChainID(ctx)
	add("D wrk.next %d", wnext)
	chains := wk.GetAllWrkChains(ctx)
	sort.SliceStable(chains, func(i, j int) bool { return chains[i].WrkchainId < chains[j].WrkchainId })
	for _, c := range chains {
		limit := "none"
		if l, ok := wk.GetWrkChainStorageLimit(ctx, c.WrkchainId); ok {
			limit = fu(l.InStateLimit)
		}
		add("D wrk.chain %d %s %s %s %s %s %d %d %d %d %s", c.WrkchainId, sym.TokString(c.Owner), tok(c.Moniker), tok(c.Name),
			tok(c.Genesis), tok(c.Type), c.RegTime, c.Lastblock, c.NumBlocks, c.LowestHeight, limit)
	}
	for _, c := range chains {
		if p, ok := wk.GetWrkChain(ctx, c.WrkchainId); !ok || !reflect.DeepEqual(p, c) {
			add("D wrk.alias %d", c.WrkchainId)
		}
	}
	for _, c := range chains {
		blocks := wk.GetAllWrkChainBlockHashes(ctx, c.WrkchainId)
		sort.SliceStable(blocks, func(i, j int) bool { return blocks[i].Height < blocks[j].Height })
		for _, b := range blocks {
			add("D wrk.block %d %d %s %s %s %s %s %d", c.WrkchainId, b.Height, tok(b.Blockhash), tok(b.Parenthash),
				tok(b.Hash1), tok(b.Hash2), tok(b.Hash3), b.SubTime)
		}
	}

	// ---- beacon
	bk := a.BeaconKeeper
	bp := bk.GetParams(ctx)
	add("D bcn.params %s %d %d %d %d %d", tok(bp.Denom), bp.FeeRegister, bp.FeeRecord, bp.FeePurchaseStorage, bp.DefaultStorageLimit, bp.MaxStorageLimit)
	bnext, _ := bk.GetHighestBeaconID(ctx)
	add("D bcn.next %d", bnext)
	beacons := bk.GetAllBeacons(ctx)
	sort.SliceStable(beacons, func(i, j int) bool { return beacons[i].BeaconId < beacons[j].BeaconId })
	for _, b := range beacons {
		limit := "none"
		if l, ok := bk.GetBeaconStorageLimit(ctx, b.BeaconId); ok {
			limit = fu(l.InStateLimit)
		}
		add("D bcn.beacon %d %s %s %s %d %d %d %d %s", b.BeaconId, sym.TokString(b.Owner), tok(b.Moniker), tok(b.Name),
			b.RegTime, b.LastTimestampId, b.FirstIdInState, b.NumInState, limit)
	}
	for _, b := range beacons {
		if p, ok := bk.GetBeacon(ctx, b.BeaconId); !ok || !reflect.DeepEqual(p, b) {
			add("D bcn.alias %d", b.BeaconId)
		}
	}
	for _, b := range beacons {
		tss := bk.GetAllBeaconTimestamps(ctx, b.BeaconId)
		sort.SliceStable(tss, func(i, j int) bool { return tss[i].TimestampId < tss[j].TimestampId })
		for _, t := range tss {
			add("D bcn.ts %d %d %s %d", b.BeaconId, t.TimestampId, tok(t.Hash), t.SubmitTime)
		}
	}

	// ---- stream
	add("D str.params %s", a.StreamKeeper.GetParams(ctx).ValidatorFee.BigInt().String())
	type srow struct {
		r, s, line string
		alias      bool
	}
	var streams []srow
	a.StreamKeeper.IterateAllStreams(ctx, func(recv, send sdk.AccAddress, s streamtypes.Stream) bool {
		c := 0
		if s.Cancellable {
			c = 1
		}
		row := srow{r: sym.TokBytes(recv), s: sym.TokBytes(send)}
		if p, ok := a.StreamKeeper.GetStream(ctx, recv, send); !ok || !p.Deposit.IsEqual(s.Deposit) || p.FlowRate != s.FlowRate ||
			!p.LastOutflowTime.Equal(s.LastOutflowTime) || !p.DepositZeroTime.Equal(s.DepositZeroTime) || p.Cancellable != s.Cancellable {
			row.alias = true
		}
		row.line = fmt.Sprintf("D str.stream %s %s %s %d %s %s %d", row.r, row.s, fmtCoin(s.Deposit), s.FlowRate,
			FmtTime(s.LastOutflowTime), FmtTime(s.DepositZeroTime), c)
		streams = append(streams, row)
		return false
	})
	sort.SliceStable(streams, func(i, j int) bool {
		if streams[i].r != streams[j].r {
			return TokLess(streams[i].r, streams[j].r)
		}
		return TokLess(streams[i].s, streams[j].s)
	})
	for _, s := range streams {
		out = append(out, s.line)
		if s.alias {
			add("D str.alias %s %s", s.r, s.s)
		}
	}

	// ---- bank / auth
	bank := a.BankKeeper
	bal := func(addr sdk.AccAddress) sdk.Coins { return bank.GetAllBalances(ctx, addr) }
	for i, addr := range sym.Addrs {
		add("D bank.bal A%d %s %s", i, FmtCoins(bal(addr)), FmtCoins(bank.SpendableCoins(ctx, addr)))
	}
	for _, m := range append([]string{"Ment", "Mstr"}, LongTokens...) {
		add("D bank.bal %s %s %s", m, FmtCoins(bal(sym.Mods[m])), FmtCoins(bank.SpendableCoins(ctx, sym.Mods[m])))
	}
	add("D bank.fees %s", FmtCoins(bal(sym.Mods["Mfee"]).Add(bal(sym.Mods["Mdist"])...)))
	env := bal(r.ValAddr)
	for _, m := range []string{"Mbond", "Mnbond", "Mgov"} {
		env = env.Add(bal(sym.Mods[m])...)
	}
	var supply sdk.Coins
	bank.IterateTotalSupply(ctx, func(c sdk.Coin) bool { supply = append(supply, c); return false })
	var net sdk.Coins
	for _, c := range supply {
		if rest := c.Amount.Sub(env.AmountOf(c.Denom)); !rest.IsZero() {
			net = append(net, sdk.Coin{Denom: c.Denom, Amount: rest})
		}
	}
	add("D bank.supply %s", FmtCoins(net))
	var exists []string
	for i, addr := range sym.Addrs {
		if a.AccountKeeper.HasAccount(ctx, addr) {
			exists = append(exists, fmt.Sprintf("A%d", i))
		}
	}
	add("D auth.exists %s", script.List(exists))
	return out
}
