package real

// Twin runs (PROTOCOL.md §9): replay a script on one application and write only the
// consensus-relevant lines H / T / Z, optionally restarting at pseudo-random points and replaying
// the interrupted block with identical transaction bytes.

import (
	"crypto/sha256"
	"fmt"
	"math/rand"
	"strconv"
	"strings"
)

// restartPct is the probability of a restart at each eligible point when a crash seed is given.
const restartPct = 12

// RestartPct overrides restartPct when positive (vharness twin -crashpct).
var RestartPct = 0

// Twin drives an Interp and collects the twin trace.
type Twin struct {
	IP  *Interp
	Out []string

	rng     *rand.Rand // nil: no additional restarts
	pending []string   // T lines of the open block (written at COMMIT, at a script CRASH or at the end)
	lastH   int64      // height of the last H line, -1 before the first
}

// NewTwin prepares a twin run on the given backend; crashSeed 0 disables the additional restarts.
func NewTwin(home, backend string, crashSeed int64) *Twin {
	t := &Twin{IP: &Interp{Home: home, Backend: backend}, lastH: -1}
	if crashSeed != 0 {
		t.rng = rand.New(rand.NewSource(crashSeed))
	}
	return t
}

func tLine(n int, o Outcome) string {
	return fmt.Sprintf("T %d %d %s %d %d %x", n, o.Code, tokOrDash(o.Codespace), o.GasWanted, o.GasUsed, sha256.Sum256(o.Data))
}

func tokOrDash(s string) string {
	if s == "" {
		return "-"
	}
	return s
}

func (t *Twin) hLine() {
	h, hash := t.IP.R.CommitInfo()
	if h != t.lastH {
		t.Out, t.lastH = append(t.Out, fmt.Sprintf("H %d %x", h, hash)), h
	}
}

func (t *Twin) flush() { t.Out, t.pending = append(t.Out, t.pending...), nil }

// restart happens with probability restartPct when a crash seed was given. Inside a block the
// interrupted block is replayed and the T lines of the block are taken from the replay.
func (t *Twin) restart() error {
	pct := restartPct
	if RestartPct > 0 {
		pct = RestartPct
	}
	if t.rng == nil || t.rng.Intn(100) >= pct || t.IP.Stopped() {
		return nil
	}
	r := t.IP.R
	_, _, txs := r.OpenBlock()
	txs = append([]BlockTx(nil), txs...)
	ok, outs, err := r.Redo()
	if err != nil {
		return err
	}
	t.Out = append(t.Out, fmt.Sprintf("Z %d %x", r.App.LastBlockHeight(), r.App.LastCommitID().Hash))
	if !ok {
		return fmt.Errorf("restart did not resume at the last committed height and hash")
	}
	if len(outs) != len(txs) {
		return fmt.Errorf("restart replayed %d of %d transactions", len(outs), len(txs))
	}
	t.pending = nil
	for i, tx := range txs {
		if tx.N >= 0 {
			t.pending = append(t.pending, tLine(tx.N, outs[i]))
		}
	}
	t.IP.checked = false
	return nil
}

// Exec runs one script line.
func (t *Twin) Exec(line string) error {
	toks := strings.Fields(line)
	if len(toks) == 0 || strings.HasPrefix(toks[0], "#") || t.IP.Stopped() {
		return nil
	}
	if _, err := t.IP.Exec(line); err != nil {
		return err
	}
	switch toks[0] {
	case "INIT":
		t.hLine()
	case "COMMIT":
		t.flush()
		t.hLine()
	case "TX":
		n, _ := strconv.Atoi(toks[1])
		t.pending = append(t.pending, tLine(n, t.IP.Last))
	case "CRASH":
		t.flush()
		r := t.IP.R
		t.Out = append(t.Out, fmt.Sprintf("Z %d %x", r.App.LastBlockHeight(), r.App.LastCommitID().Hash))
		return nil
	case "EXPORTIMPORT":
		if t.IP.LastX == "ok" {
			t.hLine()
		}
	case "BEGIN", "END":
	default: // G lines, CHECK, QUERY, DIGEST, GOVEXEC: no restart point
		return nil
	}
	return t.restart()
}

// Finish writes what is still pending (a script that ends inside a block).
func (t *Twin) Finish() []string {
	t.flush()
	if t.IP.R != nil {
		t.IP.R.Close()
	}
	return t.Out
}
