package real

import (
	"encoding/json"
	"fmt"
	"github.com/cosmos/cosmos-sdk/x/authz"
	"github.com/cosmos/cosmos-sdk/x/crisis"
	"math/big"
	"strings"
	"sync"
	"time"

	dbm "github.com/cometbft/cometbft-db"
	abci "github.com/cometbft/cometbft/abci/types"
	tmed25519 "github.com/cometbft/cometbft/crypto/ed25519"
	"github.com/cometbft/cometbft/libs/log"
	tmproto "github.com/cometbft/cometbft/proto/tendermint/types"
	tmtypes "github.com/cometbft/cometbft/types"
	"github.com/cosmos/cosmos-sdk/baseapp"
	"github.com/cosmos/cosmos-sdk/client/flags"
	codectypes "github.com/cosmos/cosmos-sdk/codec/types"
	cryptocodec "github.com/cosmos/cosmos-sdk/crypto/codec"
	"github.com/cosmos/cosmos-sdk/crypto/keys/secp256k1"
	"github.com/cosmos/cosmos-sdk/server"
	simtestutil "github.com/cosmos/cosmos-sdk/testutil/sims"
	sdk "github.com/cosmos/cosmos-sdk/types"
	authtypes "github.com/cosmos/cosmos-sdk/x/auth/types"
	vestingtypes "github.com/cosmos/cosmos-sdk/x/auth/vesting/types"
	banktypes "github.com/cosmos/cosmos-sdk/x/bank/types"
	govtypes "github.com/cosmos/cosmos-sdk/x/gov/types"
	govv1 "github.com/cosmos/cosmos-sdk/x/gov/types/v1"
	stakingtypes "github.com/cosmos/cosmos-sdk/x/staking/types"

	"github.com/unification-com/mainchain/app"
	beacontypes "github.com/unification-com/mainchain/x/beacon/types"
	enttypes "github.com/unification-com/mainchain/x/enterprise/types"
	streamtypes "github.com/unification-com/mainchain/x/stream/types"
	wrktypes "github.com/unification-com/mainchain/x/wrkchain/types"

	"verif/harness/internal/script"
)

const (
	// ChainID of every scenario.
	ChainID = "verif-1"
	// GasLimit of every transaction.
	GasLimit = 10_000_000
	// BondDenom is the staking and gov deposit denomination.
	BondDenom = "nund"
)

// configOnce guards the process-wide bech32 configuration. app.NewApp itself is safe to run
// concurrently (checked with the race detector: 16 workers constructing apps in parallel).
var configOnce sync.Once

func pow10(n int64) sdk.Int {
	return sdk.NewIntFromBigInt(new(big.Int).Exp(big.NewInt(10), big.NewInt(n), nil))
}

// genesisCoins parses a coin list of the genesis section into valid, sorted coins.
func genesisCoins(tok string) (cs sdk.Coins, err error) {
	defer func() {
		if r := recover(); r != nil {
			err = fmt.Errorf("invalid genesis coins %q: %v", tok, r)
		}
	}()
	raw, err := ParseCoins(tok)
	if err != nil {
		return nil, err
	}
	return sdk.NewCoins(raw...), nil
}

// ValBalance is the liquid nund balance of V in genesis. It is small enough for the uint64 fields
// of the EnterpriseSupply query to stay meaningful (PROTOCOL.md §7) and large enough for every
// gov deposit (1nund each, refunded in the same block).
var ValBalance = pow10(12)

// New builds a fresh application on a MemDB for the scenario genesis and runs InitChain + Commit.
// home is a scratch directory owned by the caller.
func New(g *script.Genesis, home string) (*Runner, error) { return NewOn(g, home, "memdb") }

// newApp constructs the application object on db. Crisis invariant checking at genesis stays
// on (no skip flag); the periodic invariant check is off.
func newApp(db dbm.DB, home string) *app.App { return newAppOpts(db, home, false) }

// newAppOpts: skipGenesisInvariants is the node-local flag --x-crisis-skip-assert-invariants. It is set on one of the twin
// instances only (C01): what a node is told on its command line must not show in any hash.
// InvCheckPeriod is the node-local flag --inv-check-period (0: the registered invariants are never asserted in EndBlock). Set by
// `vharness twin -invperiod N` on one instance only.
var InvCheckPeriod uint

func newAppOpts(db dbm.DB, home string, skipGenesisInvariants bool) *app.App {
	return app.NewApp(log.NewNopLogger(), db, nil, true,
		simtestutil.AppOptionsMap{flags.FlagHome: home, server.FlagInvCheckPeriod: InvCheckPeriod,
			crisis.FlagSkipGenesisInvariants: skipGenesisInvariants},
		baseapp.SetChainID(ChainID))
}

// NewOn is New with a database backend: "memdb" or "goleveldb" (directories below home).
func NewOn(g *script.Genesis, home, backend string) (r *Runner, err error) {
	configOnce.Do(app.SetConfig)
	defer func() {
		if p := recover(); p != nil {
			r, err = nil, fmt.Errorf("genesis rejected by the application: %v", p)
		}
	}()
	r = &Runner{G: g, Sym: NewSymbols(len(g.Accts)), Home: home, backend: backend}
	if err := r.Sym.CheckAddrs(g.Addrs); err != nil {
		return nil, err
	}
	r.valPriv = secp256k1.GenPrivKeyFromSecret([]byte("verif-val"))
	r.badPriv = secp256k1.GenPrivKeyFromSecret([]byte("verif-bad"))
	r.ValAddr = sdk.AccAddress(r.valPriv.PubKey().Address())
	consPub := tmed25519.GenPrivKeyFromSecret([]byte("verif-cons")).PubKey()
	validator := tmtypes.NewValidator(consPub, 1)
	r.consAddr = validator.Address

	if r.db, r.dbDir, err = r.openDB(); err != nil {
		return nil, err
	}
	a := newAppOpts(r.db, home, backend == "goleveldb")
	r.App = a
	cdc := a.AppCodec()
	gs := a.DefaultGenesis()

	// --- auth + bank: V first, then the declared accounts
	accs := []authtypes.GenesisAccount{authtypes.NewBaseAccount(r.ValAddr, nil, 0, 0)}
	bals := []banktypes.Balance{{Address: r.ValAddr.String(), Coins: sdk.NewCoins(sdk.NewCoin(BondDenom, ValBalance))}}
	for i, ac := range g.Accts {
		if ac.Kind == "none" {
			continue
		}
		base := authtypes.NewBaseAccount(r.Sym.Addrs[i], nil, uint64(len(accs)), 0)
		coins, err := genesisCoins(ac.Coins)
		if err != nil {
			return nil, err
		}
		if ac.Kind == "vest" {
			ov, err := genesisCoins(ac.Vesting)
			if err != nil {
				return nil, err
			}
			accs = append(accs, vestingtypes.NewDelayedVestingAccount(base, ov, ac.End))
		} else {
			accs = append(accs, base)
		}
		bals = append(bals, banktypes.Balance{Address: base.Address, Coins: coins})
	}
	for _, la := range g.Long {
		addr, ok := r.Sym.Mods[la[0]]
		if !ok {
			return nil, fmt.Errorf("G lacct: unknown token %s", la[0])
		}
		coins, err := genesisCoins(la[1])
		if err != nil {
			return nil, err
		}
		base := authtypes.NewBaseAccount(addr, nil, uint64(len(accs)), 0)
		accs = append(accs, base)
		bals = append(bals, banktypes.Balance{Address: base.Address, Coins: coins})
	}
	gs[authtypes.ModuleName] = cdc.MustMarshalJSON(authtypes.NewGenesisState(authtypes.DefaultParams(), accs))
	if len(g.Grants) > 0 {
		var ag authz.GenesisState
		for _, gr := range g.Grants {
			granter, err := r.Sym.Resolve(gr[0])
			if err != nil {
				return nil, err
			}
			grantee, err := r.Sym.Resolve(gr[1])
			if err != nil {
				return nil, err
			}
			url, err := TypeURL(gr[2])
			if err != nil {
				return nil, err
			}
			any, err := codectypes.NewAnyWithValue(authz.NewGenericAuthorization(url))
			if err != nil {
				return nil, err
			}
			ag.Authorization = append(ag.Authorization, authz.GrantAuthorization{Granter: granter, Grantee: grantee, Authorization: any})
		}
		gs[authz.ModuleName] = cdc.MustMarshalJSON(&ag)
	}

	// --- staking: one bonded validator operated and self-delegated by V
	bond := sdk.DefaultPowerReduction
	pk, err := cryptocodec.FromTmPubKeyInterface(consPub)
	if err != nil {
		return nil, err
	}
	pkAny, err := codectypes.NewAnyWithValue(pk)
	if err != nil {
		return nil, err
	}
	val := stakingtypes.Validator{
		OperatorAddress: sdk.ValAddress(r.ValAddr).String(), ConsensusPubkey: pkAny, Status: stakingtypes.Bonded,
		Tokens: bond, DelegatorShares: sdk.NewDecFromInt(bond), UnbondingTime: time.Unix(0, 0).UTC(),
		Commission:        stakingtypes.NewCommission(sdk.ZeroDec(), sdk.ZeroDec(), sdk.ZeroDec()),
		MinSelfDelegation: sdk.ZeroInt(),
	}
	sp := stakingtypes.DefaultParams()
	sp.BondDenom = BondDenom
	gs[stakingtypes.ModuleName] = cdc.MustMarshalJSON(stakingtypes.NewGenesisState(sp, []stakingtypes.Validator{val},
		[]stakingtypes.Delegation{stakingtypes.NewDelegation(r.ValAddr, sdk.ValAddress(r.ValAddr), sdk.NewDecFromInt(bond))}))
	bals = append(bals, banktypes.Balance{
		Address: authtypes.NewModuleAddress(stakingtypes.BondedPoolName).String(),
		Coins:   sdk.NewCoins(sdk.NewCoin(BondDenom, bond)),
	})
	gs[banktypes.ModuleName] = cdc.MustMarshalJSON(banktypes.NewGenesisState(banktypes.DefaultGenesisState().Params,
		bals, sdk.Coins{}, []banktypes.Metadata{}, []banktypes.SendEnabled{}))

	// --- gov: 1nund deposit, zero voting period (see gov.go for the GOVEXEC scheme)
	var gv govv1.GenesisState
	cdc.MustUnmarshalJSON(gs[govtypes.ModuleName], &gv)
	vp, dp := GovVotingPeriod, 1_000_000*time.Hour
	gv.Params.VotingPeriod, gv.Params.MaxDepositPeriod = &vp, &dp
	gv.Params.MinDeposit = sdk.NewCoins(sdk.NewInt64Coin(BondDenom, 1))
	gs[govtypes.ModuleName] = cdc.MustMarshalJSON(&gv)

	// --- the four modules under test
	eg := enttypes.DefaultGenesisState()
	signers, err := r.Sym.ResolveList(g.Ent.Signers)
	if err != nil {
		return nil, err
	}
	eg.Params = enttypes.Params{EntSigners: signers, Denom: g.Ent.Denom, MinAccepts: g.Ent.Min, DecisionTimeLimit: g.Ent.Limit}
	eg.StartingPurchaseOrderId = g.Ent.Sid
	eg.TotalLocked = sdk.Coin{Denom: g.Ent.Denom, Amount: sdk.ZeroInt()}
	eg.TotalSpent = eg.TotalLocked
	eg.Whitelist = nil
	for _, t := range g.Ent.WL {
		a, err := r.Sym.Resolve(t) // scenario accounts and long addresses
		if err != nil || !(strings.HasPrefix(t, "A") || strings.HasPrefix(t, "L")) {
			return nil, fmt.Errorf("G ent wl: %v (%s)", err, t)
		}
		eg.Whitelist = append(eg.Whitelist, a)
	}
	gs[enttypes.ModuleName] = cdc.MustMarshalJSON(eg)

	wg := wrktypes.DefaultGenesisState()
	wg.Params = wrktypes.NewParams(g.Wrk.Reg, g.Wrk.Rec, g.Wrk.Buy, g.Wrk.Denom, g.Wrk.Def, g.Wrk.Max)
	wg.StartingWrkchainId = g.Wrk.Sid
	gs[wrktypes.ModuleName] = cdc.MustMarshalJSON(wg)

	bg := beacontypes.DefaultGenesisState()
	bg.Params = beacontypes.NewParams(g.Bcn.Reg, g.Bcn.Rec, g.Bcn.Buy, g.Bcn.Denom, g.Bcn.Def, g.Bcn.Max)
	bg.StartingBeaconId = g.Bcn.Sid
	gs[beacontypes.ModuleName] = cdc.MustMarshalJSON(bg)

	fee, err := ParseInt(g.StrFee)
	if err != nil {
		return nil, fmt.Errorf("G str fee: %v", err)
	}
	sg := streamtypes.DefaultGenesis()
	sg.Params.ValidatorFee = sdk.NewDecFromBigIntWithPrec(fee.BigInt(), 18)
	gs[streamtypes.ModuleName] = cdc.MustMarshalJSON(sg)

	// --- InitChain + Commit. Block gas is unlimited so that gas never decides an outcome.
	state, err := json.Marshal(gs)
	if err != nil {
		return nil, err
	}
	cp := *simtestutil.DefaultConsensusParams
	cp.Block = &tmproto.BlockParams{MaxBytes: 22020096, MaxGas: -1}
	r.Time = time.Unix(g.Time, 0).UTC()
	a.InitChain(abci.RequestInitChain{ChainId: ChainID, Time: r.Time, ConsensusParams: &cp, AppStateBytes: state})
	a.Commit()
	r.checkZero = true
	r.markCommitted()
	return r, nil
}

// NewBareApp constructs the application on an empty MemDB without InitChain: the stores are mounted and empty. The pure
// engine uses it to call keeper functions on states it writes itself (owner gate on arbitrary stored owner strings).
func NewBareApp(home string) *app.App { return newApp(dbm.NewMemDB(), home) }
