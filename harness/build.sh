#!/bin/sh
# Builds bin/vharness. Offline; never runs a go command inside the repository under test.
set -eu
cd "$(dirname "$0")"
export GOFLAGS=-mod=mod GOPROXY=off GOSUMDB=off GOTOOLCHAIN=local
./mkmod.sh
mkdir -p bin
go build -o bin/vharness ./cmd/vharness
go build -o bin/vpure ./cmd/vpure
