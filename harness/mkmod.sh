#!/bin/sh
# Regenerates go.mod / go.sum (generated, git-ignored) from the repository under test.
# The harness is a separate module that imports the real app through a replace directive;
# nothing under $REPO is ever written.
set -eu
cd "$(dirname "$0")"
REPO="${VERIF_REPO:-/repo}"
awk -v repo="$REPO" '
  /^module /            { print "module verif/harness"; next }
  /^require \(/ && !r   { print; print "\tgithub.com/unification-com/mainchain v0.0.0"; r = 1; next }
  /^replace \(/ && !p   { print; print "\tgithub.com/unification-com/mainchain => " repo; p = 1; next }
  { print }
  END { if (!r || !p) { print "mkmod.sh: require/replace block not found" > "/dev/stderr"; exit 1 } }
' "$REPO/go.mod" > go.mod
cp "$REPO/go.sum" go.sum
