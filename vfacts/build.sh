#!/bin/sh
# Builds bin/vfacts (offline; needs golang.org/x/tools v0.29.0 in the module cache).
set -eu
cd "$(dirname "$0")"
export GOFLAGS=-mod=mod GOPROXY=off GOSUMDB=off GOTOOLCHAIN=local
mkdir -p bin
go build -o bin/vfacts .
