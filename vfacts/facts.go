package main

import (
	"crypto/sha256"
	"encoding/hex"
	"fmt"
	"go/ast"
	"go/constant"
	"go/token"
	"go/types"
	"os"
	"path"
	"sort"
	"strings"
)

// Value model shared by the Lean and JSON renderers:
//
//	string, uint64, bool, List (homogeneous list), Tuple (product).
type (
	List  []any
	Tuple []any
)

type Fact struct {
	Name     string
	LeanType string
	Val      any
}

const (
	tStrList  = "List String"
	tPairList = "List (String × String)"
)

func strList(ss []string) List {
	l := List{}
	for _, s := range ss {
		l = append(l, s)
	}
	return l
}

func (e *extractor) extractAll() []Fact {
	var facts []Fact
	add := func(name, ty string, v any) { facts = append(facts, Fact{name, ty, v}) }

	add("anteOrder", tStrList, strList(e.anteOrder()))
	add("beginBlockSteps", tStrList, strList(e.beginBlockSteps()))

	app := e.byRel["app/app.go"]
	if app == nil {
		e.problem("app/app.go: file not loaded")
	}
	for _, o := range []struct{ fact, method string }{
		{"beginBlockerModules", "SetOrderBeginBlockers"},
		{"endBlockerModules", "SetOrderEndBlockers"},
		{"initGenesisOrder", "SetOrderInitGenesis"},
		{"exportGenesisOrder", "SetOrderExportGenesis"},
	} {
		add(o.fact, tStrList, strList(e.moduleOrder(app, o.method)))
	}

	add("maccPerms", "List (String × List String)", e.maccPerms(app))
	exempt, fromMacc := e.blocked(app)
	add("blockedExempt", tStrList, strList(exempt))
	add("blockedFromMaccPerms", "Bool", fromMacc)

	quals, names := e.moduleManager(app)
	add("moduleManagerModules", tStrList, strList(quals))
	add("moduleManagerNames", tStrList, strList(names))

	mint, burn := e.mintBurn()
	add("mintCallSites", tPairList, mint)
	add("burnCallSites", tPairList, burn)

	add("signerField", tPairList, e.signerField())
	add("storePrefixes", "List (String × String × Nat)", e.storePrefixes())

	wall, rnd, gos, maps, convs := e.determinismScan()
	add("mapRangeExits", "List (String × String × String)", e.mapRangeExits())
	add("wallClockSites", tPairList, wall)
	add("randSites", tPairList, rnd)
	add("goStmtSites", tPairList, gos)
	add("mapRangeSites", tPairList, maps)
	add("intConversionSites", "List (String × String × String × String)", convs)

	add("limits", "List (String × Nat)", e.limits())
	add("beaconSubmitTimeZeroRejected", "Bool", e.beaconSubmitTimeZero())
	add("apiRouteOrder", tStrList, strList(e.apiRouteOrder(app)))
	add("errorCodes", "List (String × String × Nat)", e.errorCodes())
	add("repoFilesDigest", "String", e.digest())

	// problems last so that it sees everything recorded above
	sort.Strings(e.problems)
	var ps []string
	for i, p := range e.problems {
		if i == 0 || p != e.problems[i-1] {
			ps = append(ps, p)
		}
	}
	e.problems = ps
	add("problems", tStrList, strList(ps))
	return facts
}

// ---------------------------------------------------------------------------
// constants

func constString(fi *fileInfo, x ast.Expr) (string, bool) {
	tv, ok := fi.pkg.TypesInfo.Types[x]
	if !ok || tv.Value == nil || tv.Value.Kind() != constant.String {
		return "", false
	}
	return constant.StringVal(tv.Value), true
}

func constNat(fi *fileInfo, x ast.Expr) (uint64, bool) {
	tv, ok := fi.pkg.TypesInfo.Types[x]
	if !ok || tv.Value == nil {
		return 0, false
	}
	return valNat(tv.Value)
}

func valNat(v constant.Value) (uint64, bool) {
	if v == nil || v.Kind() != constant.Int {
		return 0, false
	}
	return constant.Uint64Val(v) // exact==false for negatives / overflow
}

func exprStr(x ast.Expr) string { return types.ExprString(x) }

// ---------------------------------------------------------------------------
// 1. anteOrder

func (e *extractor) anteOrder() []string {
	const where = "ante/ante.go"
	fi := e.byRel[where]
	if fi == nil {
		e.problem("anteOrder: %s not loaded", where)
		return nil
	}
	var lits []*ast.CompositeLit
	ast.Inspect(fi.file, func(n ast.Node) bool {
		as, ok := n.(*ast.AssignStmt)
		if !ok || len(as.Lhs) != 1 || len(as.Rhs) != 1 {
			return true
		}
		if id, ok := as.Lhs[0].(*ast.Ident); ok && id.Name == "anteDecorators" {
			if cl, ok := as.Rhs[0].(*ast.CompositeLit); ok {
				lits = append(lits, cl)
			} else {
				e.problem("anteOrder: anteDecorators assigned from non-literal %s", exprStr(as.Rhs[0]))
				lits = append(lits, nil)
			}
		}
		return true
	})
	if len(lits) != 1 || lits[0] == nil {
		e.problem("anteOrder: expected exactly one `anteDecorators := []sdk.AnteDecorator{...}`, found %d", len(lits))
		return nil
	}
	if t := fi.pkg.TypesInfo.TypeOf(lits[0]); t == nil || !strings.HasSuffix(t.String(), "types.AnteDecorator") {
		e.problem("anteOrder: literal has type %v, expected []sdk.AnteDecorator", t)
		return nil
	}
	var out []string
	for _, el := range lits[0].Elts {
		name := ""
		if call, ok := el.(*ast.CallExpr); ok {
			switch f := call.Fun.(type) {
			case *ast.SelectorExpr:
				name = f.Sel.Name
			case *ast.Ident:
				name = f.Name
			}
		}
		if strings.HasPrefix(name, "New") && strings.HasSuffix(name, "Decorator") && len(name) > len("NewDecorator") {
			out = append(out, strings.TrimSuffix(strings.TrimPrefix(name, "New"), "Decorator"))
		} else {
			e.problem("anteOrder: element %q is not a pkg.NewXxxDecorator(...) call", exprStr(el))
			out = append(out, "?")
		}
	}
	return out
}

// ---------------------------------------------------------------------------
// 2. beginBlockSteps

func (e *extractor) beginBlockSteps() []string {
	const where = "x/enterprise/abci.go"
	fi := e.byRel[where]
	if fi == nil {
		e.problem("beginBlockSteps: %s not loaded", where)
		return nil
	}
	fd := fi.findFunc("", "BeginBlocker")
	if fd == nil {
		e.problem("beginBlockSteps: func BeginBlocker not found in %s", where)
		return nil
	}
	var out []string
	ast.Inspect(fd.Body, func(n ast.Node) bool {
		switch x := n.(type) {
		case *ast.DeferStmt:
			return false
		case *ast.CallExpr:
			sel, ok := x.Fun.(*ast.SelectorExpr)
			if !ok {
				return true
			}
			s := fi.pkg.TypesInfo.Selections[sel]
			if s == nil || s.Kind() != types.MethodVal {
				return true
			}
			rt := s.Recv()
			if p, ok := rt.(*types.Pointer); ok {
				rt = p.Elem()
			}
			if nt, ok := rt.(*types.Named); ok && nt.Obj().Name() == "Keeper" {
				out = append(out, sel.Sel.Name)
			}
		}
		return true
	})
	if len(out) == 0 {
		e.problem("beginBlockSteps: no keeper method calls found in BeginBlocker")
	}
	return out
}

// ---------------------------------------------------------------------------
// 3. module orders

const sdkModulePath = "github.com/cosmos/cosmos-sdk/types/module"

// enclosingFunc returns the FuncDecl of fi containing pos.
func (fi *fileInfo) enclosingFunc(pos token.Pos) *ast.FuncDecl {
	for _, d := range fi.file.Decls {
		if fd, ok := d.(*ast.FuncDecl); ok && fd.Body != nil && fd.Pos() <= pos && pos < fd.End() {
			return fd
		}
	}
	return nil
}

// resolveLocal resolves a local variable to the single expression it is
// initialised with inside fd. Any second assignment (incl. element writes
// and append re-assignment) makes it fail.
func resolveLocal(fi *fileInfo, fd *ast.FuncDecl, id *ast.Ident) (ast.Expr, string) {
	info := fi.pkg.TypesInfo
	obj := info.Uses[id]
	if obj == nil {
		return nil, "identifier does not resolve"
	}
	if _, ok := obj.(*types.Var); !ok {
		return nil, "not a variable"
	}
	if obj.Parent() == obj.Pkg().Scope() {
		return nil, "package-level variable"
	}
	isObj := func(x ast.Expr) bool {
		for {
			switch y := x.(type) {
			case *ast.ParenExpr:
				x = y.X
				continue
			case *ast.IndexExpr:
				x = y.X
				continue
			case *ast.StarExpr:
				x = y.X
				continue
			}
			break
		}
		i, ok := x.(*ast.Ident)
		return ok && (info.Defs[i] == obj || info.Uses[i] == obj)
	}
	var rhs ast.Expr
	writes := 0
	ast.Inspect(fd.Body, func(n ast.Node) bool {
		switch x := n.(type) {
		case *ast.AssignStmt:
			for i, l := range x.Lhs {
				if isObj(l) {
					writes++
					if _, plain := l.(*ast.Ident); plain && len(x.Lhs) == len(x.Rhs) {
						rhs = x.Rhs[i]
					} else {
						rhs = nil
						writes++ // force failure
					}
				}
			}
		case *ast.ValueSpec:
			for i, nm := range x.Names {
				if info.Defs[nm] == obj {
					writes++
					if len(x.Values) == len(x.Names) {
						rhs = x.Values[i]
					}
				}
			}
		case *ast.IncDecStmt:
			if isObj(x.X) {
				writes += 2
			}
		case *ast.UnaryExpr:
			if x.Op == token.AND && isObj(x.X) {
				writes += 2 // address taken: could be mutated elsewhere
			}
		}
		return true
	})
	if writes != 1 || rhs == nil {
		return nil, fmt.Sprintf("variable has %d writes in %s (need exactly one initialiser)", writes, funcDeclName(fd))
	}
	return rhs, ""
}

func (e *extractor) moduleOrder(fi *fileInfo, method string) []string {
	if fi == nil {
		return nil
	}
	info := fi.pkg.TypesInfo
	var calls []*ast.CallExpr
	ast.Inspect(fi.file, func(n ast.Node) bool {
		call, ok := n.(*ast.CallExpr)
		if !ok {
			return true
		}
		if sel, ok := call.Fun.(*ast.SelectorExpr); ok && sel.Sel.Name == method {
			if fn := calleeFunc(info, call); fn != nil && pkgPathOf(fn) == sdkModulePath {
				calls = append(calls, call)
			}
		}
		return true
	})
	if len(calls) != 1 {
		e.problem("%s: expected exactly one call in app/app.go, found %d", method, len(calls))
		return nil
	}
	call := calls[0]
	args := call.Args
	if call.Ellipsis.IsValid() {
		if len(args) != 1 {
			e.problem("%s: variadic call with %d args", method, len(args))
			return nil
		}
		src := ast.Unparen(args[0])
		if id, ok := src.(*ast.Ident); ok {
			fd := fi.enclosingFunc(call.Pos())
			if fd == nil {
				e.problem("%s: call not inside a function", method)
				return nil
			}
			rhs, why := resolveLocal(fi, fd, id)
			if rhs == nil {
				e.problem("%s: cannot resolve %s...: %s", method, id.Name, why)
				return nil
			}
			src = ast.Unparen(rhs)
		}
		cl, ok := src.(*ast.CompositeLit)
		if !ok {
			e.problem("%s: variadic argument is not a composite literal: %s", method, exprStr(src))
			return nil
		}
		args = cl.Elts
	}
	var out []string
	for _, a := range args {
		if kv, ok := a.(*ast.KeyValueExpr); ok {
			e.problem("%s: keyed slice element %s", method, exprStr(kv))
			return nil
		}
		if s, ok := constString(fi, a); ok {
			out = append(out, s)
		} else {
			e.problem("%s: argument %s is not a string constant", method, exprStr(a))
			out = append(out, "?")
		}
	}
	// NB: duplicates are reported as-is (they are a property of the source,
	// not an extraction failure); the Lean side can state Nodup.
	return out
}

// ---------------------------------------------------------------------------
// 4. maccPerms / blocked addresses

func pkgLevelVar(fi *fileInfo, name string) (*ast.Ident, ast.Expr) {
	for _, d := range fi.file.Decls {
		gd, ok := d.(*ast.GenDecl)
		if !ok || gd.Tok != token.VAR {
			continue
		}
		for _, sp := range gd.Specs {
			vs := sp.(*ast.ValueSpec)
			for i, nm := range vs.Names {
				if nm.Name == name {
					if len(vs.Values) == len(vs.Names) {
						return nm, vs.Values[i]
					}
					return nm, nil
				}
			}
		}
	}
	return nil, nil
}

func (e *extractor) maccPerms(fi *fileInfo) List {
	out := List{}
	if fi == nil {
		return out
	}
	_, val := pkgLevelVar(fi, "maccPerms")
	cl, ok := val.(*ast.CompositeLit)
	if !ok {
		e.problem("maccPerms: package-level map literal not found in app/app.go")
		return out
	}
	if t := fi.pkg.TypesInfo.TypeOf(cl); t == nil || t.String() != "map[string][]string" {
		e.problem("maccPerms: literal has type %v, expected map[string][]string", t)
		return out
	}
	type ent struct {
		k     string
		perms []string
	}
	var ents []ent
	for _, el := range cl.Elts {
		kv, ok := el.(*ast.KeyValueExpr)
		if !ok {
			e.problem("maccPerms: non key/value element %s", exprStr(el))
			return List{}
		}
		k, ok := constString(fi, kv.Key)
		if !ok {
			e.problem("maccPerms: key %s is not a string constant", exprStr(kv.Key))
			return List{}
		}
		var perms []string
		if tv := fi.pkg.TypesInfo.Types[kv.Value]; tv.IsNil() {
			// nil: no permissions
		} else if vcl, ok := kv.Value.(*ast.CompositeLit); ok {
			for _, p := range vcl.Elts {
				s, ok := constString(fi, p)
				if !ok {
					e.problem("maccPerms[%s]: permission %s is not a string constant", k, exprStr(p))
					s = "?"
				}
				perms = append(perms, s)
			}
		} else {
			e.problem("maccPerms[%s]: value %s is neither nil nor a literal", k, exprStr(kv.Value))
			return List{}
		}
		ents = append(ents, ent{k, perms})
	}
	sort.SliceStable(ents, func(i, j int) bool { return ents[i].k < ents[j].k })
	for i, en := range ents {
		if i > 0 && ents[i-1].k == en.k {
			e.problem("maccPerms: duplicate key %q", en.k)
		}
		out = append(out, Tuple{en.k, strList(en.perms)})
	}
	return out
}

// rangesOverMaccPerms reports whether fd contains `for ... := range maccPerms`.
func rangesOverVar(fi *fileInfo, fd *ast.FuncDecl, obj types.Object) bool {
	found := false
	ast.Inspect(fd.Body, func(n ast.Node) bool {
		if rs, ok := n.(*ast.RangeStmt); ok {
			if id, ok := ast.Unparen(rs.X).(*ast.Ident); ok && obj != nil && fi.pkg.TypesInfo.Uses[id] == obj {
				found = true
			}
		}
		return true
	})
	return found
}

func (e *extractor) blocked(fi *fileInfo) (exempt []string, fromMacc bool) {
	if fi == nil {
		return nil, false
	}
	info := fi.pkg.TypesInfo
	fd := fi.findFunc("", "BlockedAddresses")
	if fd == nil {
		fd = fi.findFunc("App", "BlockedAddresses")
	}
	if fd == nil {
		e.problem("blockedExempt: func BlockedAddresses not found in app/app.go")
		return nil, false
	}
	maccID, _ := pkgLevelVar(fi, "maccPerms")
	var maccObj types.Object
	if maccID != nil {
		maccObj = info.Defs[maccID]
	}

	// (a) which set is built
	nRange := 0
	ast.Inspect(fd.Body, func(n ast.Node) bool {
		rs, ok := n.(*ast.RangeStmt)
		if !ok {
			return true
		}
		nRange++
		switch x := ast.Unparen(rs.X).(type) {
		case *ast.Ident:
			if maccObj != nil && info.Uses[x] == maccObj {
				fromMacc = true
			}
		case *ast.CallExpr:
			fn := calleeFunc(info, x)
			if fn != nil && fn.Name() == "GetMaccPerms" && fn.Pkg() == fi.pkg.Types && len(x.Args) == 0 {
				g := fi.findFunc("", "GetMaccPerms")
				if g != nil && rangesOverVar(fi, g, maccObj) {
					fromMacc = true
				} else {
					e.problem("blockedFromMaccPerms: GetMaccPerms() does not range over maccPerms")
				}
			}
		}
		return true
	})
	if !fromMacc {
		e.problem("blockedFromMaccPerms: BlockedAddresses does not range over GetMaccPerms()/maccPerms (%d range stmts)", nRange)
	}

	// (b) deletes
	ast.Inspect(fd.Body, func(n ast.Node) bool {
		call, ok := n.(*ast.CallExpr)
		if !ok {
			return true
		}
		id, ok := call.Fun.(*ast.Ident)
		if !ok || id.Name != "delete" {
			return true
		}
		if _, ok := info.Uses[id].(*types.Builtin); !ok || len(call.Args) != 2 {
			return true
		}
		var names []string
		ast.Inspect(call.Args[1], func(m ast.Node) bool {
			c, ok := m.(*ast.CallExpr)
			if !ok {
				return true
			}
			if fn := calleeFunc(info, c); fn != nil && fn.Name() == "NewModuleAddress" && len(c.Args) == 1 {
				if s, ok := constString(fi, c.Args[0]); ok {
					names = append(names, s)
				}
			}
			return true
		})
		if len(names) == 1 {
			exempt = append(exempt, names[0])
		} else {
			e.problem("blockedExempt: cannot resolve module name in delete(…, %s)", exprStr(call.Args[1]))
			exempt = append(exempt, "?")
		}
		return true
	})
	return exempt, fromMacc
}

// ---------------------------------------------------------------------------
// 5. module manager

// moduleNameOf statically evaluates t.Name() when the method body is a
// single `return <string constant>`.
func (e *extractor) moduleNameOf(t types.Type) (string, bool) { return e.moduleNameOfDepth(t, 0) }

func (e *extractor) moduleNameOfDepth(t types.Type, depth int) (string, bool) {
	if t == nil {
		return "", false
	}
	obj, _, _ := types.LookupFieldOrMethod(t, true, nil, "Name")
	fn, ok := obj.(*types.Func)
	if !ok || fn.Pkg() == nil {
		return "", false
	}
	fn = fn.Origin()
	pp := e.byPath[fn.Pkg().Path()]
	if pp == nil || pp.TypesInfo == nil {
		return "", false
	}
	for _, f := range pp.Syntax {
		for _, d := range f.Decls {
			fd, ok := d.(*ast.FuncDecl)
			if !ok || fd.Name.Name != "Name" || fd.Body == nil || pp.TypesInfo.Defs[fd.Name] != fn {
				continue
			}
			if len(fd.Body.List) != 1 {
				return "", false
			}
			ret, ok := fd.Body.List[0].(*ast.ReturnStmt)
			if !ok || len(ret.Results) != 1 {
				return "", false
			}
			tv := pp.TypesInfo.Types[ret.Results[0]]
			if tv.Value != nil && tv.Value.Kind() == constant.String {
				return constant.StringVal(tv.Value), true
			}
			// `return am.AppModuleBasic.Name()`: follow the delegation
			if c, ok := ret.Results[0].(*ast.CallExpr); ok && len(c.Args) == 0 && depth < 4 {
				if sel, ok := c.Fun.(*ast.SelectorExpr); ok && sel.Sel.Name == "Name" {
					return e.moduleNameOfDepth(pp.TypesInfo.TypeOf(sel.X), depth+1)
				}
			}
			return "", false
		}
	}
	return "", false
}

func (e *extractor) moduleManager(fi *fileInfo) (quals, names []string) {
	if fi == nil {
		return nil, nil
	}
	info := fi.pkg.TypesInfo
	var calls []*ast.CallExpr
	ast.Inspect(fi.file, func(n ast.Node) bool {
		if call, ok := n.(*ast.CallExpr); ok {
			if fn := calleeFunc(info, call); fn != nil && fn.Name() == "NewManager" && pkgPathOf(fn) == sdkModulePath {
				calls = append(calls, call)
			}
		}
		return true
	})
	if len(calls) != 1 {
		e.problem("moduleManagerModules: expected exactly one module.NewManager(...) in app/app.go, found %d", len(calls))
		return nil, nil
	}
	call := calls[0]
	if call.Ellipsis.IsValid() {
		e.problem("moduleManagerModules: module.NewManager called with a spread slice")
		return nil, nil
	}
	fd := fi.enclosingFunc(call.Pos())
	for _, a := range call.Args {
		x := ast.Unparen(a)
		if id, ok := x.(*ast.Ident); ok && fd != nil {
			if rhs, why := resolveLocal(fi, fd, id); rhs != nil {
				x = ast.Unparen(rhs)
			} else {
				e.problem("moduleManagerModules: cannot resolve argument %s: %s", id.Name, why)
			}
		}
		q := "?"
		if c, ok := x.(*ast.CallExpr); ok {
			if sel, ok := c.Fun.(*ast.SelectorExpr); ok {
				if pid, ok := sel.X.(*ast.Ident); ok {
					if _, isPkg := info.Uses[pid].(*types.PkgName); isPkg {
						q = pid.Name
					}
				}
			}
		}
		if q == "?" {
			e.problem("moduleManagerModules: argument %s is not a pkg.NewXxx(...) constructor call", exprStr(a))
		}
		quals = append(quals, q)

		// Extra (not a tie by itself): "?" = Name() is not a statically
		// evaluable `return <const>`; deliberately no problem line.
		nm, ok := e.moduleNameOf(info.TypeOf(a))
		if !ok {
			nm = "?"
		}
		names = append(names, nm)
	}
	return quals, names
}

// ---------------------------------------------------------------------------
// 6. mint / burn call sites

func sortedTuples(ts []Tuple) List {
	sort.SliceStable(ts, func(i, j int) bool {
		for k := range ts[i] {
			a, b := fmt.Sprint(ts[i][k]), fmt.Sprint(ts[j][k])
			if an, ok := ts[i][k].(uint64); ok {
				bn := ts[j][k].(uint64)
				if an != bn {
					return an < bn
				}
				continue
			}
			if a != b {
				return a < b
			}
		}
		return false
	})
	l := List{}
	for _, t := range ts {
		l = append(l, t)
	}
	return l
}

func dedupTuples(ts []Tuple) []Tuple {
	seen := map[string]bool{}
	var out []Tuple
	for _, t := range ts {
		k := fmt.Sprintf("%q", []any(t))
		if !seen[k] {
			seen[k] = true
			out = append(out, t)
		}
	}
	return out
}

func (e *extractor) mintBurn() (mint, burn List) {
	var ms, bs []Tuple
	for _, fi := range e.files {
		if !mintBurnScope(fi.rel) {
			continue
		}
		walkFuncs(fi, func(encl string, n ast.Node) bool {
			if call, ok := n.(*ast.CallExpr); ok {
				if sel, ok := call.Fun.(*ast.SelectorExpr); ok {
					switch sel.Sel.Name {
					case "MintCoins":
						ms = append(ms, Tuple{fi.rel, encl})
					case "BurnCoins":
						bs = append(bs, Tuple{fi.rel, encl})
					}
				}
			}
			return true
		})
	}
	return sortedTuples(ms), sortedTuples(bs)
}

// ---------------------------------------------------------------------------
// 7. signerField

const sdkTypesPath = "github.com/cosmos/cosmos-sdk/types"

func (e *extractor) signerField() List {
	var ts []Tuple
	for _, fi := range e.files {
		mod, rest, ok := xModule(fi.rel)
		if !ok || path.Dir(rest) != "types" || strings.HasSuffix(fi.rel, "_test.go") {
			continue
		}
		info := fi.pkg.TypesInfo
		for _, d := range fi.file.Decls {
			fd, ok := d.(*ast.FuncDecl)
			if !ok || fd.Recv == nil || fd.Name.Name != "GetSigners" || fd.Body == nil {
				continue
			}
			tn := mod + "." + recvTypeName(fd)
			recv := recvIdentName(fd)
			fields := map[string]bool{}
			other := 0
			ast.Inspect(fd.Body, func(n ast.Node) bool {
				call, ok := n.(*ast.CallExpr)
				if !ok {
					return true
				}
				fn := calleeFunc(info, call)
				if fn == nil || fn.Name() != "AccAddressFromBech32" || pkgPathOf(fn) != sdkTypesPath || len(call.Args) != 1 {
					return true
				}
				if sel, ok := ast.Unparen(call.Args[0]).(*ast.SelectorExpr); ok {
					if id, ok := sel.X.(*ast.Ident); ok && recv != "" && id.Name == recv {
						if s := info.Selections[sel]; s != nil && s.Kind() == types.FieldVal {
							fields[sel.Sel.Name] = true
							return true
						}
					}
				}
				other++
				return true
			})
			field := "?"
			if len(fields) == 1 && other == 0 {
				for f := range fields {
					field = f
				}
			} else {
				e.problem("signerField: %s.GetSigners (%s): %d receiver fields and %d other expressions passed to sdk.AccAddressFromBech32",
					tn, fi.rel, len(fields), other)
			}
			ts = append(ts, Tuple{tn, field})
		}
	}
	return sortedTuples(ts)
}

// ---------------------------------------------------------------------------
// 8. storePrefixes

var customModules = []string{"beacon", "enterprise", "stream", "wrkchain"}

func isByteSlice(t types.Type) bool {
	if t == nil {
		return false
	}
	s, ok := t.Underlying().(*types.Slice)
	if !ok {
		return false
	}
	b, ok := s.Elem().Underlying().(*types.Basic)
	return ok && b.Kind() == types.Uint8
}

func (e *extractor) storePrefixes() List {
	var ts []Tuple
	for _, mod := range customModules {
		rel := "x/" + mod + "/types/keys.go"
		fi := e.byRel[rel]
		if fi == nil {
			e.problem("storePrefixes: %s not loaded", rel)
			continue
		}
		n := 0
		for _, d := range fi.file.Decls {
			gd, ok := d.(*ast.GenDecl)
			if !ok || gd.Tok != token.VAR {
				continue
			}
			for _, sp := range gd.Specs {
				vs := sp.(*ast.ValueSpec)
				if len(vs.Values) != len(vs.Names) {
					continue
				}
				for i, nm := range vs.Names {
					cl, ok := vs.Values[i].(*ast.CompositeLit)
					if !ok || !isByteSlice(fi.pkg.TypesInfo.TypeOf(cl)) || len(cl.Elts) != 1 {
						continue
					}
					if _, keyed := cl.Elts[0].(*ast.KeyValueExpr); keyed {
						continue
					}
					b, ok := constNat(fi, cl.Elts[0])
					if !ok || b > 255 {
						e.problem("storePrefixes: %s.%s: element %s is not a byte constant", mod, nm.Name, exprStr(cl.Elts[0]))
						continue
					}
					ts = append(ts, Tuple{mod, nm.Name, b})
					n++
				}
			}
		}
		if n == 0 {
			e.problem("storePrefixes: no single-byte prefix vars found in %s", rel)
		}
	}
	// sort by module, then byte, then name
	sort.SliceStable(ts, func(i, j int) bool {
		a, b := ts[i], ts[j]
		if a[0] != b[0] {
			return a[0].(string) < b[0].(string)
		}
		if a[2] != b[2] {
			return a[2].(uint64) < b[2].(uint64)
		}
		return a[1].(string) < b[1].(string)
	})
	l := List{}
	for _, t := range ts {
		l = append(l, t)
	}
	return l
}

// ---------------------------------------------------------------------------
// 9 + 10. determinism scan

func isRandPath(p string) bool {
	return p == "math/rand" || p == "crypto/rand" || p == "math/rand/v2"
}

func isSDKMathPkg(p string) bool {
	return p == "cosmossdk.io/math" || p == sdkTypesPath || strings.HasPrefix(p, sdkTypesPath+"/")
}

func intBasic(t types.Type) (*types.Basic, bool) {
	if t == nil {
		return nil, false
	}
	b, ok := t.Underlying().(*types.Basic)
	if !ok || b.Info()&types.IsInteger == 0 {
		return nil, false
	}
	return b, true
}

func (e *extractor) determinismScan() (wall, rnd, gos, maps, convs List) {
	var ws, rs, gs, ms, cs []Tuple
	nfiles := 0
	for _, fi := range e.files {
		if !consensusPath(fi.rel) {
			continue
		}
		nfiles++
		info := fi.pkg.TypesInfo
		qual := qualifierFor(fi.pkg.Types)
		walkFuncs(fi, func(encl string, n ast.Node) bool {
			site := Tuple{fi.rel, encl}
			switch x := n.(type) {
			case *ast.Ident:
				obj := info.Uses[x]
				if obj == nil {
					return true
				}
				if pn, ok := obj.(*types.PkgName); ok {
					if isRandPath(pn.Imported().Path()) {
						rs = append(rs, site)
					}
					return true
				}
				pp := pkgPathOf(obj)
				if isRandPath(pp) {
					rs = append(rs, site)
				}
				if fn, ok := obj.(*types.Func); ok && pp == "time" {
					if sig, _ := fn.Type().(*types.Signature); sig != nil && sig.Recv() == nil {
						switch fn.Name() {
						case "Now", "Since", "Until":
							ws = append(ws, site)
						}
					}
				}
			case *ast.GoStmt:
				gs = append(gs, site)
			case *ast.RangeStmt:
				if t := info.TypeOf(x.X); t != nil {
					if _, ok := t.Underlying().(*types.Map); ok {
						ms = append(ms, site)
					}
				}
			case *ast.CallExpr:
				// conversions T(x)
				if tv, ok := info.Types[x.Fun]; ok && tv.IsType() && len(x.Args) == 1 {
					to := tv.Type
					from := info.TypeOf(x.Args[0])
					_, okTo := intBasic(to)
					fb, okFrom := intBasic(from)
					if okTo && okFrom && fb.Info()&types.IsUntyped == 0 && !types.Identical(from, to) {
						cs = append(cs, Tuple{fi.rel, encl, types.TypeString(from, qual), types.TypeString(to, qual)})
					}
					return true
				}
				// narrowing accessors on SDK math types
				if sel, ok := x.Fun.(*ast.SelectorExpr); ok {
					switch sel.Sel.Name {
					case "Int64", "Uint64", "TruncateInt64":
						if s := info.Selections[sel]; s != nil && s.Kind() == types.MethodVal && isSDKMathPkg(pkgPathOf(s.Obj())) {
							cs = append(cs, Tuple{fi.rel, encl, "method", sel.Sel.Name})
						}
					}
				}
			}
			return true
		})
	}
	if nfiles == 0 {
		e.problem("determinismScan: no consensus-path files loaded")
	}
	return sortedTuples(dedupTuples(ws)), sortedTuples(dedupTuples(rs)), sortedTuples(dedupTuples(gs)),
		sortedTuples(dedupTuples(ms)), sortedTuples(cs) // conversions keep multiplicity
}

// mapRangeExits lists, for every range-over-map loop of the consensus path, the ways its body leaves the
// loop early: each return statement is described by the package-level Err* variables it mentions (sorted,
// "+"-joined; "-" when none), break/goto/panic by their keyword. A loop over a map whose early exits are all
// the same error is order independent in its result code; two different exits make the result depend on the
// iteration order.
func (e *extractor) mapRangeExits() List {
	var out []Tuple
	for _, fi := range e.files {
		if !consensusPath(fi.rel) {
			continue
		}
		info := fi.pkg.TypesInfo
		walkFuncs(fi, func(encl string, n ast.Node) bool {
			rs, ok := n.(*ast.RangeStmt)
			if !ok {
				return true
			}
			t := info.TypeOf(rs.X)
			if t == nil {
				return true
			}
			if _, ok := t.Underlying().(*types.Map); !ok {
				return true
			}
			ast.Inspect(rs.Body, func(m ast.Node) bool {
				switch y := m.(type) {
				case *ast.FuncLit:
					return false
				case *ast.ReturnStmt:
					names := map[string]bool{}
					for _, r := range y.Results {
						ast.Inspect(r, func(k ast.Node) bool {
							if id, ok := k.(*ast.Ident); ok && strings.HasPrefix(id.Name, "Err") {
								if v, ok := info.Uses[id].(*types.Var); ok && v.Parent() == v.Pkg().Scope() {
									names[id.Name] = true
								}
							}
							return true
						})
					}
					var ns []string
					for k := range names {
						ns = append(ns, k)
					}
					sort.Strings(ns)
					d := strings.Join(ns, "+")
					if d == "" {
						d = "-"
					}
					out = append(out, Tuple{fi.rel, encl, "return " + d})
				case *ast.BranchStmt:
					if y.Tok == token.BREAK || y.Tok == token.GOTO {
						out = append(out, Tuple{fi.rel, encl, y.Tok.String()})
					}
				case *ast.CallExpr:
					if id, ok := y.Fun.(*ast.Ident); ok && id.Name == "panic" {
						out = append(out, Tuple{fi.rel, encl, "panic"})
					}
				}
				return true
			})
			return true
		})
	}
	return sortedTuples(dedupTuples(out))
}

// ---------------------------------------------------------------------------
// 11. limits

func flipOp(op token.Token) token.Token {
	switch op {
	case token.LSS:
		return token.GTR
	case token.GTR:
		return token.LSS
	case token.LEQ:
		return token.GEQ
	case token.GEQ:
		return token.LEQ
	}
	return op
}

func isCmp(op token.Token) bool {
	switch op {
	case token.LSS, token.GTR, token.LEQ, token.GEQ, token.EQL, token.NEQ:
		return true
	}
	return false
}

// lenOfMsgField matches len(<v>.<Field>) where <v> is a (pointer to a) named
// struct type whose name starts with "Msg".
func lenOfMsgField(fi *fileInfo, x ast.Expr) (string, bool) {
	info := fi.pkg.TypesInfo
	call, ok := ast.Unparen(x).(*ast.CallExpr)
	if !ok || len(call.Args) != 1 {
		return "", false
	}
	id, ok := call.Fun.(*ast.Ident)
	if !ok || id.Name != "len" {
		return "", false
	}
	if _, ok := info.Uses[id].(*types.Builtin); !ok {
		return "", false
	}
	sel, ok := ast.Unparen(call.Args[0]).(*ast.SelectorExpr)
	if !ok {
		return "", false
	}
	if _, ok := sel.X.(*ast.Ident); !ok {
		return "", false
	}
	s := info.Selections[sel]
	if s == nil || s.Kind() != types.FieldVal {
		return "", false
	}
	t := info.TypeOf(sel.X)
	if p, ok := t.(*types.Pointer); ok {
		t = p.Elem()
	}
	nt, ok := t.(*types.Named)
	if !ok || !strings.HasPrefix(nt.Obj().Name(), "Msg") {
		return "", false
	}
	return sel.Sel.Name, true
}

func (e *extractor) limits() List {
	vals := map[string]map[uint64]bool{}
	put := func(k string, v uint64) {
		if vals[k] == nil {
			vals[k] = map[uint64]bool{}
		}
		vals[k][v] = true
	}

	// (a) len(msg.Field) <op> N   and   duration <op> N
	var scan []string
	for _, m := range []string{"beacon", "wrkchain"} {
		scan = append(scan, "x/"+m+"/keeper/msg_server.go")
	}
	scan = append(scan, "x/stream/keeper/msg_server.go") // duration only
	for _, fi := range e.files {
		if mod, rest, ok := xModule(fi.rel); ok && rest == "types/msgs.go" {
			_ = mod
			scan = append(scan, fi.rel)
		}
	}
	sort.Strings(scan)
	for _, rel := range scan {
		fi := e.byRel[rel]
		if fi == nil {
			e.problem("limits: %s not loaded", rel)
			continue
		}
		mod, _, _ := xModule(rel)
		base := strings.TrimSuffix(path.Base(rel), ".go")
		wantLen := !(mod == "stream" && base == "msg_server")
		wantDur := mod == "stream"
		nLen, nDur := 0, 0
		ast.Inspect(fi.file, func(n ast.Node) bool {
			be, ok := n.(*ast.BinaryExpr)
			if !ok || !isCmp(be.Op) {
				return true
			}
			for _, side := range []struct {
				l, r ast.Expr
				op   token.Token
			}{{be.X, be.Y, be.Op}, {be.Y, be.X, flipOp(be.Op)}} {
				v, isConst := constNat(fi, side.r)
				if wantLen {
					if f, ok := lenOfMsgField(fi, side.l); ok {
						if !isConst {
							e.problem("limits: %s: len(msg.%s) compared with non-constant %s", rel, f, exprStr(side.r))
							continue
						}
						put(fmt.Sprintf("%s.%s.%s.%s", mod, base, f, side.op), v)
						nLen++
					}
				}
				if wantDur {
					if id, ok := ast.Unparen(side.l).(*ast.Ident); ok && id.Name == "duration" {
						if _, isInt := intBasic(fi.pkg.TypesInfo.TypeOf(id)); isInt {
							if !isConst {
								e.problem("limits: %s: duration compared with non-constant %s", rel, exprStr(side.r))
								continue
							}
							put(fmt.Sprintf("%s.%s.duration.%s", mod, base, side.op), v)
							nDur++
						}
					}
				}
			}
			return true
		})
		if wantDur && nDur == 0 {
			e.problem("limits: %s: no `duration <op> N` comparison found", rel)
		}
		if wantLen && nLen == 0 && (mod == "beacon" || mod == "wrkchain") {
			e.problem("limits: %s: no `len(msg.Field) <op> N` comparison found", rel)
		}
	}

	// (b) named constants
	consts := []struct{ mod, name string }{
		{"wrkchain", "MaxBlockSubmissionsKeepInState"},
		{"beacon", "MaxHashSubmissionsToExport"},
	}
	for _, m := range []string{"beacon", "wrkchain"} {
		for _, c := range []string{"DefaultStorageLimit", "DefaultMaxStorageLimit", "RegFee", "RecordFee", "PurchaseStorageFee"} {
			consts = append(consts, struct{ mod, name string }{m, c})
		}
	}
	for _, c := range consts {
		var pkgTypes *types.Package
		for _, p := range e.roots {
			if strings.HasSuffix(p.PkgPath, "/x/"+c.mod+"/types") {
				pkgTypes = p.Types
			}
		}
		if pkgTypes == nil {
			e.problem("limits: package x/%s/types not loaded", c.mod)
			continue
		}
		co, ok := pkgTypes.Scope().Lookup(c.name).(*types.Const)
		if !ok {
			e.problem("limits: constant %s.%s not found", c.mod, c.name)
			continue
		}
		v, ok := valNat(co.Val())
		if !ok {
			e.problem("limits: constant %s.%s = %s is not a natural number", c.mod, c.name, co.Val())
			continue
		}
		put(c.mod+"."+c.name, v)
	}

	keys := make([]string, 0, len(vals))
	for k := range vals {
		keys = append(keys, k)
	}
	sort.Strings(keys)
	out := List{}
	for _, k := range keys {
		var vs []uint64
		for v := range vals[k] {
			vs = append(vs, v)
		}
		sort.Slice(vs, func(i, j int) bool { return vs[i] < vs[j] })
		if len(vs) > 1 {
			e.problem("limits: key %s has conflicting values %v", k, vs)
		}
		for _, v := range vs {
			out = append(out, Tuple{k, v})
		}
	}
	return out
}

// ---------------------------------------------------------------------------
// 12. beaconSubmitTimeZeroRejected

func (e *extractor) beaconSubmitTimeZero() bool {
	const where = "x/beacon/types/msgs.go"
	fi := e.byRel[where]
	if fi == nil {
		e.problem("beaconSubmitTimeZeroRejected: %s not loaded", where)
		return false
	}
	fd := fi.findFunc("MsgRecordBeaconTimestamp", "ValidateBasic")
	if fd == nil {
		e.problem("beaconSubmitTimeZeroRejected: MsgRecordBeaconTimestamp.ValidateBasic not found in %s", where)
		return false
	}
	info := fi.pkg.TypesInfo
	recv := recvIdentName(fd)
	isSubmitTime := func(x ast.Expr) bool {
		sel, ok := ast.Unparen(x).(*ast.SelectorExpr)
		if !ok || sel.Sel.Name != "SubmitTime" {
			return false
		}
		id, ok := sel.X.(*ast.Ident)
		return ok && recv != "" && id.Name == recv
	}
	isZero := func(x ast.Expr) bool {
		v, ok := constNat(fi, x)
		return ok && v == 0
	}
	matched := false
	for _, st := range fd.Body.List {
		ifs, ok := st.(*ast.IfStmt)
		if !ok || ifs.Init != nil {
			continue
		}
		be, ok := ast.Unparen(ifs.Cond).(*ast.BinaryExpr)
		if !ok || be.Op != token.EQL {
			continue
		}
		if !((isSubmitTime(be.X) && isZero(be.Y)) || (isSubmitTime(be.Y) && isZero(be.X))) {
			continue
		}
		if len(ifs.Body.List) == 0 {
			continue
		}
		ret, ok := ifs.Body.List[0].(*ast.ReturnStmt)
		if !ok || len(ret.Results) != 1 {
			continue
		}
		if tv := info.Types[ret.Results[0]]; tv.IsNil() {
			continue
		}
		matched = true
	}
	if matched {
		return true
	}
	mentions := 0
	ast.Inspect(fd.Body, func(n ast.Node) bool {
		if x, ok := n.(ast.Expr); ok && isSubmitTime(x) {
			mentions++
		}
		return true
	})
	if mentions > 0 {
		e.problem("beaconSubmitTimeZeroRejected: ValidateBasic references %s.SubmitTime %d time(s) but not as top-level `if %s.SubmitTime == 0 { return <error> }`", recv, mentions, recv)
	}
	return false
}

// ---------------------------------------------------------------------------
// 13. apiRouteOrder

func (e *extractor) apiRouteOrder(fi *fileInfo) []string {
	if fi == nil {
		return nil
	}
	fd := fi.findFunc("App", "RegisterAPIRoutes")
	if fd == nil {
		e.problem("apiRouteOrder: (*App).RegisterAPIRoutes not found in app/app.go")
		return nil
	}
	var out []string
	ast.Inspect(fd.Body, func(n ast.Node) bool {
		call, ok := n.(*ast.CallExpr)
		if !ok {
			return true
		}
		sel, ok := call.Fun.(*ast.SelectorExpr)
		if !ok || !strings.HasPrefix(sel.Sel.Name, "Register") {
			return true
		}
		recv := ""
		switch x := ast.Unparen(sel.X).(type) {
		case *ast.Ident:
			recv = x.Name
		case *ast.IndexExpr:
			// ModuleBasics["enterprise"] → "enterprise"
			if id, ok := x.X.(*ast.Ident); ok && id.Name == "ModuleBasics" {
				if s, ok := constString(fi, x.Index); ok {
					recv = s
				}
			}
		}
		if recv == "" {
			recv = exprStr(sel.X)
		}
		out = append(out, recv+"."+sel.Sel.Name)
		return false // do not descend into the arguments of a recorded call
	})
	if len(out) == 0 {
		e.problem("apiRouteOrder: no Register* calls found in RegisterAPIRoutes")
	}
	return out
}

// ---------------------------------------------------------------------------
// 14. errorCodes

// isErrorsRegister matches calls of `Register` from cosmossdk.io/errors or
// cosmos-sdk/types/errors; in the latter it is a package-level func VARIABLE
// (`Register = errorsmod.Register`), so both Func and Var objects are accepted.
func isErrorsRegister(info *types.Info, call *ast.CallExpr) bool {
	sel, ok := call.Fun.(*ast.SelectorExpr)
	if !ok || sel.Sel.Name != "Register" {
		return false
	}
	obj := info.Uses[sel.Sel]
	switch obj.(type) {
	case *types.Func, *types.Var:
	default:
		return false
	}
	p := pkgPathOf(obj)
	if p != "cosmossdk.io/errors" && p != "github.com/cosmos/cosmos-sdk/types/errors" {
		return false
	}
	sig, ok := obj.Type().Underlying().(*types.Signature)
	return ok && sig.Params().Len() == 3
}

func (e *extractor) errorCodes() List {
	var ts []Tuple
	nfiles := 0
	for _, fi := range e.files {
		mod, rest, ok := xModule(fi.rel)
		if !ok || rest != "types/errors.go" {
			continue
		}
		nfiles++
		info := fi.pkg.TypesInfo
		n := 0
		for _, d := range fi.file.Decls {
			gd, ok := d.(*ast.GenDecl)
			if !ok || gd.Tok != token.VAR {
				continue
			}
			for _, sp := range gd.Specs {
				vs := sp.(*ast.ValueSpec)
				if len(vs.Values) != len(vs.Names) {
					continue
				}
				for i, nm := range vs.Names {
					call, ok := vs.Values[i].(*ast.CallExpr)
					if !ok {
						continue
					}
					if !isErrorsRegister(info, call) || len(call.Args) != 3 {
						continue
					}
					cs, ok1 := constString(fi, call.Args[0])
					code, ok2 := constNat(fi, call.Args[1])
					if !ok1 || !ok2 {
						e.problem("errorCodes: %s.%s: codespace/code not constant: %s", mod, nm.Name, exprStr(call))
						continue
					}
					if cs != mod {
						e.problem("errorCodes: %s.%s registered under codespace %q", mod, nm.Name, cs)
					}
					ts = append(ts, Tuple{cs, nm.Name, code})
					n++
				}
			}
		}
		if n == 0 {
			e.problem("errorCodes: no sdkerrors.Register(...) vars found in %s", fi.rel)
		}
	}
	if nfiles == 0 {
		e.problem("errorCodes: no x/*/types/errors.go loaded")
	}
	// sort by module, code, name
	sort.SliceStable(ts, func(i, j int) bool {
		a, b := ts[i], ts[j]
		if a[0] != b[0] {
			return a[0].(string) < b[0].(string)
		}
		if a[2] != b[2] {
			return a[2].(uint64) < b[2].(uint64)
		}
		return a[1].(string) < b[1].(string)
	})
	l := List{}
	for _, t := range ts {
		l = append(l, t)
	}
	return l
}

// ---------------------------------------------------------------------------
// digest

func (e *extractor) digest() string {
	set := map[string]string{} // rel → abs
	for _, fi := range e.files {
		if consensusPath(fi.rel) {
			set[fi.rel] = fi.abs
		}
	}
	for _, must := range []string{"app/app.go", "ante/ante.go"} {
		if _, ok := set[must]; !ok {
			set[must] = e.repo + "/" + must
		}
	}
	rels := make([]string, 0, len(set))
	for r := range set {
		rels = append(rels, r)
	}
	sort.Strings(rels)
	h := sha256.New()
	for _, r := range rels {
		b, err := os.ReadFile(set[r])
		if err != nil {
			e.problem("repoFilesDigest: cannot read %s: %v", r, err)
			return ""
		}
		s := sha256.Sum256(b)
		fmt.Fprintf(h, "%s %s\n", hex.EncodeToString(s[:]), r)
	}
	return hex.EncodeToString(h.Sum(nil))
}
