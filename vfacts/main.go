// vfacts statically extracts wiring facts from the Go source tree of the
// mainchain Cosmos-SDK app and emits them as a Lean 4 file and a JSON file.
//
// It never writes under the repo: packages are loaded with
// GOFLAGS=-mod=readonly GOPROXY=off GOSUMDB=off GOTOOLCHAIN=local.
//
// Fail-closed: a construct that is not found in the expected shape yields an
// empty list / false / "?" and a line in `problems`; nothing is guessed.
package main

import (
	"flag"
	"fmt"
	"go/ast"
	"go/types"
	"os"
	"path/filepath"
	"runtime/debug"
	"sort"
	"strings"
	"time"

	"golang.org/x/tools/go/packages"
)

var loadPatterns = []string{"./x/...", "./ante/...", "./app", "./types", "./cmd/und/cmd"}

type fileInfo struct {
	pkg  *packages.Package
	file *ast.File
	rel  string // repo-relative, slash separated
	abs  string
}

type extractor struct {
	repo     string
	roots    []*packages.Package
	byPath   map[string]*packages.Package // every loaded package incl. deps
	files    []*fileInfo                  // files of root packages, sorted by rel
	byRel    map[string]*fileInfo
	problems []string
}

func (e *extractor) problem(format string, args ...any) {
	e.problems = append(e.problems, fmt.Sprintf(format, args...))
}

func main() {
	defRepo := os.Getenv("VERIF_REPO")
	if defRepo == "" {
		defRepo = "/repo"
	}
	repo := flag.String("repo", defRepo, "root of the mainchain source tree")
	leanOut := flag.String("lean", "", "output Lean file")
	jsonOut := flag.String("json", "", "output JSON file")
	flag.Parse()
	if *leanOut == "" || *jsonOut == "" || flag.NArg() != 0 {
		fmt.Fprintln(os.Stderr, "usage: vfacts -repo DIR -lean OUT.lean -json OUT.json")
		os.Exit(2)
	}
	repoAbs, err := filepath.Abs(*repo)
	if err != nil {
		fmt.Fprintln(os.Stderr, "vfacts:", err)
		os.Exit(2)
	}
	if r, err := filepath.EvalSymlinks(repoAbs); err == nil {
		repoAbs = r
	}
	for _, out := range []string{*leanOut, *jsonOut} {
		if oa, err := filepath.Abs(out); err == nil && (oa == repoAbs || strings.HasPrefix(oa, repoAbs+string(filepath.Separator))) {
			fmt.Fprintln(os.Stderr, "vfacts: refusing to write inside the repo:", oa)
			os.Exit(2)
		}
	}

	// Type-checking ~1000 dependency packages from source is allocation heavy;
	// a laxer GC target roughly halves wall time (peak RSS stays < 4 GiB).
	if os.Getenv("GOGC") == "" {
		debug.SetGCPercent(400)
	}
	t0 := time.Now()
	e, err := load(repoAbs)
	if err != nil {
		fmt.Fprintln(os.Stderr, "vfacts: load failure:", err)
		os.Exit(2)
	}
	t1 := time.Now()
	facts := e.extractAll()
	t2 := time.Now()

	if err := os.WriteFile(*leanOut, []byte(renderLean(facts)), 0o644); err != nil {
		fmt.Fprintln(os.Stderr, "vfacts:", err)
		os.Exit(2)
	}
	if err := os.WriteFile(*jsonOut, []byte(renderJSON(facts)), 0o644); err != nil {
		fmt.Fprintln(os.Stderr, "vfacts:", err)
		os.Exit(2)
	}
	fmt.Fprintf(os.Stderr, "vfacts: %d facts, %d problems (load %.1fs, extract %.2fs)\n",
		len(facts), len(e.problems), t1.Sub(t0).Seconds(), t2.Sub(t1).Seconds())
}

func load(repo string) (*extractor, error) {
	cfg := &packages.Config{
		Mode: packages.NeedName | packages.NeedFiles | packages.NeedSyntax | packages.NeedTypes |
			packages.NeedTypesInfo | packages.NeedImports | packages.NeedDeps,
		Dir:   repo,
		Tests: false,
		// -mod=readonly: go commands run in the repo must never rewrite its go.mod.
		Env: append(os.Environ(),
			"GOFLAGS=-mod=readonly", "GOPROXY=off", "GOSUMDB=off", "GOTOOLCHAIN=local"),
	}
	pkgs, err := packages.Load(cfg, loadPatterns...)
	if err != nil {
		return nil, err
	}
	if len(pkgs) == 0 {
		return nil, fmt.Errorf("no packages matched %v in %s", loadPatterns, repo)
	}
	sort.Slice(pkgs, func(i, j int) bool { return pkgs[i].PkgPath < pkgs[j].PkgPath })

	e := &extractor{repo: repo, roots: pkgs, byPath: map[string]*packages.Package{}, byRel: map[string]*fileInfo{}}
	nerr := 0
	for _, p := range pkgs {
		for _, pe := range p.Errors {
			fmt.Fprintf(os.Stderr, "vfacts: %s: %s\n", p.PkgPath, pe)
			nerr++
		}
		if p.IllTyped && len(p.Errors) == 0 {
			fmt.Fprintf(os.Stderr, "vfacts: %s: ill-typed (error in a dependency)\n", p.PkgPath)
			nerr++
		}
		if p.Types == nil || p.TypesInfo == nil {
			fmt.Fprintf(os.Stderr, "vfacts: %s: no type information\n", p.PkgPath)
			nerr++
		}
	}
	if nerr > 0 {
		// also surface dependency errors, they are usually the root cause
		packages.Visit(pkgs, nil, func(p *packages.Package) {
			for _, pe := range p.Errors {
				fmt.Fprintf(os.Stderr, "vfacts: dep %s: %s\n", p.PkgPath, pe)
			}
		})
		return nil, fmt.Errorf("%d package error(s)", nerr)
	}
	packages.Visit(pkgs, nil, func(p *packages.Package) { e.byPath[p.PkgPath] = p })

	for _, p := range pkgs {
		for _, f := range p.Syntax {
			abs := p.Fset.Position(f.Package).Filename
			rel, err := filepath.Rel(repo, abs)
			if err != nil || strings.HasPrefix(rel, "..") {
				if ra, err2 := filepath.EvalSymlinks(abs); err2 == nil {
					rel, err = filepath.Rel(repo, ra)
				}
			}
			if err != nil || strings.HasPrefix(rel, "..") {
				continue // generated file outside the repo (e.g. cgo cache)
			}
			rel = filepath.ToSlash(rel)
			fi := &fileInfo{pkg: p, file: f, rel: rel, abs: abs}
			e.files = append(e.files, fi)
			e.byRel[rel] = fi
		}
	}
	sort.Slice(e.files, func(i, j int) bool { return e.files[i].rel < e.files[j].rel })
	return e, nil
}

// ---------------------------------------------------------------------------
// file classification

func isTestOrPB(rel string) bool {
	return strings.HasSuffix(rel, "_test.go") || strings.HasSuffix(rel, ".pb.go") || strings.HasSuffix(rel, ".pb.gw.go")
}

// consensusPath implements the "consensus-path files" definition.
func consensusPath(rel string) bool {
	if isTestOrPB(rel) {
		return false
	}
	s := "/" + rel
	if strings.Contains(s, "/simulation/") || strings.Contains(s, "/client/") || strings.Contains(s, "/testutil") {
		return false
	}
	if rel == "app/test_helpers.go" || strings.HasPrefix(rel, "cmd/") {
		return false
	}
	return true
}

// mintBurnScope is the wider scope used for mint/burn call sites only.
func mintBurnScope(rel string) bool {
	if isTestOrPB(rel) {
		return false
	}
	return strings.HasPrefix(rel, "x/") || strings.HasPrefix(rel, "app/") || strings.HasPrefix(rel, "ante/")
}

// xModule returns the module name for x/<module>/<sub...>/file.go paths.
func xModule(rel string) (module string, rest string, ok bool) {
	parts := strings.Split(rel, "/")
	if len(parts) < 3 || parts[0] != "x" {
		return "", "", false
	}
	return parts[1], strings.Join(parts[2:], "/"), true
}

// ---------------------------------------------------------------------------
// small AST/type helpers

func funcDeclName(fd *ast.FuncDecl) string {
	if fd.Recv == nil || len(fd.Recv.List) == 0 {
		return fd.Name.Name
	}
	return recvTypeName(fd) + "." + fd.Name.Name
}

func recvTypeName(fd *ast.FuncDecl) string {
	if fd.Recv == nil || len(fd.Recv.List) == 0 {
		return ""
	}
	t := fd.Recv.List[0].Type
	for {
		switch x := t.(type) {
		case *ast.StarExpr:
			t = x.X
		case *ast.ParenExpr:
			t = x.X
		case *ast.IndexExpr:
			t = x.X
		case *ast.IndexListExpr:
			t = x.X
		case *ast.Ident:
			return x.Name
		default:
			return "?"
		}
	}
}

func recvIdentName(fd *ast.FuncDecl) string {
	if fd.Recv == nil || len(fd.Recv.List) == 0 || len(fd.Recv.List[0].Names) == 0 {
		return ""
	}
	return fd.Recv.List[0].Names[0].Name
}

// walkFuncs visits every node of the file together with the name of the
// enclosing top-level declaration ("Recv.Method", "Func" or "<pkg-level>").
func walkFuncs(fi *fileInfo, visit func(encl string, n ast.Node) bool) {
	for _, d := range fi.file.Decls {
		name := "<pkg-level>"
		if fd, ok := d.(*ast.FuncDecl); ok {
			name = funcDeclName(fd)
		}
		ast.Inspect(d, func(n ast.Node) bool {
			if n == nil {
				return false
			}
			return visit(name, n)
		})
	}
}

func (fi *fileInfo) findFunc(recvType, name string) *ast.FuncDecl {
	for _, d := range fi.file.Decls {
		if fd, ok := d.(*ast.FuncDecl); ok && fd.Name.Name == name && recvTypeName(fd) == recvType && fd.Body != nil {
			return fd
		}
	}
	return nil
}

// calleeFunc returns the *types.Func a call resolves to (function or method).
func calleeFunc(info *types.Info, call *ast.CallExpr) *types.Func {
	var id *ast.Ident
	switch f := ast.Unparen(call.Fun).(type) {
	case *ast.Ident:
		id = f
	case *ast.SelectorExpr:
		id = f.Sel
	case *ast.IndexExpr: // generic instantiation f[T](...)
		switch g := ast.Unparen(f.X).(type) {
		case *ast.Ident:
			id = g
		case *ast.SelectorExpr:
			id = g.Sel
		}
	}
	if id == nil {
		return nil
	}
	fn, _ := info.Uses[id].(*types.Func)
	return fn
}

func pkgPathOf(obj types.Object) string {
	if obj == nil || obj.Pkg() == nil {
		return ""
	}
	return obj.Pkg().Path()
}

// qualifierFor prints types of the current package unqualified and all
// others with their package name ("time.Duration").
func qualifierFor(cur *types.Package) types.Qualifier {
	return func(p *types.Package) string {
		if p == cur {
			return ""
		}
		return p.Name()
	}
}
