"""
C01 engine: the same script on twin application instances — (A) MemDB, GOMAXPROCS=16, no restart and (B) goleveldb,
GOMAXPROCS=1, another time zone, restarts at pseudo-random points inside and between blocks with replay of the
interrupted block — must yield identical app hashes per height and identical per-transaction
(code, codespace, gas_wanted, gas_used, sha256(data)); every restart must resume at the last committed height/hash.
"""
import time, os, glob, subprocess, shutil, json
from concurrent.futures import ThreadPoolExecutor


def _twin(vh, script, out, db, env_extra, crashseed=None, crashpct=0, invperiod=0):
    cmd = [vh, "twin", "-script", script, "-out", out, "-db", db]
    if invperiod:
        cmd += ["-invperiod", str(invperiod)]
    if crashseed:
        cmd += ["-crashseed", str(crashseed)]
    if crashpct:
        cmd += ["-crashpct", str(crashpct)]
    env = dict(os.environ, GOFLAGS="-mod=mod", GOPROXY="off", GOSUMDB="off", GOTOOLCHAIN="local", **env_extra)
    p = subprocess.run(cmd, env=env, stdout=subprocess.PIPE, stderr=subprocess.STDOUT, text=True, timeout=1800)
    return p.returncode, p.stdout


def mask(line):
    """gas_used of a transaction rejected before the ante handler installed a gas meter (gas_wanted 0, code != 0)"""
    t = line.split()
    if t and t[0] == "T" and len(t) >= 7 and t[4] == "0" and t[2] != "0":
        t[5] = "*"
    return " ".join(t)


def compare(a_path, b_path):
    a = [l.rstrip("\n") for l in open(a_path)]
    b = [l.rstrip("\n") for l in open(b_path)]
    out = []
    # restarts resume at the last committed height and hash
    last_h = None
    for l in b:
        if l.startswith("H "):
            last_h = l.split()[1:3]
        elif l.startswith("Z ") and last_h is not None and l.split()[1:3] != last_h:
            out.append(("restart", "resumed at %s, last commit %s" % (l, last_h)))
    an = [l for l in a if not l.startswith("Z ")]
    bn = [l for l in b if not l.startswith("Z ")]
    if an != bn:
        if [mask(l) for l in an] == [mask(l) for l in bn]:
            d = [(x, y) for x, y in zip(an, bn) if x != y][0]
            out.append(("gas-prevalidation", "%s <> %s" % d))
        else:
            d = [(x, y) for x, y in zip(an, bn) if mask(x) != mask(y)]
            x, y = d[0] if d else ("<length %d>" % len(an), "<length %d>" % len(bn))
            out.append(("apphash" if x.startswith("H") else "txresult", "%s <> %s" % (x, y)))
    stats = {"heights": len([l for l in a if l.startswith("H ")]), "txs": len([l for l in a if l.startswith("T ")]),
             "restarts": len([l for l in b if l.startswith("Z ")])}
    return out, stats


def run(G, rh, tier, seed):
    ROOT, HARN, CACHE = G["ROOT"], G["HARN"], G["CACHE"]
    vh = os.path.join(HARN, "bin", "vharness")
    size = {"quick": (10, 12), "thorough": (80, 30)}[tier]
    d = os.path.join(CACHE, "eng-%s-%s-twin-%s-%s" % (rh, G["machinery_hash"](), tier, seed))
    done = os.path.join(d, "DONE")
    broken, violations, samples = [], [], []
    with G["Lock"]("eng-twin" + tier + str(seed)):
        if not os.path.exists(done):
            shutil.rmtree(d, ignore_errors=True); os.makedirs(d)
            rc, out, _ = G["run"]([vh, "chain", "-seed", str(seed * 77 + 5), "-scripts", str(size[0]), "-blocks", str(size[1]), "-maxtx", "6",
                                   "-focus", "crash", "-outdir", d], env=G["GOENV"], timeout=7200)
            if rc != 0:
                return {"evidence": {"name": "twin", "error": out[-500:]}, "broken": ["engine twin: script generation failed"], "lines": 0}
            k = 0
            for sub in ("witness", "known", "regress"):
                for s in sorted(glob.glob(os.path.join(ROOT, "corpus", sub, "*.script"))):
                    shutil.copy(s, os.path.join(d, "c%02d-%s" % (k, os.path.basename(s)))); k += 1
            scripts = sorted(glob.glob(os.path.join(d, "*.script")))

            def one(s):
                ra = _twin(vh, s, s[:-7] + ".twinA", "memdb", {"GOMAXPROCS": "16", "TZ": "UTC"})
                time.sleep(1.3)  # instance B executes every block at a later wall-clock second than instance A
                # corpus scripts (witnesses of known findings among them): restart at EVERY eligible point, fixed seed, so that
                # they reproduce whatever VERIF_SEED is; generated scripts: restarts at ~25 % of the points, seed-derived
                # node-local flags differ too: B skips the genesis invariants and asserts the registered invariants every 2nd block
                # (A: asserts them at genesis, never afterwards). Where the history changes the enterprise denomination the
                # periodic assertion stays off: with locked eFUND around, that history breaks the enterprise invariant (the
                # recorded C14/C15 finding) and a node that asserts invariants halts there by design.
                inv = 0 if "ent.params" in open(s).read() else 2
                if os.path.basename(s).startswith("c"):
                    rb = _twin(vh, s, s[:-7] + ".twinB", "goleveldb", {"GOMAXPROCS": "1", "TZ": "Asia/Tokyo"}, crashseed=7, crashpct=100, invperiod=inv)
                else:
                    rb = _twin(vh, s, s[:-7] + ".twinB", "goleveldb", {"GOMAXPROCS": "1", "TZ": "Asia/Tokyo"}, crashseed=seed * 13 + 7, crashpct=25, invperiod=inv)
                return s, ra, rb
            with ThreadPoolExecutor(max_workers=8) as ex:
                res = list(ex.map(one, scripts))
            json.dump([[s, ra[0], rb[0], (ra[1] + rb[1])[-300:]] for s, ra, rb in res], open(os.path.join(d, "runs.json"), "w"))
            open(done, "w").write("ok")
    runs = json.load(open(os.path.join(d, "runs.json")))
    tot = {"heights": 0, "txs": 0, "restarts": 0}
    lines = 0
    distinct = set()
    for s, rca, rcb, log in runs:
        if rca != 0 or rcb != 0:
            broken.append("engine twin: run failed on %s: %s" % (os.path.basename(s), log.replace("\n", " ")[-200:]))
            continue
        diffs, st = compare(s[:-7] + ".twinA", s[:-7] + ".twinB")
        for k in tot:
            tot[k] += st[k]
        lines += st["heights"] + st["txs"]
        for l in open(s[:-7] + ".twinA"):
            t = l.split()
            if t and t[0] == "T":
                distinct.add(("twin", t[2], t[3]))
        for kind, detail in diffs:
            violations.append({"oracle": "twin", "signature": kind, "detail": detail, "script": s})
        if len(samples) < 2:
            samples.append({"twin_script": os.path.basename(s), "first_lines_A": [l.rstrip() for l in open(s[:-7] + ".twinA")][:4]})
    ev = {"name": "twin", "scripts": len(runs), "heights_compared": tot["heights"], "tx_results_compared": tot["txs"], "restarts": tot["restarts"],
          "instances": "A: MemDB, GOMAXPROCS=16, TZ=UTC, no restart, invariants asserted at genesis only; B: goleveldb, GOMAXPROCS=1, TZ=Asia/Tokyo, restarts with block replay, genesis invariants skipped, --inv-check-period 2; separate processes"}
    return {"evidence": ev, "lines": lines, "distinct": list(distinct), "broken": broken, "violations": violations, "samples": samples}
