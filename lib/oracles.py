"""
Implementation-side oracles: small predicates over the REAL application's own trace (digests,
results), one family per property.  They are used only to search for a concrete failing input
once an obligation is broken, and to recognise the known findings (DESIGN.md §7) — never in place
of a theorem.
Each oracle returns dicts {oracle, signature, detail, at}.
"""
import re
from fractions import Fraction

U64 = 1 << 64


def coin(s):
    m = re.match(r"^(-?\d+)([a-zA-Z][a-zA-Z0-9/:._-]*)$", s)
    return (int(m.group(1)), m.group(2)) if m else (0, "")


def coins(s):
    if s == "-":
        return {}
    out = {}
    for c in s.split(","):
        a, d = coin(c)
        out[d] = a
    return out


class Digest:
    def __init__(self):
        self.lines = []
        self.ent_params = None
        self.po = {}
        self.rq = []; self.aq = []; self.wl = []
        self.locked = {}; self.spent = {}
        self.total_locked = (0, ""); self.total_spent = (0, "")
        self.reg = {"wrk": {}, "bcn": {}}
        self.recs = {"wrk": {}, "bcn": {}}
        self.regparams = {}
        self.next = {}
        self.str_fee = None
        self.streams = {}
        self.bal = {}; self.spendable = {}
        self.fees = {}; self.supply = {}
        self.exists = []


def ids(s):
    return [] if s == "-" else [int(x) for x in s.split(",")]


def parse_digest(lines):
    d = Digest()
    d.lines = lines
    for l in lines:
        t = l.split(" ")
        k = t[1]
        if k == "ent.params":
            d.ent_params = {"denom": t[2], "min": int(t[3]), "limit": int(t[4]), "signers": t[5]}
        elif k == "ent.next":
            d.next["ent"] = int(t[2])
        elif k == "ent.po":
            decs = [] if t[8] == "-" else [tuple(x.split(":")) for x in t[8].split(",")]
            d.po[int(t[2])] = {"purchaser": t[3], "amount": coin(t[4]), "status": int(t[5]), "raise": int(t[6]), "completion": int(t[7]), "decisions": decs}
        elif k == "ent.rq":
            d.rq = ids(t[2])
        elif k == "ent.aq":
            d.aq = ids(t[2])
        elif k == "ent.wl":
            d.wl = [] if t[2] == "-" else t[2].split(",")
        elif k == "ent.locked":
            d.locked[t[2]] = coin(t[3])
        elif k == "ent.spent":
            d.spent[t[2]] = coin(t[3])
        elif k == "ent.total":
            d.total_locked = coin(t[2]); d.total_spent = coin(t[3])
        elif k in ("wrk.params", "bcn.params"):
            d.regparams[k[:3]] = {"denom": t[2], "reg": int(t[3]), "rec": int(t[4]), "buy": int(t[5]), "def": int(t[6]), "max": int(t[7])}
        elif k in ("wrk.next", "bcn.next"):
            d.next[k[:3]] = int(t[2])
        elif k == "wrk.chain":
            d.reg["wrk"][int(t[2])] = {"owner": t[3], "moniker": t[4], "name": t[5], "genesis": t[6], "type": t[7], "regtime": int(t[8]),
                                       "last": int(t[9]), "num": int(t[10]), "lowest": int(t[11]), "limit": t[12]}
        elif k == "bcn.beacon":
            d.reg["bcn"][int(t[2])] = {"owner": t[3], "moniker": t[4], "name": t[5], "regtime": int(t[6]),
                                       "last": int(t[7]), "lowest": int(t[8]), "num": int(t[9]), "limit": t[10]}
        elif k == "wrk.block":
            d.recs["wrk"][(int(t[2]), int(t[3]))] = tuple(t[4:])
        elif k == "bcn.ts":
            d.recs["bcn"][(int(t[2]), int(t[3]))] = tuple(t[4:])
        elif k == "str.params":
            d.str_fee = int(t[2])
        elif k == "str.stream":
            d.streams[(t[2], t[3])] = {"deposit": coin(t[4]), "rate": int(t[5]), "last": int(t[6]), "zero": int(t[7]), "cancellable": t[8]}
        elif k == "bank.bal":
            d.bal[t[2]] = coins(t[3]); d.spendable[t[2]] = coins(t[4])
        elif k == "bank.fees":
            d.fees = coins(t[2])
        elif k == "bank.supply":
            d.supply = coins(t[2])
        elif k == "auth.exists":
            d.exists = [] if t[2] == "-" else t[2].split(",")
    return d


class Trace:
    """script + implementation trace, cut into blocks"""
    def __init__(self):
        self.genesis = None       # Digest after INIT
        self.blocks = []          # dicts: time, txs[(n, line, kinds, result, fields)], checks, govs, digest, begin_ok, end_ok
        self.script_lines = []
        self.halted = None


def parse_trace(script_path, impl_path):
    tr = Trace()
    sl = [l.rstrip("\n") for l in open(script_path)]
    il = [l.rstrip("\n") for l in open(impl_path)]
    tr.script_lines = sl
    tr.impl_lines = il
    results = {}
    checks = {}
    govs = {}
    qres = {}
    digests = []
    cur = None
    marks = []
    for l in il:
        if l.startswith("D "):
            if cur is not None:
                cur.append(l)
        else:
            if l.startswith(("I ", "K ")):
                cur = []
                digests.append(cur)
            elif l.startswith("X ok") and digests:
                # the digest printed after a successful export/import replaces the one of the commit before it
                # (it is the state the next block starts from)
                cur = []
                digests[-1] = cur
            t = l.split(" ")
            if t[0] == "R":
                results[t[1]] = (t[2], dict(x.split("=", 1) for x in t[3:] if "=" in x))
            elif t[0] in ("C", "CR"):
                checks[t[1]] = t[2]
            elif t[0] == "Q":
                qres[t[1]] = (t[2], t[3:])
            elif t[0] == "RG":
                govs[t[1]] = t[2]
            elif t[0] in ("B", "E"):
                marks.append(l)
            elif t[0] == "x":
                marks.append(l)
    di = 0
    if digests:
        tr.genesis = parse_digest(digests[0]); di = 1
    blk = None
    mi = 0
    pending_checks = []
    tr.queries = []     # dicts: n, kind, args, result (ok|err), toks, gap (index of the digest in force)
    ncommit = 0
    for l in sl:
        t = l.split()
        if not t:
            continue
        if t[0] == "QUERY" and len(t) >= 3:
            res, toks = qres.get(t[1], ("?", []))
            tr.queries.append({"n": t[1], "kind": t[2], "args": t[3:], "result": res, "toks": toks, "gap": ncommit})
        if t[0] in ("COMMIT", "EXPORTIMPORT", "CRASH"):
            ncommit += 1 if t[0] == "COMMIT" else 0
        if t[0] == "BEGIN":
            blk = {"time": int(t[1]) * 10**9 + int(t[2]), "txs": [], "checks": pending_checks, "govs": [], "digest": None, "begin": None, "end": None}
            pending_checks = []
            tr.blocks.append(blk)
        if t[0] == "RECHECK" and len(t) > 3:   # RECHECK <N> <n> <fields> :: <msgs>  — judged like a CHECK of the state in force
            t = ["CHECK", t[1]] + t[3:]
            recheck = True
        else:
            recheck = False
        if t[0] in ("TX", "CHECK") and "::" in t:
            body = t[t.index("::") + 1:]
            kinds = [w for w in body if re.match(r"^(ent|wrk|bcn|str|bank|authz|feegrant)\.[a-z]+$", w)]
            hdr = dict(x.split("=", 1) for x in t[2:t.index("::")] if "=" in x)
            rec = {"n": t[1], "hdr": hdr, "body": body, "kinds": kinds, "line": l}
            if t[0] == "TX" and blk is not None:
                rec["result"], rec["fields"] = results.get(t[1], ("?", {}))
                blk["txs"].append(rec)
            else:
                rec["result"] = checks.get(t[1], "?")
                rec["recheck"] = recheck
                pending_checks.append(rec)
        elif t[0] == "GOVEXEC" and blk is not None:
            body, vote = t[2:], "yes"
            if body and body[0].startswith("vote="):   # how the validator votes; anything but yes: the proposal must not pass
                vote, body = body[0][5:], body[1:]
            blk["govs"].append({"n": t[1], "body": body, "vote": vote, "result": govs.get(t[1], "?")})
        elif t[0] == "COMMIT" and blk is not None:
            if di < len(digests):
                blk["digest"] = parse_digest(digests[di]); di += 1
    tr.trailing_checks = pending_checks
    for m in marks:
        if m in ("B panic", "E panic"):
            tr.halted = m
    tr.soft = [l for l in il if l and l[0].islower()]
    return tr


def distinct_cases(tr):
    out = set()
    for b in tr.blocks:
        for tx in b["txs"]:
            out.add(("tx", tuple(tx["kinds"]), tx["result"], tuple(sorted(k.split(".", 1)[-1] for k in tx["fields"])), tx["hdr"].get("sig"), tx["hdr"].get("granter", "-") != "-"))
        for c in b["checks"]:
            out.add(("check", tuple(c["kinds"]), c["result"]))
        for g in b["govs"]:
            out.add(("gov", g["body"][0] if g["body"] else "", g["result"]))
    return out


def fee_payer(tx):
    """the account that pays the fee: the explicit payer= of the transaction line when set, else the first signer"""
    p = tx["hdr"].get("payer", "-")
    if p not in ("-", ""):
        return p
    return tx["hdr"].get("signers", "").split(",")[0]


def names_in(tx):
    """every account named anywhere in a transaction line, spelling normalised (U3 = A3; list tokens and key=value split)"""
    out = set()
    for w in re.split(r"[\s,=]+", tx["line"]):
        if re.match(r"^[AU]\d+$", w):
            out.add("A" + w[1:])
        elif w:
            out.add(w)
    return out


def addr_id(tok):
    """A3 and U3 are the same address"""
    return "A" + tok[1:] if tok.startswith("U") else tok


# ------------------------------------------------------------------------------------------------
# per-property oracles on a chain trace

def states(tr):
    prev = tr.genesis
    for b in tr.blocks:
        if b["digest"] is None:
            break
        yield prev, b, b["digest"]
        prev = b["digest"]


def o_halt(tr):
    if tr.halted:
        why = [l for l in tr.soft if l.startswith(("b panic", "e panic"))]
        reason = why[-1].split(" ", 2)[2] if why else ""
        denoms = set(d.ent_params["denom"] for d in [tr.genesis] + [b["digest"] for b in tr.blocks] if d is not None and d.ent_params)
        if "invalid_coin_denominations" in reason and len(denoms) > 1:
            cls = "denom-change"   # the recorded finding: governance changed the enterprise denomination in this history
        elif "invalid_coin_denominations" in reason:
            cls = "denom-mismatch-without-parameter-change"
        elif "overflow" in reason:
            cls = "int-overflow"
        else:
            cls = re.sub(r"[^A-Za-z_]+", "", reason)[:40] or "unknown"
        yield {"oracle": "halt", "signature": tr.halted.split()[0] + "-" + cls, "detail": "the chain panicked in %s: %s" % (tr.halted, reason[:150])}


def o_c02(tr):
    for prev, b, d in states(tr):
        if prev is None:
            continue
        completed = {}
        for i, po in d.po.items():
            if po["status"] == 4 and (i not in prev.po or prev.po[i]["status"] != 4):
                a, dn = po["amount"]
                completed[dn] = completed.get(dn, 0) + a
        for dn in set(list(d.supply) + list(prev.supply) + list(completed)):
            delta = d.supply.get(dn, 0) - prev.supply.get(dn, 0)
            # the printed supply excludes the gov module account (environment): coins a scenario account moves
            # into it (bank.send / stream payout to Mgov) show up as a decrease of the printed figure
            to_gov = any("Mgov" in t["line"] for t in b["txs"])
            # ... and coins a successful governance proposal sends out of it (bank.send Mgov …) as an increase of at most that amount
            from_gov = 0
            for gv in b["govs"]:
                if gv["result"] != "ok":
                    continue
                for m in split_msgs(gv["body"]):
                    if len(m) == 4 and m[0] == "bank.send" and m[1] == "Mgov":
                        from_gov += coins(m[3]).get(dn, 0)
            extra = delta - completed.get(dn, 0)
            if extra != 0 and not (to_gov and extra < 0) and not (0 < extra <= from_gov) and not (to_gov and from_gov and extra <= from_gov):
                yield {"oracle": "supply-delta", "signature": "delta!=completed", "detail": "block t=%d denom %s: supply delta %d, completed orders %d" % (b["time"], dn, delta, completed.get(dn, 0))}


LEGAL = {(1, 1), (1, 2), (1, 3), (2, 4), (2, 2), (3, 3), (4, 4)}


def o_c03(tr):
    for prev, b, d in states(tr):
        for i, po in d.po.items():
            seen = set()
            for (sg, dec, tm) in po["decisions"]:
                a = addr_id(sg)
                if a in seen:
                    yield {"oracle": "one-decision-per-signer", "signature": "duplicate-signer", "detail": "order %d has two decisions of %s" % (i, a)}
                seen.add(a)
            if prev is not None and i in prev.po:
                tr_ = (prev.po[i]["status"], po["status"])
                if tr_ not in LEGAL:
                    yield {"oracle": "status-transition", "signature": "%d->%d" % tr_, "detail": "order %d" % i}
                if prev.po[i]["status"] == 2 and po["status"] != 4:
                    yield {"oracle": "completed-next-block", "signature": "accepted-not-completed", "detail": "order %d" % i}
                if prev.po[i]["status"] in (3, 4) and prev.po[i] != po:
                    yield {"oracle": "terminal-frozen", "signature": "changed", "detail": "order %d" % i}
            elif prev is not None and po["status"] != 1:
                yield {"oracle": "status-transition", "signature": "new-not-raised", "detail": "order %d first seen with status %d" % (i, po["status"])}
        # the tally rule of the statement, evaluated independently: parameters and decisions as committed by the
        # previous block (the tally runs in BeginBlock, before any transaction of this block)
        if prev is not None and prev.ent_params:
            sg = prev.ent_params["signers"].split(",") if prev.ent_params["signers"] != "-" else []
            mn, lim = prev.ent_params["min"], prev.ent_params["limit"]
            for i, po in prev.po.items():
                if po["status"] != 1 or i not in d.po:
                    continue
                acc = len([1 for x in po["decisions"] if x[1] == "2"]); rej = len([1 for x in po["decisions"] if x[1] == "3"])
                age = b["time"] // 10**9 - po["raise"]
                if age >= lim and acc < mn:
                    want = 3
                elif rej > len(sg) - mn:
                    want = 3
                elif acc >= mn:
                    want = 2
                else:
                    want = 1
                if d.po[i]["status"] != want:
                    yield {"oracle": "tally-rule", "signature": "want-%d-got-%d" % (want, d.po[i]["status"]),
                           "detail": "order %d: accepts %d rejects %d signers %d min %d age %d limit %d" % (i, acc, rej, len(sg), mn, age, lim)}
        if sorted(i for i, p in d.po.items() if p["status"] == 1) != sorted(d.rq):
            yield {"oracle": "queues-match-status", "signature": "raised", "detail": str(d.rq)}
        if sorted(i for i, p in d.po.items() if p["status"] == 2) != sorted(d.aq):
            yield {"oracle": "queues-match-status", "signature": "accepted", "detail": str(d.aq)}


def o_untouched_order(tr):
    """writing one purchase order never changes what is read for another: an order that no transaction of the block names,
    and whose own decisions and age leave it raised under the tally rule (or which is rejected/completed already), reads
    after the block exactly as before - whatever was decided on, or happened to, the other orders"""
    for prev, b, d in states(tr):
        if prev is None or not prev.ent_params:
            continue
        sg = prev.ent_params["signers"].split(",") if prev.ent_params["signers"] != "-" else []
        mn, lim = prev.ent_params["min"], prev.ent_params["limit"]
        named = set()
        for tx in b["txs"]:
            body = tx["body"]
            for k, w in enumerate(body):
                if w == "ent.decide" and k + 1 < len(body):
                    named.add(body[k + 1])
        for i, po in prev.po.items():
            if i not in d.po or str(i) in named:
                continue
            if po["status"] == 1:
                acc = len([1 for x in po["decisions"] if x[1] == "2"]); rej = len([1 for x in po["decisions"] if x[1] == "3"])
                age = b["time"] // 10**9 - po["raise"]
                if (age >= lim and acc < mn) or rej > len(sg) - mn or acc >= mn:
                    continue
            elif po["status"] not in (3, 4):
                continue
            if d.po[i] != po:
                others = sorted(j for j in prev.po if j != i and (j not in d.po or d.po[j] != prev.po[j]) or str(j) in named)
                yield {"oracle": "untouched-order-unchanged", "signature": "status-%d->%d" % (po["status"], d.po[i]["status"]),
                       "detail": "order %d was not written to in the block at %s and reads differently after it; orders written: %s" % (i, b["time"], others[:6])}


def o_c04(tr):
    for prev, b, d in states(tr):
        ent_bal = d.bal.get("Ment", {})
        tl, dn = d.total_locked
        if ent_bal != ({dn: tl} if tl else {}):
            yield {"oracle": "escrow=total-locked", "signature": "mismatch", "detail": "%s vs %s" % (ent_bal, d.total_locked)}
        if sum(a for a, _ in d.locked.values()) != tl:
            yield {"oracle": "total-locked=sum", "signature": "mismatch", "detail": ""}
        if sum(a for a, _ in d.spent.values()) != d.total_spent[0]:
            yield {"oracle": "total-spent=sum", "signature": "mismatch", "detail": ""}
        per = {}
        for i, po in d.po.items():
            if po["status"] == 4:
                a = addr_id(po["purchaser"])
                per[a] = per.get(a, 0) + po["amount"][0]
        for a in set(list(per) + list(d.locked) + list(d.spent)):
            if d.locked.get(a, (0, ""))[0] + d.spent.get(a, (0, ""))[0] != per.get(a, 0):
                yield {"oracle": "locked+spent=completed", "signature": "mismatch", "detail": a}


def o_c05(tr):
    for prev, b, d in states(tr):
        if prev is None:
            continue
        modtx_payers = set()
        for tx in b["txs"]:
            if any(k.startswith(("wrk.", "bcn.")) and not k.endswith("params") for k in tx["kinds"]):
                sg = addr_id(fee_payer(tx))
                modtx_payers.add(sg)
        for a in set(list(prev.locked) + list(d.locked)):
            before = prev.locked.get(a, (0, ""))[0]; after = d.locked.get(a, (0, ""))[0]
            if after < before and a not in modtx_payers:
                yield {"oracle": "locked-decrease-without-module-tx", "signature": "no-module-tx", "detail": a}
        # completion must not raise the purchaser's spendable balance
        for i, po in d.po.items():
            if po["status"] == 4 and i in prev.po and prev.po[i]["status"] == 2:
                a = addr_id(po["purchaser"])
                dn = po["amount"][1]
                touched = any(a in names_in(t) for t in b["txs"])
                if not touched and d.spendable.get(a, {}).get(dn, 0) > prev.spendable.get(a, {}).get(dn, 0):
                    kind = "vesting" if prev.spendable.get(a, {}).get(dn, 0) < prev.bal.get(a, {}).get(dn, 0) else "base"
                    yield {"oracle": "spendable-increase", "signature": "purchaser=" + kind, "detail": "order %d purchaser %s" % (i, a)}


def o_c05_granter(tr):
    """the amount unlocked for a fee must leave the payer as fee: with a fee granter the payer's own balance must not rise"""
    for prev, b, d in states(tr):
        if prev is None:
            continue
        for tx in b["txs"]:
            if tx["result"] != "ok" or tx["hdr"].get("granter", "-") == "-":
                continue
            if not any(k.startswith(("wrk.", "bcn.")) and not k.endswith("params") for k in tx["kinds"]):
                continue
            payer = addr_id(fee_payer(tx))
            if len([t for t in b["txs"] if payer in t["line"].split() or ("signers=" + payer) in t["line"]]) != 1:
                continue    # only judge blocks in which this is the payer's only transaction
            lb = prev.locked.get(payer, (0, ""))[0]; la = d.locked.get(payer, (0, ""))[0]
            if la < lb:
                dn = prev.locked[payer][1]
                if d.bal.get(payer, {}).get(dn, 0) > prev.bal.get(payer, {}).get(dn, 0):
                    yield {"oracle": "unlocked-not-paid-as-fee", "signature": "fee-granter",
                           "detail": "tx %s: locked of %s fell by %d while its balance rose by %d (granter %s paid the fee)" %
                           (tx["n"], payer, lb - la, d.bal[payer].get(dn, 0) - prev.bal.get(payer, {}).get(dn, 0), tx["hdr"]["granter"])}


def o_c05_amount(tr):
    """an executed WRKChain/BEACON transaction moves exactly min(fee in the enterprise denomination, locked) from locked to spent"""
    for prev, b, d in states(tr):
        if prev is None or not prev.ent_params:
            continue
        dn = prev.ent_params["denom"]
        completing = set(addr_id(po["purchaser"]) for i, po in d.po.items() if po["status"] == 4 and i in prev.po and prev.po[i]["status"] != 4)
        for tx in b["txs"]:
            if tx["result"] != "ok":
                continue
            if not any(k.startswith(("wrk.", "bcn.")) and not k.endswith("params") for k in split_top_kinds(tx["body"])):
                continue
            payer = addr_id(fee_payer(tx))
            mine = [t for t in b["txs"] if payer in names_in(t)]
            if len(mine) != 1 or payer in completing or any("ent.params" in g["body"] for g in b["govs"]):
                continue
            lb = prev.locked.get(payer, (0, ""))[0]; la = d.locked.get(payer, (0, ""))[0]
            sb = prev.spent.get(payer, (0, ""))[0]; sa = d.spent.get(payer, (0, ""))[0]
            fee = coins(tx["hdr"].get("fee", "-")).get(dn, 0)
            want = min(fee, lb)
            if lb - la != want or sa - sb != want:
                yield {"oracle": "unlock-amount", "signature": "not-min(fee,locked)",
                       "detail": "tx %s payer %s: locked %d -> %d, spent %d -> %d, fee %d%s" % (tx["n"], payer, lb, la, sb, sa, fee, dn)}


def split_top_kinds(body):
    return [m[0] for m in split_msgs(body) if m]


def o_c07(tr):
    ever = {"wrk": {}, "bcn": {}}
    for prev, b, d in states(tr):
        for m in ("wrk", "bcn"):
            for k, v in d.recs[m].items():
                if k in ever[m] and ever[m][k] != v:
                    yield {"oracle": "record-immutable", "signature": m, "detail": "%s changed" % (k,)}
                ever[m][k] = v
            if prev is not None:
                for k in prev.recs[m]:
                    if k not in d.recs[m]:
                        # pruned (possibly several within one block): every pruned key is older than every survivor
                        survivors = [h for (i, h) in prev.recs[m] if i == k[0] and (i, h) in d.recs[m]]
                        if survivors and k[1] > min(survivors):
                            yield {"oracle": "prune-oldest", "signature": m, "detail": "%s pruned but %d survives" % (k, min(survivors))}
        for i, r in d.reg["bcn"].items():
            ks = sorted(h for (j, h) in d.recs["bcn"] if j == i)
            if ks and ks != list(range(ks[0], ks[0] + len(ks))):
                yield {"oracle": "bcn-ids-consecutive", "signature": "gap", "detail": "%d %s" % (i, ks)}


def o_c08(tr):
    for prev, b, d in states(tr):
        for m in ("wrk", "bcn"):
            for i, r in d.reg[m].items():
                ks = sorted(h for (j, h) in d.recs[m] if j == i)
                if r["num"] != len(ks):
                    yield {"oracle": "counter-num", "signature": m, "detail": "%d num %d store %d" % (i, r["num"], len(ks))}
                if not ks and (r["lowest"] != 0 or r["num"] != 0):
                    yield {"oracle": "counter-bounds", "signature": m + "/empty", "detail": "%d holds no record but reports num %d lowest %d" % (i, r["num"], r["lowest"])}
                if ks and (r["lowest"] != ks[0] or r["last"] != ks[-1]):
                    yield {"oracle": "counter-bounds", "signature": m, "detail": "%d lowest %d last %d vs %s" % (i, r["lowest"], r["last"], ks[:3])}
                if r["limit"] != "none":
                    lim = int(r["limit"])
                    if len(ks) > lim:
                        yield {"oracle": "retained<=limit", "signature": m, "detail": "%d" % i}
                    if prev is not None and i in prev.reg[m] and prev.reg[m][i]["limit"] != "none":
                        pl = int(prev.reg[m][i]["limit"])
                        if lim < pl:
                            yield {"oracle": "limit-never-lowered", "signature": m, "detail": "%d: %d -> %d" % (i, pl, lim)}
                        # the maximum in force at purchase time is the previous or the new one (gov changes land in END)
                        if lim != pl and lim > max(d.regparams[m]["max"], prev.regparams[m]["max"]):
                            yield {"oracle": "limit<=max", "signature": m, "detail": "%d: %d > %d" % (i, lim, d.regparams[m]["max"])}


def o_purchase_exact(tr):
    """the limit moves upward by exactly the purchased number: over a block, a registration's limit is the one before plus the
    numbers of all storage purchases for it that succeeded in the block (at any nesting depth) - as integers, not modulo 2^64"""
    for prev, b, d in states(tr):
        if prev is None:
            continue
        for m in ("wrk", "bcn"):
            bought = {}
            for tx in b["txs"]:
                if tx["result"] != "ok":
                    continue
                for (mod, op, slots, nested) in module_ops_ids(tx["body"]):
                    if mod == m and op[0] == "buy":
                        bought[op[1]] = bought.get(op[1], 0) + slots
            for i, n in bought.items():
                if i not in prev.reg[m] or i not in d.reg[m]:
                    continue
                pl, nl = prev.reg[m][i]["limit"], d.reg[m][i]["limit"]
                if pl == "none" or nl == "none":
                    continue
                if int(nl) != int(pl) + n:
                    yield {"oracle": "purchase-raises-by-exactly-n", "signature": m, "detail": "%s %d: limit %s -> %s after successful purchases of %d slots" % (m, i, pl, nl, n)}


def module_ops_ids(body):
    """[(module, (op, id), slots, nested)] for every storage purchase the transaction would execute"""
    ops = []

    def walk(t, nested):
        k, args, subs = t
        if k in ("wrk.buy", "bcn.buy") and len(args) >= 2 and args[0].isdigit() and args[1].isdigit():
            ops.append((k[:3], ("buy", int(args[0])), int(args[1]), nested))
        for x in subs:
            walk(x, True)
    for mm in split_msgs(body):
        try:
            t, _ = parse_msg(mm, 0)
        except (KeyError, ValueError, IndexError):
            continue
        walk(t, False)
    return ops


def o_slot_check(tr):
    """mempool admission refuses a transaction whose top-level storage purchases for one registration together exceed what
    can still be purchased for it (maximum in force minus its limit, as committed before the check)"""
    for prev, b, d in states(tr):
        if prev is None:
            continue
        for c in b["checks"]:
            if c["result"] != "ok" or c["hdr"].get("sig", "ok") != "ok":
                continue
            want = {}
            for (mod, op, slots, nested) in module_ops_ids(c["body"]):
                if not nested:
                    want[(mod, op[1])] = want.get((mod, op[1]), 0) + slots
            for (m, i), n in want.items():
                if i not in prev.reg[m] or prev.reg[m][i]["limit"] == "none":
                    continue
                room = max(0, prev.regparams[m]["max"] - int(prev.reg[m][i]["limit"]))
                if n > room:
                    yield {"oracle": "slot-check", "signature": m, "detail": "CHECK %s admitted: purchases of %d slots for %s %d, %d purchasable" % (c["n"], n, m, i, room)}


def addr_norm(tok):
    """one spelling per address: U3 = A3, UMent = Ment"""
    if tok.startswith("U") and len(tok) > 1:
        return ("A" + tok[1:]) if tok[1].isdigit() else tok[1:]
    return tok


def o_whitelist_listing(tr):
    """the whitelist the chain lists (and exports) is the set of addresses that were whitelisted and not removed since - followed
    through the history: the genesis line, then every whitelist message that succeeded, at any nesting depth"""
    wl = None
    for l in tr.script_lines:
        if l.startswith("G ent "):
            m = re.search(r"\bwl=(\S+)", l)
            wl = set() if not m or m.group(1) == "-" else set(addr_norm(x) for x in m.group(1).split(","))
    if wl is None:
        return
    for prev, b, d in states(tr):
        for tx in b["txs"]:
            if tx["result"] != "ok":
                continue
            body = tx["body"]
            for k, w in enumerate(body):
                if w == "ent.wl" and k + 2 < len(body):
                    if body[k + 1] == "1":
                        wl.add(addr_norm(body[k + 2]))
                    elif body[k + 1] == "2":
                        wl.discard(addr_norm(body[k + 2]))
        listed = set(addr_norm(x) for x in d.wl)
        if listed != wl:
            yield {"oracle": "whitelist-listing", "signature": "differs-from-history", "detail": "listed %s, whitelisted by the history %s" % (sorted(listed)[:8], sorted(wl)[:8])}
            return


def o_decide_succeeds(tr):
    """the signer list in force is the one that counts: a decision (accept or reject) on a raised order by an address on the
    stored signer list — however that list spells it — which has not decided that order yet is accepted (single-message
    transaction, valid signature, no fee, the only transaction of its block that touches the order)"""
    for prev, b, d in states(tr):
        if prev is None or not prev.ent_params or prev.ent_params["signers"] in ("-", ""):
            continue
        signers = set(addr_id(x) for x in prev.ent_params["signers"].split(","))
        for tx in b["txs"]:
            if tx["kinds"] != ["ent.decide"] or tx["result"] != "err":
                continue
            h = tx["hdr"]
            if h.get("sig", "ok") != "ok" or h.get("fee", "-") != "-" or h.get("granter", "-") != "-" or h.get("payer", "-") != "-":
                continue
            ms = split_msgs(tx["body"])
            if len(ms) != 1 or len(ms[0]) != 4 or ms[0][0] != "ent.decide" or not re.match(r"^\d+$", ms[0][1]):
                continue
            oid, dec, who = int(ms[0][1]), ms[0][2], addr_id(ms[0][3])
            if dec not in ("2", "3") or who not in signers or h.get("signers", "") != ms[0][3].replace("U", "A", 1) or who not in prev.exists:
                continue
            po = prev.po.get(oid)
            if po is None or po["status"] != 1 or any(addr_id(x[0]) == who for x in po["decisions"]):
                continue
            if oid not in d.po or d.po[oid]["status"] != 1:
                continue   # this block's tally (which runs before the transactions) already closed the order
            if sum(1 for t in b["txs"] if ("ent.decide %d " % oid) in t["line"]) != 1:
                continue
            yield {"oracle": "listed-signer-can-decide", "signature": "refused", "detail": "tx %s: %s is on the stored signer list (%s) and had not decided order %d: refused" % (tx["n"], ms[0][3], prev.ent_params["signers"], oid)}


def o_c08_prune(tr):
    """records are pruned only when the bought limit is exceeded, one per accepted record: over a block in which the limit of
    a registration did not change, number held afterwards = min(number held before + records accepted in the block, limit)"""
    for prev, b, d in states(tr):
        if prev is None:
            continue
        for m in ("wrk", "bcn"):
            for i, r in d.reg[m].items():
                p = prev.reg[m].get(i)
                if p is None or r["limit"] == "none" or p["limit"] != r["limit"] or p["num"] >= 20000:
                    continue
                lim = int(r["limit"])
                acc = 0
                for t in b["txs"]:
                    if t["result"] != "ok":
                        continue
                    toks = t["line"].split()
                    acc += sum(1 for j, w in enumerate(toks[:-1]) if w == m + ".rec" and toks[j + 1] == str(i))
                want = min(p["num"] + acc, max(lim, p["num"]))
                if p["num"] + acc > 20000:
                    continue   # an export/import in between keeps the newest 20,000 only (by design)
                if r["num"] != want:
                    yield {"oracle": "pruned-only-when-full", "signature": m, "detail": "%s %d: held %d, %d record(s) accepted in the block at %d, limit %d: holds %d (want %d)" % (m, i, p["num"], acc, b["time"], lim, r["num"], want)}


def o_owner_canonical(tr):
    """a registration stores its owner as the signer's address in its canonical (lower-case) spelling, however the
    message spelled it: the owner-filtered lists compare that string"""
    for prev, b, d in states(tr):
        for m in ("wrk", "bcn"):
            for i, r in d.reg[m].items():
                if r["owner"].startswith("U"):
                    yield {"oracle": "owner-stored-canonically", "signature": m, "detail": "%s %d is stored with owner %s (the upper-case spelling of %s)" % (m, i, r["owner"], addr_id(r["owner"]))}


def o_c09(tr):
    for prev, b, d in states(tr):
        if prev is None:
            continue
        for m in ("wrk", "bcn"):
            for i, r in prev.reg[m].items():
                if i not in d.reg[m]:
                    yield {"oracle": "registration-vanished", "signature": m, "detail": str(i)}
                else:
                    n = d.reg[m][i]
                    for f in ("owner", "moniker", "name", "regtime") + (("genesis", "type") if m == "wrk" else ()):
                        if n[f] != r[f]:
                            yield {"oracle": "registration-frozen", "signature": m + "." + f, "detail": str(i)}
            new = sorted(set(d.reg[m]) - set(prev.reg[m]))
            # every new registration stores exactly what some successful registration message of this block submitted
            subm = []
            for tx in b["txs"]:
                if tx["result"] != "ok":
                    continue

                def walk(t):
                    k, args, subs = t
                    if k == m + ".reg":  # the owner may be spelled in upper case (same address)
                        subm.append(tuple(args[:-1]) + (addr_id(args[-1]),))
                    for x in subs:
                        walk(x)
                for mm in split_msgs(tx["body"]):
                    try:
                        walk(parse_msg(mm, 0)[0])
                    except (KeyError, ValueError, IndexError):
                        pass
            for i in new:
                n = d.reg[m][i]
                stored = (n["moniker"], n["name"]) + ((n["genesis"], n["type"]) if m == "wrk" else ()) + (addr_id(n["owner"]),)
                if stored not in subm:
                    yield {"oracle": "registration-stores-submitted", "signature": m, "detail": "%s %d stores %s; submitted in this block: %s" % (m, i, list(stored), [list(x) for x in subm][:6])}
            if new and new != list(range(prev.next[m], prev.next[m] + len(new))):
                yield {"oracle": "ids-sequential", "signature": m, "detail": "%s from %d" % (new, prev.next[m])}
            # the identifiers RETURNED to the registrants are the next unused ones, in order of execution (blocks in which a
            # registration ran nested in an authz.exec are skipped: those return no identifier to compare)
            returned, nested = [], False
            for tx in b["txs"]:
                if tx["result"] != "ok":
                    continue
                for k, mm in enumerate(split_msgs(tx["body"])):
                    if mm and mm[0] == m + ".reg":
                        v = tx["fields"].get("%d.id" % k)
                        if v is not None and re.match(r"^\d+$", v):
                            returned.append(int(v))
                    elif mm and mm[0] == "authz.exec" and (m + ".reg") in mm:
                        nested = True
            if returned and not nested and returned != list(range(prev.next[m], prev.next[m] + len(returned))):
                yield {"oracle": "returned-id-is-next-unused", "signature": m, "detail": "returned %s, next unused was %d" % (returned, prev.next[m])}
            if d.next[m] != prev.next[m] + len(new):
                yield {"oracle": "ids-sequential", "signature": m + ".next", "detail": ""}


def o_owner_writes(tr):
    """only the owner records to / purchases storage for a registration — judged with the owners committed before the block
    plus the registrations that succeeded earlier in the same block, at any nesting depth of authz.exec"""
    for prev, b, d in states(tr):
        if prev is None:
            continue
        owners = {m: {i: addr_id(r["owner"]) for i, r in prev.reg[m].items()} for m in ("wrk", "bcn")}
        nxt = dict(prev.next)
        for tx in b["txs"]:
            if tx["result"] != "ok":
                continue
            leaves = []

            def walk(t):
                k, args, subs = t
                if k == "authz.exec":
                    for x in subs:
                        walk(x)
                else:
                    leaves.append((k, args))
            for m in split_msgs(tx["body"]):
                try:
                    walk(parse_msg(m, 0)[0])
                except (KeyError, ValueError, IndexError):
                    pass
            for k, args in leaves:
                mod = k[:3]
                if k in ("wrk.reg", "bcn.reg"):
                    owners[mod][nxt[mod]] = addr_id(args[-1]); nxt[mod] += 1
                elif k in ("wrk.rec", "wrk.buy", "bcn.rec", "bcn.buy"):
                    who = addr_id(args[SIGNER_POS[k]])
                    own = owners[mod].get(int(args[0]))
                    if own is None:
                        yield {"oracle": "owner-only-writes", "signature": k + "/unknown-id", "detail": "tx %s: %s on registration %s which does not exist" % (tx["n"], k, args[0])}
                    elif own != who:
                        yield {"oracle": "owner-only-writes", "signature": k, "detail": "tx %s: %s by %s on registration %s owned by %s" % (tx["n"], k, who, args[0], own)}


def o_c10(tr):
    for prev, b, d in states(tr):
        per = {}
        for k, s in d.streams.items():
            a, dn = s["deposit"]
            if a:
                per[dn] = per.get(dn, 0) + a
        if per != d.bal.get("Mstr", {}):
            yield {"oracle": "escrow=sum-deposits", "signature": "mismatch", "detail": "%s vs %s" % (d.bal.get("Mstr", {}), per)}


def o_c06_plain(tr):
    """the fee oracle without the two structural gaps recorded as known findings of C06 (mixed modules, nested operations):
    for C16 — every fee check after a parameter update uses the new values"""
    for v in o_c06(tr):
        if v.get("signature") not in ("nested", "mixed"):
            yield v


def o_c10_fee(tr):
    """each release pays the fee collector floor(released x validator-fee rate) and the receiver the rest (rate = the one
    committed before the block; parameter changes take effect at the end of a block)"""
    for prev, b, d in states(tr):
        if prev is None:
            continue
        rate = prev.str_fee
        for tx in b["txs"]:
            if tx["result"] != "ok":
                continue
            k = 0
            while ("%d.total" % k) in tx["fields"] or ("%d.pay" % k) in tx["fields"] or k < len(split_msgs(tx["body"])):
                f = tx["fields"]
                if ("%d.total" % k) in f and ("%d.fee" % k) in f and ("%d.pay" % k) in f:
                    total, fee, pay = int(f["%d.total" % k]), int(f["%d.fee" % k]), int(f["%d.pay" % k])
                    want = total * rate // 10**18 if rate > 0 else 0
                    if fee != want or pay != total - fee:
                        yield {"oracle": "fee-split", "signature": "fee!=floor(released*rate)", "detail": "tx %s message %d: released %d at rate %d/10^18: fee %d (want %d), receiver %d" % (tx["n"], k, total, rate, fee, want, pay)}
                k += 1
                if k > 16:
                    break


def o_c11(tr):
    """release never faster than the agreed rate: a claim before zero time pays ≤ rate × whole seconds since funded"""
    for prev, b, d in states(tr):
        if prev is None:
            continue
        for tx in b["txs"]:
            if tx["kinds"] == ["str.claim"] and tx["result"] == "ok":
                r, s = tx["body"][1], tx["body"][2]
                st = prev.streams.get((addr_id(r), addr_id(s)))
                # only when the stream was untouched earlier in this block
                earlier = [t for t in b["txs"] if t is not tx and int(t["n"]) < int(tx["n"]) and addr_id(r) in names_in(t) and addr_id(s) in names_in(t) and any(k.startswith("str.") for k in t["kinds"])]
                if st and not earlier and "0.total" in tx["fields"]:
                    total = int(tx["fields"]["0.total"])
                    now = b["time"]
                    if now < st["zero"]:
                        secs = (now - st["last"]) // 10**9
                        if total > st["rate"] * max(secs, 0):
                            yield {"oracle": "release-rate", "signature": "faster-than-rate", "detail": "paid %d > %d*%d" % (total, st["rate"], secs)}
                        if total != min(st["deposit"][0], st["rate"] * max(secs, 0)):
                            yield {"oracle": "release-amount", "signature": "not-min(deposit,rate*secs)", "detail": "paid %d, deposit %d rate %d secs %d" % (total, st["deposit"][0], st["rate"], secs)}
        for k, s in d.streams.items():
            # solvency: deposit sustains the rate from last release to advertised zero time
            # the theorem's disjunct: an empty stream whose zero time has passed is harmless
            if s["deposit"][0] == 0 and s["zero"] <= b["time"]:
                continue
            if s["zero"] > s["last"] and s["deposit"][0] < s["rate"] * ((s["zero"] - s["last"]) // 10**9):
                yield {"oracle": "solvency", "signature": "deposit<rate*(zero-last)", "detail": "%s deposit %d rate %d last %d zero %d" % (k, s["deposit"][0], s["rate"], s["last"], s["zero"])}


def o_c11_zero(tr):
    """the advertised deposit-zero time of a stream created in this block and not touched since is its funding time plus
    floor(deposit / flow rate) seconds"""
    for prev, b, d in states(tr):
        if prev is None:
            continue
        for k, st in d.streams.items():
            if k in prev.streams:
                continue
            r, sn = k
            touching = [t for t in b["txs"] if r in names_in(t) and sn in names_in(t) and any(x.startswith("str.") for x in t["kinds"])]
            if len(touching) != 1 or touching[0]["kinds"] != ["str.create"] or touching[0]["result"] != "ok":
                continue
            dep, rate = st["deposit"][0], st["rate"]
            if rate <= 0:
                continue
            want = b["time"] + (dep // rate) * 10**9
            if st["zero"] != want or st["last"] != b["time"]:
                yield {"oracle": "deposit-zero-time", "signature": "create", "detail": "stream %s/%s: deposit %d rate %d funded at %d: zero time %d, want %d" % (r, sn, dep, rate, b["time"], st["zero"], want)}


def o_c11_clock(tr):
    """every release restarts the clock: after a block in which a claim or a flow-rate change of a funded stream succeeded,
    the stream (if it is still there) is stored with that block's time as its last-release time (c11_claim_restarts_the_clock,
    c11_rate_change_restarts_the_clock)"""
    for prev, b, d in states(tr):
        if prev is None:
            continue
        for k, st in d.streams.items():
            r, sn = k
            def did(kinds):
                for t in b["txs"]:
                    if t["result"] != "ok":
                        continue
                    toks = [addr_id(x) for x in t["line"].split()]
                    for i, w in enumerate(toks[:-2]):
                        if w in kinds and toks[i + 1] == r and toks[i + 2] == sn:
                            return True
                return False
            if not did(("str.claim", "str.rate")):
                continue
            before = prev.streams.get(k)
            refunded = did(("str.create", "str.topup"))
            if before is not None and before["deposit"][0] <= 0 and not refunded:
                continue   # an unfunded stream: a rate change leaves its clock alone
            if st["last"] != b["time"]:
                yield {"oracle": "release-restarts-clock", "signature": "last!=block-time", "detail": "stream %s/%s released or re-rated in the block at %d, stored last release %d" % (r, sn, b["time"], st["last"])}


def o_c11_rate(tr):
    """a flow-rate change of a funded stream (the only transaction touching it in its block, a single message) recomputes the
    advertised zero time from the settled remainder: block time + floor(remaining deposit / new rate) seconds, to the nanosecond
    (c11_rate_change_restarts_the_clock)"""
    for prev, b, d in states(tr):
        if prev is None:
            continue
        for k, st in d.streams.items():
            before = prev.streams.get(k)
            if before is None or before["deposit"][0] <= 0:
                continue
            r, sn = k
            touching = [t for t in b["txs"] if r in names_in(t) and sn in names_in(t) and any(x.startswith("str.") for x in t["kinds"])]
            if len(touching) != 1 or touching[0]["kinds"] != ["str.rate"] or touching[0]["result"] != "ok":
                continue
            toks = touching[0]["line"].split()
            i = toks.index("str.rate")
            if len(toks) < i + 4 or addr_id(toks[i + 1]) != r or addr_id(toks[i + 2]) != sn or not re.match(r"^\d+$", toks[i + 3]):
                continue
            rate = int(toks[i + 3])
            if rate <= 0 or st["rate"] != rate:
                continue
            want = b["time"] + (st["deposit"][0] // rate) * 10**9
            if st["zero"] != want:
                yield {"oracle": "rate-change-recomputes-zero-time", "signature": "zero", "detail": "stream %s/%s re-rated to %d at %d with %d left: zero time %d, want %d" % (r, sn, rate, b["time"], st["deposit"][0], st["zero"], want)}


def o_c11_topup(tr):
    """a top-up of a running stream (the only transaction touching it in its block, a single message) extends the advertised
    zero time by floor(top-up / flow rate) seconds, adds exactly the top-up to the deposit and leaves the last-release time
    alone (c11_topup_extends_zero_time)"""
    for prev, b, d in states(tr):
        if prev is None:
            continue
        for k, st in d.streams.items():
            before = prev.streams.get(k)
            if before is None or before["zero"] <= b["time"] or before["rate"] <= 0:
                continue
            r, sn = k
            touching = [t for t in b["txs"] if r in names_in(t) and sn in names_in(t) and any(x.startswith("str.") for x in t["kinds"])]
            if len(touching) != 1 or touching[0]["kinds"] != ["str.topup"] or touching[0]["result"] != "ok":
                continue
            m = split_msgs(touching[0]["body"]) if "body" in touching[0] else None
            toks = touching[0]["line"].split()
            i = toks.index("str.topup")
            if len(toks) < i + 5 or addr_id(toks[i + 1]) != r or addr_id(toks[i + 2]) != sn or not re.match(r"^\d+$", toks[i + 3]):
                continue
            amt = int(toks[i + 3])
            want_zero = before["zero"] + (amt // before["rate"]) * 10**9
            if st["zero"] != want_zero or st["last"] != before["last"] or st["deposit"][0] != before["deposit"][0] + amt:
                yield {"oracle": "top-up-extends-zero-time", "signature": "running", "detail": "stream %s/%s: deposit %d rate %d zero %d last %d, top-up %d at %d: now deposit %d zero %d (want %d) last %d" % (
                    r, sn, before["deposit"][0], before["rate"], before["zero"], before["last"], amt, b["time"], st["deposit"][0], st["zero"], want_zero, st["last"])}


BLOCKED_TOKENS = set(t for m in ("Mbond", "Mdist", "Ment", "Mfee", "Mnbond", "Mstr", "Mxfer") for t in (m, "U" + m))


def o_c12(tr):
    for prev, b, d in states(tr):
        for tx in b["txs"]:
            if tx["result"] == "ok":
                toks = tx["line"].split()
                for i, w in enumerate(toks[:-1]):
                    if w == "str.create" and toks[i + 1] in BLOCKED_TOKENS:
                        yield {"oracle": "stream-to-blocked-receiver", "signature": toks[i + 1][-4:], "detail": "tx %s created a stream to %s, an account the bank never pays: its deposit can never be claimed" % (tx["n"], toks[i + 1])}
            if tx["kinds"] and all(k.startswith("str.") for k in tx["kinds"]) and tx["result"] == "panic":
                yield {"oracle": "stream-op-panics", "signature": ",".join(tx["kinds"]), "detail": tx["line"][:200]}


def o_c12_live(tr):
    """a claim by the receiver and a cancel by the sender of a stream that holds a positive deposit succeed (single-message
    transactions whose stream nobody else touched earlier in the block, valid signature, no fee, no granter)"""
    for prev, b, d in states(tr):
        if prev is None:
            continue
        for tx in b["txs"]:
            if tx["kinds"] not in (["str.claim"], ["str.cancel"]) or len(split_msgs(tx["body"])) != 1 or tx["result"] == "ok":
                continue
            h = tx["hdr"]
            if h.get("sig") != "ok" or h.get("granter", "-") != "-" or h.get("fee", "-") != "-" or h.get("payer", "-") != "-":
                continue
            body = tx["body"]
            if len(body) != 3:
                continue
            r, sn = addr_id(body[1]), addr_id(body[2])
            st = prev.streams.get((r, sn))
            who = r if tx["kinds"] == ["str.claim"] else sn
            if st is None or st["deposit"][0] <= 0 or h.get("signers") != who or not re.match(r"^A\d+$", who) or who not in prev.exists:
                continue
            if tx["kinds"] == ["str.cancel"] and not st.get("cancellable", 1):
                continue
            earlier = [t for t in b["txs"] if t is not tx and int(t["n"]) < int(tx["n"]) and (r in names_in(t) or sn in names_in(t))]
            if earlier:
                continue
            yield {"oracle": "stream-op-succeeds", "signature": tx["kinds"][0], "detail": "tx %s: %s on a stream holding %d fails (%s)" % (tx["n"], tx["kinds"][0], st["deposit"][0], tx["result"])}


def o_failed_batch(tr):
    """a batch that failed leaves nothing behind: in a block whose proposals all failed (or were voted down) and in which no
    transaction carrying a parameter update succeeded, the four modules' parameters are those of the block before"""
    for prev, b, d in states(tr):
        if prev is None or not b["govs"] or not all(g["result"] in ("err", "rejected") for g in b["govs"]):
            continue
        if any(tx["result"] == "ok" and any(k.endswith(".params") for k in tx["kinds"]) for tx in b["txs"]):
            continue
        if (prev.ent_params, prev.regparams, prev.str_fee) != (d.ent_params, d.regparams, d.str_fee):
            yield {"oracle": "failed-batch-changes-nothing", "signature": "params-changed",
                   "detail": "block at %s: every proposal failed (%s) and yet the parameters differ from the block before" % (b["time"], [" ".join(g["body"])[:100] for g in b["govs"]])}


def o_c14(tr):
    yield from o_halt(tr)
    yield from o_failed_batch(tr)


def valid_denom(s):
    return re.match(r"^[a-zA-Z][a-zA-Z0-9/:._-]{2,127}$", s) is not None


def o_c16(tr):
    for prev, b, d in states(tr):
        p = d.ent_params
        sg = p["signers"].split(",") if p["signers"] != "-" else []
        if not valid_denom(p["denom"]) or p["min"] < 1 or p["limit"] < 1 or not sg or any(not re.match(r"^[AUM]", x) for x in sg) or len(sg) < p["min"]:
            yield {"oracle": "ent-params-valid", "signature": "invalid", "detail": str(p)}
        for m in ("wrk", "bcn"):
            q = d.regparams[m]
            if not valid_denom(q["denom"]) or min(q["reg"], q["rec"], q["buy"], q["def"], q["max"]) < 1 or q["def"] > q["max"]:
                yield {"oracle": m + "-params-valid", "signature": "invalid", "detail": str(q)}
        if not (0 <= d.str_fee <= 10**18):
            yield {"oracle": "str-params-valid", "signature": "invalid", "detail": str(d.str_fee)}
        # a proposal is all or nothing: when every proposal of the block failed, no parameter may differ from the block before
        for g in b["govs"]:
            if g.get("vote", "yes") != "yes" and g["result"] == "ok":
                yield {"oracle": "rejected-proposal-not-executed", "signature": g["vote"], "detail": "proposal %s was voted %s and passed: %s" % (g["n"], g["vote"], " ".join(g["body"])[:120])}
        if prev is not None and b["govs"] and all(g["result"] in ("err", "rejected") for g in b["govs"]):
            if (prev.ent_params, prev.regparams, prev.str_fee) != (d.ent_params, d.regparams, d.str_fee):
                yield {"oracle": "failed-proposal-changes-nothing", "signature": "params-changed", "detail": "block at %s: %s" % (b["time"], [" ".join(g["body"])[:120] for g in b["govs"]])}


def split_msgs(body):
    """top-level messages of a TX/CHECK body (`;` separated)"""
    out, cur = [], []
    for w in body:
        if w == ";":
            out.append(cur); cur = []
        else:
            cur.append(w)
    if cur:
        out.append(cur)
    return out


ARITY = {"ent.raise": 3, "ent.decide": 3, "ent.wl": 3, "ent.params": 5, "wrk.reg": 5, "wrk.rec": 8, "wrk.buy": 3, "wrk.params": 7,
         "bcn.reg": 3, "bcn.rec": 4, "bcn.buy": 3, "bcn.params": 7, "str.create": 5, "str.claim": 2, "str.topup": 4, "str.rate": 3,
         "str.cancel": 2, "str.params": 2, "bank.send": 3, "authz.grant": 3, "authz.revoke": 3, "feegrant.grant": 2}


def parse_msg(toks, i):
    """parse one message in prefix form at toks[i]; returns (tree, next index); tree = (kind, args, [payload trees])"""
    k = toks[i]
    if k == "authz.exec":
        n = int(toks[i + 2]); j = i + 3; subs = []
        for _ in range(n):
            t, j = parse_msg(toks, j)
            subs.append(t)
        return (k, toks[i + 1:i + 3], subs), j
    a = ARITY[k]
    return (k, toks[i + 1:i + 1 + a], []), i + 1 + a


def module_ops(body):
    """[(module, op, slots, nested)] for every WRKChain/BEACON operation the transaction would execute"""
    ops = []

    def walk(t, nested):
        k, args, subs = t
        if k in ("wrk.reg", "wrk.rec", "bcn.reg", "bcn.rec"):
            ops.append((k[:3], k[4:], 0, nested))
        elif k in ("wrk.buy", "bcn.buy"):
            ops.append((k[:3], "buy", int(args[1]), nested))
        for x in subs:
            walk(x, True)
    for m in split_msgs(body):
        try:
            t, _ = parse_msg(m, 0)
        except (KeyError, ValueError, IndexError):
            continue
        walk(t, False)
    return ops


def o_c06(tr):
    """independent fee oracle on every admitted CHECK: amount offered in the module's fee denomination = sum over ALL
    WRKChain/BEACON operations (nested ones included) of the parameterised fees in force"""
    prev = tr.genesis
    groups = [(b["checks"], None) for b in tr.blocks] + [(getattr(tr, "trailing_checks", []), None)]
    digests = [tr.genesis] + [b["digest"] for b in tr.blocks]
    for gi, (checks, _) in enumerate(groups):
        d = digests[gi] if gi < len(digests) else None
        if d is None:
            break
        for c in checks:
            if c["result"] != "ok":
                continue
            ops = module_ops(c["body"])
            if not ops:
                continue
            fee = coins(c["hdr"].get("fee", "-"))
            want = {}
            for (m, op, n, nested) in ops:
                q = d.regparams[m]
                want[q["denom"]] = want.get(q["denom"], 0) + (q[op] * n if op == "buy" else q[op])
            for dn, w in want.items():
                if fee.get(dn, 0) != w:
                    sig = "nested" if any(o[3] for o in ops) else ("mixed" if len(set(o[0] for o in ops)) > 1 else "amount")
                    yield {"oracle": "fee-exact", "signature": sig,
                           "detail": "CHECK %s admitted offering %d%s, operations cost %d: %s" % (c["n"], fee.get(dn, 0), dn, w, " ".join(c["body"])[:160])}
            # ... and the fee payer (the account named as such, also when a fee granter pays in the end) can cover it from
            # spendable plus locked funds. Judged on the committed state: within a block gap CheckTx only ever takes from a payer
            # (fees; an unlock moves locked eFUND into the balance, the sum stays), so a payer who cannot cover there cannot later.
            if any(not o[3] for o in ops):
                p = addr_id(fee_payer(c))
                for (m, op, n, nested) in ops:
                    if nested:
                        continue
                    dn = d.regparams[m]["denom"]
                    have = d.spendable.get(p, {}).get(dn, 0) + (d.locked[p][0] if p in d.locked and d.locked[p][1] == dn else 0)
                    if fee.get(dn, 0) > have:
                        yield {"oracle": "payer-can-cover", "signature": "granter" if c["hdr"].get("granter", "-") != "-" else "plain",
                               "detail": "CHECK %s admitted: payer %s has %d%s spendable+locked, fee %d: %s" % (c["n"], p, have, dn, fee.get(dn, 0), " ".join(c["body"])[:120])}
                        break


SIGNER_POS = {"ent.raise": 0, "ent.decide": 2, "ent.wl": 2, "wrk.reg": 4, "wrk.rec": 7, "wrk.buy": 2, "bcn.reg": 2, "bcn.rec": 3, "bcn.buy": 2,
              "str.create": 1, "str.claim": 0, "str.topup": 1, "str.rate": 1, "str.cancel": 1, "bank.send": 0, "authz.grant": 0,
              "authz.revoke": 0, "authz.exec": 0, "feegrant.grant": 0,
              "ent.params": 0, "wrk.params": 0, "bcn.params": 0, "str.params": 0}


def o_c13(tr):
    """every executed top-level message was signed by the account named in its signer field, and that account is the
    entitled party according to the state committed before the block"""
    for prev, b, d in states(tr):
        if prev is None:
            continue
        ent_signers = set(addr_id(x) for x in (prev.ent_params["signers"].split(",") if prev.ent_params and prev.ent_params["signers"] != "-" else []))
        for tx in b["txs"]:
            if tx["result"] != "ok":
                continue
            signed = set(tx["hdr"].get("signers", "").split(","))
            if tx["hdr"].get("sig", "ok") != "ok":
                yield {"oracle": "signature-verified", "signature": tx["hdr"].get("sig"), "detail": "tx %s executed with an invalid signature (%s)" % (tx["n"], tx["hdr"].get("sig"))}
            leaves = []  # (kind, args, nested?) of every message the transaction executed, at any depth of authz.exec

            def walk(t, nested):
                k, args, subs = t
                if k == "authz.exec":
                    for x in subs:
                        walk(x, True)
                else:
                    leaves.append((k, args, nested))
            for m in split_msgs(tx["body"]):
                try:
                    walk(parse_msg(m, 0)[0], False)
                except (KeyError, ValueError, IndexError):
                    continue
            for k, args, nested in leaves:
                if k not in SIGNER_POS:
                    continue
                who = addr_id(args[SIGNER_POS[k]])
                if not nested and who not in signed:
                    yield {"oracle": "signed-by-named-signer", "signature": k, "detail": "tx %s executed %s naming %s, signed by %s" % (tx["n"], k, who, sorted(signed))}
                if k.endswith(".params") and who != "Mgov":
                    yield {"oracle": "entitled", "signature": "params-authority", "detail": "tx %s executed %s naming %s as the authority" % (tx["n"], k, who)}
                if k in ("ent.decide", "ent.wl") and who not in ent_signers:
                    yield {"oracle": "entitled", "signature": k, "detail": "tx %s: %s is not an authorised enterprise signer" % (tx["n"], who)}
                if k == "ent.raise" and who not in set(prev.wl) and not any("ent.wl" in t["line"] for t in b["txs"]):
                    yield {"oracle": "entitled", "signature": k, "detail": "tx %s: %s is not whitelisted" % (tx["n"], who)}
                if k in ("wrk.rec", "wrk.buy", "bcn.rec", "bcn.buy"):
                    reg = prev.reg[k[:3]].get(int(args[0]))
                    if reg is not None and addr_id(reg["owner"]) != who:
                        yield {"oracle": "entitled", "signature": k, "detail": "tx %s: %s is not the owner (%s) of %s" % (tx["n"], who, reg["owner"], args[0])}
                if k in ("str.topup", "str.rate", "str.cancel", "str.claim"):
                    r, sn = addr_id(args[0]), addr_id(args[1])
                    if (r, sn) not in prev.streams and not any("str.create" in t["line"] for t in b["txs"]):
                        yield {"oracle": "entitled", "signature": k, "detail": "tx %s: no stream %s/%s" % (tx["n"], r, sn)}
        for gv in b["govs"]:
            for m in split_msgs(gv["body"]):
                if gv["result"] == "ok" and m and m[0].endswith(".params") and len(m) > 1 and m[1] != "Mgov":
                    yield {"oracle": "entitled", "signature": "params-authority", "detail": " ".join(m[:3])}


def kvtoks(toks):
    return dict(x.split("=", 1) for x in toks if "=" in x)


def digest_at(tr, gap):
    ds = [tr.genesis] + [b["digest"] for b in tr.blocks]
    return ds[gap] if gap < len(ds) else None


def walks(tr):
    """complete key-based paging walks: consecutive QUERY lines of one kind and filter, the first without key and offset,
    each next one carrying the previous answer's next key, the last answering next=-"""
    out = []; cur = None
    for q in tr.queries:
        if q["result"] != "ok" and cur is not None:
            # the request that follows the previous answer's next key is refused: the walk cannot be completed
            a = kvtoks(q["args"])
            filt = tuple(x for x in q["args"] if not x.startswith(("key=", "off=", "lim=", "tot=", "rev=")))
            if (q["kind"], filt, a.get("lim"), a.get("rev"), q["gap"]) == cur["sig"] and a.get("key") == cur["next"] and a.get("off") == "0":
                out.append(dict(cur, error=q["n"]))
        if q["result"] != "ok" or "items" not in kvtoks(q["toks"]):
            cur = None; continue
        a = kvtoks(q["args"]); r = kvtoks(q["toks"])
        filt = tuple(x for x in q["args"] if not x.startswith(("key=", "off=", "lim=", "tot=", "rev=")))
        sig = (q["kind"], filt, a.get("lim"), a.get("rev"), q["gap"])
        items = [] if r["items"] == "-" else r["items"].split(",")
        if a.get("key") == "-" and a.get("off") == "0":
            cur = {"sig": sig, "items": list(items), "next": r.get("next"), "lim": a.get("lim"), "first": q["n"], "pm": int(r.get("pm", "0"))}
        elif cur is not None and cur["sig"] == sig and a.get("key") == cur["next"] and a.get("off") == "0":
            cur["items"] += items; cur["next"] = r.get("next"); cur["pm"] += int(r.get("pm", "0"))
        else:
            cur = None; continue
        if cur["next"] == "-":
            out.append(cur); cur = None
    return out


def _list_want(d, kind, filt):
    """the matching entries of a list query in store order, from the digest of the same state (None: not judged)"""
    f = kvtoks(filt)
    if kind == "ent.pos":
        st = f.get("status", "-"); pu = f.get("purchaser", "-")
        return [str(i) for i in sorted(d.po) if (st in ("-", "0") or str(d.po[i]["status"]) == st) and (pu == "-" or addr_id(d.po[i]["purchaser"]) == addr_id(pu))]
    if kind in ("wrk.chains", "bcn.beacons"):
        m = kind[:3]; mo = f.get("moniker", "-"); ow = f.get("owner", "-")
        return [str(i) for i in sorted(d.reg[m]) if (mo == "-" or d.reg[m][i]["moniker"] == mo) and (ow == "-" or d.reg[m][i]["owner"] == ow)]
    if kind == "str.streams":
        return sorted("%s/%s" % k for k in d.streams)
    if kind == "str.bysender" and filt:
        return sorted("%s/%s" % k for k in d.streams if k[1] == addr_id(filt[0]))
    if kind == "str.byreceiver" and filt:
        return sorted("%s/%s" % k for k in d.streams if k[0] == addr_id(filt[0]))
    return None


def o_c20(tr):
    """list queries are complete, duplicate-free and consistent with point queries (judged against the digest of the same state)"""
    for q in tr.queries:
        r = kvtoks(q["toks"])
        if q["result"] == "ok" and r.get("pm", "0") != "0":
            yield {"oracle": "item=point-query", "signature": q["kind"], "detail": "QUERY %s: %s listed items differ from their point queries" % (q["n"], r["pm"])}
    # a first page (no key) with well-formed filters is never refused, whatever the limit and offset
    for q in tr.queries:
        if q["result"] == "ok" or q["kind"] not in ("ent.pos", "wrk.chains", "bcn.beacons", "str.streams", "str.bysender", "str.byreceiver"):
            continue
        a = kvtoks(q["args"])
        if a.get("key") != "-" or not re.match(r"^\d+$", a.get("off", "")) or not re.match(r"^\d+$", a.get("lim", "")):
            continue
        filt = [x for x in q["args"] if not x.startswith(("key=", "off=", "lim=", "tot=", "rev="))]
        vals = [x.split("=", 1)[1] if "=" in x else x for x in filt]
        if any(not (v == "-" or re.match(r"^([AUL]\d+|U?M[a-z]+|\d+|[A-Za-z0-9~^]+)$", v)) or v == "X" or v.startswith("S") for v in vals):
            continue
        if q["kind"] in ("str.bysender", "str.byreceiver") and (not vals or not re.match(r"^([AUL]\d+|U?M[a-z]+)$", vals[0])):
            continue
        if q["kind"] in ("wrk.chains", "bcn.beacons") and any(x.startswith("owner=") and not re.match(r"^owner=(-|[AUL]\d+|U?M[a-z]+)$", x) for x in filt):
            continue
        if q["kind"] == "ent.pos" and any(x.startswith("purchaser=") and not re.match(r"^purchaser=(-|[AUL]\d+|U?M[a-z]+)$", x) for x in filt):
            continue
        yield {"oracle": "first-page-refused", "signature": q["kind"], "detail": "QUERY %s %s %s answers with an error" % (q["n"], q["kind"], " ".join(q["args"]))}
    # offset pages: the page at offset o with limit L is exactly the matching entries number o .. o+L-1 (id-ordered lists)
    for q in tr.queries:
        if q["result"] != "ok" or q["kind"] not in ("ent.pos", "wrk.chains", "bcn.beacons"):
            continue
        a = kvtoks(q["args"]); r = kvtoks(q["toks"])
        if "items" not in r or a.get("key") != "-" or not re.match(r"^\d+$", a.get("off", "")) or not re.match(r"^\d+$", a.get("lim", "")):
            continue
        d = digest_at(tr, q["gap"])
        if d is None:
            continue
        filt = tuple(x for x in q["args"] if not x.startswith(("key=", "off=", "lim=", "tot=", "rev=")))
        want = _list_want(d, q["kind"], filt)
        if want is None:
            continue
        if a.get("rev") == "1":
            want = want[::-1]
        off = int(a["off"]); lim = int(a["lim"]) or 100
        if off + lim + 1 >= 1 << 64:   # the SDK's `end + 1` wraps (query.MaxLimit): the first page may be cut short, see C20.lean
            continue
        got = [] if r["items"] == "-" else r["items"].split(",")
        if got != want[off:off + lim]:
            yield {"oracle": "pages-partition", "signature": q["kind"] + "/offset-page", "detail": "QUERY %s %s: got %s, matching entries %s" % (q["n"], " ".join(q["args"]), got[:12], want[:20])}
        elif (a.get("tot") == "1" or int(a["lim"]) == 0) and r.get("total", "").isdigit() and int(r["total"]) != len(want):
            yield {"oracle": "pages-partition", "signature": q["kind"] + "/total", "detail": "QUERY %s %s: total %s, matching entries %d" % (q["n"], " ".join(q["args"]), r["total"], len(want))}
    for w in walks(tr):
        kind, filt, lim, rev, gap = w["sig"]
        if w.get("error"):
            sig = "reverse-max-limit" if (rev == "1" and lim == str((1 << 64) - 1)) else kind
            yield {"oracle": "walk-ends-in-error", "signature": sig, "detail": "walk from QUERY %s (%s lim=%s rev=%s): the request carrying next key %s is refused (QUERY %s); items so far %s" % (w["first"], kind, lim, rev, w["next"], w["error"], w["items"][:8])}
            continue
        if lim in ("0",) or rev == "1" and False:
            continue
        d = digest_at(tr, gap)
        if d is None:
            continue
        want = _list_want(d, kind, filt)
        if want is None:
            continue
        got = w["items"]
        if len(set(got)) != len(got):
            yield {"oracle": "pages-partition", "signature": kind + "/duplicate", "detail": "walk from QUERY %s: %s" % (w["first"], got)}
        elif sorted(got) != sorted(want) or (kind in ("ent.pos", "wrk.chains", "bcn.beacons") and got != (want if rev != "1" else want[::-1])):
            yield {"oracle": "pages-partition", "signature": kind + "/incomplete-or-extra", "detail": "walk from QUERY %s lim=%s: got %s want %s" % (w["first"], lim, got[:12], want[:12])}


def o_page_progress(tr):
    """following next_key makes progress: a page requested with a key never answers that same key as the next one, and a
    continuation page does not start with the item the page before started with"""
    prevq = None
    for q in tr.queries:
        r = kvtoks(q["toks"]); a = kvtoks(q["args"])
        if q["result"] != "ok" or "next" not in r:
            prevq = None
            continue
        key = a.get("key", "-")
        if key != "-" and r["next"] == key:
            yield {"oracle": "paging-makes-progress", "signature": q["kind"] + "/same-next-key", "detail": "QUERY %s %s answers next=%s" % (q["n"], " ".join(q["args"]), r["next"])}
        items = r.get("items", r.get("coins", "-"))
        if prevq is not None and key != "-" and key == prevq[1] and prevq[0] == q["kind"] and items != "-" and items.split(",")[0] == prevq[2]:
            yield {"oracle": "paging-makes-progress", "signature": q["kind"] + "/page-repeated", "detail": "QUERY %s %s starts with %s again" % (q["n"], " ".join(q["args"]), prevq[2])}
        prevq = (q["kind"], r["next"], items.split(",")[0] if items != "-" else None)


def o_c17(tr):
    """supply figures served by the enterprise queries = bank supply - locked eFUND for the enterprise denomination, unchanged otherwise"""
    by_gap = {}
    for q in tr.queries:
        if q["result"] == "ok":
            by_gap.setdefault(q["gap"], []).append(q)
    for gap, qs in by_gap.items():
        d = digest_at(tr, gap)
        if d is None or not d.ent_params:
            continue
        dn = d.ent_params["denom"]; locked = d.total_locked[0] if d.total_locked[1] == dn else None
        bank = dict(d.supply)
        # the circulating-supply figures are served whenever they exist: books in the parameter denomination, locked <= supply
        for q in tr.queries:
            if q["gap"] != gap or q["result"] == "ok" or locked is None or not (0 <= locked <= bank.get(dn, 0)):
                continue
            if q["kind"] in ("ent.totalunlocked", "ent.totallocked") or (q["kind"] == "ent.supplyof" and q["args"] and valid_denom(q["args"][0])):
                yield {"oracle": "supply-figure-served", "signature": q["kind"], "detail": "QUERY %s %s %s answers with an error (supply %d, locked %d)" % (q["n"], q["kind"], " ".join(q["args"]), bank.get(dn, 0), locked)}
        for q in qs:
            if q["kind"] == "ent.supplyof" and q["toks"]:
                a, den = coin(q["toks"][0])
                asked = q["args"][0]
                want = bank.get(asked, 0) - (locked if asked == dn and locked is not None else 0)
                # the figure served is the one of the denomination asked for, spelled as asked (denominations are case sensitive)
                if den != asked or a != want:
                    yield {"oracle": "supply-of", "signature": "native" if asked == dn else "other", "detail": "QUERY %s: asked %s, served %d%s, bank %d locked %s" % (q["n"], asked, a, den, bank.get(asked, 0), locked)}
            if q["kind"] == "ent.totalunlocked" and q["toks"] and locked is not None:
                a, den = coin(q["toks"][0])
                if a != bank.get(dn, 0) - locked or a + locked != bank.get(dn, 0):
                    yield {"oracle": "locked+unlocked=total", "signature": "totalunlocked", "detail": "QUERY %s: unlocked %d locked %d supply %d" % (q["n"], a, locked, bank.get(dn, 0))}
            if q["kind"] == "ent.entsupply" and len(q["toks"]) == 4 and locked is not None:
                den, lk, am, tot = q["toks"][0], int(q["toks"][1]), int(q["toks"][2]), int(q["toks"][3])
                if lk != locked or am + lk != tot or tot != bank.get(dn, 0) or lk < 0:
                    yield {"oracle": "locked+unlocked=total", "signature": "entsupply", "detail": "QUERY %s: %s" % (q["n"], q["toks"])}
            if q["kind"] == "ent.totalsupply":
                r = kvtoks(q["toks"])
                cs = [] if r.get("coins", "-") == "-" else [coin(x) for x in r["coins"].split(",")]
                dens = [c[1] for c in cs]
                if len(set(dens)) != len(dens) or any(c[0] < 0 for c in cs):
                    yield {"oracle": "total-supply-page", "signature": "duplicate-or-negative", "detail": "QUERY %s: %s" % (q["n"], r.get("coins"))}
                for (a, den) in cs:
                    want = bank.get(den, 0) - (locked if den == dn and locked is not None else 0)
                    if a != want:
                        yield {"oracle": "total-supply-page", "signature": "native" if den == dn else "other", "detail": "QUERY %s: %s listed %d, want %d" % (q["n"], den, a, want)}


def _ent_denom_changed(digest):
    """the enterprise books (total locked / spent, non-zero) are in another denomination than the current parameter"""
    pd = None; books = []
    for l in digest:
        t = l.split()
        if t[:2] == ["D", "ent.params"] and len(t) > 2:
            pd = t[2]
        elif t[:2] == ["D", "ent.total"]:
            for c in t[2:4]:
                m = re.match(r"^(\d+)(.+)$", c)
                if m and int(m.group(1)) > 0:
                    books.append(m.group(2))
    return pd is not None and any(b != pd for b in books)


EXPORT_CAP = 20000


def _cut_to_export_cap(digest):
    """what the property promises after an import: per registration the newest 20,000 records, the two counters
    (number in state, lowest / first in state) recomputed from them; everything else unchanged"""
    keep = {}
    for mod, tag in (("wrk", "D wrk.block"), ("bcn", "D bcn.ts")):
        per = {}
        for l in digest:
            if l.startswith(tag + " "):
                t = l.split()
                per.setdefault(t[2], []).append(int(t[3]))
        for i, ks in per.items():
            if len(ks) > EXPORT_CAP:
                keep[(mod, i)] = set(sorted(ks)[-EXPORT_CAP:])
    if not keep:
        return digest
    out = []
    for l in digest:
        t = l.split()
        if t[:2] == ["D", "wrk.block"] and ("wrk", t[2]) in keep and int(t[3]) not in keep[("wrk", t[2])]:
            continue
        if t[:2] == ["D", "bcn.ts"] and ("bcn", t[2]) in keep and int(t[3]) not in keep[("bcn", t[2])]:
            continue
        if t[:2] == ["D", "wrk.chain"] and ("wrk", t[2]) in keep:
            k = keep[("wrk", t[2])]; t[10] = str(len(k)); t[11] = str(min(k)); l = " ".join(t)   # … last num lowest limit
        if t[:2] == ["D", "bcn.beacon"] and ("bcn", t[2]) in keep:
            k = keep[("bcn", t[2])]; t[8] = str(min(k)); t[9] = str(len(k)); l = " ".join(t)      # … last first num limit
        out.append(l)
    return out


def o_c15(tr):
    """export -> InitChain on a fresh app: succeeds, no invariant broken, same observable state, identical second export"""
    il = tr.impl_lines
    last_digest = []; cur = []; collecting = False
    i = 0
    while i < len(il):
        l = il[i]
        if l.startswith(("I ", "K ", "Z ")):
            cur = []; collecting = True
        elif l.startswith("D ") and collecting:
            if l.startswith("D ent.params ") and cur:   # a digest printed again (`DIGEST` line): it replaces, not extends
                cur = []
            cur.append(l)
        elif l.startswith("X "):
            before = list(cur)
            if l.startswith("X panic"):
                why = il[i + 1] if i + 1 < len(il) and il[i + 1].startswith("x panic") else ""
                if "expected_module_account" in why:
                    cls = "gov-balance"
                elif "invalid_coin_denominations" in why and _ent_denom_changed(before):
                    cls = "denom-change"
                elif "invariant_broken" in why:
                    cls = "invariant-" + (re.findall(r"invariant_broken:_([a-z]+)", why) or ["?"])[0]
                else:
                    cls = re.sub(r"[^A-Za-z_]+", "", why.replace("x panic ", ""))[:40] or "unknown"
                yield {"oracle": "import-succeeds", "signature": cls, "detail": why[:200]}
            elif l.startswith("X ok"):
                k = int(l.split("inv=")[1]) if "inv=" in l else 0
                if k:
                    yield {"oracle": "import-invariants", "signature": "broken", "detail": l}
                after = []
                j = i + 1
                while j < len(il) and not il[j].startswith("X2"):
                    if il[j].startswith("D "):
                        after.append(il[j])
                    j += 1
                before = _cut_to_export_cap(before)
                if before and after and before != after:
                    d = [(x, y) for x, y in zip(before, after) if x != y][:2]
                    yield {"oracle": "import-same-state", "signature": (d[0][0].split()[1] if d else "length"), "detail": str(d)[:300]}
                if j < len(il) and il[j].startswith("X2 diff"):
                    yield {"oracle": "re-export-identical", "signature": il[j].split(" ", 2)[2] if len(il[j].split(" ", 2)) > 2 else "", "detail": il[j]}
                cur = after; collecting = False
        elif not l.startswith(("D ", "x ", "q ", "r ", "c ", "p ", "b ")) and not l.startswith("X2"):
            collecting = collecting and l.startswith(("I ", "K ", "Z "))
        i += 1


def o_import_same(tr):
    """the part of the export/import oracle that concerns identifiers, owners and counters: a successful import leaves the
    observable state (digest) as it was"""
    for v in o_c15(tr):
        if v["oracle"] in ("import-same-state", "re-export-identical"):
            yield v


def o_import_inv(mod):
    """the chain's own export breaks a registered invariant of `mod` when a fresh node is started from it (the node with the
    crisis assertion panics at InitChain, the one without reports the broken invariant): the books of that module were not
    what the export says"""
    def f(tr):
        for v in o_c15(tr):
            if (v["oracle"] == "import-succeeds" and v["signature"] == "invariant-" + mod) or (v["oracle"] == "import-invariants" and mod in v["detail"]):
                yield v
    return f


def o_c18(tr):
    """a listing never aliases one entity with another: every listed order, registration and stream equals its point read
    (the harness prints a `D <module>.alias` line when the keeper's listing and the point read of the same entity differ)"""
    for l in tr.impl_lines:
        t = l.split()
        if len(t) >= 2 and t[0] == "D" and t[1].endswith(".alias"):
            yield {"oracle": "listing=point-read", "signature": t[1], "detail": l}


def o_invariants(tr):
    for l in tr.soft:
        if l.startswith("x inv") and l.endswith("broken"):
            yield {"oracle": "registered-invariant", "signature": l.split()[2], "detail": l}


def o_record_as_submitted(tr):
    """what an accepted submission stored is what was submitted: after a transaction that succeeded, the WRKChain block record
    at (id, height) resp. the BEACON timestamp at (id, returned timestamp id) - when still held at the end of the block -
    carries exactly the submitted hashes (and the submitted time when one was given)"""
    for prev, b, d in states(tr):
        for tx in b["txs"]:
            if tx["result"] != "ok":
                continue
            for k, m in enumerate(split_msgs(tx["body"])):
                if not m:
                    continue
                if m[0] == "wrk.rec" and len(m) == 9 and re.match(r"^\d+$", m[1]) and re.match(r"^\d+$", m[2]):
                    held = d.recs["wrk"].get((int(m[1]), int(m[2])))
                    if held is not None and tuple(held[:5]) != tuple(m[3:8]):
                        yield {"oracle": "record-as-submitted", "signature": "wrk", "detail": "tx %s stored %s for the submitted %s" % (tx["n"], list(held[:5]), m[3:8])}
                elif m[0] == "bcn.rec" and len(m) == 5 and re.match(r"^\d+$", m[1]):
                    ts = tx["fields"].get("%d.tsid" % k)
                    if ts is None or not re.match(r"^\d+$", ts):
                        continue
                    held = d.recs["bcn"].get((int(m[1]), int(ts)))
                    if held is None:
                        continue
                    if held[0] != m[2] or (m[3] != "0" and len(held) > 1 and held[1] != m[3]):
                        yield {"oracle": "record-as-submitted", "signature": "bcn", "detail": "tx %s stored %s for the submitted %s" % (tx["n"], list(held), m[2:4])}


def o_record_query(tr):
    """every record held in state (as the digest of the same height lists it) is what the point query returns for it, and a
    record that is not held is not found"""
    for q in tr.queries:
        if q["kind"] not in ("wrk.block", "bcn.ts") or len(q["args"]) != 2 or not all(re.match(r"^\d+$", a) for a in q["args"]):
            continue
        d = digest_at(tr, q["gap"])
        if d is None:
            continue
        m = q["kind"][:3]
        key = (int(q["args"][0]), int(q["args"][1]))
        held = d.recs[m].get(key)
        if held is not None and (q["result"] != "ok" or tuple(q["toks"][2:]) != tuple(held)):
            yield {"oracle": "record-query", "signature": m + "/held-not-returned", "detail": "QUERY %s %s %s: state holds %s, answer %s %s" % (q["n"], q["kind"], " ".join(q["args"]), list(held)[:3], q["result"], q["toks"][:5])}
        if held is None and q["result"] == "ok":
            yield {"oracle": "record-query", "signature": m + "/returned-not-held", "detail": "QUERY %s %s %s: answer %s, state holds no such record" % (q["n"], q["kind"], " ".join(q["args"]), q["toks"][:5])}


ORACLES = {
    "C02": [o_c02, o_invariants, o_c03], "C03": [o_c03, o_c13], "C04": [o_c04, o_invariants, o_import_inv("enterprise")], "C05": [o_c05, o_c05_granter, o_c05_amount, o_slot_check], "C07": [o_c07, o_c08, o_c08_prune, o_record_query, o_record_as_submitted, o_import_same], "C08": [o_c08, o_c08_prune, o_purchase_exact, o_record_query, o_import_same],
    "C09": [o_c09, o_owner_writes, o_import_same, o_owner_canonical], "C10": [o_c10, o_c10_fee, o_invariants, o_import_inv("stream")], "C11": [o_c11, o_c11_zero, o_c11_clock, o_c11_topup, o_c11_rate], "C12": [o_c12, o_c12_live, o_c11_topup, o_c16], "C14": [o_c14], "C16": [o_c16, o_c03, o_c06_plain, o_c08, o_decide_succeeds, o_c10_fee], "C18": [o_c18, o_c09, o_c15, o_c20, o_page_progress, o_c08, o_c08_prune, o_untouched_order],
    "C13": [o_c13, o_owner_writes, o_import_same, o_c18], "C17": [o_c17, o_page_progress, o_c04, o_import_inv("enterprise")], "C20": [o_c20, o_page_progress, o_whitelist_listing], "C15": [o_c15, o_invariants], "C06": [o_c06, o_slot_check], "C01": [],
}


def run_oracles(pid, tr):
    out = []
    for f in ORACLES.get(pid, []):
        for v in f(tr):
            out.append(v)
            if len(out) > 20:
                return out
    return out


# ------------------------------------------------------------------------------------------------
# pure engine oracles (exact arithmetic, independent of the Lean model)

def pure_case_key(q, ans):
    t = q.split()
    cls = ans.split()[0] if ans.split() and ans.split()[0] in ("panic", "err", "ok") else "val"
    return ("pure", " ".join(t[:2]) if t and t[0] in ("key", "parse") else (t[0] if t else ""), cls)


def run_pure_oracles(pid, q, ans):
    t = q.split()
    out = []
    if pid in ("C13", "C09") and len(t) == 5 and t[0] == "ownermsg":
        want = "1" if (t[3][0] in "AU" and t[3][1:].isdigit() and t[4] == "A" + t[3][1:]) else "0"
        if ans != want:
            out.append({"oracle": "owner-gate", "signature": "msg/%s/%s/%s" % (t[1], t[2], t[3][0] if t[3] not in ("none", "-") else t[3]),
                        "detail": "%s %s message signed by %s on a registration with stored owner %s: %s, must be %s" % (t[1], t[2], t[4], t[3], "took effect" if ans == "1" else ans, "refused" if want == "0" else "accepted"), "request": q})
    if pid in ("C13", "C09") and len(t) == 4 and t[0] == "ownergate":
        # only the account the stored owner string decodes to passes the gate (A<i>/U<i>: the canonical resp. upper-case spelling)
        want = "1" if (t[2][0] in "AU" and t[2][1:].isdigit() and t[3] == "A" + t[2][1:]) else "0"
        if ans != want:
            out.append({"oracle": "owner-gate", "signature": "%s/%s" % (t[1], t[2][0] if t[2] not in ("none", "-") else t[2]),
                        "detail": "IsAuthorisedToRecord(%s registration with stored owner %s, recorder %s) = %s, must be %s" % (t[1], t[2], t[3], ans, want), "request": q})
    if pid == "C19" and t and t[0] == "conv" and len(t) == 4:
        amt, src, dst = t[1], t[2], t[3]
        if re.match(r"^\d+(\.\d{1,9})?$", amt) and src != dst:
            if src == "fund" and dst == "nund":
                want = str(int(Fraction(amt) * 10**9)) + "nund"
                if ans != want:
                    out.append({"oracle": "conversion-exact", "signature": "fund->nund", "detail": "%s gives %s, exact %s" % (amt, ans, want), "request": q})
            if src == "nund" and dst == "fund" and "." not in amt:
                n = int(amt)
                want = "%d.%09dfund" % (n // 10**9, n % 10**9)
                if ans != want:
                    out.append({"oracle": "conversion-exact", "signature": "nund->fund", "detail": "%s gives %s, exact %s" % (amt, ans, want), "request": q})
    if pid == "C18" and len(t) == 3 and t[:2] == ["parse", "str.stream"] and re.match(r"^([0-9a-f]{2})+$", t[2]):
        # a well-formed stream key (prefix, length-prefixed receiver, length-prefixed sender, nothing after) must be
        # reported with exactly the receiver and sender it was built from
        b = bytes.fromhex(t[2])
        if len(b) >= 4 and b[0] == 0x11 and b[1] >= 1 and len(b) > 2 + b[1]:
            rl = b[1]; sl = b[2 + rl]
            if sl >= 1 and len(b) == 3 + rl + sl:
                want = b[2:2 + rl].hex() + " " + b[3 + rl:].hex()
                if ans != want:
                    out.append({"oracle": "stream-key-round-trip", "signature": "parse", "detail": "key %s built from receiver/sender %s is reported as %s" % (t[2], want, ans), "request": q})
    if pid == "C18" and len(t) == 4 and t[:2] == ["key", "str.stream"] and all(re.match(r"^([0-9a-f]{2})+$", x) for x in t[2:]):
        r, sn = bytes.fromhex(t[2]), bytes.fromhex(t[3])
        if 1 <= len(r) <= 255 and 1 <= len(sn) <= 255:
            want = (bytes([0x11, len(r)]) + r + bytes([len(sn)]) + sn).hex()
            if ans != want:
                out.append({"oracle": "stream-key-layout", "signature": "key", "detail": "key of %s/%s is %s, layout says %s" % (t[2], t[3], ans, want), "request": q})
    if pid in ("C16", "C12") and ans == "ok" and t:
        # independent statement of the validity rules: a parameter structure the real Validate() accepts must satisfy them
        DEN = r"^[a-zA-Z][a-zA-Z0-9/:._-]{2,127}$"
        why = None
        if t[0] == "entparams" and len(t) == 5:
            ents = [] if t[4] == "-" else t[4].split(",")
            if not re.match(DEN, t[1]): why = "denomination %r" % t[1]
            elif int(t[2]) < 1: why = "min accepts 0"
            elif int(t[3]) < 1: why = "decision limit 0"
            elif not ents or any(not re.match(r"^[AU]\d+$", e) for e in ents): why = "malformed signer entry in %r" % t[4]
            elif len(ents) < int(t[2]): why = "fewer signers than min accepts"
        elif t[0] == "regparams" and len(t) == 8:
            u = [int(x) for x in t[3:8]]
            if not re.match(DEN, t[2]): why = "denomination %r" % t[2]
            elif min(u) < 1: why = "zero fee or limit"
            elif u[3] > u[4]: why = "default limit above maximum"
        elif t[0] == "strparams" and len(t) == 2:
            if not (0 <= int(t[1]) <= 10**18): why = "validator fee outside [0,1]"
        if why:
            out.append({"oracle": "params-valid", "signature": t[0], "detail": "Validate() accepts invalid parameters (%s): %s" % (why, q), "request": q})
    if pid in ("C12", "C11") and len(t) == 6 and t[0] == "claim":
        dep, rate = int(t[4]), int(t[5])
        if rate >= 1 and 0 <= dep < (1 << 255):
            if ans == "panic":
                if pid == "C12":
                    out.append({"oracle": "arithmetic-panic", "signature": "claim", "detail": "the amount to claim cannot be computed for a stream with positive rate: " + q, "request": q})
            else:
                a = ans.split()
                if len(a) == 2 and re.match(r"^-?\d+$", a[0]) and re.match(r"^-?\d+$", a[1]):
                    c, r = int(a[0]), int(a[1])
                    if not (0 <= c <= dep and c + r == dep):
                        out.append({"oracle": "claim-conserves-deposit", "signature": "claim", "detail": "claim %d + remaining %d of deposit %d: %s" % (c, r, dep, q), "request": q})
    if pid == "C18" and len(t) == 3 and t[0] == "key" and t[1] in ("ent.locked", "ent.spent", "ent.wl") and re.match(r"^([0-9a-f]{2})*$", t[2]):
        # an address-keyed enterprise key is the one-byte section prefix followed by the whole address: injective for every length
        a = t[2]
        if re.match(r"^([0-9a-f]{2})+$", ans) and (len(ans) != 2 + len(a) or ans[2:] != a):
            out.append({"oracle": "address-key-layout", "signature": t[1], "detail": "key of address %s is %s: not prefix + address (two addresses with the same leading bytes would share it)" % (a or "(empty)", ans), "request": q})
    if pid in ("C11", "C12") and len(t) == 3 and t[0] == "dur" and re.match(r"^-?\d+$", t[1]) and re.match(r"^-?\d+$", t[2]):
        # floor(deposit / flow rate) whole seconds for positive operands; the code's own ceiling (it answers 2^63-1 when the
        # quotient does not fit 64 bits, which every caller then refuses) is the only other admissible answer
        dep, rate = int(t[1]), int(t[2])
        if dep > 0 and rate > 0:
            want = dep // rate
            want = str(want) if want < (1 << 63) else str((1 << 63) - 1)
            if ans != want:
                out.append({"oracle": "duration-is-floor", "signature": "dur", "detail": "deposit %d at %d per second lasts %s whole seconds, the code says %s" % (dep, rate, want, ans), "request": q})
    if pid == "C12" and t and t[0] in ("valfee", "dur") and ans == "panic":
        if t[0] == "valfee" and 0 <= int(t[1]) <= 10**18 and int(t[2]) < (1 << 255):
            out.append({"oracle": "arithmetic-panic", "signature": "valfee", "detail": q, "request": q})
    return out
