#!/bin/bash
# usage: allseeds_par.sh <workers> [tier] [filter-regex] : regression run of every confirmed seeded change against the check of
# its property, in parallel. Each worker has a scratch COPY of /verif (without .cache) and its own scratch worktree of /repo
# (VERIF_REPO): /repo and /verif themselves are not touched, so this can run next to other work. The copies are removed at the
# end. (Registered checks and committed evidence never come from here: this only answers "is every seed still reported?")
K=${1:-4}; tier=${2:-quick}; filt=${3:-.}
out=/tmp/allseeds_par.$$; mkdir -p $out
ls -d /verif/seeded/*/ | xargs -n1 basename | grep -E "$filt" > $out/all.txt
for k in $(seq 1 $K); do
  rm -rf /tmp/vw$k; mkdir -p /tmp/vw$k
  rsync -a --exclude .cache --exclude .git --exclude replays --exclude seeded /verif/ /tmp/vw$k/
  git -C /repo worktree remove --force /tmp/rw$k >/dev/null 2>&1; git -C /repo worktree prune
  git -C /repo worktree add --detach /tmp/rw$k HEAD >/dev/null 2>&1
  awk -v k=$k -v K=$K 'NR % K == k % K' $out/all.txt > $out/list$k.txt
done
worker() {
  k=$1
  while read id; do
    pid=${id%%-*}
    git -C /tmp/rw$k apply /verif/seeded/$id/patch.diff 2>/dev/null || { echo "$id: patch does not apply"; continue; }
    res=$(cd /tmp/vw$k && VERIF_REPO=/tmp/rw$k ./check $pid $tier 2>/dev/null | grep -v KNOWN-FINDING | tail -1)
    git -C /tmp/rw$k checkout -- . ; git -C /tmp/rw$k clean -fdq
    case "$res" in
      *no-failing-input-found*) echo "$id: reported (no-failing-input-found)";;
      *VIOLATION*) echo "$id: reported with failing input";;
      *) echo "$id: MISSED  [$res]";;
    esac
  done < $out/list$k.txt
}
for k in $(seq 1 $K); do worker $k > $out/res$k.txt 2>&1 & done
wait
cat $out/res*.txt | sort
for k in $(seq 1 $K); do git -C /repo worktree remove --force /tmp/rw$k >/dev/null 2>&1; rm -rf /tmp/vw$k; done
git -C /repo worktree prune; rm -rf $out
