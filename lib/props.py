"""
Property table: which theorems, facts, correspondence engines, trace projections and oracles
serve each claimed property (DESIGN.md §8).
"""

TRUSTED_BASE = [
    "Lean 4.33.0 kernel (thorough tier: re-checked by leanchecker); axioms allowed: propext, Classical.choice, Quot.sound; no sorry/admit/native_decide/bv_decide/own axioms",
    "vfacts (go/packages AST extraction of wiring facts into Gen/Facts.lean, fail-closed)",
    "vharness/vpure (Go, drive the real app / real functions) + mdriver (compiled Lean model) + the trace comparison in /verif/check",
    "hand-written Lean model of the four modules, ante chain, runTx atomicity, bank-lite/vesting/authz/feegrant: modelled, not verified — its agreement with the code is as good as the correspondence runs",
    "outside the model: signature cryptography, gas metering, protobuf/amino, IAVL/DB backends, staking/distribution/slashing/IBC/group internals, CometBFT",
]

Q = "quick"; T = "thorough"


def tags(*prefixes):
    def rel(tag, kinds):
        return any(tag == p or tag.startswith(p) for p in prefixes)
    return rel


def rel_all(tag, kinds):
    return True


def rel_kinds(prefixes, ktest):
    """digest tags by prefix; R/C/RG lines only when the tx contains a relevant message kind"""
    def rel(tag, kinds):
        if tag in ("R", "C", "RG"):
            return any(ktest(k) for k in kinds)
        return any(tag == p or tag.startswith(p) for p in prefixes)
    return rel


STRUCT = ("I", "K", "B", "E")

PROPS = {
    "C19": {
        "pure": [{"kinds": ["conv"], Q: 1500, T: 100000}],
        "level_text": "Proof: the conversion is modelled as exact decimal-string arithmetic (the model's own digit functions); theorems c19_fund_to_nund_exact, c19_nund_to_fund_exact, c19_roundtrip_* hold for every numeral of any length; the real ConvertUndDenomination is compared with the model on boundary-heavy generated numerals every run and with an independent exact-rational oracle.",
        "level_note": "Theorems are about the model; the tie to types/denom.go is differential (vpure conv). Inputs outside plain decimal numerals (signs, exponents, fractions) are outside the statement and skipped by the model. big.Rat is trusted.",
        "assumptions": ["input is a plain decimal numeral digits[.digits]; nund inputs are integers"],
    },
    "C18": {
        "level_text": "Proof: key builders and the stream key parser are modelled over byte lists; injectivity, section/scan disjointness, big-endian order = numeric order and the stream-key round trip are proved for all 64-bit ids and all address lengths 1..255; section prefixes are regenerated from keys.go on every run; the real builders/parsers are compared with the model on boundary-exhaustive and random inputs.",
        "level_note": "Theorems are about the model of the codecs; the tie is differential (vpure key/parse) plus regenerated prefixes. Store iteration order (ascending bytes) is the IAVL/cachekv contract and is assumed.",
        "pure": [{"kinds": ["key", "parse"], Q: 300, T: 20000}],
        "assumptions": ["addresses are 1..255 bytes (the SDK rejects longer ones in MustLengthPrefix: proved as c18_stream_key_rejects_long)",
                        "store iteration is ascending byte order of keys (IAVL/cachekv contract, outside the model)"],
    },
}
