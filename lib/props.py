"""
Property table: which theorems, facts, correspondence engines, trace projections and oracles
serve each claimed property (DESIGN.md §8).
"""

TRUSTED_BASE = [
    "Lean 4.33.0 kernel (thorough tier: re-checked by leanchecker); axioms allowed: propext, Classical.choice, Quot.sound; no sorry/admit/native_decide/bv_decide/own axioms",
    "vfacts (go/packages AST extraction of wiring facts into Gen/Facts.lean, fail-closed)",
    "vharness/vpure (Go, drive the real app / real functions) + mdriver (compiled Lean model) + the trace comparison in /verif/check",
    "hand-written Lean model of the four modules, ante chain, runTx atomicity, bank-lite/vesting/authz/feegrant: modelled, not verified — its agreement with the code is as good as the correspondence runs",
    "outside the model: signature cryptography, gas metering, protobuf/amino, IAVL/DB backends, staking/distribution/slashing/IBC/group internals, CometBFT",
]

Q = "quick"; T = "thorough"


def tags(*prefixes):
    def rel(tag, kinds):
        return any(tag == p or tag.startswith(p) for p in prefixes)
    return rel


def rel_all(tag, kinds):
    return True


def rel_kinds(prefixes, ktest):
    """digest tags by prefix; R/C/RG lines only when the tx contains a relevant message kind"""
    def rel(tag, kinds):
        if tag in ("R", "C", "RG"):
            return any(ktest(k) for k in kinds)
        return any(tag == p or tag.startswith(p) for p in prefixes)
    return rel


STRUCT = ("I", "K", "B", "E")

PROPS = {
    "C18": {
        "pure": [{"kinds": ["key", "parse"], Q: 300, T: 20000}],
        "assumptions": ["addresses are 1..255 bytes (the SDK rejects longer ones in MustLengthPrefix: proved as c18_stream_key_rejects_long)",
                        "store iteration is ascending byte order of keys (IAVL/cachekv contract, outside the model)"],
    },
}
