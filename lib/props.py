"""
Property table: which theorems, facts, correspondence engines, trace projections and oracles
serve each claimed property (DESIGN.md §8).
"""

TRUSTED_BASE = [
    "Lean 4.33.0 kernel (thorough tier: re-checked by leanchecker); axioms allowed: propext, Classical.choice, Quot.sound; no sorry/admit/native_decide/bv_decide/own axioms",
    "vfacts (go/packages AST extraction of wiring facts into Gen/Facts.lean, fail-closed)",
    "vharness/vpure (Go, drive the real app / real functions) + mdriver (compiled Lean model) + the trace comparison in /verif/check",
    "hand-written Lean model of the four modules, ante chain, runTx atomicity, bank-lite/vesting/authz/feegrant: modelled, not verified — its agreement with the code is as good as the correspondence runs",
    "outside the model: signature cryptography, gas metering, protobuf/amino, IAVL/DB backends, staking/distribution/slashing/IBC/group internals, CometBFT",
]

Q = "quick"; T = "thorough"


def tags(*prefixes):
    def rel(tag, kinds):
        return any(tag == p or tag.startswith(p) for p in prefixes)
    return rel


def rel_all(tag, kinds):
    return True


def rel_kinds(prefixes, ktest):
    """digest tags by prefix; R/C/RG lines only when the tx contains a relevant message kind"""
    def rel(tag, kinds):
        if tag in ("R", "C", "CR", "RG"):
            return any(ktest(k) for k in kinds)
        if tag == "Q":   # "Q": every query answer; "Q:": the answers to queries of a relevant kind (wrk.block, str.stream, …)
            return "Q" in prefixes or ("Q:" in prefixes and any(ktest(k) for k in kinds))
        return any(tag == p or tag.startswith(p) for p in prefixes)
    return rel


STRUCT = ("I", "K", "B", "E")

def chain(focus, qs, qb, ts, tb, tseeds=3):
    return {"focus": focus, Q: {"scripts": qs, "blocks": qb, "maxtx": 6, "seeds": 1}, T: {"scripts": ts, "blocks": tb, "maxtx": 8, "seeds": tseeds}}


def is_reg(k):
    return k.startswith(("wrk.", "bcn."))


REG_TAGS = ("I", "K", "B", "E", "D wrk.", "D bcn.", "Q:")
REG_NOTE = ("Theorems are about the Lean model of x/wrkchain and x/beacon (one generic registry machine) lifted to every reachable state of the whole "
            "application model (all message kinds, authz nesting of any depth, ante effects, block hooks) under the explicit history assumption "
            "RegQ (no 64-bit counter has wrapped). The tie to the code is differential: the real app driven through ABCI vs. the compiled model on "
            "generated and corpus scripts, every run.")

def is_str(k):
    return k.startswith("str.") or k == "bank.send"


STR_NOTE = ("Theorems are about the Lean model of x/stream (types/utils.go arithmetic with Go's fixed-width semantics, keeper and message server) over "
            "bank-lite, lifted to every reachable state of the whole application model. The tie to the code is differential: real app through ABCI "
            "vs. compiled model on generated and corpus scripts, plus the pure functions (vpure dur/claim/valfee/addsec) on boundary-heavy inputs, every run. "
            "Six genuine defects found here were repaired by fix: commits (see KNOWN_FINDINGS.txt); their witnesses stay in the corpus.")

def is_ent(k):
    return k.startswith("ent.")


ENT_TAGS = ("I", "K", "B", "E", "D ent.", "D bank.bal", "D bank.supply")
ENT_NOTE = ("Theorems are about the Lean model of x/enterprise (message server, BeginBlocker, eFUND books, fee unlock) over bank-lite, lifted to "
            "every reachable state of the whole application model (all message kinds, authz nesting of any depth, governance, ante effects, block "
            "hooks). The tie to the code is differential: the real app driven through ABCI vs. the compiled model on generated and corpus scripts, "
            "every run; the BeginBlocker statement order and the module-account permission table are regenerated from the source into the "
            "definitions the theorems are about.")

import twin as _twin

PROPS = {
    "C01": {
        "chain": [chain("crash", 24, 20, 300, 35), chain("all", 8, 20, 100, 30)],
        "extra": [_twin.run],
        "corpus": ["witness", "regress", "known"],
        "relevant": rel_all,
        "level_text": "Proof (partial: runtime nondeterminism is not exhibitable by the model): c01_wall_clock_irrelevant (every message handler, transaction, governance execution and hence every run of the model is independent of the wall-clock oracle: the BEACON submit-time fallback is dead behind ValidateBasic, which the router runs before every handler at any nesting depth), c01_crash_replay (a node that loses its working and check state anywhere inside a block and replays the block from its committed state reaches exactly the node that never stopped; commit is the only transition that changes the committed state), c01_slot_check_order_independent (the map-range of check*MaxSlots cannot influence the outcome), c01_nondeterminism_sites (wall-clock, math/rand, goroutine and map-range sites of the consensus-path packages, regenerated from the source every run, are exactly the audited ones). Twin differential on the real app: identical app hashes and tx results across backends, CPU counts, time zones, processes and restart points.",
        "level_note": "Theorems are about the model (a function of genesis and block list by construction, so equal inputs give equal outputs; the theorems isolate the two inputs that could differ between nodes - the wall clock and a crash - and the facts pin the source sites). What the model cannot exhibit - Go scheduler and map order, DB backend behaviour inside Commit, torn writes - is covered only by the regenerated site lists and by the twin runs of the real application (MemDB/GOMAXPROCS=16 vs goleveldb/GOMAXPROCS=1/other time zone/restarts with replay of the interrupted block, separate processes). One SDK-level finding is recorded: gas_used of a transaction rejected before the ante handler differs in the first block after a process start.",
        "assumptions": ["CometBFT delivers the same block (header time, transactions) to every node", "storage backends implement the KVStore contract (ordered iteration, atomic commit)"],
    },
    "C03": {
        "chain": [chain("ent", 24, 25, 300, 40), chain("quorum", 32, 30, 400, 40), chain("gov", 8, 25, 150, 40), chain("all", 16, 25, 200, 40)],
        "corpus": ["witness", "regress", "known"],
        "relevant": rel_kinds(ENT_TAGS, is_ent),
        "level_text": "Proof: c03_accept_needs_min_accepts_distinct_addresses (an order is accepted only on the accepts of >= MinAccepts pairwise distinct addresses, however the signer parameter lists them), c03_raise_requires_whitelisted, c03_decision_requires_current_signer, c03_one_decision_per_signer (distinct signer addresses in every state of every run), c03_tally_rule (the code's 64-bit tally equals the three-clause rule of the statement) and c03_tally_applies_rule_to_every_raised_order, c03_status_transitions_and_terminal_frozen (raised->accepted->completed | raised->rejected along every run; rejected/completed orders identical for ever), c03_completed_in_the_following_block (depends on the regenerated BeginBlocker order), c03_completion_credits_exactly_the_amount, c03_queues_match_status.",
        "level_note": ENT_NOTE + " The duplicate-decision defect (upper-case spelling) was repaired by a fix: commit; its witness stays in the corpus.",
        "assumptions": ["EntQ: the 64-bit purchase-order id counter has not reached 2^64-1", "MinAccepts < 2^63 for the plain-arithmetic reading of the tally (Params.Validate bounds it by the number of signers)"],
    },
    "C04": {
        "chain": [chain("fees", 24, 25, 300, 40), chain("ent", 16, 25, 200, 40), chain("all", 16, 25, 200, 40)],
        "corpus": ["witness", "regress", "known"],
        "relevant": rel_kinds(ENT_TAGS, lambda k: is_ent(k) or is_reg(k) or k == "bank.send"),
        "level_text": "Proof: c04_books_balance (in every state of every run escrow balance = total locked = sum of locked entries, total spent = sum of spent entries, all non-negative amounts of the enterprise denomination), c04_locked_plus_spent_eq_purchased (per account), c04_escrow_moves_only_by_completion_or_unlock (every elementary step of every message kind), c04_send_to_escrow_rejected, c04_escrow_blocked_and_minters (regenerated permission table); the saturating branches of decrementLockedUnd are proved unreachable. c04_whitelist_change_leaves_the_books (whitelist administration touches the whitelist and nothing else).",
        "level_note": ENT_NOTE,
        "assumptions": ["BooksQ: BankSane (LockedCoins never negative: SDK contract), EntQ, and governance has not changed the enterprise denomination (known finding C14/denom-change)",
                        "genesis: bank-lite well-formed, no vesting module accounts, empty enterprise escrow"],
    },
    "C15": {
        "chain": [chain("genesis", 32, 25, 400, 40)],
        "corpus": ["witness", "regress", "known", "large"],
        "relevant": rel_all,
        "level_text": "Proof: c15_import_succeeds (for every state of every run with an empty gov module account, export followed by InitChain in the repository's module order - regenerated from app.go - succeeds: the enterprise and stream balance checks pass and every registered invariant asserted by crisis holds; the imported state is given explicitly), c15_enterprise_identical (orders are stored by ascending id and the whitelist ascending in every state of every run, so the imported enterprise section is the same value as the exported one, as are bank, streams, fee, grants, allowances and block time), c15_registries_newest (each registry after import: same parameters and id counter, every registration with its metadata, its stored limit, exactly the newest 20,000 records per registration, the two counters recomputed from them), c15_registries_lossless (with at most 20,000 records retained per registration every point read of the imported WRKChain and BEACON sections answers as before), c15_export_import_identity (every section of the state is stored in the order the store iterates it - orders, registrations and limits by ascending id, records by ascending store key - in every state of every run, and the import rebuilds that order: with at most 20,000 records retained per registration export followed by import yields the *same state*), c15_same_future (hence every later DeliverTx, CheckTx, BeginBlock and governance proposal has the same result and effect on both chains, and a second export is identical), c15_enterprise_stream_bank_lossless, c15_double_enterprise_import_idempotent, c15_genesis_order, c15_stream_after_crisis_panics (regression witness of the repaired order defect), c15_denom_change_breaks_import (negation witness of the known finding). `..._partial`: with more than 20,000 records retained by some registration the older ones are dropped by design (c15_registries_newest says exactly which); the statement about subsequent transactions is then covered by the correspondence only.",
        "level_note": ENT_NOTE + " Model/Genesis.lean models ExportGenesis/InitGenesis of the four modules, the module manager's order and crisis' invariant assertion. The tie is differential: on generated histories the real app is exported (ExportAppStateAndValidators), a fresh app is InitChain-ed from the export with crisis invariant checking on, all registered invariants are evaluated, the state digest and a second export are compared, and the script continues on the imported chain - all compared with the compiled model. The stream-after-crisis order defect was repaired by a fix: commit; an export taken after coins were sent to the gov module account cannot be imported (SDK gov genesis check) - recorded as a known finding.",
        "assumptions": ["BooksQ as in C04 (in particular governance has not changed the enterprise denomination: known finding otherwise)", "RegQ as in C07 for the registry statements", "nobody has sent coins to the gov module account (known finding otherwise)", "SDK modules' genesis (auth, bank, authz, feegrant, staking, gov...) is outside the model: compared section by section as JSON by the harness"],
    },
    "C17": {
        "chain": [chain("query", 24, 20, 300, 35), chain("fees", 8, 20, 100, 30)],
        "corpus": ["witness", "regress", "known"],
        "relevant": rel_kinds(("I", "K", "B", "E", "Q", "D ent.total", "D bank.supply", "D ent.params"), lambda k: True),
        "level_text": "Proof: c17_supply_of (native denomination: bank supply minus total locked; any other: bank supply unchanged), c17_locked_plus_unlocked_eq_total (in every state of every run 0 <= locked <= supply, the subtraction behind TotalUnlocked / SupplyOf succeeds, unlocked >= 0 and unlocked + locked = supply; uses the books invariant of C04 and sum-of-balances = supply of C02), c17_total_supply_pages (paging through the listing returns every denomination exactly once), c17_enterprise_routes_win (route registration order regenerated from app.go).",
        "level_note": ENT_NOTE + " The supply queries are modelled in Model/Query.lean (incl. the Uint64() conversions of EnterpriseSupply and Coin.Sub panics, answered as query errors) and compared with the real gRPC query servers reached through ABCI Query on generated states with several denominations and every page request shape; figures are environment-adjusted on both sides (validator, staking pools and gov account are outside the model).",
        "assumptions": ["BooksQ as in C04", "genesis bank balanced (sum of balances = supply)", "UTF-8 encoding of denominations is injective (for the listing theorem)"],
    },
    "C20": {
        "chain": [chain("query", 32, 20, 400, 35)],
        "corpus": ["witness", "regress", "known"],
        "relevant": rel_kinds(("I", "K", "B", "E", "Q"), lambda k: True),
        "level_text": "Proof: c20_pages_partition_by_key (for every store section, filter and limit 1 <= L < 2^64 - 1 (and at query.MaxLimit = 2^64 - 1, where the SDK's `end+1` wraps and the first page may be cut short: c20_pages_partition_by_key_max_limit shows the forward walk still complete; the reverse walk can end in an error there: known finding, negation witness c20_reverse_walk_at_max_limit_fails), following next_key from a first request without key returns every matching entry exactly once, in store order, and nothing else: unbounded in the number of entries and pages), c20_pages_partition_by_offset (+ drop_take_partition), c20_key_and_offset_rejected, c20_pages_partition_by_key_reverse (the same for reverse walks), c20_purchase_orders_walk, c20_wrkchains_walk, c20_beacons_walk, c20_streams_walk (also the by-sender list), c20_streams_by_receiver_walk (instances for every list query in every reachable state; the stream lists for addresses of any byte lengths), c20_listed_*_eq_point_query, c20_queries_do_not_modify_state.",
        "level_note": "Theorems are about Paginate.filtered, the transcription of the SDK's FilteredPaginate / GenericFilteredPaginate / Paginate (types/query, v0.47.13: trusted transcription, validated by the correspondence), and about the list queries of the four modules built on it (Model/Query.lean). The tie is differential: every list query of the real app through ABCI Query (gRPC route) with generated page requests - complete key walks, offset walks, count_total, reverse, key+offset, absent and upper-case filters - vs. the compiled model, after every block; the harness also compares every listed item with its point query (pm must be 0). Store iteration order (ascending bytes) is the IAVL contract and is assumed; reverse iteration is covered by the correspondence only.",
        "assumptions": ["store iteration is ascending byte order (IAVL contract)", "address bytes are 20 bytes and distinct per address (stream and whitelist sections)", "EntQ for the purchase-order instance"],
    },
    "C14": {
        "chain": [chain("all", 24, 25, 300, 40), chain("ent", 16, 25, 200, 40), chain("gov", 16, 25, 200, 40), chain("quorum", 8, 25, 100, 40), chain("stream", 8, 20, 100, 30), chain("authz", 8, 20, 100, 30)],
        "corpus": ["witness", "regress", "known"],
        "relevant": rel_all,
        "level_text": "Proof: c14_begin_block_never_panics (in every state of every run whose queued orders leave room below 2^255 the enterprise BeginBlocker - completion pass then tally - returns without a panic at any block time: every explicit panic of blocker.go and every panicking primitive reachable from it is dead under the invariants), c14_tally_never_panics, c14_end_block_and_commit_total, c14_failed_tx_changes_nothing_and_multimsg_atomic (after DeliverTx the state is the state before, or the ante state - differing only by fee balances and the locked/spent books - with none of the messages' effects, or the state after all messages), c14_runMsgs_fails_if_any_message_fails. The two history assumptions of the totality theorem are the two known findings (enterprise denomination changed by governance while an order is pending; amounts summing beyond 2^255), each replayed on the real app every run. c14_failed_proposals_leave_no_trace / c14_end_block_of_failed_proposals_is_identity (the state after an EndBlock is the fold over the proposals that passed; failed ones contribute nothing).",
        "level_note": ENT_NOTE + " Panics are values of the model (Except.error (.panic ..)); BaseApp.runTx's per-transaction recovery and cache-wrapped ante/message execution are modelled by deliverTx and compared with the real app on every generated transaction (outcome class ok/err/panic is a hard comparison). SDK-module block hooks are outside the model; the harness recovers around every ABCI call and reports a halt as 'B panic' / 'E panic'.",
        "assumptions": ["BooksQ as in C04 (includes: enterprise denomination unchanged - known finding)", "BlockRoom: balances, supply and total locked plus the queued order amounts stay below 2^255 (known finding for amounts beyond)",
                        "enterprise denomination is a valid denom (C16)"],
    },
    "C13": {
        "chain": [chain("signer", 32, 25, 400, 40), chain("authz", 16, 20, 200, 30), chain("all", 16, 25, 200, 40), chain("gov", 8, 20, 100, 30), chain("genesis", 8, 25, 60, 30)],
        "pure": [{"kinds": ["ownergate", "ownermsg"], Q: 120, T: 600}],
        "corpus": ["witness", "regress", "known"],
        "relevant": rel_all,
        "level_text": "Proof: c13_effect_requires_entitled_signer (for each of the message types a handler succeeds only if the account in the message's signer field is the entitled party: whitelisted purchaser, current enterprise signer, registered owner, stream sender / receiver, gov authority), c13_signer_fields (GetSigners table regenerated from the source), c13_tx_binds_signers (the composed ante chain admits a transaction only with exactly the GetSigners of its top-level messages as valid signatures), c13_nested_requires_grant_from_signer, c13_executed_messages_are_signed (every executed message of every run is signed by a key holder or the gov module), c13_params_only_by_governance. c13_owner_gate_for_any_stored_owner / c13_undecodable_owner_authorises_nobody (the owner gate in front of records and storage purchases lets an account through exactly when the stored owner string decodes to it - for any registry state, so registrations written by a genesis file with an owner that does not decode are open to nobody); c13_record_and_purchase_pass_the_owner_gate (record and purchase take effect only through that gate, any registry state); the keeper function AND the two message servers' record / purchase handlers are compared with that gate on the whole table of stored spellings (canonical, upper case, foreign prefix, wrong checksum, arbitrary word, empty, absent) every run.",
        "level_note": "Theorems are about the Lean model of the message servers, the SDK message router (ValidateBasic before every handler), authz dispatch and the composed ante chain; GetSigners fields and the decorator order are regenerated from the source every run. Signature cryptography is abstracted to a per-transaction flag (valid / wrong key / wrong sequence) that the harness realises with real secp256k1 signatures. The tie is differential: every message type x every scenario account as signer and as named address on the real app (signer focus) vs. the compiled model, with whole-state digests after every block; a rejected message leaves the state digest unchanged because both sides print it.",
        "assumptions": ["nobody holds a key for a module-account address (hash pre-image; cryptographic assumption)",
                        "delegation through authz grants given by the entitled party counts as that party's signature (DESIGN.md §8 C13)"],
    },
    "C05": {
        "chain": [chain("fees", 32, 25, 400, 40), chain("ent", 16, 25, 200, 40), chain("all", 16, 25, 200, 40), chain("signer", 8, 20, 100, 30)],
        "corpus": ["witness", "regress", "known"],
        "relevant": rel_kinds(("I", "K", "B", "E", "D ent.locked", "D ent.spent", "D ent.total", "D bank.bal", "D bank.fees", "C", "R"), lambda k: True),
        "level_text": "Proof: c05_locked_moves_only_by_fee_unlock_or_completion (over every elementary step of every run the locked/spent books change only by an order completion or by the ante unlock for a transaction with a top-level WRKChain/BEACON message and a locked payer: locked - k, spent + k, 0 < k <= locked, k = min(fee in the enterprise denomination, locked) for a valid fee), c05_fee_of_admitted_module_tx_is_valid, c05_rejected_tx_changes_nothing, c05_completion_keeps_purchaser_balances_partial (base accounts); the full statement is FALSE of the code for vesting purchasers and for fee granters: c05_vesting_purchaser_spendable_rises and c05_fee_granter_pays_while_payer_keeps_unlocked prove the negation on concrete runs (known findings, replayed on the real app every run).",
        "level_note": ENT_NOTE + " Bank-lite models delayed-vesting accounts (TrackDelegation/TrackUndelegation, LockedCoins, SpendableCoins) and the basic fee allowance; both are modelled SDK behaviour validated by the correspondence runs.",
        "assumptions": ["BooksQ as in C04", "spendable = balance for base accounts (SDK SpendableCoins contract)"],
    },
    "C06": {
        "chain": [chain("fees", 32, 25, 400, 40), chain("all", 16, 25, 200, 40), chain("authz", 8, 20, 100, 30), chain("gov", 8, 20, 100, 30)],
        "pure": [{"kinds": ["coins"], Q: 1000, T: 50000}],
        "corpus": ["witness", "regress", "known"],
        "relevant": rel_kinds(("I", "K", "B", "E", "D wrk.params", "D bcn.params", "C"), lambda k: is_reg(k)),
        "level_text": "Proof: c06_admitted_pays_exact_sum (a transaction with a top-level operation of a module is admitted by CheckTx only if the amount it offers in the module's fee denomination equals exactly the sum of the parameterised fees of its top-level operations of that module, whatever other denominations accompany it), c06_payer_can_cover, c06_exact_fee_partial (the full statement for plain transactions: operations at the top level, one module); the full statement is FALSE of the code for mixed-module and authz-wrapped transactions: c06_mixed_modules_admitted_with_one_fee and c06_nested_operation_admitted_free prove the negation on concrete admitted transactions (known findings, replayed on the real app every run).",
        "level_note": "Theorems are about the Lean model of the two fee decorators inside the composed ante chain, whose decorator order is regenerated from ante/ante.go on every run. The tie to the code is differential: generated CHECK probes after every commit on the real app (CheckTx of the composed application) vs. the compiled model, plus an independent fee oracle on the implementation's answers. The coin-set comparison defect (extra fee denomination let an under-paid tx through) was repaired by a fix: commit; the two remaining gaps are recorded in KNOWN_FINDINGS.txt.",
        "assumptions": ["fee parameters and slot counts are uint64 values (protobuf); per-slot fee >= 1 (Params.Validate)"],
    },
    "C02": {
        "chain": [chain("ent", 24, 25, 300, 40), chain("all", 16, 25, 200, 40), chain("authz", 8, 20, 100, 30), chain("gov", 8, 20, 100, 30), chain("quorum", 12, 25, 150, 40)],
        "corpus": ["witness", "regress", "known", "outside-premises"],
        "relevant": rel_kinds(("I", "K", "B", "E", "D ent.po", "D ent.aq", "D bank.supply", "D bank.bal", "D bank.fees"), lambda k: True),
        "level_text": "Proof: c02_supply_changes_only_by_completion (over every elementary step of every message kind, nesting, ante effect and block hook the supply of every denomination is unchanged, except the completion of an accepted order, which adds exactly its amount in the enterprise denomination), c02_mint_adds_exactly, c02_mint_sites_and_permissions (MintCoins call sites, no BurnCoins call, no mint module, Minter holders: regenerated from the source every run), c02_balances_sum_to_supply (in every state of every run the sum of all account balances equals the recorded supply, for every denomination).",
        "level_note": ENT_NOTE + " Supply and balances are those of bank-lite (scenario and module accounts); staking/distribution/gov-deposit movements of the validator environment are outside the model and are compared as the environment-adjusted supply line of the digest. 'Sum of balances = supply' is proved in the model (c02_balances_sum_to_supply) and additionally checked on the implementation side by the bank's registered total-supply invariant each block.",
        "assumptions": ["BooksQ as in C04", "IBC transfer (the other Minter) is not exercised: no channels exist in the scenario"],
    },
    "C16": {
        "chain": [chain("gov", 24, 25, 300, 40), chain("all", 16, 25, 200, 40)],
        "pure": [{"kinds": ["entparams", "regparams", "strparams"], Q: 1500, T: 100000}],
        "corpus": ["witness", "regress"],
        "relevant": rel_kinds(("I", "K", "B", "E", "D ent.params", "D wrk.params", "D bcn.params", "D str.params"), lambda k: k.endswith(".params") or is_reg(k)),
        "level_text": "Proof: c16_params_always_valid (the stored parameters of all four modules satisfy the validity rules written from the statement in every state of every run), c16_*_validate_sound (the code's Validate implies the rules), c16_invalid_update_rejected (an update is stored only if the whole set validates and the authority is the gov module), c16_new_values_used (every use reads the state).",
        "level_note": "Theorems are about the Lean model; Params.Validate of all four modules is compared with the model's validate on boundary-heavy generated parameter structures (vpure) and parameter changes go through real governance in the chain engine, every run. The int(MinAccepts) defect was repaired by a fix: commit; its witness stays in the corpus.",
        "assumptions": ["genesis parameters valid (InitGenesis would not start otherwise)"],
    },
    "C10": {
        "chain": [chain("stream", 24, 25, 300, 40), chain("all", 16, 25, 200, 40), chain("gov", 8, 20, 100, 30)],
        "corpus": ["witness", "regress"],
        "relevant": rel_kinds(("I", "K", "B", "E", "D str.", "D bank.bal", "D bank.fees"), is_str),
        "level_text": "Proof: c10_escrow_eq_sum_deposits (in every state of every run the stream escrow holds per denomination exactly the sum of the remaining deposits, all non-negative), c10_only_stream_ops_move_escrow, c10_send_to_escrow_rejected, c10_release_conserves_and_fee_split (total = payment + fee, fee = floor(total x rate), deposit shrinks by exactly the total), c10_topup_adds_exactly.",
        "level_note": STR_NOTE + " Signer tracking (MaySign/GrantsOK) shows that no message whose funds come from the escrow account itself can execute; this rests on the modelled cryptographic assumption that nobody holds a key for a module address.",
        "assumptions": ["BankSane: LockedCoins never reports a negative amount (SDK contract)", "genesis: bank-lite well-formed, no vesting module accounts, empty stream escrow"],
    },
    "C11": {
        "chain": [chain("stream", 24, 25, 300, 40), chain("all", 16, 25, 200, 40)],
        "pure": [{"kinds": ["dur", "claim", "valfee", "addsec"], Q: 2000, T: 200000}],
        "corpus": ["witness", "regress"],
        "relevant": rel_kinds(("I", "K", "B", "E", "D str."), lambda k: k.startswith("str.")),
        "level_text": "Proof: c11_release_amount (before zero time exactly min(deposit, rate x whole seconds), at/after it the whole remainder), c11_never_faster, c11_zero_time_on_create (now + floor(D/r) s), c11_topup_extends_zero_time (running: zero + floor(top-up/r) s, last release untouched; run out: settled, clock restarted), c11_claim_restarts_the_clock and c11_rate_change_restarts_the_clock (every release stores the block time as last release; a rate change recomputes the zero time from the settled remainder), c11_solvency (every stored stream in every state of every run: rate>=1, last<=now, rate x floor(zero-last) <= deposit or empty-and-expired), c11_remainder_covers_rest, c11_cancel_refunds_unreleased.",
        "level_note": STR_NOTE,
        "assumptions": ["RateQ: BankSane, no stream unclaimed for 2^63 ns (~292 years), block times non-negative and non-decreasing", "Duration.Seconds() float rounding not modelled: exact unless the nanosecond fraction is within 2^-20 of a full second and the gap exceeds 48 days"],
    },
    "C12": {
        "chain": [chain("stream", 24, 25, 300, 40), chain("all", 16, 25, 200, 40)],
        "pure": [{"kinds": ["dur", "claim", "valfee", "addsec", "strparams"], Q: 2000, T: 200000}],
        "corpus": ["witness", "regress"],
        "relevant": rel_kinds(("I", "K", "B", "E", "D str."), lambda k: k.startswith("str.")),
        "level_text": "Proof: c12_arithmetic_never_panics (CalculateValidatorFee total for every amount and fee in [0,1]; duration and claim arithmetic are total functions), c12_claim_succeeds and c12_cancel_succeeds (for every funded stream in every state of every run the claim / the sender's cancel returns ok), c12_topup_succeeds (every top-up the non-vesting sender holds the coins for returns ok, on a running stream and on one that has run out, within the module's 292-year limit per top-up), c12_fee_rate_always_valid.",
        "level_note": STR_NOTE + " Top-ups whose resulting duration exceeds ~292 years are rejected with an error by design of the repair (not a panic, funds not stranded).",
        "assumptions": ["RateQ as in C11", "Small: every balance below 2^255 (2^254 for cancel) so that the bank's 256-bit integers cannot overflow"],
    },
    "C07": {
        "chain": [chain("reg", 24, 25, 300, 40), chain("all", 16, 25, 200, 40), chain("authz", 8, 20, 100, 30), chain("query", 8, 20, 60, 30), chain("genesis", 8, 25, 60, 30)],
        "corpus": ["witness", "regress"],
        "relevant": rel_kinds(REG_TAGS, is_reg),
        "level_text": "Proof: c07_records_immutable (a stored record is returned unchanged or pruned in every later state of every run, never overwritten, never back), c07_no_backfill, c07_wrk_record_accepts_only_higher, c07_bcn_ids_consecutive (+ first id is 1), c07_rejected_tx_changes_nothing; all unbounded in the number and interleaving of operations.",
        "level_note": REG_NOTE,
        "assumptions": ["RegQ: no registration id, height counter or record count has reached 2^64-1", "message fields are uint64 (protobuf)"],
    },
    "C08": {
        "chain": [chain("reg", 24, 25, 300, 40), chain("all", 16, 25, 200, 40), chain("authz", 8, 20, 100, 30), chain("gov", 8, 20, 100, 30), chain("genesis", 8, 25, 60, 30)],
        "corpus": ["witness", "regress", "large"],
        "relevant": rel_kinds(REG_TAGS, is_reg),
        "level_text": "Proof: in every reachable state BEACON retains exactly the contiguous newest ids first..last with num = last-first+1 <= limit (c08_bcn_retained_is_newest), WRKChain retains a strictly increasing key list whose length, head and bound are the reported counters (c08_wrk_counters_match_store); each accepted record prunes exactly the oldest when full (c08_*_prune_one_at_a_time); the limit starts at the default, changes only by an owner's purchase, by exactly n, never above max (c08_purchase_raises_by_exactly_n, c08_limit_changes_only_by_purchase); remaining capacity = max(0,max-limit).",
        "level_note": REG_NOTE + " The two genuine defects found here (uint64 wrap of InStateLimit+Number; wrapped *Storage query) were repaired by fix: commits; their witnesses stay in the corpus.",
        "assumptions": ["RegQ: no 64-bit counter has wrapped", "purchased slot count is a uint64 (< 2^64) for the 'by exactly n' clause"],
    },
    "C09": {
        "chain": [chain("reg", 24, 25, 300, 40), chain("signer", 16, 20, 200, 30), chain("all", 16, 25, 200, 40), chain("genesis", 8, 25, 60, 30)],
        "pure": [{"kinds": ["ownergate", "ownermsg"], Q: 120, T: 600}],
        "corpus": ["witness", "regress"],
        "relevant": rel_kinds(REG_TAGS, is_reg),
        "level_text": "Proof: c09_ids_sequential_and_fields_verbatim, c09_first_id_is_genesis_start, c09_ids_never_reused, c09_registration_frozen (id/owner/moniker/name/type/genesis/regtime identical in every later state of every run), c09_only_owner_writes, c09_unknown_or_foreign_rejected.",
        "level_note": REG_NOTE,
        "assumptions": ["RegQ: no 64-bit counter has wrapped"],
    },
    "C19": {
        "pure": [{"kinds": ["conv"], Q: 1500, T: 100000}],
        "level_text": "Proof: the conversion is modelled as exact decimal-string arithmetic (the model's own digit functions); theorems c19_fund_to_nund_exact, c19_nund_to_fund_exact, c19_roundtrip_* hold for every numeral of any length; the real ConvertUndDenomination is compared with the model on boundary-heavy generated numerals every run and with an independent exact-rational oracle.",
        "level_note": "Theorems are about the model; the tie to types/denom.go is differential (vpure conv). Inputs outside plain decimal numerals (signs, exponents, fractions) are outside the statement and skipped by the model. big.Rat is trusted.",
        "assumptions": ["input is a plain decimal numeral digits[.digits]; nund inputs are integers"],
    },
    "C18": {
        "level_text": "Proof: key builders and the stream key parser are modelled over byte lists; injectivity, section/scan disjointness, big-endian order = numeric order and the stream-key round trip are proved for all 64-bit ids and all address lengths 1..255; section prefixes are regenerated from keys.go on every run; the real builders/parsers are compared with the model on boundary-exhaustive and random inputs. Handler level (the same statement for what the keepers write): c18_decision_writes_one_order, c18_tally_reads_only_the_order_itself, c18_completion_writes_one_order_and_one_account, c18_unlock_writes_one_account, c18_purchase_and_registration_write_one_entry, c18_record_writes_one_registration (including the pruning a record triggers), c18_stream_message_writes_one_stream (all five stream messages; every other pair, the reversed pair included), c18_modules_do_not_write_each_other (no message of one module changes another module's section).",
        "level_note": "Theorems are about the model of the codecs; the tie is differential (vpure key/parse) plus regenerated prefixes, and — for the stores behind the codecs — generated histories on the real app in which every order, registration, record and stream listed by the keepers is compared with the model and with the point read of the same entity (a listing that aliases one entity with another prints a `D <module>.alias` line). Store iteration order (ascending bytes) is the IAVL/cachekv contract and is assumed.",
        "pure": [{"kinds": ["key", "parse"], Q: 300, T: 20000}],
        # the stores behind the codecs: every listed order, registration and stream equals its point read, in id order
        "chain": [chain("reg", 12, 20, 150, 30), chain("all", 8, 20, 100, 30)],
        "corpus": ["witness", "regress"],
        "relevant": rel_kinds(("I", "K", "B", "E", "Q", "D ent.po", "D ent.alias", "D wrk.chain", "D wrk.alias", "D wrk.block", "D bcn.beacon", "D bcn.alias", "D bcn.ts", "D str.stream", "D str.alias"), lambda k: True),
        "assumptions": ["addresses are 1..255 bytes (the SDK rejects longer ones in MustLengthPrefix: proved as c18_stream_key_rejects_long)",
                        "store iteration is ascending byte order of keys (IAVL/cachekv contract, outside the model)"],
    },
}
