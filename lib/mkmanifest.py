#!/usr/bin/env python3
"""regenerate /verif/MANIFEST.json from the property table (lib/props.py)"""
import json, os, sys
sys.path.insert(0, os.path.dirname(__file__))
import props as P

ROOT = os.path.dirname(os.path.dirname(os.path.abspath(__file__)))
ids = [json.loads(l)["id"] for l in open(os.path.join(ROOT, "properties.jsonl"))]

checks = []
na = []
for pid in ids:
    spec = P.PROPS.get(pid)
    if not spec or spec.get("unclaimed"):
        na.append({"property_id": pid, "reason": (spec or {}).get("unclaimed", "check not built yet (work in progress)")})
        continue
    checks.append({
        "property_id": pid,
        "quick_cmd": "./check %s quick" % pid,
        "thorough_cmd": "./check %s thorough" % pid,
        "evidence_file": "/verif/evidence/%s.json" % pid,
        "replay_cmd_template": "./check replay {path}",
        "engine": spec.get("engine", "lean+correspondence"),
        "level_claimed": {"category": "proof", "text": spec["level_text"], "design_ref": spec.get("design_ref", "DESIGN.md §8 " + pid)},
        "level_note": spec["level_note"],
        "technique": spec.get("technique", "Lean 4 theorems over an executable model + facts regenerated from source + differential correspondence with the real app"),
    })

m = {
    "version": 1,
    "setup_cmd": "./check setup",
    "hooks": {"guard": "verif", "enable": "no hooks needed: every observation point is reachable through exported API; the harness module links /repo through a replace directive and is rebuilt from the working tree on every run",
              "baseline_off_cmd": "cd /repo && GOFLAGS=-mod=readonly go test -vet=off -count=1 -timeout 25m ./...", "source_commits": [], "add_only": True},
    "engines": [
        {"name": "lean", "path": "lean/", "serves_properties": [c["property_id"] for c in checks], "kind_free_text": "Lean 4 project: executable model (Mainchain/Model), lemmas, property theorems (Mainchain/Props/Cxx.lean), compiled driver mdriver"},
        {"name": "vfacts", "path": "vfacts/", "serves_properties": [c["property_id"] for c in checks], "kind_free_text": "go/packages fact extractor regenerating lean/Mainchain/Gen/Facts.lean from the current tree on every run"},
        {"name": "vharness", "path": "harness/cmd/vharness", "serves_properties": [p for p in ids if p in P.PROPS and (P.PROPS[p].get("chain") or P.PROPS[p].get("corpus"))], "kind_free_text": "drives the real app through ABCI with signed transactions; scripts + traces diffed against mdriver"},
        {"name": "vpure", "path": "harness/cmd/vpure", "serves_properties": [p for p in ids if p in P.PROPS and P.PROPS[p].get("pure")], "kind_free_text": "calls the real pure functions (key codecs, stream arithmetic, params validation, conversion); answers diffed against mdriver pure"},
    ],
    "checks": checks,
    "notes": "Machine-checked proof in Lean 4 over a hand-written executable model; tie 1 = facts regenerated from source; tie 2 = differential correspondence with the real application. Genuine defects found and repaired by fix: commits are listed in KNOWN_FINDINGS.txt. See DESIGN.md.",
    "not_applicable": na,
}
json.dump(m, open(os.path.join(ROOT, "MANIFEST.json"), "w"), indent=1)
print("claimed:", [c["property_id"] for c in checks])
