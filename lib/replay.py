"""./check replay <path> : re-run a replay file and print what it shows."""
import json, os


def replay(g, path):
    body = json.load(open(path))
    pid = body.get("property")
    print("replay of", path, "for", pid, "kind", body.get("kind"))
    for b in body.get("broken_obligations", []) or []:
        print("  broken obligation:", b[:300])
    script = body.get("shrunk_script") or (body.get("script_text").split("\n") if isinstance(body.get("script_text"), str) and body.get("script_text", "").startswith(("G ", "INIT")) else None)
    if script:
        wd = os.path.join(g["CACHE"], "replay"); os.makedirs(wd, exist_ok=True)
        p = os.path.join(wd, "r.script")
        open(p, "w").write("\n".join(script) + "\n")
        rh = g["repo_hash"]()
        h = g["step_harness"](rh)
        if not h["ok"]:
            print("harness does not build:", h.get("why")); return 1
        rc, out, _ = g["run"]([os.path.join(g["HARN"], "bin", "vharness"), "replay", "-script", p, "-out", p[:-7] + ".impl"], env=g["GOENV"])
        g["mdriver"]([], p, p[:-7] + ".model")
        spec = g["P"].PROPS.get(pid, {})
        n, mm, soft = g["compare_traces"](p, p[:-7] + ".impl", p[:-7] + ".model", spec.get("relevant", lambda t, k: True))
        print("  hard lines compared:", n, "mismatches:", len(mm))
        for m in mm[:5]:
            print("   impl :", m["impl"]); print("   model:", m["model"])
        tr = g["O"].parse_trace(p, p[:-7] + ".impl")
        for v in g["O"].run_oracles(pid, tr):
            print("  oracle verdict:", v["oracle"], v.get("signature"), v.get("detail"))
        return 1 if mm else 0
    if body.get("oracle"):
        print("  oracle:", body["oracle"], body.get("signature"), body.get("detail"))
    if body.get("first_divergent_op"):
        print("  first divergent op:", body["first_divergent_op"])
    return 0
