#!/bin/bash
# usage: runall.sh <tier> [jobs] : every claimed check on the current tree, a few at a time; prints one line per property
tier=${1:-quick}; jobs=${2:-4}
cd /verif
ids=$(python3 -c "import json; print(' '.join(c['property_id'] for c in json.load(open('MANIFEST.json'))['checks']))")
printf '%s\n' $ids | xargs -P $jobs -I{} sh -c './check {} '$tier' 2>/dev/null | grep -v KNOWN-FINDING | tail -1 | sed "s/^/{}: /"'
