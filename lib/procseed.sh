#!/bin/bash
# usage: procseed.sh <worktree> <seed-dir-name> <Cxx> [Cxx…] : confirm a sub-agent's seeded change, remove its worktree, run the checks against it
wt=$1; name=$2; shift 2
out=$(bash /verif/lib/confirm_seed.sh $wt $name 2>&1 | tail -1)
echo "confirm: $out"
git -C /repo worktree remove --force $wt 2>/dev/null; git -C /repo worktree prune
[ "$out" = "CONFIRMED" ] || exit 1
bash /verif/lib/seedtest.sh /verif/seeded/$name/patch.diff quick "$@" 2>&1 | grep -v KNOWN-FINDING
