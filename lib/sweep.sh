#!/bin/bash
# usage: sweep.sh <tier> <seed> [seed…] : every claimed check on the unchanged tree for several VERIF_SEED values;
# evidence files are restored afterwards (committed evidence always comes from the default seed)
tier=$1; shift
cd /verif
bak=$(mktemp -d); cp -a evidence/. $bak/
for s in "$@"; do
  echo "== seed $s"
  VERIF_SEED=$s bash lib/runall.sh $tier 5 2>&1 | grep -v ": OK"
done
rm -rf evidence; mkdir -p evidence; cp -a $bak/. evidence/; rm -rf $bak
echo "== sweep done"
