#!/bin/bash
# usage: seedtest.sh <patch.diff> <tier> <Cxx> [Cxx…] : apply a seeded change to /repo, run the checks, undo it.
# The evidence files and replays written while the change is applied are discarded (evidence is only ever
# committed from runs on the unchanged tree).
set -u
patch=$1; tier=$2; shift 2
bak=$(mktemp -d); cp -a /verif/evidence/. $bak/ 2>/dev/null
git -C /repo apply "$patch" || { echo "patch does not apply"; rm -rf $bak; exit 2; }
for p in "$@"; do
  out=$(cd /verif && ./check $p $tier 2>/dev/null | tail -3)
  echo "[$p] $out"
done
git -C /repo checkout -- . ; git -C /repo status --short | head -3
rm -rf /verif/evidence; mkdir -p /verif/evidence; cp -a $bak/. /verif/evidence/; rm -rf $bak
