#!/bin/bash
# usage: seedtest.sh <patch.diff> <tier> <Cxx> [Cxx…] : apply a seeded change to /repo, run the checks, undo it
set -u
patch=$1; tier=$2; shift 2
git -C /repo apply "$patch" || { echo "patch does not apply"; exit 2; }
for p in "$@"; do
  out=$(cd /verif && ./check $p $tier 2>/dev/null | tail -3)
  echo "[$p] $out"
done
git -C /repo checkout -- . ; git -C /repo status --short | head -3
