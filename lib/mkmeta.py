#!/usr/bin/env python3
"""usage: mkmeta.py <seeded-dir> <checks_run> <Cxx=verdict> [...]: write meta.json for a confirmed seeded change"""
import json, sys, os
d = sys.argv[1]
am = json.load(open(os.path.join(d, "agent_meta.json")))
det = dict(a.split("=", 1) for a in sys.argv[3:])
meta = {"property": am["property"], "summary": am["summary"], "needs": am["needs"],
        "confirmed_by_me": ["git apply patch.diff in scratch worktree; go test -vet=off -count=1 ./... : 0 FAIL lines (suite passes with the change)",
                            "demo test placed at its path: FAILS with the change, PASSES after git apply -R"],
        "checks_run": sys.argv[2], "detected_by": det}
json.dump(meta, open(os.path.join(d, "meta.json"), "w"), indent=1)
print("wrote", os.path.join(d, "meta.json"))
