#!/usr/bin/env python3
"""scratch tool: run a script on the real app and on the model, diff, run a property's oracles"""
import sys, os, subprocess
sys.path.insert(0, os.path.dirname(__file__))
import oracles as O
pid, script = sys.argv[1], sys.argv[2]
b = "/tmp/rs-" + os.path.basename(script)[:-7]
open(b + ".script", "w").write(open(script).read())
env = dict(os.environ, GOFLAGS="-mod=mod", GOPROXY="off", GOSUMDB="off", GOTOOLCHAIN="local")
r = subprocess.run(["/verif/harness/bin/vharness", "replay", "-script", b + ".script", "-out", b + ".impl"], env=env, capture_output=True, text=True)
if r.returncode: print("harness:", r.stdout, r.stderr)
subprocess.run("/verif/lean/.lake/build/bin/mdriver < %s.script > %s.model" % (b, b), shell=True)
a = [l for l in open(b + ".impl").read().split("\n") if l and (l[0].isupper() or l[0] == "!")]
m = [l for l in open(b + ".model").read().split("\n") if l and (l[0].isupper() or l[0] == "!")]
dif = [(x, y) for x, y in zip(a, m) if x != y]
print("hard lines", len(a), len(m), "mismatches", len(dif))
for x, y in dif[:5]: print("  impl :", x); print("  model:", y)
tr = O.parse_trace(b + ".script", b + ".impl")
for v in O.run_oracles(pid, tr): print("ORACLE", v["oracle"], v["signature"], v["detail"])
if "-v" in sys.argv: print("\n".join(l for l in open(b + ".impl").read().split("\n") if not l.startswith("D ") or any(k in l for k in sys.argv[4:])))
