#!/bin/bash
# usage: allseeds.sh [tier] : every confirmed seeded change against the check of its property; one line per seed.
# (applies each patch to /repo transiently; run nothing else against /repo meanwhile)
tier=${1:-quick}
cd /verif
for d in seeded/*/; do
  id=$(basename $d)
  pid=$(python3 -c "import json;print(json.load(open('$d/meta.json'))['property'])" 2>/dev/null || echo ${id%%-*})
  out=$(bash lib/seedtest.sh /verif/$d/patch.diff $tier $pid 2>&1 | grep -v KNOWN-FINDING | tail -1)
  case "$out" in
    *no-failing-input-found*) echo "$id: reported (no-failing-input-found)";;
    *VIOLATION*) echo "$id: reported with failing input";;
    *) echo "$id: MISSED  [$out]";;
  esac
done
