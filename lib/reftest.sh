#!/bin/bash
# usage: reftest.sh <patch.diff> <tier> : apply a behaviour-preserving refactoring to /repo, run every claimed check, undo it.
# Every line that is not OK is a false alarm to be understood. Evidence is restored afterwards.
set -u
patch=$1; tier=${2:-quick}
bak=$(mktemp -d); cp -a /verif/evidence/. $bak/ 2>/dev/null
git -C /repo apply "$patch" || { echo "patch does not apply"; rm -rf $bak; exit 2; }
(cd /verif && bash lib/runall.sh $tier 6 2>&1)
git -C /repo checkout -- . ; git -C /repo status --short | head -3
rm -rf /verif/evidence; mkdir -p /verif/evidence; cp -a $bak/. /verif/evidence/; rm -rf $bak
