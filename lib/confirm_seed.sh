#!/bin/bash
# usage: confirm_seed.sh <worktree> <seed-id> : confirm a seeded change (suite passes with it; demo fails with it, passes without) and file it under /verif/seeded/<seed-id>
wt=$1; id=$2
export GOFLAGS=-mod=mod GOPROXY=off GOSUMDB=off GOTOOLCHAIN=local
cd $wt || exit 2
git status --short | grep -v MUTATION | head -3
demo_path=$(head -1 MUTATION/demo_test.go.txt | grep -o '[a-zA-Z0-9_/.-]*_test\.go' | head -1)
echo "demo path: $demo_path"
git apply MUTATION/patch.diff || exit 2
suite=$(go test -vet=off -count=1 ./... 2>&1 | grep -c "^FAIL\|^--- FAIL")
echo "suite FAIL lines with change: $suite"
cp MUTATION/demo_test.go.txt $demo_path
pkg=./$(dirname $demo_path)/
with=$(go test -vet=off -count=1 $pkg 2>&1 | grep -c "^--- FAIL\|^FAIL")
echo "demo FAIL lines with change: $with"
git apply -R MUTATION/patch.diff
without=$(go test -vet=off -count=1 $pkg 2>&1 | grep -c "^--- FAIL\|^FAIL")
echo "demo FAIL lines without change: $without"
rm -f $demo_path; git checkout go.mod go.sum 2>/dev/null
git status --short | grep -v MUTATION | head -3
if [ "$suite" = "0" ] && [ "$with" != "0" ] && [ "$without" = "0" ]; then
  mkdir -p /verif/seeded/$id; cp MUTATION/patch.diff /verif/seeded/$id/patch.diff; cp MUTATION/demo_test.go.txt /verif/seeded/$id/demo_test.go.txt; cp MUTATION/meta.json /verif/seeded/$id/agent_meta.json
  echo CONFIRMED
else echo NOT-CONFIRMED; fi
