#!/bin/bash
# usage: difftest.sh <focus> <seed> <scripts> <blocks>   — scratch differential run, prints disagreements
d=/tmp/vh-$1-$2; rm -rf $d
/verif/harness/bin/vharness chain -seed $2 -scripts $3 -blocks $4 -maxtx 6 -focus $1 -outdir $d >/dev/null || exit 1
n=0; bad=0
for s in $d/*.script; do b=${s%.script}; /verif/lean/.lake/build/bin/mdriver < $s > $b.model; n=$((n+1))
 if ! diff -q <(grep '^[A-Z!]' $b.impl) <(grep '^[A-Z!]' $b.model) >/dev/null; then bad=$((bad+1)); echo "== $b"; diff <(grep '^[A-Z!]' $b.impl) <(grep '^[A-Z!]' $b.model) | head -${5:-6}; fi; done
echo "scripts=$n disagree=$bad"
