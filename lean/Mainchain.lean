-- This module serves as the root of the `Mainchain` library.
-- Import modules here that should be built as part of the library.
import Mainchain.Basic
