import Mainchain.Lemmas.StreamReach
/-
Release-rate invariants of x/stream: well-formedness of stored streams and solvency
(the remaining deposit sustains the flow rate from the last release to the advertised zero time).
-/
namespace Mainchain
open AL Bank

/-- whole seconds in a nanosecond span (floor) -/
def secsOf (ns : Int) : Int := ns / 1000000000

/-- solvency of one stream at block time `now` -/
def Solv (now : Int) (st : Stream) : Prop :=
  st.rate * secsOf (st.zero - st.last) ≤ st.deposit ∨ (st.deposit = 0 ∧ st.zero ≤ now)

structure StreamWF (now : Int) (x : SB) : Prop where
  rate : ∀ key st, find? x.str.streams key = some st → 1 ≤ st.rate
  denom : ∀ key st, find? x.str.streams key = some st → validDenom st.denom = true
  recv : ∀ r s st, find? x.str.streams (r, s) = some st → isBlocked r = false
  lastLe : ∀ key st, find? x.str.streams key = some st → st.last ≤ now
  solv : ∀ key st, find? x.str.streams key = some st → Solv now st
  canc : ∀ key st, find? x.str.streams key = some st → st.cancellable = true

theorem wrapI64_small (x : Int) (h0 : 0 ≤ x) (h1 : x < 9223372036854775808) : wrapI64 x = x := by
  unfold wrapI64
  have hm : x % ((two64 : Nat) : Int) = x := by
    apply Int.emod_eq_of_lt h0; unfold two64; omega
  simp only [hm]
  have : x < ((two63 : Nat) : Int) := by unfold two63; omega
  simp [this]
theorem addSeconds_exact (t d : Int) (h0 : 0 ≤ d) (h1 : d ≤ maxDurationSeconds) : addSeconds t d = t + d * 1000000000 := by
  unfold addSeconds
  rw [wrapI64_small _ (by unfold nsPerSec; omega) (by unfold nsPerSec maxDurationSeconds at *; omega)]
  unfold nsPerSec; omega

theorem calcDuration_spec (D r : Int) (hD : 0 < D) (hr : 1 ≤ r) :
    0 ≤ calcDuration D r ∧ r * calcDuration D r ≤ D := by
  unfold calcDuration
  have hr0 : ¬ r ≤ 0 := by omega
  simp only [hr0, if_false, hD, if_true]
  have hq0 : 0 ≤ D / r := Int.ediv_nonneg (by omega) (by omega)
  have hq : r * (D / r) ≤ D := Int.mul_ediv_self_le (by omega)
  split
  · exact ⟨hq0, hq⟩
  · rename_i hnot
    -- the quotient does not fit an int64: it is larger than MaxInt64
    have hbig : maxI64 ≤ D / r := by
      unfold inI64 minI64 maxI64 at *
      simp only [Bool.and_eq_true, decide_eq_true_eq, not_and, Int.not_le] at hnot
      have := hnot (by omega)
      omega
    refine ⟨by unfold maxI64; omega, ?_⟩
    calc r * maxI64 ≤ r * (D / r) := Int.mul_le_mul_of_nonneg_left hbig (by omega)
      _ ≤ D := hq

theorem secs_superadd (a b : Int) : secsOf a + secsOf b ≤ secsOf (a + b) := by
  unfold secsOf; omega

theorem secs_add_mul (a d : Int) : secsOf (a + d * 1000000000) = secsOf a + d := by
  unfold secsOf; omega

/-- the amount released before the zero time is `min deposit (rate × whole seconds since the last release)` -/
theorem claim_amount_before_zero (now zero last D r : Int) (hlt : now < zero) (hge : last ≤ now)
    (hgap : now - last ≤ maxI64) :
    (calcAmountToClaim now zero last D r).1 = min D (r * secsOf (now - last)) ∧
    (calcAmountToClaim now zero last D r).2 = D - min D (r * secsOf (now - last)) := by
  unfold calcAmountToClaim
  have h1 : ¬ now ≥ zero := by omega
  have hsat : satDur (now - last) = now - last := by
    unfold satDur minI64 at *; unfold maxI64 at hgap
    split
    · unfold maxI64 at *; omega
    · split <;> omega
  have hsec : max (durSeconds (now - last)) 0 = secsOf (now - last) := by
    unfold durSeconds secsOf nsPerSec
    rw [Int.tdiv_eq_ediv_of_nonneg (by omega)]
    have : 0 ≤ (now - last) / 1000000000 := Int.ediv_nonneg (by omega) (by omega)
    omega
  simp only [h1, if_false, hsat, hsec]
  rw [Int.mul_comm]
  split
  · rename_i hgt
    simp only
    constructor <;> omega
  · rename_i hle
    simp only
    constructor <;> omega

/-- at or after the zero time the whole remainder is released -/
theorem claim_amount_after_zero (now zero last D r : Int) (hge : zero ≤ now) :
    calcAmountToClaim now zero last D r = (D, 0) := by
  unfold calcAmountToClaim
  simp [hge]

/-- solvency survives a claim -/
theorem solv_after_claim (now : Int) (st : Stream) (hr : 1 ≤ st.rate) (hd : 0 ≤ st.deposit) (hl : st.last ≤ now)
    (hgap : now - st.last ≤ maxI64) (hs : Solv now st) :
    Solv now { st with deposit := (calcAmountToClaim now st.zero st.last st.deposit st.rate).2, last := now } := by
  by_cases hz : st.zero ≤ now
  · rw [claim_amount_after_zero _ _ _ _ _ hz]
    exact Or.inr ⟨rfl, hz⟩
  · have hlt : now < st.zero := by omega
    obtain ⟨_, h2⟩ := claim_amount_before_zero now st.zero st.last st.deposit st.rate hlt hl hgap
    rw [h2]
    left
    simp only
    rcases hs with hs | ⟨_, hz2⟩
    · -- r·⌊zero−now⌋ + r·⌊now−last⌋ ≤ r·⌊zero−last⌋ ≤ D
      have hsup := secs_superadd (st.zero - now) (now - st.last)
      have heq : st.zero - now + (now - st.last) = st.zero - st.last := by omega
      rw [heq] at hsup
      have hmul : st.rate * (secsOf (st.zero - now) + secsOf (now - st.last)) ≤ st.rate * secsOf (st.zero - st.last) :=
        Int.mul_le_mul_of_nonneg_left hsup (by omega)
      rw [Int.mul_add] at hmul
      have hnn : 0 ≤ st.rate * secsOf (st.zero - now) :=
        Int.mul_nonneg (by omega) (by unfold secsOf; omega)
      omega
    · omega

end Mainchain

namespace Mainchain
open AL Bank

/-- history assumption: no stream goes unclaimed for 2^63 ns (~292 years) -/
def GapOK (now : Int) (x : SB) : Prop := ∀ key st, find? x.str.streams key = some st → now - st.last ≤ maxI64

theorem wf_insert (now : Int) (x : SB) (r s : Addr) (st0 st' : Stream) (hwf : StreamWF now x)
    (hf : find? x.str.streams (r, s) = some st0)
    (h1 : 1 ≤ st'.rate) (h2 : validDenom st'.denom = true) (h3 : st'.last ≤ now) (h4 : Solv now st')
    (h5 : st'.cancellable = true) :
    StreamWF now { x with str := setStream x r s st' } := by
  constructor
  · intro key st hk
    simp only [setStream, find_insert] at hk
    split at hk
    · cases hk; exact h1
    · exact hwf.rate key st hk
  · intro key st hk
    simp only [setStream, find_insert] at hk
    split at hk
    · cases hk; exact h2
    · exact hwf.denom key st hk
  · intro r' s' st hk
    simp only [setStream, find_insert] at hk
    split at hk
    · rename_i he; obtain ⟨rfl, rfl⟩ := Prod.mk.inj he; exact hwf.recv r s st0 hf
    · exact hwf.recv r' s' st hk
  · intro key st hk
    simp only [setStream, find_insert] at hk
    split at hk
    · cases hk; exact h3
    · exact hwf.lastLe key st hk
  · intro key st hk
    simp only [setStream, find_insert] at hk
    split at hk
    · cases hk; exact h4
    · exact hwf.solv key st hk
  · intro key st hk
    simp only [setStream, find_insert] at hk
    split at hk
    · cases hk; exact h5
    · exact hwf.canc key st hk

theorem wf_bank (now : Int) (x : SB) (b : Bank) (hwf : StreamWF now x) : StreamWF now { x with bank := b } :=
  ⟨hwf.rate, hwf.denom, hwf.recv, hwf.lastLe, hwf.solv, hwf.canc⟩

/-- shape of the state after `ClaimFromStream` -/
theorem claim_shape (x x' : SB) (now : Int) (r s : Addr) (o : ClaimOut) (hi : StreamInv x)
    (h : claimFromStream x now isBlocked r s = .ok (x', o)) :
    ∃ st, find? x.str.streams (r, s) = some st ∧ 0 < st.deposit ∧
      o.total = (calcAmountToClaim now st.zero st.last st.deposit st.rate).1 ∧
      o.rem = (calcAmountToClaim now st.zero st.last st.deposit st.rate).2 ∧
      x'.str = setStream x r s { st with deposit := o.rem, last := now } := by
  obtain ⟨_, hfee, _, _, st, hf, _, _, _, hsum, _, hpos, htot, hstreams⟩ := claim_spec x x' now isBlocked isBlocked_Mstr r s o hi h
  have := calcAmountToClaim_sum now st.zero st.last st.deposit st.rate
  refine ⟨st, hf, hpos, htot, by omega, ?_⟩
  cases hx : x'.str with
  | mk fee streams =>
    simp only [setStream, StreamState.mk.injEq]
    rw [hx] at hfee hstreams
    exact ⟨hfee, hstreams⟩

theorem claim_wf (x x' : SB) (now : Int) (r s : Addr) (o : ClaimOut) (hi : StreamInv x) (hwf : StreamWF now x)
    (hgap : GapOK now x) (h : claimFromStream x now isBlocked r s = .ok (x', o)) : StreamWF now x' := by
  obtain ⟨st, hf, hpos, _, hrem, hstr⟩ := claim_shape x x' now r s o hi h
  have hw := wf_insert now x r s st { st with deposit := o.rem, last := now } hwf hf (hwf.rate (r, s) st hf) (hwf.denom (r, s) st hf)
    (Int.le_refl _) (by rw [hrem]; exact solv_after_claim now st (hwf.rate (r, s) st hf) (by omega) (hwf.lastLe (r, s) st hf) (hgap (r, s) st hf) (hwf.solv (r, s) st hf))
    (hwf.canc (r, s) st hf)
  exact ⟨by rw [hstr]; exact hw.rate, by rw [hstr]; exact hw.denom, by rw [hstr]; exact hw.recv,
    by rw [hstr]; exact hw.lastLe, by rw [hstr]; exact hw.solv, by rw [hstr]; exact hw.canc⟩

theorem settle_shape (x : SB) (now : Int) (r s : Addr) (st : Stream) (z : SB × Stream) (hi : StreamInv x)
    (hf : find? x.str.streams (r, s) = some st) (h : settleIfFunded x now isBlocked r s st = .ok z) :
    (0 < st.deposit ∧ ∃ o, claimFromStream x now isBlocked r s = .ok (z.1, o) ∧
        z.2 = { st with deposit := (calcAmountToClaim now st.zero st.last st.deposit st.rate).2, last := now }) ∨
    (st.deposit ≤ 0 ∧ z = (x, st)) := by
  unfold settleIfFunded at h
  split at h
  · rename_i hpos
    left
    simp only [bind_eq_ok, pure_eq_ok] at h
    obtain ⟨y, hy, rfl⟩ := h
    obtain ⟨st0, hf0, _, _, hrem, hstr⟩ := claim_shape x y.1 now r s y.2 hi (by cases y; exact hy)
    rw [hf] at hf0; cases hf0
    refine ⟨hpos, y.2, by cases y; exact hy, ?_⟩
    simp only [hstr, setStream, find_insert_eq, Option.getD_some, hrem]
  · rename_i hnp
    right; cases h; exact ⟨by omega, rfl⟩

/-- solvency and well-formedness survive `settleIfFunded`; the refreshed stream is solvent -/
theorem settle_wf (x : SB) (now : Int) (r s : Addr) (st : Stream) (z : SB × Stream) (hi : StreamInv x)
    (hwf : StreamWF now x) (hgap : GapOK now x)
    (hf : find? x.str.streams (r, s) = some st) (h : settleIfFunded x now isBlocked r s st = .ok z) :
    StreamWF now z.1 ∧ find? z.1.str.streams (r, s) = some z.2 ∧ 1 ≤ z.2.rate ∧ z.2.rate = st.rate ∧
    validDenom z.2.denom = true ∧ z.2.denom = st.denom ∧ z.2.last ≤ now ∧ Solv now z.2 ∧ z.2.zero = st.zero ∧
    0 ≤ z.2.deposit ∧ (0 < st.deposit → z.2.last = now ∧ (st.zero ≤ now → z.2.deposit = 0)) ∧
    (st.deposit ≤ 0 → z.2 = st) ∧ z.2.cancellable = true := by
  rcases settle_shape x now r s st z hi hf h with ⟨hpos, o, hcl, hz2⟩ | ⟨hnp, rfl⟩
  · have hw := claim_wf x z.1 now r s o hi hwf hgap hcl
    obtain ⟨st0, hf0, _, _, hrem, hstr⟩ := claim_shape x z.1 now r s o hi hcl
    rw [hf] at hf0; cases hf0
    have hfind : find? z.1.str.streams (r, s) = some z.2 := by
      rw [hstr, hz2]; simp only [setStream, find_insert_eq, hrem]
    have hsum := calcAmountToClaim_sum now st.zero st.last st.deposit st.rate
    have hi' := (claim_spec x z.1 now isBlocked isBlocked_Mstr r s o hi hcl).1
    refine ⟨hw, hfind, hw.rate _ _ hfind, by rw [hz2], hw.denom _ _ hfind, by rw [hz2], hw.lastLe _ _ hfind,
      hw.solv _ _ hfind, by rw [hz2], hi'.nonneg _ _ hfind, fun _ => ⟨by rw [hz2], fun hz => ?_⟩, fun h => by omega,
      hw.canc _ _ hfind⟩
    rw [hz2, claim_amount_after_zero _ _ _ _ _ hz]
  · exact ⟨hwf, hf, hwf.rate _ _ hf, rfl, hwf.denom _ _ hf, rfl, hwf.lastLe _ _ hf, hwf.solv _ _ hf, rfl,
      hi.nonneg _ _ hf, fun h => by omega, fun _ => rfl, hwf.canc _ _ hf⟩

theorem addDeposit_wf (x x' : SB) (now : Int) (r s : Addr) (denom : String) (amt : Int) (hi : StreamInv x)
    (hwf : StreamWF now x) (hgap : GapOK now x) (hamt : 0 ≤ amt)
    (h : addDeposit x now isBlocked r s denom amt = .ok x') : StreamWF now x' := by
  simp only [addDeposit, bind_eq_ok, pure_eq_ok, require_eq_ok, decide_eq_true_eq] at h
  obtain ⟨st, hst, _, hden, y, hy, _, hvd, bank, hbank, _, hext, rfl⟩ := h
  have hfind := findStream_ok _ _ _ _ _ hst
  have hr := hwf.rate _ _ hfind
  have hext0 : 0 ≤ calcDuration amt st.rate ∧ st.rate * calcDuration amt st.rate ≤ amt := by
    by_cases h0 : amt = 0
    · subst h0; simp [calcDuration]
    · exact calcDuration_spec amt st.rate (by omega) hr
  split at hy
  · -- expired: settle, restart from now
    rename_i hexp
    simp only [bind_eq_ok, pure_eq_ok] at hy
    obtain ⟨z, hz, rfl⟩ := hy
    obtain ⟨hw, hf, hr1, hreq, hd1, hdeq, _, _, _, hnn, hpos, hnp, hcan⟩ := settle_wf x now r s st z hi hwf hgap hfind hz
    have hw' := wf_insert now z.1 r s z.2 { z.2 with last := now, deposit := z.2.deposit + amt, zero := addSeconds now (calcDuration amt st.rate) }
      hw hf hr1 hd1 (Int.le_refl _) (by
        left
        simp only
        rw [addSeconds_exact now _ hext0.1 hext, show now + calcDuration amt st.rate * 1000000000 - now = 0 + calcDuration amt st.rate * 1000000000 by omega,
          secs_add_mul, hreq]
        simp [secsOf]; omega) hcan
    exact wf_bank now _ bank hw'
  · -- running: extend
    rename_i hrun
    cases hy
    have hsolv := hwf.solv _ _ hfind
    have hw' := wf_insert now x r s st { st with deposit := st.deposit + amt, zero := addSeconds st.zero (calcDuration amt st.rate) }
      hwf hfind hr (hwf.denom (r, s) st hfind) (hwf.lastLe (r, s) st hfind) (by
        left
        simp only
        rw [addSeconds_exact st.zero _ hext0.1 hext,
          show st.zero + calcDuration amt st.rate * 1000000000 - st.last = (st.zero - st.last) + calcDuration amt st.rate * 1000000000 by omega,
          secs_add_mul, Int.mul_add]
        rcases hsolv with h1 | ⟨_, h2⟩
        · omega
        · omega) (hwf.canc (r, s) st hfind)
    exact wf_bank now _ bank hw'

theorem setNewFlowRate_wf (x x' : SB) (now : Int) (r s : Addr) (rate : Int) (hi : StreamInv x)
    (hwf : StreamWF now x) (hgap : GapOK now x) (hrate : 1 ≤ rate)
    (h : setNewFlowRate x now isBlocked r s rate = .ok x') : StreamWF now x' := by
  simp only [setNewFlowRate, bind_eq_ok] at h
  obtain ⟨st, hst, h⟩ := h
  have hfind := findStream_ok _ _ _ _ _ hst
  split at h
  · rename_i hpos
    simp only [bind_eq_ok, pure_eq_ok, require_eq_ok, decide_eq_true_eq] at h
    obtain ⟨z, hz, _, hdur, rfl⟩ := h
    obtain ⟨hw, hf, _, _, hd1, _, _, _, _, hnn, hp, _, hcan⟩ := settle_wf x now r s st z hi hwf hgap hfind hz
    have hlast := (hp hpos).1
    have hd : 0 ≤ calcDuration z.2.deposit rate ∧ rate * calcDuration z.2.deposit rate ≤ z.2.deposit := by
      by_cases h0 : z.2.deposit = 0
      · rw [h0]; simp [calcDuration]
      · exact calcDuration_spec _ rate (by omega) hrate
    have := wf_insert now z.1 r s z.2 { z.2 with rate := rate, zero := addSeconds now (calcDuration z.2.deposit rate) }
      hw hf hrate hd1 (by simp only; omega) (by
        left
        simp only
        rw [addSeconds_exact now _ hd.1 hdur, hlast,
          show now + calcDuration z.2.deposit rate * 1000000000 - now = 0 + calcDuration z.2.deposit rate * 1000000000 by omega,
          secs_add_mul]
        simp [secsOf]; omega) hcan
    exact this
  · rename_i hnp
    simp only [pure_eq_ok] at h
    subst h
    have hz : st.deposit = 0 := by have := hi.nonneg _ _ hfind; omega
    exact wf_insert now x r s st { st with rate := rate, zero := now } hwf hfind hrate (hwf.denom (r, s) st hfind)
      (hwf.lastLe (r, s) st hfind) (Or.inr ⟨hz, Int.le_refl _⟩) (hwf.canc (r, s) st hfind)

theorem cancelStream_wf (x x' : SB) (now : Int) (r s : Addr) (hi : StreamInv x)
    (hwf : StreamWF now x) (hgap : GapOK now x)
    (h : cancelStream x now isBlocked r s = .ok x') : StreamWF now x' := by
  simp only [cancelStream, bind_eq_ok, pure_eq_ok] at h
  obtain ⟨st, hst, _, _, z, hz, bank, hbank, rfl⟩ := h
  have hfind := findStream_ok _ _ _ _ _ hst
  obtain ⟨hw, _⟩ := settle_wf x now r s st z hi hwf hgap hfind hz
  have hnd := (settle_spec x now isBlocked isBlocked_Mstr r s st z hi hfind hz).1.nodup
  constructor
  · intro key st' hk
    by_cases hkey : (r, s) = key
    · subst hkey; rw [find_erase_eq _ _ hnd] at hk; cases hk
    · rw [find_erase_ne _ _ _ hkey] at hk; exact hw.rate key st' hk
  · intro key st' hk
    by_cases hkey : (r, s) = key
    · subst hkey; rw [find_erase_eq _ _ hnd] at hk; cases hk
    · rw [find_erase_ne _ _ _ hkey] at hk; exact hw.denom key st' hk
  · intro r' s' st' hk
    by_cases hkey : (r, s) = (r', s')
    · rw [← hkey, find_erase_eq _ _ hnd] at hk; cases hk
    · rw [find_erase_ne _ _ _ hkey] at hk; exact hw.recv r' s' st' hk
  · intro key st' hk
    by_cases hkey : (r, s) = key
    · subst hkey; rw [find_erase_eq _ _ hnd] at hk; cases hk
    · rw [find_erase_ne _ _ _ hkey] at hk; exact hw.lastLe key st' hk
  · intro key st' hk
    by_cases hkey : (r, s) = key
    · subst hkey; rw [find_erase_eq _ _ hnd] at hk; cases hk
    · rw [find_erase_ne _ _ _ hkey] at hk; exact hw.solv key st' hk
  · intro key st' hk
    by_cases hkey : (r, s) = key
    · subst hkey; rw [find_erase_eq _ _ hnd] at hk; cases hk
    · rw [find_erase_ne _ _ _ hkey] at hk; exact hw.canc key st' hk

end Mainchain
