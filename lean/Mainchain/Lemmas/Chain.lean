import Mainchain.Lemmas.Steps
/-
Ante-step characterisation, block-level steps and reachability.
-/
namespace Mainchain

/-- what one ante decorator can do to the state -/
inductive AnteEffect (s : State) (tx : Tx) (s' : State) : Prop where
  | none (hs : s' = s)
  | unlock (payer : Addr) (x : EB) (hp : tx.payer = some payer)
      (hk : (tx.hasKind .wrk || tx.hasKind .bcn) = true) (hl : s.ent.isLocked payer = true)
      (h : EB.unlockForFees { ent := s.ent, bank := s.bank } s.nowSec payer tx.fee = .ok x)
      (hs : s' = { s with ent := x.ent, bank := x.bank })
  | deduct (payer src : Addr) (b : Bank) (hp : tx.payer = some payer)
      (hsrc : src = payer ∨ (src, payer) ∈ s.allowances)
      (h : s.bank.sendCoins s.nowSec src Mfee tx.fee = .ok b)
      (hs : s' = { s with bank := b })

theorem feeDecorator_id (k : RegKind) (mode : Mode) (s s' : State) (tx : Tx)
    (h : feeDecorator k mode s tx = .ok s') : s' = s := by
  unfold feeDecorator at h
  split at h
  · cases h; rfl
  · simp only [bind_eq_ok, pure_eq_ok] at h
    obtain ⟨_, _, _, _, _, _, rfl⟩ := h; rfl

theorem asInsufficientFunds_ok {α : Type} (x : M α) (v : α) (h : asInsufficientFunds x = .ok v) : x = .ok v := by
  cases x with
  | ok a => simpa [asInsufficientFunds] using h
  | error e => cases e <;> simp [asInsufficientFunds] at h

theorem stepValidateBasicR_id (mode : Mode) (s s' : State) (tx : Tx) (h : stepValidateBasicR mode s tx = .ok s') : s' = s := by
  unfold stepValidateBasicR at h
  split at h
  · cases h; rfl
  · simp only [stepValidateBasic, bind_eq_ok, pure_eq_ok] at h; obtain ⟨_, _, _, _, rfl⟩ := h; rfl

theorem stepSigVerificationR_id (mode : Mode) (s s' : State) (tx : Tx) (h : stepSigVerificationR mode s tx = .ok s') : s' = s := by
  unfold stepSigVerificationR at h
  split at h
  · cases h; rfl
  · simp only [stepSigVerification, bind_eq_ok] at h
    obtain ⟨_, _, h⟩ := h
    split at h <;> simp_all

theorem anteStepM_effect (mode : Mode) (tx : Tx) (s s' : State) (name : String)
    (h : anteStepM mode tx s name = .ok s') : AnteEffect s tx s' := by
  unfold anteStepM at h
  split at h
  · rename_i f hf
    unfold anteStep at hf
    split at hf <;> (try cases hf) <;> simp only at h
    all_goals first
      | (cases h; exact .none rfl)
      | (exact .none (stepValidateBasicR_id _ _ _ _ h))
      | (exact .none (stepSigVerificationR_id _ _ _ _ h))
      | (exact .none (feeDecorator_id _ _ _ _ _ h))
      | (simp only [stepSetPubKey, bind_eq_ok, pure_eq_ok] at h; obtain ⟨_, _, _, _, _, _, rfl⟩ := h; exact .none rfl)
      | skip
    · -- CheckLockedUnd
      simp only [unlockDecorator, bind_eq_ok] at h
      obtain ⟨payer, hp, h⟩ := h
      split at h
      · rename_i hc
        simp only [bind_eq_ok, pure_eq_ok] at h
        obtain ⟨x, hx, rfl⟩ := h
        simp only [Bool.and_eq_true] at hc
        have hp' : tx.payer = some payer := by
          unfold Tx.payerM at hp; split at hp <;> simp_all
        exact .unlock payer x hp' hc.1 hc.2 hx rfl
      · simp only [pure_eq_ok] at h; exact .none h.symm
    · -- DeductFee
      simp only [deductFee, bind_eq_ok] at h
      obtain ⟨payer, hp, src, hsrc, _, _, h⟩ := h
      split at h
      · simp only [pure_eq_ok] at h; exact .none h.symm
      · simp only [bind_eq_ok, pure_eq_ok] at h
        obtain ⟨_, _, b, hb, rfl⟩ := h
        have hp' : tx.payer = some payer := by
          unfold Tx.payerM at hp; split at hp <;> simp_all
        have hsrc' : src = payer ∨ (src, payer) ∈ s.allowances := by
          unfold feeSource at hsrc
          split at hsrc
          · cases hsrc; exact Or.inl rfl
          · simp only [bind_eq_ok, pure_eq_ok, require_eq_ok, Bool.or_eq_true, decide_eq_true_eq] at hsrc
            obtain ⟨_, hc, rfl⟩ := hsrc
            rcases hc with hc | hc
            · exact Or.inl hc
            · exact Or.inr (by simpa using hc)
        exact .deduct payer src b hp' hsrc' (asInsufficientFunds_ok _ _ hb) rfl
  · cases h

/-- the whole ante chain is a sequence of ante effects -/
theorem ante_rel (R : State → State → Prop) (hrefl : ∀ s, R s s) (htrans : ∀ a b c, R a b → R b c → R a c)
    (tx : Tx) (heff : ∀ s s', AnteEffect s tx s' → R s s')
    (order : List String) (mode : Mode) (s s' : State) (h : ante order mode s tx = .ok s') : R s s' := by
  unfold ante at h
  exact foldlM_rel R hrefl htrans (anteStepM mode tx) order
    (fun a name b hb => heff a b (anteStepM_effect mode tx a b name hb)) s s' h

/-- one step of the application state machine on the working (or check) state -/
inductive ChainStep (s s' : State) : Prop where
  | begin (t : Int) (ht : s.time ≤ t) (h : beginBlock Facts.beginBlockSteps { s with time := t } = .ok s')
  | deliver (wall : Nat) (tx : Tx) (hs : s' = (deliverTx Facts.anteOrder wall s tx).1)
  | check (tx : Tx) (hs : s' = (checkTx Facts.anteOrder s tx).1)
  | recheck (tx : Tx) (hs : s' = (recheckTx Facts.anteOrder s tx).1)
  | gov (wall : Nat) (m : Msg) (hs : s' = (govExec wall s m).1)
  | govAll (wall : Nat) (msgs : List Msg) (hs : s' = (govExecAll wall s msgs).1)

/-- states reachable from the scenario genesis `g` by any history of blocks and transactions -/
inductive Reachable (g : GenCfg) : State → Prop where
  | init : Reachable g (initState g)
  | step (s s' : State) (hr : Reachable g s) (hs : ChainStep s s') : Reachable g s'

theorem inv_reachable (g : GenCfg) (Inv : State → Prop) (hinit : Inv (initState g))
    (hstep : ∀ s s', Inv s → ChainStep s s' → Inv s') : ∀ s, Reachable g s → Inv s := by
  intro s hr
  induction hr with
  | init => exact hinit
  | step s s' _ hs ih => exact hstep s s' ih hs

/-- reachability through states that all satisfy a *history assumption* `P` (e.g. "no 64-bit counter
has reached 2^64 − 1 yet", "amounts stay below 2^255") -/
inductive ReachableP (g : GenCfg) (P : State → Prop) : State → Prop where
  | init (h : P (initState g)) : ReachableP g P (initState g)
  | step (s s' : State) (hr : ReachableP g P s) (hs : ChainStep s s') (hp : P s') : ReachableP g P s'

theorem ReachableP.holds {g : GenCfg} {P : State → Prop} {s : State} (h : ReachableP g P s) : P s := by
  cases h with
  | init h => exact h
  | step _ _ _ _ hp => exact hp

theorem invP_reachable (g : GenCfg) (P Inv : State → Prop) (hinit : P (initState g) → Inv (initState g))
    (hstep : ∀ s s', P s → P s' → Inv s → ChainStep s s' → Inv s') : ∀ s, ReachableP g P s → Inv s := by
  intro s hr
  induction hr with
  | init h => exact hinit h
  | step s s' hr hs hp ih => exact hstep s s' hr.holds hp ih hs

end Mainchain
