import Mainchain.Lemmas.EntLife
/-
The enterprise BeginBlocker as a whole: what the tally and the completion pass do to every order.
-/
namespace Mainchain
open AL

/-- the record of a raised order after the tally -/
def tallyRec (p : EntParams) (now : Nat) (po : PO) : PO :=
  match EntState.tallyDecision p now po with
  | none => po
  | some st => { po with status := st, completionTime := now }

theorem tallyOne_orders (e e' : EntState) (now id : Nat) (h : e.tallyOne now id = .ok e') :
    e'.params = e.params ∧ (∀ x, x ≠ id → find? e'.orders x = find? e.orders x) ∧
    ∃ po, find? e.orders id = some po ∧ po.status = stRaised ∧ find? e'.orders id = some (tallyRec e.params now po) := by
  unfold EntState.tallyOne at h
  split at h
  · cases h
  · rename_i po hf
    split at h
    · cases h
    · rename_i hst
      have hst : po.status = stRaised := by simpa using hst
      split at h
      · rename_i hd
        cases h
        exact ⟨rfl, fun _ _ => rfl, po, hf, hst, by simp [tallyRec, hd, hf]⟩
      · rename_i st hd
        cases h
        refine ⟨by split <;> rfl, ?_, po, hf, hst, ?_⟩
        · intro x hx
          have : id ≠ x := fun h => hx h.symm
          split <;> simp [find_insert_ne _ _ _ _ this]
        · split <;> simp [tallyRec, hd]

theorem tally_fold (now : Nat) : ∀ (q : List Nat) (e e' : EntState), q.Nodup →
    q.foldlM (fun (e : EntState) (id : Nat) => e.tallyOne now id) e = .ok e' →
    e'.params = e.params ∧ (∀ x, x ∉ q → find? e'.orders x = find? e.orders x) ∧
    (∀ x ∈ q, ∃ po, find? e.orders x = some po ∧ po.status = stRaised ∧
      find? e'.orders x = some (tallyRec e.params now po)) := by
  intro q
  induction q with
  | nil => intro e e' _ h; simp [List.foldlM] at h; subst h; exact ⟨rfl, fun _ _ => rfl, by simp⟩
  | cons id rest ih =>
    intro e e' hnd h
    simp only [List.foldlM_cons, bind_eq_ok] at h
    obtain ⟨e1, h1, h2⟩ := h
    have hn := List.nodup_cons.mp hnd
    obtain ⟨p1, o1, po, hf, hst, hid⟩ := tallyOne_orders e e1 now id h1
    obtain ⟨p2, o2, r2⟩ := ih e1 e' hn.2 h2
    refine ⟨p2.trans p1, ?_, ?_⟩
    · intro x hx
      simp only [List.mem_cons, not_or] at hx
      rw [o2 x hx.2, o1 x hx.1]
    · intro x hx
      rcases List.mem_cons.mp hx with he | hm
      · subst he
        exact ⟨po, hf, hst, by rw [o2 x hn.1, hid]⟩
      · have hne : x ≠ id := fun he => hn.1 (he ▸ hm)
        obtain ⟨q, hq, hqs, hq'⟩ := r2 x hm
        rw [o1 x hne] at hq
        exact ⟨q, hq, hqs, by rw [hq', p1]⟩

/-- **the tally** : every raised order gets exactly the decision of the rule; nothing else changes -/
theorem tally_spec (e e' : EntState) (now : Nat) (hi : BookInv e) (h : e.tally now = .ok e') :
    e'.params = e.params ∧
    ∀ id po, find? e.orders id = some po →
      find? e'.orders id = some (if po.status = stRaised then tallyRec e.params now po else po) := by
  obtain ⟨hp, ho, hr⟩ := tally_fold now e.raisedQ e e' (asc_nodup _ hi.rqAsc) h
  refine ⟨hp, ?_⟩
  intro id po hf
  by_cases hst : po.status = stRaised
  · simp only [hst, if_true]
    obtain ⟨q, hq, _, hq'⟩ := hr id ((hi.rq id).mpr ⟨po, hf, hst⟩)
    rw [hf] at hq; cases hq; exact hq'
  · simp only [hst, if_false]
    have : id ∉ e.raisedQ := by
      intro hm
      obtain ⟨q, hq, hs⟩ := (hi.rq id).mp hm
      rw [hf] at hq; cases hq; exact hst hs
    rw [ho id this]; exact hf

theorem completeOne_orders (x x' : EB) (now : Int) (bl : Addr → Bool) (id : Nat) (h : EB.completeOne x now bl id = .ok x') :
    (∀ y, y ≠ id → find? x'.ent.orders y = find? x.ent.orders y) ∧
    ∃ po, find? x.ent.orders id = some po ∧ po.status = stAccepted ∧
      find? x'.ent.orders id = some { po with status := stCompleted } := by
  unfold EB.completeOne at h
  split at h
  · cases h
  · rename_i po hf
    split at h
    · cases h
    · rename_i hst
      have hst : po.status = stAccepted := by simpa using hst
      split at h
      · cases h
      · simp only [bind_eq_ok, pure_eq_ok] at h
        obtain ⟨x2, hx2, rfl⟩ := h
        have hb := mintAndLock_book _ _ _ _ _ _ (asPanic_ok _ _ hx2)
        simp only [EntState.book, Prod.mk.injEq] at hb
        refine ⟨?_, po, hf, hst, ?_⟩
        · intro y hy
          have : id ≠ y := fun h => hy h.symm
          simp only [hb.2.2.1, find_insert_ne _ _ _ _ this]
        · simp only [hb.2.2.1, find_insert_eq]

theorem process_fold (now : Int) (bl : Addr → Bool) : ∀ (q : List Nat) (x x' : EB), q.Nodup →
    q.foldlM (fun (x : EB) (id : Nat) => EB.completeOne x now bl id) x = .ok x' →
    (∀ y, y ∉ q → find? x'.ent.orders y = find? x.ent.orders y) ∧
    (∀ y ∈ q, ∃ po, find? x.ent.orders y = some po ∧ po.status = stAccepted ∧
      find? x'.ent.orders y = some { po with status := stCompleted }) := by
  intro q
  induction q with
  | nil => intro x x' _ h; simp [List.foldlM] at h; subst h; exact ⟨fun _ _ => rfl, by simp⟩
  | cons id rest ih =>
    intro x x' hnd h
    simp only [List.foldlM_cons, bind_eq_ok] at h
    obtain ⟨x1, h1, h2⟩ := h
    have hn := List.nodup_cons.mp hnd
    obtain ⟨o1, po, hf, hst, hid⟩ := completeOne_orders x x1 now bl id h1
    obtain ⟨o2, r2⟩ := ih x1 x' hn.2 h2
    refine ⟨?_, ?_⟩
    · intro y hy
      simp only [List.mem_cons, not_or] at hy
      rw [o2 y hy.2, o1 y hy.1]
    · intro y hy
      rcases List.mem_cons.mp hy with he | hm
      · subst he
        exact ⟨po, hf, hst, by rw [o2 y hn.1, hid]⟩
      · have hne : y ≠ id := fun he => hn.1 (he ▸ hm)
        obtain ⟨q, hq, hqs, hq'⟩ := r2 y hm
        rw [o1 y hne] at hq
        exact ⟨q, hq, hqs, hq'⟩

/-- **the completion pass** : every accepted order becomes completed; nothing else changes in the book -/
theorem process_spec (x x' : EB) (now : Int) (bl : Addr → Bool) (hi : BookInv x.ent)
    (h : EB.processAccepted x now bl = .ok x') :
    ∀ id po, find? x.ent.orders id = some po →
      find? x'.ent.orders id = some (if po.status = stAccepted then { po with status := stCompleted } else po) := by
  obtain ⟨ho, hr⟩ := process_fold now bl x.ent.acceptedQ x x' (asc_nodup _ hi.aqAsc) h
  intro id po hf
  by_cases hst : po.status = stAccepted
  · simp only [hst, if_true]
    obtain ⟨q, hq, _, hq'⟩ := hr id ((hi.aq id).mpr ⟨po, hf, hst⟩)
    rw [hf] at hq; cases hq; exact hq'
  · simp only [hst, if_false]
    have : id ∉ x.ent.acceptedQ := by
      intro hm
      obtain ⟨q, hq, hs⟩ := (hi.aq id).mp hm
      rw [hf] at hq; cases hq; exact hst hs
    rw [ho id this]; exact hf

theorem processAccepted_book (x x' : EB) (now : Int) (bl : Addr → Bool) (hi : BookInv x.ent)
    (h : EB.processAccepted x now bl = .ok x') : BookInv x'.ent ∧ x'.ent.params = x.ent.params := by
  unfold EB.processAccepted at h
  have := foldlM_preserves (fun (y : EB) => BookInv y.ent ∧ y.ent.params = x.ent.params)
    (fun (y : EB) (id : Nat) => EB.completeOne y now bl id) x.ent.acceptedQ
    (fun a id b ha hb => ⟨completeOne_book a b now bl id ha.1 hb, (completeOne_frame a b now bl id hb).1.trans ha.2⟩)
    x x' ⟨hi, rfl⟩ h
  exact this

/-- the whole enterprise BeginBlocker in the repository's statement order (completion pass, then tally) -/
theorem beginBlock_orders (s s' : State) (hi : BookInv s.ent)
    (h : beginBlock ["ProcessAcceptedPurchaseOrders", "TallyPurchaseOrderDecisions"] s = .ok s') :
    ∀ id po, find? s.ent.orders id = some po →
      find? s'.ent.orders id = some
        (if po.status = stAccepted then { po with status := stCompleted }
         else if po.status = stRaised then tallyRec s.ent.params s.nowSecU po else po) := by
  simp only [beginBlock, List.foldlM_cons, List.foldlM_nil, beginStep, bind_eq_ok, pure_eq_ok] at h
  obtain ⟨s1, ⟨x, hx, rfl⟩, s2, ⟨e, he, rfl⟩, rfl⟩ := h
  obtain ⟨hi1, hp1⟩ := processAccepted_book _ _ _ _ hi hx
  have hps := process_spec _ _ _ _ hi hx
  obtain ⟨_, hts⟩ := tally_spec _ _ _ hi1 he
  intro id po hf
  have h1 := hps id po hf
  have h2 := hts id _ h1
  simp only at h2 ⊢
  rw [h2]
  by_cases ha : po.status = stAccepted
  · simp [ha, stCompleted, stRaised]
  · simp only [ha, if_false]
    have hp1' : x.ent.params = s.ent.params := hp1
    simp only [State.nowSecU, State.nowSec] at *
    rw [hp1']

end Mainchain
