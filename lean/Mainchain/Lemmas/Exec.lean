import Mainchain.Model.Chain
import Mainchain.Lemmas.Monad
/-
Generic lifting: a reflexive–transitive relation that holds for every *leaf* message-server step
holds for every message (authz.exec nesting of any depth), every transaction, every block.
-/
namespace Mainchain

def Msg.isLeaf : Msg → Bool
  | .authzExec .. => false
  | _ => true

mutual
def Msg.depth : Msg → Nat
  | .authzExec _ msgs => Msg.depthList msgs + 1
  | _ => 0
def Msg.depthList : List Msg → Nat
  | [] => 0
  | m :: ms => max (Msg.depth m) (Msg.depthList ms)
end

theorem Msg.leaf_of_depth_zero (m : Msg) (h : m.depth = 0) : m.isLeaf = true := by
  cases m <;> simp_all [Msg.depth, Msg.isLeaf]

section lift
variable (wall : Nat) (R : State → State → Prop)
variable (hrefl : ∀ s, R s s) (htrans : ∀ a b c, R a b → R b c → R a c)
variable (hleaf : ∀ s m s' r, m.isLeaf = true → execMsg wall s m = .ok (s', r) → R s s')

include hrefl htrans hleaf in
theorem exec_rel_aux : ∀ n, (∀ m, m.depth ≤ n → ∀ s s' r, execMsg wall s m = .ok (s', r) → R s s') := by
  intro n
  induction n with
  | zero =>
    intro m hm s s' r h
    exact hleaf s m s' r (Msg.leaf_of_depth_zero m (by omega)) h
  | succ n ih =>
    intro m hm s s' r h
    cases hm' : m.isLeaf with
    | true => exact hleaf s m s' r hm' h
    | false =>
      cases m <;> simp [Msg.isLeaf] at hm'
      rename_i g msgs
      simp only [execMsg, bind_eq_ok, pure_eq_ok, Prod.mk.injEq] at h
      obtain ⟨grantee, _, s1, hd, rfl, _⟩ := h
      simp only [Msg.depth] at hm
      have hl : Msg.depthList msgs ≤ n := by omega
      clear hm
      -- dispatch by induction over the payload
      revert s s1
      induction msgs with
      | nil =>
        intro s s1 hd
        simp only [dispatch, pure_eq_ok] at hd
        subst hd; exact hrefl s
      | cons m ms ihms =>
        intro s s1 hd
        simp only [dispatch, bind_eq_ok] at hd
        obtain ⟨_, _, _, _, _, _, x, hx, hrest⟩ := hd
        simp only [Msg.depthList] at hl
        have h1 : R s x.1 := ih m (by omega) s x.1 x.2 (by cases x; exact hx)
        exact htrans _ _ _ h1 (ihms (by omega) x.1 s1 hrest)

include hrefl htrans hleaf in
/-- every message execution (any nesting depth) is an `R` step -/
theorem exec_rel (m : Msg) (s s' : State) (r : Resp) (h : execMsg wall s m = .ok (s', r)) : R s s' :=
  exec_rel_aux wall R hrefl htrans hleaf m.depth m (Nat.le_refl _) s s' r h

include hrefl htrans hleaf in
theorem handle_rel (m : Msg) (s s' : State) (r : Resp) (h : handle wall s m = .ok (s', r)) : R s s' := by
  simp only [handle, bind_eq_ok] at h
  obtain ⟨_, _, h2⟩ := h
  exact exec_rel wall R hrefl htrans hleaf m s s' r h2

include hrefl htrans hleaf in
/-- all messages of a transaction -/
theorem runMsgs_rel (msgs : List Msg) (s s' : State) (rs : List Resp)
    (h : runMsgs wall s msgs = .ok (s', rs)) : R s s' := by
  unfold runMsgs at h
  have := foldlM_rel (σ := State × List Resp) (fun a b => R a.1 b.1) (fun a => hrefl a.1)
    (fun a b c => htrans a.1 b.1 c.1)
    (fun (acc : State × List Resp) m => do
      let (s', r) ← handle wall acc.1 m
      pure (s', acc.2 ++ [r])) msgs
    (by
      intro a m b hb
      simp only [bind_eq_ok, pure_eq_ok] at hb
      obtain ⟨x, hx, rfl⟩ := hb
      exact handle_rel wall R hrefl htrans hleaf m a.1 x.1 x.2 (by cases x; exact hx))
    (s, []) (s', rs) h
  exact this

include hrefl htrans hleaf in
/-- governance execution in EndBlock -/
theorem govExec_rel (m : Msg) (s : State) : R s (govExec wall s m).1 := by
  unfold govExec
  split
  · rename_i s' r h
    exact handle_rel wall R hrefl htrans hleaf m s s' r h
  · exact hrefl s

end lift

/-- the transaction pipeline: if ante steps and message steps are `R` steps, so is `deliverTx` -/
theorem deliverTx_rel (wall : Nat) (R : State → State → Prop)
    (hrefl : ∀ s, R s s) (htrans : ∀ a b c, R a b → R b c → R a c)
    (hleaf : ∀ s m s' r, m.isLeaf = true → execMsg wall s m = .ok (s', r) → R s s')
    (order : List String)
    (hante : ∀ s tx s', ante order .deliver s tx = .ok s' → R s s')
    (s : State) (tx : Tx) : R s (deliverTx order wall s tx).1 := by
  unfold deliverTx
  split
  · exact hrefl s
  · split
    · exact hrefl s
    · split
      · exact hrefl s
      · rename_i s1 h1
        split
        · exact hante s tx s1 h1
        · rename_i s2 rs h2
          exact htrans _ _ _ (hante s tx s1 h1) (runMsgs_rel wall R hrefl htrans hleaf tx.msgs s1 s2 rs h2)

theorem checkTx_rel (R : State → State → Prop) (hrefl : ∀ s, R s s) (order : List String)
    (hante : ∀ s tx s', ante order .check s tx = .ok s' → R s s')
    (s : State) (tx : Tx) : R s (checkTx order s tx).1 := by
  unfold checkTx
  split
  · exact hrefl s
  · split
    · exact hrefl s
    · split
      · exact hrefl s
      · rename_i s1 h1; exact hante s tx s1 h1

end Mainchain
