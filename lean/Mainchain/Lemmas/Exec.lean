import Mainchain.Model.Chain
import Mainchain.Lemmas.Monad
/-
Generic lifting: a reflexive–transitive relation that holds for every *leaf* message-server step
holds for every message (authz.exec nesting of any depth), every transaction, every block.
-/
namespace Mainchain

def Msg.isLeaf : Msg → Bool
  | .authzExec .. => false
  | _ => true

mutual
def Msg.depth : Msg → Nat
  | .authzExec _ msgs => Msg.depthList msgs + 1
  | _ => 0
def Msg.depthList : List Msg → Nat
  | [] => 0
  | m :: ms => max (Msg.depth m) (Msg.depthList ms)
end

theorem Msg.leaf_of_depth_zero (m : Msg) (h : m.depth = 0) : m.isLeaf = true := by
  cases m <;> simp_all [Msg.depth, Msg.isLeaf]

section lift
variable (wall : Nat) (R : State → State → Prop)
variable (hrefl : ∀ s, R s s) (htrans : ∀ a b c, R a b → R b c → R a c)
variable (hleaf : ∀ s m s' r, m.isLeaf = true → execMsg wall s m = .ok (s', r) → R s s')

include hrefl htrans hleaf in
theorem exec_rel_aux : ∀ n, (∀ m, m.depth ≤ n → ∀ s s' r, execMsg wall s m = .ok (s', r) → R s s') := by
  intro n
  induction n with
  | zero =>
    intro m hm s s' r h
    exact hleaf s m s' r (Msg.leaf_of_depth_zero m (by omega)) h
  | succ n ih =>
    intro m hm s s' r h
    cases hm' : m.isLeaf with
    | true => exact hleaf s m s' r hm' h
    | false =>
      cases m <;> simp [Msg.isLeaf] at hm'
      rename_i g msgs
      simp only [execMsg, bind_eq_ok, pure_eq_ok, Prod.mk.injEq] at h
      obtain ⟨grantee, _, s1, hd, rfl, _⟩ := h
      simp only [Msg.depth] at hm
      have hl : Msg.depthList msgs ≤ n := by omega
      clear hm
      -- dispatch by induction over the payload
      revert s s1
      induction msgs with
      | nil =>
        intro s s1 hd
        simp only [dispatch, pure_eq_ok] at hd
        subst hd; exact hrefl s
      | cons m ms ihms =>
        intro s s1 hd
        simp only [dispatch, bind_eq_ok] at hd
        obtain ⟨_, _, _, _, _, _, x, hx, hrest⟩ := hd
        simp only [Msg.depthList] at hl
        have h1 : R s x.1 := ih m (by omega) s x.1 x.2 (by cases x; exact hx)
        exact htrans _ _ _ h1 (ihms (by omega) x.1 s1 hrest)

include hrefl htrans hleaf in
/-- every message execution (any nesting depth) is an `R` step -/
theorem exec_rel (m : Msg) (s s' : State) (r : Resp) (h : execMsg wall s m = .ok (s', r)) : R s s' :=
  exec_rel_aux wall R hrefl htrans hleaf m.depth m (Nat.le_refl _) s s' r h

include hrefl htrans hleaf in
theorem handle_rel (m : Msg) (s s' : State) (r : Resp) (h : handle wall s m = .ok (s', r)) : R s s' := by
  simp only [handle, bind_eq_ok] at h
  obtain ⟨_, _, h2⟩ := h
  exact exec_rel wall R hrefl htrans hleaf m s s' r h2

include hrefl htrans hleaf in
/-- all messages of a transaction -/
theorem runMsgs_rel (msgs : List Msg) (s s' : State) (rs : List Resp)
    (h : runMsgs wall s msgs = .ok (s', rs)) : R s s' := by
  unfold runMsgs at h
  have := foldlM_rel (σ := State × List Resp) (fun a b => R a.1 b.1) (fun a => hrefl a.1)
    (fun a b c => htrans a.1 b.1 c.1)
    (fun (acc : State × List Resp) m => do
      let (s', r) ← handle wall acc.1 m
      pure (s', acc.2 ++ [r])) msgs
    (by
      intro a m b hb
      simp only [bind_eq_ok, pure_eq_ok] at hb
      obtain ⟨x, hx, rfl⟩ := hb
      exact handle_rel wall R hrefl htrans hleaf m a.1 x.1 x.2 (by cases x; exact hx))
    (s, []) (s', rs) h
  exact this

include hrefl htrans hleaf in
/-- governance execution in EndBlock -/
theorem govExec_rel (m : Msg) (s : State) : R s (govExec wall s m).1 := by
  unfold govExec
  split
  · exact hrefl s
  · split
    · rename_i s' r h
      exact handle_rel wall R hrefl htrans hleaf m s s' r h
    · exact hrefl s

include hrefl htrans hleaf in
/-- a governance proposal with several messages in EndBlock -/
theorem govExecAll_rel (msgs : List Msg) (s : State) : R s (govExecAll wall s msgs).1 := by
  unfold govExecAll
  split
  · split
    · rename_i s' rs h
      exact runMsgs_rel wall R hrefl htrans hleaf msgs s s' rs h
    · exact hrefl s
  · exact hrefl s

end lift

/-- the transaction pipeline: if ante steps and message steps are `R` steps, so is `deliverTx` -/
theorem deliverTx_rel (wall : Nat) (R : State → State → Prop)
    (hrefl : ∀ s, R s s) (htrans : ∀ a b c, R a b → R b c → R a c)
    (hleaf : ∀ s m s' r, m.isLeaf = true → execMsg wall s m = .ok (s', r) → R s s')
    (order : List String)
    (hante : ∀ s tx s', ante order .deliver s tx = .ok s' → R s s')
    (s : State) (tx : Tx) : R s (deliverTx order wall s tx).1 := by
  unfold deliverTx
  split
  · exact hrefl s
  · split
    · exact hrefl s
    · split
      · exact hrefl s
      · rename_i s1 h1
        split
        · exact hante s tx s1 h1
        · rename_i s2 rs h2
          exact htrans _ _ _ (hante s tx s1 h1) (runMsgs_rel wall R hrefl htrans hleaf tx.msgs s1 s2 rs h2)

theorem checkTx_rel (R : State → State → Prop) (hrefl : ∀ s, R s s) (order : List String)
    (hante : ∀ s tx s', ante order .check s tx = .ok s' → R s s')
    (s : State) (tx : Tx) : R s (checkTx order s tx).1 := by
  unfold checkTx
  split
  · exact hrefl s
  · split
    · exact hrefl s
    · split
      · exact hrefl s
      · rename_i s1 h1; exact hante s tx s1 h1

/-! ### lifting with signer tracking

`MaySign a` : somebody can make `a` the signer of an executed message — a user key holder, or the
gov module for proposal messages.  `GrantsOK s` : every authz grant was given by such an address.
A leaf handler then only ever runs for a message whose `GetSigners()[0]` may sign. -/

/-- key holders, the gov module account, and the accounts beyond the module range (addresses that are not key-derived —
module-derived, group-policy, interchain accounts: they act only through authz grants present in the genesis) -/
def MaySign (a : Addr) : Prop := a < 1000 ∨ a = Mgov ∨ 2000 ≤ a

def GrantsOK (s : State) : Prop :=
  (∀ g e k, (g, e, k) ∈ s.grants → MaySign g) ∧ (∀ g e, (g, e) ∈ s.allowances → MaySign g)

def Msg.SignedOK (m : Msg) : Prop := ∃ a, m.signer = some a ∧ MaySign a

section signed
variable (wall : Nat) (R : State → State → Prop)
variable (hrefl : ∀ s, R s s) (htrans : ∀ a b c, R a b → R b c → R a c)
variable (hleaf : ∀ s m s' r, m.isLeaf = true → GrantsOK s → m.SignedOK → execMsg wall s m = .ok (s', r) →
    R s s' ∧ GrantsOK s')

include hrefl htrans hleaf in
theorem exec_signed_aux : ∀ n, (∀ m, m.depth ≤ n → ∀ s s' r, GrantsOK s → m.SignedOK →
    execMsg wall s m = .ok (s', r) → R s s' ∧ GrantsOK s') := by
  intro n
  induction n with
  | zero =>
    intro m hm s s' r hg hs h
    exact hleaf s m s' r (Msg.leaf_of_depth_zero m (by omega)) hg hs h
  | succ n ih =>
    intro m hm s s' r hg hs h
    cases hm' : m.isLeaf with
    | true => exact hleaf s m s' r hm' hg hs h
    | false =>
      cases m <;> simp [Msg.isLeaf] at hm'
      rename_i g msgs
      simp only [execMsg, bind_eq_ok, pure_eq_ok, Prod.mk.injEq, decodeM_eq_ok] at h
      obtain ⟨grantee, hgd, s1, hd, rfl, _⟩ := h
      -- the wrapper's signer is the grantee
      have hgrantee : MaySign grantee := by
        obtain ⟨a, ha, hpa⟩ := hs
        simp only [Msg.signer, Msg.signerTok, Option.bind_some] at ha
        rw [hgd] at ha; cases ha; exact hpa
      simp only [Msg.depth] at hm
      have hl : Msg.depthList msgs ≤ n := by omega
      clear hm hs
      have key : ∀ (msgs : List Msg), Msg.depthList msgs ≤ n → ∀ (s s1 : State), GrantsOK s →
          dispatch wall grantee s msgs = .ok s1 → R s s1 ∧ GrantsOK s1 := by
        intro msgs
        induction msgs with
        | nil =>
          intro _ s s1 hg hd
          simp only [dispatch, pure_eq_ok] at hd
          subst hd; exact ⟨hrefl s, hg⟩
        | cons m ms ihms =>
          intro hl s s1 hg hd
          simp only [dispatch, bind_eq_ok, require_eq_ok, Bool.or_eq_true, decide_eq_true_eq] at hd
          obtain ⟨granter, hgr, _, hauth, _, _, x, hx, hrest⟩ := hd
          simp only [Msg.depthList] at hl
          have hsig : m.SignedOK := by
            refine ⟨granter, ?_, ?_⟩
            · unfold Msg.signerM at hgr; split at hgr <;> simp_all
            · rcases hauth with he | hc
              · rw [he]; exact hgrantee
              · exact hg.1 granter grantee m.kind (by simpa using hc)
          obtain ⟨h1, hg1⟩ := ih m (by omega) s x.1 x.2 hg hsig (by cases x; exact hx)
          obtain ⟨h2, hg2⟩ := ihms (by omega) x.1 s1 hg1 hrest
          exact ⟨htrans _ _ _ h1 h2, hg2⟩
      exact key msgs hl s s1 hg hd

include hrefl htrans hleaf in
/-- every message execution whose outermost signer may sign is an `R` step and keeps `GrantsOK` -/
theorem exec_signed (m : Msg) (s s' : State) (r : Resp) (hg : GrantsOK s) (hs : m.SignedOK)
    (h : execMsg wall s m = .ok (s', r)) : R s s' ∧ GrantsOK s' :=
  exec_signed_aux wall R hrefl htrans hleaf m.depth m (Nat.le_refl _) s s' r hg hs h

include hrefl htrans hleaf in
theorem runMsgs_signed (msgs : List Msg) (s s' : State) (rs : List Resp) (hg : GrantsOK s)
    (hs : ∀ m ∈ msgs, m.SignedOK) (h : runMsgs wall s msgs = .ok (s', rs)) : R s s' ∧ GrantsOK s' := by
  unfold runMsgs at h
  revert s rs
  suffices ∀ (acc acc' : State × List Resp), GrantsOK acc.1 →
      msgs.foldlM (fun (acc : State × List Resp) m => do
        let (s', r) ← handle wall acc.1 m
        pure (s', acc.2 ++ [r])) acc = .ok acc' → R acc.1 acc'.1 ∧ GrantsOK acc'.1 by
    intro s rs hg h; exact this (s, []) (s', rs) hg h
  induction msgs with
  | nil => intro acc acc' hg h; simp [List.foldlM] at h; subst h; exact ⟨hrefl _, hg⟩
  | cons m ms ih =>
    intro acc acc' hg h
    simp only [List.foldlM_cons, bind_eq_ok, pure_eq_ok] at h
    obtain ⟨acc1, ⟨x, hx, rfl⟩, h2⟩ := h
    simp only [handle, bind_eq_ok] at hx
    obtain ⟨_, _, hx⟩ := hx
    obtain ⟨h1, hg1⟩ := exec_signed wall R hrefl htrans hleaf m acc.1 x.1 x.2 hg (hs m (by simp)) (by cases x; exact hx)
    obtain ⟨h3, hg3⟩ := ih (fun m' hm' => hs m' (by simp [hm'])) _ acc' hg1 h2
    exact ⟨htrans _ _ _ h1 h3, hg3⟩

end signed

end Mainchain
