import Mainchain.Lemmas.PaginateWalk
/-
The page limit `query.MaxLimit` = 2^64 − 1, the one value at which `end + 1` of the SDK's offset loop wraps to 0: the
first page may stop after the first entry, yet following `next_key` still returns every matching entry exactly once.
-/
namespace Mainchain
namespace Paginate
open Keys

variable {α : Type}

def maxLimit : Nat := 18446744073709551615

theorem addU64_max_one : addU64 maxLimit 1 = 0 := by decide

/-- once one hit has been counted the wrapped comparison `numHits == 0` never fires again: the loop runs to the end
of the section and accumulates every hit -/
theorem offLoop_max_rest (h : Bytes → α → Bool) : ∀ (l : List (Bytes × α)) (n : Nat) (acc : List α),
    1 ≤ n → n + l.length ≤ maxLimit →
    offLoop (fun k v => some (h k v)) 0 maxLimit false l n acc [] =
      some { items := acc ++ (hitsOf h l).map (·.2), next := [], total := 0 } := by
  intro l
  induction l with
  | nil => intro n acc _ _; simp [offLoop]
  | cons x l ih =>
    intro n acc hn hlen
    obtain ⟨k, v⟩ := x
    simp only [List.length_cons] at hlen
    have hlt : n < maxLimit := by omega
    by_cases hh : h k v = true
    · have hne : ¬ (n + 1 = 0) := by omega
      simp only [offLoop, addU64_max_one, hh, if_true, Bool.true_and, Nat.zero_le, decide_true, hlt, hne, if_false, hitsOf_cons,
        List.map_cons]
      rw [ih (n + 1) _ (by omega) (by omega)]
      simp
    · have hh' : h k v = false := by simpa using hh
      have hne : ¬ (n = 0) := by omega
      simp only [offLoop, addU64_max_one, hh', Bool.false_and, Bool.false_eq_true, if_false, hne, hitsOf_cons]
      exact ih n acc hn (by omega)

/-- the first page at `limit = 2^64 − 1`: everything when the first entry matches, nothing but a `next_key` (the first
key) when it does not -/
theorem first_page_max (k : Bytes) (v : α) (rest : List (Bytes × α)) (h : Bytes → α → Bool)
    (hlen : rest.length + 2 ≤ maxLimit) :
    filtered ((k, v) :: rest) { limit := maxLimit } (fun k v => some (h k v)) =
      if h k v then some { items := (hitsOf h ((k, v) :: rest)).map (·.2), next := [], total := 0 }
      else some { items := [], next := k, total := 0 } := by
  have hne : ¬ (maxLimit = 0) := by decide
  have hadd : addU64 0 maxLimit = maxLimit := by decide
  simp only [filtered, hne, if_false, iter, Bool.not_false, if_true, ne_eq, not_true_eq_false, and_false, hadd]
  by_cases hh : h k v = true
  · have h10 : ¬ ((0 : Nat) + 1 = 0) := by omega
    have hlt : (0 : Nat) < maxLimit := by decide
    simp only [offLoop, addU64_max_one, hh, if_true, Bool.true_and, Nat.le_refl, decide_true, hlt, h10, if_false, hitsOf_cons,
      List.map_cons, List.nil_append]
    rw [offLoop_max_rest h rest 1 [v] (Nat.le_refl _) (by omega)]
    simp
  · have hh' : h k v = false := by simpa using hh
    simp [offLoop, addU64_max_one, hh']

/-- **Complete and duplicate-free also at the largest page limit.** -/
theorem walkKeys_complete_max (kvs : List (Bytes × α)) (h : Bytes → α → Bool) (hs : Section kvs)
    (hlen : kvs.length + 1 ≤ maxLimit) :
    walkKeys kvs (fun k v => some (h k v)) maxLimit (kvs.length + 2) [] = some ((hitsOf h kvs).map (·.2)) := by
  cases kvs with
  | nil => simp [walkKeys, filtered, iter, offLoop, maxLimit]
  | cons e rest =>
    obtain ⟨k, v⟩ := e
    rw [show ((k, v) :: rest).length + 2 = (((k, v) :: rest).length + 1) + 1 from rfl, walkKeys_succ,
      first_page_max k v rest h (by simp only [List.length_cons] at hlen; omega)]
    by_cases hh : h k v = true
    · simp [hh]
    · have hh' : h k v = false := by simpa using hh
      have hk : k ≠ [] := hs.nonempty (k, v) (by simp)
      simp only [hh', Bool.false_eq_true, if_false, hk]
      rw [walk_from_suffix ((k, v) :: rest) h maxLimit hs (by decide) (rest.length + 1) [] k v rest rfl (by omega)
        (((k, v) :: rest).length + 1) (by simp only [List.length_cons]; omega)]
      simp

end Paginate
end Mainchain
