import Mainchain.Lemmas.Chain
/-
Fine-grained reachability: every state of every run is reached from the genesis state through
*elementary* steps (one message-server operation, one ante effect, one begin-block sub-step, a
block-time advance).  Invariants are proved per elementary step; history assumptions ("no 64-bit
counter has wrapped yet") are attached to the source state of each elementary step.
-/
namespace Mainchain

inductive FineStep (s s' : State) : Prop where
  | leaf (wall : Nat) (h : LeafStep wall s s')
  | ante (tx : Tx) (h : AnteEffect s tx s')
  | time (t : Int) (ht : s.time ≤ t) (hs : s' = { s with time := t })
  | complete (id : Nat) (x : EB) (h : EB.completeOne { ent := s.ent, bank := s.bank } s.nowSec isBlocked id = .ok x)
      (hs : s' = { s with ent := x.ent, bank := x.bank })
  | tally (id : Nat) (e : EntState) (h : s.ent.tallyOne s.nowSecU id = .ok e) (hs : s' = { s with ent := e })

/-- reflexive–transitive closure of the elementary steps -/
inductive FinePath : State → State → Prop where
  | refl (s : State) : FinePath s s
  | cons (a b c : State) (h : FineStep a b) (t : FinePath b c) : FinePath a c

theorem FinePath.trans {a b c : State} (h1 : FinePath a b) (h2 : FinePath b c) : FinePath a c := by
  induction h1 with
  | refl => exact h2
  | cons a b _ h _ ih => exact .cons a b c h (ih h2)

theorem FinePath.single {a b : State} (h : FineStep a b) : FinePath a b := .cons a b b h (.refl b)

theorem deliverTx_fine (wall : Nat) (s : State) (tx : Tx) (order : List String) :
    FinePath s (deliverTx order wall s tx).1 :=
  deliverTx_rel wall FinePath .refl (fun _ _ _ => FinePath.trans)
    (fun s m s' r hl h => .single (.leaf wall (leaf_step wall s s' m r hl h)))
    order
    (fun s tx s' h => ante_rel FinePath .refl (fun _ _ _ => FinePath.trans) tx
      (fun a b he => .single (.ante tx he)) order .deliver s s' h)
    s tx

theorem checkTx_fine (s : State) (tx : Tx) (order : List String) : FinePath s (checkTx order s tx).1 :=
  checkTx_rel FinePath .refl order
    (fun s tx s' h => ante_rel FinePath .refl (fun _ _ _ => FinePath.trans) tx
      (fun a b he => .single (.ante tx he)) order .check s s' h)
    s tx

theorem govExec_fine (wall : Nat) (s : State) (m : Msg) : FinePath s (govExec wall s m).1 :=
  govExec_rel wall FinePath .refl (fun _ _ _ => FinePath.trans)
    (fun s m s' r hl h => .single (.leaf wall (leaf_step wall s s' m r hl h))) m s

/-- `ProcessAcceptedPurchaseOrders` as elementary steps -/
theorem processAccepted_fine (s0 : State) (q : List Nat) :
    ∀ (x x' : EB), q.foldlM (fun (x : EB) (id : Nat) => EB.completeOne x s0.nowSec isBlocked id) x = .ok x' →
      FinePath { s0 with ent := x.ent, bank := x.bank } { s0 with ent := x'.ent, bank := x'.bank } := by
  intro x x' h
  exact foldlM_rel (fun (a b : EB) => FinePath { s0 with ent := a.ent, bank := a.bank } { s0 with ent := b.ent, bank := b.bank })
    (fun _ => .refl _) (fun _ _ _ => FinePath.trans) _ q
    (fun a id b hb => .single (.complete id b hb rfl)) x x' h

/-- `TallyPurchaseOrderDecisions` as elementary steps -/
theorem tally_fine (s0 : State) (q : List Nat) :
    ∀ (e e' : EntState), q.foldlM (fun (e : EntState) (id : Nat) => e.tallyOne s0.nowSecU id) e = .ok e' →
      FinePath { s0 with ent := e } { s0 with ent := e' } := by
  intro e e' h
  exact foldlM_rel (fun (a b : EntState) => FinePath { s0 with ent := a } { s0 with ent := b })
    (fun _ => .refl _) (fun _ _ _ => FinePath.trans) _ q
    (fun a id b hb => .single (.tally id b hb rfl)) e e' h

theorem beginStep_fine (s s' : State) (name : String) (h : beginStep s name = .ok s') : FinePath s s' := by
  unfold beginStep at h
  split at h
  · simp only [bind_eq_ok, pure_eq_ok] at h
    obtain ⟨x, hx, rfl⟩ := h
    exact processAccepted_fine s _ { ent := s.ent, bank := s.bank } x hx
  · simp only [bind_eq_ok, pure_eq_ok] at h
    obtain ⟨e, he, rfl⟩ := h
    exact tally_fine s _ s.ent e he
  · cases h

theorem beginBlock_fine (steps : List String) (s s' : State) (h : beginBlock steps s = .ok s') : FinePath s s' :=
  foldlM_rel FinePath .refl (fun _ _ _ => FinePath.trans) beginStep steps (fun a n b hb => beginStep_fine a b n hb) s s' h

/-- every coarse step of the application is a path of elementary steps -/
theorem chainStep_fine (s s' : State) (h : ChainStep s s') : FinePath s s' := by
  cases h with
  | begin t ht h => exact .cons _ _ _ (.time t ht rfl) (beginBlock_fine _ _ _ h)
  | deliver wall tx hs => subst hs; exact deliverTx_fine wall s tx _
  | check tx hs => subst hs; exact checkTx_fine s tx _
  | gov wall m hs => subst hs; exact govExec_fine wall s m

/-- states reached from the genesis state through elementary steps whose source states all
satisfy the history assumption `Q` -/
inductive FineReach (g : GenCfg) (Q : State → Prop) : State → Prop where
  | init : FineReach g Q (initState g)
  | step (s s' : State) (hr : FineReach g Q s) (hq : Q s) (hs : FineStep s s') : FineReach g Q s'

/-- the induction principle used by every property: an invariant of the genesis state that every
elementary step from a `Q`-state preserves holds in every state of every run -/
theorem fine_inv (g : GenCfg) (Q Inv : State → Prop) (hinit : Inv (initState g))
    (hstep : ∀ s s', Q s → Inv s → FineStep s s' → Inv s') : ∀ s, FineReach g Q s → Inv s := by
  intro s hr
  induction hr with
  | init => exact hinit
  | step s s' _ hq hs ih => exact hstep s s' hq ih hs

theorem fineReach_path (g : GenCfg) (a b : State) (hp : FinePath a b) :
    FineReach g (fun _ => True) a → FineReach g (fun _ => True) b := by
  induction hp with
  | refl => exact id
  | cons a b c hab _ ih => exact fun ha => ih (.step a b ha trivial hab)

/-- without a history assumption every coarsely reachable state is finely reachable -/
theorem reachable_fine (g : GenCfg) (s : State) (h : Reachable g s) : FineReach g (fun _ => True) s := by
  induction h with
  | init => exact .init
  | step s s' _ hs ih => exact fineReach_path g s s' (chainStep_fine s s' hs) ih

/-- a path of elementary steps whose source states all satisfy `Q` -/
inductive FinePathQ (Q : State → Prop) : State → State → Prop where
  | refl (s : State) : FinePathQ Q s s
  | cons (a b c : State) (hq : Q a) (h : FineStep a b) (t : FinePathQ Q b c) : FinePathQ Q a c

theorem FineReach.extend {g : GenCfg} {Q : State → Prop} {a b : State} (ha : FineReach g Q a)
    (hp : FinePathQ Q a b) : FineReach g Q b := by
  induction hp with
  | refl => exact ha
  | cons a b c hq h _ ih => exact ih (.step a b ha hq h)

/-- a relation that is reflexive, transitive and holds for every elementary step between
reachable states holds along every path from a reachable state -/
theorem path_rel {g : GenCfg} {Q : State → Prop} (R : State → State → Prop)
    (hrefl : ∀ s, R s s) (htrans : ∀ a b c, R a b → R b c → R a c)
    (hstep : ∀ a b, FineReach g Q a → Q a → FineStep a b → R a b)
    {a b : State} (ha : FineReach g Q a) (hp : FinePathQ Q a b) : R a b := by
  induction hp with
  | refl s => exact hrefl s
  | cons a b c hq h _ ih => exact htrans _ _ _ (hstep a b ha hq h) (ih (.step a b ha hq h))

end Mainchain
