import Mainchain.Lemmas.Chain
import Mainchain.Lemmas.Signer
/-
Fine-grained reachability: every state of every run is reached from the genesis state through
*elementary* steps (one message-server operation, one ante effect, one begin-block sub-step, a
block-time advance).  Invariants are proved per elementary step; history assumptions ("no 64-bit
counter has wrapped yet") are attached to the source state of each elementary step.
-/
namespace Mainchain

inductive FineStep (s s' : State) : Prop where
  | leaf (wall : Nat) (m : Msg) (r : Resp) (hl : m.isLeaf = true) (hg : GrantsOK s) (hsig : m.SignedOK)
      (h : execMsg wall s m = .ok (s', r))
  | ante (tx : Tx) (hu : tx.required.all isUserAddr = true) (hg : GrantsOK s) (h : AnteEffect s tx s')
  | time (t : Int) (ht : s.time ≤ t) (hs : s' = { s with time := t })
  | complete (id : Nat) (x : EB) (h : EB.completeOne { ent := s.ent, bank := s.bank } s.nowSec isBlocked id = .ok x)
      (hs : s' = { s with ent := x.ent, bank := x.bank })
  | tally (id : Nat) (e : EntState) (h : s.ent.tallyOne s.nowSecU id = .ok e) (hs : s' = { s with ent := e })

/-- reflexive–transitive closure of the elementary steps -/
inductive FinePath : State → State → Prop where
  | refl (s : State) : FinePath s s
  | cons (a b c : State) (h : FineStep a b) (t : FinePath b c) : FinePath a c

theorem FinePath.trans {a b c : State} (h1 : FinePath a b) (h2 : FinePath b c) : FinePath a c := by
  induction h1 with
  | refl => exact h2
  | cons a b _ h _ ih => exact .cons a b c h (ih h2)

theorem FinePath.single {a b : State} (h : FineStep a b) : FinePath a b := .cons a b b h (.refl b)

/-- the module-operation view of a leaf step -/
theorem FineStep.leafStep {s s' : State} {wall : Nat} {m : Msg} {r : Resp} (hl : m.isLeaf = true)
    (h : execMsg wall s m = .ok (s', r)) : LeafStep wall s s' := leaf_step wall s s' m r hl h

theorem setReg_grants (s : State) (k : RegKind) (r : RegState) : (s.setReg k r).grants = s.grants := by
  cases k <;> rfl

theorem setReg_allowances (s : State) (k : RegKind) (r : RegState) : (s.setReg k r).allowances = s.allowances := by
  cases k <;> rfl

/-- only authz / feegrant messages touch the grant and allowance tables -/
theorem leaf_grants_eq (wall : Nat) (s s' : State) (m : Msg) (r : Resp)
    (h : execMsg wall s m = .ok (s', r)) :
    (∃ g e k, m = .authzGrant g e k) ∨ (∃ g e k, m = .authzRevoke g e k) ∨ (∃ g ms, m = .authzExec g ms) ∨
    (∃ g e, m = .feegrantGrant g e) ∨ (s'.grants = s.grants ∧ s'.allowances = s.allowances) := by
  cases m with
  | authzGrant g e k => exact Or.inl ⟨g, e, k, rfl⟩
  | authzRevoke g e k => exact Or.inr (Or.inl ⟨g, e, k, rfl⟩)
  | authzExec g ms => exact Or.inr (Or.inr (Or.inl ⟨g, ms, rfl⟩))
  | feegrantGrant g e => exact Or.inr (Or.inr (Or.inr (Or.inl ⟨g, e, rfl⟩)))
  | _ =>
    right; right; right; right
    simp only [execMsg, bind_eq_ok, pure_eq_ok, Prod.mk.injEq] at h
    first
      | (obtain ⟨_, _, rfl, _⟩ := h; first | exact ⟨rfl, rfl⟩ | exact ⟨setReg_grants _ _ _, setReg_allowances _ _ _⟩)
      | (obtain ⟨_, _, _, _, rfl, _⟩ := h; first | exact ⟨rfl, rfl⟩ | exact ⟨setReg_grants _ _ _, setReg_allowances _ _ _⟩)
      | (obtain ⟨_, _, _, _, _, _, rfl, _⟩ := h; first | exact ⟨rfl, rfl⟩ | exact ⟨setReg_grants _ _ _, setReg_allowances _ _ _⟩)
      | (obtain ⟨_, _, _, _, _, _, _, _, rfl, _⟩ := h; first | exact ⟨rfl, rfl⟩ | exact ⟨setReg_grants _ _ _, setReg_allowances _ _ _⟩)

/-- a leaf step keeps the authorisation invariant: new grants and allowances are given by the
(authorised) signer -/
theorem leaf_grantsOK (wall : Nat) (s s' : State) (m : Msg) (r : Resp) (hl : m.isLeaf = true) (hg : GrantsOK s)
    (hsig : m.SignedOK) (h : execMsg wall s m = .ok (s', r)) : GrantsOK s' := by
  rcases leaf_grants_eq wall s s' m r h with ⟨g, e, kind, rfl⟩ | ⟨g, e, kind, rfl⟩ | ⟨g, ms, rfl⟩ | ⟨g, e, rfl⟩ | heq
  · simp only [execMsg, bind_eq_ok, pure_eq_ok, Prod.mk.injEq, decodeM_eq_ok] at h
    obtain ⟨ga, hga, ea, _, rfl, _⟩ := h
    obtain ⟨a, ha, hpa⟩ := hsig
    simp only [Msg.signer, signerTok_authzGrant, Option.bind_some] at ha
    rw [hga] at ha; cases ha
    refine ⟨?_, hg.2⟩
    intro g' e' k' hmem
    simp only at hmem
    split at hmem
    · exact hg.1 g' e' k' hmem
    · simp only [List.mem_append, List.mem_singleton, Prod.mk.injEq] at hmem
      rcases hmem with hmem | ⟨rfl, _, _⟩
      · exact hg.1 g' e' k' hmem
      · exact hpa
  · simp only [execMsg, bind_eq_ok, pure_eq_ok, Prod.mk.injEq] at h
    obtain ⟨ga, _, ea, _, _, _, rfl, _⟩ := h
    refine ⟨?_, hg.2⟩
    intro g' e' k' hmem
    exact hg.1 g' e' k' (List.mem_filter.mp hmem).1
  · simp [Msg.isLeaf] at hl
  · simp only [execMsg, bind_eq_ok, pure_eq_ok, Prod.mk.injEq, decodeM_eq_ok] at h
    obtain ⟨ga, hga, ea, _, _, _, rfl, _⟩ := h
    obtain ⟨a, ha, hpa⟩ := hsig
    simp only [Msg.signer, signerTok_feegrantGrant, Option.bind_some] at ha
    rw [hga] at ha; cases ha
    refine ⟨hg.1, ?_⟩
    intro g' e' hmem
    simp only [List.mem_append, List.mem_singleton, Prod.mk.injEq] at hmem
    rcases hmem with hmem | ⟨rfl, _⟩
    · exact hg.2 g' e' hmem
    · exact hpa
  · exact ⟨fun g e k hm => hg.1 g e k (heq.1 ▸ hm), fun g e hm => hg.2 g e (heq.2 ▸ hm)⟩

theorem anteEffect_grants (s s' : State) (tx : Tx) (h : AnteEffect s tx s') :
    s'.grants = s.grants ∧ s'.allowances = s.allowances := by
  cases h with
  | none hs => subst hs; exact ⟨rfl, rfl⟩
  | unlock _ _ _ _ _ _ hs => subst hs; exact ⟨rfl, rfl⟩
  | deduct _ _ _ _ _ _ hs => subst hs; exact ⟨rfl, rfl⟩

theorem grantsOK_of_eq {s s' : State} (hg : GrantsOK s) (h : s'.grants = s.grants ∧ s'.allowances = s.allowances) :
    GrantsOK s' :=
  ⟨fun g e k hm => hg.1 g e k (h.1 ▸ hm), fun g e hm => hg.2 g e (h.2 ▸ hm)⟩

/-- if the ante chain of the repository's decorator order succeeds, every required signer is an
address somebody holds a key for (`SetPubKey` is in the chain: `decide`d on the regenerated order) -/
theorem ante_signers_user (mode : Mode) (s s1 : State) (tx : Tx)
    (h : ante Facts.anteOrder mode s tx = .ok s1) : tx.required.all isUserAddr = true := by
  have hmem : "SetPubKey" ∈ Facts.anteOrder := by decide
  have key : ∀ (order : List String) (a b : State), "SetPubKey" ∈ order →
      order.foldlM (anteStepM mode tx) a = .ok b → tx.required.all isUserAddr = true := by
    intro order
    induction order with
    | nil => intro a b hm; simp at hm
    | cons n ns ih =>
      intro a b hm h
      simp only [List.foldlM_cons, bind_eq_ok] at h
      obtain ⟨a1, h1, h2⟩ := h
      rcases List.mem_cons.mp hm with he | hm'
      · subst he
        simp only [anteStepM, anteStep, stepSetPubKey, bind_eq_ok, require_eq_ok] at h1
        obtain ⟨_, _, _, hu, _⟩ := h1
        exact hu
      · exact ih a1 b hm' h2
  exact key Facts.anteOrder s s1 hmem h

theorem mem_required (tx : Tx) (m : Msg) (a : Addr) (hm : m ∈ tx.msgs) (ha : m.signer = some a) : a ∈ tx.required := by
  suffices hms : a ∈ tx.msgSigners by
    unfold Tx.required
    split
    · split
      · exact hms
      · exact List.mem_append_left _ hms
    · exact hms
  unfold Tx.msgSigners
  have hmem : a ∈ tx.msgs.filterMap Msg.signer := List.mem_filterMap.mpr ⟨m, hm, ha⟩
  generalize tx.msgs.filterMap Msg.signer = l at hmem
  have key : ∀ (l acc : List Addr), (a ∈ l ∨ a ∈ acc) →
      a ∈ l.foldl (fun acc a => if acc.contains a then acc else acc ++ [a]) acc := by
    intro l
    induction l with
    | nil => intro acc h; simpa using h
    | cons x xs ih =>
      intro acc h
      simp only [List.foldl_cons]
      apply ih
      rcases h with h | h
      · rcases List.mem_cons.mp h with he | h'
        · subst he
          right
          split
          · rename_i hc; simpa using hc
          · simp
        · exact Or.inl h'
      · right; split
        · exact h
        · simp [h]
  exact key l [] (Or.inl hmem)

theorem validateBasicList_each (s : State) (msgs : List Msg) (h : Msg.validateBasicList s msgs = .ok ()) :
    ∀ m ∈ msgs, Msg.validateBasic s m = .ok () := by
  induction msgs with
  | nil => intro m hm; simp at hm
  | cons x xs ih =>
    simp only [Msg.validateBasicList, bind_eq_ok] at h
    obtain ⟨_, h1, h2⟩ := h
    intro m hm
    rcases List.mem_cons.mp hm with he | hm'
    · subst he; exact h1
    · exact ih h2 m hm'

/-- relation used for the lifting: a path of elementary steps that keeps `GrantsOK` -/
def FineG (a b : State) : Prop := FinePath a b

theorem deliverTx_fine (wall : Nat) (s : State) (tx : Tx) (hg : GrantsOK s) :
    FinePath s (deliverTx Facts.anteOrder wall s tx).1 ∧ GrantsOK (deliverTx Facts.anteOrder wall s tx).1 := by
  unfold deliverTx
  split
  · exact ⟨.refl _, hg⟩
  · split
    · exact ⟨.refl _, hg⟩
    · rename_i hvb
      split
      · exact ⟨.refl _, hg⟩
      · rename_i s1 h1
        -- the ante part
        have husers := ante_signers_user .deliver s s1 tx h1
        have hante : (GrantsOK s → FinePath s s1) ∧ (s1.grants = s.grants ∧ s1.allowances = s.allowances) :=
          ante_rel (fun a b => (GrantsOK a → FinePath a b) ∧ (b.grants = a.grants ∧ b.allowances = a.allowances))
            (fun a => ⟨fun _ => .refl a, rfl, rfl⟩)
            (fun a b c h1 h2 => ⟨fun hga => (h1.1 hga).trans (h2.1 (grantsOK_of_eq hga h1.2)),
              h2.2.1.trans h1.2.1, h2.2.2.trans h1.2.2⟩) tx
            (fun a b he => ⟨fun hga => .single (.ante tx husers hga he), anteEffect_grants a b tx he⟩) _ _ s s1 h1
        have hante : FinePath s s1 ∧ (s1.grants = s.grants ∧ s1.allowances = s.allowances) := ⟨hante.1 hg, hante.2⟩
        have hg1 : GrantsOK s1 := grantsOK_of_eq hg hante.2
        split
        · exact ⟨hante.1, hg1⟩
        · rename_i s2 rs h2
          have hsigned : ∀ m ∈ tx.msgs, m.SignedOK := by
            intro m hm
            obtain ⟨a, ha⟩ := validateBasic_signer s m (validateBasicList_each s tx.msgs hvb m hm)
            have := List.all_eq_true.mp husers a (mem_required tx m a hm ha)
            exact ⟨a, ha, Or.inl (by simpa [isUserAddr] using this)⟩
          obtain ⟨hp, hg2⟩ := runMsgs_signed wall FinePath .refl (fun _ _ _ => FinePath.trans)
            (fun a m b r hl hga hsa hx => ⟨.single (.leaf wall m r hl hga hsa hx), leaf_grantsOK wall a b m r hl hga hsa hx⟩)
            tx.msgs s1 s2 rs hg1 hsigned h2
          exact ⟨hante.1.trans hp, hg2⟩

theorem checkTx_fine (s : State) (tx : Tx) (hg : GrantsOK s) :
    FinePath s (checkTx Facts.anteOrder s tx).1 ∧ GrantsOK (checkTx Facts.anteOrder s tx).1 := by
  unfold checkTx
  split
  · exact ⟨.refl _, hg⟩
  · split
    · exact ⟨.refl _, hg⟩
    · split
      · exact ⟨.refl _, hg⟩
      · rename_i s1 h1
        have husers := ante_signers_user .check s s1 tx h1
        have hante : (GrantsOK s → FinePath s s1) ∧ (s1.grants = s.grants ∧ s1.allowances = s.allowances) :=
          ante_rel (fun a b => (GrantsOK a → FinePath a b) ∧ (b.grants = a.grants ∧ b.allowances = a.allowances))
            (fun a => ⟨fun _ => .refl a, rfl, rfl⟩)
            (fun a b c h1 h2 => ⟨fun hga => (h1.1 hga).trans (h2.1 (grantsOK_of_eq hga h1.2)),
              h2.2.1.trans h1.2.1, h2.2.2.trans h1.2.2⟩) tx
            (fun a b he => ⟨fun hga => .single (.ante tx husers hga he), anteEffect_grants a b tx he⟩) _ _ s s1 h1
        exact ⟨hante.1 hg, grantsOK_of_eq hg hante.2⟩

theorem recheckTx_fine (s : State) (tx : Tx) (hg : GrantsOK s) :
    FinePath s (recheckTx Facts.anteOrder s tx).1 ∧ GrantsOK (recheckTx Facts.anteOrder s tx).1 := by
  unfold recheckTx
  split
  · exact ⟨.refl _, hg⟩
  · split
    · exact ⟨.refl _, hg⟩
    · split
      · exact ⟨.refl _, hg⟩
      · rename_i s1 h1
        have husers := ante_signers_user .recheck s s1 tx h1
        have hante : (GrantsOK s → FinePath s s1) ∧ (s1.grants = s.grants ∧ s1.allowances = s.allowances) :=
          ante_rel (fun a b => (GrantsOK a → FinePath a b) ∧ (b.grants = a.grants ∧ b.allowances = a.allowances))
            (fun a => ⟨fun _ => .refl a, rfl, rfl⟩)
            (fun a b c h1 h2 => ⟨fun hga => (h1.1 hga).trans (h2.1 (grantsOK_of_eq hga h1.2)),
              h2.2.1.trans h1.2.1, h2.2.2.trans h1.2.2⟩) tx
            (fun a b he => ⟨fun hga => .single (.ante tx husers hga he), anteEffect_grants a b tx he⟩) _ _ s s1 h1
        exact ⟨hante.1 hg, grantsOK_of_eq hg hante.2⟩

theorem govExec_fine (wall : Nat) (s : State) (m : Msg) (hg : GrantsOK s) :
    FinePath s (govExec wall s m).1 ∧ GrantsOK (govExec wall s m).1 := by
  unfold govExec
  split
  · exact ⟨.refl _, hg⟩
  · rename_i hsig
    have hsig' : m.SignedOK := ⟨Mgov, by simpa using hsig, Or.inr (Or.inl rfl)⟩
    split
    · rename_i s' r h
      simp only [handle, bind_eq_ok] at h
      obtain ⟨_, _, h⟩ := h
      exact exec_signed wall FinePath .refl (fun _ _ _ => FinePath.trans)
        (fun a m b r hl hga hsa hx => ⟨.single (.leaf wall m r hl hga hsa hx), leaf_grantsOK wall a b m r hl hga hsa hx⟩)
        m s s' r hg hsig' h
    · exact ⟨.refl _, hg⟩

/-- `ProcessAcceptedPurchaseOrders` as elementary steps -/
theorem processAccepted_fine (s0 : State) (q : List Nat) :
    ∀ (x x' : EB), q.foldlM (fun (x : EB) (id : Nat) => EB.completeOne x s0.nowSec isBlocked id) x = .ok x' →
      FinePath { s0 with ent := x.ent, bank := x.bank } { s0 with ent := x'.ent, bank := x'.bank } := by
  intro x x' h
  exact foldlM_rel (fun (a b : EB) => FinePath { s0 with ent := a.ent, bank := a.bank } { s0 with ent := b.ent, bank := b.bank })
    (fun _ => .refl _) (fun _ _ _ => FinePath.trans) _ q
    (fun a id b hb => .single (.complete id b hb rfl)) x x' h

/-- `TallyPurchaseOrderDecisions` as elementary steps -/
theorem tally_fine (s0 : State) (q : List Nat) :
    ∀ (e e' : EntState), q.foldlM (fun (e : EntState) (id : Nat) => e.tallyOne s0.nowSecU id) e = .ok e' →
      FinePath { s0 with ent := e } { s0 with ent := e' } := by
  intro e e' h
  exact foldlM_rel (fun (a b : EntState) => FinePath { s0 with ent := a } { s0 with ent := b })
    (fun _ => .refl _) (fun _ _ _ => FinePath.trans) _ q
    (fun a id b hb => .single (.tally id b hb rfl)) e e' h

theorem beginStep_fine (s s' : State) (name : String) (h : beginStep s name = .ok s') : FinePath s s' := by
  unfold beginStep at h
  split at h
  · simp only [bind_eq_ok, pure_eq_ok] at h
    obtain ⟨x, hx, rfl⟩ := h
    exact processAccepted_fine s _ { ent := s.ent, bank := s.bank } x hx
  · simp only [bind_eq_ok, pure_eq_ok] at h
    obtain ⟨e, he, rfl⟩ := h
    exact tally_fine s _ s.ent e he
  · cases h

theorem beginBlock_fine (steps : List String) (s s' : State) (h : beginBlock steps s = .ok s') : FinePath s s' :=
  foldlM_rel FinePath .refl (fun _ _ _ => FinePath.trans) beginStep steps (fun a n b hb => beginStep_fine a b n hb) s s' h

theorem beginBlock_grants (steps : List String) (s s' : State) (h : beginBlock steps s = .ok s') :
    s'.grants = s.grants ∧ s'.allowances = s.allowances := by
  refine foldlM_rel (fun (a b : State) => b.grants = a.grants ∧ b.allowances = a.allowances) (fun _ => ⟨rfl, rfl⟩)
    (fun a b c (h1 : b.grants = a.grants ∧ b.allowances = a.allowances) (h2 : c.grants = b.grants ∧ c.allowances = b.allowances) =>
      ⟨h2.1.trans h1.1, h2.2.trans h1.2⟩) beginStep steps ?_ s s' h
  intro a n b hb
  unfold beginStep at hb
  split at hb
  · simp only [bind_eq_ok, pure_eq_ok] at hb; obtain ⟨_, _, rfl⟩ := hb; exact ⟨rfl, rfl⟩
  · simp only [bind_eq_ok, pure_eq_ok] at hb; obtain ⟨_, _, rfl⟩ := hb; exact ⟨rfl, rfl⟩
  · cases hb

theorem govExecAll_fine (wall : Nat) (s : State) (msgs : List Msg) (hg : GrantsOK s) :
    FinePath s (govExecAll wall s msgs).1 ∧ GrantsOK (govExecAll wall s msgs).1 := by
  unfold govExecAll
  split
  · rename_i hall
    have hsig : ∀ m ∈ msgs, m.SignedOK := by
      intro m hm
      have := List.all_eq_true.mp hall m hm
      exact ⟨Mgov, by simpa using this, Or.inr (Or.inl rfl)⟩
    split
    · rename_i s' rs h
      exact runMsgs_signed wall FinePath .refl (fun _ _ _ => FinePath.trans)
        (fun a m b r hl hga hsa hx => ⟨.single (.leaf wall m r hl hga hsa hx), leaf_grantsOK wall a b m r hl hga hsa hx⟩)
        msgs s s' rs hg hsig h
    · exact ⟨.refl _, hg⟩
  · exact ⟨.refl _, hg⟩

/-- every coarse step of the application is a path of elementary steps (and keeps `GrantsOK`) -/
theorem chainStep_fine (s s' : State) (h : ChainStep s s') (hg : GrantsOK s) : FinePath s s' ∧ GrantsOK s' := by
  cases h with
  | begin t ht h =>
    exact ⟨.cons _ _ _ (.time t ht rfl) (beginBlock_fine _ _ _ h),
      grantsOK_of_eq (s := { s with time := t }) hg (beginBlock_grants _ _ _ h)⟩
  | deliver wall tx hs => subst hs; exact deliverTx_fine wall s tx hg
  | check tx hs => subst hs; exact checkTx_fine s tx hg
  | recheck tx hs => subst hs; exact recheckTx_fine s tx hg
  | gov wall m hs => subst hs; exact govExec_fine wall s m hg
  | govAll wall msgs hs => subst hs; exact govExecAll_fine wall s msgs hg

/-- states reached from the genesis state through elementary steps whose source states all
satisfy the history assumption `Q` -/
inductive FineReach (g : GenCfg) (Q : State → Prop) : State → Prop where
  | init : FineReach g Q (initState g)
  | step (s s' : State) (hr : FineReach g Q s) (hq : Q s) (hs : FineStep s s') : FineReach g Q s'

/-- the induction principle used by every property: an invariant of the genesis state that every
elementary step from a `Q`-state preserves holds in every state of every run -/
theorem fine_inv (g : GenCfg) (Q Inv : State → Prop) (hinit : Inv (initState g))
    (hstep : ∀ s s', Q s → Inv s → FineStep s s' → Inv s') : ∀ s, FineReach g Q s → Inv s := by
  intro s hr
  induction hr with
  | init => exact hinit
  | step s s' _ hq hs ih => exact hstep s s' hq ih hs

theorem fineReach_path (g : GenCfg) (a b : State) (hp : FinePath a b) :
    FineReach g (fun _ => True) a → FineReach g (fun _ => True) b := by
  induction hp with
  | refl => exact id
  | cons a b c hab _ ih => exact fun ha => ih (.step a b ha trivial hab)

/-- the grants of the genesis document are given by accounts that may act at all (never by a module account of the
application other than gov) -/
def GenGrantsOK (g : GenCfg) : Prop := ∀ ga ea k, (ga, ea, k) ∈ g.grants → MaySign ga

/-- without a history assumption every coarsely reachable state is finely reachable -/
theorem reachable_fine (g : GenCfg) (hgg : GenGrantsOK g) (s : State) (h : Reachable g s) :
    FineReach g (fun _ => True) s ∧ GrantsOK s := by
  induction h with
  | init => exact ⟨.init, ⟨hgg, by simp [initState]⟩⟩
  | step s s' _ hs ih =>
    obtain ⟨hp, hg'⟩ := chainStep_fine s s' hs ih.2
    exact ⟨fineReach_path g s s' hp ih.1, hg'⟩

/-- a path of elementary steps whose source states all satisfy `Q` -/
inductive FinePathQ (Q : State → Prop) : State → State → Prop where
  | refl (s : State) : FinePathQ Q s s
  | cons (a b c : State) (hq : Q a) (h : FineStep a b) (t : FinePathQ Q b c) : FinePathQ Q a c

theorem FineReach.extend {g : GenCfg} {Q : State → Prop} {a b : State} (ha : FineReach g Q a)
    (hp : FinePathQ Q a b) : FineReach g Q b := by
  induction hp with
  | refl => exact ha
  | cons a b c hq h _ ih => exact ih (.step a b ha hq h)

/-- a relation that is reflexive, transitive and holds for every elementary step between
reachable states holds along every path from a reachable state -/
theorem path_rel {g : GenCfg} {Q : State → Prop} (R : State → State → Prop)
    (hrefl : ∀ s, R s s) (htrans : ∀ a b c, R a b → R b c → R a c)
    (hstep : ∀ a b, FineReach g Q a → Q a → FineStep a b → R a b)
    {a b : State} (ha : FineReach g Q a) (hp : FinePathQ Q a b) : R a b := by
  induction hp with
  | refl s => exact hrefl s
  | cons a b c hq h _ ih => exact htrans _ _ _ (hstep a b ha hq h) (ih (.step a b ha hq h))

end Mainchain
