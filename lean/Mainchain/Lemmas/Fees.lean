import Mainchain.Lemmas.Chain
import Mainchain.Lemmas.Coins
/-
The WRKChain / BEACON fee decorators: the expected fee is the plain sum of the parameterised fees of
the top-level module operations; what a successful run of the composed ante chain implies.
-/
namespace Mainchain
open AL

/-- fee of one top-level operation of module `k` under parameters `p` (0 for every other message) -/
def opFee (p : RegParams) (k : RegKind) : Msg → Int
  | .regReg k' .. => if k' = k then (p.feeReg : Int) else 0
  | .regRec k' .. => if k' = k then (p.feeRec : Int) else 0
  | .regBuy k' _ n _ => if k' = k then (p.feeBuy : Int) * (n : Int) else 0
  | _ => 0

/-- Σ over the top-level messages -/
def feeSum (p : RegParams) (k : RegKind) (msgs : List Msg) : Int := (msgs.map (opFee p k)).sum

/-- the parameters are `uint64` values (protobuf) -/
def RegParams.U64 (p : RegParams) : Prop := p.feeReg < two64 ∧ p.feeRec < two64 ∧ p.feeBuy < two64

/-- every storage-purchase message carries a `uint64` slot count (protobuf) -/
def Msg.U64 : Msg → Prop
  | .regBuy _ _ n _ => n < two64
  | _ => True

theorem i64OfU64_nonneg (u : Nat) (hu : u < two64) (h : 0 ≤ i64OfU64 u) : i64OfU64 u = (u : Int) := by
  unfold i64OfU64 at h ⊢
  split
  · rfl
  · rename_i hge
    simp only [hge, if_false] at h
    have : (u : Int) < (two64 : Int) := by exact_mod_cast hu
    omega

theorem newInt64Coin_ok (denom : String) (fee : Nat) (hu : fee < two64) (c : Coin) (h : newInt64Coin denom fee = .ok c) :
    c.denom = denom ∧ c.amt = fee := by
  simp only [newInt64Coin, bind_eq_ok, pure_eq_ok, require_eq_ok, decide_eq_true_eq] at h
  obtain ⟨_, _, _, hnn, rfl⟩ := h
  exact ⟨rfl, i64OfU64_nonneg fee hu hnn⟩

theorem msgFee_spec (r : RegState) (k : RegKind) (hbuy : 1 ≤ r.params.feeBuy) (hp : r.params.U64) (acc acc' : Coin) (m : Msg)
    (hm : m.U64) (hd : acc.denom = r.params.denom) (h : msgFee r k acc m = .ok acc') :
    acc'.denom = r.params.denom ∧ acc'.amt = acc.amt + opFee r.params k m := by
  cases m <;> simp only [msgFee, opFee] at h ⊢
  all_goals first
    | (cases h; exact ⟨hd, by omega⟩)
    | skip
  · split at h
    · rename_i hk
      simp only [bind_eq_ok, coinAdd, pure_eq_ok] at h
      obtain ⟨c, hc, _, _, _, _, rfl⟩ := h
      obtain ⟨_, ha⟩ := newInt64Coin_ok _ _ hp.1 _ hc
      simp [hk, hd, ha]
    · rename_i hk; cases h; simp [hk, hd]
  · split at h
    · rename_i hk
      simp only [bind_eq_ok, coinAdd, pure_eq_ok] at h
      obtain ⟨c, hc, _, _, _, _, rfl⟩ := h
      obtain ⟨_, ha⟩ := newInt64Coin_ok _ _ hp.2.1 _ hc
      simp [hk, hd, ha]
    · rename_i hk; cases h; simp [hk, hd]
  · rename_i k' id n o
    split at h
    · rename_i hk
      simp only [bind_eq_ok, coinAdd, pure_eq_ok, require_eq_ok, decide_eq_true_eq] at h
      obtain ⟨c, hc, _, hnn, _, _, _, _, rfl⟩ := h
      obtain ⟨_, ha⟩ := newInt64Coin_ok _ _ hp.2.2 _ hc
      refine ⟨hd, ?_⟩
      simp only [hk, if_true, ha]
      have hn : i64OfU64 n = (n : Int) := by
        apply i64OfU64_nonneg n hm
        rw [ha] at hnn
        by_cases hneg : i64OfU64 n < 0
        · exfalso
          have h1 : (0 : Int) < (r.params.feeBuy : Int) := by omega
          have := Int.mul_neg_of_pos_of_neg h1 hneg
          omega
        · omega
      rw [hn]
    · rename_i hk; cases h; simp [hk, hd]

theorem expectedFee_spec (r : RegState) (k : RegKind) (hbuy : 1 ≤ r.params.feeBuy) (hp : r.params.U64) (msgs : List Msg)
    (hm : ∀ m ∈ msgs, m.U64) (e : Coin) (h : expectedFee r k msgs = .ok e) :
    e.denom = r.params.denom ∧ e.amt = feeSum r.params k msgs := by
  simp only [expectedFee, bind_eq_ok] at h
  obtain ⟨z, hz, h⟩ := h
  simp only [newInt64Coin, bind_eq_ok, pure_eq_ok] at hz
  obtain ⟨_, _, _, _, rfl⟩ := hz
  have key : ∀ (ms : List Msg) (acc acc' : Coin), (∀ m ∈ ms, m.U64) → acc.denom = r.params.denom →
      ms.foldlM (msgFee r k) acc = .ok acc' → acc'.denom = r.params.denom ∧ acc'.amt = acc.amt + feeSum r.params k ms := by
    intro ms
    induction ms with
    | nil => intro acc acc' _ hd h; simp [List.foldlM] at h; subst h; exact ⟨hd, by simp [feeSum]⟩
    | cons m ms ih =>
      intro acc acc' hu hd h
      simp only [List.foldlM_cons, bind_eq_ok] at h
      obtain ⟨a1, h1, h2⟩ := h
      obtain ⟨d1, e1⟩ := msgFee_spec r k hbuy hp acc a1 m (hu m (by simp)) hd h1
      obtain ⟨d2, e2⟩ := ih a1 acc' (fun x hx => hu x (by simp [hx])) d1 h2
      refine ⟨d2, ?_⟩
      rw [e2, e1]; simp only [feeSum, List.map_cons, List.sum_cons]; omega
  have := key msgs _ e hm rfl h
  simp only [i64OfU64, two63] at this
  exact ⟨this.1, by have := this.2; simpa using this⟩

/-- `check*Fees` admits exactly the transactions whose amount in the module's fee denomination is the sum -/
theorem checkFees_exact (r : RegState) (k : RegKind) (hbuy : 1 ≤ r.params.feeBuy) (hp : r.params.U64) (tx : Tx)
    (hm : ∀ m ∈ tx.msgs, m.U64) (h : checkFees r k tx = .ok ()) :
    Coins.amountOf tx.fee r.params.denom = feeSum r.params k tx.msgs ∧ tx.fee.any (·.denom = r.params.denom) = true := by
  simp only [checkFees, bind_eq_ok, require_eq_ok, Bool.not_eq_true', decide_eq_false_iff_not, pure_eq_ok] at h
  obtain ⟨_, _, _, hany, e, he, _, h1, h2⟩ := h
  obtain ⟨_, ha⟩ := expectedFee_spec r k hbuy hp tx.msgs hm e he
  exact ⟨by omega, hany⟩

/-- the composed ante chain of the repository runs the payer-funds and slot checks of module `k`'s fee
decorator on the unchanged input state (the decorators before it have no effect on the state) -/
theorem ante_runs_fee_decorator (k : RegKind) (mode : Mode) (s s' : State) (tx : Tx) (hk : tx.hasKind k = true)
    (h : ante Facts.anteOrder mode s tx = .ok s') :
    (mode ≠ .deliver → checkFees (s.reg k) k tx = .ok ()) ∧ checkPayerFunds s (s.reg k) tx = .ok () ∧
    checkMaxSlots (s.reg k) k tx = .ok () := by
  have horder : Facts.anteOrder = ["SetUpContext", "ExtensionOptions", "ValidateBasic", "TxTimeoutHeight", "ValidateMemo",
    "ConsumeGasForTxSize", "CorrectWrkChainFee", "CorrectBeaconFee", "CheckLockedUnd", "DeductFee", "SetPubKey",
    "ValidateSigCount", "SigGasConsume", "SigVerification", "IncrementSequence", "RedundantRelay"] := by decide
  rw [horder] at h
  simp only [ante, List.foldlM_cons, anteStepM, anteStep, bind_eq_ok, pure_eq_ok, Except.ok.injEq,
    exists_eq_left'] at h
  obtain ⟨s3, h3, s7, h7, s8, h8, _⟩ := h
  have e3 := stepValidateBasicR_id mode _ _ tx h3
  subst e3
  have e7 := feeDecorator_id .wrk mode _ _ tx h7
  subst e7
  cases k with
  | wrk =>
    simp only [feeDecorator, hk, Bool.not_true, Bool.false_eq_true, if_false, bind_eq_ok, pure_eq_ok] at h7
    obtain ⟨u1, h1, u2, h2, u3, h3, _⟩ := h7
    refine ⟨fun hm => ?_, h2, h3⟩
    simpa [hm] using h1
  | bcn =>
    simp only [feeDecorator, hk, Bool.not_true, Bool.false_eq_true, if_false, bind_eq_ok, pure_eq_ok] at h8
    obtain ⟨u1, h1, u2, h2, u3, h3, _⟩ := h8
    refine ⟨fun hm => ?_, h2, h3⟩
    simpa [hm] using h1

/-- … in particular the fee of an admitted WRKChain/BEACON transaction is a valid coin set -/
theorem ante_fee_valid (mode : Mode) (s s' : State) (tx : Tx) (hk : (tx.hasKind .wrk || tx.hasKind .bcn) = true)
    (h : ante Facts.anteOrder mode s tx = .ok s') : Coins.isValid tx.fee = true := by
  have key : ∀ k, tx.hasKind k = true → Coins.isValid tx.fee = true := by
    intro k hk'
    have := (ante_runs_fee_decorator k mode s s' tx hk' h).2.1
    simp only [checkPayerFunds, bind_eq_ok, require_eq_ok] at this
    obtain ⟨_, _, _, _, _, hv, _⟩ := this
    exact hv
  rcases Bool.or_eq_true_iff.mp hk with h1 | h1
  · exact key .wrk h1
  · exact key .bcn h1

end Mainchain
