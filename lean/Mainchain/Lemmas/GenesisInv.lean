import Mainchain.Lemmas.Sort
import Mainchain.Model.Genesis
import Mainchain.Lemmas.EntBooksReach
/-
Export → InitChain on states that satisfy the invariants: every import-time check passes, and the
enterprise, stream and bank sections come back as they were.
-/
namespace Mainchain
namespace Genesis
open AL Bank

theorem balancesEqCoin_of_pointwise (b : Bank) (a : Addr) (c : Coin)
    (h : ∀ d, (b.balOf a d : Int) = if d = c.denom then c.amt else 0) : balancesEqCoin b a c = true := by
  unfold balancesEqCoin
  rw [List.all_eq_true]
  intro d _
  simpa using h d

theorem depositOf_eq (st : StreamState) (d : String) : depositOf st d = sumF (depIn d) st.streams := by
  unfold depositOf
  induction st.streams with
  | nil => rfl
  | cons x l ih => obtain ⟨k, v⟩ := x; simp only [List.map_cons, List.foldr_cons, sumF, depIn, ih]

theorem strInvariantOk_of_inv (s : State) (hi : StreamInv (toSB s)) : strInvariantOk s = true := by
  unfold strInvariantOk
  rw [List.all_eq_true]
  intro d _
  have := hi.backed d
  simp only [decide_eq_true_eq, depositOf_eq]
  exact this

theorem find_of_mem {κ ν : Type} [DecidableEq κ] (m : List (κ × ν)) (hn : NoDupKeys m) (k : κ) (v : ν) (h : (k, v) ∈ m) :
    find? m k = some v := by
  induction m with
  | nil => simp at h
  | cons p m ih =>
    obtain ⟨k', v'⟩ := p
    simp only [NoDupKeys, keys, List.map_cons, List.nodup_cons] at hn
    rcases List.mem_cons.mp h with he | hm
    · cases he; simp [find?]
    · have hne : k' ≠ k := by
        intro e; subst e
        exact hn.1 (List.mem_map.mpr ⟨(k', v), hm, rfl⟩)
      simp only [find?, hne, if_false]
      exact ih hn.2 hm

theorem foldr_amt_eq_sumF {κ : Type} (m : List (κ × Coin)) :
    (m.map (fun x => x.2.amt)).foldr (· + ·) 0 = sumF coinAmt m := by
  induction m with
  | nil => rfl
  | cons x l ih => obtain ⟨k, v⟩ := x; simp only [List.map_cons, List.foldr_cons, sumF, coinAmt, ih]

theorem entInvariantOk_of_books (D : String) (s : State) (hpd : s.ent.params.denom = D) (hnd : NoDupKeys s.ent.locked)
    (hok : ∀ a c, find? s.ent.locked a = some c → c.denom = D ∧ 0 ≤ c.amt) (htl : s.ent.totalLocked.denom = D)
    (hesc : ∀ d, (s.bank.balOf Ment d : Int) = if d = D then s.ent.totalLocked.amt else 0)
    (hsum : sumF coinAmt s.ent.locked = s.ent.totalLocked.amt) : entInvariantOk s = true := by
  unfold entInvariantOk
  simp only [Bool.and_eq_true, Bool.or_eq_true, decide_eq_true_eq, List.all_eq_true]
  refine ⟨⟨?_, ?_⟩, Or.inr ⟨by rw [htl, hpd], by rw [foldr_amt_eq_sumF]; exact hsum.symm⟩⟩
  · apply balancesEqCoin_of_pointwise
    intro d; rw [hesc d, htl]
  · intro x hx
    obtain ⟨k, c⟩ := x
    rw [hpd]; exact (hok k c (find_of_mem _ hnd k c hx)).1

/-! ### the enterprise section -/

theorem find_foldl_collect {ν : Type} (m : List (Nat × ν)) : ∀ (l : List Nat) (acc : List (Nat × ν)) (x : Nat),
    find? (l.foldl (collectStep m) acc) x =
      if x ∈ l then (match find? m x with | some v => some v | none => find? acc x) else find? acc x := by
  intro l
  induction l with
  | nil => intro acc x; simp
  | cons id rest ih =>
    intro acc x
    simp only [List.foldl_cons]
    rw [ih]
    unfold collectStep
    by_cases hx : x ∈ rest
    · simp only [hx, if_true, List.mem_cons, or_true]
      cases hfx : find? m x with
      | some v => rfl
      | none =>
        simp only
        cases hfid : find? m id with
        | none => rfl
        | some w =>
          simp only
          have : id ≠ x := by intro e; subst e; rw [hfx] at hfid; cases hfid
          exact find_insert_ne _ _ _ _ this
    · simp only [hx, if_false, List.mem_cons, or_false]
      by_cases he : x = id
      · subst he
        simp only [if_true]
        cases hfx : find? m x with
        | none => rfl
        | some v => simp
      · simp only [he, if_false]
        cases hfid : find? m id with
        | none => rfl
        | some w => simp only; exact find_insert_ne _ _ _ _ (fun e => he e.symm)

theorem mem_sortNat (xs : List Nat) (x : Nat) : x ∈ sortNat xs ↔ x ∈ xs := by
  unfold sortNat; exact mem_isort _ _

theorem importEnt_orders (e : EntState) (x : Nat) : find? (importEnt e).orders x = find? e.orders x := by
  show find? ((sortNat (keys e.orders)).foldl (collectStep e.orders) []) x = _
  rw [find_foldl_collect]
  by_cases hx : x ∈ keys e.orders
  · simp only [(mem_sortNat _ _).mpr hx, if_true]
    cases find? e.orders x <;> rfl
  · have : x ∉ sortNat (keys e.orders) := fun h => hx ((mem_sortNat _ _).mp h)
    simp only [this, if_false, find_nil]
    exact (find_none_of_not_mem _ _ hx).symm

theorem mem_foldl_insertSorted (l : List Nat) : ∀ (acc : List Nat) (x : Nat),
    x ∈ l.foldl (fun acc a => EntState.insertSortedNat a acc) acc ↔ x ∈ l ∨ x ∈ acc := by
  induction l with
  | nil => intro acc x; simp
  | cons a rest ih =>
    intro acc x
    simp only [List.foldl_cons, ih, mem_insertSortedNat, List.mem_cons]
    constructor
    · rintro (h | h | h)
      · exact Or.inl (Or.inr h)
      · exact Or.inl (Or.inl h)
      · exact Or.inr h
    · rintro ((h | h) | h)
      · exact Or.inr (Or.inl h)
      · exact Or.inl h
      · exact Or.inr (Or.inr h)

/-- **the enterprise section round-trips** : parameters, id counter, every order, both queues (rebuilt from
the order statuses), the whitelist, the locked / spent books and both totals -/
theorem importEnt_observe (e : EntState) (hi : BookInv e) :
    (importEnt e).params = e.params ∧ (importEnt e).nextId = e.nextId ∧
    (∀ id, find? (importEnt e).orders id = find? e.orders id) ∧
    (∀ id, id ∈ (importEnt e).raisedQ ↔ id ∈ e.raisedQ) ∧ (∀ id, id ∈ (importEnt e).acceptedQ ↔ id ∈ e.acceptedQ) ∧
    (∀ a, a ∈ (importEnt e).whitelist ↔ a ∈ e.whitelist) ∧
    (importEnt e).locked = e.locked ∧ (importEnt e).spent = e.spent ∧
    (importEnt e).totalLocked = e.totalLocked ∧ (importEnt e).totalSpent = e.totalSpent := by
  refine ⟨rfl, rfl, importEnt_orders e, ?_, ?_, ?_, rfl, rfl, rfl, rfl⟩
  · intro id
    show id ∈ (sortNat (keys e.orders)).filter _ ↔ _
    rw [List.mem_filter, mem_sortNat, hi.rq id]
    constructor
    · rintro ⟨_, h⟩
      unfold statusIs at h
      cases hf : find? e.orders id with
      | none => simp [hf] at h
      | some po => simp only [hf, decide_eq_true_eq] at h; exact ⟨po, rfl, h⟩
    · rintro ⟨po, hf, hst⟩
      exact ⟨mem_keys_of_find _ _ _ hf, by simp [statusIs, hf, hst]⟩
  · intro id
    show id ∈ (sortNat (keys e.orders)).filter _ ↔ _
    rw [List.mem_filter, mem_sortNat, hi.aq id]
    constructor
    · rintro ⟨_, h⟩
      unfold statusIs at h
      cases hf : find? e.orders id with
      | none => simp [hf] at h
      | some po => simp only [hf, decide_eq_true_eq] at h; exact ⟨po, rfl, h⟩
    · rintro ⟨po, hf, hst⟩
      exact ⟨mem_keys_of_find _ _ _ hf, by simp [statusIs, hf, hst]⟩
  · intro a
    show a ∈ e.whitelist.foldl _ [] ↔ _
    rw [mem_foldl_insertSorted]; simp

end Genesis
end Mainchain
