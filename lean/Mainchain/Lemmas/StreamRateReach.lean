import Mainchain.Lemmas.StreamRate
/-
Well-formedness and solvency of every stream in every reachable state.
-/
namespace Mainchain
open AL Bank

theorem wf_of_streams_eq (now : Int) (x x' : SB) (h : x'.str.streams = x.str.streams) (hwf : StreamWF now x) :
    StreamWF now x' :=
  ⟨by rw [h]; exact hwf.rate, by rw [h]; exact hwf.denom, by rw [h]; exact hwf.recv, by rw [h]; exact hwf.lastLe,
   by rw [h]; exact hwf.solv, by rw [h]; exact hwf.canc⟩

theorem wf_time (now now' : Int) (x : SB) (h : now ≤ now') (hwf : StreamWF now x) : StreamWF now' x :=
  ⟨hwf.rate, hwf.denom, hwf.recv, fun k st hk => by have := hwf.lastLe k st hk; omega,
   fun k st hk => by
     rcases hwf.solv k st hk with h1 | ⟨h1, h2⟩
     · exact Or.inl h1
     · exact Or.inr ⟨h1, by omega⟩, hwf.canc⟩

theorem createStream_wf (x x' : SB) (now : Int) (rT sT : AddrTok) (denom : String) (amt rate : Int) (hi : StreamInv x)
    (hwf : StreamWF now x) (hgap : GapOK now x) (hnow : 0 ≤ now)
    (h : createStream x now isBlocked rT sT denom amt rate = .ok x') : StreamWF now x' := by
  simp only [createStream, bind_eq_ok, require_eq_ok, decodeM_eq_ok, decide_eq_true_eq] at h
  obtain ⟨sa, _, ra, _, _, hbl, _, _, _, hnew, _, hamt, _, hrate, _, _, h⟩ := h
  have hfresh : find? x.str.streams (ra, sa) = none := by
    simp only [contains, Bool.not_eq_true', Option.isSome_eq_false_iff, Option.isNone_iff_eq_none] at hnew
    exact hnew
  have hvd : validDenom denom = true := by
    simp only [addDeposit, bind_eq_ok, require_eq_ok] at h
    obtain ⟨_, _, _, _, _, _, _, hv, _⟩ := h
    exact hv
  have hamt' : 0 ≤ amt := by simp [coinNotPositive] at hamt; omega
  let st0 : Stream := { denom := denom, deposit := 0, rate := rate, last := now, zero := 0, cancellable := true }
  -- the state after CreateNewStream
  have hi1 : StreamInv { x with str := setStream x ra sa st0 } := by
    constructor
    · exact nodup_insert _ _ _ hi.nodup
    · exact hi.bank
    · exact hi.modNoVest
    · intro key st' hk
      simp only [setStream, find_insert] at hk
      split at hk
      · cases hk; simp [st0]
      · exact hi.nonneg key st' hk
    · intro d
      show (x.bank.balOf Mstr d : Int) = sumF (depIn d) (insert x.str.streams (ra, sa) st0)
      rw [sumF_insert, hfresh, hi.backed d]
      simp [fOpt, depIn, depositSum, st0]
  have hw1 : StreamWF now { x with str := setStream x ra sa st0 } := by
    constructor
    · intro key st hk
      simp only [setStream, find_insert] at hk
      split at hk
      · cases hk; simp only [st0]; omega
      · exact hwf.rate key st hk
    · intro key st hk
      simp only [setStream, find_insert] at hk
      split at hk
      · cases hk; exact hvd
      · exact hwf.denom key st hk
    · intro r' s' st hk
      simp only [setStream, find_insert] at hk
      split at hk
      · rename_i he; obtain ⟨rfl, rfl⟩ := Prod.mk.inj he; simpa using hbl
      · exact hwf.recv r' s' st hk
    · intro key st hk
      simp only [setStream, find_insert] at hk
      split at hk
      · cases hk; exact Int.le_refl _
      · exact hwf.lastLe key st hk
    · intro key st hk
      simp only [setStream, find_insert] at hk
      split at hk
      · cases hk; exact Or.inr ⟨rfl, hnow⟩
      · exact hwf.solv key st hk
    · intro key st hk
      simp only [setStream, find_insert] at hk
      split at hk
      · cases hk; rfl
      · exact hwf.canc key st hk
  have hgap1 : GapOK now { x with str := setStream x ra sa st0 } := by
    intro key st hk
    simp only [setStream, find_insert] at hk
    split at hk
    · cases hk; simp only [st0, maxI64]; omega
    · exact hgap key st hk
  exact addDeposit_wf _ x' now ra sa denom amt hi1 hw1 hgap1 hamt' h

/-- history assumptions of the rate properties -/
def RateQ (s : State) : Prop := BankSane s ∧ GapOK s.time (toSB s) ∧ 0 ≤ s.time

theorem strWF_leaf (wall : Nat) (s s' : State) (m : Msg) (r : Resp) (hl : m.isLeaf = true)
    (hq : RateQ s) (hi : StreamInv (toSB s)) (hwf : StreamWF s.time (toSB s))
    (h : execMsg wall s m = .ok (s', r)) : StreamWF s'.time (toSB s') := by
  cases m with
  | strCreate rr sn amt denom rate =>
    simp only [execMsg, bind_eq_ok, pure_eq_ok, Prod.mk.injEq] at h
    obtain ⟨x, hx, rfl, _⟩ := h
    exact createStream_wf (toSB s) x s.time rr sn denom amt rate hi hwf hq.2.1 hq.2.2 hx
  | strClaim rr sn =>
    simp only [execMsg, bind_eq_ok, pure_eq_ok, Prod.mk.injEq] at h
    obtain ⟨x, hx, rfl, _⟩ := h
    simp only [claimStream, bind_eq_ok, require_eq_ok, decodeM_eq_ok] at hx
    obtain ⟨sa, _, ra, _, _, _, hx⟩ := hx
    exact claim_wf (toSB s) x.1 s.time ra sa x.2 hi hwf hq.2.1 (by cases x; exact hx)
  | strTopup rr sn amt denom =>
    simp only [execMsg, bind_eq_ok, pure_eq_ok, Prod.mk.injEq] at h
    obtain ⟨x, hx, rfl, _⟩ := h
    obtain ⟨x1, x2, x3⟩ := x
    simp only [topUpDeposit, bind_eq_ok, pure_eq_ok, require_eq_ok, decodeM_eq_ok, Prod.mk.injEq] at hx
    obtain ⟨sa, _, ra, _, _, hamt, st, _, _, _, x', hx', rfl, _⟩ := hx
    have hamt' : 0 ≤ amt := by simp [coinNotPositive] at hamt; omega
    exact addDeposit_wf (toSB s) x' s.time ra sa denom amt hi hwf hq.2.1 hamt' hx'
  | strRate rr sn rate =>
    simp only [execMsg, bind_eq_ok, pure_eq_ok, Prod.mk.injEq] at h
    obtain ⟨x, hx, rfl, _⟩ := h
    simp only [updateFlowRate, bind_eq_ok, require_eq_ok, decodeM_eq_ok, decide_eq_true_eq] at hx
    obtain ⟨sa, _, ra, _, _, hr, _, _, hx⟩ := hx
    exact setNewFlowRate_wf (toSB s) x s.time ra sa rate hi hwf hq.2.1 (by omega) hx
  | strCancel rr sn =>
    simp only [execMsg, bind_eq_ok, pure_eq_ok, Prod.mk.injEq] at h
    obtain ⟨x, hx, rfl, _⟩ := h
    simp only [cancelStreamMsg, bind_eq_ok, require_eq_ok, decodeM_eq_ok] at hx
    obtain ⟨sa, _, ra, _, _, _, _, _, hx⟩ := hx
    exact cancelStream_wf (toSB s) x s.time ra sa hi hwf hq.2.1 hx
  | authzExec g msgs => simp [Msg.isLeaf] at hl
  | strParams auth fee =>
    simp only [execMsg, bind_eq_ok, pure_eq_ok, Prod.mk.injEq] at h
    obtain ⟨_, _, _, _, rfl, _⟩ := h
    exact wf_of_streams_eq s.time (toSB s) _ rfl hwf
  | bankSend src dst coins =>
    simp only [execMsg, bind_eq_ok, pure_eq_ok, Prod.mk.injEq] at h
    obtain ⟨_, _, _, _, _, _, _, _, rfl, _⟩ := h
    exact wf_of_streams_eq s.time (toSB s) _ rfl hwf
  | authzGrant g e kind =>
    simp only [execMsg, bind_eq_ok, pure_eq_ok, Prod.mk.injEq] at h
    obtain ⟨_, _, _, _, rfl, _⟩ := h
    exact wf_of_streams_eq s.time (toSB s) _ rfl hwf
  | authzRevoke g e kind =>
    simp only [execMsg, bind_eq_ok, pure_eq_ok, Prod.mk.injEq] at h
    obtain ⟨_, _, _, _, _, _, rfl, _⟩ := h
    exact hwf
  | feegrantGrant g e =>
    simp only [execMsg, bind_eq_ok, pure_eq_ok, Prod.mk.injEq] at h
    obtain ⟨_, _, _, _, _, _, rfl, _⟩ := h
    exact wf_of_streams_eq s.time (toSB s) _ rfl hwf
  | entRaise p amt denom =>
    simp only [execMsg, bind_eq_ok, pure_eq_ok, Prod.mk.injEq] at h
    obtain ⟨_, _, rfl, _⟩ := h; exact hwf
  | entDecide id dec sg =>
    simp only [execMsg, bind_eq_ok, pure_eq_ok, Prod.mk.injEq] at h
    obtain ⟨_, _, rfl, _⟩ := h; exact hwf
  | entWl action a sg =>
    simp only [execMsg, bind_eq_ok, pure_eq_ok, Prod.mk.injEq] at h
    obtain ⟨_, _, rfl, _⟩ := h; exact hwf
  | entParams auth p =>
    simp only [execMsg, bind_eq_ok, pure_eq_ok, Prod.mk.injEq] at h
    obtain ⟨_, _, _, _, rfl, _⟩ := h; exact hwf
  | regReg k moniker name genesis type o =>
    simp only [execMsg, bind_eq_ok, pure_eq_ok, Prod.mk.injEq] at h
    obtain ⟨_, _, rfl, _⟩ := h; cases k <;> exact hwf
  | regRec k id key rc o =>
    simp only [execMsg, bind_eq_ok, pure_eq_ok, Prod.mk.injEq] at h
    obtain ⟨_, _, rfl, _⟩ := h; cases k <;> exact hwf
  | regBuy k id n o =>
    simp only [execMsg, bind_eq_ok, pure_eq_ok, Prod.mk.injEq] at h
    obtain ⟨_, _, rfl, _⟩ := h; cases k <;> exact hwf
  | regParams k auth p =>
    simp only [execMsg, bind_eq_ok, pure_eq_ok, Prod.mk.injEq] at h
    obtain ⟨_, _, _, _, rfl, _⟩ := h; cases k <;> exact hwf

theorem strWF_step (s s' : State) (hq : RateQ s) (hi : StreamInv (toSB s)) (hwf : StreamWF s.time (toSB s))
    (h : FineStep s s') : StreamWF s'.time (toSB s') := by
  cases h with
  | leaf wall m r hl _ _ h => exact strWF_leaf wall s s' m r hl hq hi hwf h
  | ante tx _ _ h =>
    cases h with
    | none hs => subst hs; exact hwf
    | unlock _ _ _ _ _ _ hs => subst hs; exact wf_of_streams_eq s.time (toSB s) _ rfl hwf
    | deduct _ _ _ _ _ _ hs => subst hs; exact wf_of_streams_eq s.time (toSB s) _ rfl hwf
  | time t ht hs => subst hs; exact wf_time s.time t (toSB s) ht hwf
  | complete id x _ hs => subst hs; exact wf_of_streams_eq s.time (toSB s) _ rfl hwf
  | tally id e _ hs => subst hs; exact hwf

/-- **every stored stream is well-formed and solvent in every state of every run** -/
theorem strWF_reachable (g : GenCfg) (hg : GenBankValid g) (s : State) (h : FineReach g RateQ s) :
    StreamInv (toSB s) ∧ StreamWF s.time (toSB s) := by
  refine fine_inv g RateQ (fun s => StreamInv (toSB s) ∧ StreamWF s.time (toSB s)) ?_ ?_ s h
  · refine ⟨strInv_init g hg, ?_⟩
    constructor <;> simp [toSB, initState]
  · intro s s' hq hi hs
    exact ⟨strInv_step s s' hq.1 hi.1 hs, strWF_step s s' hq hi.1 hi.2 hs⟩

end Mainchain
