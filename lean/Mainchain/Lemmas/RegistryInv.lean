import Mainchain.Lemmas.AList
import Mainchain.Lemmas.Monad
import Mainchain.Model.Registry
/-
Invariants of the registry machine (x/wrkchain, x/beacon) and their preservation by every
successful module operation.
-/
namespace Mainchain
open AL

/-- structural invariant of a registry state -/
structure RegInv (s : RegState) : Prop where
  nodupRegs : NoDupKeys s.regs
  nodupLimits : NoDupKeys s.limits
  sortedRecs : RecsSorted s.recs
  idsBelowNext : ∀ id m, find? s.regs id = some m → m.id = id ∧ id < s.nextId
  hasLimit : ∀ id m, find? s.regs id = some m → ∃ l, find? s.limits id = some l ∧ 1 ≤ l
  recsBounded : ∀ id k r, find? s.recs (id, k) = some r →
      ∃ m, find? s.regs id = some m ∧ 1 ≤ k ∧ k ≤ m.last ∧ r.key = k
  paramsValid : s.params.validate = true

theorem RegInv.nodupRecs {s : RegState} (hi : RegInv s) : NoDupKeys s.recs := nodup_of_sorted _ hi.sortedRecs

/-- history assumption: no 64-bit counter of this registry is about to wrap -/
def RegBounded (s : RegState) : Prop :=
  s.nextId + 1 < two64 ∧ ∀ id m, find? s.regs id = some m → m.last + 1 < two64 ∧ m.num + 1 < two64

theorem recordWrk_limits (s : RegState) (now : Nat) (m : RegMeta) (h : Nat) (r : Rec) :
    (s.recordWrk now m h r).limits = s.limits := by
  unfold RegState.recordWrk; simp only; split <;> rfl

theorem recordBcn_limits (s : RegState) (m : RegMeta) (hash : String) (st : Nat) :
    (s.recordBcn m hash st).1.limits = s.limits := by
  unfold RegState.recordBcn; simp only; split <;> rfl

theorem addU64_small (a b : Nat) (h : a + b < two64) : addU64 a b = a + b := by
  simp [addU64, wrapU64, Nat.mod_eq_of_lt h]

theorem validate_defLimit (p : RegParams) (h : p.validate = true) : 1 ≤ p.defLimit ∧ p.defLimit ≤ p.maxLimit := by
  simp only [RegParams.validate, Bool.and_eq_true, decide_eq_true_eq] at h
  omega

theorem ownedBy_ok (s : RegState) (id : Nat) (a : Addr) (m : RegMeta) (h : s.ownedBy id a = .ok m) :
    find? s.regs id = some m ∧ m.owner.decode = some a := by
  unfold RegState.ownedBy at h
  split at h
  · cases h
  · rename_i m' hm
    split at h
    · cases h; exact ⟨hm, by assumption⟩
    · cases h

theorem regInv_register (s : RegState) (now : Nat) (mk nm gn ty : String) (o : AddrTok) (s' : RegState) (id : Nat)
    (hi : RegInv s) (hb : RegBounded s) (h : s.register now mk nm gn ty o = .ok (s', id)) :
    RegInv s' ∧ id = s.nextId ∧ find? s.regs id = none ∧ s'.recs = s.recs ∧ s'.nextId = s.nextId + 1 := by
  simp only [RegState.register, bind_eq_ok, pure_eq_ok, Prod.mk.injEq] at h
  obtain ⟨oa, _, _, _, _, _, _, _, rfl, rfl⟩ := h
  have hfresh : find? s.regs s.nextId = none := by
    cases hf : find? s.regs s.nextId with
    | none => rfl
    | some m => have := (hi.idsBelowNext _ _ hf).2; omega
  have hnext : addU64 s.nextId 1 = s.nextId + 1 := addU64_small _ _ hb.1
  refine ⟨?_, rfl, hfresh, rfl, by simp [RegState.registered, hnext]⟩
  constructor
  · exact nodup_insert _ _ _ hi.nodupRegs
  · exact nodup_insert _ _ _ hi.nodupLimits
  · exact hi.sortedRecs
  · intro id m hm
    simp only [RegState.registered, find_insert, find_insertRec] at hm
    simp only [RegState.registered, hnext]
    split at hm
    · rename_i he; cases hm; subst he; exact ⟨rfl, by omega⟩
    · have := hi.idsBelowNext id m hm; exact ⟨this.1, by omega⟩
  · intro id m hm
    simp only [RegState.registered, find_insert, find_insertRec] at hm ⊢
    split at hm
    · rename_i he; subst he; exact ⟨_, by simp, (validate_defLimit _ hi.paramsValid).1⟩
    · rename_i hne
      obtain ⟨l, hl, h1⟩ := hi.hasLimit id m hm
      exact ⟨l, by simp [hne, hl], h1⟩
  · intro id k r hr
    obtain ⟨m, hm, h1, h2, h3⟩ := hi.recsBounded id k r hr
    have hne : s.nextId ≠ id := by
      intro he; subst he; rw [hfresh] at hm; cases hm
    exact ⟨m, by simp [RegState.registered, find_insert, find_insertRec, hne, hm], h1, h2, h3⟩
  · exact hi.paramsValid

theorem addU64_no_wrap (l n : Nat) (hn : n < two64) (h : l ≤ addU64 l n) : addU64 l n = l + n := by
  unfold addU64 wrapU64 at *
  by_cases hlt : l + n < two64
  · exact Nat.mod_eq_of_lt hlt
  · exfalso
    have h1 : (l + n) % two64 ≤ l + n - two64 := by
      have := Nat.mod_eq_sub_mod (show l + n ≥ two64 by omega)
      rw [this]; exact Nat.mod_le _ _
    unfold two64 at *; omega

theorem regInv_purchase (s : RegState) (id n : Nat) (o : AddrTok) (s' : RegState) (can : Nat)
    (hi : RegInv s) (h : s.purchase id n o = .ok (s', can)) :
    RegInv s' ∧ s'.regs = s.regs ∧ s'.recs = s.recs ∧ s'.nextId = s.nextId ∧ s'.params = s.params ∧ s'.kind = s.kind ∧
    (∃ oa m, o.decode = some oa ∧ find? s.regs id = some m ∧ m.owner.decode = some oa) ∧
    (∃ after, s'.limits = insert s.limits id after ∧ (s.limitOf id).1 ≤ after ∧ after ≤ s.params.maxLimit ∧
        (n < two64 → after = (s.limitOf id).1 + n)) ∧ n ≠ 0 := by
  simp only [RegState.purchase, bind_eq_ok, pure_eq_ok, Prod.mk.injEq, require_eq_ok, decodeM_eq_ok,
    Bool.and_eq_true, decide_eq_true_eq] at h
  obtain ⟨oa, hoa, _, hn, m, hm, _, ⟨hle, hmono⟩, rfl, _⟩ := h
  obtain ⟨hm1, hm2⟩ := ownedBy_ok _ _ _ _ hm
  refine ⟨?_, rfl, rfl, rfl, rfl, rfl, ⟨oa, m, hoa, hm1, hm2⟩,
    ⟨_, rfl, hmono, hle, fun hn64 => addU64_no_wrap _ _ hn64 hmono⟩, by simpa using hn⟩
  constructor
  · exact hi.nodupRegs
  · exact nodup_insert _ _ _ hi.nodupLimits
  · exact hi.sortedRecs
  · exact hi.idsBelowNext
  · intro id' m' hm'
    obtain ⟨l, hl, h1⟩ := hi.hasLimit id' m' hm'
    simp only [find_insert, find_insertRec]
    split
    · rename_i he; subst he
      refine ⟨_, rfl, ?_⟩
      have : (s.limitOf id).1 = l := by simp [RegState.limitOf, hl]
      omega
    · exact ⟨l, hl, h1⟩
  · exact hi.recsBounded
  · exact hi.paramsValid

theorem regInv_setParams (s : RegState) (p : RegParams) (s' : RegState) (hi : RegInv s)
    (h : s.setParams p = .ok s') :
    RegInv s' ∧ s'.regs = s.regs ∧ s'.recs = s.recs ∧ s'.limits = s.limits ∧ s'.nextId = s.nextId ∧
    s'.params = p ∧ p.validate = true := by
  simp only [RegState.setParams, bind_eq_ok, pure_eq_ok, require_eq_ok] at h
  obtain ⟨_, hv, rfl⟩ := h
  exact ⟨⟨hi.nodupRegs, hi.nodupLimits, hi.sortedRecs, hi.idsBelowNext, hi.hasLimit, hi.recsBounded, hv⟩,
    rfl, rfl, rfl, rfl, rfl, hv⟩

end Mainchain

namespace Mainchain
open AL

/-! ### record: beacon -/

/-- counters of a beacon describe exactly the contiguous range of retained timestamp ids -/
structure BcnCounters (s : RegState) : Prop where
  empty : ∀ id m, find? s.regs id = some m → m.num = 0 → m.lowest = 0 ∧ m.last = 0
  range : ∀ id m, find? s.regs id = some m → 0 < m.num → 1 ≤ m.lowest ∧ m.lowest + m.num = m.last + 1
  present : ∀ id m k, find? s.regs id = some m →
      ((find? s.recs (id, k)).isSome ↔ (0 < m.num ∧ m.lowest ≤ k ∧ k ≤ m.last))
  withinLimit : ∀ id m, find? s.regs id = some m → m.num ≤ (s.limitOf id).1

theorem limitOf_of_find (s : RegState) (id l : Nat) (h : find? s.limits id = some l) : (s.limitOf id).1 = l := by
  simp [RegState.limitOf, h]

/-- the two shapes of the state after `RecordNewBeaconTimestamp` -/
def bcnAfterKeep (s : RegState) (m : RegMeta) (hash : String) (st : Nat) : RegState :=
  { s with recs := insertRec s.recs (m.id, m.last + 1) { key := m.last + 1, h0 := hash, subTime := st }
           regs := insert s.regs m.id { m with last := m.last + 1, lowest := if m.lowest = 0 then m.last + 1 else m.lowest,
                                               num := m.num + 1 } }

def bcnAfterPrune (s : RegState) (m : RegMeta) (hash : String) (st : Nat) : RegState :=
  { s with recs := erase (insertRec s.recs (m.id, m.last + 1) { key := m.last + 1, h0 := hash, subTime := st }) (m.id, m.lowest)
           regs := insert s.regs m.id { m with last := m.last + 1, lowest := m.lowest + 1, num := m.num } }

theorem recordBcn_eq (s : RegState) (m : RegMeta) (hash : String) (st : Nat)
    (hb : m.last + 1 < two64 ∧ m.num + 1 < two64) (hlow : m.lowest + 1 < two64) :
    s.recordBcn m hash st =
      (if m.num + 1 > (s.limitOf m.id).1 then
        (if m.lowest = 0 then
          { s with recs := erase (insertRec s.recs (m.id, m.last + 1) { key := m.last + 1, h0 := hash, subTime := st }) (m.id, m.last + 1)
                   regs := insert s.regs m.id { m with last := m.last + 1, lowest := addU64 (m.last + 1) 1, num := m.num } }
         else bcnAfterPrune s m hash st)
       else bcnAfterKeep s m hash st, m.last + 1) := by
  have htsid : addU64 m.last 1 = m.last + 1 := addU64_small _ _ hb.1
  have hnum : addU64 m.num 1 = m.num + 1 := addU64_small _ _ hb.2
  have hadd : addU64 m.lowest 1 = m.lowest + 1 := addU64_small _ _ hlow
  have hsub : subU64 (m.num + 1) 1 = m.num := by simp [subU64]
  have hlt : m.last + 1 > m.last := by omega
  unfold RegState.recordBcn
  simp only [htsid, hnum, hlt, if_true]
  by_cases hp : m.num + 1 > (s.limitOf m.id).1
  · simp only [hp, if_true, hsub]
    by_cases h0 : m.lowest = 0
    · simp [h0]
    · simp [h0, hadd, bcnAfterPrune]
  · simp [hp, bcnAfterKeep]

theorem bcnKeep_regInv (s : RegState) (m : RegMeta) (id : Nat) (hash : String) (st : Nat)
    (hi : RegInv s) (hm : find? s.regs id = some m) : RegInv (bcnAfterKeep s m hash st) := by
  have hid : m.id = id := (hi.idsBelowNext id m hm).1
  subst hid
  obtain ⟨l, hl, hl1⟩ := hi.hasLimit _ m hm
  constructor
  · exact nodup_insert _ _ _ hi.nodupRegs
  · exact hi.nodupLimits
  · exact sorted_insertRec _ _ _ hi.sortedRecs
  · intro id' m' hm'
    simp only [bcnAfterKeep, find_insert, find_insertRec] at hm'
    split at hm'
    · rename_i he; cases hm'; subst he; exact ⟨rfl, (hi.idsBelowNext _ _ hm).2⟩
    · exact hi.idsBelowNext id' m' hm'
  · intro id' m' hm'
    simp only [bcnAfterKeep, find_insert, find_insertRec] at hm'
    split at hm'
    · rename_i he; subst he; exact ⟨l, hl, hl1⟩
    · exact hi.hasLimit id' m' hm'
  · intro id' k r hr
    simp only [bcnAfterKeep, find_insert, find_insertRec] at hr
    split at hr
    · rename_i he; cases hr
      obtain ⟨rfl, rfl⟩ := Prod.mk.inj he
      exact ⟨_, find_insert_eq _ _ _, by omega, by simp, rfl⟩
    · obtain ⟨m2, hm2, h1, h2, h3⟩ := hi.recsBounded id' k r hr
      by_cases hid' : m.id = id'
      · subst hid'
        rw [hm] at hm2; cases hm2
        exact ⟨_, find_insert_eq _ _ _, h1, by simp; omega, h3⟩
      · exact ⟨m2, by rw [← hm2]; exact find_insert_ne _ _ _ _ hid', h1, h2, h3⟩
  · exact hi.paramsValid

theorem bcnPrune_regInv (s : RegState) (m : RegMeta) (id : Nat) (hash : String) (st : Nat)
    (hi : RegInv s) (hm : find? s.regs id = some m) : RegInv (bcnAfterPrune s m hash st) := by
  have hid : m.id = id := (hi.idsBelowNext id m hm).1
  subst hid
  obtain ⟨l, hl, hl1⟩ := hi.hasLimit _ m hm
  have hsr := sorted_insertRec s.recs (m.id, m.last + 1) ({ key := m.last + 1, h0 := hash, subTime := st } : Rec) hi.sortedRecs
  have hnd := nodup_of_sorted _ hsr
  constructor
  · exact nodup_insert _ _ _ hi.nodupRegs
  · exact hi.nodupLimits
  · exact sorted_erase _ _ hsr
  · intro id' m' hm'
    simp only [bcnAfterPrune, find_insert, find_insertRec] at hm'
    split at hm'
    · rename_i he; cases hm'; subst he; exact ⟨rfl, (hi.idsBelowNext _ _ hm).2⟩
    · exact hi.idsBelowNext id' m' hm'
  · intro id' m' hm'
    simp only [bcnAfterPrune, find_insert, find_insertRec] at hm'
    split at hm'
    · rename_i he; subst he; exact ⟨l, hl, hl1⟩
    · exact hi.hasLimit id' m' hm'
  · intro id' k r hr
    simp only [bcnAfterPrune] at hr
    by_cases hk : (m.id, m.lowest) = (id', k)
    · rw [← hk, find_erase_eq _ _ hnd] at hr; cases hr
    · rw [find_erase_ne _ _ _ hk, find_insertRec] at hr
      split at hr
      · rename_i he; cases hr
        obtain ⟨rfl, rfl⟩ := Prod.mk.inj he
        exact ⟨_, find_insert_eq _ _ _, by omega, by simp, rfl⟩
      · obtain ⟨m2, hm2, h1, h2, h3⟩ := hi.recsBounded id' k r hr
        by_cases hid' : m.id = id'
        · subst hid'
          rw [hm] at hm2; cases hm2
          exact ⟨_, find_insert_eq _ _ _, h1, by simp; omega, h3⟩
        · exact ⟨m2, by rw [← hm2]; exact find_insert_ne _ _ _ _ hid', h1, h2, h3⟩
  · exact hi.paramsValid

theorem limitOf_regs_irrel (s : RegState) (regs : List (Nat × RegMeta)) (recs : List ((Nat × Nat) × Rec)) (id : Nat) :
    ({ s with regs := regs, recs := recs } : RegState).limitOf id = s.limitOf id := rfl

theorem bcnKeep_counters (s : RegState) (m : RegMeta) (id : Nat) (hash : String) (st : Nat)
    (hi : RegInv s) (hc : BcnCounters s) (hm : find? s.regs id = some m)
    (hroom : m.num + 1 ≤ (s.limitOf id).1) : BcnCounters (bcnAfterKeep s m hash st) := by
  have hid : m.id = id := (hi.idsBelowNext id m hm).1
  subst hid
  constructor
  · intro id' m' hm' h0
    simp only [bcnAfterKeep, find_insert, find_insertRec] at hm'
    split at hm'
    · cases hm'; simp at h0
    · exact hc.empty id' m' hm' h0
  · intro id' m' hm' h0
    simp only [bcnAfterKeep, find_insert, find_insertRec] at hm'
    split at hm'
    · cases hm'
      simp only
      rcases Nat.eq_zero_or_pos m.num with h00 | hpos
      · obtain ⟨e1, e2⟩ := hc.empty _ m hm h00
        simp [e1, e2, h00]
      · obtain ⟨e1, e2⟩ := hc.range _ m hm hpos
        have : ¬ m.lowest = 0 := by omega
        simp [this]; omega
    · exact hc.range id' m' hm' h0
  · intro id' m' k hm'
    simp only [bcnAfterKeep, find_insert, find_insertRec] at hm' ⊢
    split at hm'
    · rename_i he; subst he; cases hm'
      simp only
      split
      · rename_i he; have := (Prod.mk.inj he).2; subst this
        rcases Nat.eq_zero_or_pos m.num with h00 | hpos
        · obtain ⟨e1, e2⟩ := hc.empty _ m hm h00
          simp [e1, e2]
        · obtain ⟨e1, e2⟩ := hc.range _ m hm hpos
          have : ¬ m.lowest = 0 := by omega
          simp [this]; omega
      · rename_i hne2
        have hk2 : k ≠ m.last + 1 := fun e => hne2 (by rw [e])
        rw [hc.present _ m k hm]
        rcases Nat.eq_zero_or_pos m.num with h00 | hpos
        · obtain ⟨e1, e2⟩ := hc.empty _ m hm h00
          simp [e1, e2, h00]; omega
        · obtain ⟨e1, e2⟩ := hc.range _ m hm hpos
          have : ¬ m.lowest = 0 := by omega
          simp only [this, if_false]
          constructor
          · rintro ⟨_, h1, h2⟩; exact ⟨by omega, h1, by omega⟩
          · rintro ⟨_, h1, h2⟩; exact ⟨hpos, h1, by omega⟩
    · rename_i hne2
      have : ¬ (m.id, m.last + 1) = (id', k) := fun e => hne2 (Prod.mk.inj e).1
      simp only [this, if_false]
      exact hc.present id' m' k hm'
  · intro id' m' hm'
    simp only [bcnAfterKeep, find_insert, find_insertRec] at hm'
    show m'.num ≤ (s.limitOf id').1
    split at hm'
    · rename_i he; subst he; cases hm'; exact hroom
    · exact hc.withinLimit id' m' hm'

theorem bcnPrune_counters (s : RegState) (m : RegMeta) (id : Nat) (hash : String) (st : Nat)
    (hi : RegInv s) (hc : BcnCounters s) (hm : find? s.regs id = some m)
    (hpos : 0 < m.num) : BcnCounters (bcnAfterPrune s m hash st) := by
  have hid : m.id = id := (hi.idsBelowNext id m hm).1
  subst hid
  obtain ⟨hlow1, hrange⟩ := hc.range _ m hm hpos
  have hsr := sorted_insertRec s.recs (m.id, m.last + 1) ({ key := m.last + 1, h0 := hash, subTime := st } : Rec) hi.sortedRecs
  have hnd := nodup_of_sorted _ hsr
  constructor
  · intro id' m' hm' h0
    simp only [bcnAfterPrune, find_insert, find_insertRec] at hm'
    split at hm'
    · cases hm'; simp at h0; omega
    · exact hc.empty id' m' hm' h0
  · intro id' m' hm' h0
    simp only [bcnAfterPrune, find_insert, find_insertRec] at hm'
    split at hm'
    · cases hm'; simp; omega
    · exact hc.range id' m' hm' h0
  · intro id' m' k hm'
    simp only [bcnAfterPrune, find_insert, find_insertRec] at hm'
    show (find? (erase (insertRec s.recs (m.id, m.last + 1) _) (m.id, m.lowest)) (id', k)).isSome ↔ _
    split at hm'
    · rename_i he; subst he; cases hm'
      simp only
      by_cases hk : (m.id, m.lowest) = (m.id, k)
      · have hk' : k = m.lowest := (Prod.mk.inj hk).2.symm
        subst hk'
        rw [find_erase_eq _ _ hnd]
        simp; omega
      · have hk' : k ≠ m.lowest := fun e => hk (by rw [e])
        rw [find_erase_ne _ _ _ hk, find_insertRec]
        split
        · rename_i he; have := (Prod.mk.inj he).2; subst this; simp; omega
        · rename_i hne2
          have hk2 : k ≠ m.last + 1 := fun e => hne2 (by rw [e])
          rw [hc.present _ m k hm]
          constructor
          · rintro ⟨_, h1, h2⟩; exact ⟨hpos, by omega, by omega⟩
          · rintro ⟨_, h1, h2⟩; exact ⟨hpos, by omega, by omega⟩
    · rename_i hne2
      have hk : (m.id, m.lowest) ≠ (id', k) := fun e => hne2 (Prod.mk.inj e).1
      rw [find_erase_ne _ _ _ hk, find_insertRec_ne _ _ _ _ (fun e => hne2 (Prod.mk.inj e).1)]
      exact hc.present id' m' k hm'
  · intro id' m' hm'
    simp only [bcnAfterPrune, find_insert, find_insertRec] at hm'
    show m'.num ≤ (s.limitOf id').1
    split at hm'
    · rename_i he; subst he; cases hm'; exact hc.withinLimit _ m hm
    · exact hc.withinLimit id' m' hm'

/-- beacon: all invariants together -/
structure BcnInv (s : RegState) : Prop where
  kind : s.kind = .bcn
  reg : RegInv s
  cnt : BcnCounters s

/-- outcome of a successful beacon record message -/
theorem bcn_record_shape (s : RegState) (now wall id key : Nat) (rc : Rec) (o : AddrTok) (s' : RegState) (k : Nat)
    (hi : BcnInv s) (hb : RegBounded s) (h : s.record now wall id key rc o = .ok (s', k)) :
    ∃ m oa, find? s.regs id = some m ∧ o.decode = some oa ∧ m.owner.decode = some oa ∧ k = m.last + 1 ∧
      rc.h0.utf8ByteSize ≤ 66 ∧
      ((m.num = (s.limitOf id).1 ∧ 0 < m.num ∧ s' = bcnAfterPrune s m rc.h0 (if rc.subTime = 0 then wall else rc.subTime)) ∨
       (m.num + 1 ≤ (s.limitOf id).1 ∧ s' = bcnAfterKeep s m rc.h0 (if rc.subTime = 0 then wall else rc.subTime))) := by
  simp only [RegState.record, hi.kind, bind_eq_ok, pure_eq_ok, require_eq_ok, decodeM_eq_ok, decide_eq_true_eq] at h
  obtain ⟨oa, hoa, _, hsz, m, hm, heq⟩ := h
  obtain ⟨hm1, hm2⟩ := ownedBy_ok _ _ _ _ hm
  have hid : m.id = id := (hi.reg.idsBelowNext id m hm1).1
  have hbm := hb.2 id m hm1
  have hwl := hi.cnt.withinLimit id m hm1
  obtain ⟨l, hl, hl1⟩ := hi.reg.hasLimit id m hm1
  have hlim := limitOf_of_find s id l hl
  refine ⟨m, oa, hm1, hoa, hm2, ?_, hsz, ?_⟩
  · by_cases hlow : m.lowest + 1 < two64
    · rw [recordBcn_eq s m _ _ hbm hlow] at heq; exact (Prod.mk.inj heq).2.symm
    · -- lowest ≤ last always, so this case is impossible
      exfalso
      rcases Nat.eq_zero_or_pos m.num with h0 | hp
      · have := (hi.cnt.empty id m hm1 h0).1; unfold two64 at hlow; omega
      · have := (hi.cnt.range id m hm1 hp).2; omega
  · have hlow : m.lowest + 1 < two64 := by
      rcases Nat.eq_zero_or_pos m.num with h0 | hp
      · have := (hi.cnt.empty id m hm1 h0).1; unfold two64; omega
      · have := (hi.cnt.range id m hm1 hp).2; omega
    rw [recordBcn_eq s m _ _ hbm hlow, hid] at heq
    have heq1 := (Prod.mk.inj heq).1
    by_cases hp : m.num + 1 > (s.limitOf id).1
    · have hfull : m.num = (s.limitOf id).1 := by omega
      have hpos : 0 < m.num := by omega
      have hl0 : ¬ m.lowest = 0 := by have := (hi.cnt.range id m hm1 hpos).1; omega
      simp only [hp, if_true, hl0, if_false] at heq1
      exact Or.inl ⟨hfull, hpos, heq1.symm⟩
    · simp only [hp, if_false] at heq1
      exact Or.inr ⟨by omega, heq1.symm⟩

theorem bcn_record_inv (s : RegState) (now wall id key : Nat) (rc : Rec) (o : AddrTok) (s' : RegState) (k : Nat)
    (hi : BcnInv s) (hb : RegBounded s) (h : s.record now wall id key rc o = .ok (s', k)) : BcnInv s' := by
  obtain ⟨m, oa, hm, _, _, _, _, hshape⟩ := bcn_record_shape s now wall id key rc o s' k hi hb h
  rcases hshape with ⟨hfull, hpos, rfl⟩ | ⟨hroom, rfl⟩
  · exact ⟨hi.kind, bcnPrune_regInv s m id _ _ hi.reg hm, bcnPrune_counters s m id _ _ hi.reg hi.cnt hm hpos⟩
  · exact ⟨hi.kind, bcnKeep_regInv s m id _ _ hi.reg hm, bcnKeep_counters s m id _ _ hi.reg hi.cnt hm hroom⟩

theorem bcn_register_inv (s : RegState) (now : Nat) (mk nm gn ty : String) (o : AddrTok) (s' : RegState) (id : Nat)
    (hi : BcnInv s) (hb : RegBounded s) (h : s.register now mk nm gn ty o = .ok (s', id)) : BcnInv s' := by
  obtain ⟨hreg, hid, hfresh, hrecs, _⟩ := regInv_register s now mk nm gn ty o s' id hi.reg hb h
  simp only [RegState.register, bind_eq_ok, pure_eq_ok, Prod.mk.injEq] at h
  obtain ⟨oa, _, _, _, _, _, _, _, rfl, _⟩ := h
  refine ⟨hi.kind, hreg, ?_⟩
  subst hid
  have hnorec : ∀ k, find? s.recs (s.nextId, k) = none := by
    intro k
    cases hf : find? s.recs (s.nextId, k) with
    | none => rfl
    | some r => obtain ⟨m2, hm2, _⟩ := hi.reg.recsBounded _ _ r hf; rw [hfresh] at hm2; cases hm2
  constructor
  · intro id' m' hm' h0
    simp only [RegState.registered, find_insert, find_insertRec] at hm'
    split at hm'
    · cases hm'; exact ⟨rfl, rfl⟩
    · exact hi.cnt.empty id' m' hm' h0
  · intro id' m' hm' h0
    simp only [RegState.registered, find_insert, find_insertRec] at hm'
    split at hm'
    · cases hm'; simp at h0
    · exact hi.cnt.range id' m' hm' h0
  · intro id' m' k hm'
    simp only [RegState.registered, find_insert, find_insertRec] at hm'
    show (find? s.recs (id', k)).isSome ↔ _
    split at hm'
    · rename_i he; subst he; cases hm'; simp [hnorec k]
    · exact hi.cnt.present id' m' k hm'
  · intro id' m' hm'
    simp only [RegState.registered, find_insert, find_insertRec] at hm'
    split at hm'
    · cases hm'; simp
    · rename_i hne
      have := hi.cnt.withinLimit id' m' hm'
      simpa [RegState.registered, RegState.limitOf, find_insert, find_insertRec, hne] using this

theorem bcn_purchase_inv (s : RegState) (id n : Nat) (o : AddrTok) (s' : RegState) (can : Nat)
    (hi : BcnInv s) (h : s.purchase id n o = .ok (s', can)) : BcnInv s' := by
  obtain ⟨hreg, hregs, hrecs, _, _, hk, _, ⟨after, hlim, hmono, _, _⟩, _⟩ := regInv_purchase s id n o s' can hi.reg h
  refine ⟨hk ▸ hi.kind, hreg, ?_⟩
  constructor
  · intro id' m' hm'; rw [hregs] at hm'; exact hi.cnt.empty id' m' hm'
  · intro id' m' hm'; rw [hregs] at hm'; exact hi.cnt.range id' m' hm'
  · intro id' m' k hm'; rw [hregs] at hm'; rw [hrecs]; exact hi.cnt.present id' m' k hm'
  · intro id' m' hm'
    rw [hregs] at hm'
    have := hi.cnt.withinLimit id' m' hm'
    by_cases he : id = id'
    · subst he
      have : (s'.limitOf id).1 = after := by
        simp [RegState.limitOf, hlim]
      omega
    · have : (s'.limitOf id').1 = (s.limitOf id').1 := by
        simp [RegState.limitOf, hlim, find_insert_ne _ _ _ _ he]
      omega

theorem bcn_setParams_inv (s : RegState) (p : RegParams) (s' : RegState)
    (hi : BcnInv s) (h : s.setParams p = .ok s') : BcnInv s' := by
  obtain ⟨hreg, hregs, hrecs, hlims, _, _, _⟩ := regInv_setParams s p s' hi.reg h
  have hk : s'.kind = s.kind := by
    simp only [RegState.setParams, bind_eq_ok, pure_eq_ok] at h
    obtain ⟨_, _, rfl⟩ := h; rfl
  refine ⟨hk ▸ hi.kind, hreg, ?_⟩
  constructor
  · intro id' m' hm'; rw [hregs] at hm'; exact hi.cnt.empty id' m' hm'
  · intro id' m' hm'; rw [hregs] at hm'; exact hi.cnt.range id' m' hm'
  · intro id' m' k hm'; rw [hregs] at hm'; rw [hrecs]; exact hi.cnt.present id' m' k hm'
  · intro id' m' hm'
    rw [hregs] at hm'
    have := hi.cnt.withinLimit id' m' hm'
    simpa [RegState.limitOf, hlims] using this


end Mainchain
