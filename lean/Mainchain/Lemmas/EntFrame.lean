import Mainchain.Lemmas.Fine
/-
Frame facts about the enterprise state: which elementary operations change which fields.
-/
namespace Mainchain
open AL

theorem incrementLocked_frame (x x' : EB) (a : Addr) (c : Coin) (h : EB.incrementLocked x a c = .ok x') :
    x'.ent.params = x.ent.params ∧ x'.ent.orders = x.ent.orders ∧ x'.ent.raisedQ = x.ent.raisedQ ∧
    x'.ent.acceptedQ = x.ent.acceptedQ ∧ x'.ent.whitelist = x.ent.whitelist ∧ x'.ent.nextId = x.ent.nextId ∧
    x'.ent.spent = x.ent.spent ∧ x'.ent.totalSpent = x.ent.totalSpent ∧ x'.bank = x.bank := by
  simp only [EB.incrementLocked, bind_eq_ok, pure_eq_ok] at h
  obtain ⟨_, _, _, _, rfl⟩ := h
  exact ⟨rfl, rfl, rfl, rfl, rfl, rfl, rfl, rfl, rfl⟩

theorem decrementLocked_frame (x x' : EB) (a : Addr) (c : Coin) (h : EB.decrementLocked x a c = .ok x') :
    x'.ent.params = x.ent.params ∧ x'.ent.orders = x.ent.orders ∧ x'.ent.raisedQ = x.ent.raisedQ ∧
    x'.ent.acceptedQ = x.ent.acceptedQ ∧ x'.ent.whitelist = x.ent.whitelist ∧ x'.ent.nextId = x.ent.nextId ∧
    x'.ent.spent = x.ent.spent ∧ x'.ent.totalSpent = x.ent.totalSpent ∧ x'.bank = x.bank := by
  simp only [EB.decrementLocked, bind_eq_ok, pure_eq_ok] at h
  obtain ⟨_, _, _, _, rfl⟩ := h
  exact ⟨rfl, rfl, rfl, rfl, rfl, rfl, rfl, rfl, rfl⟩

theorem incrementSpent_frame (x x' : EB) (a : Addr) (c : Coin) (h : EB.incrementSpent x a c = .ok x') :
    x'.ent.params = x.ent.params ∧ x'.ent.orders = x.ent.orders ∧ x'.ent.raisedQ = x.ent.raisedQ ∧
    x'.ent.acceptedQ = x.ent.acceptedQ ∧ x'.ent.whitelist = x.ent.whitelist ∧ x'.ent.nextId = x.ent.nextId ∧
    x'.ent.locked = x.ent.locked ∧ x'.ent.totalLocked = x.ent.totalLocked ∧ x'.bank = x.bank := by
  simp only [EB.incrementSpent, bind_eq_ok, pure_eq_ok] at h
  obtain ⟨_, _, _, _, rfl⟩ := h
  exact ⟨rfl, rfl, rfl, rfl, rfl, rfl, rfl, rfl, rfl⟩

/-- the order book part of the enterprise state (everything except the eFUND books) -/
def EntState.book (e : EntState) : EntParams × Nat × List (Nat × PO) × List Nat × List Nat × List Addr :=
  (e.params, e.nextId, e.orders, e.raisedQ, e.acceptedQ, e.whitelist)

theorem unlockForFees_book (x x' : EB) (now : Int) (p : Addr) (fees : Coins)
    (h : EB.unlockForFees x now p fees = .ok x') : x'.ent.book = x.ent.book := by
  simp only [EB.unlockForFees, bind_eq_ok] at h
  obtain ⟨_, _, h⟩ := h
  split at h
  · simp only [bind_eq_ok] at h
    obtain ⟨b, _, x1, h1, h2⟩ := h
    have f1 := decrementLocked_frame _ _ _ _ h1
    have f2 := incrementSpent_frame _ _ _ _ h2
    simp only [EntState.book]
    rw [f2.1, f2.2.1, f2.2.2.1, f2.2.2.2.1, f2.2.2.2.2.1, f2.2.2.2.2.2.1, f1.1, f1.2.1, f1.2.2.1, f1.2.2.2.1,
      f1.2.2.2.2.1, f1.2.2.2.2.2.1]
  · split at h
    · simp only [bind_eq_ok] at h
      obtain ⟨b, _, x1, h1, h2⟩ := h
      have f1 := decrementLocked_frame _ _ _ _ h1
      have f2 := incrementSpent_frame _ _ _ _ h2
      simp only [EntState.book]
      rw [f2.1, f2.2.1, f2.2.2.1, f2.2.2.2.1, f2.2.2.2.2.1, f2.2.2.2.2.2.1, f1.1, f1.2.1, f1.2.2.1, f1.2.2.2.1,
        f1.2.2.2.2.1, f1.2.2.2.2.2.1]
    · simp only [pure_eq_ok] at h; subst h; rfl

theorem mintAndLock_book (x x' : EB) (now : Int) (bl : Addr → Bool) (r : Addr) (c : Coin)
    (h : EB.mintAndLock x now bl r c = .ok x') : x'.ent.book = x.ent.book := by
  unfold EB.mintAndLock at h
  split at h
  · cases h; rfl
  · simp only [bind_eq_ok] at h
    obtain ⟨_, _, b1, _, _, _, b2, _, b3, _, hinc⟩ := h
    have f := incrementLocked_frame _ _ _ _ hinc
    simp only [EntState.book]
    rw [f.1, f.2.1, f.2.2.1, f.2.2.2.1, f.2.2.2.2.1, f.2.2.2.2.2.1]

theorem asPanic_ok {α : Type} (x : M α) (v : α) (h : EB.asPanic x = .ok v) : x = .ok v := by
  cases x with
  | ok a => simpa [EB.asPanic] using h
  | error e => cases e <;> simp [EB.asPanic] at h

/-- completing an order: params, id counter, raised queue and whitelist untouched -/
theorem completeOne_frame (x x' : EB) (now : Int) (bl : Addr → Bool) (id : Nat)
    (h : EB.completeOne x now bl id = .ok x') :
    x'.ent.params = x.ent.params ∧ x'.ent.nextId = x.ent.nextId ∧ x'.ent.raisedQ = x.ent.raisedQ ∧
    x'.ent.whitelist = x.ent.whitelist := by
  unfold EB.completeOne at h
  split at h
  · cases h
  · split at h
    · cases h
    · split at h
      · cases h
      · simp only [bind_eq_ok, pure_eq_ok] at h
        obtain ⟨x2, hx2, rfl⟩ := h
        have hb := mintAndLock_book _ _ _ _ _ _ (asPanic_ok _ _ hx2)
        simp only [EntState.book, Prod.mk.injEq] at hb
        exact ⟨hb.1, hb.2.1, hb.2.2.2.1, hb.2.2.2.2.2⟩

theorem tallyOne_frame (e e' : EntState) (now id : Nat) (h : e.tallyOne now id = .ok e') :
    e'.params = e.params ∧ e'.nextId = e.nextId ∧ e'.whitelist = e.whitelist ∧ e'.locked = e.locked ∧
    e'.spent = e.spent ∧ e'.totalLocked = e.totalLocked ∧ e'.totalSpent = e.totalSpent := by
  unfold EntState.tallyOne at h
  split at h
  · cases h
  · split at h
    · cases h
    · split at h
      · cases h; exact ⟨rfl, rfl, rfl, rfl, rfl, rfl, rfl⟩
      · cases h; split <;> exact ⟨rfl, rfl, rfl, rfl, rfl, rfl, rfl⟩

/-- message-server operations other than `setParams` keep the parameters -/
theorem entOp_params (now : Nat) (a b : EntState) (h : EntOp now a b) :
    b.params = a.params ∨ (∃ p, a.setParams p = .ok b ∧ p.validate = true ∧ b.params = p) := by
  cases h with
  | raise p denom amt id h =>
    simp only [EntState.raise, bind_eq_ok, pure_eq_ok, Prod.mk.injEq] at h
    obtain ⟨_, _, _, _, _, _, _, _, rfl, _⟩ := h; exact Or.inl rfl
  | decide id dec sg h =>
    simp only [EntState.decide_, bind_eq_ok, pure_eq_ok] at h
    obtain ⟨_, _, _, _, _, _, _, _, _, _, _, _, _, _, rfl⟩ := h; exact Or.inl rfl
  | whitelist action addr sg h =>
    simp only [EntState.whitelistMsg, bind_eq_ok] at h
    obtain ⟨_, _, _, _, _, _, _, _, h⟩ := h
    split at h
    · simp only [bind_eq_ok, pure_eq_ok] at h; obtain ⟨_, _, rfl⟩ := h; exact Or.inl rfl
    · simp only [bind_eq_ok, pure_eq_ok] at h; obtain ⟨_, _, rfl⟩ := h; exact Or.inl rfl
  | setParams p h =>
    have h' := h
    simp only [EntState.setParams, bind_eq_ok, pure_eq_ok, require_eq_ok] at h
    obtain ⟨_, hv, rfl⟩ := h
    exact Or.inr ⟨p, h', hv, rfl⟩

/-- the only bank operation of the fee unlock is one undelegation escrow → payer -/
theorem unlockForFees_bank (x x' : EB) (now : Int) (p : Addr) (fees : Coins)
    (h : EB.unlockForFees x now p fees = .ok x') :
    x'.bank = x.bank ∨ ∃ amt, x.bank.undelegate now Ment p amt = .ok x'.bank := by
  simp only [EB.unlockForFees, bind_eq_ok] at h
  obtain ⟨_, _, h⟩ := h
  split at h
  · simp only [bind_eq_ok] at h
    obtain ⟨b, hb, x1, h1, h2⟩ := h
    have f1 := decrementLocked_frame _ _ _ _ h1
    have f2 := incrementSpent_frame _ _ _ _ h2
    right; exact ⟨fees, by rw [f2.2.2.2.2.2.2.2.2, f1.2.2.2.2.2.2.2.2]; exact hb⟩
  · split at h
    · simp only [bind_eq_ok] at h
      obtain ⟨b, hb, x1, h1, h2⟩ := h
      have f1 := decrementLocked_frame _ _ _ _ h1
      have f2 := incrementSpent_frame _ _ _ _ h2
      right; exact ⟨_, by rw [f2.2.2.2.2.2.2.2.2, f1.2.2.2.2.2.2.2.2]; exact hb⟩
    · simp only [pure_eq_ok] at h; subst h; exact Or.inl rfl

/-- the bank operations of `MintCoinsAndLock` : mint into escrow, send to the (non-blocked) recipient,
delegate back into escrow -/
theorem mintAndLock_bank (x x' : EB) (now : Int) (bl : Addr → Bool) (r : Addr) (c : Coin)
    (h : EB.mintAndLock x now bl r c = .ok x') :
    x'.bank = x.bank ∨ (bl r = false ∧ ∃ b1 b2, x.bank.mint Ment [c] = .ok b1 ∧ b1.sendCoins now Ment r [c] = .ok b2 ∧
      b2.delegate now r Ment [c] = .ok x'.bank) := by
  unfold EB.mintAndLock at h
  split at h
  · cases h; exact Or.inl rfl
  · simp only [bind_eq_ok, require_eq_ok] at h
    obtain ⟨_, _, b1, h1, _, hbl, b2, h2, b3, h3, hinc⟩ := h
    have f := incrementLocked_frame _ _ _ _ hinc
    right
    refine ⟨by simpa using hbl, b1, b2, h1, h2, ?_⟩
    rw [f.2.2.2.2.2.2.2.2]; exact h3

end Mainchain
