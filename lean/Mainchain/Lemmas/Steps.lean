import Mainchain.Lemmas.Exec
/-
Characterisation of the leaf message-server steps: which component of the state a message can
change, and through which module operation.  Property invariants are proved per module operation
and lifted with `exec_rel` / `deliverTx_rel`.
-/
namespace Mainchain

/-- one successful operation of a registry module (wrkchain or beacon) -/
inductive RegOp (now wall : Nat) (a b : RegState) : Prop where
  | register (moniker name genesis type : String) (o : AddrTok) (id : Nat)
      (h : a.register now moniker name genesis type o = .ok (b, id))
  | record (id key : Nat) (rc : Rec) (o : AddrTok) (k : Nat) (h : a.record now wall id key rc o = .ok (b, k))
  | purchase (id n : Nat) (o : AddrTok) (can : Nat) (h : a.purchase id n o = .ok (b, can))
  | setParams (p : RegParams) (h : a.setParams p = .ok b)

/-- one successful message-server operation of the enterprise module -/
inductive EntOp (now : Nat) (a b : EntState) : Prop where
  | raise (p : AddrTok) (denom : String) (amt : Int) (id : Nat) (h : a.raise now p denom amt = .ok (b, id))
  | decide (id dec : Nat) (sg : AddrTok) (h : a.decide_ now id dec sg = .ok b)
  | whitelist (action : Nat) (addr sg : AddrTok) (h : a.whitelistMsg action addr sg = .ok b)
  | setParams (p : EntParams) (h : a.setParams p = .ok b)

/-- one successful message-server operation of the stream module (stream state + bank) -/
inductive StreamOp (now : Int) (a b : SB) : Prop where
  | create (r s : AddrTok) (denom : String) (amt rate : Int) (h : createStream a now isBlocked r s denom amt rate = .ok b)
  | claim (r s : AddrTok) (o : ClaimOut) (h : claimStream a now isBlocked r s = .ok (b, o))
  | topup (r s : AddrTok) (denom : String) (amt : Int) (d z : Int) (h : topUpDeposit a now isBlocked r s denom amt = .ok (b, d, z))
  | rate (r s : AddrTok) (rate : Int) (h : updateFlowRate a now isBlocked r s rate = .ok b)
  | cancel (r s : AddrTok) (h : cancelStreamMsg a now isBlocked r s = .ok b)

/-- what one leaf message can do to the state -/
inductive LeafStep (wall : Nat) (s s' : State) : Prop where
  | ent (e : EntState) (h : EntOp s.nowSecU s.ent e) (hs : s' = { s with ent := e })
  | reg (k : RegKind) (r : RegState) (h : RegOp s.nowSecU wall (s.reg k) r) (hs : s' = s.setReg k r)
  | str (x : SB) (h : StreamOp s.time (toSB s) x) (hs : s' = liftSB s x)
  | strParams (fee : Int) (hv : streamParamsValid fee = true) (hs : s' = { s with str := { s.str with fee := fee } })
  | send (a b : Addr) (coins : Coins) (bank : Bank) (hb : isBlocked b = false)
      (h : s.bank.sendCoins s.nowSec a b coins = .ok bank) (hs : s' = { s with bank := bank })
  | authz (ea : Addr) (g : List (Addr × Addr × String)) (hs : s' = { s with bank := s.bank.ensureAccount ea, grants := g })
  | feegrant (ea : Addr) (al : List (Addr × Addr)) (hs : s' = { s with bank := s.bank.ensureAccount ea, allowances := al })
  | revoke (g : List (Addr × Addr × String)) (hs : s' = { s with grants := g })

theorem leaf_step (wall : Nat) (s s' : State) (m : Msg) (r : Resp) (hl : m.isLeaf = true)
    (h : execMsg wall s m = .ok (s', r)) : LeafStep wall s s' := by
  cases m with
  | entRaise p amt denom =>
    simp only [execMsg, bind_eq_ok, pure_eq_ok, Prod.mk.injEq] at h
    obtain ⟨x, hx, rfl, _⟩ := h
    exact .ent x.1 (.raise p denom amt x.2 (by cases x; exact hx)) rfl
  | entDecide id dec sg =>
    simp only [execMsg, bind_eq_ok, pure_eq_ok, Prod.mk.injEq] at h
    obtain ⟨e, he, rfl, _⟩ := h
    exact .ent e (.decide id dec sg he) rfl
  | entWl action a sg =>
    simp only [execMsg, bind_eq_ok, pure_eq_ok, Prod.mk.injEq] at h
    obtain ⟨e, he, rfl, _⟩ := h
    exact .ent e (.whitelist action a sg he) rfl
  | entParams auth p =>
    simp only [execMsg, bind_eq_ok, pure_eq_ok, Prod.mk.injEq] at h
    obtain ⟨_, _, e, he, rfl, _⟩ := h
    exact .ent e (.setParams p he) rfl
  | regReg k moniker name genesis type o =>
    simp only [execMsg, bind_eq_ok, pure_eq_ok, Prod.mk.injEq] at h
    obtain ⟨x, hx, rfl, _⟩ := h
    exact .reg k x.1 (.register moniker name genesis type o x.2 (by cases x; exact hx)) rfl
  | regRec k id key rc o =>
    simp only [execMsg, bind_eq_ok, pure_eq_ok, Prod.mk.injEq] at h
    obtain ⟨x, hx, rfl, _⟩ := h
    exact .reg k x.1 (.record id key rc o x.2 (by cases x; exact hx)) rfl
  | regBuy k id n o =>
    simp only [execMsg, bind_eq_ok, pure_eq_ok, Prod.mk.injEq] at h
    obtain ⟨x, hx, rfl, _⟩ := h
    exact .reg k x.1 (.purchase id n o x.2 (by cases x; exact hx)) rfl
  | regParams k auth p =>
    simp only [execMsg, bind_eq_ok, pure_eq_ok, Prod.mk.injEq] at h
    obtain ⟨_, _, e, he, rfl, _⟩ := h
    exact .reg k e (.setParams p he) rfl
  | strCreate rr sn amt denom rate =>
    simp only [execMsg, bind_eq_ok, pure_eq_ok, Prod.mk.injEq] at h
    obtain ⟨x, hx, rfl, _⟩ := h
    exact .str x (.create rr sn denom amt rate hx) rfl
  | strClaim rr sn =>
    simp only [execMsg, bind_eq_ok, pure_eq_ok, Prod.mk.injEq] at h
    obtain ⟨x, hx, rfl, _⟩ := h
    exact .str x.1 (.claim rr sn x.2 (by cases x; exact hx)) rfl
  | strTopup rr sn amt denom =>
    simp only [execMsg, bind_eq_ok, pure_eq_ok, Prod.mk.injEq] at h
    obtain ⟨x, hx, rfl, _⟩ := h
    exact .str x.1 (.topup rr sn denom amt x.2.1 x.2.2 (by obtain ⟨a, b, c⟩ := x; exact hx)) rfl
  | strRate rr sn rate =>
    simp only [execMsg, bind_eq_ok, pure_eq_ok, Prod.mk.injEq] at h
    obtain ⟨x, hx, rfl, _⟩ := h
    exact .str x (.rate rr sn rate hx) rfl
  | strCancel rr sn =>
    simp only [execMsg, bind_eq_ok, pure_eq_ok, Prod.mk.injEq] at h
    obtain ⟨x, hx, rfl, _⟩ := h
    exact .str x (.cancel rr sn hx) rfl
  | strParams auth fee =>
    simp only [execMsg, bind_eq_ok, pure_eq_ok, Prod.mk.injEq, require_eq_ok] at h
    obtain ⟨_, _, _, hv, rfl, _⟩ := h
    exact .strParams fee hv rfl
  | bankSend src dst coins =>
    simp only [execMsg, bind_eq_ok, pure_eq_ok, Prod.mk.injEq, require_eq_ok, decodeM_eq_ok] at h
    obtain ⟨a, _, b, _, _, hb, bank, hbank, rfl, _⟩ := h
    exact .send a b coins bank (by simpa using hb) hbank rfl
  | authzGrant g e kind =>
    simp only [execMsg, bind_eq_ok, pure_eq_ok, Prod.mk.injEq] at h
    obtain ⟨ga, _, ea, _, rfl, _⟩ := h
    exact .authz ea _ rfl
  | authzRevoke g e kind =>
    simp only [execMsg, bind_eq_ok, pure_eq_ok, Prod.mk.injEq] at h
    obtain ⟨ga, _, ea, _, _, _, rfl, _⟩ := h
    exact .revoke _ rfl
  | authzExec g msgs => simp [Msg.isLeaf] at hl
  | feegrantGrant g e =>
    simp only [execMsg, bind_eq_ok, pure_eq_ok, Prod.mk.injEq] at h
    obtain ⟨ga, _, ea, _, _, _, rfl, _⟩ := h
    exact .feegrant ea _ rfl

end Mainchain
