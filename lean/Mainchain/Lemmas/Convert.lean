import Mainchain.Model.Convert
namespace Mainchain
namespace Convert

theorem foldl_digits (ds : List Nat) (a : Nat) :
    ds.foldl (fun acc d => acc * 10 + d) a = a * 10 ^ ds.length + ofDigits ds := by
  induction ds generalizing a with
  | nil => simp [ofDigits]
  | cons d ds ih =>
    simp only [List.foldl_cons, List.length_cons, ofDigits]
    rw [ih (a * 10 + d), ih (0 * 10 + d)]
    simp only [Nat.pow_succ, Nat.zero_mul, Nat.zero_add]
    rw [Nat.add_mul, Nat.mul_assoc, Nat.mul_comm 10 (10 ^ ds.length)]
    omega

theorem ofDigits_cons (d : Nat) (ds : List Nat) : ofDigits (d :: ds) = d * 10 ^ ds.length + ofDigits ds := by
  simp only [ofDigits, List.foldl_cons]
  rw [foldl_digits]; simp [ofDigits]

theorem ofDigits_append (a b : List Nat) : ofDigits (a ++ b) = ofDigits a * 10 ^ b.length + ofDigits b := by
  simp only [ofDigits, List.foldl_append]
  rw [foldl_digits]; rfl

theorem digitsAux_spec (fuel n : Nat) (acc : List Nat) (h : n < fuel) :
    ofDigits (digitsAux fuel n acc) = n * 10 ^ acc.length + ofDigits acc := by
  induction fuel generalizing n acc with
  | zero => omega
  | succ fuel ih =>
    simp only [digitsAux]
    split
    · exact ofDigits_cons n acc
    · rename_i hn
      rw [ih (n / 10) (n % 10 :: acc) (by omega), ofDigits_cons]
      simp only [List.length_cons, Nat.pow_succ]
      have : n = n / 10 * 10 + n % 10 := by omega
      calc n / 10 * (10 ^ acc.length * 10) + (n % 10 * 10 ^ acc.length + ofDigits acc)
          = (n / 10 * 10 + n % 10) * 10 ^ acc.length + ofDigits acc := by
            rw [Nat.add_mul, Nat.mul_assoc, Nat.mul_comm 10 (10 ^ acc.length)]; omega
        _ = n * 10 ^ acc.length + ofDigits acc := by rw [← this]

theorem ofDigits_digits (n : Nat) : ofDigits (digits n) = n := by
  unfold digits
  rw [digitsAux_spec (n + 1) n [] (by omega)]
  simp [ofDigits]

theorem digitsAux_lt10 (fuel n : Nat) (acc : List Nat) (hacc : ∀ d ∈ acc, d < 10) :
    ∀ d ∈ digitsAux fuel n acc, d < 10 := by
  induction fuel generalizing n acc with
  | zero => simpa [digitsAux] using hacc
  | succ fuel ih =>
    simp only [digitsAux]
    split
    · rename_i h; intro d hd
      simp only [List.mem_cons] at hd
      rcases hd with hd | hd
      · omega
      · exact hacc d hd
    · apply ih
      intro d hd
      simp only [List.mem_cons] at hd
      rcases hd with hd | hd
      · omega
      · exact hacc d hd

theorem digits_lt10 (n : Nat) : ∀ d ∈ digits n, d < 10 := digitsAux_lt10 _ _ [] (by simp)

theorem digitsAux_ne_nil (fuel n : Nat) (acc : List Nat) (h : 0 < fuel) : digitsAux fuel n acc ≠ [] := by
  induction fuel generalizing n acc with
  | zero => omega
  | succ fuel ih =>
    simp only [digitsAux]
    split
    · simp
    · rename_i hn
      cases fuel with
      | zero => simp [digitsAux]
      | succ f => exact ih _ _ (by omega)

theorem digits_ne_nil (n : Nat) : digits n ≠ [] := digitsAux_ne_nil _ _ _ (by omega)

theorem digitChar_ok : ∀ d, d < 10 → (digitChar d).isDigit = true ∧ charDigit? (digitChar d) = some d := by
  decide

theorem all_isDigit_map (ds : List Nat) (h : ∀ d ∈ ds, d < 10) : (ds.map digitChar).all Char.isDigit = true := by
  simp only [List.all_map, List.all_eq_true]
  intro d hd
  exact (digitChar_ok d (h d hd)).1

theorem mapM_charDigit (ds : List Nat) (h : ∀ d ∈ ds, d < 10) : (ds.map digitChar).mapM charDigit? = some ds := by
  induction ds with
  | nil => rfl
  | cons d ds ih =>
    have h1 := (digitChar_ok d (h d (by simp))).2
    have h2 := ih (fun x hx => h x (by simp [hx]))
    simp [List.mapM_cons, h1, h2]

theorem takeWhile_all_append {α : Type} (p : α → Bool) (l r : List α) (hl : l.all p = true)
    (hr : r = [] ∨ ∃ x xs, r = x :: xs ∧ p x = false) : (l ++ r).takeWhile p = l ∧ (l ++ r).dropWhile p = r := by
  induction l with
  | nil =>
    rcases hr with hr | ⟨x, xs, hr, hx⟩
    · subst hr; simp
    · subst hr; simp [hx]
  | cons a l ih =>
    simp only [List.all_cons, Bool.and_eq_true] at hl
    have := ih hl.2
    simp [hl.1, this.1, this.2]

end Convert
end Mainchain
