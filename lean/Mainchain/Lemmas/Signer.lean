import Mainchain.Lemmas.Chain
/-
`GetSigners` of every message kind, evaluated from the regenerated `Facts.signerField` table: if a
`GetSigners` implementation in the repository starts returning another field, these `decide`d
lemmas (and with them C13, C10, C04 …) stop checking.
-/
namespace Mainchain

theorem sf_entRaise : AL.find? Facts.signerField "enterprise.MsgUndPurchaseOrder" = some "Purchaser" := by decide
theorem sf_entDecide : AL.find? Facts.signerField "enterprise.MsgProcessUndPurchaseOrder" = some "Signer" := by decide
theorem sf_entWl : AL.find? Facts.signerField "enterprise.MsgWhitelistAddress" = some "Signer" := by decide
theorem sf_entParams : AL.find? Facts.signerField "enterprise.MsgUpdateParams" = some "Authority" := by decide
theorem sf_wrkReg : AL.find? Facts.signerField "wrkchain.MsgRegisterWrkChain" = some "Owner" := by decide
theorem sf_wrkRec : AL.find? Facts.signerField "wrkchain.MsgRecordWrkChainBlock" = some "Owner" := by decide
theorem sf_wrkBuy : AL.find? Facts.signerField "wrkchain.MsgPurchaseWrkChainStateStorage" = some "Owner" := by decide
theorem sf_wrkParams : AL.find? Facts.signerField "wrkchain.MsgUpdateParams" = some "Authority" := by decide
theorem sf_bcnReg : AL.find? Facts.signerField "beacon.MsgRegisterBeacon" = some "Owner" := by decide
theorem sf_bcnRec : AL.find? Facts.signerField "beacon.MsgRecordBeaconTimestamp" = some "Owner" := by decide
theorem sf_bcnBuy : AL.find? Facts.signerField "beacon.MsgPurchaseBeaconStateStorage" = some "Owner" := by decide
theorem sf_bcnParams : AL.find? Facts.signerField "beacon.MsgUpdateParams" = some "Authority" := by decide
theorem sf_strCreate : AL.find? Facts.signerField "stream.MsgCreateStream" = some "Sender" := by decide
theorem sf_strClaim : AL.find? Facts.signerField "stream.MsgClaimStream" = some "Receiver" := by decide
theorem sf_strTopup : AL.find? Facts.signerField "stream.MsgTopUpDeposit" = some "Sender" := by decide
theorem sf_strRate : AL.find? Facts.signerField "stream.MsgUpdateFlowRate" = some "Sender" := by decide
theorem sf_strCancel : AL.find? Facts.signerField "stream.MsgCancelStream" = some "Sender" := by decide
theorem sf_strParams : AL.find? Facts.signerField "stream.MsgUpdateParams" = some "Authority" := by decide

@[simp] theorem signerTok_entRaise (p : AddrTok) (a : Int) (d : String) : (Msg.entRaise p a d).signerTok = some p := by
  simp only [Msg.signerTok, Msg.goType, sf_entRaise, Msg.field]
@[simp] theorem signerTok_entDecide (i d : Nat) (s : AddrTok) : (Msg.entDecide i d s).signerTok = some s := by
  simp only [Msg.signerTok, Msg.goType, sf_entDecide, Msg.field]
@[simp] theorem signerTok_entWl (a : Nat) (x s : AddrTok) : (Msg.entWl a x s).signerTok = some s := by
  simp only [Msg.signerTok, Msg.goType, sf_entWl, Msg.field]
@[simp] theorem signerTok_entParams (a : AddrTok) (p : EntParams) : (Msg.entParams a p).signerTok = some a := by
  simp only [Msg.signerTok, Msg.goType, sf_entParams, Msg.field]
@[simp] theorem signerTok_regReg (k : RegKind) (a b c d : String) (o : AddrTok) : (Msg.regReg k a b c d o).signerTok = some o := by
  cases k <;> simp only [Msg.signerTok, Msg.goType, sf_wrkReg, sf_bcnReg, Msg.field]
@[simp] theorem signerTok_regRec (k : RegKind) (i h : Nat) (r : Rec) (o : AddrTok) : (Msg.regRec k i h r o).signerTok = some o := by
  cases k <;> simp only [Msg.signerTok, Msg.goType, sf_wrkRec, sf_bcnRec, Msg.field]
@[simp] theorem signerTok_regBuy (k : RegKind) (i n : Nat) (o : AddrTok) : (Msg.regBuy k i n o).signerTok = some o := by
  cases k <;> simp only [Msg.signerTok, Msg.goType, sf_wrkBuy, sf_bcnBuy, Msg.field]
@[simp] theorem signerTok_regParams (k : RegKind) (a : AddrTok) (p : RegParams) : (Msg.regParams k a p).signerTok = some a := by
  cases k <;> simp only [Msg.signerTok, Msg.goType, sf_wrkParams, sf_bcnParams, Msg.field]
@[simp] theorem signerTok_strCreate (r s : AddrTok) (a : Int) (d : String) (f : Int) : (Msg.strCreate r s a d f).signerTok = some s := by
  simp only [Msg.signerTok, Msg.goType, sf_strCreate, Msg.field]
@[simp] theorem signerTok_strClaim (r s : AddrTok) : (Msg.strClaim r s).signerTok = some r := by
  simp only [Msg.signerTok, Msg.goType, sf_strClaim, Msg.field]
@[simp] theorem signerTok_strTopup (r s : AddrTok) (a : Int) (d : String) : (Msg.strTopup r s a d).signerTok = some s := by
  simp only [Msg.signerTok, Msg.goType, sf_strTopup, Msg.field]
@[simp] theorem signerTok_strRate (r s : AddrTok) (f : Int) : (Msg.strRate r s f).signerTok = some s := by
  simp only [Msg.signerTok, Msg.goType, sf_strRate, Msg.field]
@[simp] theorem signerTok_strCancel (r s : AddrTok) : (Msg.strCancel r s).signerTok = some s := by
  simp only [Msg.signerTok, Msg.goType, sf_strCancel, Msg.field]
@[simp] theorem signerTok_strParams (a : AddrTok) (f : Int) : (Msg.strParams a f).signerTok = some a := by
  simp only [Msg.signerTok, Msg.goType, sf_strParams, Msg.field]
@[simp] theorem signerTok_bankSend (a b : AddrTok) (c : Coins) : (Msg.bankSend a b c).signerTok = some a := rfl
@[simp] theorem signerTok_authzGrant (a b : AddrTok) (k : String) : (Msg.authzGrant a b k).signerTok = some a := rfl
@[simp] theorem signerTok_authzRevoke (a b : AddrTok) (k : String) : (Msg.authzRevoke a b k).signerTok = some a := rfl
@[simp] theorem signerTok_authzExec (a : AddrTok) (ms : List Msg) : (Msg.authzExec a ms).signerTok = some a := rfl
@[simp] theorem signerTok_feegrantGrant (a b : AddrTok) : (Msg.feegrantGrant a b).signerTok = some a := rfl

/-- every message that passes `ValidateBasic` has a decodable signer -/
theorem validateBasic_signer (s : State) (m : Msg) (h : Msg.validateBasic s m = .ok ()) : ∃ a, m.signer = some a := by
  cases m <;>
    simp only [Msg.validateBasic, RegState.vbRegister, RegState.vbRecord, RegState.vbPurchase, vbCreateStream,
      bind_eq_ok, decodeM_eq_ok] at h
  all_goals
    first
    | (obtain ⟨a, ha, _⟩ := h; exact ⟨a, by simp [Msg.signer, ha]⟩)
    | (obtain ⟨_, _, a, ha, _⟩ := h; exact ⟨a, by simp [Msg.signer, ha]⟩)

end Mainchain
