import Mainchain.Lemmas.Fine
import Mainchain.Lemmas.RegistryInv
import Mainchain.Lemmas.WrkInv
/-
Lifting of the registry invariants to every reachable state.
-/
namespace Mainchain
open AL

/-- an elementary step changes a registry module only through one of its four operations -/
theorem fineStep_reg (k : RegKind) (s s' : State) (h : FineStep s s') :
    (s'.reg k = s.reg k) ∨ (∃ wall, RegOp s.nowSecU wall (s.reg k) (s'.reg k)) := by
  cases h with
  | leaf wall m r hl _ _ h =>
    have h := leaf_step wall s s' m r hl h
    cases h with
    | ent e _ hs => subst hs; exact Or.inl (by cases k <;> rfl)
    | reg k' r hop hs =>
      subst hs
      by_cases hk : k' = k
      · subst hk; right; exact ⟨wall, by cases k' <;> simpa [State.setReg, State.reg] using hop⟩
      · left; cases k <;> cases k' <;> simp_all [State.setReg, State.reg]
    | str x _ hs => subst hs; exact Or.inl (by cases k <;> rfl)
    | strParams fee _ hs => subst hs; exact Or.inl (by cases k <;> rfl)
    | send a b coins bank _ _ hs => subst hs; exact Or.inl (by cases k <;> rfl)
    | authz ea g hs => subst hs; exact Or.inl (by cases k <;> rfl)
    | feegrant ea al hs => subst hs; exact Or.inl (by cases k <;> rfl)
    | revoke g hs => subst hs; exact Or.inl (by cases k <;> rfl)
  | ante tx _ _ h =>
    cases h with
    | none hs => subst hs; exact Or.inl rfl
    | unlock payer x _ _ _ _ hs => subst hs; exact Or.inl (by cases k <;> rfl)
    | deduct _ _ _ _ _ _ hs => subst hs; exact Or.inl (by cases k <;> rfl)
  | time t _ hs => subst hs; exact Or.inl (by cases k <;> rfl)
  | complete id x _ hs => subst hs; exact Or.inl (by cases k <;> rfl)
  | tally id e _ hs => subst hs; exact Or.inl (by cases k <;> rfl)

theorem bcn_op_inv (now wall : Nat) (a b : RegState) (hi : BcnInv a) (hb : RegBounded a) (h : RegOp now wall a b) :
    BcnInv b := by
  cases h with
  | register mk nm gn ty o id h => exact bcn_register_inv a now mk nm gn ty o b id hi hb h
  | record id key rc o k h => exact bcn_record_inv a now wall id key rc o b k hi hb h
  | purchase id n o can h => exact bcn_purchase_inv a id n o b can hi h
  | setParams p h => exact bcn_setParams_inv a p b hi h

/-- scenario genesis validity (what `ValidateGenesis` + `InitGenesis` accept) for the registries -/
def GenRegValid (g : GenCfg) : Prop := g.wrk.validate = true ∧ g.bcn.validate = true

theorem bcnInv_init (g : GenCfg) (hg : GenRegValid g) : BcnInv (initState g).bcn := by
  refine ⟨rfl, ?_, ?_⟩
  · constructor <;> simp [initState, NoDupKeys, keys, hg.2, RecsSorted]
  · constructor <;> simp [initState]

/-- history assumption for the beacon module: no counter is about to wrap -/
def BcnQ (s : State) : Prop := RegBounded s.bcn

/-- **all beacon invariants hold in every state of every run** -/
theorem bcnInv_reachable (g : GenCfg) (hg : GenRegValid g) (s : State) (h : FineReach g BcnQ s) : BcnInv s.bcn := by
  refine fine_inv g BcnQ (fun s => BcnInv s.bcn) (bcnInv_init g hg) ?_ s h
  intro s s' hq hi hs
  rcases fineStep_reg .bcn s s' hs with he | ⟨wall, hop⟩
  · simp only [State.reg] at he; rw [he]; exact hi
  · exact bcn_op_inv _ wall _ _ hi hq hop

theorem wrk_op_inv (now wall : Nat) (a b : RegState) (hi : WrkInv a) (hb : RegBounded a) (h : RegOp now wall a b) :
    WrkInv b := by
  cases h with
  | register mk nm gn ty o id h => exact wrk_register_inv a now mk nm gn ty o b id hi hb h
  | record id key rc o k h => exact wrk_record_inv a now wall id key rc o b k hi hb h
  | purchase id n o can h => exact wrk_purchase_inv a id n o b can hi h
  | setParams p h => exact wrk_setParams_inv a p b hi h

theorem wrkInv_init (g : GenCfg) (hg : GenRegValid g) : WrkInv (initState g).wrk := by
  refine ⟨rfl, ?_, ?_⟩
  · constructor <;> simp [initState, NoDupKeys, keys, hg.1, RecsSorted]
  · constructor <;> simp [initState, keysOf]

def WrkQ (s : State) : Prop := RegBounded s.wrk

/-- **all WRKChain invariants hold in every state of every run** -/
theorem wrkInv_reachable (g : GenCfg) (hg : GenRegValid g) (s : State) (h : FineReach g WrkQ s) : WrkInv s.wrk := by
  refine fine_inv g WrkQ (fun s => WrkInv s.wrk) (wrkInv_init g hg) ?_ s h
  intro s s' hq hi hs
  rcases fineStep_reg .wrk s s' hs with he | ⟨wall, hop⟩
  · simp only [State.reg] at he; rw [he]; exact hi
  · exact wrk_op_inv _ wall _ _ hi hq hop

/-- history assumption used by the registry properties: no counter of either module is about to wrap -/
def RegQ (s : State) : Prop := RegBounded s.wrk ∧ RegBounded s.bcn

theorem FineReach.weaken {g : GenCfg} {Q Q' : State → Prop} (hqq : ∀ s, Q s → Q' s) {s : State}
    (h : FineReach g Q s) : FineReach g Q' s := by
  induction h with
  | init => exact .init
  | step s s' _ hq hs ih => exact .step s s' ih (hqq s hq) hs

end Mainchain
