import Mainchain.Lemmas.RegistryInv
import Mainchain.Lemmas.WrkKeys
namespace Mainchain
open AL

structure WrkCounters (s : RegState) : Prop where
  sorted : ∀ id, (keysOf s.recs id).Pairwise (· < ·)
  num : ∀ id m, find? s.regs id = some m → m.num = (keysOf s.recs id).length
  lowest : ∀ id m, find? s.regs id = some m → m.lowest = (keysOf s.recs id).head?.getD 0
  withinLimit : ∀ id m, find? s.regs id = some m → m.num ≤ (s.limitOf id).1

def wrkRec (r : Rec) (now h : Nat) : Rec := { r with key := h, subTime := now }

def wrkAfterKeep (s : RegState) (m : RegMeta) (now h : Nat) (r : Rec) : RegState :=
  { s with recs := insertRec s.recs (m.id, h) (wrkRec r now h)
           regs := AL.insert s.regs m.id { m with last := h, num := m.num + 1, lowest := if m.lowest = 0 then h else m.lowest } }

def wrkAfterPrune (s : RegState) (m : RegMeta) (now h : Nat) (r : Rec) : RegState :=
  let recs2 := erase (insertRec s.recs (m.id, h) (wrkRec r now h)) (m.id, m.lowest)
  { s with recs := recs2
           regs := AL.insert s.regs m.id { m with last := h, num := m.num, lowest := RegState.minOr0 (keysOf recs2 m.id) } }

theorem recordWrk_eq (s : RegState) (m : RegMeta) (now h : Nat) (r : Rec) (hb : m.num + 1 < two64) :
    s.recordWrk now m h r =
      if m.num + 1 > (s.limitOf m.id).1 ∧ m.lowest > 0 then wrkAfterPrune s m now h r else wrkAfterKeep s m now h r := by
  have hnum : addU64 m.num 1 = m.num + 1 := addU64_small _ _ hb
  have hsub : subU64 (m.num + 1) 1 = m.num := by simp [subU64]
  unfold RegState.recordWrk
  simp only [hnum, hsub]
  split
  · simp [RegState.lowestRetained, wrkAfterPrune, keysOf, wrkRec]
  · simp [wrkAfterKeep, wrkRec]

theorem keys_le_last (s : RegState) (hi : RegInv s) (id : Nat) (m : RegMeta) (hm : find? s.regs id = some m) :
    ∀ k ∈ keysOf s.recs id, 1 ≤ k ∧ k ≤ m.last := by
  intro k hk
  rw [mem_keysOf] at hk
  obtain ⟨r, hr⟩ := find_some_of_mem _ _ hk
  obtain ⟨m2, hm2, h1, h2, _⟩ := hi.recsBounded id k r hr
  rw [hm] at hm2; cases hm2; exact ⟨h1, h2⟩

theorem fresh_above_last (s : RegState) (hi : RegInv s) (id h : Nat) (m : RegMeta) (hm : find? s.regs id = some m)
    (hh : m.last < h) : find? s.recs (id, h) = none := by
  cases hf : find? s.recs (id, h) with
  | none => rfl
  | some r =>
    obtain ⟨m2, hm2, _, h2, _⟩ := hi.recsBounded id h r hf
    rw [hm] at hm2; cases hm2; omega

theorem wrkKeep_regInv (s : RegState) (m : RegMeta) (id now h : Nat) (r : Rec)
    (hi : RegInv s) (hm : find? s.regs id = some m) (hh : m.last < h) : RegInv (wrkAfterKeep s m now h r) := by
  have hid : m.id = id := (hi.idsBelowNext id m hm).1
  subst hid
  obtain ⟨l, hl, hl1⟩ := hi.hasLimit _ m hm
  constructor
  · exact nodup_insert _ _ _ hi.nodupRegs
  · exact hi.nodupLimits
  · exact sorted_insertRec _ _ _ hi.sortedRecs
  · intro id' m' hm'
    simp only [wrkAfterKeep, find_insert, find_insertRec] at hm'
    split at hm'
    · rename_i he; cases hm'; subst he; exact ⟨rfl, (hi.idsBelowNext _ _ hm).2⟩
    · exact hi.idsBelowNext id' m' hm'
  · intro id' m' hm'
    simp only [wrkAfterKeep, find_insert, find_insertRec] at hm'
    split at hm'
    · rename_i he; subst he; exact ⟨l, hl, hl1⟩
    · exact hi.hasLimit id' m' hm'
  · intro id' k r' hr
    simp only [wrkAfterKeep, find_insert, find_insertRec] at hr
    split at hr
    · rename_i he; cases hr
      obtain ⟨rfl, rfl⟩ := Prod.mk.inj he
      exact ⟨_, find_insert_eq _ _ _, by omega, by simp, rfl⟩
    · obtain ⟨m2, hm2, h1, h2, h3⟩ := hi.recsBounded id' k r' hr
      by_cases hid' : m.id = id'
      · subst hid'
        rw [hm] at hm2; cases hm2
        exact ⟨_, find_insert_eq _ _ _, h1, by simp; omega, h3⟩
      · exact ⟨m2, by rw [← hm2]; exact find_insert_ne _ _ _ _ hid', h1, h2, h3⟩
  · exact hi.paramsValid

theorem wrkPrune_regInv (s : RegState) (m : RegMeta) (id now h : Nat) (r : Rec)
    (hi : RegInv s) (hm : find? s.regs id = some m) (hh : m.last < h) : RegInv (wrkAfterPrune s m now h r) := by
  have hid : m.id = id := (hi.idsBelowNext id m hm).1
  subst hid
  obtain ⟨l, hl, hl1⟩ := hi.hasLimit _ m hm
  have hsr := sorted_insertRec s.recs (m.id, h) (wrkRec r now h) hi.sortedRecs
  have hnd := nodup_of_sorted _ hsr
  constructor
  · exact nodup_insert _ _ _ hi.nodupRegs
  · exact hi.nodupLimits
  · exact sorted_erase _ _ hsr
  · intro id' m' hm'
    simp only [wrkAfterPrune, find_insert, find_insertRec] at hm'
    split at hm'
    · rename_i he; cases hm'; subst he; exact ⟨rfl, (hi.idsBelowNext _ _ hm).2⟩
    · exact hi.idsBelowNext id' m' hm'
  · intro id' m' hm'
    simp only [wrkAfterPrune, find_insert, find_insertRec] at hm'
    split at hm'
    · rename_i he; subst he; exact ⟨l, hl, hl1⟩
    · exact hi.hasLimit id' m' hm'
  · intro id' k r' hr
    simp only [wrkAfterPrune] at hr
    by_cases hk : (m.id, m.lowest) = (id', k)
    · rw [← hk, find_erase_eq _ _ hnd] at hr; cases hr
    · rw [find_erase_ne _ _ _ hk, find_insertRec] at hr
      split at hr
      · rename_i he; cases hr
        obtain ⟨rfl, rfl⟩ := Prod.mk.inj he
        exact ⟨_, find_insert_eq _ _ _, by omega, by simp, rfl⟩
      · obtain ⟨m2, hm2, h1, h2, h3⟩ := hi.recsBounded id' k r' hr
        by_cases hid' : m.id = id'
        · subst hid'
          rw [hm] at hm2; cases hm2
          exact ⟨_, find_insert_eq _ _ _, h1, by simp; omega, h3⟩
        · exact ⟨m2, by rw [← hm2]; exact find_insert_ne _ _ _ _ hid', h1, h2, h3⟩
  · exact hi.paramsValid

theorem wrkKeep_counters (s : RegState) (m : RegMeta) (id now h : Nat) (r : Rec)
    (hi : RegInv s) (hc : WrkCounters s) (hm : find? s.regs id = some m) (hh : m.last < h)
    (hroom : m.num + 1 ≤ (s.limitOf id).1) : WrkCounters (wrkAfterKeep s m now h r) := by
  have hid : m.id = id := (hi.idsBelowNext id m hm).1
  subst hid
  have hfresh := fresh_above_last s hi _ h m hm hh
  have hkeys : ∀ id', keysOf (wrkAfterKeep s m now h r).recs id' =
      if id' = m.id then keysOf s.recs id' ++ [h] else keysOf s.recs id' :=
    fun id' => keysOf_insertRec_fresh s.recs m.id h _ id' hi.sortedRecs
      (fun k hk => by have := (keys_le_last s hi _ m hm k hk).2; omega)
  have hbnd := keys_le_last s hi _ m hm
  constructor
  · intro id'
    rw [hkeys]
    split
    · rename_i he; subst he
      rw [List.pairwise_append]
      refine ⟨hc.sorted _, by simp, ?_⟩
      intro a ha b hb
      simp only [List.mem_singleton] at hb; subst hb
      have := (hbnd a ha).2; omega
    · exact hc.sorted id'
  · intro id' m' hm'
    rw [hkeys]
    simp only [wrkAfterKeep, find_insert, find_insertRec] at hm'
    split at hm'
    · rename_i he; subst he; cases hm'
      simp [hc.num _ m hm]
    · rename_i hne
      have : ¬ id' = m.id := fun e => hne e.symm
      simp only [this, if_false]
      exact hc.num id' m' hm'
  · intro id' m' hm'
    rw [hkeys]
    simp only [wrkAfterKeep, find_insert, find_insertRec] at hm'
    split at hm'
    · rename_i he; subst he; cases hm'
      simp only [if_true]
      have hlow := hc.lowest _ m hm
      cases hk : keysOf s.recs m.id with
      | nil => simp [hk] at hlow; simp [hlow]
      | cons a as =>
        simp only [hk, List.head?_cons, Option.getD_some] at hlow
        have ha : 1 ≤ a := (hbnd a (by simp [hk])).1
        have : ¬ a = 0 := by omega
        simp [this, hlow]
    · rename_i hne
      have : ¬ id' = m.id := fun e => hne e.symm
      simp only [this, if_false]
      exact hc.lowest id' m' hm'
  · intro id' m' hm'
    simp only [wrkAfterKeep, find_insert, find_insertRec] at hm'
    show m'.num ≤ (s.limitOf id').1
    split at hm'
    · rename_i he; subst he; cases hm'; exact hroom
    · exact hc.withinLimit id' m' hm'

theorem wrkPrune_counters (s : RegState) (m : RegMeta) (id now h : Nat) (r : Rec)
    (hi : RegInv s) (hc : WrkCounters s) (hm : find? s.regs id = some m) (hh : m.last < h)
    (hlow : 0 < m.lowest) : WrkCounters (wrkAfterPrune s m now h r) ∧
      keysOf (wrkAfterPrune s m now h r).recs id = (keysOf s.recs id).tail ++ [h] := by
  have hid : m.id = id := (hi.idsBelowNext id m hm).1
  subst hid
  have hfresh := fresh_above_last s hi _ h m hm hh
  have hsr := sorted_insertRec s.recs (m.id, h) (wrkRec r now h) hi.sortedRecs
  have hnd := nodup_of_sorted _ hsr
  have hbnd := keys_le_last s hi _ m hm
  have hlowest := hc.lowest _ m hm
  -- the key list is non-empty and starts with `lowest`
  obtain ⟨rest, hk⟩ : ∃ rest, keysOf s.recs m.id = m.lowest :: rest := by
    cases hk : keysOf s.recs m.id with
    | nil => simp [hk] at hlowest; omega
    | cons a as => simp [hk] at hlowest; exact ⟨as, by rw [hlowest]⟩
  have hsorted := hc.sorted m.id
  rw [hk] at hsorted
  have hkeys : ∀ id', keysOf (wrkAfterPrune s m now h r).recs id' =
      if id' = m.id then rest ++ [h] else keysOf s.recs id' := by
    intro id'
    show keysOf (erase (insertRec s.recs (m.id, h) (wrkRec r now h)) (m.id, m.lowest)) id' = _
    rw [keysOf_erase _ _ _ _ hnd, keysOf_insertRec_fresh _ _ _ _ _ hi.sortedRecs (fun k hk => by have := (hbnd k hk).2; omega)]
    split
    · rename_i he; subst he
      simp only [if_true, hk, List.cons_append]
      rw [List.erase_cons_head]
    · rfl
  have hsorted' : (rest ++ [h]).Pairwise (· < ·) := by
    rw [List.pairwise_append]
    refine ⟨(List.pairwise_cons.mp hsorted).2, by simp, ?_⟩
    intro a ha b hb
    simp only [List.mem_singleton] at hb; subst hb
    have := (hbnd a (by rw [hk]; simp [ha])).2; omega
  refine ⟨?_, by rw [hkeys, hk]; simp⟩
  constructor
  · intro id'
    rw [hkeys]
    split
    · exact hsorted'
    · exact hc.sorted id'
  · intro id' m' hm'
    rw [hkeys]
    simp only [wrkAfterPrune, find_insert, find_insertRec] at hm'
    split at hm'
    · rename_i he; subst he; cases hm'
      have := hc.num _ m hm
      rw [hk] at this
      simp [this]
    · rename_i hne
      have : ¬ id' = m.id := fun e => hne e.symm
      simp only [this, if_false]
      exact hc.num id' m' hm'
  · intro id' m' hm'
    rw [hkeys]
    simp only [wrkAfterPrune, find_insert, find_insertRec] at hm'
    split at hm'
    · rename_i he; subst he; cases hm'
      simp only [if_true]
      have := hkeys m.id
      simp only [if_true] at this
      show RegState.minOr0 (keysOf (erase (insertRec s.recs (m.id, h) (wrkRec r now h)) (m.id, m.lowest)) m.id) = _
      rw [show keysOf (erase (insertRec s.recs (m.id, h) (wrkRec r now h)) (m.id, m.lowest)) m.id = rest ++ [h] from this]
      exact minOr0_sorted _ hsorted'
    · rename_i hne
      have : ¬ id' = m.id := fun e => hne e.symm
      simp only [this, if_false]
      exact hc.lowest id' m' hm'
  · intro id' m' hm'
    simp only [wrkAfterPrune, find_insert, find_insertRec] at hm'
    show m'.num ≤ (s.limitOf id').1
    split at hm'
    · rename_i he; subst he; cases hm'; exact hc.withinLimit _ m hm
    · exact hc.withinLimit id' m' hm'

/-- wrkchain: all invariants together -/
structure WrkInv (s : RegState) : Prop where
  kind : s.kind = .wrk
  reg : RegInv s
  cnt : WrkCounters s

/-- outcome of a successful WRKChain record message -/
theorem wrk_record_shape (s : RegState) (now wall id key : Nat) (rc : Rec) (o : AddrTok) (s' : RegState) (k : Nat)
    (hi : WrkInv s) (hb : RegBounded s) (h : s.record now wall id key rc o = .ok (s', k)) :
    ∃ m oa, find? s.regs id = some m ∧ o.decode = some oa ∧ m.owner.decode = some oa ∧ k = key ∧ m.last < key ∧
      ((m.num = (s.limitOf id).1 ∧ 0 < m.lowest ∧ s' = wrkAfterPrune s m now key rc) ∨
       (m.num + 1 ≤ (s.limitOf id).1 ∧ s' = wrkAfterKeep s m now key rc)) := by
  simp only [RegState.record, hi.kind, bind_eq_ok, pure_eq_ok, require_eq_ok, decodeM_eq_ok, decide_eq_true_eq,
    Prod.mk.injEq] at h
  obtain ⟨oa, hoa, _, _, _, _, m, hm, _, hgt, rfl, rfl⟩ := h
  obtain ⟨hm1, hm2⟩ := ownedBy_ok _ _ _ _ hm
  have hid : m.id = id := (hi.reg.idsBelowNext id m hm1).1
  have hbm := (hb.2 id m hm1).2
  have hwl := hi.cnt.withinLimit id m hm1
  obtain ⟨l, hl, hl1⟩ := hi.reg.hasLimit id m hm1
  have hlim := limitOf_of_find s id l hl
  refine ⟨m, oa, hm1, hoa, hm2, rfl, hgt, ?_⟩
  rw [recordWrk_eq s m now key rc hbm, hid]
  by_cases hp : m.num + 1 > (s.limitOf id).1 ∧ m.lowest > 0
  · rw [if_pos hp]
    exact Or.inl ⟨by omega, hp.2, rfl⟩
  · rw [if_neg hp]
    refine Or.inr ⟨?_, rfl⟩
    by_cases hp1 : m.num + 1 > (s.limitOf id).1
    · -- then lowest = 0, so nothing is retained and num = 0 < limit
      have hl0 : m.lowest = 0 := by
        rcases Nat.eq_zero_or_pos m.lowest with h0 | h0
        · exact h0
        · exact absurd ⟨hp1, h0⟩ hp
      have hlow := hi.cnt.lowest id m hm1
      have hnum := hi.cnt.num id m hm1
      cases hk : keysOf s.recs id with
      | nil => rw [hk] at hnum; simp at hnum; omega
      | cons a as =>
        rw [hk] at hlow; simp at hlow
        have := (keys_le_last s hi.reg id m hm1 a (by rw [hk]; simp)).1
        omega
    · omega

theorem wrk_record_inv (s : RegState) (now wall id key : Nat) (rc : Rec) (o : AddrTok) (s' : RegState) (k : Nat)
    (hi : WrkInv s) (hb : RegBounded s) (h : s.record now wall id key rc o = .ok (s', k)) : WrkInv s' := by
  obtain ⟨m, oa, hm, _, _, _, hgt, hshape⟩ := wrk_record_shape s now wall id key rc o s' k hi hb h
  rcases hshape with ⟨hfull, hpos, rfl⟩ | ⟨hroom, rfl⟩
  · exact ⟨hi.kind, wrkPrune_regInv s m id _ _ _ hi.reg hm hgt, (wrkPrune_counters s m id _ _ _ hi.reg hi.cnt hm hgt hpos).1⟩
  · exact ⟨hi.kind, wrkKeep_regInv s m id _ _ _ hi.reg hm hgt, wrkKeep_counters s m id _ _ _ hi.reg hi.cnt hm hgt hroom⟩

theorem wrk_register_inv (s : RegState) (now : Nat) (mk nm gn ty : String) (o : AddrTok) (s' : RegState) (id : Nat)
    (hi : WrkInv s) (hb : RegBounded s) (h : s.register now mk nm gn ty o = .ok (s', id)) : WrkInv s' := by
  obtain ⟨hreg, hid, hfresh, hrecs, _⟩ := regInv_register s now mk nm gn ty o s' id hi.reg hb h
  simp only [RegState.register, bind_eq_ok, pure_eq_ok, Prod.mk.injEq] at h
  obtain ⟨oa, _, _, _, _, _, _, _, rfl, _⟩ := h
  refine ⟨hi.kind, hreg, ?_⟩
  subst hid
  have hnokeys : keysOf s.recs s.nextId = [] := by
    cases hk : keysOf s.recs s.nextId with
    | nil => rfl
    | cons a as =>
      have : a ∈ keysOf s.recs s.nextId := by rw [hk]; simp
      rw [mem_keysOf] at this
      obtain ⟨r, hr⟩ := find_some_of_mem _ _ this
      obtain ⟨m2, hm2, _⟩ := hi.reg.recsBounded _ _ r hr
      rw [hfresh] at hm2; cases hm2
  constructor
  · exact hi.cnt.sorted
  · intro id' m' hm'
    simp only [RegState.registered, find_insert, find_insertRec] at hm'
    show m'.num = (keysOf s.recs id').length
    split at hm'
    · rename_i he; subst he; cases hm'; simp [hnokeys]
    · exact hi.cnt.num id' m' hm'
  · intro id' m' hm'
    simp only [RegState.registered, find_insert, find_insertRec] at hm'
    show m'.lowest = (keysOf s.recs id').head?.getD 0
    split at hm'
    · rename_i he; subst he; cases hm'; simp [hnokeys]
    · exact hi.cnt.lowest id' m' hm'
  · intro id' m' hm'
    simp only [RegState.registered, find_insert, find_insertRec] at hm'
    split at hm'
    · cases hm'; simp
    · rename_i hne
      have := hi.cnt.withinLimit id' m' hm'
      simpa [RegState.registered, RegState.limitOf, find_insert, find_insertRec, hne] using this

theorem wrk_purchase_inv (s : RegState) (id n : Nat) (o : AddrTok) (s' : RegState) (can : Nat)
    (hi : WrkInv s) (h : s.purchase id n o = .ok (s', can)) : WrkInv s' := by
  obtain ⟨hreg, hregs, hrecs, _, _, hk, _, ⟨after, hlim, hmono, _, _⟩, _⟩ := regInv_purchase s id n o s' can hi.reg h
  refine ⟨hk ▸ hi.kind, hreg, ?_⟩
  constructor
  · intro id'; rw [hrecs]; exact hi.cnt.sorted id'
  · intro id' m' hm'; rw [hregs] at hm'; rw [hrecs]; exact hi.cnt.num id' m' hm'
  · intro id' m' hm'; rw [hregs] at hm'; rw [hrecs]; exact hi.cnt.lowest id' m' hm'
  · intro id' m' hm'
    rw [hregs] at hm'
    have := hi.cnt.withinLimit id' m' hm'
    by_cases he : id = id'
    · subst he
      have : (s'.limitOf id).1 = after := by simp [RegState.limitOf, hlim]
      omega
    · have : (s'.limitOf id').1 = (s.limitOf id').1 := by
        simp [RegState.limitOf, hlim, find_insert_ne _ _ _ _ he]
      omega

theorem wrk_setParams_inv (s : RegState) (p : RegParams) (s' : RegState)
    (hi : WrkInv s) (h : s.setParams p = .ok s') : WrkInv s' := by
  obtain ⟨hreg, hregs, hrecs, hlims, _, _, _⟩ := regInv_setParams s p s' hi.reg h
  have hk : s'.kind = s.kind := by
    simp only [RegState.setParams, bind_eq_ok, pure_eq_ok] at h
    obtain ⟨_, _, rfl⟩ := h; rfl
  refine ⟨hk ▸ hi.kind, hreg, ?_⟩
  constructor
  · intro id'; rw [hrecs]; exact hi.cnt.sorted id'
  · intro id' m' hm'; rw [hregs] at hm'; rw [hrecs]; exact hi.cnt.num id' m' hm'
  · intro id' m' hm'; rw [hregs] at hm'; rw [hrecs]; exact hi.cnt.lowest id' m' hm'
  · intro id' m' hm'
    rw [hregs] at hm'
    have := hi.cnt.withinLimit id' m' hm'
    simpa [RegState.limitOf, hlims] using this

end Mainchain
