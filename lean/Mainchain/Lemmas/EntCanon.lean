import Mainchain.Lemmas.GenesisInv
import Mainchain.Lemmas.EntLife
/-
The enterprise section is stored in canonical order in every reachable state — orders by ascending id
(ids are handed out by a counter), the whitelist ascending — so that export followed by import gives back
the *identical* enterprise state, not merely an observably equal one.
-/
namespace Mainchain
open AL Genesis

/-! ### ascending lists -/

theorem asc_ext : ∀ (l1 l2 : List Nat), Asc l1 → Asc l2 → (∀ x, x ∈ l1 ↔ x ∈ l2) → l1 = l2 := by
  intro l1
  induction l1 with
  | nil =>
    intro l2 _ _ h
    cases l2 with
    | nil => rfl
    | cons b l2 => exact absurd ((h b).mpr (List.mem_cons_self ..)) (by simp)
  | cons a l1 ih =>
    intro l2 h1 h2 h
    cases l2 with
    | nil => exact absurd ((h a).mp (List.mem_cons_self ..)) (by simp)
    | cons b l2 =>
      unfold Asc at h1 h2
      rw [List.pairwise_cons] at h1 h2
      have hab : a = b := by
        have ha := (h a).mp (List.mem_cons_self ..)
        have hb := (h b).mpr (List.mem_cons_self ..)
        rw [List.mem_cons] at ha hb
        rcases ha with ha | ha
        · exact ha
        · rcases hb with hb | hb
          · exact hb.symm
          · have := h1.1 b hb; have := h2.1 a ha; omega
      subst hab
      have : l1 = l2 := by
        apply ih l2 h1.2 h2.2
        intro x
        constructor
        · intro hx
          have := (h x).mp (List.mem_cons_of_mem _ hx)
          rw [List.mem_cons] at this
          rcases this with he | hm
          · have := h1.1 x hx; omega
          · exact hm
        · intro hx
          have := (h x).mpr (List.mem_cons_of_mem _ hx)
          rw [List.mem_cons] at this
          rcases this with he | hm
          · have := h2.1 x hx; omega
          · exact hm
      rw [this]

theorem sortNat_of_asc (l : List Nat) (h : Asc l) : sortNat l = l := by
  unfold sortNat
  exact isort_of_sorted l (List.Pairwise.imp (fun {a b} (hab : a < b) => Nat.le_of_lt hab) h)

theorem asc_sortNat_of_nodup (l : List Nat) (h : l.Nodup) : Asc (sortNat l) := by
  unfold sortNat Asc
  have hn := nodup_isort l h
  unfold List.Nodup at hn
  exact List.Pairwise.imp (fun {a b} (hab : a ≤ b ∧ a ≠ b) => by have := hab.1; have := hab.2; omega) ((sorted_isort l).and hn)

theorem insertSortedNat_append (x : Nat) (l : List Nat) (h : ∀ y ∈ l, y < x) : EntState.insertSortedNat x l = l ++ [x] := by
  induction l with
  | nil => rfl
  | cons y ys ih =>
    have hy := h y (List.mem_cons_self ..)
    simp only [EntState.insertSortedNat]
    rw [if_neg (by omega), if_neg (by omega), ih (fun z hz => h z (List.mem_cons_of_mem _ hz))]
    rfl

theorem foldl_insertSorted_asc (l : List Nat) : ∀ (acc : List Nat), Asc (acc ++ l) →
    l.foldl (fun acc a => EntState.insertSortedNat a acc) acc = acc ++ l := by
  induction l with
  | nil => intro acc _; simp
  | cons a rest ih =>
    intro acc h
    have hlt : ∀ y ∈ acc, y < a := by
      intro y hy
      unfold Asc at h
      rw [List.pairwise_append] at h
      exact h.2.2 y hy a (List.mem_cons_self ..)
    simp only [List.foldl_cons]
    rw [insertSortedNat_append a acc hlt, ih (acc ++ [a]) (by simpa using h)]
    simp

/-! ### association lists in key order -/

theorem insert_of_not_mem {ν : Type} (m : List (Nat × ν)) (k : Nat) (v : ν) (h : k ∉ keys m) : insert m k v = m ++ [(k, v)] := by
  induction m with
  | nil => rfl
  | cons e m ih =>
    obtain ⟨k', v'⟩ := e
    simp only [keys, List.map_cons, List.mem_cons, not_or] at h
    simp only [AL.insert]
    rw [if_neg (fun hc => h.1 hc.symm), ih (by simpa [keys] using h.2)]
    rfl

theorem keys_insert_of_find {ν : Type} (m : List (Nat × ν)) (k : Nat) (v v0 : ν) (h : find? m k = some v0) :
    keys (insert m k v) = keys m := by
  induction m with
  | nil => simp [find?] at h
  | cons e m ih =>
    obtain ⟨k', v'⟩ := e
    simp only [find?] at h
    simp only [AL.insert]
    split
    · rename_i he; simp [keys]
    · rename_i he
      rw [if_neg he] at h
      simp only [keys, List.map_cons, List.cons.injEq, true_and]
      exact ih h

theorem keys_append {ν : Type} (a b : List (Nat × ν)) : keys (a ++ b) = keys a ++ keys b := by simp [keys]

theorem foldl_collect_self {ν : Type} (m : List (Nat × ν)) (hn : NoDupKeys m) : ∀ (rest pre : List (Nat × ν)), m = pre ++ rest →
    (keys rest).foldl (collectStep m) pre = pre ++ rest := by
  intro rest
  induction rest with
  | nil => intro pre _; simp [keys]
  | cons e rest ih =>
    intro pre hm
    obtain ⟨k, v⟩ := e
    have hmem : (k, v) ∈ m := by rw [hm]; simp
    have hf : find? m k = some v := find_of_mem m hn k v hmem
    have hk : k ∉ keys pre := by
      intro hc
      unfold NoDupKeys at hn
      rw [hm, keys_append] at hn
      have := (List.nodup_append.mp hn).2.2 k hc k (by simp [keys])
      exact this rfl
    simp only [keys, List.map_cons, List.foldl_cons]
    have hstep : collectStep m pre k = pre ++ [(k, v)] := by
      unfold collectStep; rw [hf]; exact insert_of_not_mem pre k v hk
    rw [hstep]
    have := ih (pre ++ [(k, v)]) (by rw [hm]; simp)
    simpa [keys] using this

/-! ### the canonical-order invariant -/

structure Canon (e : EntState) : Prop where
  orders : Asc (keys e.orders)
  wl : Asc e.whitelist

theorem canon_of_eq (e e' : EntState) (hc : Canon e) (ho : e'.orders = e.orders) (hw : e'.whitelist = e.whitelist) : Canon e' :=
  ⟨ho ▸ hc.orders, hw ▸ hc.wl⟩

theorem canon_of_book (e e' : EntState) (hc : Canon e) (h : e'.book = e.book) : Canon e' := by
  simp only [EntState.book, Prod.mk.injEq] at h
  exact canon_of_eq e e' hc h.2.2.1 h.2.2.2.2.2

theorem canon_update (e e' : EntState) (hc : Canon e) (id : Nat) (po po' : PO) (hf : find? e.orders id = some po)
    (ho : e'.orders = insert e.orders id po') (hw : e'.whitelist = e.whitelist) : Canon e' :=
  ⟨by rw [ho, keys_insert_of_find _ _ _ _ hf]; exact hc.orders, hw ▸ hc.wl⟩

theorem entStep_canon (s : State) (e' : EntState) (hi : BookInv s.ent) (hc : Canon s.ent) (h : EntStep s e') : Canon e' := by
  cases h with
  | same he => rw [he]; exact hc
  | op hop =>
    cases hop with
    | raise p denom amt id h =>
      simp only [EntState.raise, bind_eq_ok, pure_eq_ok, Prod.mk.injEq] at h
      obtain ⟨_, _, _, _, _, _, _, _, rfl, _⟩ := h
      have hnone := find_fresh_none s.ent hi
      have hk : s.ent.nextId ∉ keys s.ent.orders := by
        intro hm
        obtain ⟨v, hv⟩ := find_some_of_mem _ _ hm
        rw [hnone] at hv; cases hv
      refine ⟨?_, hc.wl⟩
      show Asc (keys (insert s.ent.orders s.ent.nextId _))
      rw [insert_of_not_mem _ _ _ hk, keys_append]
      unfold Asc
      rw [List.pairwise_append]
      refine ⟨hc.orders, by simp [keys], ?_⟩
      intro a ha b hb
      simp only [keys, List.map_cons, List.map_nil, List.mem_cons, List.not_mem_nil, or_false] at hb
      subst hb
      obtain ⟨v, hv⟩ := find_some_of_mem _ _ ha
      exact hi.fresh a v hv
    | decide id dec sg h =>
      simp only [EntState.decide_, bind_eq_ok, pure_eq_ok, require_eq_ok, decide_eq_true_eq] at h
      obtain ⟨signer, _, _, _, po, hpo, _, _, _, _, _, hst, _, _, rfl⟩ := h
      exact canon_update _ _ hc id po _ (findOrder_ok _ _ _ hpo) rfl rfl
    | whitelist action addr sg h =>
      simp only [EntState.whitelistMsg, bind_eq_ok] at h
      obtain ⟨_, _, _, _, _, _, _, _, h⟩ := h
      split at h
      · simp only [bind_eq_ok, pure_eq_ok] at h; obtain ⟨_, _, rfl⟩ := h
        exact ⟨hc.orders, asc_insertSortedNat _ _ hc.wl⟩
      · simp only [bind_eq_ok, pure_eq_ok] at h; obtain ⟨_, _, rfl⟩ := h
        exact ⟨hc.orders, asc_filter _ _ hc.wl⟩
    | setParams p h =>
      simp only [EntState.setParams, bind_eq_ok, pure_eq_ok] at h
      obtain ⟨_, _, rfl⟩ := h
      exact ⟨hc.orders, hc.wl⟩
  | unlock x payer fees hx he =>
    rw [he]; exact canon_of_book _ _ hc (unlockForFees_book _ _ _ _ _ hx)
  | complete id x hx he =>
    unfold EB.completeOne at hx
    split at hx
    · cases hx
    · rename_i po hf
      split at hx
      · cases hx
      · split at hx
        · cases hx
        · simp only [bind_eq_ok, pure_eq_ok] at hx
          obtain ⟨x2, hx2, rfl⟩ := hx
          have hb := mintAndLock_book _ _ _ _ _ _ (asPanic_ok _ _ hx2)
          simp only [EntState.book, Prod.mk.injEq] at hb
          exact canon_update _ _ hc id po { po with status := stCompleted } hf (by rw [he]; exact hb.2.2.1)
            (by rw [he]; exact hb.2.2.2.2.2)
  | tally id ht =>
    unfold EntState.tallyOne at ht
    split at ht
    · cases ht
    · rename_i po hf
      split at ht
      · cases ht
      · split at ht
        · cases ht; exact hc
        · rename_i st hd
          cases ht
          exact canon_update _ _ hc id po { po with status := st, completionTime := s.nowSecU } hf (by split <;> rfl) (by split <;> rfl)

theorem asc_foldl_insertSorted (l : List Nat) : ∀ acc, Asc acc → Asc (l.foldl (fun acc a => EntState.insertSortedNat a acc) acc) := by
  induction l with
  | nil => intro acc h; exact h
  | cons a rest ih => intro acc h; exact ih _ (asc_insertSortedNat a acc h)

theorem canon_init (g : GenCfg) : Canon (initState g).ent :=
  ⟨by simp [initState, keys, Asc], asc_foldl_insertSorted _ _ (by simp [Asc])⟩

theorem canon_reachable (g : GenCfg) (s : State) (h : FineReach g EntQ s) : BookInv s.ent ∧ Canon s.ent :=
  fine_inv g EntQ (fun s => BookInv s.ent ∧ Canon s.ent) ⟨bookInv_init g, canon_init g⟩
    (fun s s' hq hi hs => ⟨bookInv_step s s' hq hi.1 hs, entStep_canon s s'.ent hi.1 hi.2 (fineStep_ent s s' hs)⟩) s h

/-! ### export followed by import is the identity on the enterprise section -/

theorem importEnt_eq (e : EntState) (hi : BookInv e) (hc : Canon e) : importEnt e = e := by
  obtain ⟨_, _, _, o4, o5, _, _, _, _, _⟩ := importEnt_observe e hi
  have hids : sortNat (keys e.orders) = keys e.orders := sortNat_of_asc _ hc.orders
  have ho : (importEnt e).orders = e.orders := by
    show (sortNat (keys e.orders)).foldl (collectStep e.orders) [] = e.orders
    rw [hids]
    simpa using foldl_collect_self e.orders hi.nodup e.orders [] rfl
  have hr : (importEnt e).raisedQ = e.raisedQ := by
    apply asc_ext _ _ _ hi.rqAsc o4
    show Asc ((sortNat (keys e.orders)).filter _)
    rw [hids]; exact asc_filter _ _ hc.orders
  have ha : (importEnt e).acceptedQ = e.acceptedQ := by
    apply asc_ext _ _ _ hi.aqAsc o5
    show Asc ((sortNat (keys e.orders)).filter _)
    rw [hids]; exact asc_filter _ _ hc.orders
  have hw : (importEnt e).whitelist = e.whitelist := by
    show e.whitelist.foldl _ [] = e.whitelist
    simpa using foldl_insertSorted_asc e.whitelist [] (by simpa using hc.wl)
  cases e
  simp only [importEnt] at ho hr ha hw ⊢
  simp only [EntState.mk.injEq]
  exact ⟨trivial, trivial, ho, hr, ha, hw, trivial, trivial, trivial, trivial⟩

end Mainchain
