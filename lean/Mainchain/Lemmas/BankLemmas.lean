import Mainchain.Lemmas.AList
import Mainchain.Lemmas.Monad
import Mainchain.Model.Bank
/-
Pointwise effect of the bank-lite operations on balances.
-/
namespace Mainchain
open AL

structure BankInv (b : Bank) : Prop where
  nodupBal : NoDupKeys b.bal
  nodupSupply : NoDupKeys b.supply

namespace Bank

theorem balOf_setBal (b : Bank) (hb : NoDupKeys b.bal) (a : Addr) (d : String) (n : Nat) (a' : Addr) (d' : String) :
    (b.setBal a d n).balOf a' d' = if (a, d) = (a', d') then n else b.balOf a' d' := by
  unfold setBal balOf
  split
  · rename_i he; rw [← he]; exact get_setNat_eq _ _ _ hb
  · rename_i hne; exact get_setNat_ne _ _ _ _ hne

theorem setBal_inv (b : Bank) (hb : BankInv b) (a : Addr) (d : String) (n : Nat) : BankInv (b.setBal a d n) :=
  ⟨nodup_setNat _ _ _ hb.nodupBal, hb.nodupSupply⟩

theorem setBal_other (b : Bank) (a : Addr) (d : String) (n : Nat) :
    (b.setBal a d n).supply = b.supply ∧ (b.setBal a d n).vest = b.vest ∧ (b.setBal a d n).accts = b.accts :=
  ⟨rfl, rfl, rfl⟩

/-- the net change of `(a', d')` caused by moving coin `c` out of `a` -/
def outDelta (a : Addr) (c : Coin) (a' : Addr) (d' : String) : Int := if (a, c.denom) = (a', d') then c.amt else 0

theorem subUnlockedCoin_spec (locked : Coins) (a : Addr) (b b' : Bank) (c : Coin) (hb : BankInv b) (hc : 0 < c.amt)
    (hlock : ∀ d, 0 ≤ Coins.amountOf locked d)
    (h : subUnlockedCoin locked a b c = .ok b') :
    BankInv b' ∧ b'.supply = b.supply ∧ b'.vest = b.vest ∧ b'.accts = b.accts ∧
    (∀ a' d', (b'.balOf a' d' : Int) = b.balOf a' d' - outDelta a c a' d') ∧ c.amt ≤ b.balOf a c.denom := by
  simp only [subUnlockedCoin, bind_eq_ok, pure_eq_ok, require_eq_ok, decide_eq_true_eq] at h
  obtain ⟨_, h1, _, h2, rfl⟩ := h
  have hl := hlock c.denom
  refine ⟨setBal_inv _ hb _ _ _, rfl, rfl, rfl, ?_, by omega⟩
  intro a' d'
  rw [balOf_setBal _ hb.nodupBal]
  unfold outDelta
  by_cases he : (a, c.denom) = (a', d')
  · obtain ⟨rfl, rfl⟩ := Prod.mk.inj he
    have : 0 ≤ (b.balOf a c.denom : Int) - c.amt := by omega
    simp [Int.toNat_of_nonneg this]
  · simp [he]

theorem addCoin_spec (a : Addr) (b b' : Bank) (c : Coin) (hb : BankInv b) (hc : 0 < c.amt)
    (h : addCoin a b c = .ok b') :
    BankInv b' ∧ b'.supply = b.supply ∧ b'.vest = b.vest ∧ b'.accts = b.accts ∧
    (∀ a' d', (b'.balOf a' d' : Int) = b.balOf a' d' + outDelta a c a' d') := by
  simp only [addCoin, bind_eq_ok, pure_eq_ok, require_eq_ok] at h
  obtain ⟨_, _, rfl⟩ := h
  refine ⟨setBal_inv _ hb _ _ _, rfl, rfl, rfl, ?_⟩
  intro a' d'
  rw [balOf_setBal _ hb.nodupBal]
  unfold outDelta
  by_cases he : (a, c.denom) = (a', d')
  · obtain ⟨rfl, rfl⟩ := Prod.mk.inj he
    have : 0 ≤ (b.balOf a c.denom : Int) + c.amt := by omega
    simp [Int.toNat_of_nonneg this]
  · simp [he]

/-- total outflow of a coin list from `a` as seen at `(a', d')` -/
def outSum (a : Addr) (cs : Coins) (a' : Addr) (d' : String) : Int := (cs.map (fun c => outDelta a c a' d')).sum

theorem allPos_of_valid : ∀ (cs : Coins), Coins.isValid cs = true → ∀ c ∈ cs, 0 < c.amt
  | [], _ => by intro c hc; simp at hc
  | [x], h => by
    intro c hc; simp only [List.mem_singleton] at hc; subst hc
    simp only [Coins.isValid, Bool.and_eq_true, decide_eq_true_eq] at h; exact h.1
  | x :: y :: rest, h => by
    intro c hc
    simp only [Coins.isValid, Bool.and_eq_true, decide_eq_true_eq] at h
    rcases List.mem_cons.mp hc with he | hc'
    · subst he; exact h.1.1.1
    · exact allPos_of_valid (y :: rest) h.2 c hc'

theorem fold_sub_spec (locked : Coins) (a : Addr) (cs : Coins) (hpos : ∀ c ∈ cs, 0 < c.amt)
    (hlock : ∀ d, 0 ≤ Coins.amountOf locked d) :
    ∀ (b b' : Bank), BankInv b → cs.foldlM (subUnlockedCoin locked a) b = .ok b' →
      BankInv b' ∧ b'.supply = b.supply ∧ b'.vest = b.vest ∧ b'.accts = b.accts ∧
      (∀ a' d', (b'.balOf a' d' : Int) = b.balOf a' d' - outSum a cs a' d') := by
  induction cs with
  | nil => intro b b' hb h; simp [List.foldlM] at h; subst h; exact ⟨hb, rfl, rfl, rfl, by simp [outSum]⟩
  | cons c cs ih =>
    intro b b' hb h
    simp only [List.foldlM_cons, bind_eq_ok] at h
    obtain ⟨b1, h1, h2⟩ := h
    obtain ⟨i1, s1, v1, a1, e1, _⟩ := subUnlockedCoin_spec locked a b b1 c hb (hpos c (by simp)) hlock h1
    obtain ⟨i2, s2, v2, a2, e2⟩ := ih (fun x hx => hpos x (by simp [hx])) b1 b' i1 h2
    refine ⟨i2, s2.trans s1, v2.trans v1, a2.trans a1, ?_⟩
    intro a' d'
    rw [e2, e1]; simp [outSum]; omega

theorem fold_add_spec (a : Addr) (cs : Coins) (hpos : ∀ c ∈ cs, 0 < c.amt) :
    ∀ (b b' : Bank), BankInv b → cs.foldlM (addCoin a) b = .ok b' →
      BankInv b' ∧ b'.supply = b.supply ∧ b'.vest = b.vest ∧ b'.accts = b.accts ∧
      (∀ a' d', (b'.balOf a' d' : Int) = b.balOf a' d' + outSum a cs a' d') := by
  induction cs with
  | nil => intro b b' hb h; simp [List.foldlM] at h; subst h; exact ⟨hb, rfl, rfl, rfl, by simp [outSum]⟩
  | cons c cs ih =>
    intro b b' hb h
    simp only [List.foldlM_cons, bind_eq_ok] at h
    obtain ⟨b1, h1, h2⟩ := h
    obtain ⟨i1, s1, v1, a1, e1⟩ := addCoin_spec a b b1 c hb (hpos c (by simp)) h1
    obtain ⟨i2, s2, v2, a2, e2⟩ := ih (fun x hx => hpos x (by simp [hx])) b1 b' i1 h2
    refine ⟨i2, s2.trans s1, v2.trans v1, a2.trans a1, ?_⟩
    intro a' d'
    rw [e2, e1]; simp [outSum]; omega

theorem ensureAccount_frame (b : Bank) (a : Addr) :
    (b.ensureAccount a).bal = b.bal ∧ (b.ensureAccount a).supply = b.supply ∧ (b.ensureAccount a).vest = b.vest := by
  unfold ensureAccount; split <;> exact ⟨rfl, rfl, rfl⟩

theorem balOf_ensureAccount (b : Bank) (a a' : Addr) (d : String) : (b.ensureAccount a).balOf a' d = b.balOf a' d := by
  unfold balOf; rw [(ensureAccount_frame b a).1]

/-- `SendCoins` : every balance changes by exactly what left `src` and what arrived at `dst` -/
theorem sendCoins_spec (b b' : Bank) (now : Int) (src dst : Addr) (amt : Coins) (hb : BankInv b)
    (hlock : ∀ d, 0 ≤ Coins.amountOf (lockedCoins b now src) d)
    (h : b.sendCoins now src dst amt = .ok b') :
    BankInv b' ∧ b'.supply = b.supply ∧ b'.vest = b.vest ∧
    (∀ a' d', (b'.balOf a' d' : Int) = b.balOf a' d' - outSum src amt a' d' + outSum dst amt a' d') := by
  simp only [sendCoins, subUnlocked, addCoins, bind_eq_ok, pure_eq_ok, require_eq_ok] at h
  obtain ⟨b1, ⟨_, hv, h1⟩, b2, ⟨_, _, h2⟩, rfl⟩ := h
  have hpos := allPos_of_valid amt hv
  obtain ⟨i1, s1, v1, _, e1⟩ := fold_sub_spec _ src amt hpos hlock b b1 hb h1
  obtain ⟨i2, s2, v2, _, e2⟩ := fold_add_spec dst amt hpos b1 b2 i1 h2
  have hf := ensureAccount_frame b2 dst
  refine ⟨⟨by rw [hf.1]; exact i2.nodupBal, by rw [hf.2.1]; exact i2.nodupSupply⟩, by rw [hf.2.1, s2, s1],
    by rw [hf.2.2, v2, v1], ?_⟩
  intro a' d'
  rw [balOf_ensureAccount, e2, e1]

theorem locked_nonvesting (b : Bank) (now : Int) (a : Addr) (h : find? b.vest a = none) :
    ∀ d, 0 ≤ Coins.amountOf (lockedCoins b now a) d := by
  intro d; simp [lockedCoins, h, Coins.amountOf]

theorem outSum_single (a : Addr) (c : Coin) (a' : Addr) (d' : String) : outSum a [c] a' d' = outDelta a c a' d' := by
  simp [outSum]

theorem outSum_other (a : Addr) (cs : Coins) (a' : Addr) (d' : String) (h : a ≠ a') : outSum a cs a' d' = 0 := by
  unfold outSum
  induction cs with
  | nil => rfl
  | cons c cs ih =>
    simp only [List.map_cons, List.sum_cons, ih]
    simp [outDelta, h]

theorem takeCoin_spec (a : Addr) (b b' : Bank) (c : Coin) (hb : BankInv b) (hc : 0 < c.amt)
    (h : takeCoin a b c = .ok b') :
    BankInv b' ∧ b'.supply = b.supply ∧ b'.vest = b.vest ∧ b'.accts = b.accts ∧
    (∀ a' d', (b'.balOf a' d' : Int) = b.balOf a' d' - outDelta a c a' d') := by
  simp only [takeCoin, bind_eq_ok, pure_eq_ok, require_eq_ok, decide_eq_true_eq] at h
  obtain ⟨_, h1, rfl⟩ := h
  refine ⟨setBal_inv _ hb _ _ _, rfl, rfl, rfl, ?_⟩
  intro a' d'
  rw [balOf_setBal _ hb.nodupBal]
  unfold outDelta
  by_cases he : (a, c.denom) = (a', d')
  · obtain ⟨rfl, rfl⟩ := Prod.mk.inj he
    have : 0 ≤ (b.balOf a c.denom : Int) - c.amt := by omega
    simp [Int.toNat_of_nonneg this]
  · simp [he]

theorem fold_take_spec (a : Addr) (cs : Coins) (hpos : ∀ c ∈ cs, 0 < c.amt) :
    ∀ (b b' : Bank), BankInv b → cs.foldlM (takeCoin a) b = .ok b' →
      BankInv b' ∧ b'.supply = b.supply ∧ b'.vest = b.vest ∧ b'.accts = b.accts ∧
      (∀ a' d', (b'.balOf a' d' : Int) = b.balOf a' d' - outSum a cs a' d') := by
  induction cs with
  | nil => intro b b' hb h; simp [List.foldlM] at h; subst h; exact ⟨hb, rfl, rfl, rfl, by simp [outSum]⟩
  | cons c cs ih =>
    intro b b' hb h
    simp only [List.foldlM_cons, bind_eq_ok] at h
    obtain ⟨b1, h1, h2⟩ := h
    obtain ⟨i1, s1, v1, a1, e1⟩ := takeCoin_spec a b b1 c hb (hpos c (by simp)) h1
    obtain ⟨i2, s2, v2, a2, e2⟩ := ih (fun x hx => hpos x (by simp [hx])) b1 b' i1 h2
    refine ⟨i2, s2.trans s1, v2.trans v1, a2.trans a1, ?_⟩
    intro a' d'
    rw [e2, e1]; simp [outSum]; omega

theorem addCoins_spec (b b' : Bank) (a : Addr) (amt : Coins) (hb : BankInv b) (h : b.addCoins a amt = .ok b') :
    BankInv b' ∧ b'.supply = b.supply ∧ b'.vest = b.vest ∧ b'.accts = b.accts ∧ Coins.isValid amt = true ∧
    (∀ a' d', (b'.balOf a' d' : Int) = b.balOf a' d' + outSum a amt a' d') := by
  simp only [addCoins, bind_eq_ok, require_eq_ok] at h
  obtain ⟨_, hv, h⟩ := h
  obtain ⟨i, s, v, ac, e⟩ := fold_add_spec a amt (allPos_of_valid amt hv) b b' hb h
  exact ⟨i, s, v, ac, hv, e⟩

/-- the vesting table only ever changes at keys that are already vesting accounts -/
theorem trackDelegation_frame (b : Bank) (now : Int) (d : Addr) (amt : Coins) :
    (b.trackDelegation now d amt).bal = b.bal ∧ (b.trackDelegation now d amt).supply = b.supply ∧
    (b.trackDelegation now d amt).accts = b.accts ∧
    (∀ a, find? b.vest a = none → find? (b.trackDelegation now d amt).vest a = none) := by
  unfold trackDelegation
  split
  · exact ⟨rfl, rfl, rfl, fun _ h => h⟩
  · rename_i v hv
    refine ⟨rfl, rfl, rfl, ?_⟩
    intro a ha
    simp only [find_insert]
    split
    · rename_i he; subst he; rw [hv] at ha; cases ha
    · exact ha

theorem trackUndelegation_frame (b : Bank) (d : Addr) (amt : Coins) :
    (b.trackUndelegation d amt).bal = b.bal ∧ (b.trackUndelegation d amt).supply = b.supply ∧
    (b.trackUndelegation d amt).accts = b.accts ∧
    (∀ a, find? b.vest a = none → find? (b.trackUndelegation d amt).vest a = none) := by
  unfold trackUndelegation
  split
  · exact ⟨rfl, rfl, rfl, fun _ h => h⟩
  · rename_i v hv
    refine ⟨rfl, rfl, rfl, ?_⟩
    intro a ha
    simp only [find_insert]
    split
    · rename_i he; subst he; rw [hv] at ha; cases ha
    · exact ha

/-- `DelegateCoins` : balances move from the delegator to the module; supply unchanged -/
theorem delegate_spec (b b' : Bank) (now : Int) (d m : Addr) (amt : Coins) (hb : BankInv b)
    (h : b.delegate now d m amt = .ok b') :
    BankInv b' ∧ b'.supply = b.supply ∧ (∀ a, find? b.vest a = none → find? b'.vest a = none) ∧
    (∀ a' d', (b'.balOf a' d' : Int) = b.balOf a' d' - outSum d amt a' d' + outSum m amt a' d') := by
  simp only [delegate, bind_eq_ok, require_eq_ok] at h
  obtain ⟨_, hv, b1, h1, h2⟩ := h
  obtain ⟨i1, s1, v1, _, e1⟩ := fold_take_spec d amt (allPos_of_valid amt hv) b b1 hb h1
  have hf := trackDelegation_frame b1 now d amt
  have i1' : BankInv (b1.trackDelegation now d amt) := ⟨by rw [hf.1]; exact i1.nodupBal, by rw [hf.2.1]; exact i1.nodupSupply⟩
  obtain ⟨i2, s2, v2, _, _, e2⟩ := addCoins_spec _ b' m amt i1' h2
  refine ⟨i2, by rw [s2, hf.2.1, s1], ?_, ?_⟩
  · intro a ha; rw [v2]; exact hf.2.2.2 a (by rw [v1]; exact ha)
  · intro a' d'
    rw [e2]
    have : (b1.trackDelegation now d amt).balOf a' d' = b1.balOf a' d' := by unfold balOf; rw [hf.1]
    rw [this, e1]

/-- `UndelegateCoins` : balances move from the module to the delegator; supply unchanged -/
theorem undelegate_spec (b b' : Bank) (now : Int) (m d : Addr) (amt : Coins) (hb : BankInv b)
    (hlock : ∀ dn, 0 ≤ Coins.amountOf (lockedCoins b now m) dn)
    (h : b.undelegate now m d amt = .ok b') :
    BankInv b' ∧ b'.supply = b.supply ∧ (∀ a, find? b.vest a = none → find? b'.vest a = none) ∧
    (∀ a' d', (b'.balOf a' d' : Int) = b.balOf a' d' - outSum m amt a' d' + outSum d amt a' d') := by
  simp only [undelegate, subUnlocked, bind_eq_ok, require_eq_ok] at h
  obtain ⟨_, hv, b1, ⟨_, _, h1⟩, h2⟩ := h
  obtain ⟨i1, s1, v1, _, e1⟩ := fold_sub_spec _ m amt (allPos_of_valid amt hv) hlock b b1 hb h1
  have hf := trackUndelegation_frame b1 d amt
  have i1' : BankInv (b1.trackUndelegation d amt) := ⟨by rw [hf.1]; exact i1.nodupBal, by rw [hf.2.1]; exact i1.nodupSupply⟩
  obtain ⟨i2, s2, v2, _, _, e2⟩ := addCoins_spec _ b' d amt i1' h2
  refine ⟨i2, by rw [s2, hf.2.1, s1], ?_, ?_⟩
  · intro a ha; rw [v2]; exact hf.2.2.2 a (by rw [v1]; exact ha)
  · intro a' d'
    rw [e2]
    have : (b1.trackUndelegation d amt).balOf a' d' = b1.balOf a' d' := by unfold balOf; rw [hf.1]
    rw [this, e1]

theorem supplyOf_set (b : Bank) (hb : NoDupKeys b.supply) (d : String) (n : Nat) (d' : String) :
    ({ b with supply := setNat b.supply d n } : Bank).supplyOf d' = if d = d' then n else b.supplyOf d' := by
  unfold supplyOf
  split
  · rename_i he; subst he; exact get_setNat_eq _ _ _ hb
  · rename_i hne; exact get_setNat_ne _ _ _ _ hne

theorem addSupply_spec (b b' : Bank) (c : Coin) (hb : BankInv b) (hc : 0 < c.amt) (h : addSupply b c = .ok b') :
    BankInv b' ∧ b'.bal = b.bal ∧ b'.vest = b.vest ∧ b'.accts = b.accts ∧
    (∀ d', (b'.supplyOf d' : Int) = b.supplyOf d' + (if c.denom = d' then c.amt else 0)) := by
  simp only [addSupply, bind_eq_ok, pure_eq_ok, require_eq_ok] at h
  obtain ⟨_, _, rfl⟩ := h
  refine ⟨⟨hb.nodupBal, nodup_setNat _ _ _ hb.nodupSupply⟩, rfl, rfl, rfl, ?_⟩
  intro d'
  rw [supplyOf_set _ hb.nodupSupply]
  by_cases he : c.denom = d'
  · subst he
    have : 0 ≤ (b.supplyOf c.denom : Int) + c.amt := by omega
    simp [Int.toNat_of_nonneg this]
  · simp [he]

/-- total amount of denomination `d'` in a coin list -/
def coinsSum (cs : Coins) (d' : String) : Int := (cs.map (fun c => if c.denom = d' then c.amt else 0)).sum

theorem fold_supply_spec (cs : Coins) (hpos : ∀ c ∈ cs, 0 < c.amt) :
    ∀ (b b' : Bank), BankInv b → cs.foldlM addSupply b = .ok b' →
      BankInv b' ∧ b'.bal = b.bal ∧ b'.vest = b.vest ∧ b'.accts = b.accts ∧
      (∀ d', (b'.supplyOf d' : Int) = b.supplyOf d' + coinsSum cs d') := by
  induction cs with
  | nil => intro b b' hb h; simp [List.foldlM] at h; subst h; exact ⟨hb, rfl, rfl, rfl, by simp [coinsSum]⟩
  | cons c cs ih =>
    intro b b' hb h
    simp only [List.foldlM_cons, bind_eq_ok] at h
    obtain ⟨b1, h1, h2⟩ := h
    obtain ⟨i1, s1, v1, a1, e1⟩ := addSupply_spec b b1 c hb (hpos c (by simp)) h1
    obtain ⟨i2, s2, v2, a2, e2⟩ := ih (fun x hx => hpos x (by simp [hx])) b1 b' i1 h2
    refine ⟨i2, s2.trans s1, v2.trans v1, a2.trans a1, ?_⟩
    intro d'
    rw [e2, e1]; simp [coinsSum]; omega

/-- `MintCoins` : the module's balance and the supply both grow by the minted coins -/
theorem mint_spec (b b' : Bank) (m : Addr) (amt : Coins) (hb : BankInv b) (h : b.mint m amt = .ok b') :
    BankInv b' ∧ b'.vest = b.vest ∧
    (∀ a' d', (b'.balOf a' d' : Int) = b.balOf a' d' + outSum m amt a' d') ∧
    (∀ d', (b'.supplyOf d' : Int) = b.supplyOf d' + coinsSum amt d') := by
  simp only [mint, bind_eq_ok] at h
  obtain ⟨b1, h1, h2⟩ := h
  obtain ⟨i1, s1, v1, _, hv, e1⟩ := addCoins_spec b b1 m amt hb h1
  obtain ⟨i2, bl2, v2, _, e2⟩ := fold_supply_spec amt (allPos_of_valid amt hv) b1 b' i1 h2
  refine ⟨i2, by rw [v2, v1], ?_, ?_⟩
  · intro a' d'
    have : b'.balOf a' d' = b1.balOf a' d' := by unfold balOf; rw [bl2]
    rw [this, e1]
  · intro d'
    rw [e2]
    have : b1.supplyOf d' = b.supplyOf d' := by unfold supplyOf; rw [s1]
    rw [this]

end Bank
end Mainchain
