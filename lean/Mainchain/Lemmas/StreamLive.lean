import Mainchain.Lemmas.StreamRateReach
/-
Liveness of stream operations: a funded stream can always be claimed (no stranding, no panic).
-/
namespace Mainchain
open AL Bank

theorem sumF_ge_of_find {κ ν : Type} [DecidableEq κ] (f : ν → Int) (m : List (κ × ν)) (hnn : ∀ k v, find? m k = some v → 0 ≤ f v)
    (hnd : NoDupKeys m) (k : κ) (v : ν) (h : find? m k = some v) : f v ≤ sumF f m := by
  induction m with
  | nil => simp at h
  | cons p m ih =>
    obtain ⟨k0, v0⟩ := p
    simp only [NoDupKeys, keys, List.map_cons, List.nodup_cons] at hnd
    simp only [find?] at h
    have hrest : 0 ≤ sumF f m := by
      clear ih h
      have hnn' : ∀ k v, find? m k = some v → 0 ≤ f v := by
        intro k' v' hk'
        apply hnn k' v'
        simp only [find?]
        split
        · rename_i he; subst he
          exact absurd (mem_keys_of_find m _ _ hk') hnd.1
        · exact hk'
      clear hnn
      induction m with
      | nil => simp [sumF]
      | cons q m ih2 =>
        obtain ⟨k1, v1⟩ := q
        simp only [sumF]
        simp only [keys, List.map_cons, List.nodup_cons, List.mem_cons, not_or] at hnd
        have h1 : 0 ≤ f v1 := hnn' k1 v1 (by simp [find?])
        have h2 : 0 ≤ sumF f m := ih2 ⟨hnd.1.2, hnd.2.2⟩ (by
          intro k' v' hk'
          apply hnn' k' v'
          simp only [find?]
          split
          · rename_i he; subst he
            exact absurd (mem_keys_of_find m _ _ hk') hnd.2.1
          · exact hk')
        omega
    split at h
    · cases h; simp only [sumF]; omega
    · rename_i hne
      have := ih (fun k' v' hk' => hnn k' v' (by
        simp only [find?]
        split
        · rename_i he; subst he; exact absurd (mem_keys_of_find m _ _ hk') hnd.1
        · exact hk')) hnd.2 h
      have h0 : 0 ≤ f v0 := hnn k0 v0 (by simp [find?])
      simp only [sumF]; omega

theorem require_true (e : Err) : require true e = .ok () := rfl

theorem sendCoins_single_ok (b : Bank) (now : Int) (src dst : Addr) (c : Coin) (hpos : 0 < c.amt)
    (hden : c.denom.isEmpty = false) (hb : BankInv b) (hv : find? b.vest src = none) (hfunds : c.amt ≤ b.balOf src c.denom)
    (hfit : ∀ n : Nat, n ≤ b.balOf dst c.denom → fitsInt256 ((n : Int) + c.amt) = true) :
    ∃ b', b.sendCoins now src dst [c] = .ok b' := by
  have hvalid : Coins.isValid [c] = true := by simp [Coins.isValid, hpos, hden]
  have hlocked : lockedCoins b now src = [] := by simp [lockedCoins, hv]
  have g1 : decide ((0 : Int) ≤ (b.balOf src c.denom : Int)) = true := by simp
  have g2 : decide (c.amt ≤ (b.balOf src c.denom : Int) - 0) = true := by simp; omega
  let b1 := b.setBal src c.denom ((b.balOf src c.denom : Int) - c.amt).toNat
  have g3 : fitsInt256 ((b1.balOf dst c.denom : Int) + c.amt) = true := by
    apply hfit
    show (b.setBal src c.denom _).balOf dst c.denom ≤ _
    unfold setBal balOf
    by_cases he : (src, c.denom) = (dst, c.denom)
    · rw [he, get_setNat_eq _ _ _ hb.nodupBal]
      obtain ⟨rfl, _⟩ := Prod.mk.inj he
      show ((get b.bal (src, c.denom) : Int) - c.amt).toNat ≤ get b.bal (src, c.denom)
      have : (b.balOf src c.denom : Int) = (get b.bal (src, c.denom) : Int) := rfl
      omega
    · rw [get_setNat_ne _ _ _ _ he]; exact Nat.le_refl _
  refine ⟨(b1.setBal dst c.denom ((b1.balOf dst c.denom : Int) + c.amt).toNat).ensureAccount dst, ?_⟩
  simp only [sendCoins, subUnlocked, addCoins, hvalid, require_true, List.foldlM_cons, List.foldlM_nil,
    subUnlockedCoin, addCoin, hlocked, Coins.amountOf, List.find?_nil, g1, g2, bind, Except.bind, pure, Except.pure]
  have g2' : decide (c.amt ≤ (b.balOf src c.denom : Int)) = true := by simp; omega
  simp only [b1] at g3
  simp [g2', g3, require_true, b1]

/-- history assumption: every balance is below 2^255 (so that adding anything held in escrow cannot
overflow the 256-bit `sdk.Int`) -/
def Small (b : Bank) : Prop := ∀ a d, (b.balOf a d : Int) < 2 ^ 255

theorem fits_of_small (n : Nat) (amt : Int) (h0 : 0 ≤ amt) (h1 : (n : Int) < 2 ^ 255) (h2 : amt < 2 ^ 255) :
    fitsInt256 ((n : Int) + amt) = true := by
  unfold fitsInt256 two256
  simp only [decide_eq_true_eq]
  have e1 : (2 : Int) ^ 255 = 57896044618658097711785492504343953926634992332820282019728792003956564819968 := by decide
  have e2 : (2 : Nat) ^ 256 = 115792089237316195423570985008687907853269984665640564039457584007913129639936 := by decide
  rw [e1] at h1 h2
  rw [e2]
  omega

theorem feeOf_bounds (fee amount : Int) (hf0 : 0 < fee) (hf1 : fee ≤ (pow18 : Int)) (ha : 0 ≤ amount) :
    0 ≤ feeOf fee amount ∧ feeOf fee amount ≤ amount := by
  unfold feeOf
  have hnn : 0 ≤ amount * fee := Int.mul_nonneg ha (by omega)
  rw [Int.tdiv_eq_ediv_of_nonneg hnn]
  constructor
  · exact Int.ediv_nonneg hnn (by unfold pow18; omega)
  · have h1 : amount * fee ≤ amount * (pow18 : Int) := Int.mul_le_mul_of_nonneg_left hf1 ha
    have h2 : amount * fee / (pow18 : Int) ≤ amount * (pow18 : Int) / (pow18 : Int) :=
      Int.ediv_le_ediv (by unfold pow18; omega) h1
    rw [Int.mul_ediv_cancel _ (by unfold pow18; omega)] at h2
    exact h2

/-- no arithmetic panic: the fee split succeeds for every amount and every fee rate in [0,1] -/
theorem calcValidatorFee_ok (fee amount : Int) (hf0 : 0 ≤ fee) (hf1 : fee ≤ (pow18 : Int)) (ha : 0 ≤ amount) :
    ∃ p, calcValidatorFee fee amount = .ok p := by
  unfold calcValidatorFee
  split
  · rename_i hpos
    obtain ⟨h1, h2⟩ := feeOf_bounds fee amount hpos hf1 ha
    have g1 : decide (0 ≤ feeOf fee amount) = true := by simpa using h1
    have g2 : decide (feeOf fee amount ≤ amount) = true := by simpa using h2
    exact ⟨(amount - feeOf fee amount, feeOf fee amount), by simp [bind, Except.bind, g1, g2, require_true, pure, Except.pure]⟩
  · exact ⟨_, rfl⟩

theorem denom_nonempty (d : String) (h : validDenom d = true) : d.isEmpty = false := by
  unfold validDenom at h
  cases hd : d.toList with
  | nil => rw [hd] at h; simp at h
  | cons c cs =>
    cases he : d.isEmpty with
    | false => rfl
    | true =>
      have : d = "" := by simpa [String.isEmpty_iff] using he
      rw [this] at hd; simp at hd

theorem escrow_covers (x : SB) (hi : StreamInv x) (key : Addr × Addr) (st : Stream)
    (hf : find? x.str.streams key = some st) : st.deposit ≤ (x.bank.balOf Mstr st.denom : Int) := by
  rw [hi.backed st.denom]
  have := sumF_ge_of_find (depIn st.denom) x.str.streams
    (fun k v hk => by
      unfold depIn
      split
      · exact hi.nonneg k v hk
      · exact Int.le_refl 0) hi.nodup key st hf
  simpa [depIn, depositSum] using this

/-- **a funded stream can always be claimed** : for every stored stream with a positive deposit,
every fee rate in [0,1], every amount and elapsed time, `ClaimFromStream` succeeds (no error, no panic) -/
theorem claim_succeeds (x : SB) (now : Int) (r s : Addr) (st : Stream) (hi : StreamInv x) (hwf : StreamWF now x)
    (hfee : 0 ≤ x.str.fee ∧ x.str.fee ≤ (pow18 : Int)) (hsmall : Small x.bank)
    (hf : find? x.str.streams (r, s) = some st) (hpos : 0 < st.deposit) :
    ∃ x' o, claimFromStream x now isBlocked r s = .ok (x', o) := by
  have hr := hwf.rate _ _ hf
  have hden := denom_nonempty _ (hwf.denom _ _ hf)
  have hrecv := hwf.recv r s st hf
  obtain ⟨hc0, hcsum, hc2⟩ := calcAmountToClaim_bounds now st.zero st.last st.deposit st.rate (by omega) (by omega)
  obtain ⟨p, hp⟩ := calcValidatorFee_ok x.str.fee _ hfee.1 hfee.2 hc0
  obtain ⟨hsplit, hp1, hp2, _⟩ := calcValidatorFee_split x.str.fee _ p.1 p.2 hc0 (by cases p; exact hp)
  have hcover := escrow_covers x hi (r, s) st hf
  have hbalsmall := hsmall Mstr st.denom
  -- fee transfer
  have hfeeok : ∃ b1, payFee x.bank (now / nsPerSec) st.denom p.2 = .ok b1 := by
    unfold payFee
    split
    · rename_i hfp
      exact sendCoins_single_ok x.bank _ Mstr Mfee { denom := st.denom, amt := p.2 } hfp hden hi.bank hi.noVest
        (by simp only; omega)
        (fun n hn => fits_of_small n p.2 hp2 (by have := hsmall Mfee st.denom; simp only at hn; omega) (by omega))
    · exact ⟨_, rfl⟩
  obtain ⟨b1, hb1⟩ := hfeeok
  obtain ⟨i1, v1, _, e1⟩ := payFee_spec x.bank b1 _ st.denom p.2 hi.bank hi.noVest hb1
  have hrne : r ≠ Mstr := by intro e; subst e; simp [isBlocked_Mstr] at hrecv
  have hrfee : r ≠ Mfee := by intro e; subst e; revert hrecv; decide
  -- payment to the receiver
  have hpayok : ∃ b2, payOut b1 (now / nsPerSec) isBlocked r st.denom p.1 = .ok b2 := by
    unfold payOut
    split
    · rename_i hpp
      have hb1bal : (b1.balOf Mstr st.denom : Int) = x.bank.balOf Mstr st.denom - max p.2 0 := by
        have := e1 st.denom; rw [if_pos rfl] at this; exact this
      have hrbal : b1.balOf r st.denom = x.bank.balOf r st.denom := by
        unfold payFee at hb1
        split at hb1
        · obtain ⟨_, _, _, e⟩ := sendCoins_spec x.bank b1 _ Mstr Mfee _ hi.bank (locked_nonvesting _ _ _ hi.noVest) hb1
          exact balOf_unchanged_of_spec x.bank b1 Mstr Mfee _ r (Ne.symm hrne) (Ne.symm hrfee) e st.denom
        · cases hb1; rfl
      obtain ⟨b2, hb2⟩ := sendCoins_single_ok b1 _ Mstr r { denom := st.denom, amt := p.1 } hpp hden i1
        (by rw [v1]; exact hi.noVest) (by simp only; omega)
        (fun n hn => fits_of_small n p.1 hp1 (by have := hsmall r st.denom; simp only at hn; omega) (by omega))
      exact ⟨b2, by simp [bind, Except.bind, hrecv, require_true]; exact hb2⟩
    · exact ⟨_, rfl⟩
  obtain ⟨b2, hb2⟩ := hpayok
  have g0 : decide (0 < st.deposit) = true := by simpa using hpos
  have g1 : decide (0 ≤ (calcAmountToClaim now st.zero st.last st.deposit st.rate).1) = true := by simpa using hc0
  have g2 : decide ((calcAmountToClaim now st.zero st.last st.deposit st.rate).1 ≤ st.deposit) = true := by simp; omega
  simp only [claimFromStream, findStream, hf, bind, Except.bind, g0, g1, g2, require_true, hp, hb1, hb2, pure, Except.pure]
  exact ⟨_, _, rfl⟩

/-- stronger size assumption used for cancel (two payments in a row) -/
def Small254 (b : Bank) : Prop := ∀ a d, (b.balOf a d : Int) < 2 ^ 254

theorem small_of_small254 (b : Bank) (h : Small254 b) : Small b := by
  intro a d
  have := h a d
  have e1 : (2 : Int) ^ 254 = 28948022309329048855892746252171976963317496166410141009864396001978282409984 := by decide
  have e2 : (2 : Int) ^ 255 = 57896044618658097711785492504343953926634992332820282019728792003956564819968 := by decide
  rw [e1] at this; rw [e2]; omega

theorem maySign_not_blocked (a : Addr) (h : MaySign a) : isBlocked a = false := by
  rcases h with h | h
  · cases hb : isBlocked a with
    | false => rfl
    | true =>
      exfalso
      have : a ∈ blockedAddrs := by simpa [isBlocked] using hb
      have hall : ∀ x ∈ blockedAddrs, 1000 ≤ x := by decide
      have h2 : 1000 ≤ a := hall a this
      exact absurd (Nat.lt_of_lt_of_le h h2) (Nat.lt_irrefl _)
  · rcases h with h | h
    · subst h; decide
    · cases hb : isBlocked a with
      | false => rfl
      | true =>
        exfalso
        have : a ∈ blockedAddrs := by simpa [isBlocked] using hb
        have hall : ∀ x ∈ blockedAddrs, x < 2000 := by decide
        have h2 : a < 2000 := hall a this
        exact absurd (Nat.lt_of_lt_of_le h2 h) (Nat.lt_irrefl _)

/-- a claim raises the balance of an account other than the escrow and the fee collector by at most
the payment to the receiver -/
theorem claim_other_balance (x x' : SB) (now : Int) (r s : Addr) (o : ClaimOut) (hi : StreamInv x)
    (h : claimFromStream x now isBlocked r s = .ok (x', o)) (a : Addr) (h1 : a ≠ Mstr) (h2 : a ≠ Mfee) (d : String) :
    (x'.bank.balOf a d : Int) ≤ x.bank.balOf a d + o.pay := by
  have hsp := claim_spec x x' now isBlocked isBlocked_Mstr r s o hi h
  obtain ⟨_, _, _, _, st, hf, _, hp1, _⟩ := hsp
  simp only [claimFromStream, bind_eq_ok, pure_eq_ok, Prod.mk.injEq] at h
  obtain ⟨st1, hst1, _, _, _, _, _, _, f, hfv, b1, hb1, b2, hb2, hxeq, ho⟩ := h
  have hpay : o.pay = f.1 := by rw [← ho]
  have hx' : x'.bank = b2 := by rw [← hxeq]
  rw [hx', hpay]
  have e1 : b1.balOf a d = x.bank.balOf a d := by
    unfold payFee at hb1
    split at hb1
    · obtain ⟨_, _, _, e⟩ := sendCoins_spec x.bank b1 _ Mstr Mfee _ hi.bank (locked_nonvesting _ _ _ hi.noVest) hb1
      exact balOf_unchanged_of_spec x.bank b1 Mstr Mfee _ a (Ne.symm h1) (Ne.symm h2) e d
    · cases hb1; rfl
  have i1 := (payFee_spec x.bank b1 _ st1.denom f.2 hi.bank hi.noVest hb1)
  unfold payOut at hb2
  split at hb2
  · rename_i hpp
    simp only [bind_eq_ok, require_eq_ok] at hb2
    obtain ⟨_, _, hb2⟩ := hb2
    obtain ⟨_, _, _, e⟩ := sendCoins_spec b1 b2 _ Mstr r _ i1.1 (locked_nonvesting _ _ _ (by rw [i1.2.1]; exact hi.noVest)) hb2
    have := e a d
    rw [outSum_other Mstr _ a d (Ne.symm h1), outSum_single] at this
    unfold outDelta at this
    rw [← e1]
    split at this <;> (try simp only at this) <;> omega
  · rename_i hnp
    cases hb2
    rw [e1]; rw [hpay] at hp1; omega

/-- **a cancellable funded stream can always be cancelled by its (non-blocked) sender** -/
theorem cancel_succeeds (x : SB) (now : Int) (r s : Addr) (st : Stream) (hi : StreamInv x) (hwf : StreamWF now x)
    (hfee : 0 ≤ x.str.fee ∧ x.str.fee ≤ (pow18 : Int)) (hsmall : Small254 x.bank)
    (hf : find? x.str.streams (r, s) = some st) (hs : isBlocked s = false) :
    ∃ x', cancelStream x now isBlocked r s = .ok x' := by
  have hcan := hwf.canc _ _ hf
  have e254 : (2 : Int) ^ 254 = 28948022309329048855892746252171976963317496166410141009864396001978282409984 := by decide
  have e255 : (2 : Int) ^ 255 = 57896044618658097711785492504343953926634992332820282019728792003956564819968 := by decide
  have hsne : s ≠ Mstr := by intro e; subst e; simp [isBlocked_Mstr] at hs
  have hsfee : s ≠ Mfee := by intro e; subst e; revert hs; decide
  -- settlement always succeeds
  have hsettle : ∃ z, settleIfFunded x now isBlocked r s st = .ok z ∧
      (∀ d, (z.1.bank.balOf s d : Int) < 2 ^ 255) := by
    unfold settleIfFunded
    split
    · rename_i hpos
      obtain ⟨x1, o, h1⟩ := claim_succeeds x now r s st hi hwf hfee (small_of_small254 _ hsmall) hf hpos
      refine ⟨(x1, (find? x1.str.streams (r, s)).getD st), by simp [bind, Except.bind, h1, pure, Except.pure], ?_⟩
      intro d
      have hb := claim_other_balance x x1 now r s o hi h1 s hsne hsfee d
      obtain ⟨_, _, _, _, st0, hf0, hsp, _, hp2, hsum, hrem, _⟩ := claim_spec x x1 now isBlocked isBlocked_Mstr r s o hi h1
      rw [hf] at hf0; cases hf0
      have hc := escrow_covers x hi (r, s) st hf
      have h1' := hsmall s d
      have h2' := hsmall Mstr st.denom
      rw [e254] at h1' h2'; rw [e255]
      simp only
      omega
    · refine ⟨(x, st), rfl, ?_⟩
      intro d
      have := hsmall s d
      rw [e254] at this; rw [e255]; simp only; omega
  obtain ⟨z, hz, hzs⟩ := hsettle
  obtain ⟨hiz, _, hvz, _, hfz, hdz, _, _, _, hnnz, _⟩ := settle_spec x now isBlocked isBlocked_Mstr r s st z hi hf hz
  have hcover := escrow_covers z.1 hiz (r, s) z.2 hfz
  have hvd : validDenom z.2.denom = true := by rw [hdz]; exact hwf.denom _ _ hf
  -- the escrow balance is still small: it only shrank
  have hescrow : (z.1.bank.balOf Mstr z.2.denom : Int) < 2 ^ 255 := by
    have hb := hiz.backed z.2.denom
    have hx := hi.backed z.2.denom
    have h0 := hsmall Mstr z.2.denom
    rw [e254] at h0; rw [e255]
    -- depositSum only decreased (or stayed) through the settlement
    rcases settle_shape x now r s st z hi hf hz with ⟨hpos, o, hcl, _⟩ | ⟨_, hzz⟩
    · obtain ⟨_, _, _, _, st0, hf0, _, _, _, hsum, hrem, _, _, hstreams⟩ := claim_spec x z.1 now isBlocked isBlocked_Mstr r s o hi hcl
      rw [hf] at hf0; cases hf0
      have : depositSum z.1 z.2.denom = depositSum x z.2.denom - depIn z.2.denom st + depIn z.2.denom { st with deposit := o.rem, last := now } := by
        simp only [depositSum, hstreams, sumF_insert, hf, fOpt]
      simp only [depIn] at this
      split at this <;> omega
    · have : z.1 = x := by rw [hzz]
      rw [this] at hb ⊢; omega
  have hrefund : ∃ b, payOut z.1.bank (now / nsPerSec) isBlocked s z.2.denom z.2.deposit = .ok b := by
    unfold payOut
    split
    · rename_i hpp
      obtain ⟨b, hb⟩ := sendCoins_single_ok z.1.bank _ Mstr s { denom := z.2.denom, amt := z.2.deposit } hpp
        (denom_nonempty _ hvd) hiz.bank hiz.noVest (by simp only; omega)
        (fun n hn => fits_of_small n z.2.deposit hnnz (by have := hzs z.2.denom; simp only at hn; omega) (by omega))
      exact ⟨b, by simp [bind, Except.bind, hs, require_true]; exact hb⟩
    · exact ⟨_, rfl⟩
  obtain ⟨b, hb⟩ := hrefund
  have gc : st.cancellable = true := hcan
  simp only [cancelStream, findStream, hf, bind, Except.bind, gc, require_true, hz, hb, pure, Except.pure]
  exact ⟨_, rfl⟩

end Mainchain
