import Mainchain.Lemmas.RegImport
import Mainchain.Lemmas.RegistryReach
/-
The registry sections are stored in canonical order in every reachable state — registrations and limits by
ascending id (ids come from a counter), records by ascending store key — so that export followed by import
gives back the *identical* registry state when nothing exceeds the export cap.
-/
namespace Mainchain
open AL Genesis

/-! ### extensionality of ordered maps -/

theorem al_ext {ν : Type} : ∀ (a b : List (Nat × ν)), keys a = keys b → NoDupKeys a →
    (∀ k, find? a k = find? b k) → a = b := by
  intro a
  induction a with
  | nil => intro b hk _ _; cases b with
    | nil => rfl
    | cons e b => simp [keys] at hk
  | cons e a ih =>
    intro b hk hn hf
    cases b with
    | nil => simp [keys] at hk
    | cons e' b =>
      obtain ⟨k, v⟩ := e
      obtain ⟨k', v'⟩ := e'
      simp only [keys, List.map_cons, List.cons.injEq] at hk
      obtain ⟨hkk, hkt⟩ := hk
      subst hkk
      have hv : v = v' := by
        have := hf k
        simp only [find?, if_true, Option.some.injEq] at this
        exact this
      subst hv
      unfold NoDupKeys keys at hn
      rw [List.map_cons, List.nodup_cons] at hn
      congr 1
      apply ih b hkt hn.2
      intro x
      by_cases hx : k = x
      · subst hx
        rw [find_none_of_not_mem a k hn.1]
        have : k ∉ keys b := by unfold keys; rw [← hkt]; exact hn.1
        rw [find_none_of_not_mem b k this]
      · have := hf x
        simp only [find?, hx, if_false] at this
        exact this

theorem find_of_sorted_head {ν : Type} (k : Nat × Nat) (b : List ((Nat × Nat) × ν))
    (h : ∀ e ∈ b, pairLt k e.1 = true) : find? b k = none := by
  apply find_none_of_not_mem
  intro hm
  simp only [keys, List.mem_map] at hm
  obtain ⟨e, he, hek⟩ := hm
  have := h e he
  rw [hek, pairLt_irrefl] at this
  cases this

theorem sorted_ext {ν : Type} : ∀ (a b : List ((Nat × Nat) × ν)), RecsSorted a → RecsSorted b →
    (∀ k, find? a k = find? b k) → a = b := by
  intro a
  induction a with
  | nil =>
    intro b _ _ hf
    cases b with
    | nil => rfl
    | cons e b =>
      have := hf e.1
      simp [find?] at this
  | cons e a ih =>
    intro b ha hb hf
    cases b with
    | nil =>
      have := hf e.1
      simp [find?] at this
    | cons e' b =>
      obtain ⟨k, v⟩ := e
      obtain ⟨k', v'⟩ := e'
      unfold RecsSorted at ha hb
      rw [List.pairwise_cons] at ha hb
      have hkk : k = k' := by
        apply Classical.byContradiction
        intro hne
        by_cases hlt : pairLt k k' = true
        · -- k is below every key of b's list: not found there
          have h1 := hf k
          simp only [find?, if_true] at h1
          have hne' : ¬ k' = k := fun e => hne e.symm
          simp only [hne', if_false] at h1
          rw [find_of_sorted_head k b (fun e he => pairLt_trans _ _ _ hlt (hb.1 e he))] at h1
          cases h1
        · have hgt : pairLt k' k = true := pairLt_total k k' hne (by simpa using hlt)
          have h1 := hf k'
          simp only [find?, if_true] at h1
          simp only [hne, if_false] at h1
          rw [find_of_sorted_head k' a (fun e he => pairLt_trans _ _ _ hgt (ha.1 e he))] at h1
          cases h1
      subst hkk
      have hv : v = v' := by
        have := hf k
        simp only [find?, if_true, Option.some.injEq] at this
        exact this
      subst hv
      congr 1
      apply ih b ha.2 hb.2
      intro x
      by_cases hx : k = x
      · subst hx
        rw [find_of_sorted_head k a ha.1, find_of_sorted_head k b hb.1]
      · have := hf x
        simp only [find?, hx, if_false] at this
        exact this

/-! ### canonical order of registrations and limits -/

structure RegCanon (r : RegState) : Prop where
  regsAsc : Asc (keys r.regs)
  limits : keys r.limits = keys r.regs

theorem regCanon_op (now wall : Nat) (a b : RegState) (hi : RegInv a) (hb : RegBounded a) (hc : RegCanon a)
    (h : RegOp now wall a b) (hshape : (a.kind = .wrk ∧ WrkInv a) ∨ (a.kind = .bcn ∧ BcnInv a)) : RegCanon b := by
  cases h with
  | register mk nm gn ty o id h =>
    obtain ⟨_, _, hfresh, _, _⟩ := regInv_register a now mk nm gn ty o b id hi hb h
    simp only [RegState.register, bind_eq_ok, pure_eq_ok, Prod.mk.injEq] at h
    obtain ⟨oa, _, _, _, _, _, _, _, rfl, rfl⟩ := h
    have hk : a.nextId ∉ keys a.regs := by
      intro hm
      obtain ⟨v, hv⟩ := find_some_of_mem _ _ hm
      have := (hi.idsBelowNext _ _ hv).2; omega
    have hkl : a.nextId ∉ keys a.limits := by rw [hc.limits]; exact hk
    constructor
    · show Asc (keys (insert a.regs a.nextId _))
      rw [insert_of_not_mem _ _ _ hk, keys_append]
      unfold Asc
      rw [List.pairwise_append]
      refine ⟨hc.regsAsc, by simp [keys], ?_⟩
      intro x hx y hy
      simp only [keys, List.map_cons, List.map_nil, List.mem_cons, List.not_mem_nil, or_false] at hy
      subst hy
      obtain ⟨v, hv⟩ := find_some_of_mem _ _ hx
      exact (hi.idsBelowNext x v hv).2
    · show keys (insert a.limits a.nextId _) = keys (insert a.regs a.nextId _)
      rw [insert_of_not_mem _ _ _ hk, insert_of_not_mem _ _ _ hkl, keys_append, keys_append, hc.limits]
      rfl
  | record id key rc o k h =>
    rcases hshape with ⟨_, hw⟩ | ⟨_, hbi⟩
    · obtain ⟨m, oa, hm, _, _, _, _, hsh⟩ := wrk_record_shape a now wall id key rc o b k hw hb h
      have hid : m.id = id := (hi.idsBelowNext id m hm).1
      subst hid
      rcases hsh with ⟨_, _, rfl⟩ | ⟨_, rfl⟩
      · exact ⟨by show Asc (keys (insert a.regs m.id _)); rw [keys_insert_of_find _ _ _ _ hm]; exact hc.regsAsc,
          by show keys a.limits = keys (insert a.regs m.id _); rw [keys_insert_of_find _ _ _ _ hm]; exact hc.limits⟩
      · exact ⟨by show Asc (keys (insert a.regs m.id _)); rw [keys_insert_of_find _ _ _ _ hm]; exact hc.regsAsc,
          by show keys a.limits = keys (insert a.regs m.id _); rw [keys_insert_of_find _ _ _ _ hm]; exact hc.limits⟩
    · obtain ⟨m, oa, hm, _, _, _, _, hsh⟩ := bcn_record_shape a now wall id key rc o b k hbi hb h
      have hid : m.id = id := (hi.idsBelowNext id m hm).1
      subst hid
      rcases hsh with ⟨_, _, rfl⟩ | ⟨_, rfl⟩
      · exact ⟨by show Asc (keys (insert a.regs m.id _)); rw [keys_insert_of_find _ _ _ _ hm]; exact hc.regsAsc,
          by show keys a.limits = keys (insert a.regs m.id _); rw [keys_insert_of_find _ _ _ _ hm]; exact hc.limits⟩
      · exact ⟨by show Asc (keys (insert a.regs m.id _)); rw [keys_insert_of_find _ _ _ _ hm]; exact hc.regsAsc,
          by show keys a.limits = keys (insert a.regs m.id _); rw [keys_insert_of_find _ _ _ _ hm]; exact hc.limits⟩
  | purchase id n o can h =>
    obtain ⟨_, hregs, _, _, _, _, ⟨oa, m, _, hm, _⟩, ⟨after, hlim, _⟩, _⟩ := regInv_purchase a id n o b can hi h
    obtain ⟨l, hl, _⟩ := hi.hasLimit id m hm
    exact ⟨by rw [hregs]; exact hc.regsAsc, by rw [hregs, hlim, keys_insert_of_find _ _ _ _ hl]; exact hc.limits⟩
  | setParams p h =>
    obtain ⟨_, hregs, _, hlim, _⟩ := regInv_setParams a p b hi h
    exact ⟨by rw [hregs]; exact hc.regsAsc, by rw [hregs, hlim]; exact hc.limits⟩

theorem regCanon_init_wrk (g : GenCfg) : RegCanon (initState g).wrk := ⟨by simp [initState, keys, Asc], rfl⟩
theorem regCanon_init_bcn (g : GenCfg) : RegCanon (initState g).bcn := ⟨by simp [initState, keys, Asc], rfl⟩

theorem wrkCanon_reachable (g : GenCfg) (hg : GenRegValid g) (s : State) (h : FineReach g WrkQ s) :
    WrkInv s.wrk ∧ RegCanon s.wrk := by
  refine fine_inv g WrkQ (fun s => WrkInv s.wrk ∧ RegCanon s.wrk) ⟨wrkInv_init g hg, regCanon_init_wrk g⟩ ?_ s h
  intro s s' hq hi hs
  rcases fineStep_reg .wrk s s' hs with he | ⟨wall, hop⟩
  · simp only [State.reg] at he; rw [he]; exact hi
  · exact ⟨wrk_op_inv _ wall _ _ hi.1 hq hop, regCanon_op _ wall _ _ hi.1.reg hq hi.2 hop (Or.inl ⟨hi.1.kind, hi.1⟩)⟩

theorem bcnCanon_reachable (g : GenCfg) (hg : GenRegValid g) (s : State) (h : FineReach g BcnQ s) :
    BcnInv s.bcn ∧ RegCanon s.bcn := by
  refine fine_inv g BcnQ (fun s => BcnInv s.bcn ∧ RegCanon s.bcn) ⟨bcnInv_init g hg, regCanon_init_bcn g⟩ ?_ s h
  intro s s' hq hi hs
  rcases fineStep_reg .bcn s s' hs with he | ⟨wall, hop⟩
  · simp only [State.reg] at he; rw [he]; exact hi
  · exact ⟨bcn_op_inv _ wall _ _ hi.1 hq hop, regCanon_op _ wall _ _ hi.1.reg hq hi.2 hop (Or.inr ⟨hi.1.kind, hi.1⟩)⟩

/-! ### the imported lists are in the same order -/

theorem importStep_keys (r acc : RegState) (id : Nat) (m : RegMeta) (hm : find? r.regs id = some m)
    (h1 : id ∉ keys acc.regs) (h2 : id ∉ keys acc.limits) :
    keys (importRegStep r acc id).regs = keys acc.regs ++ [id] ∧ keys (importRegStep r acc id).limits = keys acc.limits ++ [id] := by
  unfold importRegStep
  rw [hm]
  simp only
  rw [insert_of_not_mem _ _ _ h1, insert_of_not_mem _ _ _ h2, keys_append, keys_append]
  exact ⟨rfl, rfl⟩

theorem importFold_keys (r : RegState) : ∀ (l : List Nat) (acc : RegState), l.Nodup → (∀ id ∈ l, (find? r.regs id).isSome = true) →
    (∀ id ∈ l, id ∉ keys acc.regs ∧ id ∉ keys acc.limits) →
    keys (l.foldl (importRegStep r) acc).regs = keys acc.regs ++ l ∧ keys (l.foldl (importRegStep r) acc).limits = keys acc.limits ++ l := by
  intro l
  induction l with
  | nil => intro acc _ _ _; simp
  | cons a l ih =>
    intro acc hnd hreg hfresh
    rw [List.nodup_cons] at hnd
    obtain ⟨m, hm⟩ := Option.isSome_iff_exists.mp (hreg a (List.mem_cons_self ..))
    obtain ⟨k1, k2⟩ := importStep_keys r acc a m hm (hfresh a (List.mem_cons_self ..)).1 (hfresh a (List.mem_cons_self ..)).2
    simp only [List.foldl_cons]
    have := ih (importRegStep r acc a) hnd.2 (fun id hid => hreg id (List.mem_cons_of_mem _ hid))
      (fun id hid => by
        have hne : id ≠ a := fun e => hnd.1 (e ▸ hid)
        have hf := hfresh id (List.mem_cons_of_mem _ hid)
        rw [k1, k2]
        simp only [List.mem_append, List.mem_singleton, not_or]
        exact ⟨⟨hf.1, hne⟩, ⟨hf.2, hne⟩⟩)
    rw [this.1, this.2, k1, k2]
    simp

theorem sorted_foldl_collectRec (r : RegState) (id : Nat) : ∀ (l : List Nat) (acc : List ((Nat × Nat) × Rec)),
    RecsSorted acc → RecsSorted (l.foldl (collectRec r id) acc) := by
  intro l
  induction l with
  | nil => intro acc h; exact h
  | cons a l ih =>
    intro acc h
    simp only [List.foldl_cons]
    apply ih
    unfold collectRec
    cases find? r.recs (id, a) with
    | none => exact h
    | some rc => exact sorted_insertRec _ _ _ h

theorem sorted_importStep (r acc : RegState) (a : Nat) (h : RecsSorted acc.recs) : RecsSorted (importRegStep r acc a).recs := by
  cases hf : find? r.regs a with
  | none =>
    have : importRegStep r acc a = acc := by unfold importRegStep; rw [hf]
    rw [this]; exact h
  | some m =>
    have : (importRegStep r acc a).recs = (keptKeys r a).foldl (collectRec r a) acc.recs := by
      unfold importRegStep; rw [hf]
    rw [this]; exact sorted_foldl_collectRec r a _ _ h

theorem sorted_importFold (r : RegState) : ∀ (l : List Nat) (acc : RegState), RecsSorted acc.recs →
    RecsSorted (l.foldl (importRegStep r) acc).recs := by
  intro l
  induction l with
  | nil => intro acc h; exact h
  | cons a l ih =>
    intro acc h
    simp only [List.foldl_cons]
    apply ih
    exact sorted_importStep r acc a h

theorem regState_ext (a b : RegState) (h1 : a.kind = b.kind) (h2 : a.params = b.params) (h3 : a.nextId = b.nextId)
    (h4 : a.regs = b.regs) (h5 : a.limits = b.limits) (h6 : a.recs = b.recs) : a = b := by
  cases a; cases b
  simp only at h1 h2 h3 h4 h5 h6
  subst h1 h2 h3 h4 h5 h6
  rfl

/-- **export followed by import is the identity on a registry section** whose registrations retain at most
`exportCap` records each -/
theorem importReg_eq (r : RegState) (hi : RegInv r) (hc : RegCanon r) (hsame : RegSame r (importReg r)) : importReg r = r := by
  obtain ⟨h1, h2, h3, h4, h5, h6⟩ := hsame
  have hlim : ∀ id, find? r.regs id = none → find? r.limits id = none := by
    intro id hn
    apply find_none_of_not_mem
    rw [hc.limits]
    intro hm
    obtain ⟨v, hv⟩ := find_some_of_mem _ _ hm
    rw [hn] at hv; cases hv
  have hids : sortNat (keys r.regs) = keys r.regs := sortNat_of_asc _ hc.regsAsc
  have hkeys := importFold_keys r (keys r.regs) { kind := r.kind, params := r.params, nextId := r.nextId } hi.nodupRegs
    (fun id hid => by obtain ⟨v, hv⟩ := find_some_of_mem _ _ hid; rw [hv]; rfl)
    (fun id _ => ⟨by simp [keys], by simp [keys]⟩)
  have hregs : (importReg r).regs = r.regs := by
    apply al_ext
    · show keys ((sortNat (keys r.regs)).foldl (importRegStep r) _).regs = _
      rw [hids, hkeys.1]; simp [keys]
    · unfold NoDupKeys
      show (keys ((sortNat (keys r.regs)).foldl (importRegStep r) _).regs).Nodup
      rw [hids, hkeys.1]
      have : keys ({ kind := r.kind, params := r.params, nextId := r.nextId } : RegState).regs = [] := rfl
      rw [this, List.nil_append]; exact hi.nodupRegs
    · exact h4
  have hlimits : (importReg r).limits = r.limits := by
    apply al_ext
    · show keys ((sortNat (keys r.regs)).foldl (importRegStep r) _).limits = _
      rw [hids, hkeys.2, hc.limits]; simp [keys]
    · unfold NoDupKeys
      show (keys ((sortNat (keys r.regs)).foldl (importRegStep r) _).limits).Nodup
      rw [hids, hkeys.2]
      have : keys ({ kind := r.kind, params := r.params, nextId := r.nextId } : RegState).limits = [] := rfl
      rw [this, List.nil_append]; exact hi.nodupRegs
    · intro id
      cases hm : find? r.regs id with
      | some m => exact h5 id m hm
      | none =>
        rw [hlim id hm]
        apply find_none_of_not_mem
        show id ∉ keys ((sortNat (keys r.regs)).foldl (importRegStep r) _).limits
        rw [hids, hkeys.2]
        simp only [keys, List.map_nil, List.nil_append]
        intro hmem
        obtain ⟨v, hv⟩ := find_some_of_mem r.regs id hmem
        rw [hm] at hv; cases hv
  have hrecs : (importReg r).recs = r.recs := by
    apply sorted_ext _ _ _ hi.sortedRecs
    · intro key; obtain ⟨a, b⟩ := key; exact h6 a b
    · exact sorted_importFold r _ _ (by simp [RecsSorted])
  exact regState_ext _ _ h1 h2 h3 hregs hlimits hrecs

end Mainchain
