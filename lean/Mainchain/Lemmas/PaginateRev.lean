import Mainchain.Lemmas.PaginateWalk
/-
Paging with `reverse = true`: the same walk over the section in descending key order.
-/
namespace Mainchain
namespace Paginate
open Keys

variable {α : Type}

/-- the entries strictly below the key of an entry of an ascending section are the ones in front of it -/
theorem filter_before_key (a : List (Bytes × α)) (e2 : Bytes × α) (b : List (Bytes × α))
    (hs : (a ++ e2 :: b).Pairwise (fun x y => lexLt x.1 y.1 = true)) :
    (a ++ e2 :: b).filter (fun e => lexLt e.1 e2.1) = a := by
  induction a with
  | nil =>
    have hp := List.pairwise_cons.mp hs
    simp only [List.nil_append, List.filter_cons, lexLt_irrefl, Bool.false_eq_true, if_false]
    apply List.filter_eq_nil_iff.mpr
    intro e he
    have := hp.1 e he
    simp [lexLt_asymm _ _ this]
  | cons p a ih =>
    have hp := List.pairwise_cons.mp hs
    have hlt : lexLt p.1 e2.1 = true := hp.1 e2 (by simp)
    simp only [List.cons_append, List.filter_cons, hlt, if_true]
    rw [ih hp.2]

/-- paging backward by key -/
def walkKeysRev (kvs : List (Bytes × α)) (hit : Bytes → α → Option Bool) (L : Nat) : Nat → Bytes → Option (List α)
  | 0, _ => none
  | f + 1, key =>
    match filtered kvs { key := key, limit := L, reverse := true } hit with
    | none => none
    | some r => if r.next = [] then some r.items else (walkKeysRev kvs hit L f r.next).map (r.items ++ ·)

theorem walkKeysRev_succ (kvs : List (Bytes × α)) (hit : Bytes → α → Option Bool) (L f : Nat) (key : Bytes) :
    walkKeysRev kvs hit L (f + 1) key =
      match filtered kvs { key := key, limit := L, reverse := true } hit with
      | none => none
      | some r => if r.next = [] then some r.items else (walkKeysRev kvs hit L f r.next).map (r.items ++ ·) := rfl

/-- first page in reverse (offset branch, offset 0): the top of the section -/
theorem first_page_rev (kvs : List (Bytes × α)) (h : Bytes → α → Bool) (L : Nat) (hL : 1 ≤ L) (hL' : L + 1 < two64) :
    filtered kvs { key := [], limit := L, reverse := true } (fun k v => some (h k v)) =
      some { items := ((hitsOf h kvs.reverse).map (·.2)).take L,
             next := ((((hitsOf h kvs.reverse).map (·.1)).drop L).head?).getD [], total := 0 } := by
  have hne : ¬ (L = 0) := by omega
  simp only [filtered, hne, if_false, iter, Bool.not_true, Bool.false_eq_true, if_true, ne_eq, not_true_eq_false, and_false,
    Nat.lt_irrefl, false_and]
  rw [addU64_zero_left L (by omega), offLoop_spec h 0 L hL' kvs.reverse 0 [] (Nat.zero_le _)]
  simp

/-- a later page in reverse: the request key is the key of an entry that is not the top one -/
theorem key_page_rev (kvs : List (Bytes × α)) (pre : List (Bytes × α)) (k : Bytes) (v : α) (post : List (Bytes × α))
    (h : Bytes → α → Bool) (L : Nat) (hs : Section kvs) (hr : kvs.reverse = pre ++ (k, v) :: post) (hpre : pre ≠ []) (hL : 1 ≤ L) :
    filtered kvs { key := k, limit := L, reverse := true } (fun k v => some (h k v)) =
      some { items := ((hitsOf h ((k, v) :: post)).map (·.2)).take L,
             next := (((afterHits h L ((k, v) :: post)).map (·.1)).head?).getD [], total := 0 } := by
  have hkvs : kvs = post.reverse ++ (k, v) :: pre.reverse := by
    have := congrArg List.reverse hr
    simpa using this
  have hk : k ≠ [] := hs.nonempty (k, v) (by rw [hkvs]; simp)
  have hne : ¬ (L = 0) := by omega
  have hoff : ¬ ((0 : Nat) > 0 ∧ k ≠ []) := by simp
  -- the entry above `k`
  obtain ⟨pre', e2, hpe⟩ : ∃ pre' e2, pre = pre' ++ [e2] := by
    refine ⟨pre.dropLast, pre.getLast hpre, ?_⟩
    exact (List.dropLast_concat_getLast hpre).symm
  have hprev : pre.reverse = e2 :: pre'.reverse := by rw [hpe]; simp
  have hfil : kvs.filter (fun e => !lexLt e.1 k) = (k, v) :: e2 :: pre'.reverse := by
    rw [hkvs, filter_from_key post.reverse k v pre.reverse (hkvs ▸ hs.asc), hprev]
  have hbefore : kvs.filter (fun e => lexLt e.1 e2.1) = post.reverse ++ [(k, v)] := by
    have hk2 : kvs = (post.reverse ++ [(k, v)]) ++ e2 :: pre'.reverse := by rw [hkvs, hprev]; simp
    rw [hk2]
    exact filter_before_key _ e2 _ (hk2 ▸ hs.asc)
  simp only [filtered, hoff, hne, if_false, hk, ne_eq, not_false_eq_true, if_true, iter, Bool.not_true, Bool.false_eq_true,
    hfil, hbefore]
  rw [show (post.reverse ++ [(k, v)]).reverse = (k, v) :: post by simp]
  rw [keyLoop_spec h L _ 0 [] (Nat.zero_le _)]
  simp

theorem walk_from_suffix_rev (kvs : List (Bytes × α)) (h : Bytes → α → Bool) (L : Nat) (hs : Section kvs) (hL : 1 ≤ L) :
    ∀ (n : Nat) (pre : List (Bytes × α)) (k : Bytes) (v : α) (post : List (Bytes × α)),
      kvs.reverse = pre ++ (k, v) :: post → pre ≠ [] → post.length < n → ∀ fuel, n ≤ fuel →
      walkKeysRev kvs (fun k v => some (h k v)) L fuel k = some ((hitsOf h ((k, v) :: post)).map (·.2)) := by
  intro n
  induction n with
  | zero => intro pre k v post _ _ hlen; omega
  | succ n ih =>
    intro pre k v post hk hpre hlen fuel hfuel
    obtain ⟨f, rfl⟩ : ∃ f, fuel = f + 1 := ⟨fuel - 1, by omega⟩
    rw [walkKeysRev_succ, key_page_rev kvs pre k v post h L hs hk hpre hL]
    simp only []
    cases hrest : afterHits h L ((k, v) :: post) with
    | nil =>
      have hd : (hitsOf h ((k, v) :: post)).drop L = [] := by rw [← hitsOf_afterHits, hrest]; rfl
      have : ((hitsOf h ((k, v) :: post)).map (·.2)).take L = (hitsOf h ((k, v) :: post)).map (·.2) := by
        rw [← List.map_take]
        congr 1
        have := List.take_append_drop L (hitsOf h ((k, v) :: post))
        rw [hd, List.append_nil] at this; exact this
      simp [this]
    | cons e post' =>
      obtain ⟨k', v'⟩ := e
      obtain ⟨pre', hp'⟩ := afterHits_suffix h L ((k, v) :: post)
      rw [hrest] at hp'
      have hmem : (k', v') ∈ kvs := by
        have : (k', v') ∈ kvs.reverse := by rw [hk, hp']; simp
        simpa using this
      have hk' : k' ≠ [] := hs.nonempty (k', v') hmem
      have hshort : ((k', v') :: post').length < ((k, v) :: post).length := by
        have := afterHits_length_lt h (L - 1) (k, v) post
        have hL1 : L - 1 + 1 = L := by omega
        rw [hL1, hrest] at this; exact this
      simp only [List.map_cons, List.head?_cons, Option.getD_some, hk', if_false]
      have hrec := ih (pre ++ pre') k' v' post' (by rw [hk, hp', List.append_assoc]) (by simp [hpre])
        (by simp only [List.length_cons] at hshort; omega) f (by omega)
      rw [hrec]
      simp only [Option.map_some]
      congr 1
      have hh : hitsOf h ((k', v') :: post') = (hitsOf h ((k, v) :: post)).drop L := by rw [← hrest, hitsOf_afterHits]
      rw [hh, ← List.map_take, ← List.map_append, List.take_append_drop]

/-- **Complete, duplicate-free, in order — paging backward.**  With `reverse = true`, following `next_key`
from a first request without key returns exactly the matching entries, each once, in descending key order. -/
theorem walkKeysRev_complete (kvs : List (Bytes × α)) (h : Bytes → α → Bool) (L : Nat) (hs : Section kvs) (hL : 1 ≤ L)
    (hL' : L + 1 < two64) :
    walkKeysRev kvs (fun k v => some (h k v)) L (kvs.length + 2) [] = some ((hitsOf h kvs.reverse).map (·.2)) := by
  rw [show kvs.length + 2 = (kvs.length + 1) + 1 from rfl, walkKeysRev_succ, first_page_rev kvs h L hL hL']
  simp only []
  cases hd : (hitsOf h kvs.reverse).drop L with
  | nil =>
    have : ((hitsOf h kvs.reverse).map (·.2)).take L = (hitsOf h kvs.reverse).map (·.2) := by
      rw [← List.map_take]; congr 1
      have := List.take_append_drop L (hitsOf h kvs.reverse)
      rw [hd, List.append_nil] at this; exact this
    simp [← List.map_drop, hd, this]
  | cons e rest =>
    obtain ⟨k', v'⟩ := e
    obtain ⟨pre0, hp0⟩ := afterHits_suffix h L kvs.reverse
    obtain ⟨pre1, hp1⟩ := fromFirstHit_suffix h (afterHits h L kvs.reverse)
    have hhits : hitsOf h (fromFirstHit h (afterHits h L kvs.reverse)) = (k', v') :: rest := by
      rw [hitsOf_fromFirstHit, hitsOf_afterHits, hd]
    have hhead : (fromFirstHit h (afterHits h L kvs.reverse)).head? = some (k', v') := by
      rw [fromFirstHit_head, hitsOf_afterHits, hd]; rfl
    cases hf : fromFirstHit h (afterHits h L kvs.reverse) with
    | nil => rw [hf] at hhead; simp at hhead
    | cons e2 post =>
      rw [hf] at hhead hp1 hhits
      simp only [List.head?_cons, Option.some.injEq] at hhead
      subst hhead
      have hkvs : kvs.reverse = (pre0 ++ pre1) ++ (k', v') :: post := by rw [List.append_assoc, ← hp1, ← hp0]
      have hmem : (k', v') ∈ kvs := by
        have : (k', v') ∈ kvs.reverse := by rw [hkvs]; simp
        simpa using this
      have hk' : k' ≠ [] := hs.nonempty (k', v') hmem
      have hlen : post.length < kvs.length := by
        have := congrArg List.length hkvs
        simp at this; omega
      -- at least one entry has been consumed: the first page held `L ≥ 1` hits
      have hpre : pre0 ++ pre1 ≠ [] := by
        intro hnil
        have hp0nil : pre0 = [] := (List.append_eq_nil_iff.mp hnil).1
        rw [hp0nil, List.nil_append] at hp0
        have h1 : hitsOf h (afterHits h L kvs.reverse) = (hitsOf h kvs.reverse).drop L := hitsOf_afterHits h L kvs.reverse
        rw [← hp0] at h1
        have h2 := congrArg List.length h1
        rw [List.length_drop] at h2
        have h3 : 0 < (hitsOf h kvs.reverse).length := by
          have := congrArg List.length hd
          rw [List.length_drop] at this
          simp at this; omega
        omega
      simp only [← List.map_drop, hd, List.map_cons, List.head?_cons, Option.getD_some, hk', if_false]
      rw [walk_from_suffix_rev kvs h L hs hL kvs.length (pre0 ++ pre1) k' v' post hkvs hpre hlen (kvs.length + 1) (by omega), hhits]
      simp only [Option.map_some]
      congr 1
      rw [← hd, ← List.map_take, ← List.map_append, List.take_append_drop]

/-- a reverse request whose key is the key of the top entry makes the SDK call `Key()` on an exhausted
iterator: answered as an error (never produced by a walk, see above) -/
theorem key_page_rev_top (kvs : List (Bytes × α)) (pre : List (Bytes × α)) (k : Bytes) (v : α)
    (hit : Bytes → α → Option Bool) (L : Nat) (hs : Section (pre ++ [(k, v)])) :
    filtered (pre ++ [(k, v)]) { key := k, limit := L, reverse := true } hit = none := by
  have hk : k ≠ [] := hs.nonempty (k, v) (by simp)
  have hoff : ¬ ((0 : Nat) > 0 ∧ k ≠ []) := by simp
  simp only [filtered, if_false, hk, ne_eq, not_false_eq_true, if_true, iter, Bool.not_true, Bool.false_eq_true,
    filter_from_key pre k v [] hs.asc]
  split <;> rfl

end Paginate
end Mainchain
