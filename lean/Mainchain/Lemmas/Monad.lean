import Mainchain.Model.Types
/-
`Except`-monad rewriting lemmas for the linear `require` style of the model.
-/
namespace Mainchain

@[simp] theorem bind_eq_ok {α β : Type} (x : M α) (f : α → M β) (b : β) :
    (x >>= f) = .ok b ↔ ∃ a, x = .ok a ∧ f a = .ok b := by
  cases x with
  | error e => simp [bind, Except.bind]
  | ok a => simp [bind, Except.bind]

@[simp] theorem pure_eq_ok {α : Type} (a b : α) : (pure a : M α) = .ok b ↔ a = b := by
  simp [pure, Except.pure]

@[simp] theorem require_eq_ok (c : Bool) (e : Err) (u : Unit) : require c e = .ok u ↔ c = true := by
  cases c <;> simp [require]

@[simp] theorem decodeM_eq_ok (t : AddrTok) (a : Addr) : t.decodeM = .ok a ↔ t.decode = some a := by
  unfold AddrTok.decodeM
  cases h : t.decode <;> simp

theorem ok_ne_error {α : Type} (a : α) (e : Err) : (Except.ok a : M α) ≠ .error e := by
  intro h; cases h

/-- a property preserved by every step of a `foldlM` is preserved by the whole fold -/
theorem foldlM_preserves {σ α : Type} (P : σ → Prop) (f : σ → α → M σ) (xs : List α)
    (hstep : ∀ s a s', P s → f s a = .ok s' → P s') :
    ∀ s s', P s → xs.foldlM f s = .ok s' → P s' := by
  induction xs with
  | nil => intro s s' hp h; simp [List.foldlM] at h; subst h; exact hp
  | cons a as ih =>
    intro s s' hp h
    simp only [List.foldlM_cons, bind_eq_ok] at h
    obtain ⟨s1, h1, h2⟩ := h
    exact ih s1 s' (hstep s a s1 hp h1) h2

/-- relational version: a reflexive–transitive relation holding for every step holds for the fold -/
theorem foldlM_rel {σ α : Type} (R : σ → σ → Prop) (hrefl : ∀ s, R s s) (htrans : ∀ a b c, R a b → R b c → R a c)
    (f : σ → α → M σ) (xs : List α) (hstep : ∀ s a s', f s a = .ok s' → R s s') :
    ∀ s s', xs.foldlM f s = .ok s' → R s s' := by
  induction xs with
  | nil => intro s s' h; simp [List.foldlM] at h; subst h; exact hrefl s
  | cons a as ih =>
    intro s s' h
    simp only [List.foldlM_cons, bind_eq_ok] at h
    obtain ⟨s1, h1, h2⟩ := h
    exact htrans _ _ _ (hstep s a s1 h1) (ih s1 s' h2)

end Mainchain
