import Mainchain.Lemmas.BankFrame
/-
Σ over all accounts of the balance in a denomination equals the recorded supply: preserved by every
bank operation of the model.
-/
namespace Mainchain
open AL Bank

section filt
variable {κ : Type} [DecidableEq κ]

theorem find_filter (P : κ → Bool) (m : List (κ × Nat)) (x : κ) :
    find? (m.filter (fun e => P e.1)) x = if P x then find? m x else none := by
  induction m with
  | nil => simp [find?]
  | cons p m ih =>
    obtain ⟨k, v⟩ := p
    by_cases hk : k = x
    · subst hk
      by_cases hp : P k = true
      · simp [List.filter_cons, hp, find?]
      · have hp' : P k = false := by simpa using hp
        simp only [List.filter_cons, hp', Bool.false_eq_true, if_false, ih]
    · by_cases hp : P k = true
      · simp [List.filter_cons, hp, find?, hk, ih]
      · have hp' : P k = false := by simpa using hp
        simp only [List.filter_cons, hp', Bool.false_eq_true, if_false, ih, find?, hk]

theorem keys_filter_sub (P : κ → Bool) (m : List (κ × Nat)) : ∀ x ∈ keys (m.filter (fun e => P e.1)), x ∈ keys m := by
  intro x hx
  simp only [keys, List.mem_map] at hx ⊢
  obtain ⟨e, he, rfl⟩ := hx
  exact ⟨e, (List.mem_filter.mp he).1, rfl⟩

theorem nodup_filter (P : κ → Bool) (m : List (κ × Nat)) (h : NoDupKeys m) : NoDupKeys (m.filter (fun e => P e.1)) := by
  unfold NoDupKeys keys at *
  exact List.Nodup.sublist (List.Sublist.map _ (List.filter_sublist)) h

theorem filter_insert (P : κ → Bool) (m : List (κ × Nat)) (x : κ) (w : Nat) :
    (insert m x w).filter (fun e => P e.1) =
      if P x then insert (m.filter (fun e => P e.1)) x w else m.filter (fun e => P e.1) := by
  induction m with
  | nil => by_cases hp : P x = true <;> simp [AL.insert, List.filter_cons, hp]
  | cons p m ih =>
    obtain ⟨k, v⟩ := p
    by_cases hk : k = x
    · subst hk
      by_cases hp : P k = true
      · simp [AL.insert, List.filter_cons, hp]
      · have hp' : P k = false := by simpa using hp
        simp [AL.insert, List.filter_cons, hp']
    · by_cases hpk : P k = true
      · by_cases hp : P x = true
        · simp only [AL.insert, hk, if_false, List.filter_cons, hpk, if_true, ih, hp]
        · have hp' : P x = false := by simpa using hp
          simp only [AL.insert, hk, if_false, List.filter_cons, hpk, if_true, ih, hp', Bool.false_eq_true]
      · have hpk' : P k = false := by simpa using hpk
        simp only [AL.insert, hk, if_false, List.filter_cons, hpk', Bool.false_eq_true, ih]

theorem filter_erase (P : κ → Bool) (m : List (κ × Nat)) (x : κ) (h : NoDupKeys m) :
    (erase m x).filter (fun e => P e.1) =
      if P x then erase (m.filter (fun e => P e.1)) x else m.filter (fun e => P e.1) := by
  induction m with
  | nil => by_cases hp : P x = true <;> simp [AL.erase, hp]
  | cons p m ih =>
    obtain ⟨k, v⟩ := p
    simp only [NoDupKeys, keys, List.map_cons, List.nodup_cons] at h
    by_cases hk : k = x
    · subst hk
      by_cases hp : P k = true
      · simp [AL.erase, List.filter_cons, hp]
      · have hp' : P k = false := by simpa using hp
        simp [AL.erase, List.filter_cons, hp']
    · have ih' := ih h.2
      by_cases hpk : P k = true
      · by_cases hp : P x = true
        · simp only [AL.erase, hk, if_false, List.filter_cons, hpk, if_true, ih', hp]
        · have hp' : P x = false := by simpa using hp
          simp only [AL.erase, hk, if_false, List.filter_cons, hpk, if_true, ih', hp', Bool.false_eq_true]
      · have hpk' : P k = false := by simpa using hpk
        simp only [AL.erase, hk, if_false, List.filter_cons, hpk', Bool.false_eq_true, ih']

/-- the Σ over a key-filtered section after `setNat` -/
theorem sum_filter_setNat (P : κ → Bool) (m : List (κ × Nat)) (x : κ) (n : Nat) (h : NoDupKeys m) :
    (sumVals ((setNat m x n).filter (fun e => P e.1)) : Int) =
      sumVals (m.filter (fun e => P e.1)) + (if P x then (n : Int) - get m x else 0) := by
  have hget : get (m.filter (fun e => P e.1)) x = if P x then get m x else 0 := by
    unfold AL.get; rw [find_filter]; split <;> rfl
  unfold setNat
  split
  · rename_i h0
    subst h0
    rw [filter_erase P m x h]
    split
    · rename_i hp
      have := sum_erase (m.filter (fun e => P e.1)) x (nodup_filter P m h)
      rw [hget] at this; simp only [hp, if_true] at this
      omega
    · simp
  · rw [filter_insert P m x n]
    split
    · rename_i hp
      have := sum_insert (m.filter (fun e => P e.1)) x n
      rw [hget] at this; simp only [hp, if_true] at this
      omega
    · simp

end filt

namespace Bank

theorem totalOf_setBal (b : Bank) (hb : NoDupKeys b.bal) (a : Addr) (d : String) (n : Nat) (d' : String) :
    ((b.setBal a d n).totalOf d' : Int) = b.totalOf d' + (if d = d' then (n : Int) - b.balOf a d else 0) := by
  unfold totalOf setBal balOf
  have := sum_filter_setNat (fun (k : Addr × String) => decide (k.2 = d')) b.bal (a, d) n hb
  simp only [decide_eq_true_eq] at this
  exact this

end Bank

/-- the bank is balanced: Σ balances = supply in every denomination -/
def Balanced (b : Bank) : Prop := ∀ d, (b.totalOf d : Int) = b.supplyOf d

/-- the vesting arithmetic of the bank is sane at block time `t`: `LockedCoins` never reports a negative amount -/
def SaneAt (t : Int) (b : Bank) : Prop := ∀ a d, 0 ≤ Coins.amountOf (lockedCoins b t a) d

theorem saneAt_of_vest (t : Int) (b b' : Bank) (h : b'.vest = b.vest) (hs : SaneAt t b) : SaneAt t b' := by
  intro a d; rw [lockedCoins_vest_eq _ _ _ _ h]; exact hs a d

/-- same totals, same supply (and the vesting records untouched, so sanity carries over) -/
def SameTotals (t : Int) (b b' : Bank) : Prop :=
  BankInv b → SaneAt t b → BankInv b' ∧ SaneAt t b' ∧ (∀ d, b'.totalOf d = b.totalOf d) ∧ b'.supply = b.supply

theorem SameTotals.refl (t : Int) (b : Bank) : SameTotals t b b := fun h hs => ⟨h, hs, fun _ => rfl, rfl⟩
theorem SameTotals.trans {t : Int} {a b c : Bank} (h1 : SameTotals t a b) (h2 : SameTotals t b c) : SameTotals t a c := by
  intro ha hs
  obtain ⟨ib, sb, e1, s1⟩ := h1 ha hs
  obtain ⟨ic, sc, e2, s2⟩ := h2 ib sb
  exact ⟨ic, sc, fun d => (e2 d).trans (e1 d), s2.trans s1⟩

theorem coinsSum_one (c : Coin) (d : String) : coinsSum [c] d = if c.denom = d then c.amt else 0 := by
  simp [coinsSum]

/-- a total shifted by the coins of `cs` (sign `+1` / `-1`) -/
def ShiftTotals (sign : Int) (cs : Coins) (b b' : Bank) : Prop :=
  BankInv b → BankInv b' ∧ (∀ d, (b'.totalOf d : Int) = b.totalOf d + sign * coinsSum cs d) ∧ b'.supply = b.supply ∧ b'.vest = b.vest

theorem subUnlockedCoin_total (locked : Coins) (hlock : ∀ d, 0 ≤ Coins.amountOf locked d) (a : Addr) (b b' : Bank) (c : Coin)
    (hc : 0 < c.amt) (h : subUnlockedCoin locked a b c = .ok b') : ShiftTotals (-1) [c] b b' := by
  intro hb
  simp only [subUnlockedCoin, bind_eq_ok, pure_eq_ok, require_eq_ok, decide_eq_true_eq] at h
  obtain ⟨_, _, _, h2, rfl⟩ := h
  refine ⟨setBal_inv _ hb _ _ _, ?_, rfl, rfl⟩
  intro d
  rw [totalOf_setBal _ hb.nodupBal, coinsSum_one]
  have h0 : 0 ≤ (b.balOf a c.denom : Int) - c.amt := by
    have := hlock c.denom
    omega
  split
  · rw [Int.toNat_of_nonneg h0]; omega
  · omega

theorem takeCoin_total (a : Addr) (b b' : Bank) (c : Coin) (h : takeCoin a b c = .ok b') (hc : 0 < c.amt) :
    ShiftTotals (-1) [c] b b' := by
  intro hb
  simp only [takeCoin, bind_eq_ok, pure_eq_ok, require_eq_ok, decide_eq_true_eq] at h
  obtain ⟨_, h2, rfl⟩ := h
  refine ⟨setBal_inv _ hb _ _ _, ?_, rfl, rfl⟩
  intro d
  rw [totalOf_setBal _ hb.nodupBal, coinsSum_one]
  have h0 : 0 ≤ (b.balOf a c.denom : Int) - c.amt := by omega
  split
  · rw [Int.toNat_of_nonneg h0]; omega
  · omega

theorem addCoin_total (a : Addr) (b b' : Bank) (c : Coin) (hc : 0 < c.amt) (h : addCoin a b c = .ok b') :
    ShiftTotals 1 [c] b b' := by
  intro hb
  simp only [addCoin, bind_eq_ok, pure_eq_ok] at h
  obtain ⟨_, _, rfl⟩ := h
  refine ⟨setBal_inv _ hb _ _ _, ?_, rfl, rfl⟩
  intro d
  rw [totalOf_setBal _ hb.nodupBal, coinsSum_one]
  have h0 : 0 ≤ (b.balOf a c.denom : Int) + c.amt := by omega
  split
  · rw [Int.toNat_of_nonneg h0]; omega
  · omega

theorem coinsSum_cons (c : Coin) (cs : Coins) (d : String) : coinsSum (c :: cs) d = coinsSum [c] d + coinsSum cs d := by
  simp [coinsSum]

theorem fold_total (sign : Int) (f : Bank → Coin → M Bank) (cs : Coins) (hpos : ∀ c ∈ cs, 0 < c.amt)
    (hstep : ∀ b c b', 0 < c.amt → f b c = .ok b' → ShiftTotals sign [c] b b') :
    ∀ (b b' : Bank), cs.foldlM f b = .ok b' → ShiftTotals sign cs b b' := by
  induction cs with
  | nil =>
    intro b b' h hb
    simp [List.foldlM] at h; subst h
    exact ⟨hb, by simp [coinsSum], rfl, rfl⟩
  | cons c cs ih =>
    intro b b' h hb
    simp only [List.foldlM_cons, bind_eq_ok] at h
    obtain ⟨b1, h1, h2⟩ := h
    obtain ⟨i1, e1, s1, v1⟩ := hstep b c b1 (hpos c (by simp)) h1 hb
    obtain ⟨i2, e2, s2, v2⟩ := ih (fun x hx => hpos x (by simp [hx])) b1 b' h2 i1
    refine ⟨i2, ?_, s2.trans s1, v2.trans v1⟩
    intro d
    rw [e2 d, e1 d, coinsSum_cons c cs d, Int.mul_add]; omega

theorem ensureAccount_total (t : Int) (b : Bank) (x : Addr) : SameTotals t b (b.ensureAccount x) := by
  intro hb hs
  have hf := ensureAccount_frame b x
  exact ⟨⟨by rw [hf.1]; exact hb.nodupBal, by rw [hf.2.1]; exact hb.nodupSupply⟩, saneAt_of_vest t b _ hf.2.2 hs,
    fun d => by unfold totalOf; rw [hf.1], hf.2.1⟩

theorem sendCoins_total (t : Int) (b b' : Bank) (src dst : Addr) (amt : Coins) (h : b.sendCoins t src dst amt = .ok b') :
    SameTotals t b b' := by
  intro hb hsane
  simp only [sendCoins, subUnlocked, addCoins, bind_eq_ok, pure_eq_ok, require_eq_ok] at h
  obtain ⟨b1, ⟨_, hv, hs⟩, b2, ⟨_, _, ha⟩, rfl⟩ := h
  have hpos := allPos_of_valid amt hv
  obtain ⟨i1, e1, s1, v1⟩ := fold_total (-1) _ amt hpos (fun x c y hc hy => subUnlockedCoin_total _ (hsane src) src x y c hc hy) b b1 hs hb
  obtain ⟨i2, e2, s2, v2⟩ := fold_total 1 _ amt hpos (fun x c y hc hy => addCoin_total dst x y c hc hy) b1 b2 ha i1
  have hsane2 : SaneAt t b2 := saneAt_of_vest t b b2 (v2.trans v1) hsane
  obtain ⟨i3, hs3, e3, s3⟩ := ensureAccount_total t b2 dst i2 hsane2
  refine ⟨i3, hs3, ?_, by rw [s3, s2, s1]⟩
  intro d
  have := e2 d; have := e1 d; have := e3 d
  omega

theorem sameTotals_rel (t : Int) : BankRel (SameTotals t) (fun _ => True) t :=
  ⟨SameTotals.refl t, fun _ _ _ h1 h2 => h1.trans h2, fun b b' src dst amt _ _ h => sendCoins_total t b b' src dst amt h,
   fun b x => ensureAccount_total t b x⟩

theorem trackDelegation_totals (b : Bank) (now : Int) (a : Addr) (amt : Coins) :
    (b.trackDelegation now a amt).totalOf = b.totalOf := by
  funext d; unfold totalOf; rw [(trackDelegation_frame b now a amt).1]

theorem trackUndelegation_totals (b : Bank) (a : Addr) (amt : Coins) :
    (b.trackUndelegation a amt).totalOf = b.totalOf := by
  funext d; unfold totalOf; rw [(trackUndelegation_frame b a amt).1]

theorem delegate_total (b b' : Bank) (now : Int) (a m : Addr) (amt : Coins) (hb : BankInv b) (h : b.delegate now a m amt = .ok b') :
    BankInv b' ∧ (∀ d, b'.totalOf d = b.totalOf d) ∧ b'.supply = b.supply := by
  simp only [delegate, addCoins, bind_eq_ok, require_eq_ok] at h
  obtain ⟨_, hv, b1, h1, _, _, h2⟩ := h
  have hpos := allPos_of_valid amt hv
  obtain ⟨i1, e1, s1, _⟩ := fold_total (-1) _ amt hpos (fun x c y hc hy => takeCoin_total a x y c hy hc) b b1 h1 hb
  have hf := trackDelegation_frame b1 now a amt
  have i1' : BankInv (b1.trackDelegation now a amt) := ⟨by rw [hf.1]; exact i1.nodupBal, by rw [hf.2.1]; exact i1.nodupSupply⟩
  obtain ⟨i2, e2, s2, _⟩ := fold_total 1 _ amt hpos (fun x c y hc hy => addCoin_total m x y c hc hy) _ b' h2 i1'
  refine ⟨i2, ?_, by rw [s2, hf.2.1, s1]⟩
  intro d
  have := e2 d; have := e1 d
  rw [trackDelegation_totals] at *
  omega

theorem undelegate_total (b b' : Bank) (now : Int) (m a : Addr) (amt : Coins) (hb : BankInv b)
    (hlock : ∀ d, 0 ≤ Coins.amountOf (lockedCoins b now m) d) (h : b.undelegate now m a amt = .ok b') :
    BankInv b' ∧ (∀ d, b'.totalOf d = b.totalOf d) ∧ b'.supply = b.supply := by
  simp only [undelegate, subUnlocked, addCoins, bind_eq_ok, require_eq_ok] at h
  obtain ⟨_, hv, b1, ⟨_, _, h1⟩, _, _, h2⟩ := h
  have hpos := allPos_of_valid amt hv
  obtain ⟨i1, e1, s1, _⟩ := fold_total (-1) _ amt hpos (fun x c y hc hy => subUnlockedCoin_total _ hlock m x y c hc hy) b b1 h1 hb
  have hf := trackUndelegation_frame b1 a amt
  have i1' : BankInv (b1.trackUndelegation a amt) := ⟨by rw [hf.1]; exact i1.nodupBal, by rw [hf.2.1]; exact i1.nodupSupply⟩
  obtain ⟨i2, e2, s2, _⟩ := fold_total 1 _ amt hpos (fun x c y hc hy => addCoin_total a x y c hc hy) _ b' h2 i1'
  refine ⟨i2, ?_, by rw [s2, hf.2.1, s1]⟩
  intro d
  have := e2 d; have := e1 d
  rw [trackUndelegation_totals] at *
  omega

/-- `MintCoins` keeps the bank balanced: totals and supply grow by the same coins -/
theorem mint_balanced (b b' : Bank) (m : Addr) (amt : Coins) (hb : BankInv b) (hbal : Balanced b) (h : b.mint m amt = .ok b') :
    Balanced b' := by
  obtain ⟨_, _, _, hsup⟩ := mint_spec b b' m amt hb h
  simp only [mint, addCoins, bind_eq_ok, require_eq_ok] at h
  obtain ⟨b1, ⟨_, hv, h1⟩, h2⟩ := h
  have hpos := allPos_of_valid amt hv
  obtain ⟨i1, e1, _, _⟩ := fold_total 1 _ amt hpos (fun x c y hc hy => addCoin_total m x y c hc hy) b b1 h1 hb
  obtain ⟨_, bl2, _, _, _⟩ := fold_supply_spec amt hpos b1 b' i1 h2
  intro d
  have ht : b'.totalOf d = b1.totalOf d := by unfold totalOf; rw [bl2]
  rw [ht, e1 d, hsup d, hbal d]; omega

theorem balanced_of_totals (b b' : Bank) (hbal : Balanced b) (e : ∀ d, b'.totalOf d = b.totalOf d) (s : b'.supply = b.supply) :
    Balanced b' := by
  intro d
  rw [e d]; unfold supplyOf; rw [s]; exact hbal d

/-- every elementary step keeps the bank balanced -/
theorem balanced_step (s s' : State) (hq : BankSane s) (hstr : StreamInv (toSB s)) (hbal : Balanced s.bank) (h : FineStep s s') :
    Balanced s'.bank := by
  have hsane : SaneAt s.nowSec s.bank := hq
  cases h with
  | leaf wall m r hl _ hsig hx =>
    obtain ⟨_, _, e, su⟩ := leaf_bank_rel (SameTotals s.nowSec) (fun _ => True) s (sameTotals_rel _) trivial trivial
      (fun _ _ => trivial) (fun _ _ => trivial) wall s' m r hl hsig hx hstr.bank hsane
    exact balanced_of_totals _ _ hbal e su
  | ante tx hu hg hx =>
    cases hx with
    | none hs => subst hs; exact hbal
    | unlock payer x _ _ _ hx hs =>
      subst hs
      rcases unlockForFees_bank _ _ _ _ _ hx with he | ⟨amt, hund⟩
      · show Balanced x.bank; rw [he]; exact hbal
      · obtain ⟨_, e, su⟩ := undelegate_total s.bank x.bank _ Ment payer amt hstr.bank
          (locked_nonvesting _ _ Ment (hstr.modNoVest Ment (by decide))) hund
        exact balanced_of_totals _ _ hbal e su
    | deduct payer src b _ _ hx hs =>
      subst hs
      obtain ⟨_, _, e, su⟩ := sendCoins_total s.nowSec s.bank b src Mfee tx.fee hx hstr.bank hsane
      exact balanced_of_totals _ _ hbal e su
  | time t _ hs => subst hs; exact hbal
  | complete id x hx hs =>
    subst hs
    rcases completeOne_bank _ _ _ _ hx with he | ⟨r, c, _, b1, b2, h1, h2, h3⟩
    · show Balanced x.bank; rw [he]; exact hbal
    · obtain ⟨i1, v1, _, _⟩ := mint_spec s.bank b1 Ment [c] hstr.bank h1
      have hb1 := mint_balanced s.bank b1 Ment [c] hstr.bank hbal h1
      obtain ⟨i2, _, e2, s2⟩ := sendCoins_total s.nowSec b1 b2 Ment r [c] h2 i1 (saneAt_of_vest _ _ _ v1 hsane)
      have hb2 := balanced_of_totals _ _ hb1 e2 s2
      obtain ⟨_, e3, s3⟩ := delegate_total b2 x.bank _ r Ment [c] i2 h3
      exact balanced_of_totals _ _ hb2 e3 s3
  | tally id e _ hs => subst hs; exact hbal

/-- every balance is at most the supply of its denomination in a balanced bank -/
theorem balOf_le_total (b : Bank) (hb : NoDupKeys b.bal) (a : Addr) (d : String) : b.balOf a d ≤ b.totalOf d := by
  unfold balOf totalOf
  have hf : AL.get (b.bal.filter (fun e => decide (e.1.2 = d))) (a, d) = AL.get b.bal (a, d) := by
    unfold AL.get
    rw [find_filter (fun (k : Addr × String) => decide (k.2 = d)) b.bal (a, d)]
    simp
  have := sum_erase (b.bal.filter (fun e => decide (e.1.2 = d))) (a, d) (nodup_filter (fun (k : Addr × String) => decide (k.2 = d)) b.bal hb)
  rw [hf] at this
  omega

end Mainchain
