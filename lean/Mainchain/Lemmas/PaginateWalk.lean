import Mainchain.Lemmas.Paginate
/-
A client that pages through a store section — by key (following `next_key`) or by offset — sees every
matching entry exactly once, in store order.
-/
namespace Mainchain
namespace Paginate
open Keys

variable {α : Type}

/-- paging forward by key: the first request carries no key, every further one the `next_key` of the
previous answer; `L` is the page limit; the result is the concatenation of the pages -/
def walkKeys (kvs : List (Bytes × α)) (hit : Bytes → α → Option Bool) (L : Nat) : Nat → Bytes → Option (List α)
  | 0, _ => none
  | f + 1, key =>
    match filtered kvs { key := key, limit := L } hit with
    | none => none
    | some r => if r.next = [] then some r.items else (walkKeys kvs hit L f r.next).map (r.items ++ ·)

theorem walkKeys_succ (kvs : List (Bytes × α)) (hit : Bytes → α → Option Bool) (L f : Nat) (key : Bytes) :
    walkKeys kvs hit L (f + 1) key =
      match filtered kvs { key := key, limit := L } hit with
      | none => none
      | some r => if r.next = [] then some r.items else (walkKeys kvs hit L f r.next).map (r.items ++ ·) := rfl

theorem addU64_zero_left (L : Nat) (h : L < two64) : addU64 0 L = L := by
  unfold addU64 wrapU64; simp [Nat.mod_eq_of_lt h]

/-- first page (offset branch, offset 0) -/
theorem first_page (kvs : List (Bytes × α)) (h : Bytes → α → Bool) (L : Nat) (hL : 1 ≤ L) (hL' : L + 1 < two64) :
    filtered kvs { key := [], limit := L } (fun k v => some (h k v)) =
      some { items := ((hitsOf h kvs).map (·.2)).take L,
             next := ((((hitsOf h kvs).map (·.1)).drop L).head?).getD [], total := 0 } := by
  have hne : ¬ (L = 0) := by omega
  simp only [filtered, hne, if_false, iter, Bool.not_false, if_true, ne_eq, not_true_eq_false, and_false,
    Nat.lt_irrefl, false_and]
  rw [addU64_zero_left L (by omega), offLoop_spec h 0 L hL' kvs 0 [] (Nat.zero_le _)]
  simp

/-- a later page (key branch) : the request key is the key of an entry of the section -/
theorem key_page (pre : List (Bytes × α)) (k : Bytes) (v : α) (post : List (Bytes × α)) (h : Bytes → α → Bool) (L : Nat)
    (hs : Section (pre ++ (k, v) :: post)) (hL : 1 ≤ L) :
    filtered (pre ++ (k, v) :: post) { key := k, limit := L } (fun k v => some (h k v)) =
      some { items := ((hitsOf h ((k, v) :: post)).map (·.2)).take L,
             next := (((afterHits h L ((k, v) :: post)).map (·.1)).head?).getD [], total := 0 } := by
  have hk : k ≠ [] := hs.nonempty (k, v) (by simp)
  have hne : ¬ (L = 0) := by omega
  have hoff : ¬ ((0 : Nat) > 0 ∧ k ≠ []) := by simp
  simp only [filtered, hoff, hne, if_false, hk, ne_eq, not_false_eq_true, if_true, iter, Bool.not_false]
  rw [filter_from_key pre k v post hs.asc, keyLoop_spec h L _ 0 [] (Nat.zero_le _)]
  simp

theorem walk_from_suffix (kvs : List (Bytes × α)) (h : Bytes → α → Bool) (L : Nat) (hs : Section kvs) (hL : 1 ≤ L) :
    ∀ (n : Nat) (pre : List (Bytes × α)) (k : Bytes) (v : α) (post : List (Bytes × α)),
      kvs = pre ++ (k, v) :: post → post.length < n → ∀ fuel, n ≤ fuel →
      walkKeys kvs (fun k v => some (h k v)) L fuel k = some ((hitsOf h ((k, v) :: post)).map (·.2)) := by
  intro n
  induction n with
  | zero => intro pre k v post _ hlen; omega
  | succ n ih =>
    intro pre k v post hk hlen fuel hfuel
    obtain ⟨f, rfl⟩ : ∃ f, fuel = f + 1 := ⟨fuel - 1, by omega⟩
    subst hk
    rw [walkKeys_succ, key_page pre k v post h L hs hL]
    simp only []
    -- the remaining suffix
    cases hrest : afterHits h L ((k, v) :: post) with
    | nil =>
      have hd : (hitsOf h ((k, v) :: post)).drop L = [] := by rw [← hitsOf_afterHits, hrest]; rfl
      have : ((hitsOf h ((k, v) :: post)).map (·.2)).take L = (hitsOf h ((k, v) :: post)).map (·.2) := by
        rw [← List.map_take]
        congr 1
        have := List.take_append_drop L (hitsOf h ((k, v) :: post))
        rw [hd, List.append_nil] at this; exact this
      simp [this]
    | cons e post' =>
      obtain ⟨k', v'⟩ := e
      obtain ⟨pre', hp'⟩ := afterHits_suffix h L ((k, v) :: post)
      rw [hrest] at hp'
      have hk' : k' ≠ [] := hs.nonempty (k', v') (by rw [hp']; simp)
      have hshort : ((k', v') :: post').length < ((k, v) :: post).length := by
        have := afterHits_length_lt h (L - 1) (k, v) post
        have hL1 : L - 1 + 1 = L := by omega
        rw [hL1, hrest] at this; exact this
      simp only [List.map_cons, List.head?_cons, Option.getD_some, hk', if_false]
      have hrec := ih (pre ++ pre') k' v' post' (by rw [hp', List.append_assoc]) (by simp only [List.length_cons] at hshort; omega)
        f (by omega)
      rw [hrec]
      simp only [Option.map_some]
      congr 1
      have hh : hitsOf h ((k', v') :: post') = (hitsOf h ((k, v) :: post)).drop L := by rw [← hrest, hitsOf_afterHits]
      rw [hh, ← List.map_take, ← List.map_append, List.take_append_drop]

/-- **Complete, duplicate-free, in order (key-based continuation).**  For every store section, filter,
and page limit `1 ≤ L < 2^64`, following `next_key` from a first request without key returns — as the
concatenation of the pages — exactly the entries of the section that match the filter, each once, in
store order. -/
theorem walkKeys_complete (kvs : List (Bytes × α)) (h : Bytes → α → Bool) (L : Nat) (hs : Section kvs) (hL : 1 ≤ L)
    (hL' : L + 1 < two64) :
    walkKeys kvs (fun k v => some (h k v)) L (kvs.length + 2) [] = some ((hitsOf h kvs).map (·.2)) := by
  rw [show kvs.length + 2 = (kvs.length + 1) + 1 from rfl, walkKeys_succ, first_page kvs h L hL hL']
  simp only []
  cases hd : (hitsOf h kvs).drop L with
  | nil =>
    have : ((hitsOf h kvs).map (·.2)).take L = (hitsOf h kvs).map (·.2) := by
      rw [← List.map_take]; congr 1
      have := List.take_append_drop L (hitsOf h kvs)
      rw [hd, List.append_nil] at this; exact this
    simp [← List.map_drop, hd, this]
  | cons e rest =>
    obtain ⟨k', v'⟩ := e
    -- the suffix that starts at hit number L
    have hsuf0 := afterHits_suffix h L kvs
    obtain ⟨pre0, hp0⟩ := hsuf0
    obtain ⟨pre1, hp1⟩ := fromFirstHit_suffix h (afterHits h L kvs)
    have hhits : hitsOf h (fromFirstHit h (afterHits h L kvs)) = (k', v') :: rest := by
      rw [hitsOf_fromFirstHit, hitsOf_afterHits, hd]
    have hhead : (fromFirstHit h (afterHits h L kvs)).head? = some (k', v') := by
      rw [fromFirstHit_head, hitsOf_afterHits, hd]; rfl
    cases hf : fromFirstHit h (afterHits h L kvs) with
    | nil => rw [hf] at hhead; simp at hhead
    | cons e2 post =>
      rw [hf] at hhead hp1 hhits
      simp only [List.head?_cons, Option.some.injEq] at hhead
      subst hhead
      have hkvs : kvs = (pre0 ++ pre1) ++ (k', v') :: post := by rw [List.append_assoc, ← hp1, ← hp0]
      have hk' : k' ≠ [] := hs.nonempty (k', v') (by rw [hkvs]; simp)
      have hlen : post.length < kvs.length := by rw [hkvs]; simp; omega
      simp only [← List.map_drop, hd, List.map_cons, List.head?_cons, Option.getD_some, hk', if_false]
      rw [walk_from_suffix kvs h L hs hL kvs.length (pre0 ++ pre1) k' v' post hkvs hlen (kvs.length + 1) (by omega), hhits]
      simp only [Option.map_some]
      congr 1
      rw [← hd, ← List.map_take, ← List.map_append, List.take_append_drop]

/-- **Offset-based continuation.**  The page at offset `o` with limit `L` is exactly the matching entries
number `o … o+L-1`; consecutive pages `o = 0, L, 2L, …` therefore partition the matching entries. -/
theorem offset_page (kvs : List (Bytes × α)) (h : Bytes → α → Bool) (o L : Nat) (hL : 1 ≤ L) (hfit : o + L + 1 < two64) :
    (filtered kvs { offset := o, limit := L } (fun k v => some (h k v))).map (·.items) =
      some ((((hitsOf h kvs).map (·.2)).drop o).take L) := by
  have hne : ¬ (L = 0) := by omega
  have hadd : addU64 o L = o + L := by unfold addU64 wrapU64; exact Nat.mod_eq_of_lt (by omega)
  simp only [filtered, hne, if_false, iter, Bool.not_false, if_true, ne_eq, not_true_eq_false, and_false]
  rw [hadd, offLoop_spec h o (o + L) hfit kvs 0 [] (Nat.zero_le _)]
  have e1 : o + L - max 0 o = L := by omega
  simp [e1]

end Paginate
end Mainchain
