import Mainchain.Lemmas.EntFrame
import Mainchain.Lemmas.AList
/-
The purchase-order book of x/enterprise: invariants of orders, queues and decisions, preserved by
every elementary step, and the life-cycle relation between the order book of two states.
-/
namespace Mainchain
open AL

/-! ### how an elementary step can change the enterprise state -/

inductive EntStep (s : State) (e' : EntState) : Prop where
  | same (h : e' = s.ent)
  | op (h : EntOp s.nowSecU s.ent e')
  | unlock (x : EB) (payer : Addr) (fees : Coins)
      (h : EB.unlockForFees { ent := s.ent, bank := s.bank } s.nowSec payer fees = .ok x) (he : e' = x.ent)
  | complete (id : Nat) (x : EB)
      (h : EB.completeOne { ent := s.ent, bank := s.bank } s.nowSec isBlocked id = .ok x) (he : e' = x.ent)
  | tally (id : Nat) (h : s.ent.tallyOne s.nowSecU id = .ok e')

theorem setReg_ent (s : State) (k : RegKind) (r : RegState) : (s.setReg k r).ent = s.ent := by cases k <;> rfl

theorem fineStep_ent (s s' : State) (h : FineStep s s') : EntStep s s'.ent := by
  cases h with
  | leaf wall m r hl _ _ h =>
    have h := leaf_step wall s s' m r hl h
    cases h with
    | ent e hop hs => subst hs; exact .op hop
    | reg k r _ hs => subst hs; exact .same (setReg_ent _ _ _)
    | str x _ hs => subst hs; exact .same rfl
    | strParams fee _ hs => subst hs; exact .same rfl
    | send a b coins bank _ _ hs => subst hs; exact .same rfl
    | authz ea g hs => subst hs; exact .same rfl
    | feegrant ea al hs => subst hs; exact .same rfl
    | revoke g hs => subst hs; exact .same rfl
  | ante tx _ _ h =>
    cases h with
    | none hs => subst hs; exact .same rfl
    | unlock payer x _ _ _ hx hs => subst hs; exact .unlock x payer tx.fee hx rfl
    | deduct _ _ _ _ _ _ hs => subst hs; exact .same rfl
  | time t _ hs => subst hs; exact .same rfl
  | complete id x hx hs => subst hs; exact .complete id x hx rfl
  | tally id e he hs => subst hs; exact .tally id he

/-! ### sorted-queue helpers -/

theorem mem_insertSortedNat (x y : Nat) (l : List Nat) : x ∈ EntState.insertSortedNat y l ↔ x = y ∨ x ∈ l := by
  induction l with
  | nil => simp [EntState.insertSortedNat]
  | cons z zs ih =>
    simp only [EntState.insertSortedNat]
    split
    · simp
    · split
      · rename_i _ he; subst he; simp
      · simp only [List.mem_cons, ih]
        constructor
        · rintro (h | h | h)
          · exact Or.inr (Or.inl h)
          · exact Or.inl h
          · exact Or.inr (Or.inr h)
        · rintro (h | h | h)
          · exact Or.inr (Or.inl h)
          · exact Or.inl h
          · exact Or.inr (Or.inr h)

/-- strictly ascending -/
def Asc (l : List Nat) : Prop := l.Pairwise (· < ·)

theorem asc_insertSortedNat (y : Nat) (l : List Nat) (h : Asc l) : Asc (EntState.insertSortedNat y l) := by
  unfold Asc at *
  induction l with
  | nil => simp [EntState.insertSortedNat]
  | cons z zs ih =>
    simp only [EntState.insertSortedNat]
    have hz := List.pairwise_cons.mp h
    split
    · rename_i hlt
      refine List.pairwise_cons.mpr ⟨?_, h⟩
      intro a ha
      rcases List.mem_cons.mp ha with he | hm
      · omega
      · have := hz.1 a hm; omega
    · split
      · exact h
      · refine List.pairwise_cons.mpr ⟨?_, ih hz.2⟩
        intro a ha
        rcases (mem_insertSortedNat a y zs).mp ha with he | hm
        · omega
        · exact hz.1 a hm

theorem asc_filter (p : Nat → Bool) (l : List Nat) (h : Asc l) : Asc (l.filter p) := List.Pairwise.filter p h

theorem asc_nodup (l : List Nat) (h : Asc l) : l.Nodup :=
  List.Pairwise.imp (fun hab => Nat.ne_of_lt hab) h

/-! ### the order-book invariant -/

def Decision.ok (d : Decision) : Prop := (∃ a, d.signer = AddrTok.canon a) ∧ validAcceptReject d.decision = true

structure BookInv (e : EntState) : Prop where
  nodup : NoDupKeys e.orders
  idKey : ∀ id po, find? e.orders id = some po → po.id = id
  fresh : ∀ id po, find? e.orders id = some po → id < e.nextId
  status : ∀ id po, find? e.orders id = some po → validPoStatus po.status = true
  rq : ∀ id, id ∈ e.raisedQ ↔ ∃ po, find? e.orders id = some po ∧ po.status = stRaised
  aq : ∀ id, id ∈ e.acceptedQ ↔ ∃ po, find? e.orders id = some po ∧ po.status = stAccepted
  rqAsc : Asc e.raisedQ
  aqAsc : Asc e.acceptedQ
  decs : ∀ id po, find? e.orders id = some po →
    (po.decisions.map (fun d => d.signer.decode)).Nodup ∧ ∀ d ∈ po.decisions, d.ok
  purchaser : ∀ id po, find? e.orders id = some po → ∃ a, po.purchaser.decode = some a
  amtPos : ∀ id po, find? e.orders id = some po → 0 < po.amt

/-- the part of the enterprise state the book invariant talks about -/
theorem bookInv_of_eq (e e' : EntState) (hi : BookInv e) (ho : e'.orders = e.orders) (hn : e'.nextId = e.nextId)
    (hr : e'.raisedQ = e.raisedQ) (ha : e'.acceptedQ = e.acceptedQ) : BookInv e' :=
  ⟨ho ▸ hi.nodup, fun id po h => hi.idKey id po (ho ▸ h), fun id po h => hn ▸ hi.fresh id po (ho ▸ h),
   fun id po h => hi.status id po (ho ▸ h), fun id => by rw [hr, ho]; exact hi.rq id, fun id => by rw [ha, ho]; exact hi.aq id,
   hr ▸ hi.rqAsc, ha ▸ hi.aqAsc, fun id po h => hi.decs id po (ho ▸ h), fun id po h => hi.purchaser id po (ho ▸ h),
   fun id po h => hi.amtPos id po (ho ▸ h)⟩

theorem bookInv_of_book (e e' : EntState) (hi : BookInv e) (h : e'.book = e.book) : BookInv e' := by
  simp only [EntState.book, Prod.mk.injEq] at h
  exact bookInv_of_eq e e' hi h.2.2.1 h.2.1 h.2.2.2.1 h.2.2.2.2.1

/-- replacing the record of an existing order by one with the same identity -/
theorem bookInv_update (e : EntState) (hi : BookInv e) (id : Nat) (po po' : PO) (rq aq : List Nat)
    (hf : find? e.orders id = some po) (hid : po'.id = po.id) (hst : validPoStatus po'.status = true)
    (hrq : ∀ x, x ∈ rq ↔ (x ≠ id ∧ x ∈ e.raisedQ) ∨ (x = id ∧ po'.status = stRaised))
    (haq : ∀ x, x ∈ aq ↔ (x ≠ id ∧ x ∈ e.acceptedQ) ∨ (x = id ∧ po'.status = stAccepted))
    (hra : Asc rq) (haa : Asc aq)
    (hd : (po'.decisions.map (fun d => d.signer.decode)).Nodup ∧ ∀ d ∈ po'.decisions, d.ok)
    (hp : po'.purchaser = po.purchaser) (ha : po'.amt = po.amt) :
    BookInv { e with orders := insert e.orders id po', raisedQ := rq, acceptedQ := aq } := by
  refine ⟨nodup_insert _ _ _ hi.nodup, ?_, ?_, ?_, ?_, ?_, hra, haa, ?_, ?_, ?_⟩
  · intro x p hx
    simp only [find_insert] at hx
    split at hx
    · rename_i he; cases hx; subst he; rw [hid]; exact hi.idKey _ _ hf
    · exact hi.idKey x p hx
  · intro x p hx
    simp only [find_insert] at hx
    split at hx
    · rename_i he; subst he; exact hi.fresh _ _ hf
    · exact hi.fresh x p hx
  · intro x p hx
    simp only [find_insert] at hx
    split at hx
    · cases hx; exact hst
    · exact hi.status x p hx
  · intro x
    simp only [hrq, find_insert]
    by_cases hx : id = x
    · subst hx; simp
    · have hx' : x ≠ id := fun h => hx h.symm
      simp [hx, hx', hi.rq x]
  · intro x
    simp only [haq, find_insert]
    by_cases hx : id = x
    · subst hx; simp
    · have hx' : x ≠ id := fun h => hx h.symm
      simp [hx, hx', hi.aq x]
  · intro x p hx
    simp only [find_insert] at hx
    split at hx
    · cases hx; exact hd
    · exact hi.decs x p hx
  · intro x p hx
    simp only [find_insert] at hx
    split at hx
    · cases hx; rw [hp]; exact hi.purchaser _ _ hf
    · exact hi.purchaser x p hx
  · intro x p hx
    simp only [find_insert] at hx
    split at hx
    · cases hx; rw [ha]; exact hi.amtPos _ _ hf
    · exact hi.amtPos x p hx


theorem find_fresh_none (e : EntState) (hi : BookInv e) : find? e.orders e.nextId = none := by
  cases h : find? e.orders e.nextId with
  | none => rfl
  | some po => exact absurd (hi.fresh _ _ h) (Nat.lt_irrefl _)

theorem raise_book (e e' : EntState) (now : Nat) (p : AddrTok) (denom : String) (amt : Int) (id : Nat)
    (hi : BookInv e) (hq : e.nextId + 1 < two64) (h : e.raise now p denom amt = .ok (e', id)) : BookInv e' := by
  simp only [EntState.raise, bind_eq_ok, pure_eq_ok, Prod.mk.injEq, require_eq_ok, decide_eq_true_eq, decodeM_eq_ok] at h
  obtain ⟨acc, hacc, _, _, _, hamt, _, _, rfl, rfl⟩ := h
  have hnone := find_fresh_none e hi
  have hadd : addU64 e.nextId 1 = e.nextId + 1 := by unfold addU64 wrapU64; exact Nat.mod_eq_of_lt hq
  refine ⟨nodup_insert _ _ _ hi.nodup, ?_, ?_, ?_, ?_, ?_, asc_insertSortedNat _ _ hi.rqAsc, hi.aqAsc, ?_, ?_, ?_⟩
  · intro x q hx
    simp only [find_insert] at hx
    split at hx
    · rename_i he; cases hx; exact he
    · exact hi.idKey x q hx
  · intro x q hx
    simp only [find_insert] at hx
    show x < addU64 e.nextId 1
    rw [hadd]
    split at hx
    · rename_i he; subst he; omega
    · have := hi.fresh x q hx; omega
  · intro x q hx
    simp only [find_insert] at hx
    split at hx
    · cases hx; rfl
    · exact hi.status x q hx
  · intro x
    simp only [mem_insertSortedNat, find_insert]
    by_cases hx : e.nextId = x
    · subst hx; simp
    · have hx' : x ≠ e.nextId := fun h => hx h.symm
      simp [hx, hx', hi.rq x]
  · intro x
    simp only [find_insert]
    by_cases hx : e.nextId = x
    · subst hx
      simp only [if_true, Option.some.injEq, exists_eq_left']
      constructor
      · intro hm
        obtain ⟨q, hq', _⟩ := (hi.aq _).mp hm
        rw [hnone] at hq'; cases hq'
      · intro hc; exact absurd hc (by decide)
    · simp [hx, hi.aq x]
  · intro x q hx
    simp only [find_insert] at hx
    split at hx
    · cases hx; simp
    · exact hi.decs x q hx
  · intro x q hx
    simp only [find_insert] at hx
    split at hx
    · cases hx; exact ⟨acc, hacc⟩
    · exact hi.purchaser x q hx
  · intro x q hx
    simp only [find_insert] at hx
    split at hx
    · cases hx; exact hamt
    · exact hi.amtPos x q hx

theorem findOrder_ok (e : EntState) (id : Nat) (po : PO) (h : e.findOrder id = .ok po) : find? e.orders id = some po := by
  unfold EntState.findOrder at h
  split at h
  · rename_i q hq; cases h; exact hq
  · cases h

theorem decide_book (e e' : EntState) (now : Nat) (poId dec : Nat) (sg : AddrTok)
    (hi : BookInv e) (h : e.decide_ now poId dec sg = .ok e') : BookInv e' := by
  simp only [EntState.decide_, bind_eq_ok, pure_eq_ok, require_eq_ok, decide_eq_true_eq, decodeM_eq_ok] at h
  obtain ⟨signer, hsg, _, _, po, hpo, _, hdec, _, _, _, hst, _, hnot, rfl⟩ := h
  have hf := findOrder_ok e poId po hpo
  have hd := hi.decs poId po hf
  refine bookInv_update e hi poId po _ e.raisedQ e.acceptedQ hf rfl (by simpa using hi.status poId po hf) ?_ ?_ hi.rqAsc hi.aqAsc ?_ rfl rfl
  · intro x
    by_cases hx : x = poId
    · subst hx; simp only [ne_eq, not_true_eq_false, false_and, true_and, false_or]
      exact ⟨fun _ => hst, fun _ => (hi.rq x).mpr ⟨po, hf, hst⟩⟩
    · simp [hx]
  · intro x
    by_cases hx : x = poId
    · subst hx; simp only [ne_eq, not_true_eq_false, false_and, true_and, false_or]
      constructor
      · intro hm
        obtain ⟨q, hq', hs⟩ := (hi.aq _).mp hm
        rw [hf] at hq'; cases hq'; exact hs
      · intro hs; exact (hi.aq x).mpr ⟨po, hf, hs⟩
    · simp [hx]
  · constructor
    · simp only [List.map_append, List.map_cons, List.map_nil, AddrTok.canon, AddrTok.decode]
      refine List.nodup_append.mpr ⟨hd.1, by simp, ?_⟩
      intro a ha b hb
      simp only [List.mem_singleton] at hb
      subst hb
      intro hc
      subst hc
      obtain ⟨d, hdm, hdd⟩ := List.mem_map.mp ha
      simp only [EntState.alreadyDecided, Bool.not_eq_true', List.any_eq_false, Bool.or_eq_true, decide_eq_true_eq,
        not_or] at hnot
      exact (hnot d hdm).2 hdd
    · intro d hdm
      rcases List.mem_append.mp hdm with h1 | h1
      · exact hd.2 d h1
      · simp only [List.mem_singleton] at h1
        subst h1
        exact ⟨⟨signer, rfl⟩, hdec⟩

theorem whitelist_book (e e' : EntState) (action : Nat) (a sg : AddrTok) (hi : BookInv e)
    (h : e.whitelistMsg action a sg = .ok e') : BookInv e' := by
  simp only [EntState.whitelistMsg, bind_eq_ok] at h
  obtain ⟨_, _, _, _, _, _, _, _, h⟩ := h
  split at h
  · simp only [bind_eq_ok, pure_eq_ok] at h; obtain ⟨_, _, rfl⟩ := h; exact bookInv_of_eq _ _ hi rfl rfl rfl rfl
  · simp only [bind_eq_ok, pure_eq_ok] at h; obtain ⟨_, _, rfl⟩ := h; exact bookInv_of_eq _ _ hi rfl rfl rfl rfl

theorem setParams_book (e e' : EntState) (p : EntParams) (hi : BookInv e) (h : e.setParams p = .ok e') : BookInv e' := by
  simp only [EntState.setParams, bind_eq_ok, pure_eq_ok] at h
  obtain ⟨_, _, rfl⟩ := h
  exact bookInv_of_eq _ _ hi rfl rfl rfl rfl

theorem tallyDecision_valid (p : EntParams) (now : Nat) (po : PO) (st : Nat) (h : EntState.tallyDecision p now po = some st) :
    st = stRejected ∨ st = stAccepted := by
  unfold EntState.tallyDecision at h
  simp only at h
  split at h
  · cases h; exact Or.inl rfl
  · split at h
    · cases h; exact Or.inl rfl
    · split at h
      · cases h; exact Or.inr rfl
      · cases h

theorem tallyOne_book (e e' : EntState) (now id : Nat) (hi : BookInv e) (h : e.tallyOne now id = .ok e') : BookInv e' := by
  unfold EntState.tallyOne at h
  split at h
  · cases h
  · rename_i po hf
    split at h
    · cases h
    · rename_i hst
      have hst : po.status = stRaised := by simpa using hst
      split at h
      · cases h; exact hi
      · rename_i st hd
        cases h
        have hv := tallyDecision_valid _ _ _ _ hd
        have hne : st ≠ stRaised := by rcases hv with rfl | rfl <;> decide
        by_cases hacc : st = stAccepted
        · subst hacc
          simp only [if_true]
          refine bookInv_update e hi id po _ _ _ hf rfl rfl ?_ ?_ (asc_filter _ _ hi.rqAsc)
            (asc_insertSortedNat _ _ hi.aqAsc) (hi.decs id po hf) rfl rfl
          · intro x
            simp only [List.mem_filter, decide_eq_true_eq]
            constructor
            · intro ⟨hm, hx⟩; exact Or.inl ⟨hx, hm⟩
            · rintro (⟨hx, hm⟩ | ⟨_, hc⟩)
              · exact ⟨hm, hx⟩
              · exact absurd hc (by decide)
          · intro x
            simp only [mem_insertSortedNat]
            by_cases hx : x = id
            · subst hx; simp
            · simp [hx]
        · have hrej : st = stRejected := by rcases hv with h | h; exact h; exact absurd h hacc
          subst hrej
          simp only [hacc, if_false]
          refine bookInv_update e hi id po _ _ _ hf rfl rfl ?_ ?_ (asc_filter _ _ hi.rqAsc) hi.aqAsc
            (hi.decs id po hf) rfl rfl
          · intro x
            simp only [List.mem_filter, decide_eq_true_eq]
            constructor
            · intro ⟨hm, hx⟩; exact Or.inl ⟨hx, hm⟩
            · rintro (⟨hx, hm⟩ | ⟨_, hc⟩)
              · exact ⟨hm, hx⟩
              · exact absurd hc (by decide)
          · intro x
            by_cases hx : x = id
            · subst hx
              simp only [ne_eq, not_true_eq_false, false_and, true_and, false_or]
              constructor
              · intro hm
                obtain ⟨q, hq', hs⟩ := (hi.aq _).mp hm
                rw [hf] at hq'; cases hq'; rw [hst] at hs; exact absurd hs (by decide)
              · intro hc; exact absurd hc (by decide)
            · simp [hx]

theorem completeOne_book (x x' : EB) (now : Int) (bl : Addr → Bool) (id : Nat) (hi : BookInv x.ent)
    (h : EB.completeOne x now bl id = .ok x') : BookInv x'.ent := by
  unfold EB.completeOne at h
  split at h
  · cases h
  · rename_i po hf
    split at h
    · cases h
    · rename_i hst
      have hst : po.status = stAccepted := by simpa using hst
      split at h
      · cases h
      · simp only [bind_eq_ok, pure_eq_ok] at h
        obtain ⟨x2, hx2, rfl⟩ := h
        have hb := mintAndLock_book _ _ _ _ _ _ (asPanic_ok _ _ hx2)
        simp only [EntState.book, Prod.mk.injEq] at hb
        have h1 : BookInv { x.ent with orders := insert x.ent.orders id { po with status := stCompleted },
                                       raisedQ := x.ent.raisedQ, acceptedQ := x.ent.acceptedQ.filter (· ≠ id) } := by
          refine bookInv_update x.ent hi id po _ _ _ hf rfl rfl ?_ ?_ hi.rqAsc (asc_filter _ _ hi.aqAsc)
            (hi.decs id po hf) rfl rfl
          · intro y
            by_cases hy : y = id
            · subst hy
              simp only [ne_eq, not_true_eq_false, false_and, true_and, false_or]
              constructor
              · intro hm
                obtain ⟨q, hq', hs⟩ := (hi.rq _).mp hm
                rw [hf] at hq'; cases hq'; rw [hst] at hs; exact absurd hs (by decide)
              · intro hc; exact absurd hc (by decide)
            · simp [hy]
          · intro y
            simp only [List.mem_filter, decide_eq_true_eq]
            constructor
            · intro ⟨hm, hy⟩; exact Or.inl ⟨hy, hm⟩
            · rintro (⟨hy, hm⟩ | ⟨_, hc⟩)
              · exact ⟨hm, hy⟩
              · exact absurd hc (by decide)
        exact bookInv_of_eq _ _ h1 (by simp [hb.2.2.1]) (by simp [hb.2.1]) (by simp [hb.2.2.2.1]) (by simp [hb.2.2.2.2.1])

/-- history assumption for the enterprise order book: the order-id counter is not about to wrap -/
def EntQ (s : State) : Prop := s.ent.nextId + 1 < two64

theorem bookInv_step (s s' : State) (hq : EntQ s) (hi : BookInv s.ent) (h : FineStep s s') : BookInv s'.ent := by
  cases fineStep_ent s s' h with
  | same he => rw [he]; exact hi
  | op hop =>
    cases hop with
    | raise p denom amt id h => exact raise_book _ _ _ _ _ _ _ hi hq h
    | decide id dec sg h => exact decide_book _ _ _ _ _ _ hi h
    | whitelist action addr sg h => exact whitelist_book _ _ _ _ _ hi h
    | setParams p h => exact setParams_book _ _ _ hi h
  | unlock x payer fees hx he => rw [he]; exact bookInv_of_book _ _ hi (unlockForFees_book _ _ _ _ _ hx)
  | complete id x hx he => rw [he]; exact completeOne_book _ _ _ _ _ hi hx
  | tally id ht => exact tallyOne_book _ _ _ _ hi ht

theorem bookInv_init (g : GenCfg) : BookInv (initState g).ent := by
  constructor <;> simp [initState, NoDupKeys, keys, Asc]

theorem bookInv_reachable (g : GenCfg) (s : State) (h : FineReach g EntQ s) : BookInv s.ent :=
  fine_inv g EntQ (fun s => BookInv s.ent) (bookInv_init g) (fun s s' hq hi hs => bookInv_step s s' hq hi hs) s h

end Mainchain
