import Mainchain.Prim.AList
/-
Lemmas about association-list maps (core Lean only).
-/
namespace Mainchain
namespace AL

variable {κ : Type} {ν : Type} [DecidableEq κ]

@[simp] theorem find_nil (x : κ) : find? ([] : List (κ × ν)) x = none := rfl

@[simp] theorem find_insert_eq (m : List (κ × ν)) (x : κ) (w : ν) :
    find? (insert m x w) x = some w := by
  induction m with
  | nil => simp [insert, find?]
  | cons p m ih =>
    obtain ⟨k, v⟩ := p
    by_cases h : k = x <;> simp [insert, find?, h, ih]

theorem find_insert_ne (m : List (κ × ν)) (x y : κ) (w : ν) (h : x ≠ y) :
    find? (insert m x w) y = find? m y := by
  induction m with
  | nil => simp [insert, find?, h]
  | cons p m ih =>
    obtain ⟨k, v⟩ := p
    by_cases hk : k = x
    · subst hk; simp [insert, find?, h]
    · by_cases hy : k = y
      · subst hy; simp [insert, find?, hk]
      · simp [insert, find?, hk, hy, ih]

theorem find_insert (m : List (κ × ν)) (x y : κ) (w : ν) :
    find? (insert m x w) y = if x = y then some w else find? m y := by
  by_cases h : x = y
  · subst h; simp
  · simp [h, find_insert_ne m x y w h]

theorem find_erase_ne (m : List (κ × ν)) (x y : κ) (h : x ≠ y) :
    find? (erase m x) y = find? m y := by
  induction m with
  | nil => simp [erase, find?]
  | cons p m ih =>
    obtain ⟨k, v⟩ := p
    by_cases hk : k = x
    · subst hk; simp [erase, find?, h]
    · by_cases hy : k = y
      · subst hy; simp [erase, find?, hk]
      · simp [erase, find?, hk, hy, ih]

/-- keys are pairwise distinct -/
def NoDupKeys (m : List (κ × ν)) : Prop := (keys m).Nodup

theorem mem_keys_insert (m : List (κ × ν)) (x y : κ) (w : ν) :
    y ∈ keys (insert m x w) ↔ y = x ∨ y ∈ keys m := by
  induction m with
  | nil => simp [insert, keys]
  | cons p m ih =>
    obtain ⟨k, v⟩ := p
    by_cases hk : k = x
    · subst hk
      simp [insert, keys]
    · simp only [insert, hk, if_false, keys, List.map_cons, List.mem_cons]
      simp only [keys] at ih
      rw [ih]
      constructor
      · rintro (h | h | h)
        · exact Or.inr (Or.inl h)
        · exact Or.inl h
        · exact Or.inr (Or.inr h)
      · rintro (h | h | h)
        · exact Or.inr (Or.inl h)
        · exact Or.inl h
        · exact Or.inr (Or.inr h)

theorem nodup_insert (m : List (κ × ν)) (x : κ) (w : ν) (h : NoDupKeys m) : NoDupKeys (insert m x w) := by
  induction m with
  | nil => simp [insert, NoDupKeys, keys]
  | cons p m ih =>
    obtain ⟨k, v⟩ := p
    simp only [NoDupKeys, keys, List.map_cons, List.nodup_cons] at h
    by_cases hk : k = x
    · subst hk
      simpa [insert, NoDupKeys, keys] using h
    · simp only [insert, hk, if_false, NoDupKeys, keys, List.map_cons, List.nodup_cons]
      refine ⟨?_, ih h.2⟩
      intro hmem
      have := (mem_keys_insert m x k w).mp hmem
      rcases this with h1 | h1
      · exact hk h1
      · exact h.1 h1

theorem mem_keys_erase (m : List (κ × ν)) (x y : κ) (h : y ∈ keys (erase m x)) : y ∈ keys m := by
  induction m with
  | nil => simp [erase, keys] at h
  | cons p m ih =>
    obtain ⟨k, v⟩ := p
    by_cases hk : k = x
    · subst hk
      simp only [erase, if_true] at h
      simp only [keys, List.map_cons, List.mem_cons]
      exact Or.inr h
    · simp only [erase, hk, if_false, keys, List.map_cons, List.mem_cons] at h
      simp only [keys, List.map_cons, List.mem_cons]
      rcases h with h | h
      · exact Or.inl h
      · exact Or.inr (ih h)

theorem nodup_erase (m : List (κ × ν)) (x : κ) (h : NoDupKeys m) : NoDupKeys (erase m x) := by
  induction m with
  | nil => simp [erase, NoDupKeys, keys]
  | cons p m ih =>
    obtain ⟨k, v⟩ := p
    simp only [NoDupKeys, keys, List.map_cons, List.nodup_cons] at h
    by_cases hk : k = x
    · subst hk
      simpa [erase, NoDupKeys, keys] using h.2
    · simp only [erase, hk, if_false, NoDupKeys, keys, List.map_cons, List.nodup_cons]
      exact ⟨fun hm => h.1 (mem_keys_erase m x k hm), ih h.2⟩

theorem find_erase_eq (m : List (κ × ν)) (x : κ) (h : NoDupKeys m) : find? (erase m x) x = none := by
  induction m with
  | nil => simp [erase]
  | cons p m ih =>
    obtain ⟨k, v⟩ := p
    simp only [NoDupKeys, keys, List.map_cons, List.nodup_cons] at h
    by_cases hk : k = x
    · subst hk
      simp only [erase, if_true]
      -- k not in keys m
      have : ∀ (m : List (κ × ν)), k ∉ keys m → find? m k = none := by
        intro m
        induction m with
        | nil => simp
        | cons q m ih2 =>
          obtain ⟨k2, v2⟩ := q
          intro hn
          simp only [keys, List.map_cons, List.mem_cons, not_or] at hn
          simp only [find?]
          rw [if_neg (fun e => hn.1 e.symm)]
          exact ih2 hn.2
      exact this m h.1
    · simp only [erase, hk, if_false, find?]
      exact ih h.2

theorem find_none_of_not_mem (m : List (κ × ν)) (x : κ) (h : x ∉ keys m) : find? m x = none := by
  induction m with
  | nil => simp
  | cons q m ih =>
    obtain ⟨k, v⟩ := q
    simp only [keys, List.map_cons, List.mem_cons, not_or] at h
    simp only [find?]
    rw [if_neg (fun e => h.1 e.symm)]
    exact ih h.2

theorem mem_keys_of_find (m : List (κ × ν)) (x : κ) (v : ν) (h : find? m x = some v) : x ∈ keys m := by
  induction m with
  | nil => simp at h
  | cons q m ih =>
    obtain ⟨k, w⟩ := q
    simp only [find?] at h
    simp only [keys, List.map_cons, List.mem_cons]
    by_cases hk : k = x
    · exact Or.inl hk.symm
    · rw [if_neg hk] at h
      exact Or.inr (ih h)

theorem find_some_of_mem (m : List (κ × ν)) (x : κ) (h : x ∈ keys m) : ∃ v, find? m x = some v := by
  induction m with
  | nil => simp [keys] at h
  | cons q m ih =>
    obtain ⟨k, w⟩ := q
    simp only [keys, List.map_cons, List.mem_cons] at h
    simp only [find?]
    by_cases hk : k = x
    · exact ⟨w, by simp [hk]⟩
    · rw [if_neg hk]
      rcases h with h | h
      · exact absurd h.symm hk
      · exact ih h

/-! sums -/

theorem sum_insert (m : List (κ × Nat)) (x : κ) (w : Nat) :
    sumVals (insert m x w) + get m x = sumVals m + w := by
  induction m with
  | nil => simp [insert, get, find?, sumVals]
  | cons p m ih =>
    obtain ⟨k, v⟩ := p
    by_cases h : k = x
    · simp [insert, get, find?, sumVals, h]; omega
    · simp only [insert, h, if_false, sumVals, get, find?] at *
      omega

theorem sum_erase (m : List (κ × Nat)) (x : κ) (h : NoDupKeys m) :
    sumVals (erase m x) + get m x = sumVals m := by
  induction m with
  | nil => simp [erase, get, find?, sumVals]
  | cons p m ih =>
    obtain ⟨k, v⟩ := p
    simp only [NoDupKeys, keys, List.map_cons, List.nodup_cons] at h
    by_cases hk : k = x
    · simp [erase, get, find?, sumVals, hk]; omega
    · have := ih h.2
      simp only [erase, hk, if_false, sumVals, get, find?] at *
      omega

theorem sum_setNat (m : List (κ × Nat)) (x : κ) (n : Nat) (h : NoDupKeys m) :
    sumVals (setNat m x n) + get m x = sumVals m + n := by
  unfold setNat
  split
  · rename_i h0; subst h0; simpa using sum_erase m x h
  · exact sum_insert m x n

theorem nodup_setNat (m : List (κ × Nat)) (x : κ) (n : Nat) (h : NoDupKeys m) : NoDupKeys (setNat m x n) := by
  unfold setNat; split
  · exact nodup_erase m x h
  · exact nodup_insert m x n h

theorem get_setNat_eq (m : List (κ × Nat)) (x : κ) (n : Nat) (h : NoDupKeys m) : get (setNat m x n) x = n := by
  unfold setNat get; split
  · rename_i h0; subst h0; simp [find_erase_eq m x h]
  · simp

theorem get_setNat_ne (m : List (κ × Nat)) (x y : κ) (n : Nat) (h : x ≠ y) : get (setNat m x n) y = get m y := by
  unfold setNat get; split
  · rw [find_erase_ne m x y h]
  · rw [find_insert_ne m x y n h]

end AL
end Mainchain

namespace Mainchain
namespace AL
variable {κ : Type} {ν : Type} [DecidableEq κ]

/-- Σ f over the values of a map -/
def sumF (f : ν → Int) : List (κ × ν) → Int
  | [] => 0
  | (_, v) :: m => f v + sumF f m

def fOpt (f : ν → Int) : Option ν → Int
  | some v => f v
  | none => 0

theorem sumF_insert (f : ν → Int) (m : List (κ × ν)) (x : κ) (w : ν) :
    sumF f (insert m x w) = sumF f m - fOpt f (find? m x) + f w := by
  induction m with
  | nil => simp [insert, find?, sumF, fOpt]
  | cons p m ih =>
    obtain ⟨k, v⟩ := p
    by_cases h : k = x
    · simp [insert, find?, sumF, fOpt, h]; omega
    · simp only [insert, h, if_false, sumF, find?] at *
      omega

theorem sumF_erase (f : ν → Int) (m : List (κ × ν)) (x : κ) (h : NoDupKeys m) :
    sumF f (erase m x) = sumF f m - fOpt f (find? m x) := by
  induction m with
  | nil => simp [erase, find?, sumF, fOpt]
  | cons p m ih =>
    obtain ⟨k, v⟩ := p
    simp only [NoDupKeys, keys, List.map_cons, List.nodup_cons] at h
    by_cases hk : k = x
    · simp [erase, find?, sumF, fOpt, hk]; omega
    · have := ih h.2
      simp only [erase, hk, if_false, sumF, find?] at *
      omega

end AL
end Mainchain

/-! ### `insertRec` : the same map behaviour as `AL.insert`, position by store-key order -/
namespace Mainchain
open AL

variable {ν : Type}

/-- the record list is in ascending store-key order (hence without duplicate keys) -/
def RecsSorted (m : List ((Nat × Nat) × ν)) : Prop := m.Pairwise (fun a b => pairLt a.1 b.1 = true)

theorem pairLt_irrefl (a : Nat × Nat) : pairLt a a = false := by simp [pairLt]

theorem pairLt_trans (a b c : Nat × Nat) (h1 : pairLt a b = true) (h2 : pairLt b c = true) : pairLt a c = true := by
  simp only [pairLt, Bool.or_eq_true, Bool.and_eq_true, decide_eq_true_eq] at *
  omega

theorem pairLt_total (a b : Nat × Nat) (h1 : a ≠ b) (h2 : pairLt a b = false) : pairLt b a = true := by
  obtain ⟨a1, a2⟩ := a
  obtain ⟨b1, b2⟩ := b
  have hne : ¬ (a1 = b1 ∧ a2 = b2) := fun h => h1 (by rw [h.1, h.2])
  simp only [pairLt, Bool.or_eq_false_iff, Bool.and_eq_false_iff, decide_eq_false_iff_not, Bool.or_eq_true,
    Bool.and_eq_true, decide_eq_true_eq] at *
  omega

theorem nodup_of_sorted (m : List ((Nat × Nat) × ν)) (h : RecsSorted m) : NoDupKeys m := by
  unfold NoDupKeys keys List.Nodup
  rw [List.pairwise_map]
  unfold RecsSorted at h
  refine List.Pairwise.imp ?_ h
  intro a b hab e
  rw [e, pairLt_irrefl] at hab; cases hab

@[simp] theorem find_insertRec_eq (m : List ((Nat × Nat) × ν)) (x : Nat × Nat) (w : ν) :
    find? (insertRec m x w) x = some w := by
  induction m with
  | nil => simp [insertRec, find?]
  | cons p m ih =>
    obtain ⟨k, v⟩ := p
    simp only [insertRec]
    split
    · rename_i h; simp [find?, h]
    · split
      · simp [find?]
      · rename_i h _; simp [find?, h, ih]

theorem find_insertRec_ne (m : List ((Nat × Nat) × ν)) (x y : Nat × Nat) (w : ν) (h : x ≠ y) :
    find? (insertRec m x w) y = find? m y := by
  induction m with
  | nil => simp [insertRec, find?, h]
  | cons p m ih =>
    obtain ⟨k, v⟩ := p
    simp only [insertRec]
    split
    · rename_i hk; subst hk; simp [find?, h]
    · split
      · simp [find?, h]
      · by_cases hy : k = y
        · simp [find?, hy]
        · simp [find?, hy, ih]

theorem find_insertRec (m : List ((Nat × Nat) × ν)) (x y : Nat × Nat) (w : ν) :
    find? (insertRec m x w) y = if x = y then some w else find? m y := by
  by_cases h : x = y
  · subst h; simp
  · simp [h, find_insertRec_ne m x y w h]

theorem mem_insertRec (m : List ((Nat × Nat) × ν)) (x : Nat × Nat) (w : ν) (e : (Nat × Nat) × ν) (h : e ∈ insertRec m x w) :
    e = (x, w) ∨ e ∈ m := by
  induction m with
  | nil => simp [insertRec] at h; exact Or.inl h
  | cons p m ih =>
    obtain ⟨k, v⟩ := p
    simp only [insertRec] at h
    split at h
    · rename_i hk
      rw [List.mem_cons] at h
      rcases h with h | h
      · left; rw [h, hk]
      · right; exact List.mem_cons_of_mem _ h
    · split at h
      · rw [List.mem_cons] at h
        rcases h with h | h
        · exact Or.inl h
        · exact Or.inr h
      · rw [List.mem_cons] at h
        rcases h with h | h
        · right; rw [h]; exact List.mem_cons_self ..
        · rcases ih h with h | h
          · exact Or.inl h
          · right; exact List.mem_cons_of_mem _ h

theorem mem_keys_insertRec (m : List ((Nat × Nat) × ν)) (x y : Nat × Nat) (w : ν) :
    y ∈ keys (insertRec m x w) ↔ y = x ∨ y ∈ keys m := by
  induction m with
  | nil => simp [insertRec, keys]
  | cons p m ih =>
    obtain ⟨k, v⟩ := p
    simp only [insertRec]
    split
    · rename_i hk; subst hk; simp [keys]
    · split
      · simp [keys]
      · simp only [keys, List.map_cons, List.mem_cons]
        simp only [keys] at ih
        rw [ih]
        constructor
        · rintro (h | h | h)
          · exact Or.inr (Or.inl h)
          · exact Or.inl h
          · exact Or.inr (Or.inr h)
        · rintro (h | h | h)
          · exact Or.inr (Or.inl h)
          · exact Or.inl h
          · exact Or.inr (Or.inr h)

theorem sorted_insertRec (m : List ((Nat × Nat) × ν)) (x : Nat × Nat) (w : ν) (h : RecsSorted m) : RecsSorted (insertRec m x w) := by
  induction m with
  | nil => simp [insertRec, RecsSorted]
  | cons p m ih =>
    obtain ⟨k, v⟩ := p
    unfold RecsSorted at h ⊢
    rw [List.pairwise_cons] at h
    simp only [insertRec]
    split
    · rename_i hk
      rw [List.pairwise_cons]; exact ⟨h.1, h.2⟩
    · rename_i hk
      split
      · rename_i hlt
        rw [List.pairwise_cons]
        refine ⟨?_, List.pairwise_cons.mpr h⟩
        intro e he
        rw [List.mem_cons] at he
        rcases he with rfl | he
        · exact hlt
        · exact pairLt_trans _ _ _ hlt (h.1 e he)
      · rename_i hlt
        rw [List.pairwise_cons]
        refine ⟨?_, ih h.2⟩
        intro e he
        rcases mem_insertRec m x w e he with rfl | he
        · exact pairLt_total x k (fun e => hk e.symm) (by simpa using hlt)
        · exact h.1 e he

theorem sorted_erase (m : List ((Nat × Nat) × ν)) (x : Nat × Nat) (h : RecsSorted m) : RecsSorted (erase m x) := by
  induction m with
  | nil => simp [erase, RecsSorted]
  | cons p m ih =>
    obtain ⟨k, v⟩ := p
    unfold RecsSorted at h ⊢
    rw [List.pairwise_cons] at h
    simp only [erase]
    split
    · exact h.2
    · rw [List.pairwise_cons]
      refine ⟨?_, ih h.2⟩
      intro e he
      apply h.1
      -- erase yields a sublist
      clear ih h
      induction m with
      | nil => simp [erase] at he
      | cons q m ih2 =>
        obtain ⟨k2, v2⟩ := q
        simp only [erase] at he
        split at he
        · exact List.mem_cons_of_mem _ he
        · rw [List.mem_cons] at he
          rcases he with rfl | he
          · exact List.mem_cons_self ..
          · exact List.mem_cons_of_mem _ (ih2 he)

end Mainchain
