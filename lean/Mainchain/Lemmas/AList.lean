import Mainchain.Prim.AList
/-
Lemmas about association-list maps (core Lean only).
-/
namespace Mainchain
namespace AL

variable {κ : Type} {ν : Type} [DecidableEq κ]

@[simp] theorem find_nil (x : κ) : find? ([] : List (κ × ν)) x = none := rfl

@[simp] theorem find_insert_eq (m : List (κ × ν)) (x : κ) (w : ν) :
    find? (insert m x w) x = some w := by
  induction m with
  | nil => simp [insert, find?]
  | cons p m ih =>
    obtain ⟨k, v⟩ := p
    by_cases h : k = x <;> simp [insert, find?, h, ih]

theorem find_insert_ne (m : List (κ × ν)) (x y : κ) (w : ν) (h : x ≠ y) :
    find? (insert m x w) y = find? m y := by
  induction m with
  | nil => simp [insert, find?, h]
  | cons p m ih =>
    obtain ⟨k, v⟩ := p
    by_cases hk : k = x
    · subst hk; simp [insert, find?, h]
    · by_cases hy : k = y
      · subst hy; simp [insert, find?, hk]
      · simp [insert, find?, hk, hy, ih]

theorem find_insert (m : List (κ × ν)) (x y : κ) (w : ν) :
    find? (insert m x w) y = if x = y then some w else find? m y := by
  by_cases h : x = y
  · subst h; simp
  · simp [h, find_insert_ne m x y w h]

theorem find_erase_ne (m : List (κ × ν)) (x y : κ) (h : x ≠ y) :
    find? (erase m x) y = find? m y := by
  induction m with
  | nil => simp [erase, find?]
  | cons p m ih =>
    obtain ⟨k, v⟩ := p
    by_cases hk : k = x
    · subst hk; simp [erase, find?, h]
    · by_cases hy : k = y
      · subst hy; simp [erase, find?, hk]
      · simp [erase, find?, hk, hy, ih]

/-- keys are pairwise distinct -/
def NoDupKeys (m : List (κ × ν)) : Prop := (keys m).Nodup

theorem mem_keys_insert (m : List (κ × ν)) (x y : κ) (w : ν) :
    y ∈ keys (insert m x w) ↔ y = x ∨ y ∈ keys m := by
  induction m with
  | nil => simp [insert, keys]
  | cons p m ih =>
    obtain ⟨k, v⟩ := p
    by_cases hk : k = x
    · subst hk
      simp [insert, keys]
    · simp only [insert, hk, if_false, keys, List.map_cons, List.mem_cons]
      simp only [keys] at ih
      rw [ih]
      constructor
      · rintro (h | h | h)
        · exact Or.inr (Or.inl h)
        · exact Or.inl h
        · exact Or.inr (Or.inr h)
      · rintro (h | h | h)
        · exact Or.inr (Or.inl h)
        · exact Or.inl h
        · exact Or.inr (Or.inr h)

theorem nodup_insert (m : List (κ × ν)) (x : κ) (w : ν) (h : NoDupKeys m) : NoDupKeys (insert m x w) := by
  induction m with
  | nil => simp [insert, NoDupKeys, keys]
  | cons p m ih =>
    obtain ⟨k, v⟩ := p
    simp only [NoDupKeys, keys, List.map_cons, List.nodup_cons] at h
    by_cases hk : k = x
    · subst hk
      simpa [insert, NoDupKeys, keys] using h
    · simp only [insert, hk, if_false, NoDupKeys, keys, List.map_cons, List.nodup_cons]
      refine ⟨?_, ih h.2⟩
      intro hmem
      have := (mem_keys_insert m x k w).mp hmem
      rcases this with h1 | h1
      · exact hk h1
      · exact h.1 h1

theorem mem_keys_erase (m : List (κ × ν)) (x y : κ) (h : y ∈ keys (erase m x)) : y ∈ keys m := by
  induction m with
  | nil => simp [erase, keys] at h
  | cons p m ih =>
    obtain ⟨k, v⟩ := p
    by_cases hk : k = x
    · subst hk
      simp only [erase, if_true] at h
      simp only [keys, List.map_cons, List.mem_cons]
      exact Or.inr h
    · simp only [erase, hk, if_false, keys, List.map_cons, List.mem_cons] at h
      simp only [keys, List.map_cons, List.mem_cons]
      rcases h with h | h
      · exact Or.inl h
      · exact Or.inr (ih h)

theorem nodup_erase (m : List (κ × ν)) (x : κ) (h : NoDupKeys m) : NoDupKeys (erase m x) := by
  induction m with
  | nil => simp [erase, NoDupKeys, keys]
  | cons p m ih =>
    obtain ⟨k, v⟩ := p
    simp only [NoDupKeys, keys, List.map_cons, List.nodup_cons] at h
    by_cases hk : k = x
    · subst hk
      simpa [erase, NoDupKeys, keys] using h.2
    · simp only [erase, hk, if_false, NoDupKeys, keys, List.map_cons, List.nodup_cons]
      exact ⟨fun hm => h.1 (mem_keys_erase m x k hm), ih h.2⟩

theorem find_erase_eq (m : List (κ × ν)) (x : κ) (h : NoDupKeys m) : find? (erase m x) x = none := by
  induction m with
  | nil => simp [erase]
  | cons p m ih =>
    obtain ⟨k, v⟩ := p
    simp only [NoDupKeys, keys, List.map_cons, List.nodup_cons] at h
    by_cases hk : k = x
    · subst hk
      simp only [erase, if_true]
      -- k not in keys m
      have : ∀ (m : List (κ × ν)), k ∉ keys m → find? m k = none := by
        intro m
        induction m with
        | nil => simp
        | cons q m ih2 =>
          obtain ⟨k2, v2⟩ := q
          intro hn
          simp only [keys, List.map_cons, List.mem_cons, not_or] at hn
          simp only [find?]
          rw [if_neg (fun e => hn.1 e.symm)]
          exact ih2 hn.2
      exact this m h.1
    · simp only [erase, hk, if_false, find?]
      exact ih h.2

theorem find_none_of_not_mem (m : List (κ × ν)) (x : κ) (h : x ∉ keys m) : find? m x = none := by
  induction m with
  | nil => simp
  | cons q m ih =>
    obtain ⟨k, v⟩ := q
    simp only [keys, List.map_cons, List.mem_cons, not_or] at h
    simp only [find?]
    rw [if_neg (fun e => h.1 e.symm)]
    exact ih h.2

theorem mem_keys_of_find (m : List (κ × ν)) (x : κ) (v : ν) (h : find? m x = some v) : x ∈ keys m := by
  induction m with
  | nil => simp at h
  | cons q m ih =>
    obtain ⟨k, w⟩ := q
    simp only [find?] at h
    simp only [keys, List.map_cons, List.mem_cons]
    by_cases hk : k = x
    · exact Or.inl hk.symm
    · rw [if_neg hk] at h
      exact Or.inr (ih h)

theorem find_some_of_mem (m : List (κ × ν)) (x : κ) (h : x ∈ keys m) : ∃ v, find? m x = some v := by
  induction m with
  | nil => simp [keys] at h
  | cons q m ih =>
    obtain ⟨k, w⟩ := q
    simp only [keys, List.map_cons, List.mem_cons] at h
    simp only [find?]
    by_cases hk : k = x
    · exact ⟨w, by simp [hk]⟩
    · rw [if_neg hk]
      rcases h with h | h
      · exact absurd h.symm hk
      · exact ih h

/-! sums -/

theorem sum_insert (m : List (κ × Nat)) (x : κ) (w : Nat) :
    sumVals (insert m x w) + get m x = sumVals m + w := by
  induction m with
  | nil => simp [insert, get, find?, sumVals]
  | cons p m ih =>
    obtain ⟨k, v⟩ := p
    by_cases h : k = x
    · simp [insert, get, find?, sumVals, h]; omega
    · simp only [insert, h, if_false, sumVals, get, find?] at *
      omega

theorem sum_erase (m : List (κ × Nat)) (x : κ) (h : NoDupKeys m) :
    sumVals (erase m x) + get m x = sumVals m := by
  induction m with
  | nil => simp [erase, get, find?, sumVals]
  | cons p m ih =>
    obtain ⟨k, v⟩ := p
    simp only [NoDupKeys, keys, List.map_cons, List.nodup_cons] at h
    by_cases hk : k = x
    · simp [erase, get, find?, sumVals, hk]; omega
    · have := ih h.2
      simp only [erase, hk, if_false, sumVals, get, find?] at *
      omega

theorem sum_setNat (m : List (κ × Nat)) (x : κ) (n : Nat) (h : NoDupKeys m) :
    sumVals (setNat m x n) + get m x = sumVals m + n := by
  unfold setNat
  split
  · rename_i h0; subst h0; simpa using sum_erase m x h
  · exact sum_insert m x n

theorem nodup_setNat (m : List (κ × Nat)) (x : κ) (n : Nat) (h : NoDupKeys m) : NoDupKeys (setNat m x n) := by
  unfold setNat; split
  · exact nodup_erase m x h
  · exact nodup_insert m x n h

theorem get_setNat_eq (m : List (κ × Nat)) (x : κ) (n : Nat) (h : NoDupKeys m) : get (setNat m x n) x = n := by
  unfold setNat get; split
  · rename_i h0; subst h0; simp [find_erase_eq m x h]
  · simp

theorem get_setNat_ne (m : List (κ × Nat)) (x y : κ) (n : Nat) (h : x ≠ y) : get (setNat m x n) y = get m y := by
  unfold setNat get; split
  · rw [find_erase_ne m x y h]
  · rw [find_insert_ne m x y n h]

end AL
end Mainchain

namespace Mainchain
namespace AL
variable {κ : Type} {ν : Type} [DecidableEq κ]

/-- Σ f over the values of a map -/
def sumF (f : ν → Int) : List (κ × ν) → Int
  | [] => 0
  | (_, v) :: m => f v + sumF f m

def fOpt (f : ν → Int) : Option ν → Int
  | some v => f v
  | none => 0

theorem sumF_insert (f : ν → Int) (m : List (κ × ν)) (x : κ) (w : ν) :
    sumF f (insert m x w) = sumF f m - fOpt f (find? m x) + f w := by
  induction m with
  | nil => simp [insert, find?, sumF, fOpt]
  | cons p m ih =>
    obtain ⟨k, v⟩ := p
    by_cases h : k = x
    · simp [insert, find?, sumF, fOpt, h]; omega
    · simp only [insert, h, if_false, sumF, find?] at *
      omega

theorem sumF_erase (f : ν → Int) (m : List (κ × ν)) (x : κ) (h : NoDupKeys m) :
    sumF f (erase m x) = sumF f m - fOpt f (find? m x) := by
  induction m with
  | nil => simp [erase, find?, sumF, fOpt]
  | cons p m ih =>
    obtain ⟨k, v⟩ := p
    simp only [NoDupKeys, keys, List.map_cons, List.nodup_cons] at h
    by_cases hk : k = x
    · simp [erase, find?, sumF, fOpt, hk]; omega
    · have := ih h.2
      simp only [erase, hk, if_false, sumF, find?] at *
      omega

end AL
end Mainchain
