import Mainchain.Lemmas.StreamLive
/-
A top-up the sender can afford succeeds (C12, third clause).
-/
namespace Mainchain
open AL Bank

/-- a claim never lowers the balance of an account other than the escrow -/
theorem claim_other_balance_ge (x x' : SB) (now : Int) (r s : Addr) (o : ClaimOut) (hi : StreamInv x)
    (h : claimFromStream x now isBlocked r s = .ok (x', o)) (a : Addr) (h1 : a ≠ Mstr) (h2 : a ≠ Mfee) (d : String) :
    (x.bank.balOf a d : Int) ≤ x'.bank.balOf a d := by
  have hsp := claim_spec x x' now isBlocked isBlocked_Mstr r s o hi h
  obtain ⟨_, _, _, _, st, hf, _, hp1, _⟩ := hsp
  simp only [claimFromStream, bind_eq_ok, pure_eq_ok, Prod.mk.injEq] at h
  obtain ⟨st1, hst1, _, _, _, _, _, _, f, hfv, b1, hb1, b2, hb2, hxeq, ho⟩ := h
  have hpay : o.pay = f.1 := by rw [← ho]
  have hx' : x'.bank = b2 := by rw [← hxeq]
  rw [hx']
  have e1 : b1.balOf a d = x.bank.balOf a d := by
    unfold payFee at hb1
    split at hb1
    · obtain ⟨_, _, _, e⟩ := sendCoins_spec x.bank b1 _ Mstr Mfee _ hi.bank (locked_nonvesting _ _ _ hi.noVest) hb1
      exact balOf_unchanged_of_spec x.bank b1 Mstr Mfee _ a (Ne.symm h1) (Ne.symm h2) e d
    · cases hb1; rfl
  have i1 := (payFee_spec x.bank b1 _ st1.denom f.2 hi.bank hi.noVest hb1)
  unfold payOut at hb2
  split at hb2
  · rename_i hpp
    simp only [bind_eq_ok, require_eq_ok] at hb2
    obtain ⟨_, _, hb2⟩ := hb2
    obtain ⟨_, _, _, e⟩ := sendCoins_spec b1 b2 _ Mstr r _ i1.1 (locked_nonvesting _ _ _ (by rw [i1.2.1]; exact hi.noVest)) hb2
    have := e a d
    rw [outSum_other Mstr _ a d (Ne.symm h1), outSum_single] at this
    unfold outDelta at this
    rw [← e1]
    split at this <;> (try simp only at this) <;> omega
  · cases hb2
    rw [e1]; omega

/-- `AddDeposit` succeeds for every stream in state whenever the sender — not a vesting account, not a blocked address —
holds the amount, and the run time it buys fits the 292-year limit of the module (`MaxDurationSeconds`, which the handler
enforces per top-up) -/
theorem topup_succeeds (x : SB) (now : Int) (r s : Addr) (st : Stream) (hi : StreamInv x) (hwf : StreamWF now x)
    (hfee : 0 ≤ x.str.fee ∧ x.str.fee ≤ (pow18 : Int)) (hsmall : Small254 x.bank)
    (hf : find? x.str.streams (r, s) = some st) (hs : isBlocked s = false)
    (amt : Int) (hamt : 0 < amt) (hnv : find? x.bank.vest s = none) (hfunds : amt ≤ x.bank.balOf s st.denom)
    (hdur : calcDuration amt st.rate ≤ maxDurationSeconds) :
    ∃ x', addDeposit x now isBlocked r s st.denom amt = .ok x' := by
  have e254 : (2 : Int) ^ 254 = 28948022309329048855892746252171976963317496166410141009864396001978282409984 := by decide
  have e255 : (2 : Int) ^ 255 = 57896044618658097711785492504343953926634992332820282019728792003956564819968 := by decide
  have hsne : s ≠ Mstr := by intro e; subst e; simp [isBlocked_Mstr] at hs
  have hsfee : s ≠ Mfee := by intro e; subst e; revert hs; decide
  have hvd : validDenom st.denom = true := hwf.denom _ _ hf
  have hden := denom_nonempty _ hvd
  -- the settlement of an expired stream, or nothing
  have hstep : ∃ y : SB × Stream × Int,
      (if st.zero ≤ now then do
          let z ← settleIfFunded x now isBlocked r s st
          pure (z.1, { z.2 with last := now }, addSeconds now (calcDuration amt st.rate))
        else (.ok (x, st, addSeconds st.zero (calcDuration amt st.rate)) : M (SB × Stream × Int))) = .ok y ∧
      BankInv y.1.bank ∧ y.1.bank.vest = x.bank.vest ∧ amt ≤ (y.1.bank.balOf s st.denom : Int) ∧
      (y.1.bank.balOf Mstr st.denom : Int) < 2 ^ 254 := by
    split
    · unfold settleIfFunded
      split
      · rename_i hpos
        obtain ⟨x1, o, h1⟩ := claim_succeeds x now r s st hi hwf hfee (small_of_small254 _ hsmall) hf hpos
        obtain ⟨hi1, _, _, hv1, st0, hf0, _, _, hfee0, hsum, hrem, _, _, _⟩ := claim_spec x x1 now isBlocked isBlocked_Mstr r s o hi h1
        rw [hf] at hf0; cases hf0
        refine ⟨(x1, { ((find? x1.str.streams (r, s)).getD st) with last := now }, addSeconds now (calcDuration amt st.rate)),
          by simp [bind, Except.bind, h1, pure, Except.pure], hi1.bank, hv1, ?_, ?_⟩
        · have := claim_other_balance_ge x x1 now r s o hi h1 s hsne hsfee st.denom
          simp only; omega
        · -- the escrow only shrank
          have hb := hi1.backed st.denom
          have hx := hi.backed st.denom
          have h0 := hsmall Mstr st.denom
          obtain ⟨_, _, _, _, st0, hf0, _, _, _, _, _, _, _, hstreams⟩ := claim_spec x x1 now isBlocked isBlocked_Mstr r s o hi h1
          rw [hf] at hf0; cases hf0
          have : depositSum x1 st.denom = depositSum x st.denom - depIn st.denom st + depIn st.denom { st with deposit := o.rem, last := now } := by
            simp only [depositSum, hstreams, sumF_insert, hf, fOpt]
          simp only [depIn, if_true] at this
          simp only
          rw [e254] at h0 ⊢
          omega
      · refine ⟨(x, { st with last := now }, addSeconds now (calcDuration amt st.rate)), rfl, hi.bank, rfl, hfunds, hsmall Mstr st.denom⟩
    · exact ⟨(x, st, addSeconds st.zero (calcDuration amt st.rate)), rfl, hi.bank, rfl, hfunds, hsmall Mstr st.denom⟩
  obtain ⟨y, hy, hby, hvy, hfy, hmy⟩ := hstep
  obtain ⟨b, hb⟩ := sendCoins_single_ok y.1.bank (now / nsPerSec) s Mstr { denom := st.denom, amt := amt } hamt hden hby
    (by rw [hvy]; exact hnv) hfy
    (fun n hn => fits_of_small n amt (by omega) (by simp only at hn; rw [e254] at hmy; rw [e255]; omega)
      (by have := hsmall s st.denom; rw [e254] at this; rw [e255]; omega))
  have gd : decide (calcDuration amt st.rate ≤ maxDurationSeconds) = true := by simpa using hdur
  have hco : Coins.ofCoin { denom := st.denom, amt := amt } = [{ denom := st.denom, amt := amt }] := by
    simp [Coins.ofCoin]; omega
  simp only [bind, Except.bind, pure, Except.pure] at hy
  simp only [addDeposit, findStream, hf, bind, Except.bind, require_true, decide_true, hvd, hco, pure, Except.pure, hy, hb, gd]
  exact ⟨_, rfl⟩

end Mainchain
