import Mainchain.Prim.AList
/-
Insertion sort on naturals: membership, sortedness, identity on sorted input, permutation.
-/
namespace Mainchain

theorem mem_insertLe (x y : Nat) (l : List Nat) : y ∈ insertLe x l ↔ y = x ∨ y ∈ l := by
  induction l with
  | nil => simp [insertLe]
  | cons z zs ih =>
    simp only [insertLe]
    split
    · simp
    · simp only [List.mem_cons, ih]
      constructor
      · rintro (h | h | h)
        · exact Or.inr (Or.inl h)
        · exact Or.inl h
        · exact Or.inr (Or.inr h)
      · rintro (h | h | h)
        · exact Or.inr (Or.inl h)
        · exact Or.inl h
        · exact Or.inr (Or.inr h)

theorem mem_isort (l : List Nat) (y : Nat) : y ∈ isort l ↔ y ∈ l := by
  induction l with
  | nil => simp [isort]
  | cons x xs ih => simp only [isort, mem_insertLe, ih, List.mem_cons]

theorem sorted_insertLe (x : Nat) (l : List Nat) (h : l.Pairwise (· ≤ ·)) : (insertLe x l).Pairwise (· ≤ ·) := by
  induction l with
  | nil => simp [insertLe]
  | cons z zs ih =>
    rw [List.pairwise_cons] at h
    simp only [insertLe]
    split
    · rename_i hxz
      rw [List.pairwise_cons]
      refine ⟨?_, List.pairwise_cons.mpr h⟩
      intro a ha
      rw [List.mem_cons] at ha
      rcases ha with rfl | ha
      · exact hxz
      · have := h.1 a ha; omega
    · rename_i hxz
      rw [List.pairwise_cons]
      refine ⟨?_, ih h.2⟩
      intro a ha
      rw [mem_insertLe] at ha
      rcases ha with rfl | ha
      · omega
      · exact h.1 a ha

theorem sorted_isort (l : List Nat) : (isort l).Pairwise (· ≤ ·) := by
  induction l with
  | nil => simp [isort]
  | cons x xs ih => exact sorted_insertLe x _ ih

theorem insertLe_of_le (x : Nat) (l : List Nat) (h : ∀ y ∈ l, x ≤ y) : insertLe x l = x :: l := by
  cases l with
  | nil => rfl
  | cons z zs => simp only [insertLe]; rw [if_pos (h z (List.mem_cons_self ..))]

theorem isort_of_sorted (l : List Nat) (h : l.Pairwise (· ≤ ·)) : isort l = l := by
  induction l with
  | nil => rfl
  | cons x xs ih =>
    rw [List.pairwise_cons] at h
    simp only [isort]
    rw [ih h.2, insertLe_of_le x xs h.1]

theorem perm_insertLe (x : Nat) (l : List Nat) : (insertLe x l).Perm (x :: l) := by
  induction l with
  | nil => exact List.Perm.refl _
  | cons z zs ih =>
    simp only [insertLe]
    split
    · exact List.Perm.refl _
    · exact (List.Perm.cons z ih).trans (List.Perm.swap x z zs)

theorem perm_isort (l : List Nat) : (isort l).Perm l := by
  induction l with
  | nil => exact List.Perm.refl _
  | cons x xs ih => exact (perm_insertLe x _).trans (List.Perm.cons x ih)

theorem length_isort (l : List Nat) : (isort l).length = l.length := (perm_isort l).length_eq

theorem nodup_isort (l : List Nat) (h : l.Nodup) : (isort l).Nodup := (perm_isort l).nodup_iff.mpr h

end Mainchain
