import Mainchain.Lemmas.EntBlock
import Mainchain.Lemmas.BankFrame
import Mainchain.Lemmas.Coins
/-
The locked-eFUND books of x/enterprise: escrow balance = total locked = Σ locked, total spent =
Σ spent, and per account locked + spent = Σ of its completed orders — preserved by every elementary step.
-/
namespace Mainchain
open AL Bank

/-- what account `a` has been credited through completed purchase orders -/
def completedOf (a : Addr) (po : PO) : Int :=
  if po.status = stCompleted ∧ po.purchaser.decode = some a then po.amt else 0

def completedSum (e : EntState) (a : Addr) : Int := sumF (completedOf a) e.orders

def coinAmt (c : Coin) : Int := c.amt

structure BooksInv (D : String) (s : State) : Prop where
  nodupL : NoDupKeys s.ent.locked
  nodupS : NoDupKeys s.ent.spent
  okL : ∀ a c, find? s.ent.locked a = some c → c.denom = D ∧ 0 ≤ c.amt
  okS : ∀ a c, find? s.ent.spent a = some c → c.denom = D ∧ 0 ≤ c.amt
  totL : s.ent.totalLocked.denom = D
  totS : s.ent.totalSpent.denom = D
  escrow : ∀ d, (s.bank.balOf Ment d : Int) = if d = D then s.ent.totalLocked.amt else 0
  sumL : sumF coinAmt s.ent.locked = s.ent.totalLocked.amt
  sumS : sumF coinAmt s.ent.spent = s.ent.totalSpent.amt
  perAcct : ∀ a, (s.ent.lockedOf a).amt + (s.ent.spentOf a).amt = completedSum s.ent a

theorem lockedOf_amt (e : EntState) (a : Addr) : (e.lockedOf a).amt = fOpt coinAmt (find? e.locked a) := by
  unfold EntState.lockedOf; cases find? e.locked a <;> simp [fOpt, coinAmt]

theorem spentOf_amt (e : EntState) (a : Addr) : (e.spentOf a).amt = fOpt coinAmt (find? e.spent a) := by
  unfold EntState.spentOf; cases find? e.spent a <;> simp [fOpt, coinAmt]

theorem sumF_nonneg {κ : Type} (m : List (κ × Coin)) [DecidableEq κ] (h : ∀ k c, find? m k = some c → 0 ≤ c.amt)
    (hn : NoDupKeys m) : 0 ≤ sumF coinAmt m := by
  induction m with
  | nil => simp [sumF]
  | cons p m ih =>
    obtain ⟨k, v⟩ := p
    simp only [NoDupKeys, keys, List.map_cons, List.nodup_cons] at hn
    have h1 : 0 ≤ v.amt := h k v (by simp [find?])
    have h2 : 0 ≤ sumF coinAmt m := by
      apply ih _ hn.2
      intro k' c hk'
      apply h k' c
      simp only [find?]
      split
      · rename_i he; subst he
        exact absurd (mem_keys_of_find m _ c hk') hn.1
      · exact hk'
    simp only [sumF, coinAmt] at *; omega

/-- every entry is at most the total when all entries are non-negative -/
theorem entry_le_sum {κ : Type} [DecidableEq κ] (m : List (κ × Coin)) (h : ∀ k c, find? m k = some c → 0 ≤ c.amt)
    (hn : NoDupKeys m) (x : κ) : fOpt coinAmt (find? m x) ≤ sumF coinAmt m := by
  have := sumF_erase coinAmt m x hn
  have hnn : 0 ≤ sumF coinAmt (erase m x) := by
    apply sumF_nonneg _ _ (nodup_erase _ _ hn)
    intro k c hk
    by_cases hkx : x = k
    · subst hkx; rw [find_erase_eq _ _ hn] at hk; cases hk
    · rw [find_erase_ne _ _ _ hkx] at hk; exact h k c hk
  omega

/-- the books do not depend on anything but these components -/
theorem booksInv_of_eq (D : String) (s s' : State) (hi : BooksInv D s)
    (hl : s'.ent.locked = s.ent.locked) (hs : s'.ent.spent = s.ent.spent) (htl : s'.ent.totalLocked = s.ent.totalLocked)
    (hts : s'.ent.totalSpent = s.ent.totalSpent) (hb : ∀ d, s'.bank.balOf Ment d = s.bank.balOf Ment d)
    (hc : ∀ a, completedSum s'.ent a = completedSum s.ent a) : BooksInv D s' := by
  have hlo : ∀ a, (s'.ent.lockedOf a).amt = (s.ent.lockedOf a).amt := fun a => by rw [lockedOf_amt, lockedOf_amt, hl]
  have hso : ∀ a, (s'.ent.spentOf a).amt = (s.ent.spentOf a).amt := fun a => by rw [spentOf_amt, spentOf_amt, hs]
  exact ⟨hl ▸ hi.nodupL, hs ▸ hi.nodupS, fun a c h => hi.okL a c (hl ▸ h), fun a c h => hi.okS a c (hs ▸ h),
    htl ▸ hi.totL, hts ▸ hi.totS, fun d => by rw [hb d, htl]; exact hi.escrow d, by rw [hl, htl]; exact hi.sumL,
    by rw [hs, hts]; exact hi.sumS, fun a => by rw [hlo, hso, hc]; exact hi.perAcct a⟩

theorem completedSum_update (e : EntState) (id : Nat) (po po' : PO) (orders' : List (Nat × PO)) (a : Addr)
    (hf : find? e.orders id = some po) (ho : orders' = insert e.orders id po') :
    sumF (completedOf a) orders' = completedSum e a - completedOf a po + completedOf a po' := by
  rw [ho, sumF_insert, hf]; rfl


/-! ### the fee unlock -/

/-- effect of `decrementLockedUnd` followed by `incrementSpentEFUND` with the same coin `k`
(`0 < k ≤ locked payer`) on the books -/
theorem dec_inc_books (D : String) (x x1 x2 : EB) (payer : Addr) (k : Coin) (hkd : k.denom = D) (hk : 0 < k.amt)
    (hnL : NoDupKeys x.ent.locked) (hokL : ∀ a c, find? x.ent.locked a = some c → c.denom = D ∧ 0 ≤ c.amt)
    (hokS : ∀ a c, find? x.ent.spent a = some c → c.denom = D ∧ 0 ≤ c.amt)
    (hpd : x.ent.params.denom = D) (htl : x.ent.totalLocked.denom = D) (hts : x.ent.totalSpent.denom = D)
    (hsum : sumF coinAmt x.ent.locked = x.ent.totalLocked.amt)
    (hle : k.amt ≤ (x.ent.lockedOf payer).amt)
    (h1 : EB.decrementLocked x payer k = .ok x1) (h2 : EB.incrementSpent x1 payer k = .ok x2) :
    x2.bank = x.bank ∧ x2.ent.book = x.ent.book ∧
    x2.ent.locked = insert x.ent.locked payer { denom := D, amt := (x.ent.lockedOf payer).amt - k.amt } ∧
    x2.ent.spent = insert x.ent.spent payer { denom := D, amt := (x.ent.spentOf payer).amt + k.amt } ∧
    x2.ent.totalLocked = { denom := D, amt := x.ent.totalLocked.amt - k.amt } ∧
    x2.ent.totalSpent = { denom := D, amt := x.ent.totalSpent.amt + k.amt } := by
  have hld : (x.ent.lockedOf payer).denom = D := by
    unfold EntState.lockedOf
    cases hf : find? x.ent.locked payer with
    | none => simpa using hpd
    | some c => simpa using (hokL payer c hf).1
  have hl0 : 0 ≤ (x.ent.lockedOf payer).amt := by omega
  have hsd : (x.ent.spentOf payer).denom = D := by
    unfold EntState.spentOf
    cases hf : find? x.ent.spent payer with
    | none => simpa using hpd
    | some c => simpa using (hokS payer c hf).1
  have htge : k.amt ≤ x.ent.totalLocked.amt := by
    have := entry_le_sum x.ent.locked (fun a c h => (hokL a c h).2) hnL payer
    rw [← lockedOf_amt, hsum] at this; omega
  have c1 : (Coins.safeSub (Coins.ofCoin (x.ent.lockedOf payer)) (Coins.ofCoin k)).2 = false := by
    rw [ofCoin_pos k hk, safeSub_single _ _ (hld.trans hkd.symm) hl0 hk]; simp; omega
  have c2 : (Coins.safeSub (Coins.ofCoin x.ent.totalLocked) (Coins.ofCoin k)).2 = false := by
    rw [ofCoin_pos k hk, safeSub_single _ _ (htl.trans hkd.symm) (by omega) hk]; simp; omega
  simp only [EB.decrementLocked, c1, c2, Bool.false_eq_true, if_false, coinSub, bind_eq_ok, pure_eq_ok] at h1
  obtain ⟨l', ⟨_, _, _, _, rfl⟩, t', ⟨_, _, _, _, rfl⟩, rfl⟩ := h1
  simp only [EB.incrementSpent, coinAdd, bind_eq_ok, pure_eq_ok] at h2
  obtain ⟨s', ⟨_, _, _, _, rfl⟩, ts', ⟨_, _, _, _, rfl⟩, rfl⟩ := h2
  refine ⟨rfl, rfl, ?_, ?_, ?_, ?_⟩
  · simp [hld]
  · simp [EntState.spentOf] at hsd ⊢
    simp [EntState.spentOf, hsd]
  · simp [htl]
  · simp [hts]


theorem outSum_self (a : Addr) (cs : Coins) (d : String) : outSum a cs a d = coinsSum cs d := by
  unfold outSum coinsSum outDelta
  congr 1
  apply List.map_congr_left
  intro c _
  by_cases h : c.denom = d <;> simp [h]

theorem coinsSum_nonneg (cs : Coins) (hpos : ∀ c ∈ cs, 0 < c.amt) (d : String) : 0 ≤ coinsSum cs d := by
  induction cs with
  | nil => simp [coinsSum]
  | cons c cs ih =>
    have := ih (fun x hx => hpos x (by simp [hx]))
    have hc := hpos c (by simp)
    simp only [coinsSum, List.map_cons, List.sum_cons] at this ⊢
    split <;> omega

theorem coinsSum_single (c : Coin) (d : String) : coinsSum [c] d = if c.denom = d then c.amt else 0 := by
  simp [coinsSum]

/-- books after moving `k` (`0 < k ≤ locked payer`) from locked to spent while the escrow pays out
coins whose `D`-part is `k` and which it can afford -/
theorem books_after_unlock (D : String) (s : State) (x : EB) (payer : Addr) (k : Coin) (amt : Coins)
    (hi : BooksInv D s) (hpd : s.ent.params.denom = D) (hstr : StreamInv (toSB s)) (hpayer : payer ≠ Ment)
    (hkd : k.denom = D) (hk : 0 < k.amt) (hle : k.amt ≤ (s.ent.lockedOf payer).amt)
    (hamt : coinsSum amt D = k.amt)
    (x1 : EB) (bank : Bank) (hund : s.bank.undelegate s.nowSec Ment payer amt = .ok bank)
    (h1 : EB.decrementLocked { ent := s.ent, bank := bank } payer k = .ok x1) (h2 : EB.incrementSpent x1 payer k = .ok x) :
    BooksInv D { s with ent := x.ent, bank := x.bank } ∧ x.ent.book = s.ent.book ∧
    (x.ent.lockedOf payer).amt = (s.ent.lockedOf payer).amt - k.amt ∧
    (x.ent.spentOf payer).amt = (s.ent.spentOf payer).amt + k.amt ∧
    (∀ b, b ≠ payer → find? x.ent.locked b = find? s.ent.locked b ∧ find? x.ent.spent b = find? s.ent.spent b) ∧
    x.bank = bank := by
  obtain ⟨hb, hbook, hl, hsp, htl, hts⟩ := dec_inc_books D { ent := s.ent, bank := bank } x1 x payer k hkd hk hi.nodupL hi.okL hi.okS
    hpd hi.totL hi.totS hi.sumL hle h1 h2
  simp only at hb hbook hl hsp htl hts
  have hvalid : Coins.isValid amt = true := by
    simp only [undelegate, bind_eq_ok, require_eq_ok] at hund
    exact hund.choose_spec.1
  obtain ⟨ib, sb, vb, eb⟩ := undelegate_spec s.bank bank _ Ment payer amt hstr.bank
    (locked_nonvesting _ _ Ment (hstr.modNoVest Ment (by decide))) hund
  have hL : (s.ent.lockedOf payer).amt = fOpt coinAmt (find? s.ent.locked payer) := lockedOf_amt _ _
  have hS : (s.ent.spentOf payer).amt = fOpt coinAmt (find? s.ent.spent payer) := spentOf_amt _ _
  have hs0 : 0 ≤ (s.ent.spentOf payer).amt := by
    rw [hS]; cases hf : find? s.ent.spent payer with
    | none => simp [fOpt]
    | some c => simpa [fOpt, coinAmt] using (hi.okS payer c hf).2
  refine ⟨?_, hbook, ?_, ?_, ?_, hb⟩
  · constructor
    · show NoDupKeys x.ent.locked; rw [hl]; exact nodup_insert _ _ _ hi.nodupL
    · show NoDupKeys x.ent.spent; rw [hsp]; exact nodup_insert _ _ _ hi.nodupS
    · intro a c hf
      change find? x.ent.locked a = some c at hf
      rw [hl, find_insert] at hf
      split at hf
      · cases hf; exact ⟨rfl, by simp only; omega⟩
      · exact hi.okL a c hf
    · intro a c hf
      change find? x.ent.spent a = some c at hf
      rw [hsp, find_insert] at hf
      split at hf
      · cases hf; exact ⟨rfl, by simp only; omega⟩
      · exact hi.okS a c hf
    · show x.ent.totalLocked.denom = D; rw [htl]
    · show x.ent.totalSpent.denom = D; rw [hts]
    · intro d
      show (x.bank.balOf Ment d : Int) = if d = D then x.ent.totalLocked.amt else 0
      rw [hb, eb Ment d, outSum_self, outSum_other payer amt Ment d hpayer, hi.escrow d, htl]
      by_cases hd : d = D
      · subst hd; simp only [if_true]; omega
      · simp only [hd, if_false]
        have h0 := coinsSum_nonneg amt (allPos_of_valid amt hvalid) d
        have h1' : (0 : Int) ≤ (bank.balOf Ment d : Int) := Int.natCast_nonneg _
        rw [eb Ment d, outSum_self, outSum_other payer amt Ment d hpayer, hi.escrow d] at h1'
        simp only [hd, if_false] at h1'
        omega
    · show sumF coinAmt x.ent.locked = x.ent.totalLocked.amt
      rw [hl, htl, sumF_insert, ← hL, hi.sumL]; simp [coinAmt]; omega
    · show sumF coinAmt x.ent.spent = x.ent.totalSpent.amt
      rw [hsp, hts, sumF_insert, ← hS, hi.sumS]; simp [coinAmt]; omega
    · intro a
      show (x.ent.lockedOf a).amt + (x.ent.spentOf a).amt = completedSum x.ent a
      have hc : completedSum x.ent a = completedSum s.ent a := by
        simp only [EntState.book, Prod.mk.injEq] at hbook
        unfold completedSum; rw [hbook.2.2.1]
      rw [hc, ← hi.perAcct a, lockedOf_amt, spentOf_amt, hl, hsp, find_insert, find_insert]
      by_cases ha : payer = a
      · subst ha; simp only [if_true, fOpt, coinAmt]; omega
      · simp only [ha, if_false]; rw [← lockedOf_amt, ← spentOf_amt]
  · rw [lockedOf_amt, hl, find_insert_eq]; simp [fOpt, coinAmt]
  · rw [spentOf_amt, hsp, find_insert_eq]; simp [fOpt, coinAmt]
  · intro b hb'
    have : payer ≠ b := fun h => hb' h.symm
    rw [hl, hsp, find_insert_ne _ _ _ _ this, find_insert_ne _ _ _ _ this]; exact ⟨rfl, rfl⟩


/-- **`UnlockCoinsForFees`** : the amount `k` moved from locked to spent is `0` or `min(fee, locked)`;
exactly `k` leaves the escrow for the payer; the books stay balanced -/
theorem unlockForFees_spec (D : String) (s : State) (x : EB) (payer : Addr) (fees : Coins)
    (hi : BooksInv D s) (hpd : s.ent.params.denom = D) (hstr : StreamInv (toSB s)) (hpayer : payer ≠ Ment)
    (hlk : s.ent.isLocked payer = true)
    (h : EB.unlockForFees { ent := s.ent, bank := s.bank } s.nowSec payer fees = .ok x) :
    BooksInv D { s with ent := x.ent, bank := x.bank } ∧ x.ent.book = s.ent.book ∧
    ∃ k : Int, 0 ≤ k ∧ k ≤ (s.ent.lockedOf payer).amt ∧
      (x.ent.lockedOf payer).amt = (s.ent.lockedOf payer).amt - k ∧
      (x.ent.spentOf payer).amt = (s.ent.spentOf payer).amt + k ∧
      (∀ b, b ≠ payer → find? x.ent.locked b = find? s.ent.locked b ∧ find? x.ent.spent b = find? s.ent.spent b) ∧
      (k = 0 → x.bank = s.bank ∧ x.ent = s.ent) ∧
      (0 < k → ∃ amt, s.bank.undelegate s.nowSec Ment payer amt = .ok x.bank ∧ coinsSum amt D = k) ∧
      (Coins.isValid fees = true → k = 0 ∨ k = min (Coins.amountOf fees D) (s.ent.lockedOf payer).amt) := by
  have hL0 : 0 < (s.ent.lockedOf payer).amt := by simpa [EntState.isLocked] using hlk
  have hld : (s.ent.lockedOf payer).denom = D := by
    unfold EntState.lockedOf
    cases hf : find? s.ent.locked payer with
    | none => simpa using hpd
    | some c => simpa using (hi.okL payer c hf).1
  simp only [EB.unlockForFees, bind_eq_ok, require_eq_ok] at h
  obtain ⟨_, hany, h⟩ := h
  rw [hpd] at hany
  split at h
  · -- locked ≥ fee : the whole fee set is undelegated
    rename_i hc
    simp only [bind_eq_ok] at h
    obtain ⟨bank, hund, x1, h1, h2⟩ := h
    have hvalid : Coins.isValid fees = true := by
      simp only [undelegate, bind_eq_ok, require_eq_ok] at hund
      exact hund.choose_spec.1
    have hF := amountOf_pos_of_valid fees hvalid D hany
    have hle : Coins.amountOf fees D ≤ (s.ent.lockedOf payer).amt := by
      rw [hpd, safeSub_single _ { denom := D, amt := Coins.amountOf fees D } hld (by omega) hF] at hc
      simpa using hc
    rw [hpd] at h1 h2
    obtain ⟨a1, a2, a3, a4, a5, a6⟩ := books_after_unlock D s x payer { denom := D, amt := Coins.amountOf fees D } fees hi hpd hstr
      hpayer rfl hF hle (amountOf_eq_coinsSum fees hvalid D).symm x1 bank hund h1 h2
    refine ⟨a1, a2, Coins.amountOf fees D, by omega, hle, a3, a4, a5, fun h0 => by omega,
      fun _ => ⟨fees, by rw [a6]; exact hund, (amountOf_eq_coinsSum fees hvalid D).symm⟩, fun _ => Or.inr (by omega)⟩
  · rename_i hc
    split at h
    · -- spendable + locked ≥ fee : everything that is locked is undelegated
      simp only [bind_eq_ok] at h
      obtain ⟨bank, hund, x1, h1, h2⟩ := h
      rw [ofCoin_pos _ hL0] at hund
      obtain ⟨a1, a2, a3, a4, a5, a6⟩ := books_after_unlock D s x payer (s.ent.lockedOf payer) [s.ent.lockedOf payer] hi hpd hstr
        hpayer hld hL0 (Int.le_refl _) (by simp [coinsSum, hld]) x1 bank hund h1 h2
      refine ⟨a1, a2, (s.ent.lockedOf payer).amt, by omega, Int.le_refl _, a3, a4, a5, fun h0 => by omega,
        fun _ => ⟨_, by rw [a6]; exact hund, by simp [coinsSum, hld]⟩, ?_⟩
      intro hvalid
      have hF := amountOf_pos_of_valid fees hvalid D hany
      rw [hpd, safeSub_single _ { denom := D, amt := Coins.amountOf fees D } hld (by omega) hF] at hc
      simp only [Bool.not_eq_true', decide_eq_false_iff_not, Bool.not_eq_false, decide_eq_true_eq, Int.not_lt] at hc
      right; omega
    · simp only [pure_eq_ok] at h
      subst h
      refine ⟨hi, rfl, 0, Int.le_refl _, by omega, by simp, by simp, fun _ _ => ⟨rfl, rfl⟩, fun _ => ⟨rfl, rfl⟩,
        fun h0 => absurd h0 (Int.lt_irrefl _), fun _ => Or.inl rfl⟩


/-! ### completion of an accepted order -/

/-- `MintCoinsAndLock` of a positive coin for a non-blocked recipient -/
theorem mintAndLock_spec (D : String) (y y' : EB) (now : Int) (a : Addr) (c : Coin) (hc : 0 < c.amt)
    (hokL : ∀ b k, find? y.ent.locked b = some k → k.denom = D ∧ 0 ≤ k.amt)
    (htl : y.ent.totalLocked.denom = D) (hbank : BankInv y.bank) (hnv : find? y.bank.vest Ment = none)
    (h : EB.mintAndLock y now isBlocked a c = .ok y') :
    c.denom = D ∧ a ≠ Ment ∧ y'.ent.book = y.ent.book ∧ y'.ent.spent = y.ent.spent ∧ y'.ent.totalSpent = y.ent.totalSpent ∧
    y'.ent.locked = insert y.ent.locked a { denom := D, amt := (y.ent.lockedOf a).amt + c.amt } ∧
    y'.ent.totalLocked = { denom := D, amt := y.ent.totalLocked.amt + c.amt } ∧
    BankInv y'.bank ∧
    (∀ a' d', (y'.bank.balOf a' d' : Int) = y.bank.balOf a' d' + (if a' = Ment ∧ d' = D then c.amt else 0)) ∧
    (∀ d', (y'.bank.supplyOf d' : Int) = y.bank.supplyOf d' + (if d' = D then c.amt else 0)) ∧
    (∀ m, find? y.bank.vest m = none → find? y'.bank.vest m = none) := by
  unfold EB.mintAndLock at h
  have hne : ¬ (c.amt = 0) := by omega
  simp only [hne, if_false, bind_eq_ok, require_eq_ok, Bool.not_eq_true'] at h
  obtain ⟨_, _, b1, h1, _, hbl, b2, h2, b3, h3, hinc⟩ := h
  simp only [EB.incrementLocked, coinAdd, bind_eq_ok, pure_eq_ok, require_eq_ok, decide_eq_true_eq] at hinc
  obtain ⟨l, ⟨_, hden1, _, _, rfl⟩, t, ⟨_, hden2, _, _, rfl⟩, rfl⟩ := hinc
  have haM : a ≠ Ment := by intro e; subst e; simp [isBlocked_Ment] at hbl
  have hcD : c.denom = D := by rw [← hden2]; exact htl
  obtain ⟨i1, v1, e1, sup1⟩ := mint_spec y.bank b1 Ment _ hbank h1
  have hl1 : ∀ d, 0 ≤ Coins.amountOf (lockedCoins b1 now Ment) d :=
    locked_nonvesting b1 _ Ment (by rw [v1]; exact hnv)
  obtain ⟨i2, s2, v2, e2⟩ := sendCoins_spec b1 b2 _ Ment a _ i1 hl1 h2
  obtain ⟨i3, s3, v3, e3⟩ := delegate_spec b2 b3 _ a Ment _ i2 h3
  refine ⟨hcD, haM, rfl, rfl, rfl, ?_, ?_, i3, ?_, ?_, ?_⟩
  · simp only [hden1, hcD]
  · simp only [htl]
  · intro a' d'
    show (b3.balOf a' d' : Int) = _
    rw [e3, e2, e1]
    by_cases hm' : a' = Ment
    · subst hm'
      rw [outSum_self, outSum_other a _ Ment d' haM, coinsSum_single]
      simp only [hcD, true_and]
      by_cases hd : D = d'
      · subst hd; simp
      · have : ¬ d' = D := fun h => hd h.symm
        simp [hd, this]
    · have : Ment ≠ a' := fun h => hm' h.symm
      rw [outSum_other Ment _ a' d' this]
      simp [hm']
  · intro d'
    show (b3.supplyOf d' : Int) = _
    rw [show b3.supplyOf d' = b2.supplyOf d' by unfold supplyOf; rw [s3], show b2.supplyOf d' = b1.supplyOf d' by unfold supplyOf; rw [s2],
      sup1 d', coinsSum_single]
    simp only [hcD]
    by_cases hd : D = d'
    · subst hd; simp
    · have : ¬ d' = D := fun h => hd h.symm
      simp [hd, this]
  · intro m hm'
    exact v3 m (by rw [v2, v1]; exact hm')

/-- **completion** : mints exactly the order's amount (in the enterprise denomination) into escrow,
credits it to the purchaser's locked eFUND, and nothing else moves -/
theorem completeOne_spec (D : String) (s : State) (x : EB) (id : Nat) (hi : BooksInv D s) (hbook : BookInv s.ent)
    (hstr : StreamInv (toSB s))
    (h : EB.completeOne { ent := s.ent, bank := s.bank } s.nowSec isBlocked id = .ok x) :
    BooksInv D { s with ent := x.ent, bank := x.bank } ∧
    ∃ po a, find? s.ent.orders id = some po ∧ po.status = stAccepted ∧ po.purchaser.decode = some a ∧ po.denom = D ∧
      a ≠ Ment ∧ BankInv x.bank ∧
      (∀ a' d', (x.bank.balOf a' d' : Int) = s.bank.balOf a' d' + (if a' = Ment ∧ d' = D then po.amt else 0)) ∧
      (∀ d', (x.bank.supplyOf d' : Int) = s.bank.supplyOf d' + (if d' = D then po.amt else 0)) ∧
      (∀ m, find? s.bank.vest m = none → find? x.bank.vest m = none) ∧
      (x.ent.lockedOf a).amt = (s.ent.lockedOf a).amt + po.amt ∧
      (∀ b, b ≠ a → find? x.ent.locked b = find? s.ent.locked b) ∧ x.ent.spent = s.ent.spent ∧
      x.ent.totalSpent = s.ent.totalSpent ∧ x.ent.totalLocked.amt = s.ent.totalLocked.amt + po.amt := by
  have ho := completeOne_orders _ x _ _ id h
  obtain ⟨hoth, po, hf, hst, hf'⟩ := ho
  simp only at hf hoth hf'
  have hA := hbook.amtPos id po hf
  unfold EB.completeOne at h
  simp only [hf, hst] at h
  split at h
  · exact absurd rfl (by assumption)
  · split at h
    · cases h
    · rename_i a ha
      simp only [bind_eq_ok, pure_eq_ok] at h
      obtain ⟨x2, hx2, rfl⟩ := h
      obtain ⟨hcD, haM, hbk, hsp, hts, hl, htl, ib, hbal, hsup, hv⟩ :=
        mintAndLock_spec D _ x2 _ a { denom := po.denom, amt := po.amt } hA hi.okL hi.totL hstr.bank
          (hstr.modNoVest Ment (by decide)) (asPanic_ok _ _ hx2)
      simp only at hcD hbk hsp hts hl htl hbal hsup hv
      simp only [EntState.book, Prod.mk.injEq] at hbk
      have hL0 : 0 ≤ (s.ent.lockedOf a).amt := by
        rw [lockedOf_amt]; cases hfa : find? s.ent.locked a with
        | none => simp [fOpt]
        | some c => simpa [fOpt, coinAmt] using (hi.okL a c hfa).2
      have hlo : (EntState.lockedOf { s.ent with orders := insert s.ent.orders id { po with status := stCompleted } } a) = s.ent.lockedOf a := rfl
      rw [hlo] at hl
      refine ⟨?_, po, a, hf, hst, ha, hcD, haM, ib, hbal, hsup, hv, ?_, ?_, hsp, hts, ?_⟩
      · constructor
        · show NoDupKeys x2.ent.locked; rw [hl]; exact nodup_insert _ _ _ hi.nodupL
        · show NoDupKeys x2.ent.spent; rw [hsp]; exact hi.nodupS
        · intro b c hfb
          change find? x2.ent.locked b = some c at hfb
          rw [hl, find_insert] at hfb
          split at hfb
          · cases hfb; exact ⟨rfl, by simp only; omega⟩
          · exact hi.okL b c hfb
        · intro b c hfb
          change find? x2.ent.spent b = some c at hfb
          rw [hsp] at hfb; exact hi.okS b c hfb
        · show x2.ent.totalLocked.denom = D; rw [htl]
        · show x2.ent.totalSpent.denom = D; rw [hts]; exact hi.totS
        · intro d
          show (x2.bank.balOf Ment d : Int) = if d = D then x2.ent.totalLocked.amt else 0
          rw [hbal Ment d, hi.escrow d, htl]
          by_cases hd : d = D <;> simp [hd]
        · show sumF coinAmt x2.ent.locked = x2.ent.totalLocked.amt
          rw [hl, htl, sumF_insert, ← lockedOf_amt, hi.sumL]; simp [coinAmt]; omega
        · show sumF coinAmt x2.ent.spent = x2.ent.totalSpent.amt
          rw [hsp, hts]; exact hi.sumS
        · intro b
          show (x2.ent.lockedOf b).amt + (x2.ent.spentOf b).amt = sumF (completedOf b) x2.ent.orders
          rw [lockedOf_amt, spentOf_amt, hl, hsp, hbk.2.2.1]
          rw [completedSum_update s.ent id po { po with status := stCompleted } _ b hf rfl, ← hi.perAcct b, find_insert]
          have hc0 : completedOf b po = 0 := by simp [completedOf, hst, stAccepted, stCompleted]
          rw [hc0]
          by_cases hab : a = b
          · subst hab
            have e1 : fOpt coinAmt (some ({ denom := D, amt := (s.ent.lockedOf a).amt + po.amt } : Coin)) =
                (s.ent.lockedOf a).amt + po.amt := rfl
            have e2 : completedOf a { po with status := stCompleted } = po.amt := by simp [completedOf, ha]
            simp only [if_true]
            rw [e1, e2, ← spentOf_amt]; omega
          · have e2 : completedOf b { po with status := stCompleted } = 0 := by
              simp only [completedOf, ha, Option.some.injEq, hab, and_false, if_false]
            simp only [hab, if_false]
            rw [e2, ← lockedOf_amt, ← spentOf_amt]; omega
      · show (x2.ent.lockedOf a).amt = _
        rw [lockedOf_amt, hl, find_insert_eq]; simp [fOpt, coinAmt]
      · intro b hb'
        have : a ≠ b := fun h => hb' h.symm
        show find? x2.ent.locked b = _
        rw [hl]; exact find_insert_ne _ _ _ _ this
      · show x2.ent.totalLocked.amt = _
        rw [htl]


/-! ### every elementary step keeps the books -/

theorem entOp_books (now : Nat) (a b : EntState) (hi : BookInv a) (h : EntOp now a b) :
    b.locked = a.locked ∧ b.spent = a.spent ∧ b.totalLocked = a.totalLocked ∧ b.totalSpent = a.totalSpent ∧
    ∀ x, completedSum b x = completedSum a x := by
  cases h with
  | raise p denom amt id h =>
    simp only [EntState.raise, bind_eq_ok, pure_eq_ok, Prod.mk.injEq] at h
    obtain ⟨_, _, _, _, _, _, _, _, rfl, _⟩ := h
    refine ⟨rfl, rfl, rfl, rfl, ?_⟩
    intro x
    simp only [completedSum]
    rw [sumF_insert, find_fresh_none a hi]
    simp [fOpt, completedOf, stRaised, stCompleted]
  | decide id dec sg h =>
    simp only [EntState.decide_, bind_eq_ok, pure_eq_ok] at h
    obtain ⟨_, _, _, _, po, hpo, _, _, _, _, _, _, _, _, rfl⟩ := h
    refine ⟨rfl, rfl, rfl, rfl, ?_⟩
    intro x
    simp only [completedSum]
    rw [sumF_insert, findOrder_ok _ _ _ hpo]
    simp [fOpt, completedOf]
  | whitelist action addr sg h =>
    simp only [EntState.whitelistMsg, bind_eq_ok] at h
    obtain ⟨_, _, _, _, _, _, _, _, h⟩ := h
    split at h
    · simp only [bind_eq_ok, pure_eq_ok] at h; obtain ⟨_, _, rfl⟩ := h; exact ⟨rfl, rfl, rfl, rfl, fun _ => rfl⟩
    · simp only [bind_eq_ok, pure_eq_ok] at h; obtain ⟨_, _, rfl⟩ := h; exact ⟨rfl, rfl, rfl, rfl, fun _ => rfl⟩
  | setParams p h =>
    simp only [EntState.setParams, bind_eq_ok, pure_eq_ok] at h
    obtain ⟨_, _, rfl⟩ := h
    exact ⟨rfl, rfl, rfl, rfl, fun _ => rfl⟩

theorem tallyOne_completed (e e' : EntState) (now id : Nat) (h : e.tallyOne now id = .ok e') :
    ∀ x, completedSum e' x = completedSum e x := by
  unfold EntState.tallyOne at h
  split at h
  · cases h
  · rename_i po hf
    split at h
    · cases h
    · rename_i hst
      have hst : po.status = stRaised := by simpa using hst
      split at h
      · cases h; exact fun _ => rfl
      · rename_i st hd
        cases h
        have hv := tallyDecision_valid _ _ _ _ hd
        intro x
        have hne : st ≠ stCompleted := by rcases hv with rfl | rfl <;> decide
        have key : ∀ (e2 : EntState), e2.orders = insert e.orders id { po with status := st, completionTime := now } →
            completedSum e2 x = completedSum e x := by
          intro e2 he2
          simp only [completedSum]
          rw [he2, sumF_insert, hf]
          have hne' : ¬ (st = 4) := hne
          simp [fOpt, completedOf, hst, hne', stRaised, stCompleted]
        split
        · exact key _ rfl
        · exact key _ rfl

/-- a leaf message signed by an address somebody can sign for never touches the enterprise escrow's
balances (and changes no supply) -/
theorem leaf_keeps_Ment (wall : Nat) (s s' : State) (m : Msg) (r : Resp) (hl : m.isLeaf = true) (hsig : m.SignedOK)
    (h : execMsg wall s m = .ok (s', r)) : KeepsAt Ment s.bank s'.bank :=
  leaf_bank_rel (KeepsAt Ment) (fun x => Ment ≠ x) s (keepsAt_rel Ment _) (by decide) (by decide)
    (fun x hx => by intro e; subst e; simp [isBlocked_Ment] at hx)
    (fun x hx e => maySign_ne_Ment x hx e.symm) wall s' m r hl hsig h

theorem leaf_ent (wall : Nat) (s s' : State) (m : Msg) (r : Resp) (hl : m.isLeaf = true)
    (h : execMsg wall s m = .ok (s', r)) : s'.ent = s.ent ∨ EntOp s.nowSecU s.ent s'.ent := by
  have h := leaf_step wall s s' m r hl h
  cases h with
  | ent e hop hs => subst hs; exact Or.inr hop
  | reg k r _ hs => subst hs; exact Or.inl (setReg_ent _ _ _)
  | str x _ hs => subst hs; exact Or.inl rfl
  | strParams fee _ hs => subst hs; exact Or.inl rfl
  | send a b coins bank _ _ hs => subst hs; exact Or.inl rfl
  | authz ea g hs => subst hs; exact Or.inl rfl
  | feegrant ea al hs => subst hs; exact Or.inl rfl
  | revoke g hs => subst hs; exact Or.inl rfl

/-- history assumption for the books: the bank behaves (`BankSane`), the order-id counter has not
wrapped (`EntQ`) and governance has not changed the enterprise denomination away from `D` -/
def BooksQ (D : String) (s : State) : Prop := BankSane s ∧ EntQ s ∧ s.ent.params.denom = D

theorem books_step (D : String) (s s' : State) (hq : BooksQ D s) (hstr : StreamInv (toSB s)) (hbook : BookInv s.ent)
    (hi : BooksInv D s) (h : FineStep s s') : BooksInv D s' := by
  cases h with
  | leaf wall m r hl hg hsig h =>
    obtain ⟨_, hbal, _⟩ := leaf_keeps_Ment wall s s' m r hl hsig h hstr.bank
    rcases leaf_ent wall s s' m r hl h with he | hop
    · exact booksInv_of_eq D s s' hi (by rw [he]) (by rw [he]) (by rw [he]) (by rw [he]) hbal (fun a => by rw [he])
    · obtain ⟨e1, e2, e3, e4, e5⟩ := entOp_books _ _ _ hbook hop
      exact booksInv_of_eq D s s' hi e1 e2 e3 e4 hbal e5
  | ante tx hu hg h =>
    cases h with
    | none hs => subst hs; exact hi
    | unlock payer x hp _ hlk hx hs =>
      subst hs
      have hpu := payer_user tx payer hu hp
      have hpM : payer ≠ Ment := by intro e; subst e; simp [Ment] at hpu
      exact (unlockForFees_spec D s x payer tx.fee hi hq.2.2 hstr hpM hlk hx).1
    | deduct payer src b hp hsrc hx hs =>
      subst hs
      have hpu := payer_user tx payer hu hp
      have hsne : Ment ≠ src := by
        rcases hsrc with he | hal
        · subst he; intro e; subst e; simp [Ment] at hpu
        · exact fun e => maySign_ne_Ment src (hg.2 src payer hal) e.symm
      obtain ⟨_, hbal, _⟩ := sendCoins_keeps Ment src Mfee _ _ _ _ hsne (by decide) hx hstr.bank
      exact booksInv_of_eq D s _ hi rfl rfl rfl rfl hbal (fun _ => rfl)
  | time t _ hs => subst hs; exact booksInv_of_eq D s _ hi rfl rfl rfl rfl (fun _ => rfl) (fun _ => rfl)
  | complete id x hx hs => subst hs; exact (completeOne_spec D s x id hi hbook hstr hx).1
  | tally id e ht hs =>
    subst hs
    have hf := tallyOne_frame _ _ _ _ ht
    exact booksInv_of_eq D s _ hi hf.2.2.2.1 hf.2.2.2.2.1 hf.2.2.2.2.2.1 hf.2.2.2.2.2.2 (fun _ => rfl) (tallyOne_completed _ _ _ _ ht)

end Mainchain
