import Mainchain.Model.Chain
/-
A concrete history shared by the negation witnesses of the denomination-change findings (C14, C15):
an order of 777 nund is raised, accepted by two of three signers, tallied and completed.
-/
namespace Mainchain

def dGen : GenCfg :=
  { timeSec := 1700000000,
    accts := [0, 1, 2, 3].map (fun i => { id := i, exists_ := true, balance := [{ denom := "nund", amt := 1000000 }], vest := none }),
    ent := { denom := "nund", minAccepts := 2, decisionLimit := 3000, signers := [.ok 0 false, .ok 1 false, .ok 2 false] },
    entWl := [3],
    wrk := { denom := "nund", feeReg := 24, feeRec := 2, feeBuy := 2, defLimit := 3, maxLimit := 6 },
    bcn := { denom := "nund", feeReg := 24, feeRec := 2, feeBuy := 2, defLimit := 3, maxLimit := 6 } }

def dTx (who : Nat) (m : Msg) : Tx := { signers := [who], granter := none, fee := [], sig := .ok, msgs := [m] }

/-- after the order has been raised and accepted by two signers -/
def dDecided : State :=
  [dTx 3 (.entRaise (.ok 3 false) 777 "nund"), dTx 0 (.entDecide 1 2 (.ok 0 false)), dTx 1 (.entDecide 1 2 (.ok 1 false))].foldl
    (fun s tx => (deliverTx Facts.anteOrder 0 s tx).1) { initState dGen with time := 1700000005 * nsPerSec }

def dBegin (s : State) (t : Int) : State :=
  match beginBlock Facts.beginBlockSteps { s with time := t * nsPerSec } with
  | .ok s' => s'
  | .error _ => s

/-- tallied in the next block, completed in the one after -/
def dLocked : State := dBegin (dBegin dDecided 1700000010) 1700000015

end Mainchain
