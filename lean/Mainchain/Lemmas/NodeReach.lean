import Mainchain.Lemmas.Chain
import Mainchain.Model.Script
/-
The interpreter that is compared with the real application (`Script.stepToks`, compiled into `mdriver`) only
ever puts a node into states of the transition system the theorems are about (`Reachable`): the correspondence
runs and the proofs talk about the same machine.
-/
namespace Mainchain
open Script

/-- all three states of a node (committed, working = deliver state, check state) are states of the transition
system started from the scenario genesis `g` -/
structure NodeReach (g : GenCfg) (n : Node) : Prop where
  committed : Reachable g n.committed
  working : Reachable g n.working
  check : Reachable g n.check

theorem nodeReach_init (g : GenCfg) : NodeReach g (Node.init g) :=
  ⟨.init, .init, .init⟩

theorem nodeReach_begin (g : GenCfg) (n n' : Node) (t : Int) (h : NodeReach g n) (ht : n.committed.time ≤ t)
    (hb : n.begin t = .ok n') : NodeReach g n' := by
  simp only [Node.begin, bind_eq_ok, pure_eq_ok] at hb
  obtain ⟨s, hs, rfl⟩ := hb
  exact ⟨h.committed, .step _ _ h.committed (.begin t ht hs), h.check⟩

theorem nodeReach_deliver (g : GenCfg) (n : Node) (wall : Nat) (tx : Tx) (h : NodeReach g n) :
    NodeReach g (n.deliver wall tx).1 :=
  ⟨h.committed, .step _ _ h.working (.deliver wall tx rfl), h.check⟩

theorem nodeReach_checkTx (g : GenCfg) (n : Node) (tx : Tx) (h : NodeReach g n) : NodeReach g (n.checkTx tx).1 :=
  ⟨h.committed, h.working, .step _ _ h.check (.check tx rfl)⟩

theorem nodeReach_recheckTx (g : GenCfg) (n : Node) (tx : Tx) (h : NodeReach g n) : NodeReach g (n.recheckTx tx).1 :=
  ⟨h.committed, h.working, .step _ _ h.check (.recheck tx rfl)⟩

theorem govFold_reachable (g : GenCfg) (wall : Nat) (govs : List (List Msg)) :
    ∀ (acc : State × List Bool), Reachable g acc.1 →
      Reachable g (govs.foldl (fun (acc : State × List Bool) ms =>
        let (s', ok) := govExecAll wall acc.1 ms
        (s', acc.2 ++ [ok])) acc).1 := by
  induction govs with
  | nil => intro acc h; exact h
  | cons ms rest ih =>
    intro acc h
    simp only [List.foldl_cons]
    exact ih _ (.step _ _ h (.govAll wall ms rfl))

theorem nodeReach_endBlock (g : GenCfg) (n : Node) (wall : Nat) (govs : List (List Msg)) (h : NodeReach g n) :
    NodeReach g (n.endBlock wall govs).1 :=
  ⟨h.committed, govFold_reachable g wall govs (n.working, []) h.working, h.check⟩

theorem nodeReach_commit (g : GenCfg) (n : Node) (h : NodeReach g n) : NodeReach g n.commit :=
  ⟨h.working, h.working, h.working⟩

theorem nodeReach_crash (g : GenCfg) (n : Node) (h : NodeReach g n) : NodeReach g n.crash :=
  ⟨h.committed, h.committed, h.committed⟩

/-- what a script line must satisfy for the statement below — both are guarantees of the environment, and the
generator of the harness respects them: block times never go backwards (CometBFT's BFT time), and `INIT` comes
first (the scenario genesis is fixed from then on). -/
def LineOK (g : GenCfg) (it : Interp) (toks : List String) : Prop :=
  (toks = ["INIT"] → it.cfg = g) ∧
  (∀ sec ns n s nn, toks = ["BEGIN", sec, ns] → it.node = some n → sec.toInt? = some s → ns.toInt? = some nn →
      n.committed.time ≤ s * nsPerSec + nn)

/-- the interpreter's node, if any, is in reachable states -/
def InterpReach (g : GenCfg) (it : Interp) : Prop := ∀ n, it.node = some n → NodeReach g n

/-- **Every line keeps the interpreter inside the transition system** — except an `EXPORTIMPORT` whose import is
not the identity (more than 20,000 records retained, see C15): that one continues from the imported state, which
is stated separately (`exportImport … = .ok s` is exactly the conclusion of `c15_export_import_identity`). -/
theorem stepToks_reach (g : GenCfg) (wall : Nat) (it : Interp) (line : String) (toks : List String)
    (h : InterpReach g it) (hl : LineOK g it toks)
    (hx : toks = ["EXPORTIMPORT"] → ∀ n s', it.node = some n →
      Genesis.exportImport Facts.initGenesisOrder n.committed = .ok s' → s' = n.committed) :
    InterpReach g (stepToks wall it line toks).1 := by
  unfold stepToks
  split
  · exact h
  · split <;> exact h
  · -- INIT
    intro n hn
    simp only [Option.some.injEq] at hn
    subst hn
    rw [hl.1 rfl]
    exact nodeReach_init g
  · -- BEGIN
    rename_i sec ns
    split
    · rename_i n s nn hn hs hnn
      split
      · rename_i n' hb
        intro m hm
        simp only [Option.some.injEq] at hm
        subst hm
        exact nodeReach_begin g n _ _ (h n hn) (hl.2 sec ns n s nn rfl hn hs hnn) hb
      · exact h
    · exact h
  · -- TX
    split
    · rename_i n k tx hn _
      intro m hm
      simp only [Option.some.injEq] at hm
      subst hm
      exact nodeReach_deliver g n wall tx (h n hn)
    · exact h
  · -- CHECK
    split
    · rename_i n k tx hn _
      intro m hm
      simp only [Option.some.injEq] at hm
      subst hm
      exact nodeReach_checkTx g n tx (h n hn)
    · exact h
  · -- RECHECK
    split
    · rename_i n k tx hn _
      intro m hm
      simp only [Option.some.injEq] at hm
      subst hm
      exact nodeReach_recheckTx g n tx (h n hn)
    · exact h
  · -- QUERY
    split
    · split <;> exact h
    · exact h
  · -- EXPORTIMPORT
    split
    · rename_i n hn
      split
      · rename_i s' he
        have := hx rfl n s' hn he
        subst this
        intro m hm
        simp only [Option.some.injEq] at hm
        subst hm
        exact ⟨(h n hn).committed, (h n hn).committed, (h n hn).committed⟩
      · exact h
    · exact h
  · -- CRASH
    split
    · rename_i n hn
      intro m hm
      simp only [Option.some.injEq] at hm
      subst hm
      exact nodeReach_crash g n (h n hn)
    · exact h
  · -- DIGEST
    split <;> exact h
  · -- GOVEXEC
    intro m hm
    apply h m
    rw [← hm]
    split <;> (split <;> rfl)
  · -- END
    split
    · rename_i n hn
      intro m hm
      simp only [Option.some.injEq] at hm
      subst hm
      exact nodeReach_endBlock g n wall _ (h n hn)
    · exact h
  · -- COMMIT
    split
    · rename_i n hn
      intro m hm
      simp only [Option.some.injEq] at hm
      subst hm
      exact nodeReach_commit g n (h n hn)
    · exact h
  · exact h

/-- the premises are satisfiable: the first line of every script -/
example : InterpReach {} {} ∧ LineOK {} {} ["INIT"] ∧ (["INIT"] = ["EXPORTIMPORT"] → False) := by
  refine ⟨?_, ⟨fun _ => rfl, ?_⟩, by decide⟩
  · intro n hn; cases hn
  · intro sec ns n s nn ht; simp at ht

/-- the side conditions of `stepToks_reach` for a whole script, each evaluated where the line is executed -/
def ScriptOK (g : GenCfg) (wall : Nat) : Interp → List String → Prop
  | _, [] => True
  | it, l :: ls =>
    (it.halted = false →
      LineOK g it ((l.splitOn " ").filter (· ≠ "")) ∧
      ((l.splitOn " ").filter (· ≠ "") = ["EXPORTIMPORT"] → ∀ n s', it.node = some n →
        Genesis.exportImport Facts.initGenesisOrder n.committed = .ok s' → s' = n.committed)) ∧
    ScriptOK g wall (step wall it l).1 ls

theorem step_reach (g : GenCfg) (wall : Nat) (it : Interp) (l : String) (h : InterpReach g it)
    (hl : it.halted = false →
      LineOK g it ((l.splitOn " ").filter (· ≠ "")) ∧
      ((l.splitOn " ").filter (· ≠ "") = ["EXPORTIMPORT"] → ∀ n s', it.node = some n →
        Genesis.exportImport Facts.initGenesisOrder n.committed = .ok s' → s' = n.committed)) :
    InterpReach g (step wall it l).1 := by
  unfold step
  split
  · exact h
  · rename_i hh
    have hf : it.halted = false := by cases hq : it.halted <;> simp_all
    exact stepToks_reach g wall it l _ h (hl hf).1 (hl hf).2

/-- **whole scripts**: after any number of lines the interpreter's node is in reachable states -/
theorem script_reach (g : GenCfg) (wall : Nat) (ls : List String) :
    ∀ (it : Interp), InterpReach g it → ScriptOK g wall it ls →
      InterpReach g (ls.foldl (fun (it : Interp) l => (step wall it l).1) it) := by
  induction ls with
  | nil => intro it h _; exact h
  | cons l ls ih =>
    intro it h hok
    simp only [List.foldl_cons]
    exact ih _ (step_reach g wall it l h hok.1) hok.2

end Mainchain
