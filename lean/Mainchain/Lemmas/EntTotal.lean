import Mainchain.Lemmas.EntBooksReach
import Mainchain.Lemmas.StreamLive
import Mainchain.Lemmas.ParamsInv
/-
Totality of the enterprise BeginBlocker: under the invariants and explicit "room" assumptions no
reachable state makes `ProcessAcceptedPurchaseOrders` or `TallyPurchaseOrderDecisions` panic.
-/
namespace Mainchain
open AL Bank

/-- what a leaf message can do to the stored orders: a raise adds one order for the message's purchaser
in the message's denomination; everything else keeps purchaser, denomination and amount of every order
and adds none -/
theorem leaf_orders (wall : Nat) (s s' : State) (m : Msg) (r : Resp) (hl : m.isLeaf = true)
    (h : execMsg wall s m = .ok (s', r)) :
    (∃ p amt denom, m = .entRaise p amt denom ∧ denom = s.ent.params.denom ∧
      ∀ id po', find? s'.ent.orders id = some po' →
        (id = s.ent.nextId ∧ po'.purchaser = p ∧ po'.denom = denom) ∨ find? s.ent.orders id = some po') ∨
    (∀ id po', find? s'.ent.orders id = some po' → ∃ po, find? s.ent.orders id = some po ∧
      po'.purchaser = po.purchaser ∧ po'.denom = po.denom ∧ po'.amt = po.amt) := by
  cases m with
  | entRaise p amt denom =>
    left
    simp only [execMsg, EntState.raise, bind_eq_ok, pure_eq_ok, Prod.mk.injEq, require_eq_ok, decide_eq_true_eq] at h
    obtain ⟨x, ⟨_, _, _, hd, _, _, _, _, hx⟩, rfl, _⟩ := h
    subst hx
    refine ⟨p, amt, denom, rfl, hd, ?_⟩
    intro id po' hf
    simp only [find_insert] at hf
    split at hf
    · rename_i he; cases hf; exact Or.inl ⟨he.symm, rfl, rfl⟩
    · exact Or.inr hf
  | entDecide id dec sg =>
    right
    simp only [execMsg, EntState.decide_, bind_eq_ok, pure_eq_ok, Prod.mk.injEq] at h
    obtain ⟨e, ⟨_, _, _, _, po, hpo, _, _, _, _, _, _, _, _, rfl⟩, rfl, _⟩ := h
    intro x po' hf
    simp only [find_insert] at hf
    split at hf
    · rename_i he; subst he; cases hf; exact ⟨po, findOrder_ok _ _ _ hpo, rfl, rfl, rfl⟩
    · exact ⟨po', hf, rfl, rfl, rfl⟩
  | authzExec g msgs => simp [Msg.isLeaf] at hl
  | entWl action a sg =>
    right
    simp only [execMsg, bind_eq_ok, pure_eq_ok, Prod.mk.injEq] at h
    obtain ⟨e, he, rfl, _⟩ := h
    have ho : e.orders = s.ent.orders := by
      simp only [EntState.whitelistMsg, bind_eq_ok] at he
      obtain ⟨_, _, _, _, _, _, _, _, he⟩ := he
      split at he
      · simp only [bind_eq_ok, pure_eq_ok] at he; obtain ⟨_, _, rfl⟩ := he; rfl
      · simp only [bind_eq_ok, pure_eq_ok] at he; obtain ⟨_, _, rfl⟩ := he; rfl
    intro id po' hf
    exact ⟨po', by simpa [ho] using hf, rfl, rfl, rfl⟩
  | entParams auth p =>
    right
    simp only [execMsg, EntState.setParams, bind_eq_ok, pure_eq_ok, Prod.mk.injEq] at h
    obtain ⟨_, _, e, ⟨_, _, rfl⟩, rfl, _⟩ := h
    intro id po' hf; exact ⟨po', hf, rfl, rfl, rfl⟩
  | regReg k moniker name genesis type o =>
    right
    simp only [execMsg, bind_eq_ok, pure_eq_ok, Prod.mk.injEq] at h
    obtain ⟨_, _, rfl, _⟩ := h
    intro id po' hf; exact ⟨po', by rw [setReg_ent] at hf; exact hf, rfl, rfl, rfl⟩
  | regRec k id key rc o =>
    right
    simp only [execMsg, bind_eq_ok, pure_eq_ok, Prod.mk.injEq] at h
    obtain ⟨_, _, rfl, _⟩ := h
    intro id po' hf; exact ⟨po', by rw [setReg_ent] at hf; exact hf, rfl, rfl, rfl⟩
  | regBuy k id n o =>
    right
    simp only [execMsg, bind_eq_ok, pure_eq_ok, Prod.mk.injEq] at h
    obtain ⟨_, _, rfl, _⟩ := h
    intro id po' hf; exact ⟨po', by rw [setReg_ent] at hf; exact hf, rfl, rfl, rfl⟩
  | regParams k auth p =>
    right
    simp only [execMsg, bind_eq_ok, pure_eq_ok, Prod.mk.injEq] at h
    obtain ⟨_, _, _, _, rfl, _⟩ := h
    intro id po' hf; exact ⟨po', by rw [setReg_ent] at hf; exact hf, rfl, rfl, rfl⟩
  | strCreate rr sn amt denom rate =>
    right
    simp only [execMsg, bind_eq_ok, pure_eq_ok, Prod.mk.injEq] at h
    obtain ⟨_, _, rfl, _⟩ := h
    intro id po' hf; exact ⟨po', hf, rfl, rfl, rfl⟩
  | strClaim rr sn =>
    right
    simp only [execMsg, bind_eq_ok, pure_eq_ok, Prod.mk.injEq] at h
    obtain ⟨_, _, rfl, _⟩ := h
    intro id po' hf; exact ⟨po', hf, rfl, rfl, rfl⟩
  | strTopup rr sn amt denom =>
    right
    simp only [execMsg, bind_eq_ok, pure_eq_ok, Prod.mk.injEq] at h
    obtain ⟨_, _, rfl, _⟩ := h
    intro id po' hf; exact ⟨po', hf, rfl, rfl, rfl⟩
  | strRate rr sn rate =>
    right
    simp only [execMsg, bind_eq_ok, pure_eq_ok, Prod.mk.injEq] at h
    obtain ⟨_, _, rfl, _⟩ := h
    intro id po' hf; exact ⟨po', hf, rfl, rfl, rfl⟩
  | strCancel rr sn =>
    right
    simp only [execMsg, bind_eq_ok, pure_eq_ok, Prod.mk.injEq] at h
    obtain ⟨_, _, rfl, _⟩ := h
    intro id po' hf; exact ⟨po', hf, rfl, rfl, rfl⟩
  | strParams auth fee =>
    right
    simp only [execMsg, bind_eq_ok, pure_eq_ok, Prod.mk.injEq] at h
    obtain ⟨_, _, _, _, rfl, _⟩ := h
    intro id po' hf; exact ⟨po', hf, rfl, rfl, rfl⟩
  | bankSend src dst coins =>
    right
    simp only [execMsg, bind_eq_ok, pure_eq_ok, Prod.mk.injEq] at h
    obtain ⟨_, _, _, _, _, _, _, _, rfl, _⟩ := h
    intro id po' hf; exact ⟨po', hf, rfl, rfl, rfl⟩
  | authzGrant g e kind =>
    right
    simp only [execMsg, bind_eq_ok, pure_eq_ok, Prod.mk.injEq] at h
    obtain ⟨_, _, _, _, rfl, _⟩ := h
    intro id po' hf; exact ⟨po', hf, rfl, rfl, rfl⟩
  | authzRevoke g e kind =>
    right
    simp only [execMsg, bind_eq_ok, pure_eq_ok, Prod.mk.injEq] at h
    obtain ⟨_, _, _, _, _, _, rfl, _⟩ := h
    intro id po' hf; exact ⟨po', hf, rfl, rfl, rfl⟩
  | feegrantGrant g e =>
    right
    simp only [execMsg, bind_eq_ok, pure_eq_ok, Prod.mk.injEq] at h
    obtain ⟨_, _, _, _, _, _, rfl, _⟩ := h
    intro id po' hf; exact ⟨po', hf, rfl, rfl, rfl⟩

/-- every stored order is in the enterprise denomination `D` and its purchaser is an address that can sign -/
def OrdersOK (D : String) (s : State) : Prop :=
  ∀ id po, find? s.ent.orders id = some po → po.denom = D ∧ ∃ a, po.purchaser.decode = some a ∧ MaySign a

theorem ordersOK_step (D : String) (s s' : State) (hq : s.ent.params.denom = D) (hbook : BookInv s.ent)
    (hi : OrdersOK D s) (h : FineStep s s') : OrdersOK D s' := by
  cases h with
  | leaf wall m r hl hg hsig hx =>
    rcases leaf_orders wall s s' m r hl hx with ⟨p, amt, denom, rfl, hd, hnew⟩ | hold
    · intro id po' hf
      rcases hnew id po' hf with ⟨_, hp, hden⟩ | hf'
      · obtain ⟨a, ha, hmay⟩ := hsig
        simp only [Msg.signer, signerTok_entRaise, Option.bind_some] at ha
        exact ⟨by rw [hden, hd, hq], a, by rw [hp]; exact ha, hmay⟩
      · exact hi id po' hf'
    · intro id po' hf
      obtain ⟨po, hf0, hp, hd, _⟩ := hold id po' hf
      obtain ⟨h1, a, h2, h3⟩ := hi id po hf0
      exact ⟨by rw [hd]; exact h1, a, by rw [hp]; exact h2, h3⟩
  | ante tx _ _ hx =>
    cases hx with
    | none hs => subst hs; exact hi
    | unlock payer x _ _ _ hx hs =>
      subst hs
      have hb := unlockForFees_book _ _ _ _ _ hx
      simp only [EntState.book, Prod.mk.injEq] at hb
      intro id po hf; exact hi id po (by simpa [hb.2.2.1] using hf)
    | deduct _ _ _ _ _ _ hs => subst hs; exact hi
  | time t _ hs => subst hs; exact hi
  | complete id x hx hs =>
    subst hs
    intro y po' hf
    obtain ⟨po, hf0, ev⟩ : ∃ po, find? s.ent.orders y = some po ∧ po'.purchaser = po.purchaser ∧ po'.denom = po.denom := by
      obtain ⟨hoth, po, hfid, _, hfid'⟩ := completeOne_orders _ x _ _ id hx
      simp only at hoth hfid hfid'
      by_cases hy : y = id
      · subst hy
        have hf' : find? x.ent.orders y = some po' := hf
        rw [hfid'] at hf'; cases hf'; exact ⟨po, hfid, rfl, rfl⟩
      · have hf' : find? x.ent.orders y = some po' := hf
        rw [hoth y hy] at hf'; exact ⟨po', hf', rfl, rfl⟩
    obtain ⟨h1, a, h2, h3⟩ := hi y po hf0
    exact ⟨by rw [ev.2]; exact h1, a, by rw [ev.1]; exact h2, h3⟩
  | tally id e ht hs =>
    subst hs
    intro y po' hf
    obtain ⟨_, hoth, po, hfid, _, hfid'⟩ := tallyOne_orders _ _ _ _ ht
    by_cases hy : y = id
    · subst hy
      have hf' : find? e.orders y = some po' := hf
      rw [hfid'] at hf'; cases hf'
      obtain ⟨h1, a, h2, h3⟩ := hi y po hfid
      unfold tallyRec; split
      · exact ⟨h1, a, h2, h3⟩
      · exact ⟨h1, a, h2, h3⟩
    · have hf' : find? e.orders y = some po' := hf
      rw [hoth y hy] at hf'; exact hi y po' hf'

/-! ### the tally cannot panic -/

theorem tallyOne_ok (e : EntState) (now id : Nat) (po : PO) (hf : find? e.orders id = some po) (hst : po.status = stRaised) :
    ∃ e', e.tallyOne now id = .ok e' := by
  unfold EntState.tallyOne
  simp only [hf, hst, ne_eq, not_true_eq_false, if_false]
  split
  · exact ⟨_, rfl⟩
  · exact ⟨_, rfl⟩

theorem tally_fold_total (now : Nat) : ∀ (q : List Nat) (e : EntState), q.Nodup →
    (∀ x ∈ q, ∃ po, find? e.orders x = some po ∧ po.status = stRaised) →
    ∃ e', q.foldlM (fun (e : EntState) (id : Nat) => e.tallyOne now id) e = .ok e' := by
  intro q
  induction q with
  | nil => intro e _ _; exact ⟨e, rfl⟩
  | cons id rest ih =>
    intro e hnd hall
    have hn := List.nodup_cons.mp hnd
    obtain ⟨po, hf, hst⟩ := hall id (by simp)
    obtain ⟨e1, h1⟩ := tallyOne_ok e now id po hf hst
    obtain ⟨_, hoth, _⟩ := tallyOne_orders e e1 now id h1
    obtain ⟨e', h'⟩ := ih e1 hn.2 (by
      intro x hx
      have hne : x ≠ id := fun he => hn.1 (he ▸ hx)
      rw [hoth x hne]
      exact hall x (by simp [hx]))
    exact ⟨e', by simp only [List.foldlM_cons, bind, Except.bind, h1]; exact h'⟩

/-- **`TallyPurchaseOrderDecisions` never panics** on a state whose order book is consistent -/
theorem tally_total (e : EntState) (now : Nat) (hi : BookInv e) : ∃ e', e.tally now = .ok e' :=
  tally_fold_total now e.raisedQ e (asc_nodup _ hi.rqAsc) (fun x hx => (hi.rq x).mp hx)

/-! ### bank operations on a single coin succeed when there is room -/

theorem mint_single_ok (b : Bank) (m : Addr) (c : Coin) (hpos : 0 < c.amt) (hden : c.denom.isEmpty = false)
    (h1 : fitsInt256 ((b.balOf m c.denom : Int) + c.amt) = true) (h2 : fitsInt256 ((b.supplyOf c.denom : Int) + c.amt) = true) :
    ∃ b', b.mint m [c] = .ok b' := by
  have hvalid : Coins.isValid [c] = true := by simp [Coins.isValid, hpos, hden]
  have hsup : (b.setBal m c.denom ((b.balOf m c.denom : Int) + c.amt).toNat).supplyOf c.denom = b.supplyOf c.denom := rfl
  simp only [mint, addCoins, hvalid, require_true, List.foldlM_cons, List.foldlM_nil, addCoin, h1, bind, Except.bind, pure,
    Except.pure, addSupply, hsup, h2]
  exact ⟨_, rfl⟩

theorem delegate_single_ok (b : Bank) (now : Int) (a m : Addr) (c : Coin) (hpos : 0 < c.amt) (hden : c.denom.isEmpty = false)
    (hb : BankInv b) (hne : a ≠ m) (hfunds : c.amt ≤ b.balOf a c.denom)
    (hfit : fitsInt256 ((b.balOf m c.denom : Int) + c.amt) = true) :
    ∃ b', b.delegate now a m [c] = .ok b' := by
  have hvalid : Coins.isValid [c] = true := by simp [Coins.isValid, hpos, hden]
  have g1 : decide (c.amt ≤ (b.balOf a c.denom : Int)) = true := by simpa using hfunds
  have hbal : ((b.setBal a c.denom ((b.balOf a c.denom : Int) - c.amt).toNat).trackDelegation now a [c]).balOf m c.denom = b.balOf m c.denom := by
    have hf := trackDelegation_frame (b.setBal a c.denom ((b.balOf a c.denom : Int) - c.amt).toNat) now a [c]
    show get ((b.setBal a c.denom ((b.balOf a c.denom : Int) - c.amt).toNat).trackDelegation now a [c]).bal (m, c.denom) = get b.bal (m, c.denom)
    rw [hf.1]
    show get (setNat b.bal (a, c.denom) _) (m, c.denom) = _
    exact get_setNat_ne _ _ _ _ (by intro e; exact hne (Prod.mk.inj e).1)
  simp only [delegate, hvalid, require_true, List.foldlM_cons, List.foldlM_nil, takeCoin, g1, bind, Except.bind, pure, Except.pure,
    addCoins, addCoin, hbal, hfit]
  exact ⟨_, rfl⟩

/-! ### the completion pass cannot panic while there is room below 2^255 -/

/-- room for minting `A` more coins of denomination `D` without overflowing the bank's 256-bit integers -/
structure MintRoom (D : String) (s : State) (A : Int) : Prop where
  all : ∀ a, (s.bank.balOf a D : Int) + A < 2 ^ 255
  supply : (s.bank.supplyOf D : Int) + A < 2 ^ 255
  total : s.ent.totalLocked.amt + A < 2 ^ 255

theorem fits_of_lt (x : Int) (h0 : 0 ≤ x) (h : x < 2 ^ 255) : fitsInt256 x = true := by
  unfold fitsInt256 two256
  simp only [decide_eq_true_eq]
  have e1 : (2 : Int) ^ 255 = 57896044618658097711785492504343953926634992332820282019728792003956564819968 := by decide
  have e2 : (2 : Nat) ^ 256 = 115792089237316195423570985008687907853269984665640564039457584007913129639936 := by decide
  rw [e1] at h; rw [e2]; omega

theorem completeOne_total (D : String) (s : State) (id : Nat) (hi : BooksInv D s) (hbook : BookInv s.ent)
    (hstr : StreamInv (toSB s)) (hok : OrdersOK D s) (hD : validDenom D = true) (hpd : s.ent.params.denom = D)
    (hid : id ∈ s.ent.acceptedQ) (hroom : ∀ po, find? s.ent.orders id = some po → MintRoom D s po.amt) :
    ∃ x, EB.completeOne { ent := s.ent, bank := s.bank } s.nowSec isBlocked id = .ok x := by
  obtain ⟨po, hf, hst⟩ := (hbook.aq id).mp hid
  obtain ⟨hden, a, ha, hmay⟩ := hok id po hf
  subst hden
  have hA := hbook.amtPos id po hf
  have room := hroom po hf
  have hnb := maySign_not_blocked a hmay
  have haM : a ≠ Ment := by intro e; subst e; simp [isBlocked_Ment] at hnb
  have hdne := denom_nonempty po.denom hD
  -- mint
  have hMnn : (0 : Int) ≤ (s.bank.balOf Ment po.denom : Int) := Int.natCast_nonneg _
  obtain ⟨b1, h1⟩ := mint_single_ok s.bank Ment { denom := po.denom, amt := po.amt } hA hdne
    (fits_of_lt _ (by simp only; omega) (room.all Ment)) (fits_of_lt _ (by simp only; have : (0:Int) ≤ (s.bank.supplyOf po.denom : Int) := Int.natCast_nonneg _; omega) room.supply)
  obtain ⟨i1, v1, e1, _⟩ := mint_spec s.bank b1 Ment _ hstr.bank h1
  -- send escrow → purchaser
  have hb1M : (b1.balOf Ment po.denom : Int) = s.bank.balOf Ment po.denom + po.amt := by
    rw [e1 Ment po.denom, outSum_self, coinsSum_single]; simp
  have hb1a : b1.balOf a po.denom = s.bank.balOf a po.denom := by
    have := e1 a po.denom
    rw [outSum_other Ment _ a po.denom (fun e => haM e.symm)] at this
    omega
  have hfit_a : ∀ n : Nat, n ≤ b1.balOf a po.denom → fitsInt256 ((n : Int) + po.amt) = true := by
    intro n hn
    rw [hb1a] at hn
    have h1' := room.all a
    have h2' : (n : Int) ≤ s.bank.balOf a po.denom := by exact_mod_cast hn
    exact fits_of_lt _ (by omega) (by omega)
  obtain ⟨b2, h2⟩ := sendCoins_single_ok b1 s.nowSec Ment a { denom := po.denom, amt := po.amt } hA hdne i1
    (by rw [v1]; exact hstr.modNoVest Ment (by decide)) (by simp only; omega) hfit_a
  have hl1 : ∀ d, 0 ≤ Coins.amountOf (lockedCoins b1 s.nowSec Ment) d :=
    locked_nonvesting b1 _ Ment (by rw [v1]; exact hstr.modNoVest Ment (by decide))
  obtain ⟨i2, _, _, e2⟩ := sendCoins_spec b1 b2 _ Ment a _ i1 hl1 h2
  have hb2a : (b2.balOf a po.denom : Int) = s.bank.balOf a po.denom + po.amt := by
    rw [e2 a po.denom, outSum_other Ment _ a po.denom (fun e => haM e.symm), outSum_self, coinsSum_single, hb1a]; simp
  have hb2M : (b2.balOf Ment po.denom : Int) = s.bank.balOf Ment po.denom := by
    rw [e2 Ment po.denom, outSum_self, outSum_other a _ Ment po.denom haM, coinsSum_single, hb1M]; simp
  -- delegate purchaser → escrow
  obtain ⟨b3, h3⟩ := delegate_single_ok b2 s.nowSec a Ment { denom := po.denom, amt := po.amt } hA hdne i2 haM
    (by simp only; omega) (by simp only; rw [hb2M]; exact fits_of_lt _ (by omega) (room.all Ment))
  -- books
  have hlk : (s.ent.lockedOf a).denom = po.denom := by
    unfold EntState.lockedOf
    cases hfa : find? s.ent.locked a with
    | none => simpa using hpd
    | some c => simpa using (hi.okL a c hfa).1
  have hL0 : 0 ≤ (s.ent.lockedOf a).amt := by
    rw [lockedOf_amt]; cases hfa : find? s.ent.locked a with
    | none => simp [fOpt]
    | some c => simpa [fOpt, coinAmt] using (hi.okL a c hfa).2
  have hLle : (s.ent.lockedOf a).amt ≤ s.ent.totalLocked.amt := by
    have := entry_le_sum s.ent.locked (fun k c h => (hi.okL k c h).2) hi.nodupL a
    rw [← lockedOf_amt, hi.sumL] at this; exact this
  have hT0 : 0 ≤ s.ent.totalLocked.amt := by omega
  have f1 : fitsInt256 ((s.ent.lockedOf a).amt + po.amt) = true := fits_of_lt _ (by omega) (by have := room.total; omega)
  have f2 : fitsInt256 (s.ent.totalLocked.amt + po.amt) = true := fits_of_lt _ (by omega) room.total
  have hne : ¬ (po.amt = 0) := by omega
  have hv : (decide (0 ≤ po.amt) && validDenom po.denom) = true := by simp [hD]; omega
  have hlo : (EntState.lockedOf { s.ent with orders := insert s.ent.orders id { po with status := stCompleted } } a) = s.ent.lockedOf a := rfl
  unfold EB.completeOne
  simp only [hf, hst, ne_eq, not_true_eq_false, if_false, ha, EB.mintAndLock, hne, hv, require_true, h1, hnb, Bool.not_false,
    h2, h3, EB.incrementLocked, coinAdd, bind, Except.bind, pure, Except.pure, EB.asPanic, hlo, hlk, hi.totL, decide_true, f1, f2]
  exact ⟨_, rfl⟩

/-- what the completion pass needs of a state -/
structure MintInv (D : String) (s : State) : Prop where
  str : StreamInv (toSB s)
  book : BookInv s.ent
  books : BooksInv D s
  orders : OrdersOK D s
  denom : s.ent.params.denom = D

def pendingAmt (e : EntState) (id : Nat) : Int :=
  match find? e.orders id with
  | some po => po.amt
  | none => 0

/-- total amount of the orders queued for completion -/
def pendingSum (e : EntState) (q : List Nat) : Int := (q.map (pendingAmt e)).sum

/-- room for completing all the orders of `q` -/
structure BlockRoom (D : String) (s : State) (q : List Nat) : Prop where
  all : ∀ a, (s.bank.balOf a D : Int) + pendingSum s.ent q < 2 ^ 255
  supply : (s.bank.supplyOf D : Int) + pendingSum s.ent q < 2 ^ 255
  total : s.ent.totalLocked.amt + pendingSum s.ent q < 2 ^ 255

theorem strInv_complete (s : State) (id : Nat) (x : EB) (hi : StreamInv (toSB s))
    (h : EB.completeOne { ent := s.ent, bank := s.bank } s.nowSec isBlocked id = .ok x) :
    StreamInv { str := s.str, bank := x.bank } := by
  rcases completeOne_bank _ _ _ _ h with he | ⟨r, c, hbl, b1, b2, h1, h2, h3⟩
  · rw [he]; exact hi
  · have hrne : r ≠ Mstr := by intro e; subst e; simp [isBlocked_Mstr] at hbl
    obtain ⟨i1, v1, e1, _⟩ := mint_spec s.bank b1 Ment [c] hi.bank h1
    have hl1 : ∀ d, 0 ≤ Coins.amountOf (lockedCoins b1 s.nowSec Ment) d :=
      locked_nonvesting b1 _ Ment (by rw [v1]; exact hi.modNoVest Ment (by decide))
    obtain ⟨i2, s2, v2, e2⟩ := sendCoins_spec b1 b2 _ Ment r [c] i1 hl1 h2
    obtain ⟨i3, s3, v3, e3⟩ := delegate_spec b2 x.bank _ r Ment [c] i2 h3
    refine streamInv_of_bank (toSB s) x.bank hi i3 ?_ ?_
    · intro a ha; exact v3 a (by rw [v2, v1]; exact hi.modNoVest a ha)
    · intro d
      have a1 := e1 Mstr d
      have a2 := balOf_unchanged_of_spec b1 b2 Ment r [c] Mstr (by decide) hrne e2 d
      have a3 := balOf_unchanged_of_spec b2 x.bank r Ment [c] Mstr hrne (by decide) e3 d
      rw [outSum_other Ment [c] Mstr d (by decide)] at a1
      show x.bank.balOf Mstr d = s.bank.balOf Mstr d
      omega

theorem mintInv_complete (D : String) (s : State) (id : Nat) (x : EB) (hi : MintInv D s)
    (h : EB.completeOne { ent := s.ent, bank := s.bank } s.nowSec isBlocked id = .ok x) :
    MintInv D { s with ent := x.ent, bank := x.bank } :=
  ⟨strInv_complete s id x hi.str h, completeOne_book _ _ _ _ _ hi.book h, (completeOne_spec D s x id hi.books hi.book hi.str h).1,
   ordersOK_step D s _ hi.denom hi.book hi.orders (.complete id x h rfl),
   by show x.ent.params.denom = D; rw [(completeOne_frame _ _ _ _ _ h).1]; exact hi.denom⟩

theorem pendingSum_nonneg (e : EntState) (hi : BookInv e) (q : List Nat) : 0 ≤ pendingSum e q := by
  induction q with
  | nil => simp [pendingSum]
  | cons id rest ih =>
    simp only [pendingSum, List.map_cons, List.sum_cons] at ih ⊢
    have : 0 ≤ pendingAmt e id := by
      unfold pendingAmt
      cases hf : find? e.orders id with
      | none => simp
      | some po => have := hi.amtPos id po hf; simp only; omega
    omega

theorem process_fold_total (D : String) (hD : validDenom D = true) (now : Int) : ∀ (q : List Nat) (s : State), s.nowSec = now →
    MintInv D s → q.Nodup → (∀ id ∈ q, id ∈ s.ent.acceptedQ) → BlockRoom D s q →
    ∃ x', q.foldlM (fun (x : EB) (id : Nat) => EB.completeOne x now isBlocked id) { ent := s.ent, bank := s.bank } = .ok x' := by
  intro q
  induction q with
  | nil => intro s _ _ _ _ _; exact ⟨_, rfl⟩
  | cons id rest ih =>
    intro s hnow hi hnd hmem hroom
    have hn := List.nodup_cons.mp hnd
    have hsum : pendingSum s.ent (id :: rest) = pendingAmt s.ent id + pendingSum s.ent rest := by
      simp [pendingSum]
    have hrest0 := pendingSum_nonneg s.ent hi.book rest
    obtain ⟨x1, h1⟩ := completeOne_total D s id hi.books hi.book hi.str hi.orders hD hi.denom (hmem id (by simp)) (by
      intro po hf
      have hp : pendingAmt s.ent id = po.amt := by simp [pendingAmt, hf]
      refine ⟨fun a => ?_, ?_, ?_⟩
      · have := hroom.all a; rw [hsum, hp] at this; omega
      · have := hroom.supply; rw [hsum, hp] at this; omega
      · have := hroom.total; rw [hsum, hp] at this; omega)
    have hi1 := mintInv_complete D s id x1 hi h1
    obtain ⟨_, po, a, hf, hst, _, _, _, _, hbal, hsup, _, _, _, _, _, htot⟩ := completeOne_spec D s x1 id hi.books hi.book hi.str h1
    obtain ⟨hoth, _⟩ := completeOne_orders _ x1 _ _ id h1
    simp only at hoth
    have hp : pendingAmt s.ent id = po.amt := by simp [pendingAmt, hf]
    have hA := hi.book.amtPos id po hf
    have hpend : pendingSum x1.ent rest = pendingSum s.ent rest := by
      unfold pendingSum
      congr 1
      apply List.map_congr_left
      intro y hy
      have hne : y ≠ id := fun he => hn.1 (he ▸ hy)
      simp only [pendingAmt, hoth y hne]
    rw [← hnow] at ih ⊢
    obtain ⟨x', h'⟩ := ih { s with ent := x1.ent, bank := x1.bank } rfl hi1 hn.2 (by
      intro y hy
      have hne : y ≠ id := fun he => hn.1 (he ▸ hy)
      obtain ⟨poy, hfy, hsty⟩ := (hi.book.aq y).mp (hmem y (by simp [hy]))
      exact (hi1.book.aq y).mpr ⟨poy, by show find? x1.ent.orders y = some poy; rw [hoth y hne]; exact hfy, hsty⟩) (by
      refine ⟨fun b => ?_, ?_, ?_⟩
      · show (x1.bank.balOf b D : Int) + pendingSum x1.ent rest < 2 ^ 255
        rw [hbal b D, hpend]
        have := hroom.all b; rw [hsum, hp] at this
        split <;> omega
      · show (x1.bank.supplyOf D : Int) + pendingSum x1.ent rest < 2 ^ 255
        rw [hsup D, hpend]
        have := hroom.supply; rw [hsum, hp] at this
        simp only [if_true]; omega
      · show x1.ent.totalLocked.amt + pendingSum x1.ent rest < 2 ^ 255
        rw [htot, hpend]
        have := hroom.total; rw [hsum, hp] at this
        omega)
    exact ⟨x', by simp only [List.foldlM_cons, bind, Except.bind, h1]; exact h'⟩

/-- **`BeginBlock` of the enterprise module never panics** on a state that satisfies the invariants and
has room below 2^255 for the queued orders -/
theorem beginBlock_total (D : String) (hD : validDenom D = true) (s : State) (t : Int) (hi : MintInv D s)
    (hroom : BlockRoom D s s.ent.acceptedQ) :
    ∃ s', beginBlock ["ProcessAcceptedPurchaseOrders", "TallyPurchaseOrderDecisions"] { s with time := t } = .ok s' := by
  have hi' : MintInv D { s with time := t } := ⟨hi.str, hi.book, ⟨hi.books.nodupL, hi.books.nodupS, hi.books.okL, hi.books.okS,
    hi.books.totL, hi.books.totS, hi.books.escrow, hi.books.sumL, hi.books.sumS, hi.books.perAcct⟩, hi.orders, hi.denom⟩
  obtain ⟨x, hx⟩ := process_fold_total D hD ({ s with time := t } : State).nowSec s.ent.acceptedQ { s with time := t } rfl hi'
    (asc_nodup _ hi.book.aqAsc) (fun _ h => h) ⟨hroom.all, hroom.supply, hroom.total⟩
  have hbook1 := (processAccepted_book { ent := s.ent, bank := s.bank } x _ isBlocked hi.book hx).1
  obtain ⟨e, he⟩ := tally_total x.ent ({ s with time := t } : State).nowSecU hbook1
  have hx' : EB.processAccepted { ent := s.ent, bank := s.bank } ({ s with time := t } : State).nowSec isBlocked = .ok x := hx
  have he' : x.ent.tally ({ s with time := t } : State).nowSecU = .ok e := he
  simp only [State.nowSecU, State.nowSec] at hx' he'
  simp only [beginBlock, List.foldlM_cons, List.foldlM_nil, beginStep, bind, Except.bind, pure, Except.pure, State.nowSecU, State.nowSec,
    hx', he']
  exact ⟨_, rfl⟩

end Mainchain
