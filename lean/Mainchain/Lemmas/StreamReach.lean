import Mainchain.Lemmas.StreamInv
import Mainchain.Lemmas.Fine
import Mainchain.Lemmas.EntFrame
/-
The stream escrow invariant holds in every reachable state.
-/
namespace Mainchain
open AL Bank

/-- history assumption about bank-lite's vesting bookkeeping: `LockedCoins` never reports a negative
amount (the SDK returns valid coin sets) -/
def BankSane (s : State) : Prop := ∀ a d, 0 ≤ Coins.amountOf (lockedCoins s.bank s.nowSec a) d

theorem isBlocked_Mstr : isBlocked Mstr = true := by decide
theorem isBlocked_Ment : isBlocked Ment = true := by decide

theorem maySign_ne_Mstr (a : Addr) (h : MaySign a) : a ≠ Mstr := by
  intro e; subst e; rcases h with h | h
  · simp [Mstr] at h
  · simp [Mstr, Mgov] at h

theorem maySign_ne_Ment (a : Addr) (h : MaySign a) : a ≠ Ment := by
  intro e; subst e; rcases h with h | h
  · simp [Ment] at h
  · simp [Ment, Mgov] at h

/-- the stream-relevant part of the state is untouched by the bank except at the two parties -/
theorem streamInv_of_bank (x : SB) (b : Bank) (hi : StreamInv x) (hb : BankInv b)
    (hv : ∀ a, 1000 ≤ a → find? b.vest a = none) (hbal : ∀ d, b.balOf Mstr d = x.bank.balOf Mstr d) :
    StreamInv { x with bank := b } :=
  ⟨hi.nodup, hb, hv, hi.nonneg, fun d => by
    show (b.balOf Mstr d : Int) = depositSum x d
    rw [hbal d]; exact hi.backed d⟩

theorem balOf_unchanged_of_spec (b b' : Bank) (src dst : Addr) (amt : Coins) (a : Addr) (h1 : src ≠ a) (h2 : dst ≠ a)
    (e : ∀ a' d', (b'.balOf a' d' : Int) = b.balOf a' d' - outSum src amt a' d' + outSum dst amt a' d') :
    ∀ d, b'.balOf a d = b.balOf a d := by
  intro d
  have := e a d
  rw [outSum_other src amt a d h1, outSum_other dst amt a d h2] at this
  omega

theorem streamInv_fee (x : SB) (fee : Int) (hi : StreamInv x) : StreamInv { x with str := { x.str with fee := fee } } :=
  ⟨hi.nodup, hi.bank, hi.modNoVest, hi.nonneg, hi.backed⟩

theorem streamInv_ensure (x : SB) (a : Addr) (hi : StreamInv x) : StreamInv { x with bank := x.bank.ensureAccount a } := by
  have hf := ensureAccount_frame x.bank a
  refine ⟨hi.nodup, ⟨by rw [hf.1]; exact hi.bank.nodupBal, by rw [hf.2.1]; exact hi.bank.nodupSupply⟩,
    by intro a' ha'; show find? (x.bank.ensureAccount a).vest a' = none; rw [hf.2.2]; exact hi.modNoVest a' ha', hi.nonneg, ?_⟩
  intro d
  show ((x.bank.ensureAccount a).balOf Mstr d : Int) = depositSum x d
  rw [balOf_ensureAccount]; exact hi.backed d

theorem toSB_setReg (s : State) (k : RegKind) (r : RegState) : toSB (s.setReg k r) = toSB s := by
  cases k <;> rfl

/-- leaf steps: the escrow invariant is preserved -/
theorem strInv_leaf (wall : Nat) (s s' : State) (m : Msg) (r : Resp) (hl : m.isLeaf = true) (hsig : m.SignedOK)
    (hq : BankSane s) (hi : StreamInv (toSB s)) (h : execMsg wall s m = .ok (s', r)) : StreamInv (toSB s') := by
  obtain ⟨sa, hsa, hmay⟩ := hsig
  have hne := maySign_ne_Mstr sa hmay
  cases m with
  | strCreate rr sn amt denom rate =>
    simp only [execMsg, bind_eq_ok, pure_eq_ok, Prod.mk.injEq] at h
    obtain ⟨x, hx, rfl, _⟩ := h
    simp only [Msg.signer, signerTok_strCreate, Option.bind_some] at hsa
    exact (createStream_inv (toSB s) x s.time rr sn denom amt rate hi (by rw [hsa]; intro e; cases e; exact hne rfl)
      (fun a d => hq a d) isBlocked_Mstr hx).1
  | strClaim rr sn =>
    simp only [execMsg, bind_eq_ok, pure_eq_ok, Prod.mk.injEq] at h
    obtain ⟨x, hx, rfl, _⟩ := h
    exact (claimStream_inv (toSB s) x.1 s.time rr sn x.2 hi isBlocked_Mstr (by cases x; exact hx)).1
  | strTopup rr sn amt denom =>
    simp only [execMsg, bind_eq_ok, pure_eq_ok, Prod.mk.injEq] at h
    obtain ⟨x, hx, rfl, _⟩ := h
    simp only [Msg.signer, signerTok_strTopup, Option.bind_some] at hsa
    exact (topUpDeposit_inv (toSB s) x.1 s.time rr sn denom amt x.2.1 x.2.2 hi (by rw [hsa]; intro e; cases e; exact hne rfl)
      (fun a d => hq a d) isBlocked_Mstr (by obtain ⟨a, b, c⟩ := x; exact hx)).1
  | strRate rr sn rate =>
    simp only [execMsg, bind_eq_ok, pure_eq_ok, Prod.mk.injEq] at h
    obtain ⟨x, hx, rfl, _⟩ := h
    exact (updateFlowRate_inv (toSB s) x s.time rr sn rate hi isBlocked_Mstr hx).1
  | strCancel rr sn =>
    simp only [execMsg, bind_eq_ok, pure_eq_ok, Prod.mk.injEq] at h
    obtain ⟨x, hx, rfl, _⟩ := h
    exact (cancelStreamMsg_inv (toSB s) x s.time rr sn hi isBlocked_Mstr hx).1
  | strParams auth fee =>
    simp only [execMsg, bind_eq_ok, pure_eq_ok, Prod.mk.injEq] at h
    obtain ⟨_, _, _, _, rfl, _⟩ := h
    exact streamInv_fee (toSB s) fee hi
  | bankSend src dst coins =>
    simp only [execMsg, bind_eq_ok, pure_eq_ok, Prod.mk.injEq, require_eq_ok, decodeM_eq_ok] at h
    obtain ⟨a, ha, b, _, _, hb, bank, hbank, rfl, _⟩ := h
    simp only [Msg.signer, signerTok_bankSend, Option.bind_some] at hsa
    rw [ha] at hsa; cases hsa
    have hbne : b ≠ Mstr := by intro e; subst e; simp [isBlocked_Mstr] at hb
    obtain ⟨ib, sb, vb, eb⟩ := sendCoins_spec s.bank bank _ sa b coins hi.bank (hq sa) hbank
    exact streamInv_of_bank (toSB s) bank hi ib (by intro a' ha'; rw [vb]; exact hi.modNoVest a' ha')
      (balOf_unchanged_of_spec s.bank bank sa b coins Mstr hne hbne eb)
  | authzGrant g e kind =>
    simp only [execMsg, bind_eq_ok, pure_eq_ok, Prod.mk.injEq] at h
    obtain ⟨_, _, ea, _, rfl, _⟩ := h
    exact streamInv_ensure (toSB s) ea hi
  | authzRevoke g e kind =>
    simp only [execMsg, bind_eq_ok, pure_eq_ok, Prod.mk.injEq] at h
    obtain ⟨_, _, _, _, _, _, rfl, _⟩ := h
    exact hi
  | authzExec g msgs => simp [Msg.isLeaf] at hl
  | feegrantGrant g e =>
    simp only [execMsg, bind_eq_ok, pure_eq_ok, Prod.mk.injEq] at h
    obtain ⟨_, _, ea, _, _, _, rfl, _⟩ := h
    exact streamInv_ensure (toSB s) ea hi
  | entRaise p amt denom =>
    simp only [execMsg, bind_eq_ok, pure_eq_ok, Prod.mk.injEq] at h
    obtain ⟨_, _, rfl, _⟩ := h; exact hi
  | entDecide id dec sg =>
    simp only [execMsg, bind_eq_ok, pure_eq_ok, Prod.mk.injEq] at h
    obtain ⟨_, _, rfl, _⟩ := h; exact hi
  | entWl action a sg =>
    simp only [execMsg, bind_eq_ok, pure_eq_ok, Prod.mk.injEq] at h
    obtain ⟨_, _, rfl, _⟩ := h; exact hi
  | entParams auth p =>
    simp only [execMsg, bind_eq_ok, pure_eq_ok, Prod.mk.injEq] at h
    obtain ⟨_, _, _, _, rfl, _⟩ := h; exact hi
  | regReg k moniker name genesis type o =>
    simp only [execMsg, bind_eq_ok, pure_eq_ok, Prod.mk.injEq] at h
    obtain ⟨_, _, rfl, _⟩ := h; rw [toSB_setReg]; exact hi
  | regRec k id key rc o =>
    simp only [execMsg, bind_eq_ok, pure_eq_ok, Prod.mk.injEq] at h
    obtain ⟨_, _, rfl, _⟩ := h; rw [toSB_setReg]; exact hi
  | regBuy k id n o =>
    simp only [execMsg, bind_eq_ok, pure_eq_ok, Prod.mk.injEq] at h
    obtain ⟨_, _, rfl, _⟩ := h; rw [toSB_setReg]; exact hi
  | regParams k auth p =>
    simp only [execMsg, bind_eq_ok, pure_eq_ok, Prod.mk.injEq] at h
    obtain ⟨_, _, _, _, rfl, _⟩ := h; rw [toSB_setReg]; exact hi

theorem payer_user (tx : Tx) (payer : Addr) (hu : tx.required.all isUserAddr = true) (hp : tx.payer = some payer) :
    payer < 1000 := by
  have hm : payer ∈ tx.required := by
    unfold Tx.payer at hp
    unfold Tx.required
    cases hfp : tx.feePayer with
    | some p =>
      rw [hfp] at hp
      cases hp
      simp only
      split
      · rename_i hc; simpa using hc
      · simp
    | none =>
      rw [hfp] at hp
      exact List.mem_of_mem_head? hp
  have := List.all_eq_true.mp hu payer hm
  simpa [isUserAddr] using this

theorem completeOne_bank (x x' : EB) (now : Int) (id : Nat) (h : EB.completeOne x now isBlocked id = .ok x') :
    x'.bank = x.bank ∨ ∃ r c, isBlocked r = false ∧ ∃ b1 b2, x.bank.mint Ment [c] = .ok b1 ∧
      b1.sendCoins now Ment r [c] = .ok b2 ∧ b2.delegate now r Ment [c] = .ok x'.bank := by
  unfold EB.completeOne at h
  split at h
  · cases h
  · split at h
    · cases h
    · split at h
      · cases h
      · rename_i purchaser _
        simp only [bind_eq_ok, pure_eq_ok] at h
        obtain ⟨x2, hx2, rfl⟩ := h
        rcases mintAndLock_bank _ _ _ _ _ _ (asPanic_ok _ _ hx2) with he | ⟨hb, b1, b2, h1, h2, h3⟩
        · exact Or.inl he
        · exact Or.inr ⟨purchaser, _, hb, b1, b2, h1, h2, h3⟩

/-- every elementary step preserves the escrow invariant -/
theorem strInv_step (s s' : State) (hq : BankSane s) (hi : StreamInv (toSB s)) (h : FineStep s s') :
    StreamInv (toSB s') := by
  cases h with
  | leaf wall m r hl _ hsig h => exact strInv_leaf wall s s' m r hl hsig hq hi h
  | ante tx hu hg h =>
    cases h with
    | none hs => subst hs; exact hi
    | unlock payer x hp _ _ h hs =>
      subst hs
      have hpu := payer_user tx payer hu hp
      rcases unlockForFees_bank _ _ _ _ _ h with he | ⟨amt, hund⟩
      · show StreamInv { str := s.str, bank := x.bank }
        rw [he]; exact hi
      · obtain ⟨ib, sb, vb, eb⟩ := undelegate_spec s.bank x.bank _ Ment payer amt hi.bank (hq Ment) hund
        exact streamInv_of_bank (toSB s) x.bank hi ib (fun a ha => vb a (hi.modNoVest a ha))
          (balOf_unchanged_of_spec s.bank x.bank Ment payer amt Mstr (by decide) (by intro e; subst e; simp [Mstr] at hpu) eb)
    | deduct payer src b hp hsrc h hs =>
      subst hs
      have hpu := payer_user tx payer hu hp
      have hsne : src ≠ Mstr := by
        rcases hsrc with he | hal
        · subst he; intro e; subst e; simp [Mstr] at hpu
        · exact maySign_ne_Mstr src (hg.2 src payer hal)
      obtain ⟨ib, sb, vb, eb⟩ := sendCoins_spec s.bank b _ src Mfee tx.fee hi.bank (hq src) h
      exact streamInv_of_bank (toSB s) b hi ib (by intro a ha; rw [vb]; exact hi.modNoVest a ha)
        (balOf_unchanged_of_spec s.bank b src Mfee tx.fee Mstr hsne (by decide) eb)
  | time t _ hs => subst hs; exact hi
  | complete id x h hs =>
    subst hs
    rcases completeOne_bank _ _ _ _ h with he | ⟨r, c, hbl, b1, b2, h1, h2, h3⟩
    · show StreamInv { str := s.str, bank := x.bank }
      rw [he]; exact hi
    · have hrne : r ≠ Mstr := by intro e; subst e; simp [isBlocked_Mstr] at hbl
      obtain ⟨i1, v1, e1, _⟩ := mint_spec s.bank b1 Ment [c] hi.bank h1
      have hl1 : ∀ d, 0 ≤ Coins.amountOf (lockedCoins b1 s.nowSec Ment) d :=
        locked_nonvesting b1 _ Ment (by rw [v1]; exact hi.modNoVest Ment (by decide))
      obtain ⟨i2, s2, v2, e2⟩ := sendCoins_spec b1 b2 _ Ment r [c] i1 hl1 h2
      obtain ⟨i3, s3, v3, e3⟩ := delegate_spec b2 x.bank _ r Ment [c] i2 h3
      refine streamInv_of_bank (toSB s) x.bank hi i3 ?_ ?_
      · intro a ha; exact v3 a (by rw [v2, v1]; exact hi.modNoVest a ha)
      · intro d
        have a1 := e1 Mstr d
        have a2 := balOf_unchanged_of_spec b1 b2 Ment r [c] Mstr (by decide) hrne e2 d
        have a3 := balOf_unchanged_of_spec b2 x.bank r Ment [c] Mstr hrne (by decide) e3 d
        rw [outSum_other Ment [c] Mstr d (by decide)] at a1
        show x.bank.balOf Mstr d = s.bank.balOf Mstr d
        omega
  | tally id e _ hs => subst hs; exact hi

/-- scenario genesis validity for the stream module and the bank -/
def GenBankValid (g : GenCfg) : Prop := BankInv (initState g).bank ∧ (∀ a, 1000 ≤ a → AL.find? (initState g).bank.vest a = none) ∧
  (∀ d, (initState g).bank.balOf Mstr d = 0)

theorem strInv_init (g : GenCfg) (hg : GenBankValid g) : StreamInv (toSB (initState g)) := by
  refine ⟨by simp [toSB, initState, NoDupKeys, keys], hg.1, hg.2.1, by simp [toSB, initState], ?_⟩
  intro d
  show ((initState g).bank.balOf Mstr d : Int) = sumF (depIn d) (initState g).str.streams
  rw [hg.2.2 d]; simp [initState, sumF]

/-- **the stream escrow is fully backed in every state of every run** -/
theorem strInv_reachable (g : GenCfg) (hg : GenBankValid g) (s : State) (h : FineReach g BankSane s) :
    StreamInv (toSB s) :=
  fine_inv g BankSane (fun s => StreamInv (toSB s)) (strInv_init g hg)
    (fun s s' hq hi hs => strInv_step s s' hq hi hs) s h

end Mainchain
