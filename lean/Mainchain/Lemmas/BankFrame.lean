import Mainchain.Lemmas.StreamReach
/-
Frame facts: which accounts' balances an operation can touch at all.  `KeepsAt a b b'` : the bank
`b'` has the same balances as `b` at address `a` (and the same supply), and stays well formed.
-/
namespace Mainchain
open AL Bank

def KeepsAt (a : Addr) (b b' : Bank) : Prop :=
  BankInv b → BankInv b' ∧ (∀ d, b'.balOf a d = b.balOf a d) ∧ b'.supply = b.supply

theorem KeepsAt.refl (a : Addr) (b : Bank) : KeepsAt a b b := fun h => ⟨h, fun _ => rfl, rfl⟩

theorem KeepsAt.trans {a : Addr} {b1 b2 b3 : Bank} (h1 : KeepsAt a b1 b2) (h2 : KeepsAt a b2 b3) : KeepsAt a b1 b3 := by
  intro hb
  obtain ⟨i2, e2, s2⟩ := h1 hb
  obtain ⟨i3, e3, s3⟩ := h2 i2
  exact ⟨i3, fun d => (e3 d).trans (e2 d), s3.trans s2⟩

theorem setBal_keeps (a x : Addr) (d : String) (n : Nat) (b : Bank) (h : a ≠ x) : KeepsAt a b (b.setBal x d n) := by
  intro hb
  refine ⟨setBal_inv b hb x d n, ?_, rfl⟩
  intro d'
  rw [balOf_setBal _ hb.nodupBal]
  split
  · rename_i he; exact absurd (Prod.mk.inj he).1.symm h
  · rfl

theorem subUnlockedCoin_keeps (a src : Addr) (locked : Coins) (b b' : Bank) (c : Coin) (h : a ≠ src)
    (hx : subUnlockedCoin locked src b c = .ok b') : KeepsAt a b b' := by
  simp only [subUnlockedCoin, bind_eq_ok, pure_eq_ok] at hx
  obtain ⟨_, _, _, _, rfl⟩ := hx
  exact setBal_keeps a src _ _ b h

theorem addCoin_keeps (a dst : Addr) (b b' : Bank) (c : Coin) (h : a ≠ dst) (hx : addCoin dst b c = .ok b') : KeepsAt a b b' := by
  simp only [addCoin, bind_eq_ok, pure_eq_ok] at hx
  obtain ⟨_, _, rfl⟩ := hx
  exact setBal_keeps a dst _ _ b h

theorem takeCoin_keeps (a src : Addr) (b b' : Bank) (c : Coin) (h : a ≠ src) (hx : takeCoin src b c = .ok b') : KeepsAt a b b' := by
  simp only [takeCoin, bind_eq_ok, pure_eq_ok] at hx
  obtain ⟨_, _, rfl⟩ := hx
  exact setBal_keeps a src _ _ b h

theorem foldlM_keeps (a : Addr) (f : Bank → Coin → M Bank) (cs : Coins)
    (hstep : ∀ b c b', f b c = .ok b' → KeepsAt a b b') (b b' : Bank) (h : cs.foldlM f b = .ok b') : KeepsAt a b b' :=
  foldlM_rel (KeepsAt a) (KeepsAt.refl a) (fun _ _ _ h1 h2 => h1.trans h2) f cs (fun x c y hy => hstep x c y hy) b b' h

theorem ensureAccount_keeps (a x : Addr) (b : Bank) : KeepsAt a b (b.ensureAccount x) := by
  intro hb
  have hf := ensureAccount_frame b x
  exact ⟨⟨by rw [hf.1]; exact hb.nodupBal, by rw [hf.2.1]; exact hb.nodupSupply⟩, fun d => balOf_ensureAccount b x a d, hf.2.1⟩

theorem sendCoins_keeps (a src dst : Addr) (now : Int) (amt : Coins) (b b' : Bank) (h1 : a ≠ src) (h2 : a ≠ dst)
    (hx : b.sendCoins now src dst amt = .ok b') : KeepsAt a b b' := by
  simp only [sendCoins, subUnlocked, addCoins, bind_eq_ok, pure_eq_ok] at hx
  obtain ⟨b1, ⟨_, _, hs⟩, b2, ⟨_, _, ha⟩, rfl⟩ := hx
  exact ((foldlM_keeps a _ amt (fun x c y hy => subUnlockedCoin_keeps a src _ x y c h1 hy) b b1 hs).trans
    (foldlM_keeps a _ amt (fun x c y hy => addCoin_keeps a dst x y c h2 hy) b1 b2 ha)).trans (ensureAccount_keeps a dst b2)

theorem payFee_keeps (a : Addr) (b b' : Bank) (now : Int) (denom : String) (fee : Int) (h1 : a ≠ Mstr) (h2 : a ≠ Mfee)
    (hx : payFee b now denom fee = .ok b') : KeepsAt a b b' := by
  unfold payFee at hx
  split at hx
  · exact sendCoins_keeps a Mstr Mfee _ _ b b' h1 h2 hx
  · cases hx; exact .refl a b

theorem payOut_keeps (a : Addr) (b b' : Bank) (now : Int) (blocked : Addr → Bool) (to : Addr) (denom : String) (amt : Int)
    (h1 : a ≠ Mstr) (hbl : blocked a = true) (hx : payOut b now blocked to denom amt = .ok b') : KeepsAt a b b' := by
  unfold payOut at hx
  split at hx
  · simp only [bind_eq_ok, require_eq_ok, Bool.not_eq_true'] at hx
    obtain ⟨_, hnb, hx⟩ := hx
    have : a ≠ to := by intro e; subst e; rw [hbl] at hnb; cases hnb
    exact sendCoins_keeps a Mstr to _ _ b b' h1 this hx
  · cases hx; exact .refl a b

/-! ### stream operations never touch a blocked account other than the stream escrow and the fee collector -/

section stream
variable (a : Addr) (blocked : Addr → Bool) (h1 : a ≠ Mstr) (h2 : a ≠ Mfee) (hbl : blocked a = true)
include h1 h2 hbl

theorem claimFromStream_keeps (x x' : SB) (now : Int) (r s : Addr) (o : ClaimOut)
    (hx : claimFromStream x now blocked r s = .ok (x', o)) : KeepsAt a x.bank x'.bank := by
  simp only [claimFromStream, bind_eq_ok, pure_eq_ok, Prod.mk.injEq] at hx
  obtain ⟨st, _, _, _, _, _, _, _, f, _, b1, hb1, b2, hb2, rfl, _⟩ := hx
  exact (payFee_keeps a _ _ _ _ _ h1 h2 hb1).trans (payOut_keeps a _ _ _ blocked r _ _ h1 hbl hb2)

theorem settleIfFunded_keeps (x : SB) (now : Int) (r s : Addr) (st : Stream) (z : SB × Stream)
    (hx : settleIfFunded x now blocked r s st = .ok z) : KeepsAt a x.bank z.1.bank := by
  unfold settleIfFunded at hx
  split at hx
  · simp only [bind_eq_ok, pure_eq_ok] at hx
    obtain ⟨y, hy, rfl⟩ := hx
    exact claimFromStream_keeps a blocked h1 h2 hbl x y.1 now r s y.2 (by cases y; exact hy)
  · cases hx; exact .refl a x.bank

theorem addDeposit_keeps (x x' : SB) (now : Int) (r s : Addr) (denom : String) (amt : Int) (hs : a ≠ s)
    (hx : addDeposit x now blocked r s denom amt = .ok x') : KeepsAt a x.bank x'.bank := by
  simp only [addDeposit, bind_eq_ok, pure_eq_ok] at hx
  obtain ⟨st, _, _, _, y, hy, _, _, bank, hbank, _, _, rfl⟩ := hx
  have hy' : KeepsAt a x.bank y.1.bank := by
    split at hy
    · simp only [bind_eq_ok, pure_eq_ok] at hy
      obtain ⟨z, hz, rfl⟩ := hy
      exact settleIfFunded_keeps a blocked h1 h2 hbl x now r s st z hz
    · cases hy; exact .refl a x.bank
  exact hy'.trans (sendCoins_keeps a s Mstr _ _ _ _ hs h1 hbank)

theorem setNewFlowRate_keeps (x x' : SB) (now : Int) (r s : Addr) (rate : Int)
    (hx : setNewFlowRate x now blocked r s rate = .ok x') : KeepsAt a x.bank x'.bank := by
  simp only [setNewFlowRate, bind_eq_ok] at hx
  obtain ⟨st, _, hx⟩ := hx
  split at hx
  · simp only [bind_eq_ok, pure_eq_ok] at hx
    obtain ⟨z, hz, _, _, rfl⟩ := hx
    exact settleIfFunded_keeps a blocked h1 h2 hbl x now r s st z hz
  · simp only [pure_eq_ok] at hx; subst hx; exact .refl a x.bank

theorem cancelStream_keeps (x x' : SB) (now : Int) (r s : Addr)
    (hx : cancelStream x now blocked r s = .ok x') : KeepsAt a x.bank x'.bank := by
  simp only [cancelStream, bind_eq_ok, pure_eq_ok] at hx
  obtain ⟨st, _, _, _, z, hz, bank, hbank, rfl⟩ := hx
  exact (settleIfFunded_keeps a blocked h1 h2 hbl x now r s st z hz).trans (payOut_keeps a _ _ _ blocked s _ _ h1 hbl hbank)

end stream

/-- a stream message-server operation whose sender is not `a` leaves the balances of the blocked
account `a` (≠ stream escrow, ≠ fee collector) untouched -/
theorem streamOp_keeps (a : Addr) (h1 : a ≠ Mstr) (h2 : a ≠ Mfee) (hbl : isBlocked a = true) (now : Int) (x y : SB)
    (h : StreamOp now x y) (hs : ∀ r s denom amt rate, createStream x now isBlocked r s denom amt rate = .ok y → s.decode ≠ some a)
    (ht : ∀ r s denom amt d z, topUpDeposit x now isBlocked r s denom amt = .ok (y, d, z) → s.decode ≠ some a) :
    KeepsAt a x.bank y.bank := by
  cases h with
  | create r s denom amt rate h =>
    have hne := hs r s denom amt rate h
    simp only [createStream, bind_eq_ok, require_eq_ok, decodeM_eq_ok] at h
    obtain ⟨sa, hsa, ra, _, _, _, _, _, _, _, _, _, _, _, _, _, h⟩ := h
    have : a ≠ sa := by intro e; subst e; exact hne hsa
    exact addDeposit_keeps a isBlocked h1 h2 hbl { x with str := setStream x ra sa _ } y now ra sa denom amt this h
  | claim r s o h =>
    simp only [claimStream, bind_eq_ok, require_eq_ok, decodeM_eq_ok] at h
    obtain ⟨sa, _, ra, _, _, _, h⟩ := h
    exact claimFromStream_keeps a isBlocked h1 h2 hbl x y now ra sa o h
  | topup r s denom amt d z h =>
    have hne := ht r s denom amt d z h
    simp only [topUpDeposit, bind_eq_ok, pure_eq_ok, require_eq_ok, decodeM_eq_ok, Prod.mk.injEq] at h
    obtain ⟨sa, hsa, ra, _, _, _, st, _, _, _, x', hx', rfl, _⟩ := h
    have : a ≠ sa := by intro e; subst e; exact hne hsa
    exact addDeposit_keeps a isBlocked h1 h2 hbl x x' now ra sa denom amt this hx'
  | rate r s rate h =>
    simp only [updateFlowRate, bind_eq_ok, require_eq_ok, decodeM_eq_ok] at h
    obtain ⟨sa, _, ra, _, _, _, _, _, h⟩ := h
    exact setNewFlowRate_keeps a isBlocked h1 h2 hbl x y now ra sa rate h
  | cancel r s h =>
    simp only [cancelStreamMsg, bind_eq_ok, require_eq_ok, decodeM_eq_ok] at h
    obtain ⟨sa, _, ra, _, _, _, _, _, h⟩ := h
    exact cancelStream_keeps a isBlocked h1 h2 hbl x y now ra sa h

end Mainchain
