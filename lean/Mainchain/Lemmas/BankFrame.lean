import Mainchain.Lemmas.StreamReach
import Mainchain.Lemmas.StreamLive
/-
Frame facts: which accounts' balances an operation can touch at all.  `KeepsAt a b b'` : the bank
`b'` has the same balances as `b` at address `a` (and the same supply), and stays well formed.
-/
namespace Mainchain
open AL Bank

def KeepsAt (a : Addr) (b b' : Bank) : Prop :=
  BankInv b → BankInv b' ∧ (∀ d, b'.balOf a d = b.balOf a d) ∧ b'.supply = b.supply

theorem KeepsAt.refl (a : Addr) (b : Bank) : KeepsAt a b b := fun h => ⟨h, fun _ => rfl, rfl⟩

theorem KeepsAt.trans {a : Addr} {b1 b2 b3 : Bank} (h1 : KeepsAt a b1 b2) (h2 : KeepsAt a b2 b3) : KeepsAt a b1 b3 := by
  intro hb
  obtain ⟨i2, e2, s2⟩ := h1 hb
  obtain ⟨i3, e3, s3⟩ := h2 i2
  exact ⟨i3, fun d => (e3 d).trans (e2 d), s3.trans s2⟩

theorem setBal_keeps (a x : Addr) (d : String) (n : Nat) (b : Bank) (h : a ≠ x) : KeepsAt a b (b.setBal x d n) := by
  intro hb
  refine ⟨setBal_inv b hb x d n, ?_, rfl⟩
  intro d'
  rw [balOf_setBal _ hb.nodupBal]
  split
  · rename_i he; exact absurd (Prod.mk.inj he).1.symm h
  · rfl

theorem subUnlockedCoin_keeps (a src : Addr) (locked : Coins) (b b' : Bank) (c : Coin) (h : a ≠ src)
    (hx : subUnlockedCoin locked src b c = .ok b') : KeepsAt a b b' := by
  simp only [subUnlockedCoin, bind_eq_ok, pure_eq_ok] at hx
  obtain ⟨_, _, _, _, rfl⟩ := hx
  exact setBal_keeps a src _ _ b h

theorem addCoin_keeps (a dst : Addr) (b b' : Bank) (c : Coin) (h : a ≠ dst) (hx : addCoin dst b c = .ok b') : KeepsAt a b b' := by
  simp only [addCoin, bind_eq_ok, pure_eq_ok] at hx
  obtain ⟨_, _, rfl⟩ := hx
  exact setBal_keeps a dst _ _ b h

theorem takeCoin_keeps (a src : Addr) (b b' : Bank) (c : Coin) (h : a ≠ src) (hx : takeCoin src b c = .ok b') : KeepsAt a b b' := by
  simp only [takeCoin, bind_eq_ok, pure_eq_ok] at hx
  obtain ⟨_, _, rfl⟩ := hx
  exact setBal_keeps a src _ _ b h

theorem foldlM_keeps (a : Addr) (f : Bank → Coin → M Bank) (cs : Coins)
    (hstep : ∀ b c b', f b c = .ok b' → KeepsAt a b b') (b b' : Bank) (h : cs.foldlM f b = .ok b') : KeepsAt a b b' :=
  foldlM_rel (KeepsAt a) (KeepsAt.refl a) (fun _ _ _ h1 h2 => h1.trans h2) f cs (fun x c y hy => hstep x c y hy) b b' h

theorem ensureAccount_keeps (a x : Addr) (b : Bank) : KeepsAt a b (b.ensureAccount x) := by
  intro hb
  have hf := ensureAccount_frame b x
  exact ⟨⟨by rw [hf.1]; exact hb.nodupBal, by rw [hf.2.1]; exact hb.nodupSupply⟩, fun d => balOf_ensureAccount b x a d, hf.2.1⟩

theorem sendCoins_keeps (a src dst : Addr) (now : Int) (amt : Coins) (b b' : Bank) (h1 : a ≠ src) (h2 : a ≠ dst)
    (hx : b.sendCoins now src dst amt = .ok b') : KeepsAt a b b' := by
  simp only [sendCoins, subUnlocked, addCoins, bind_eq_ok, pure_eq_ok] at hx
  obtain ⟨b1, ⟨_, _, hs⟩, b2, ⟨_, _, ha⟩, rfl⟩ := hx
  exact ((foldlM_keeps a _ amt (fun x c y hy => subUnlockedCoin_keeps a src _ x y c h1 hy) b b1 hs).trans
    (foldlM_keeps a _ amt (fun x c y hy => addCoin_keeps a dst x y c h2 hy) b1 b2 ha)).trans (ensureAccount_keeps a dst b2)

theorem payFee_keeps (a : Addr) (b b' : Bank) (now : Int) (denom : String) (fee : Int) (h1 : a ≠ Mstr) (h2 : a ≠ Mfee)
    (hx : payFee b now denom fee = .ok b') : KeepsAt a b b' := by
  unfold payFee at hx
  split at hx
  · exact sendCoins_keeps a Mstr Mfee _ _ b b' h1 h2 hx
  · cases hx; exact .refl a b

theorem payOut_keeps (a : Addr) (b b' : Bank) (now : Int) (blocked : Addr → Bool) (to : Addr) (denom : String) (amt : Int)
    (h1 : a ≠ Mstr) (hbl : blocked a = true) (hx : payOut b now blocked to denom amt = .ok b') : KeepsAt a b b' := by
  unfold payOut at hx
  split at hx
  · simp only [bind_eq_ok, require_eq_ok, Bool.not_eq_true'] at hx
    obtain ⟨_, hnb, hx⟩ := hx
    have : a ≠ to := by intro e; subst e; rw [hbl] at hnb; cases hnb
    exact sendCoins_keeps a Mstr to _ _ b b' h1 this hx
  · cases hx; exact .refl a b

/-! ### generic bank relations

`BankRel R ok` : a reflexive–transitive relation on banks that every `SendCoins` between `ok` endpoints
satisfies.  Two instances are used: `KeepsAt a` (endpoints other than `a`) and `SameTotals` (any endpoints). -/

structure BankRel (R : Bank → Bank → Prop) (ok : Addr → Prop) (t : Int) : Prop where
  refl : ∀ b, R b b
  trans : ∀ a b c, R a b → R b c → R a c
  /-- every transfer at block time `t` (unix seconds) between `ok` endpoints -/
  send : ∀ (b b' : Bank) (src dst : Addr) (amt : Coins), ok src → ok dst → b.sendCoins t src dst amt = .ok b' → R b b'
  ensure : ∀ (b : Bank) (x : Addr), R b (b.ensureAccount x)

theorem keepsAt_rel (a : Addr) (t : Int) : BankRel (KeepsAt a) (fun x => a ≠ x) t :=
  ⟨KeepsAt.refl a, fun _ _ _ h1 h2 => h1.trans h2, fun b b' src dst amt h1 h2 h => sendCoins_keeps a src dst t amt b b' h1 h2 h,
   fun b x => ensureAccount_keeps a x b⟩

section rel
variable (R : Bank → Bank → Prop) (ok : Addr → Prop) (now : Int) (hR : BankRel R ok (now / nsPerSec)) (blocked : Addr → Bool)
variable (hMstr : ok Mstr) (hMfee : ok Mfee) (hunbl : ∀ x, blocked x = false → ok x)
include hR hMstr hMfee hunbl

theorem payFee_rel (b b' : Bank) (denom : String) (fee : Int) (hx : payFee b (now / nsPerSec) denom fee = .ok b') : R b b' := by
  unfold payFee at hx
  split at hx
  · exact hR.send _ _ _ _ _ hMstr hMfee hx
  · cases hx; exact hR.refl b

theorem payOut_rel (b b' : Bank) (to : Addr) (denom : String) (amt : Int)
    (hx : payOut b (now / nsPerSec) blocked to denom amt = .ok b') : R b b' := by
  unfold payOut at hx
  split at hx
  · simp only [bind_eq_ok, require_eq_ok, Bool.not_eq_true'] at hx
    obtain ⟨_, hnb, hx⟩ := hx
    exact hR.send _ _ _ _ _ hMstr (hunbl to hnb) hx
  · cases hx; exact hR.refl b

theorem claimFromStream_rel (x x' : SB) (r s : Addr) (o : ClaimOut)
    (hx : claimFromStream x now blocked r s = .ok (x', o)) : R x.bank x'.bank := by
  simp only [claimFromStream, bind_eq_ok, pure_eq_ok, Prod.mk.injEq] at hx
  obtain ⟨st, _, _, _, _, _, _, _, f, _, b1, hb1, b2, hb2, rfl, _⟩ := hx
  exact hR.trans _ _ _ (payFee_rel R ok now hR blocked hMstr hMfee hunbl _ _ _ _ hb1)
    (payOut_rel R ok now hR blocked hMstr hMfee hunbl _ _ r _ _ hb2)

theorem settleIfFunded_rel (x : SB) (r s : Addr) (st : Stream) (z : SB × Stream)
    (hx : settleIfFunded x now blocked r s st = .ok z) : R x.bank z.1.bank := by
  unfold settleIfFunded at hx
  split at hx
  · simp only [bind_eq_ok, pure_eq_ok] at hx
    obtain ⟨y, hy, rfl⟩ := hx
    exact claimFromStream_rel R ok now hR blocked hMstr hMfee hunbl x y.1 r s y.2 (by cases y; exact hy)
  · cases hx; exact hR.refl x.bank

theorem addDeposit_rel (x x' : SB) (r s : Addr) (denom : String) (amt : Int) (hs : ok s)
    (hx : addDeposit x now blocked r s denom amt = .ok x') : R x.bank x'.bank := by
  simp only [addDeposit, bind_eq_ok, pure_eq_ok] at hx
  obtain ⟨st, _, _, _, y, hy, _, _, bank, hbank, _, _, rfl⟩ := hx
  have hy' : R x.bank y.1.bank := by
    split at hy
    · simp only [bind_eq_ok, pure_eq_ok] at hy
      obtain ⟨z, hz, rfl⟩ := hy
      exact settleIfFunded_rel R ok now hR blocked hMstr hMfee hunbl x r s st z hz
    · cases hy; exact hR.refl x.bank
  exact hR.trans _ _ _ hy' (hR.send _ _ _ _ _ hs hMstr hbank)

theorem setNewFlowRate_rel (x x' : SB) (r s : Addr) (rate : Int)
    (hx : setNewFlowRate x now blocked r s rate = .ok x') : R x.bank x'.bank := by
  simp only [setNewFlowRate, bind_eq_ok] at hx
  obtain ⟨st, _, hx⟩ := hx
  split at hx
  · simp only [bind_eq_ok, pure_eq_ok] at hx
    obtain ⟨z, hz, _, _, rfl⟩ := hx
    exact settleIfFunded_rel R ok now hR blocked hMstr hMfee hunbl x r s st z hz
  · simp only [pure_eq_ok] at hx; subst hx; exact hR.refl x.bank

theorem cancelStream_rel (x x' : SB) (r s : Addr)
    (hx : cancelStream x now blocked r s = .ok x') : R x.bank x'.bank := by
  simp only [cancelStream, bind_eq_ok, pure_eq_ok] at hx
  obtain ⟨st, _, _, _, z, hz, bank, hbank, rfl⟩ := hx
  exact hR.trans _ _ _ (settleIfFunded_rel R ok now hR blocked hMstr hMfee hunbl x r s st z hz)
    (payOut_rel R ok now hR blocked hMstr hMfee hunbl _ _ s _ _ hbank)

end rel

/-- **every leaf message**, signed by an address somebody can sign for, relates the bank before and after
by any `BankRel` whose `ok` endpoints include the stream escrow, the fee collector, every non-blocked
address and every possible signer -/
theorem leaf_bank_rel (R : Bank → Bank → Prop) (ok : Addr → Prop) (s : State) (hR : BankRel R ok (s.time / nsPerSec))
    (hMstr : ok Mstr) (hMfee : ok Mfee)
    (hunbl : ∀ x, isBlocked x = false → ok x) (hsign : ∀ x, MaySign x → ok x)
    (wall : Nat) (s' : State) (m : Msg) (r : Resp) (hl : m.isLeaf = true) (hsig : m.SignedOK)
    (h : execMsg wall s m = .ok (s', r)) : R s.bank s'.bank := by
  obtain ⟨sa, hsa, hmay⟩ := hsig
  have hoksa := hsign sa hmay
  cases m with
  | strCreate rr sn amt denom rate =>
    simp only [execMsg, bind_eq_ok, pure_eq_ok, Prod.mk.injEq] at h
    obtain ⟨x, hx, rfl, _⟩ := h
    simp only [Msg.signer, signerTok_strCreate, Option.bind_some] at hsa
    simp only [createStream, bind_eq_ok, require_eq_ok, decodeM_eq_ok] at hx
    obtain ⟨sa', hsa', ra, _, _, _, _, _, _, _, _, _, _, _, _, _, hx⟩ := hx
    rw [hsa] at hsa'; cases hsa'
    exact addDeposit_rel R ok s.time hR isBlocked hMstr hMfee hunbl _ x ra sa denom amt hoksa hx
  | strClaim rr sn =>
    simp only [execMsg, bind_eq_ok, pure_eq_ok, Prod.mk.injEq] at h
    obtain ⟨x, hx, rfl, _⟩ := h
    simp only [claimStream, bind_eq_ok, require_eq_ok, decodeM_eq_ok] at hx
    obtain ⟨sa', _, ra, _, _, _, hx⟩ := hx
    exact claimFromStream_rel R ok s.time hR isBlocked hMstr hMfee hunbl (toSB s) x.1 ra sa' x.2 (by cases x; exact hx)
  | strTopup rr sn amt denom =>
    simp only [execMsg, bind_eq_ok, pure_eq_ok, Prod.mk.injEq] at h
    obtain ⟨x, hx, rfl, _⟩ := h
    simp only [Msg.signer, signerTok_strTopup, Option.bind_some] at hsa
    simp only [topUpDeposit, bind_eq_ok, pure_eq_ok, require_eq_ok, decodeM_eq_ok] at hx
    obtain ⟨sa', hsa', ra, _, _, _, st, _, _, _, x', hx', hxe⟩ := hx
    rw [hsa] at hsa'; cases hsa'
    have : x.1 = x' := by cases x; simp only [Prod.mk.injEq] at hxe; exact hxe.1.symm
    rw [show (liftSB s x.1).bank = x.1.bank from rfl, this]
    exact addDeposit_rel R ok s.time hR isBlocked hMstr hMfee hunbl (toSB s) x' ra sa denom amt hoksa hx'
  | strRate rr sn rate =>
    simp only [execMsg, bind_eq_ok, pure_eq_ok, Prod.mk.injEq] at h
    obtain ⟨x, hx, rfl, _⟩ := h
    simp only [updateFlowRate, bind_eq_ok, require_eq_ok, decodeM_eq_ok] at hx
    obtain ⟨sa', _, ra, _, _, _, _, _, hx⟩ := hx
    exact setNewFlowRate_rel R ok s.time hR isBlocked hMstr hMfee hunbl (toSB s) x ra sa' rate hx
  | strCancel rr sn =>
    simp only [execMsg, bind_eq_ok, pure_eq_ok, Prod.mk.injEq] at h
    obtain ⟨x, hx, rfl, _⟩ := h
    simp only [cancelStreamMsg, bind_eq_ok, require_eq_ok, decodeM_eq_ok] at hx
    obtain ⟨sa', _, ra, _, _, _, _, _, hx⟩ := hx
    exact cancelStream_rel R ok s.time hR isBlocked hMstr hMfee hunbl (toSB s) x ra sa' hx
  | strParams auth fee =>
    simp only [execMsg, bind_eq_ok, pure_eq_ok, Prod.mk.injEq] at h
    obtain ⟨_, _, _, _, rfl, _⟩ := h
    exact hR.refl _
  | bankSend src dst coins =>
    simp only [execMsg, bind_eq_ok, pure_eq_ok, Prod.mk.injEq, require_eq_ok, decodeM_eq_ok] at h
    obtain ⟨a, ha, b, _, _, hb, bank, hbank, rfl, _⟩ := h
    simp only [Msg.signer, signerTok_bankSend, Option.bind_some] at hsa
    rw [ha] at hsa; cases hsa
    exact hR.send _ _ _ _ _ hoksa (hunbl b (by simpa using hb)) hbank
  | authzGrant g e kind =>
    simp only [execMsg, bind_eq_ok, pure_eq_ok, Prod.mk.injEq] at h
    obtain ⟨_, _, ea, _, rfl, _⟩ := h
    exact hR.ensure s.bank ea
  | authzRevoke g e kind =>
    simp only [execMsg, bind_eq_ok, pure_eq_ok, Prod.mk.injEq] at h
    obtain ⟨_, _, _, _, _, _, rfl, _⟩ := h
    exact hR.refl _
  | authzExec g msgs => simp [Msg.isLeaf] at hl
  | feegrantGrant g e =>
    simp only [execMsg, bind_eq_ok, pure_eq_ok, Prod.mk.injEq] at h
    obtain ⟨_, _, ea, _, _, _, rfl, _⟩ := h
    exact hR.ensure s.bank ea
  | entRaise p amt denom =>
    simp only [execMsg, bind_eq_ok, pure_eq_ok, Prod.mk.injEq] at h
    obtain ⟨_, _, rfl, _⟩ := h; exact hR.refl _
  | entDecide id dec sg =>
    simp only [execMsg, bind_eq_ok, pure_eq_ok, Prod.mk.injEq] at h
    obtain ⟨_, _, rfl, _⟩ := h; exact hR.refl _
  | entWl action a sg =>
    simp only [execMsg, bind_eq_ok, pure_eq_ok, Prod.mk.injEq] at h
    obtain ⟨_, _, rfl, _⟩ := h; exact hR.refl _
  | entParams auth p =>
    simp only [execMsg, bind_eq_ok, pure_eq_ok, Prod.mk.injEq] at h
    obtain ⟨_, _, _, _, rfl, _⟩ := h; exact hR.refl _
  | regReg k moniker name genesis type o =>
    simp only [execMsg, bind_eq_ok, pure_eq_ok, Prod.mk.injEq] at h
    obtain ⟨_, _, rfl, _⟩ := h; cases k <;> exact hR.refl _
  | regRec k id key rc o =>
    simp only [execMsg, bind_eq_ok, pure_eq_ok, Prod.mk.injEq] at h
    obtain ⟨_, _, rfl, _⟩ := h; cases k <;> exact hR.refl _
  | regBuy k id n o =>
    simp only [execMsg, bind_eq_ok, pure_eq_ok, Prod.mk.injEq] at h
    obtain ⟨_, _, rfl, _⟩ := h; cases k <;> exact hR.refl _
  | regParams k auth p =>
    simp only [execMsg, bind_eq_ok, pure_eq_ok, Prod.mk.injEq] at h
    obtain ⟨_, _, _, _, rfl, _⟩ := h; cases k <;> exact hR.refl _

end Mainchain
