import Mainchain.Model.Keys
/- helper lemmas for the key codecs -/
namespace Mainchain
namespace Keys

theorem lexLt_cons (a b : Nat) (as bs : Bytes) :
    lexLt (a :: as) (b :: bs) = (decide (a < b) || (decide (a = b) && lexLt as bs)) := by
  simp only [lexLt]
  by_cases h1 : a < b
  · simp [h1]
  · by_cases h2 : a = b <;> simp [h1, h2]

/-- big-endian value of a byte string -/
def beVal : Bytes → Nat
  | [] => 0
  | a :: as => a * 256 ^ as.length + beVal as

theorem beVal_lt (as : Bytes) (h : ∀ b ∈ as, b < 256) : beVal as < 256 ^ as.length := by
  induction as with
  | nil => simp [beVal]
  | cons a as ih =>
    have ha : a < 256 := h a (by simp)
    have := ih (fun b hb => h b (by simp [hb]))
    simp only [beVal, List.length_cons, Nat.pow_succ]
    have : a * 256 ^ as.length + 256 ^ as.length ≤ 256 * 256 ^ as.length := by
      have : (a + 1) * 256 ^ as.length ≤ 256 * 256 ^ as.length := Nat.mul_le_mul_right _ (by omega)
      rw [Nat.add_mul] at this; simpa using this
    rw [Nat.mul_comm (256 ^ as.length) 256]
    omega

theorem lexLt_iff_beVal (as bs : Bytes) (hl : as.length = bs.length)
    (ha : ∀ b ∈ as, b < 256) (hb : ∀ b ∈ bs, b < 256) : lexLt as bs = true ↔ beVal as < beVal bs := by
  induction as generalizing bs with
  | nil =>
    cases bs with
    | nil => simp [lexLt, beVal]
    | cons b bs => simp at hl
  | cons a as ih =>
    cases bs with
    | nil => simp at hl
    | cons b bs =>
      simp only [List.length_cons, Nat.add_right_cancel_iff] at hl
      have ha' : ∀ x ∈ as, x < 256 := fun x hx => ha x (by simp [hx])
      have hb' : ∀ x ∈ bs, x < 256 := fun x hx => hb x (by simp [hx])
      have va := beVal_lt as ha'
      have vb := beVal_lt bs hb'
      rw [hl] at va
      have ih' := ih bs hl ha' hb'
      simp only [lexLt_cons, Bool.or_eq_true, Bool.and_eq_true, decide_eq_true_eq, beVal, hl]
      rcases Nat.lt_trichotomy a b with h | h | h
      · have : (a + 1) * 256 ^ bs.length ≤ b * 256 ^ bs.length := Nat.mul_le_mul_right _ h
        rw [Nat.add_mul] at this
        constructor
        · intro _; omega
        · intro _; exact Or.inl h
      · subst h
        constructor
        · rintro (h | ⟨_, h⟩)
          · omega
          · have := ih'.mp h; omega
        · intro h; exact Or.inr ⟨rfl, ih'.mpr (by omega)⟩
      · have : (b + 1) * 256 ^ bs.length ≤ a * 256 ^ bs.length := Nat.mul_le_mul_right _ h
        rw [Nat.add_mul] at this
        constructor
        · rintro (h' | ⟨h', _⟩) <;> omega
        · intro _; omega

theorem beVal_u64be (n : Nat) (h : n < 18446744073709551616) : beVal (u64be n) = n := by
  simp only [u64be, beVal, List.length_cons, List.length_nil]
  omega
theorem parseLP_eq (key : Bytes) (start len : Nat) (h : start + len ≤ key.length) :
    parseLP key start len = some ((key.drop start).take len, start + len - 1) := by
  simp only [parseLP]
  rw [if_neg (by omega)]

theorem parse_shape (p : Nat) (r s : Bytes) :
    parseStreamKey (p :: r.length :: (r ++ s.length :: s)) = some (r, s) := by
  have hlen : (p :: r.length :: (r ++ s.length :: s)).length = r.length + s.length + 3 := by
    simp; omega
  unfold parseStreamKey
  rw [parseLP_eq _ 1 1 (by rw [hlen]; omega)]
  simp only [List.drop_succ_cons, List.drop_zero, List.take_succ_cons, List.take_zero, Option.bind_eq_bind,
    Option.bind_some, List.head?_cons]
  rw [parseLP_eq _ _ r.length (by rw [hlen]; omega)]
  simp only [Option.bind_some]
  have d1 : (List.drop (1 + 1 - 1 + 1) (p :: r.length :: (r ++ s.length :: s))).take r.length = r := by
    simp
  rw [parseLP_eq _ _ 1 (by rw [hlen]; omega)]
  simp only [Option.bind_some]
  have e3 : (1 + 1 - 1 + 1 + r.length - 1 + 1) = r.length + 2 := by omega
  have d2 : (List.drop (1 + 1 - 1 + 1 + r.length - 1 + 1) (p :: r.length :: (r ++ s.length :: s))) = s.length :: s := by
    rw [e3, show r.length + 2 = (r.length + 1) + 1 by omega, List.drop_succ_cons, List.drop_succ_cons]
    simp
  rw [d2]
  simp only [List.take_succ_cons, List.take_zero, List.head?_cons, Option.bind_some]
  rw [parseLP_eq _ _ s.length (by rw [hlen]; omega)]
  simp only [Option.bind_some]
  have e4 : (1 + 1 - 1 + 1 + r.length - 1 + 1 + 1 - 1 + 1) = r.length + 3 := by omega
  have d3 : (List.drop (1 + 1 - 1 + 1 + r.length - 1 + 1 + 1 - 1 + 1) (p :: r.length :: (r ++ s.length :: s))) = s := by
    rw [e4, show r.length + 3 = ((r.length + 1) + 1) + 1 by omega, List.drop_succ_cons, List.drop_succ_cons]
    simp
  rw [d3, d1, hlen]
  rw [if_neg (by omega)]
  simp

end Keys
end Mainchain
