import Mainchain.Model.Paginate
/-
What the SDK pagination loops compute, in terms of the filtered list of a store section.
-/
namespace Mainchain
namespace Paginate
open Keys

variable {α : Type}

/-- the entries a total filter `h` accepts -/
def hitsOf (h : Bytes → α → Bool) (l : List (Bytes × α)) : List (Bytes × α) := l.filter (fun e => h e.1 e.2)

@[simp] theorem hitsOf_nil (h : Bytes → α → Bool) : hitsOf h [] = [] := rfl

theorem hitsOf_cons (h : Bytes → α → Bool) (e : Bytes × α) (l : List (Bytes × α)) :
    hitsOf h (e :: l) = if h e.1 e.2 then e :: hitsOf h l else hitsOf h l := by
  simp [hitsOf, List.filter_cons]

theorem window_hit_in {β : Type} (o e n : Nat) (v : β) (hs : List β) (h1 : o ≤ n) (h2 : n < e) :
    ((v :: hs).drop (o - n)).take (e - max n o) = v :: ((hs.drop (o - (n + 1))).take (e - max (n + 1) o)) := by
  have e1 : o - n = 0 := by omega
  have e2 : o - (n + 1) = 0 := by omega
  have e3 : e - max n o = (e - max (n + 1) o) + 1 := by omega
  rw [e1, e2, e3, List.drop_zero, List.drop_zero, List.take_succ_cons]

theorem window_hit_before {β : Type} (o e n : Nat) (v : β) (hs : List β) (h1 : n < o) :
    ((v :: hs).drop (o - n)).take (e - max n o) = (hs.drop (o - (n + 1))).take (e - max (n + 1) o) := by
  have e1 : o - n = (o - (n + 1)) + 1 := by omega
  have e3 : max n o = o := by omega
  have e4 : max (n + 1) o = o := by omega
  rw [e1, e3, e4, List.drop_succ_cons]

theorem window_at_end {β : Type} (o e : Nat) (l : List β) : (l.drop (o - e)).take (e - max e o) = [] := by
  have : e - max e o = 0 := by omega
  rw [this, List.take_zero]

theorem next_step {β : Type} [Inhabited β] (e n : Nat) (k : β) (ks : List β) (d : β) (h : n < e) :
    (((k :: ks).drop (e - n)).head?).getD d = ((ks.drop (e - (n + 1))).head?).getD d := by
  have : e - n = (e - (n + 1)) + 1 := by omega
  rw [this, List.drop_succ_cons]

/-- **offset branch** (no total requested): the page is exactly the hits number `o … e-1` (0-based, counted
from `n`), and `next` is the key of hit number `e` -/
theorem addU64_succ (e : Nat) (h : e + 1 < two64) : addU64 e 1 = e + 1 := by
  unfold addU64 wrapU64; exact Nat.mod_eq_of_lt h

theorem offLoop_spec (h : Bytes → α → Bool) (o e : Nat) (he : e + 1 < two64) : ∀ (l : List (Bytes × α)) (n : Nat) (acc : List α), n ≤ e →
    offLoop (fun k v => some (h k v)) o e false l n acc [] =
      some { items := acc ++ ((((hitsOf h l).map (·.2)).drop (o - n)).take (e - max n o)),
             next := ((((hitsOf h l).map (·.1)).drop (e - n)).head?).getD [],
             total := 0 } := by
  intro l
  have ha := addU64_succ e he
  induction l with
  | nil => intro n acc _; simp [offLoop]
  | cons x l ih =>
    intro n acc hn
    obtain ⟨k, v⟩ := x
    by_cases hh : h k v = true
    · by_cases hne : n = e
      · subst hne
        have hlt : ¬ (n < n) := Nat.lt_irrefl n
        simp only [offLoop, ha, hitsOf_cons, hh, if_true, Bool.true_and, hlt, decide_false, Bool.and_false, Bool.false_eq_true, if_false,
          Bool.not_false, List.map_cons, Nat.sub_self, List.drop_zero, List.head?_cons, Option.getD_some, window_at_end,
          List.append_nil]
      · have hn1 : n + 1 ≤ e := by omega
        have hne' : ¬ (n + 1 = e + 1) := by omega
        have hlt : n < e := by omega
        simp only [offLoop, ha, hitsOf_cons, hh, if_true, Bool.true_and, hne', if_false, List.map_cons]
        rw [ih (n + 1) _ hn1, next_step e n k _ [] hlt]
        by_cases hon : o ≤ n
        · simp only [hon, hlt, decide_true, Bool.and_self, if_true, window_hit_in o e n v _ hon hlt, List.append_assoc,
            List.singleton_append]
        · have hon' : n < o := by omega
          simp only [hon, decide_false, Bool.false_and, Bool.false_eq_true, if_false, window_hit_before o e n v _ hon']
    · have hh' : h k v = false := by simpa using hh
      have hne : ¬ (n = e + 1) := by omega
      simp only [offLoop, ha, hitsOf_cons, hh', Bool.false_and, Bool.false_eq_true, if_false, hne]
      exact ih n acc hn

/-- the part of a section that remains after `m` hits have been consumed -/
def afterHits (h : Bytes → α → Bool) : Nat → List (Bytes × α) → List (Bytes × α)
  | 0, l => l
  | _ + 1, [] => []
  | m + 1, e :: l => if h e.1 e.2 then afterHits h m l else afterHits h (m + 1) l

theorem hitsOf_afterHits (h : Bytes → α → Bool) : ∀ (m : Nat) (l : List (Bytes × α)),
    hitsOf h (afterHits h m l) = (hitsOf h l).drop m := by
  intro m l
  induction l generalizing m with
  | nil => cases m <;> simp [afterHits]
  | cons e l ih =>
    cases m with
    | zero => simp [afterHits]
    | succ m =>
      simp only [afterHits, hitsOf_cons]
      split
      · simp [ih m]
      · exact ih (m + 1)

theorem afterHits_length_le (h : Bytes → α → Bool) : ∀ (m : Nat) (l : List (Bytes × α)), (afterHits h m l).length ≤ l.length := by
  intro m l
  induction l generalizing m with
  | nil => cases m <;> simp [afterHits]
  | cons e l ih =>
    cases m with
    | zero => simp [afterHits]
    | succ m =>
      simp only [afterHits]
      split
      · have := ih m; simp only [List.length_cons]; omega
      · have := ih (m + 1); simp only [List.length_cons]; omega

theorem afterHits_length_lt (h : Bytes → α → Bool) (m : Nat) (e : Bytes × α) (l : List (Bytes × α)) :
    (afterHits h (m + 1) (e :: l)).length < (e :: l).length := by
  simp only [afterHits]
  split
  · have := afterHits_length_le h m l; simp only [List.length_cons]; omega
  · have := afterHits_length_le h (m + 1) l; simp only [List.length_cons]; omega

/-- **key branch** : the page is the first `L - n` hits, `next` is the key of the store entry that follows
the last of them -/
theorem keyLoop_spec (h : Bytes → α → Bool) (L : Nat) : ∀ (l : List (Bytes × α)) (n : Nat) (acc : List α), n ≤ L →
    keyLoop (fun k v => some (h k v)) L l n acc =
      some { items := acc ++ (((hitsOf h l).map (·.2)).take (L - n)),
             next := (((afterHits h (L - n) l).map (·.1)).head?).getD [],
             total := 0 } := by
  intro l
  induction l with
  | nil => intro n acc _; cases hL : L - n <;> simp [keyLoop, afterHits]
  | cons x l ih =>
    intro n acc hn
    obtain ⟨k, v⟩ := x
    simp only [keyLoop]
    by_cases hnl : n = L
    · subst hnl; simp [afterHits]
    · simp only [hnl, if_false]
      have hlt : n < L := by omega
      obtain ⟨m, hm⟩ : ∃ m, L - n = m + 1 := ⟨L - n - 1, by omega⟩
      by_cases hh : h k v = true
      · simp only [hh]
        rw [ih (n + 1) _ (by omega)]
        have : L - (n + 1) = m := by omega
        simp [this, hm, hitsOf_cons, hh, afterHits]
      · have hh' : h k v = false := by simpa using hh
        simp only [hh']
        rw [ih n acc hn]
        simp [hm, hitsOf_cons, hh', afterHits]

/-! ### byte order -/

theorem lexLt_irrefl : ∀ (a : Bytes), lexLt a a = false
  | [] => rfl
  | x :: xs => by simp [lexLt, lexLt_irrefl xs]

theorem lexLt_asymm : ∀ (a b : Bytes), lexLt a b = true → lexLt b a = false
  | [], [], h => by simp [lexLt] at h
  | [], _ :: _, _ => by simp [lexLt]
  | _ :: _, [], h => by simp [lexLt] at h
  | x :: xs, y :: ys, h => by
    simp only [lexLt] at h ⊢
    by_cases h1 : x < y
    · have : ¬ (y < x) := by omega
      have : ¬ (y = x) := by omega
      simp [*]
    · simp only [h1, if_false] at h
      by_cases h2 : x = y
      · subst h2
        simp only [if_true] at h
        simp [lexLt_asymm xs ys h]
      · simp [h2] at h

theorem lexLt_trans : ∀ (a b c : Bytes), lexLt a b = true → lexLt b c = true → lexLt a c = true
  | [], [], _, h, _ => by simp [lexLt] at h
  | [], _ :: _, [], _, h => by simp [lexLt] at h
  | [], _ :: _, _ :: _, _, _ => by simp [lexLt]
  | _ :: _, [], _, h, _ => by simp [lexLt] at h
  | _ :: _, _ :: _, [], _, h => by simp [lexLt] at h
  | x :: xs, y :: ys, z :: zs, h1, h2 => by
    simp only [lexLt] at h1 h2 ⊢
    by_cases a1 : x < y
    · by_cases a2 : y < z
      · have : x < z := by omega
        simp [this]
      · simp only [a2, if_false] at h2
        by_cases a3 : y = z
        · subst a3; simp [a1]
        · simp [a3] at h2
    · simp only [a1, if_false] at h1
      by_cases a4 : x = y
      · subst a4
        simp only [if_true] at h1
        by_cases a2 : x < z
        · simp [a2]
        · simp only [a2, if_false] at h2 ⊢
          by_cases a3 : x = z
          · subst a3
            simp only [if_true] at h2 ⊢
            exact lexLt_trans xs ys zs h1 h2
          · simp [a3] at h2
      · simp [a4] at h1

/-- a store section: keys strictly ascending (hence pairwise distinct), none empty -/
structure Section (kvs : List (Bytes × α)) : Prop where
  asc : kvs.Pairwise (fun a b => lexLt a.1 b.1 = true)
  nonempty : ∀ e ∈ kvs, e.1 ≠ []

theorem Section.tail {e : Bytes × α} {l : List (Bytes × α)} (h : Section (e :: l)) : Section l :=
  ⟨(List.pairwise_cons.mp h.asc).2, fun x hx => h.nonempty x (by simp [hx])⟩

/-- iterating forward from the key of an entry yields exactly the suffix that starts at that entry -/
theorem filter_from_key (pre : List (Bytes × α)) (k : Bytes) (v : α) (post : List (Bytes × α))
    (hs : (pre ++ (k, v) :: post).Pairwise (fun a b => lexLt a.1 b.1 = true)) :
    (pre ++ (k, v) :: post).filter (fun e => !lexLt e.1 k) = (k, v) :: post := by
  induction pre with
  | nil =>
    have hp := List.pairwise_cons.mp hs
    simp only [List.nil_append, List.filter_cons, lexLt_irrefl, Bool.not_false, if_true]
    congr 1
    apply List.filter_eq_self.mpr
    intro e he
    have := hp.1 e he
    simp [lexLt_asymm _ _ this]
  | cons p pre ih =>
    have hp := List.pairwise_cons.mp hs
    have hlt : lexLt p.1 k = true := hp.1 (k, v) (by simp)
    simp only [List.cons_append, List.filter_cons, hlt, Bool.not_true, Bool.false_eq_true, if_false]
    exact ih hp.2

/-- `afterHits` yields a suffix -/
theorem afterHits_suffix (h : Bytes → α → Bool) : ∀ (m : Nat) (l : List (Bytes × α)), ∃ pre, l = pre ++ afterHits h m l := by
  intro m l
  induction l generalizing m with
  | nil => cases m <;> exact ⟨[], by simp [afterHits]⟩
  | cons e l ih =>
    cases m with
    | zero => exact ⟨[], by simp [afterHits]⟩
    | succ m =>
      simp only [afterHits]
      split
      · obtain ⟨pre, hp⟩ := ih m; exact ⟨e :: pre, by simp [← hp]⟩
      · obtain ⟨pre, hp⟩ := ih (m + 1); exact ⟨e :: pre, by simp [← hp]⟩

/-- the suffix that starts at the first hit -/
def fromFirstHit (h : Bytes → α → Bool) : List (Bytes × α) → List (Bytes × α)
  | [] => []
  | e :: l => if h e.1 e.2 then e :: l else fromFirstHit h l

theorem fromFirstHit_suffix (h : Bytes → α → Bool) : ∀ (l : List (Bytes × α)), ∃ pre, l = pre ++ fromFirstHit h l := by
  intro l
  induction l with
  | nil => exact ⟨[], rfl⟩
  | cons e l ih =>
    simp only [fromFirstHit]
    split
    · exact ⟨[], rfl⟩
    · obtain ⟨pre, hp⟩ := ih; exact ⟨e :: pre, by simp [← hp]⟩

theorem hitsOf_fromFirstHit (h : Bytes → α → Bool) : ∀ (l : List (Bytes × α)), hitsOf h (fromFirstHit h l) = hitsOf h l := by
  intro l
  induction l with
  | nil => rfl
  | cons e l ih =>
    simp only [fromFirstHit, hitsOf_cons]
    split
    · rename_i hh; simp [hitsOf_cons, hh]
    · exact ih

theorem fromFirstHit_head (h : Bytes → α → Bool) : ∀ (l : List (Bytes × α)),
    (fromFirstHit h l).head? = (hitsOf h l).head? := by
  intro l
  induction l with
  | nil => rfl
  | cons e l ih =>
    simp only [fromFirstHit, hitsOf_cons]
    split
    · simp
    · exact ih

theorem fromFirstHit_length_le (h : Bytes → α → Bool) : ∀ (l : List (Bytes × α)), (fromFirstHit h l).length ≤ l.length := by
  intro l
  induction l with
  | nil => simp [fromFirstHit]
  | cons e l ih => simp only [fromFirstHit]; split <;> simp <;> omega

end Paginate
end Mainchain
