import Mainchain.Lemmas.AList
import Mainchain.Lemmas.Monad
import Mainchain.Model.Stream
/-
Frame lemmas of the stream keeper: an operation on the stream (r, s) reads and writes that stream only — every other
stream and the fee parameter are what they were.  No invariant is needed: this is the shape of the code.
-/
namespace Mainchain
open AL

/-- every stream but (r, s), and the fee parameter, are the same in `x'` as in `x` -/
def OthersSame (x x' : SB) (r s : Addr) : Prop :=
  x'.str.fee = x.str.fee ∧ ∀ k, k ≠ (r, s) → find? x'.str.streams k = find? x.str.streams k

theorem othersSame_refl (x : SB) (r s : Addr) : OthersSame x x r s := ⟨rfl, fun _ _ => rfl⟩

theorem othersSame_trans {x y z : SB} {r s : Addr} (h1 : OthersSame x y r s) (h2 : OthersSame y z r s) : OthersSame x z r s :=
  ⟨h2.1.trans h1.1, fun k hk => (h2.2 k hk).trans (h1.2 k hk)⟩

theorem othersSame_set (x : SB) (r s : Addr) (st : Stream) (b : Bank) : OthersSame x { str := setStream x r s st, bank := b } r s :=
  ⟨rfl, fun k hk => find_insert_ne _ _ _ _ (Ne.symm hk)⟩

theorem claim_frame (x : SB) (now : Int) (blocked : Addr → Bool) (r s : Addr) (y : SB × ClaimOut)
    (h : claimFromStream x now blocked r s = .ok y) : OthersSame x y.1 r s := by
  simp only [claimFromStream, bind_eq_ok, pure_eq_ok, require_eq_ok] at h
  obtain ⟨st, _, _, _, _, _, _, _, f, _, b1, _, b2, _, rfl⟩ := h
  exact othersSame_set x r s _ _

theorem settle_frame (x : SB) (now : Int) (blocked : Addr → Bool) (r s : Addr) (st : Stream) (z : SB × Stream)
    (h : settleIfFunded x now blocked r s st = .ok z) : OthersSame x z.1 r s := by
  unfold settleIfFunded at h
  split at h
  · simp only [bind_eq_ok, pure_eq_ok] at h
    obtain ⟨y, hy, rfl⟩ := h
    exact claim_frame x now blocked r s y hy
  · cases h; exact othersSame_refl x r s

theorem addDeposit_frame (x x' : SB) (now : Int) (blocked : Addr → Bool) (r s : Addr) (denom : String) (amt : Int)
    (h : addDeposit x now blocked r s denom amt = .ok x') : OthersSame x x' r s := by
  simp only [addDeposit, bind_eq_ok, pure_eq_ok, require_eq_ok] at h
  obtain ⟨st, _, _, _, y, hy, _, _, bank, _, _, _, rfl⟩ := h
  have hy1 : OthersSame x y.1 r s := by
    split at hy
    · simp only [bind_eq_ok, pure_eq_ok] at hy
      obtain ⟨z, hz, rfl⟩ := hy
      exact settle_frame x now blocked r s st z hz
    · cases hy; exact othersSame_refl x r s
  exact othersSame_trans hy1 (othersSame_set y.1 r s _ _)

theorem setNewFlowRate_frame (x x' : SB) (now : Int) (blocked : Addr → Bool) (r s : Addr) (rate : Int)
    (h : setNewFlowRate x now blocked r s rate = .ok x') : OthersSame x x' r s := by
  simp only [setNewFlowRate, bind_eq_ok] at h
  obtain ⟨st, _, h⟩ := h
  split at h
  · simp only [bind_eq_ok, pure_eq_ok, require_eq_ok] at h
    obtain ⟨z, hz, _, _, rfl⟩ := h
    exact othersSame_trans (settle_frame x now blocked r s st z hz) ⟨rfl, fun k hk => find_insert_ne _ _ _ _ (Ne.symm hk)⟩
  · simp only [pure_eq_ok] at h
    subst h
    exact ⟨rfl, fun k hk => find_insert_ne _ _ _ _ (Ne.symm hk)⟩

theorem cancelStream_frame (x x' : SB) (now : Int) (blocked : Addr → Bool) (r s : Addr)
    (h : cancelStream x now blocked r s = .ok x') : OthersSame x x' r s := by
  simp only [cancelStream, bind_eq_ok, pure_eq_ok, require_eq_ok] at h
  obtain ⟨st, _, _, _, z, hz, bank, _, rfl⟩ := h
  exact othersSame_trans (settle_frame x now blocked r s st z hz) ⟨rfl, fun k hk => find_erase_ne _ _ _ (Ne.symm hk)⟩

end Mainchain
