import Mainchain.Lemmas.EntBook
/-
Life-cycle of purchase orders along every run: how the record of an order can differ between two
states of the same history.
-/
namespace Mainchain
open AL

/-- one elementary status move -/
def StatusStep (a b : Nat) : Prop :=
  a = b ∨ (a = stRaised ∧ b = stAccepted) ∨ (a = stRaised ∧ b = stRejected) ∨ (a = stAccepted ∧ b = stCompleted)

/-- reflexive–transitive closure of `StatusStep` : raised → accepted → completed | raised → rejected -/
def StatusLE (a b : Nat) : Prop :=
  a = b ∨ (a = stRaised ∧ (b = stAccepted ∨ b = stRejected ∨ b = stCompleted)) ∨ (a = stAccepted ∧ b = stCompleted)

theorem StatusStep.le {a b : Nat} (h : StatusStep a b) : StatusLE a b := by
  rcases h with h | ⟨h1, h2⟩ | ⟨h1, h2⟩ | ⟨h1, h2⟩
  · exact Or.inl h
  · exact Or.inr (Or.inl ⟨h1, Or.inl h2⟩)
  · exact Or.inr (Or.inl ⟨h1, Or.inr (Or.inl h2)⟩)
  · exact Or.inr (Or.inr ⟨h1, h2⟩)

theorem StatusLE.trans {a b c : Nat} (h1 : StatusLE a b) (h2 : StatusLE b c) : StatusLE a c := by
  unfold StatusLE stRaised stAccepted stRejected stCompleted at *
  omega

/-- how one stored order may differ between an earlier and a later state -/
structure POEvolves (po po' : PO) : Prop where
  id : po'.id = po.id
  purchaser : po'.purchaser = po.purchaser
  denom : po'.denom = po.denom
  amt : po'.amt = po.amt
  raiseTime : po'.raiseTime = po.raiseTime
  status : StatusLE po.status po'.status
  frozen : po.status = stRejected ∨ po.status = stCompleted → po' = po
  decisions : ∃ more, po'.decisions = po.decisions ++ more
  decisionsFrozen : po.status ≠ stRaised → po'.decisions = po.decisions
  completionFrozen : po.status ≠ stRaised → po'.completionTime = po.completionTime

theorem POEvolves.refl (po : PO) : POEvolves po po :=
  ⟨rfl, rfl, rfl, rfl, rfl, Or.inl rfl, fun _ => rfl, ⟨[], by simp⟩, fun _ => rfl, fun _ => rfl⟩

theorem POEvolves.trans {a b c : PO} (h1 : POEvolves a b) (h2 : POEvolves b c) : POEvolves a c := by
  refine ⟨h2.id.trans h1.id, h2.purchaser.trans h1.purchaser, h2.denom.trans h1.denom, h2.amt.trans h1.amt,
    h2.raiseTime.trans h1.raiseTime, h1.status.trans h2.status, ?_, ?_, ?_, ?_⟩
  · intro hf
    have hb := h1.frozen hf
    subst hb
    exact h2.frozen hf
  · obtain ⟨m1, e1⟩ := h1.decisions
    obtain ⟨m2, e2⟩ := h2.decisions
    exact ⟨m1 ++ m2, by rw [e2, e1, List.append_assoc]⟩
  · intro hne
    have hb : b.status ≠ stRaised := by
      have := h1.status
      unfold StatusLE stRaised stAccepted stRejected stCompleted at *
      omega
    rw [h2.decisionsFrozen hb, h1.decisionsFrozen hne]
  · intro hne
    have hb : b.status ≠ stRaised := by
      have := h1.status
      unfold StatusLE stRaised stAccepted stRejected stCompleted at *
      omega
    rw [h2.completionFrozen hb, h1.completionFrozen hne]

/-- every order of the earlier state is still there, evolved -/
def BookLE (e e' : EntState) : Prop :=
  ∀ id po, find? e.orders id = some po → ∃ po', find? e'.orders id = some po' ∧ POEvolves po po'

theorem BookLE.refl (e : EntState) : BookLE e e := fun _ po h => ⟨po, h, .refl po⟩

theorem BookLE.trans {a b c : EntState} (h1 : BookLE a b) (h2 : BookLE b c) : BookLE a c := by
  intro id po h
  obtain ⟨po1, hf1, e1⟩ := h1 id po h
  obtain ⟨po2, hf2, e2⟩ := h2 id po1 hf1
  exact ⟨po2, hf2, e1.trans e2⟩

theorem bookLE_of_orders (e e' : EntState) (h : e'.orders = e.orders) : BookLE e e' :=
  fun _ po hf => ⟨po, h ▸ hf, .refl po⟩

/-- updating one order by an evolved record -/
theorem bookLE_update (e : EntState) (id : Nat) (po po' : PO) (e' : EntState)
    (hf : find? e.orders id = some po) (he : e'.orders = insert e.orders id po') (hev : POEvolves po po') : BookLE e e' := by
  intro x q hx
  by_cases hxe : id = x
  · subst hxe
    rw [hf] at hx; cases hx
    exact ⟨po', by rw [he]; exact find_insert_eq _ _ _, hev⟩
  · exact ⟨q, by rw [he, find_insert_ne _ _ _ _ hxe]; exact hx, .refl q⟩

theorem entStep_bookLE (s : State) (e' : EntState) (hi : BookInv s.ent) (h : EntStep s e') : BookLE s.ent e' := by
  cases h with
  | same he => rw [he]; exact .refl _
  | op hop =>
    cases hop with
    | raise p denom amt id h =>
      simp only [EntState.raise, bind_eq_ok, pure_eq_ok, Prod.mk.injEq] at h
      obtain ⟨_, _, _, _, _, _, _, _, rfl, _⟩ := h
      intro x q hx
      have hne : s.ent.nextId ≠ x := by have := hi.fresh x q hx; omega
      exact ⟨q, by simp only [find_insert_ne _ _ _ _ hne]; exact hx, .refl q⟩
    | decide id dec sg h =>
      simp only [EntState.decide_, bind_eq_ok, pure_eq_ok, require_eq_ok, decide_eq_true_eq] at h
      obtain ⟨signer, _, _, _, po, hpo, _, _, _, _, _, hst, _, _, rfl⟩ := h
      have hf := findOrder_ok _ _ _ hpo
      refine bookLE_update _ id po _ _ hf rfl ?_
      exact ⟨rfl, rfl, rfl, rfl, rfl, Or.inl rfl, fun hc => by rcases hc with hc | hc <;> (rw [hst] at hc; cases hc),
        ⟨_, rfl⟩, fun hc => absurd hst hc, fun _ => rfl⟩
    | whitelist action addr sg h =>
      simp only [EntState.whitelistMsg, bind_eq_ok] at h
      obtain ⟨_, _, _, _, _, _, _, _, h⟩ := h
      split at h
      · simp only [bind_eq_ok, pure_eq_ok] at h; obtain ⟨_, _, rfl⟩ := h; exact bookLE_of_orders _ _ rfl
      · simp only [bind_eq_ok, pure_eq_ok] at h; obtain ⟨_, _, rfl⟩ := h; exact bookLE_of_orders _ _ rfl
    | setParams p h =>
      simp only [EntState.setParams, bind_eq_ok, pure_eq_ok] at h
      obtain ⟨_, _, rfl⟩ := h
      exact bookLE_of_orders _ _ rfl
  | unlock x payer fees hx he =>
    have hb := unlockForFees_book _ _ _ _ _ hx
    simp only [EntState.book, Prod.mk.injEq] at hb
    exact bookLE_of_orders _ _ (by rw [he]; exact hb.2.2.1)
  | complete id x hx he =>
    unfold EB.completeOne at hx
    split at hx
    · cases hx
    · rename_i po hf
      split at hx
      · cases hx
      · rename_i hst
        have hst : po.status = stAccepted := by simpa using hst
        split at hx
        · cases hx
        · simp only [bind_eq_ok, pure_eq_ok] at hx
          obtain ⟨x2, hx2, rfl⟩ := hx
          have hb := mintAndLock_book _ _ _ _ _ _ (asPanic_ok _ _ hx2)
          simp only [EntState.book, Prod.mk.injEq] at hb
          refine bookLE_update _ id po { po with status := stCompleted } _ hf (by rw [he]; exact hb.2.2.1) ?_
          exact ⟨rfl, rfl, rfl, rfl, rfl, Or.inr (Or.inr ⟨hst, rfl⟩),
            fun hc => by rcases hc with hc | hc <;> (rw [hst] at hc; cases hc), ⟨[], by simp⟩, fun _ => rfl, fun _ => rfl⟩
  | tally id ht =>
    unfold EntState.tallyOne at ht
    split at ht
    · cases ht
    · rename_i po hf
      split at ht
      · cases ht
      · rename_i hst
        have hst : po.status = stRaised := by simpa using hst
        split at ht
        · cases ht; exact .refl _
        · rename_i st hd
          cases ht
          have hv := tallyDecision_valid _ _ _ _ hd
          refine bookLE_update _ id po { po with status := st, completionTime := s.nowSecU } _ hf (by split <;> rfl) ?_
          refine ⟨rfl, rfl, rfl, rfl, rfl, ?_, fun hc => by rcases hc with hc | hc <;> (rw [hst] at hc; cases hc),
            ⟨[], by simp⟩, fun _ => rfl, fun hc => absurd hst hc⟩
          rcases hv with rfl | rfl
          · exact Or.inr (Or.inl ⟨hst, Or.inr (Or.inl rfl)⟩)
          · exact Or.inr (Or.inl ⟨hst, Or.inl rfl⟩)

theorem fineStep_bookLE (s s' : State) (hi : BookInv s.ent) (h : FineStep s s') : BookLE s.ent s'.ent :=
  entStep_bookLE s s'.ent hi (fineStep_ent s s' h)

/-- along every path of a run the order book only evolves -/
theorem path_bookLE {g : GenCfg} {a b : State} (ha : FineReach g EntQ a) (hp : FinePathQ EntQ a b) : BookLE a.ent b.ent :=
  path_rel (g := g) (Q := EntQ) (fun x y => BookLE x.ent y.ent) (fun x => .refl x.ent) (fun _ _ _ h1 h2 => h1.trans h2)
    (fun x y hx _ hs => fineStep_bookLE x y (bookInv_reachable g x hx) hs) ha hp

end Mainchain
