import Mainchain.Lemmas.EntCanon
import Mainchain.Lemmas.WrkInv
/-
Export followed by import of a registry module (x/wrkchain, x/beacon `ExportGenesis` / `InitGenesis`):
what the imported section holds, entry by entry.
-/
namespace Mainchain
open AL Genesis

theorem snocInd {α : Type} {P : List α → Prop} (hnil : P []) (hsnoc : ∀ l a, P l → P (l ++ [a])) : ∀ l, P l := by
  intro l
  have h : ∀ l : List α, P l.reverse := by
    intro l
    induction l with
    | nil => exact hnil
    | cons a l ih => rw [List.reverse_cons]; exact hsnoc _ _ ih
  simpa using h l.reverse

/-! ### one record list -/

theorem find_collectRec (r : RegState) (id : Nat) (rs : List ((Nat × Nat) × Rec)) (a : Nat) (key : Nat × Nat) :
    find? (collectRec r id rs a) key =
      if key = (id, a) then (match find? r.recs (id, a) with | some rc => some rc | none => find? rs key) else find? rs key := by
  unfold collectRec
  by_cases hk : key = (id, a)
  · subst hk
    simp only [if_true]
    cases find? r.recs (id, a) with
    | some rc => simp only; exact find_insertRec_eq _ _ _
    | none => rfl
  · simp only [hk, if_false]
    cases find? r.recs (id, a) with
    | none => rfl
    | some rc => exact find_insertRec_ne _ _ _ _ (fun e => hk e.symm)

theorem find_foldl_collectRec (r : RegState) (id : Nat) : ∀ (l : List Nat) (acc : List ((Nat × Nat) × Rec)) (key : Nat × Nat),
    find? (l.foldl (collectRec r id) acc) key =
      if key.1 = id ∧ key.2 ∈ l then (match find? r.recs key with | some v => some v | none => find? acc key) else find? acc key := by
  intro l
  induction l using snocInd with
  | hnil => intro acc key; simp
  | hsnoc l a ih =>
    intro acc key
    rw [List.foldl_append, List.foldl_cons, List.foldl_nil, find_collectRec, ih]
    by_cases hk : key = (id, a)
    · subst hk
      simp only [if_true, List.mem_append, List.mem_singleton, or_true, and_self]
      cases find? r.recs (id, a) with
      | some rc => rfl
      | none => simp only; split <;> rfl
    · have hne : ¬ (key.1 = id ∧ key.2 = a) := by
        intro hc; apply hk; obtain ⟨k1, k2⟩ := key; simp only at hc; rw [hc.1, hc.2]
      rw [if_neg hk]
      by_cases hc : key.1 = id ∧ key.2 ∈ l
      · have : key.1 = id ∧ key.2 ∈ l ++ [a] := ⟨hc.1, List.mem_append_left _ hc.2⟩
        rw [if_pos hc, if_pos this]
      · have : ¬ (key.1 = id ∧ key.2 ∈ l ++ [a]) := by
          rintro ⟨h1, h2⟩
          rw [List.mem_append, List.mem_singleton] at h2
          rcases h2 with h2 | h2
          · exact hc ⟨h1, h2⟩
          · exact hne ⟨h1, h2⟩
        rw [if_neg hc, if_neg this]

/-! ### the fold over the registrations -/

theorem importStep_regs (r acc : RegState) (id x : Nat) :
    find? (importRegStep r acc id).regs x =
      if x = id then (match find? r.regs id with | some m => some (recount r id m) | none => find? acc.regs x) else find? acc.regs x := by
  unfold importRegStep
  cases hf : find? r.regs id with
  | none => simp
  | some m =>
    simp only
    by_cases hx : x = id
    · subst hx; simp only [if_true]; exact find_insert_eq _ _ _
    · simp only [hx, if_false]; exact find_insert_ne _ _ _ _ (fun e => hx e.symm)

theorem importStep_limits (r acc : RegState) (id x : Nat) :
    find? (importRegStep r acc id).limits x =
      if x = id then (match find? r.regs id with | some _ => some (limitOr0 r id) | none => find? acc.limits x) else find? acc.limits x := by
  unfold importRegStep
  cases hf : find? r.regs id with
  | none => simp
  | some m =>
    simp only
    by_cases hx : x = id
    · subst hx; simp only [if_true]; exact find_insert_eq _ _ _
    · simp only [hx, if_false]; exact find_insert_ne _ _ _ _ (fun e => hx e.symm)

theorem importStep_recs (r acc : RegState) (id : Nat) (key : Nat × Nat) :
    find? (importRegStep r acc id).recs key =
      if key.1 = id ∧ (find? r.regs id).isSome = true ∧ key.2 ∈ keptKeys r id then
        (match find? r.recs key with | some v => some v | none => find? acc.recs key) else find? acc.recs key := by
  unfold importRegStep
  cases hf : find? r.regs id with
  | none => simp
  | some m =>
    simp only [Option.isSome_some, true_and]
    exact find_foldl_collectRec r id _ _ key

theorem importStep_head (r acc : RegState) (id : Nat) :
    (importRegStep r acc id).kind = acc.kind ∧ (importRegStep r acc id).params = acc.params ∧ (importRegStep r acc id).nextId = acc.nextId := by
  unfold importRegStep; cases find? r.regs id <;> exact ⟨rfl, rfl, rfl⟩

theorem importFold_head (r : RegState) : ∀ (l : List Nat) (acc : RegState),
    (l.foldl (importRegStep r) acc).kind = acc.kind ∧ (l.foldl (importRegStep r) acc).params = acc.params ∧
    (l.foldl (importRegStep r) acc).nextId = acc.nextId := by
  intro l
  induction l with
  | nil => intro acc; exact ⟨rfl, rfl, rfl⟩
  | cons a l ih =>
    intro acc
    obtain ⟨h1, h2, h3⟩ := ih (importRegStep r acc a)
    obtain ⟨g1, g2, g3⟩ := importStep_head r acc a
    exact ⟨h1.trans g1, h2.trans g2, h3.trans g3⟩

theorem importFold_regs (r : RegState) : ∀ (l : List Nat) (acc : RegState) (x : Nat),
    find? (l.foldl (importRegStep r) acc).regs x =
      if x ∈ l then (match find? r.regs x with | some m => some (recount r x m) | none => find? acc.regs x) else find? acc.regs x := by
  intro l
  induction l using snocInd with
  | hnil => intro acc x; simp
  | hsnoc l a ih =>
    intro acc x
    rw [List.foldl_append, List.foldl_cons, List.foldl_nil, importStep_regs, ih]
    by_cases hx : x = a
    · subst hx
      simp only [if_true, List.mem_append, List.mem_singleton, or_true]
      cases find? r.regs x with
      | some m => rfl
      | none => simp only; split <;> rfl
    · simp only [hx, if_false, List.mem_append, List.mem_singleton, or_false]

theorem importFold_limits (r : RegState) : ∀ (l : List Nat) (acc : RegState) (x : Nat),
    find? (l.foldl (importRegStep r) acc).limits x =
      if x ∈ l then (match find? r.regs x with | some _ => some (limitOr0 r x) | none => find? acc.limits x) else find? acc.limits x := by
  intro l
  induction l using snocInd with
  | hnil => intro acc x; simp
  | hsnoc l a ih =>
    intro acc x
    rw [List.foldl_append, List.foldl_cons, List.foldl_nil, importStep_limits, ih]
    by_cases hx : x = a
    · subst hx
      simp only [if_true, List.mem_append, List.mem_singleton, or_true]
      cases find? r.regs x with
      | some m => rfl
      | none => simp only; split <;> rfl
    · simp only [hx, if_false, List.mem_append, List.mem_singleton, or_false]

theorem importFold_recs (r : RegState) : ∀ (l : List Nat) (acc : RegState) (key : Nat × Nat),
    find? (l.foldl (importRegStep r) acc).recs key =
      if key.1 ∈ l ∧ (find? r.regs key.1).isSome = true ∧ key.2 ∈ keptKeys r key.1 then
        (match find? r.recs key with | some v => some v | none => find? acc.recs key) else find? acc.recs key := by
  intro l
  induction l using snocInd with
  | hnil => intro acc key; simp
  | hsnoc l a ih =>
    intro acc key
    rw [List.foldl_append, List.foldl_cons, List.foldl_nil, importStep_recs, ih]
    by_cases hx : key.1 = a
    · subst hx
      by_cases hc : (find? r.regs key.1).isSome = true ∧ key.2 ∈ keptKeys r key.1
      · simp only [hc, and_self, true_and, if_true, List.mem_append, List.mem_singleton, or_true]
        cases find? r.recs key with
        | some v => rfl
        | none => simp only; split <;> rfl
      · have h1 : ¬ (key.1 = key.1 ∧ (find? r.regs key.1).isSome = true ∧ key.2 ∈ keptKeys r key.1) := fun h => hc h.2
        have h2 : ¬ (key.1 ∈ l ∧ (find? r.regs key.1).isSome = true ∧ key.2 ∈ keptKeys r key.1) := fun h => hc h.2
        have h3 : ¬ (key.1 ∈ l ++ [key.1] ∧ (find? r.regs key.1).isSome = true ∧ key.2 ∈ keptKeys r key.1) := fun h => hc h.2
        rw [if_neg h1, if_neg h2, if_neg h3]
    · have h1 : ¬ (key.1 = a ∧ (find? r.regs a).isSome = true ∧ key.2 ∈ keptKeys r a) := fun h => hx h.1
      rw [if_neg h1]
      simp only [List.mem_append, List.mem_singleton, hx, or_false]

/-! ### retained keys -/

theorem mem_retained (r : RegState) (id k : Nat) : k ∈ r.retained id ↔ (find? r.recs (id, k)).isSome = true := by
  unfold RegState.retained
  rw [mem_isort]
  simp only [List.mem_map, List.mem_filter, decide_eq_true_eq]
  constructor
  · rintro ⟨e, ⟨hm, h1⟩, h2⟩
    have hk : (id, k) ∈ keys r.recs := by
      simp only [keys, List.mem_map]
      exact ⟨e, hm, by obtain ⟨⟨a, b⟩, c⟩ := e; simp only at h1 h2; rw [h1, h2]⟩
    obtain ⟨v, hv⟩ := find_some_of_mem _ _ hk
    rw [hv]; rfl
  · intro h
    cases hf : find? r.recs (id, k) with
    | none => rw [hf] at h; cases h
    | some v =>
      have hk := mem_keys_of_find _ _ _ hf
      simp only [keys, List.mem_map] at hk
      obtain ⟨e, hm, he⟩ := hk
      exact ⟨e, ⟨hm, by rw [he]⟩, by rw [he]⟩

theorem mem_keptKeys (r : RegState) (id k : Nat) (h : k ∈ keptKeys r id) : k ∈ r.retained id :=
  List.mem_of_mem_drop h

theorem keptKeys_small (r : RegState) (id : Nat) (h : (r.retained id).length ≤ exportCap) : keptKeys r id = r.retained id := by
  unfold keptKeys
  simp only
  rw [Nat.sub_eq_zero_of_le h]; rfl

/-! ### what the imported section holds -/

/-- **entry by entry**: the imported section has the same kind, parameters and id counter; every
registration with its metadata, the two counters recomputed from the exported records; the stored limit of
every registration (0 when none); and exactly the newest `exportCap` records of every registration -/
theorem importReg_observe (r : RegState) (hi : RegInv r) :
    (importReg r).kind = r.kind ∧ (importReg r).params = r.params ∧ (importReg r).nextId = r.nextId ∧
    (∀ id, find? (importReg r).regs id = (find? r.regs id).map (recount r id)) ∧
    (∀ id, find? (importReg r).limits id = (find? r.regs id).map (fun _ => limitOr0 r id)) ∧
    (∀ id k, find? (importReg r).recs (id, k) = if k ∈ keptKeys r id then find? r.recs (id, k) else none) := by
  obtain ⟨h1, h2, h3⟩ := importFold_head r (sortNat (keys r.regs)) { kind := r.kind, params := r.params, nextId := r.nextId }
  refine ⟨h1, h2, h3, ?_, ?_, ?_⟩
  · intro id
    show find? ((sortNat (keys r.regs)).foldl (importRegStep r) _).regs id = _
    rw [importFold_regs]
    by_cases hm : id ∈ keys r.regs
    · rw [if_pos ((mem_sortNat _ _).mpr hm)]
      cases find? r.regs id <;> rfl
    · rw [if_neg (fun h => hm ((mem_sortNat _ _).mp h)), find_none_of_not_mem _ _ hm]; rfl
  · intro id
    show find? ((sortNat (keys r.regs)).foldl (importRegStep r) _).limits id = _
    rw [importFold_limits]
    by_cases hm : id ∈ keys r.regs
    · rw [if_pos ((mem_sortNat _ _).mpr hm)]
      cases find? r.regs id <;> rfl
    · rw [if_neg (fun h => hm ((mem_sortNat _ _).mp h)), find_none_of_not_mem _ _ hm]; rfl
  · intro id k
    show find? ((sortNat (keys r.regs)).foldl (importRegStep r) _).recs (id, k) = _
    rw [importFold_recs]
    by_cases hk : k ∈ keptKeys r id
    · have hs := (mem_retained r id k).mp (mem_keptKeys r id k hk)
      cases hf : find? r.recs (id, k) with
      | none => rw [hf] at hs; cases hs
      | some rc =>
        obtain ⟨m, hm, _⟩ := hi.recsBounded id k rc hf
        have hmem : id ∈ sortNat (keys r.regs) := (mem_sortNat _ _).mpr (mem_keys_of_find _ _ _ hm)
        simp only [hmem, hm, Option.isSome_some, hk, and_self, if_true]
    · simp only [hk, and_false, if_false]; rfl

/-- with at most `exportCap` records retained per registration nothing is dropped -/
theorem importReg_recs_small (r : RegState) (hi : RegInv r) (hcap : ∀ id, (r.retained id).length ≤ exportCap) (id k : Nat) :
    find? (importReg r).recs (id, k) = find? r.recs (id, k) := by
  rw [(importReg_observe r hi).2.2.2.2.2 id k, keptKeys_small r id (hcap id)]
  by_cases hk : k ∈ r.retained id
  · rw [if_pos hk]
  · rw [if_neg hk]
    cases hf : find? r.recs (id, k) with
    | none => rfl
    | some v => exact absurd ((mem_retained r id k).mpr (by rw [hf]; rfl)) hk

theorem importReg_limits_registered (r : RegState) (hi : RegInv r) (id : Nat) (m : RegMeta) (hm : find? r.regs id = some m) :
    find? (importReg r).limits id = find? r.limits id := by
  rw [(importReg_observe r hi).2.2.2.2.1 id, hm]
  obtain ⟨l, hl, _⟩ := hi.hasLimit id m hm
  simp [limitOr0, hl]

/-! ### the counters are the ones stored -/

theorem retained_eq_keysOf (r : RegState) (id : Nat) : r.retained id = sortNat (keysOf r.recs id) := rfl

/-- WRKChain: block heights are recorded in ascending order, the counters count them -/
theorem recount_wrk (r : RegState) (hc : WrkCounters r) (id : Nat) (m : RegMeta) (hm : find? r.regs id = some m)
    (hcap : (r.retained id).length ≤ exportCap) : recount r id m = m := by
  have hs : r.retained id = keysOf r.recs id := by
    rw [retained_eq_keysOf]
    exact sortNat_of_asc _ (hc.sorted id)
  unfold recount
  rw [keptKeys_small r id hcap, hs, ← hc.num id m hm, List.headD_eq_head?_getD, ← hc.lowest id m hm]

theorem nodup_keysOf (recs : List ((Nat × Nat) × Rec)) (hn : NoDupKeys recs) (id : Nat) : (keysOf recs id).Nodup := by
  induction recs with
  | nil => simp [keysOf]
  | cons e rest ih =>
    unfold NoDupKeys keys at hn
    rw [List.map_cons, List.nodup_cons] at hn
    have ihr := ih hn.2
    by_cases he : e.1.1 = id
    · have hk : keysOf (e :: rest) id = e.1.2 :: keysOf rest id := by simp [keysOf, he]
      rw [hk, List.nodup_cons]
      refine ⟨?_, ihr⟩
      intro hm
      have := (mem_keysOf rest id e.1.2).mp hm
      apply hn.1
      have he2 : e.1 = (id, e.1.2) := by rw [← he]
      rw [he2]; exact this
    · have hk : keysOf (e :: rest) id = keysOf rest id := by simp [keysOf, he]
      rw [hk]; exact ihr

theorem asc_retained (r : RegState) (hn : NoDupKeys r.recs) (id : Nat) : Asc (r.retained id) := by
  rw [retained_eq_keysOf]
  exact asc_sortNat_of_nodup _ (nodup_keysOf r.recs hn id)

/-- BEACON: the retained timestamp ids are the contiguous range the counters describe -/
theorem retained_bcn (r : RegState) (hn : NoDupKeys r.recs) (hc : BcnCounters r) (id : Nat) (m : RegMeta) (hm : find? r.regs id = some m) :
    r.retained id = List.range' m.lowest m.num := by
  apply asc_ext _ _ (asc_retained r hn id) (List.pairwise_lt_range')
  intro k
  rw [mem_retained, hc.present id m k hm, List.mem_range'_1]
  rcases Nat.eq_zero_or_pos m.num with h0 | hp
  · omega
  · have := hc.range id m hm hp; omega

theorem recount_bcn (r : RegState) (hn : NoDupKeys r.recs) (hc : BcnCounters r) (id : Nat) (m : RegMeta) (hm : find? r.regs id = some m)
    (hcap : (r.retained id).length ≤ exportCap) : recount r id m = m := by
  have hs := retained_bcn r hn hc id m hm
  unfold recount
  rw [keptKeys_small r id hcap, hs, List.length_range', List.headD_eq_head?_getD, List.head?_range']
  rcases Nat.eq_zero_or_pos m.num with h0 | hp
  · have := (hc.empty id m hm h0).1
    simp only [h0, if_true, Option.getD_none]
    cases m; simp_all
  · have : m.num ≠ 0 := by omega
    simp only [this, if_false, Option.getD_some]

/-! ### summary relations -/

/-- `b` holds what `a` held, the records cut to the newest `exportCap` per registration and the two counters
of every registration recomputed from them -/
def RegNewest (a b : RegState) : Prop :=
  b.kind = a.kind ∧ b.params = a.params ∧ b.nextId = a.nextId ∧
  (∀ id, find? b.regs id = (find? a.regs id).map (recount a id)) ∧
  (∀ id m, find? a.regs id = some m → find? b.limits id = find? a.limits id) ∧
  (∀ id, find? a.regs id = none → find? b.limits id = none) ∧
  (∀ id k, find? b.recs (id, k) = if k ∈ keptKeys a id then find? a.recs (id, k) else none)

/-- `b` answers every point read exactly as `a` does -/
def RegSame (a b : RegState) : Prop :=
  b.kind = a.kind ∧ b.params = a.params ∧ b.nextId = a.nextId ∧
  (∀ id, find? b.regs id = find? a.regs id) ∧
  (∀ id m, find? a.regs id = some m → find? b.limits id = find? a.limits id) ∧
  (∀ id k, find? b.recs (id, k) = find? a.recs (id, k))

theorem importReg_newest (r : RegState) (hi : RegInv r) : RegNewest r (importReg r) := by
  obtain ⟨h1, h2, h3, h4, h5, h6⟩ := importReg_observe r hi
  exact ⟨h1, h2, h3, h4, fun id m hm => importReg_limits_registered r hi id m hm,
    fun id hn => by rw [h5 id, hn]; rfl, h6⟩

theorem importReg_same_wrk (r : RegState) (hi : WrkInv r) (hcap : ∀ id, (r.retained id).length ≤ exportCap) :
    RegSame r (importReg r) := by
  obtain ⟨h1, h2, h3, h4, _, _⟩ := importReg_observe r hi.reg
  refine ⟨h1, h2, h3, ?_, fun id m hm => importReg_limits_registered r hi.reg id m hm, importReg_recs_small r hi.reg hcap⟩
  intro id
  rw [h4 id]
  cases hm : find? r.regs id with
  | none => rfl
  | some m => simp only [Option.map_some]; rw [recount_wrk r hi.cnt id m hm (hcap id)]

theorem importReg_same_bcn (r : RegState) (hi : BcnInv r) (hcap : ∀ id, (r.retained id).length ≤ exportCap) :
    RegSame r (importReg r) := by
  obtain ⟨h1, h2, h3, h4, _, _⟩ := importReg_observe r hi.reg
  refine ⟨h1, h2, h3, ?_, fun id m hm => importReg_limits_registered r hi.reg id m hm, importReg_recs_small r hi.reg hcap⟩
  intro id
  rw [h4 id]
  cases hm : find? r.regs id with
  | none => rfl
  | some m => simp only [Option.map_some]; rw [recount_bcn r hi.reg.nodupRecs hi.cnt id m hm (hcap id)]

end Mainchain
