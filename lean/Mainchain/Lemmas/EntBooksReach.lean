import Mainchain.Lemmas.EntBooks
import Mainchain.Lemmas.RegistryReach
/-
The books invariant in every state of every run.
-/
namespace Mainchain
open AL Bank

/-- scenario genesis validity for the enterprise books: well-formed bank-lite (see `GenBankValid`)
and an empty enterprise escrow (the custom-module sections of the scenario genesis are empty) -/
def GenBooksValid (g : GenCfg) : Prop := GenBankValid g ∧ ∀ d, (initState g).bank.balOf Ment d = 0

theorem booksInv_init (g : GenCfg) (hg : GenBooksValid g) : BooksInv g.ent.denom (initState g) := by
  constructor
  · simp [initState, NoDupKeys, keys]
  · simp [initState, NoDupKeys, keys]
  · intro a c h; simp [initState] at h
  · intro a c h; simp [initState] at h
  · rfl
  · rfl
  · intro d; rw [hg.2 d]; simp [initState]
  · simp [initState, sumF]
  · simp [initState, sumF]
  · intro a; simp [initState, EntState.lockedOf, EntState.spentOf, completedSum, sumF]

structure EntAll (D : String) (s : State) : Prop where
  str : StreamInv (toSB s)
  book : BookInv s.ent
  books : BooksInv D s

/-- **all enterprise invariants (order book, eFUND books) and the stream escrow invariant hold in every
state of every run** -/
theorem entAll_reachable (g : GenCfg) (hg : GenBooksValid g) (s : State) (h : FineReach g (BooksQ g.ent.denom) s) :
    EntAll g.ent.denom s := by
  refine fine_inv g (BooksQ g.ent.denom) (EntAll g.ent.denom)
    ⟨strInv_init g hg.1, bookInv_init g, booksInv_init g hg⟩ ?_ s h
  intro s s' hq hi hs
  exact ⟨strInv_step s s' hq.1 hi.str hs, bookInv_step s s' hq.2.1 hi.book hs, books_step _ s s' hq hi.str hi.book hi.books hs⟩

end Mainchain
