import Mainchain.Lemmas.Fine
import Mainchain.Lemmas.EntFrame
import Mainchain.Lemmas.RegistryInv
import Mainchain.Lemmas.StreamReach
/-
Parameters of the four modules are valid in every reachable state.
-/
namespace Mainchain
open AL

structure ParamsValid (s : State) : Prop where
  ent : s.ent.params.validate = true
  wrk : s.wrk.params.validate = true
  bcn : s.bcn.params.validate = true
  str : streamParamsValid s.str.fee = true

theorem recordWrk_params (s : RegState) (now : Nat) (m : RegMeta) (h : Nat) (r : Rec) :
    (s.recordWrk now m h r).params = s.params := by
  unfold RegState.recordWrk; simp only; split <;> rfl

theorem recordBcn_params (s : RegState) (m : RegMeta) (hash : String) (st : Nat) :
    (s.recordBcn m hash st).1.params = s.params := by
  unfold RegState.recordBcn; simp only; split <;> rfl

/-- registry operations other than `setParams` keep the parameters; `setParams` stores a validated set -/
theorem regOp_params (now wall : Nat) (a b : RegState) (h : RegOp now wall a b) :
    b.params = a.params ∨ (∃ p, p.validate = true ∧ b.params = p) := by
  cases h with
  | register mk nm gn ty o id h =>
    simp only [RegState.register, bind_eq_ok, pure_eq_ok, Prod.mk.injEq] at h
    obtain ⟨_, _, _, _, _, _, _, _, rfl, _⟩ := h; exact Or.inl rfl
  | record id key rc o k h =>
    left
    simp only [RegState.record, bind_eq_ok, pure_eq_ok] at h
    obtain ⟨oa, _, h⟩ := h
    split at h
    · simp only [bind_eq_ok, pure_eq_ok, Prod.mk.injEq] at h
      obtain ⟨_, _, _, _, m, _, _, _, rfl, _⟩ := h
      exact recordWrk_params _ _ _ _ _
    · simp only [bind_eq_ok, pure_eq_ok] at h
      obtain ⟨_, _, m, _, hs'⟩ := h
      have : b = (a.recordBcn m rc.h0 (if rc.subTime = 0 then wall else rc.subTime)).1 := by rw [hs']
      rw [this]; exact recordBcn_params _ _ _ _
  | purchase id n o can h =>
    simp only [RegState.purchase, bind_eq_ok, pure_eq_ok, Prod.mk.injEq] at h
    obtain ⟨_, _, _, _, _, _, _, _, rfl, _⟩ := h; exact Or.inl rfl
  | setParams p h =>
    simp only [RegState.setParams, bind_eq_ok, pure_eq_ok, require_eq_ok] at h
    obtain ⟨_, hv, rfl⟩ := h
    exact Or.inr ⟨p, hv, rfl⟩

end Mainchain

namespace Mainchain
open AL

theorem claim_fee (x x' : SB) (now : Int) (bl : Addr → Bool) (r s : Addr) (o : ClaimOut)
    (h : claimFromStream x now bl r s = .ok (x', o)) : x'.str.fee = x.str.fee := by
  simp only [claimFromStream, bind_eq_ok, pure_eq_ok, Prod.mk.injEq] at h
  obtain ⟨_, _, _, _, _, _, _, _, _, _, _, _, _, _, rfl, _⟩ := h
  rfl

theorem settle_fee (x : SB) (now : Int) (bl : Addr → Bool) (r s : Addr) (st : Stream) (z : SB × Stream)
    (h : settleIfFunded x now bl r s st = .ok z) : z.1.str.fee = x.str.fee := by
  unfold settleIfFunded at h
  split at h
  · simp only [bind_eq_ok, pure_eq_ok] at h
    obtain ⟨y, hy, rfl⟩ := h
    exact claim_fee x y.1 now bl r s y.2 (by cases y; exact hy)
  · cases h; rfl

theorem addDeposit_fee (x x' : SB) (now : Int) (bl : Addr → Bool) (r s : Addr) (d : String) (amt : Int)
    (h : addDeposit x now bl r s d amt = .ok x') : x'.str.fee = x.str.fee := by
  simp only [addDeposit, bind_eq_ok, pure_eq_ok] at h
  obtain ⟨st, _, _, _, y, hy, _, _, bank, _, _, _, rfl⟩ := h
  show (setStream y.1 r s _).fee = x.str.fee
  simp only [setStream]
  split at hy
  · simp only [bind_eq_ok, pure_eq_ok] at hy
    obtain ⟨z, hz, rfl⟩ := hy
    exact settle_fee x now bl r s st z hz
  · cases hy; rfl

theorem streamOp_fee (now : Int) (a b : SB) (h : StreamOp now a b) : b.str.fee = a.str.fee := by
  cases h with
  | create r s denom amt rate h =>
    simp only [createStream, bind_eq_ok] at h
    obtain ⟨_, _, _, _, _, _, _, _, _, _, _, _, _, _, _, _, h⟩ := h
    have := addDeposit_fee _ b now isBlocked _ _ denom amt h
    exact this
  | claim r s o h =>
    simp only [claimStream, bind_eq_ok] at h
    obtain ⟨_, _, _, _, _, _, h⟩ := h
    exact claim_fee a b now isBlocked _ _ o h
  | topup r s denom amt d z h =>
    simp only [topUpDeposit, bind_eq_ok, pure_eq_ok, Prod.mk.injEq] at h
    obtain ⟨_, _, _, _, _, _, _, _, _, _, x', hx', rfl, _⟩ := h
    exact addDeposit_fee a x' now isBlocked _ _ denom amt hx'
  | rate r s rate h =>
    simp only [updateFlowRate, bind_eq_ok] at h
    obtain ⟨sa, _, ra, _, _, _, _, _, h⟩ := h
    simp only [setNewFlowRate, bind_eq_ok] at h
    obtain ⟨st, _, h⟩ := h
    split at h
    · simp only [bind_eq_ok, pure_eq_ok] at h
      obtain ⟨z, hz, _, _, rfl⟩ := h
      show (setStream z.1 ra sa _).fee = a.str.fee
      simp only [setStream]
      exact settle_fee a now isBlocked ra sa st z hz
    · simp only [pure_eq_ok] at h; subst h; rfl
  | cancel r s h =>
    simp only [cancelStreamMsg, bind_eq_ok] at h
    obtain ⟨sa, _, ra, _, _, _, _, _, h⟩ := h
    simp only [cancelStream, bind_eq_ok, pure_eq_ok] at h
    obtain ⟨st, _, _, _, z, hz, bank, _, rfl⟩ := h
    exact settle_fee a now isBlocked ra sa st z hz

/-- every elementary step keeps the parameters of all four modules valid -/
theorem paramsValid_step (s s' : State) (hp : ParamsValid s) (h : FineStep s s') : ParamsValid s' := by
  cases h with
  | leaf wall m r hl _ _ h =>
    have hs := leaf_step wall s s' m r hl h
    cases hs with
    | ent e hop hs =>
      subst hs
      rcases entOp_params _ _ _ hop with he | ⟨p, _, hv, he⟩
      · exact ⟨by simp only; rw [he]; exact hp.ent, hp.wrk, hp.bcn, hp.str⟩
      · exact ⟨by simp only; rw [he]; exact hv, hp.wrk, hp.bcn, hp.str⟩
    | reg k r' hop hs =>
      subst hs
      rcases regOp_params _ _ _ _ hop with he | ⟨p, hv, he⟩
      · cases k
        · exact ⟨hp.ent, by simp only [State.setReg]; rw [he]; exact hp.wrk, hp.bcn, hp.str⟩
        · exact ⟨hp.ent, hp.wrk, by simp only [State.setReg]; rw [he]; exact hp.bcn, hp.str⟩
      · cases k
        · exact ⟨hp.ent, by simp only [State.setReg]; rw [he]; exact hv, hp.bcn, hp.str⟩
        · exact ⟨hp.ent, hp.wrk, by simp only [State.setReg]; rw [he]; exact hv, hp.str⟩
    | str x hop hs =>
      subst hs
      exact ⟨hp.ent, hp.wrk, hp.bcn, by show streamParamsValid x.str.fee = true; rw [streamOp_fee _ _ _ hop]; exact hp.str⟩
    | strParams fee hv hs => subst hs; exact ⟨hp.ent, hp.wrk, hp.bcn, hv⟩
    | send a b coins bank _ _ hs => subst hs; exact ⟨hp.ent, hp.wrk, hp.bcn, hp.str⟩
    | authz ea g hs => subst hs; exact ⟨hp.ent, hp.wrk, hp.bcn, hp.str⟩
    | feegrant ea al hs => subst hs; exact ⟨hp.ent, hp.wrk, hp.bcn, hp.str⟩
    | revoke g hs => subst hs; exact ⟨hp.ent, hp.wrk, hp.bcn, hp.str⟩
  | ante tx _ _ h =>
    cases h with
    | none hs => subst hs; exact hp
    | unlock payer x _ _ _ h hs =>
      subst hs
      have hb := unlockForFees_book _ _ _ _ _ h
      simp only [EntState.book, Prod.mk.injEq] at hb
      exact ⟨by simp only; rw [hb.1]; exact hp.ent, hp.wrk, hp.bcn, hp.str⟩
    | deduct _ _ _ _ _ _ hs => subst hs; exact ⟨hp.ent, hp.wrk, hp.bcn, hp.str⟩
  | time t _ hs => subst hs; exact ⟨hp.ent, hp.wrk, hp.bcn, hp.str⟩
  | complete id x h hs =>
    subst hs
    have hf := completeOne_frame _ _ _ _ _ h
    exact ⟨by simp only; rw [hf.1]; exact hp.ent, hp.wrk, hp.bcn, hp.str⟩
  | tally id e h hs =>
    subst hs
    have hf := tallyOne_frame _ _ _ _ h
    exact ⟨by simp only; rw [hf.1]; exact hp.ent, hp.wrk, hp.bcn, hp.str⟩

def GenParamsValid (g : GenCfg) : Prop :=
  g.ent.validate = true ∧ g.wrk.validate = true ∧ g.bcn.validate = true ∧ streamParamsValid g.strFee = true

/-- **stored parameters of all four modules are valid in every state of every run** -/
theorem paramsValid_reachable (g : GenCfg) (hg : GenParamsValid g) (hgg : GenGrantsOK g) (s : State) (h : Reachable g s) :
    ParamsValid s := by
  have hf := (reachable_fine g hgg s h).1
  exact fine_inv g (fun _ => True) ParamsValid ⟨hg.1, hg.2.1, hg.2.2.1, hg.2.2.2⟩
    (fun s s' _ hp hs => paramsValid_step s s' hp hs) s hf

end Mainchain
