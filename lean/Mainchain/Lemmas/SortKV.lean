import Mainchain.Lemmas.PaginateWalk
/-
`sortKV` turns a map with pairwise distinct, non-empty keys into a store section holding the same entries.
-/
namespace Mainchain
namespace Paginate
open Keys

variable {α : Type}

theorem lexLt_total : ∀ (a b : Bytes), lexLt a b = true ∨ a = b ∨ lexLt b a = true
  | [], [] => Or.inr (Or.inl rfl)
  | [], _ :: _ => Or.inl (by simp [lexLt])
  | _ :: _, [] => Or.inr (Or.inr (by simp [lexLt]))
  | x :: xs, y :: ys => by
    simp only [lexLt]
    by_cases h1 : x < y
    · left; simp [h1]
    · by_cases h2 : x = y
      · subst h2
        rcases lexLt_total xs ys with h | h | h
        · left; simp [h]
        · right; left; rw [h]
        · right; right; simp [h]
      · have h3 : y < x := by omega
        right; right; simp [h3]

theorem mem_insertKV (e x : Bytes × α) (l : List (Bytes × α)) : x ∈ insertKV e l ↔ x = e ∨ x ∈ l := by
  induction l with
  | nil => simp [insertKV]
  | cons f rest ih =>
    simp only [insertKV]
    split
    · simp
    · simp only [List.mem_cons, ih]
      constructor
      · rintro (h | h | h)
        · exact Or.inr (Or.inl h)
        · exact Or.inl h
        · exact Or.inr (Or.inr h)
      · rintro (h | h | h)
        · exact Or.inr (Or.inl h)
        · exact Or.inl h
        · exact Or.inr (Or.inr h)

theorem insertKV_asc (e : Bytes × α) (l : List (Bytes × α)) (hl : l.Pairwise (fun a b => lexLt a.1 b.1 = true))
    (hne : ∀ x ∈ l, x.1 ≠ e.1) : (insertKV e l).Pairwise (fun a b => lexLt a.1 b.1 = true) := by
  induction l with
  | nil => simp [insertKV]
  | cons f rest ih =>
    have hp := List.pairwise_cons.mp hl
    simp only [insertKV]
    split
    · rename_i hlt
      refine List.pairwise_cons.mpr ⟨?_, hl⟩
      intro x hx
      rcases List.mem_cons.mp hx with he | hm
      · subst he; exact hlt
      · exact lexLt_trans _ _ _ hlt (hp.1 x hm)
    · rename_i hnlt
      have hfe : lexLt f.1 e.1 = true := by
        rcases lexLt_total f.1 e.1 with h | h | h
        · exact h
        · exact absurd h (hne f (by simp))
        · exact absurd h hnlt
      refine List.pairwise_cons.mpr ⟨?_, ih hp.2 (fun x hx => hne x (by simp [hx]))⟩
      intro x hx
      rcases (mem_insertKV e x rest).mp hx with he | hm
      · subst he; exact hfe
      · exact hp.1 x hm

theorem insertKV_perm (e : Bytes × α) (l : List (Bytes × α)) : (insertKV e l).Perm (e :: l) := by
  induction l with
  | nil => simp [insertKV]
  | cons f rest ih =>
    simp only [insertKV]
    split
    · exact List.Perm.refl _
    · exact (List.Perm.cons f ih).trans (List.Perm.swap e f rest)

theorem sortKV_aux (l : List (Bytes × α)) (hd : (l.map (·.1)).Nodup) :
    ∀ (acc : List (Bytes × α)), acc.Pairwise (fun a b => lexLt a.1 b.1 = true) →
      (∀ x ∈ l, ∀ y ∈ acc, y.1 ≠ x.1) →
      (l.foldl (fun acc e => insertKV e acc) acc).Pairwise (fun a b => lexLt a.1 b.1 = true) ∧
      (l.foldl (fun acc e => insertKV e acc) acc).Perm (l ++ acc) := by
  induction l with
  | nil => intro acc ha _; exact ⟨ha, List.Perm.refl _⟩
  | cons e rest ih =>
    intro acc ha hne
    simp only [List.map_cons, List.nodup_cons] at hd
    have h1 := insertKV_asc e acc ha (fun y hy => hne e (by simp) y hy)
    obtain ⟨p1, p2⟩ := ih hd.2 (insertKV e acc) h1 (by
      intro x hx y hy
      rcases (mem_insertKV e y acc).mp hy with he | hm
      · subst he
        intro heq
        exact hd.1 (List.mem_map.mpr ⟨x, hx, heq.symm⟩)
      · exact hne x (by simp [hx]) y hm)
    refine ⟨p1, ?_⟩
    simp only [List.foldl_cons]
    refine p2.trans ?_
    have := (List.Perm.append_left rest (insertKV_perm e acc))
    refine this.trans ?_
    simp only [List.cons_append]
    exact (List.perm_middle).trans (List.Perm.refl _)

/-- sorting a map with distinct non-empty keys gives a store section with the same entries -/
theorem sortKV_section (kvs : List (Bytes × α)) (hd : (kvs.map (·.1)).Nodup) (hne : ∀ e ∈ kvs, e.1 ≠ []) :
    Section (sortKV kvs) ∧ (sortKV kvs).Perm kvs := by
  obtain ⟨p1, p2⟩ := sortKV_aux kvs hd [] List.Pairwise.nil (by intro _ _ y hy; simp at hy)
  simp only [List.append_nil] at p2
  exact ⟨⟨p1, fun e he => hne e (p2.mem_iff.mp he)⟩, p2⟩

end Paginate
end Mainchain
