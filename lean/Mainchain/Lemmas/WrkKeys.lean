import Mainchain.Lemmas.RegistryInv
namespace Mainchain
open AL

/-- retained heights of WRKChain `id` in store (= insertion) order -/
def keysOf (recs : List ((Nat × Nat) × Rec)) (id : Nat) : List Nat :=
  (recs.filter (fun e => e.1.1 = id)).map (fun e => e.1.2)

theorem insert_of_absent {κ ν : Type} [DecidableEq κ] (m : List (κ × ν)) (x : κ) (w : ν) (h : find? m x = none) :
    AL.insert m x w = m ++ [(x, w)] := by
  induction m with
  | nil => rfl
  | cons p m ih =>
    obtain ⟨k, v⟩ := p
    simp only [find?] at h
    split at h
    · cases h
    · rename_i hk
      simp [AL.insert, hk, ih h]

theorem keysOf_insert_fresh (recs : List ((Nat × Nat) × Rec)) (id h : Nat) (r : Rec) (id' : Nat)
    (hf : find? recs (id, h) = none) :
    keysOf (AL.insert recs (id, h) r) id' = if id' = id then keysOf recs id' ++ [h] else keysOf recs id' := by
  rw [insert_of_absent _ _ _ hf]
  unfold keysOf
  by_cases he : id' = id
  · subst he; simp
  · have : ¬ id = id' := fun e => he e.symm
    simp [he, this]

theorem mem_keysOf (recs : List ((Nat × Nat) × Rec)) (id k : Nat) :
    k ∈ keysOf recs id ↔ (id, k) ∈ keys recs := by
  unfold keysOf keys
  simp only [List.mem_map, List.mem_filter, decide_eq_true_eq]
  constructor
  · rintro ⟨⟨⟨i, k'⟩, r⟩, ⟨hm, rfl⟩, rfl⟩; exact ⟨_, hm, rfl⟩
  · rintro ⟨⟨⟨i, k'⟩, r⟩, hm, he⟩
    obtain ⟨rfl, rfl⟩ := Prod.mk.inj he
    exact ⟨_, ⟨hm, rfl⟩, rfl⟩

theorem keysOf_cons (e : (Nat × Nat) × Rec) (recs : List ((Nat × Nat) × Rec)) (id : Nat) :
    keysOf (e :: recs) id = if e.1.1 = id then e.1.2 :: keysOf recs id else keysOf recs id := by
  unfold keysOf
  by_cases h : e.1.1 = id <;> simp [List.filter_cons, h]

/-- inserting a record whose key is above every retained key of its registration appends it to that
registration's key list (the record list is in store-key order) and leaves the others alone -/
theorem keysOf_insertRec_fresh (recs : List ((Nat × Nat) × Rec)) (id h : Nat) (r : Rec) (id' : Nat)
    (hs : RecsSorted recs) (hgt : ∀ k ∈ keysOf recs id, k < h) :
    keysOf (insertRec recs (id, h) r) id' = if id' = id then keysOf recs id' ++ [h] else keysOf recs id' := by
  induction recs with
  | nil =>
    simp only [insertRec, keysOf_cons]
    by_cases he : id' = id
    · subst he; simp [keysOf]
    · have : ¬ id = id' := fun e => he e.symm
      simp [he, this, keysOf]
  | cons p m ih =>
    obtain ⟨⟨i, k⟩, v⟩ := p
    unfold RecsSorted at hs
    rw [List.pairwise_cons] at hs
    have hgt' : ∀ k' ∈ keysOf m id, k' < h := by
      intro k' hk'
      apply hgt
      rw [keysOf_cons]
      split
      · exact List.mem_cons_of_mem _ hk'
      · exact hk'
    have ih' := ih hs.2 hgt'
    simp only [insertRec]
    split
    · -- the key is already there: impossible, it would not be below `h`
      rename_i heq
      obtain ⟨rfl, rfl⟩ := Prod.mk.inj heq
      have := hgt k (by rw [keysOf_cons]; simp)
      omega
    · rename_i hne
      split
      · -- inserted in front: no record of `id` follows
        rename_i hlt
        have hnone : keysOf (((i, k), v) :: m) id = [] := by
          apply List.eq_nil_iff_forall_not_mem.mpr
          intro k' hk'
          have hk'lt := hgt k' hk'
          have hmem := (mem_keysOf _ _ _).mp hk'
          simp only [keys, List.mem_map] at hmem
          obtain ⟨e, he, hek⟩ := hmem
          have hle : pairLt (id, h) e.1 = true := by
            rw [List.mem_cons] at he
            rcases he with rfl | he
            · exact hlt
            · exact pairLt_trans _ _ _ hlt (hs.1 e he)
          rw [hek] at hle
          simp [pairLt] at hle
          omega
        rw [keysOf_cons]
        by_cases he : id' = id
        · subst he
          simp only [if_true, hnone, List.nil_append]
        · have : ¬ id = id' := fun e => he e.symm
          simp only [this, he, if_false]
      · rw [keysOf_cons, ih', keysOf_cons]
        by_cases he : id' = id
        · subst he
          simp only [if_true]
          split <;> simp
        · simp only [he, if_false]

theorem keysOf_erase (recs : List ((Nat × Nat) × Rec)) (id d id' : Nat) (hnd : NoDupKeys recs) :
    keysOf (erase recs (id, d)) id' = if id' = id then (keysOf recs id').erase d else keysOf recs id' := by
  induction recs with
  | nil => simp [erase, keysOf]
  | cons p m ih =>
    obtain ⟨⟨i, k⟩, v⟩ := p
    simp only [NoDupKeys, keys, List.map_cons, List.nodup_cons] at hnd
    by_cases hk : (i, k) = (id, d)
    · obtain ⟨rfl, rfl⟩ := Prod.mk.inj hk
      simp only [erase, if_true]
      by_cases he : id' = i
      · subst he
        simp [keysOf]
      · have : ¬ i = id' := fun e => he e.symm
        simp [keysOf, he, this]
    · simp only [erase, hk, if_false]
      have ih' := ih hnd.2
      by_cases he : id' = id
      · subst he
        simp only [if_true] at ih' ⊢
        by_cases hi : i = id'
        · subst hi
          have hkd : k ≠ d := fun e => hk (by rw [e])
          simp only [keysOf, List.filter_cons, decide_true, if_true, List.map_cons] at ih' ⊢
          rw [List.erase_cons_tail (by simpa using hkd)]
          rw [← ih']
        · simp only [keysOf, List.filter_cons, hi, decide_false, Bool.false_eq_true, if_false] at ih' ⊢
          exact ih'
      · simp only [he, if_false] at ih' ⊢
        by_cases hi : i = id'
        · simp only [keysOf, List.filter_cons, hi, decide_true, if_true, List.map_cons] at ih' ⊢
          rw [ih']
        · simp only [keysOf, List.filter_cons, hi, decide_false, Bool.false_eq_true, if_false] at ih' ⊢
          exact ih'

theorem minOr0_sorted (l : List Nat) (h : l.Pairwise (· < ·)) : RegState.minOr0 l = l.head?.getD 0 := by
  cases l with
  | nil => rfl
  | cons x xs =>
    simp only [RegState.minOr0, List.head?_cons, Option.getD_some]
    have hx : ∀ y ∈ xs, x < y := (List.pairwise_cons.mp h).1
    clear h
    induction xs with
    | nil => rfl
    | cons y ys ih =>
      simp only [List.foldl_cons]
      have : min x y = x := Nat.min_eq_left (Nat.le_of_lt (hx y (by simp)))
      rw [this]
      exact ih (fun z hz => hx z (by simp [hz]))

end Mainchain
