import Mainchain.Lemmas.RegistryReach
/-
Immutability of stored records: along any history a record key at or below the registration's
`last` pointer keeps its content or disappears (pruned) — it is never overwritten and never
comes back.
-/
namespace Mainchain
open AL

def RecsStable (a b : RegState) : Prop :=
  (∀ id m, find? a.regs id = some m → ∃ m', find? b.regs id = some m' ∧ m.last ≤ m'.last ∧
      m'.owner = m.owner ∧ m'.moniker = m.moniker ∧ m'.name = m.name ∧ m'.genesis = m.genesis ∧
      m'.type = m.type ∧ m'.regTime = m.regTime ∧ m'.id = m.id) ∧
  (∀ id k m, find? a.regs id = some m → k ≤ m.last →
      find? b.recs (id, k) = find? a.recs (id, k) ∨ find? b.recs (id, k) = none)

theorem RecsStable.refl (a : RegState) : RecsStable a a :=
  ⟨fun _ m hm => ⟨m, hm, Nat.le_refl _, rfl, rfl, rfl, rfl, rfl, rfl, rfl⟩, fun _ _ _ _ _ => Or.inl rfl⟩

theorem RecsStable.trans {a b c : RegState} (h1 : RecsStable a b) (h2 : RecsStable b c) : RecsStable a c := by
  constructor
  · intro id m hm
    obtain ⟨m1, hm1, hl1, e1⟩ := h1.1 id m hm
    obtain ⟨m2, hm2, hl2, e2⟩ := h2.1 id m1 hm1
    refine ⟨m2, hm2, by omega, ?_⟩
    obtain ⟨a1, a2, a3, a4, a5, a6, a7⟩ := e1
    obtain ⟨b1, b2, b3, b4, b5, b6, b7⟩ := e2
    exact ⟨b1.trans a1, b2.trans a2, b3.trans a3, b4.trans a4, b5.trans a5, b6.trans a6, b7.trans a7⟩
  · intro id k m hm hk
    obtain ⟨m1, hm1, hl1, _⟩ := h1.1 id m hm
    rcases h1.2 id k m hm hk with e | e
    · rcases h2.2 id k m1 hm1 (by omega) with e2 | e2
      · exact Or.inl (e2.trans e)
      · exact Or.inr e2
    · rcases h2.2 id k m1 hm1 (by omega) with e2 | e2
      · exact Or.inr (e2.trans e)
      · exact Or.inr e2

/-- the common shape of all four record outcomes -/
theorem stable_of_shape (a : RegState) (id h : Nat) (m m' : RegMeta) (recs' : List ((Nat × Nat) × Rec))
    (hm : find? a.regs id = some m) (hh : m.last < h) (hlast : m'.last = h)
    (hsame : m'.owner = m.owner ∧ m'.moniker = m.moniker ∧ m'.name = m.name ∧ m'.genesis = m.genesis ∧
      m'.type = m.type ∧ m'.regTime = m.regTime ∧ m'.id = m.id)
    (hrecs : ∀ key, key ≠ (id, h) → find? recs' key = find? a.recs key ∨ find? recs' key = none) :
    RecsStable a { a with recs := recs', regs := AL.insert a.regs id m' } := by
  constructor
  · intro id' m0 hm0
    by_cases he : id = id'
    · subst he
      rw [hm] at hm0; cases hm0
      exact ⟨m', find_insert_eq _ _ _, by omega, hsame⟩
    · exact ⟨m0, by rw [← hm0]; exact find_insert_ne _ _ _ _ he, Nat.le_refl _, rfl, rfl, rfl, rfl, rfl, rfl, rfl⟩
  · intro id' k m0 hm0 hk
    apply hrecs
    intro e
    obtain ⟨rfl, rfl⟩ := Prod.mk.inj e
    rw [hm] at hm0; cases hm0; omega

theorem insert_erase_stable (recs : List ((Nat × Nat) × Rec)) (id h d : Nat) (r : Rec) (hnd : RecsSorted recs) :
    ∀ key, key ≠ (id, h) →
      find? (erase (insertRec recs (id, h) r) (id, d)) key = find? recs key ∨
      find? (erase (insertRec recs (id, h) r) (id, d)) key = none := by
  intro key hne
  by_cases hk : (id, d) = key
  · subst hk; exact Or.inr (find_erase_eq _ _ (nodup_of_sorted _ (sorted_insertRec _ _ _ hnd)))
  · left; rw [find_erase_ne _ _ _ hk, find_insertRec_ne _ _ _ _ (Ne.symm hne)]

theorem bcn_op_stable (now wall : Nat) (a b : RegState) (hi : BcnInv a) (hb : RegBounded a) (h : RegOp now wall a b) :
    RecsStable a b := by
  cases h with
  | register mk nm gn ty o id h =>
    obtain ⟨_, hid, hfresh, hrecs, _⟩ := regInv_register a now mk nm gn ty o b id hi.reg hb h
    simp only [RegState.register, bind_eq_ok, pure_eq_ok, Prod.mk.injEq] at h
    obtain ⟨oa, _, _, _, _, _, _, _, rfl, _⟩ := h
    subst hid
    constructor
    · intro id' m hm
      have hne : a.nextId ≠ id' := by intro e; subst e; rw [hfresh] at hm; cases hm
      exact ⟨m, by rw [← hm]; exact find_insert_ne _ _ _ _ hne, Nat.le_refl _, rfl, rfl, rfl, rfl, rfl, rfl, rfl⟩
    · intro _ _ _ _ _; exact Or.inl rfl
  | record id key rc o k h =>
    obtain ⟨m, oa, hm, _, _, _, _, hshape⟩ := bcn_record_shape a now wall id key rc o b k hi hb h
    have hid : m.id = id := (hi.reg.idsBelowNext id m hm).1
    rcases hshape with ⟨_, _, rfl⟩ | ⟨_, rfl⟩
    · subst hid
      exact stable_of_shape a m.id (m.last + 1) m _ _ hm (by omega) rfl ⟨rfl, rfl, rfl, rfl, rfl, rfl, rfl⟩
        (insert_erase_stable a.recs m.id (m.last + 1) m.lowest _ hi.reg.sortedRecs)
    · subst hid
      exact stable_of_shape a m.id (m.last + 1) m _ _ hm (by omega) rfl ⟨rfl, rfl, rfl, rfl, rfl, rfl, rfl⟩
        (fun key hne => Or.inl (find_insertRec_ne _ _ _ _ (Ne.symm hne)))
  | purchase id n o can h =>
    obtain ⟨_, hregs, hrecs, _⟩ := regInv_purchase a id n o b can hi.reg h
    exact ⟨fun id m hm => ⟨m, by rw [hregs]; exact hm, Nat.le_refl _, rfl, rfl, rfl, rfl, rfl, rfl, rfl⟩,
           fun _ _ _ _ _ => Or.inl (by rw [hrecs])⟩
  | setParams p h =>
    obtain ⟨_, hregs, hrecs, _⟩ := regInv_setParams a p b hi.reg h
    exact ⟨fun id m hm => ⟨m, by rw [hregs]; exact hm, Nat.le_refl _, rfl, rfl, rfl, rfl, rfl, rfl, rfl⟩,
           fun _ _ _ _ _ => Or.inl (by rw [hrecs])⟩

theorem wrk_op_stable (now wall : Nat) (a b : RegState) (hi : WrkInv a) (hb : RegBounded a) (h : RegOp now wall a b) :
    RecsStable a b := by
  cases h with
  | register mk nm gn ty o id h =>
    obtain ⟨_, hid, hfresh, hrecs, _⟩ := regInv_register a now mk nm gn ty o b id hi.reg hb h
    simp only [RegState.register, bind_eq_ok, pure_eq_ok, Prod.mk.injEq] at h
    obtain ⟨oa, _, _, _, _, _, _, _, rfl, _⟩ := h
    subst hid
    constructor
    · intro id' m hm
      have hne : a.nextId ≠ id' := by intro e; subst e; rw [hfresh] at hm; cases hm
      exact ⟨m, by rw [← hm]; exact find_insert_ne _ _ _ _ hne, Nat.le_refl _, rfl, rfl, rfl, rfl, rfl, rfl, rfl⟩
    · intro _ _ _ _ _; exact Or.inl rfl
  | record id key rc o k h =>
    obtain ⟨m, oa, hm, _, _, _, hgt, hshape⟩ := wrk_record_shape a now wall id key rc o b k hi hb h
    have hid : m.id = id := (hi.reg.idsBelowNext id m hm).1
    rcases hshape with ⟨_, _, rfl⟩ | ⟨_, rfl⟩
    · subst hid
      exact stable_of_shape a m.id key m _ _ hm hgt rfl ⟨rfl, rfl, rfl, rfl, rfl, rfl, rfl⟩
        (insert_erase_stable a.recs m.id key m.lowest _ hi.reg.sortedRecs)
    · subst hid
      exact stable_of_shape a m.id key m _ _ hm hgt rfl ⟨rfl, rfl, rfl, rfl, rfl, rfl, rfl⟩
        (fun key' hne => Or.inl (find_insertRec_ne _ _ _ _ (Ne.symm hne)))
  | purchase id n o can h =>
    obtain ⟨_, hregs, hrecs, _⟩ := regInv_purchase a id n o b can hi.reg h
    exact ⟨fun id m hm => ⟨m, by rw [hregs]; exact hm, Nat.le_refl _, rfl, rfl, rfl, rfl, rfl, rfl, rfl⟩,
           fun _ _ _ _ _ => Or.inl (by rw [hrecs])⟩
  | setParams p h =>
    obtain ⟨_, hregs, hrecs, _⟩ := regInv_setParams a p b hi.reg h
    exact ⟨fun id m hm => ⟨m, by rw [hregs]; exact hm, Nat.le_refl _, rfl, rfl, rfl, rfl, rfl, rfl, rfl⟩,
           fun _ _ _ _ _ => Or.inl (by rw [hrecs])⟩

/-- along any history, both registries are stable -/
theorem registries_stable (g : GenCfg) (hg : GenRegValid g) (a b : State)
    (ha : FineReach g RegQ a) (hp : FinePathQ RegQ a b) :
    RecsStable a.wrk b.wrk ∧ RecsStable a.bcn b.bcn := by
  refine path_rel (fun x y => RecsStable x.wrk y.wrk ∧ RecsStable x.bcn y.bcn)
    (fun s => ⟨.refl _, .refl _⟩) (fun _ _ _ h1 h2 => ⟨h1.1.trans h2.1, h1.2.trans h2.2⟩) ?_ ha hp
  intro x y hx hq hs
  have hw := wrkInv_reachable g hg x (hx.weaken (fun _ h => h.1))
  have hbn := bcnInv_reachable g hg x (hx.weaken (fun _ h => h.2))
  constructor
  · rcases fineStep_reg .wrk x y hs with he | ⟨wall, hop⟩
    · simp only [State.reg] at he; rw [he]; exact .refl _
    · exact wrk_op_stable _ wall _ _ hw hq.1 hop
  · rcases fineStep_reg .bcn x y hs with he | ⟨wall, hop⟩
    · simp only [State.reg] at he; rw [he]; exact .refl _
    · exact bcn_op_stable _ wall _ _ hbn hq.2 hop

end Mainchain
