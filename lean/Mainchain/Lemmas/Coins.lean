import Mainchain.Lemmas.BankLemmas
/-
Facts about `sdk.Coins` values: valid coin sets have pairwise distinct denominations; single-coin
subtraction.
-/
namespace Mainchain
open AL Bank

theorem valid_sorted : ∀ (cs : Coins), Coins.isValid cs = true → cs.Pairwise (fun a b => a.denom < b.denom)
  | [], _ => List.Pairwise.nil
  | [c], _ => by simp
  | c :: d :: rest, h => by
    simp only [Coins.isValid, Bool.and_eq_true, decide_eq_true_eq] at h
    obtain ⟨⟨⟨_, _⟩, hlt⟩, hrest⟩ := h
    have ih := valid_sorted (d :: rest) hrest
    refine List.pairwise_cons.mpr ⟨?_, ih⟩
    intro x hx
    rcases List.mem_cons.mp hx with he | hm
    · subst he; exact hlt
    · exact String.lt_trans hlt ((List.pairwise_cons.mp ih).1 x hm)

theorem coinsSum_zero_of_no_denom (cs : Coins) (d : String) (h : ∀ c ∈ cs, c.denom ≠ d) : coinsSum cs d = 0 := by
  induction cs with
  | nil => simp [coinsSum]
  | cons c cs ih =>
    have := ih (fun x hx => h x (by simp [hx]))
    simp only [coinsSum, List.map_cons, List.sum_cons] at this ⊢
    simp [h c (by simp), this]

/-- for a valid coin set `AmountOf(d)` is the total of denomination `d` -/
theorem amountOf_eq_coinsSum (cs : Coins) (hv : Coins.isValid cs = true) (d : String) :
    Coins.amountOf cs d = coinsSum cs d := by
  have hs := valid_sorted cs hv
  clear hv
  induction cs with
  | nil => simp [Coins.amountOf, coinsSum]
  | cons c cs ih =>
    have hp := List.pairwise_cons.mp hs
    by_cases hc : c.denom = d
    · have hrest : coinsSum cs d = 0 := by
        apply coinsSum_zero_of_no_denom
        intro x hx he
        have := hp.1 x hx
        rw [he, ← hc] at this
        exact String.lt_irrefl _ this
      simp only [coinsSum, List.map_cons, List.sum_cons] at hrest ⊢
      simp [Coins.amountOf, List.find?, hc, hrest]
    · have := ih hp.2
      simp only [Coins.amountOf, coinsSum, List.map_cons, List.sum_cons, List.find?, hc, decide_false, if_false] at this ⊢
      simp [this]

theorem amountOf_pos_of_valid (cs : Coins) (hv : Coins.isValid cs = true) (d : String) (h : cs.any (·.denom = d) = true) :
    0 < Coins.amountOf cs d := by
  have hpos := allPos_of_valid cs hv
  clear hv
  induction cs with
  | nil => simp at h
  | cons c cs ih =>
    by_cases hc : c.denom = d
    · simp [Coins.amountOf, List.find?, hc]; exact hpos c (by simp)
    · simp only [List.any_cons, hc, decide_false, Bool.false_or] at h
      have := ih h (fun x hx => hpos x (by simp [hx]))
      simpa [Coins.amountOf, List.find?, hc] using this

/-- `SafeSub` of one coin from a single (possibly zero) coin of the same denomination -/
theorem safeSub_single (a b : Coin) (hd : a.denom = b.denom) (ha : 0 ≤ a.amt) (hb : 0 < b.amt) :
    (Coins.safeSub (Coins.ofCoin a) [b]).2 = decide (a.amt < b.amt) := by
  unfold Coins.safeSub Coins.ofCoin Coins.add Coins.neg
  by_cases h0 : a.amt = 0
  · have : ¬ (b.amt = 0) := by omega
    simp [h0, Coins.insertSorted, this]
  · simp only [h0, if_false, List.map_cons, List.map_nil, List.foldl_cons, List.foldl_nil, Coins.insertSorted]
    have hlt : ¬ (b.denom < a.denom) := by rw [hd]; exact String.lt_irrefl _
    simp only [hlt, if_false, hd.symm, if_true]
    by_cases hz : a.amt + -b.amt = 0
    · simp [hz]; omega
    · simp [hz]; omega

theorem ofCoin_pos (c : Coin) (h : 0 < c.amt) : Coins.ofCoin c = [c] := by
  unfold Coins.ofCoin; simp; omega

end Mainchain
