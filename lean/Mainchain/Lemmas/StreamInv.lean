import Mainchain.Lemmas.BankLemmas
import Mainchain.Lemmas.Steps
/-
Escrow conservation of x/stream: the module account holds, per denomination, exactly the sum of
the remaining deposits.
-/
namespace Mainchain
open AL Bank

def depIn (d : String) (st : Stream) : Int := if st.denom = d then st.deposit else 0

def depositSum (x : SB) (d : String) : Int := sumF (depIn d) x.str.streams

structure StreamInv (x : SB) : Prop where
  nodup : NoDupKeys x.str.streams
  bank : BankInv x.bank
  modNoVest : ∀ a, 1000 ≤ a → find? x.bank.vest a = none
  nonneg : ∀ key st, find? x.str.streams key = some st → 0 ≤ st.deposit
  backed : ∀ d, (x.bank.balOf Mstr d : Int) = depositSum x d

theorem StreamInv.noVest {x : SB} (hi : StreamInv x) : find? x.bank.vest Mstr = none := hi.modNoVest Mstr (by decide)

theorem calcValidatorFee_split (fee amount pay f : Int) (ha : 0 ≤ amount)
    (h : calcValidatorFee fee amount = .ok (pay, f)) : pay + f = amount ∧ 0 ≤ pay ∧ 0 ≤ f ∧
      (f = if fee > 0 then feeOf fee amount else 0) := by
  unfold calcValidatorFee at h
  split at h
  · rename_i hf
    simp only [bind_eq_ok, pure_eq_ok, require_eq_ok, decide_eq_true_eq, Prod.mk.injEq] at h
    obtain ⟨_, h1, _, h2, rfl, rfl⟩ := h
    simp [hf]; omega
  · rename_i hf
    simp only [Except.ok.injEq, Prod.mk.injEq] at h
    obtain ⟨rfl, rfl⟩ := h
    simp [hf]; exact ha

theorem calcAmountToClaim_sum (now zero last deposit rate : Int) :
    (calcAmountToClaim now zero last deposit rate).1 + (calcAmountToClaim now zero last deposit rate).2 = deposit := by
  unfold calcAmountToClaim
  split
  · simp
  · simp only; split <;> simp <;> omega

theorem calcAmountToClaim_bounds (now zero last deposit rate : Int) (hd : 0 ≤ deposit) (hr : 0 ≤ rate) :
    0 ≤ (calcAmountToClaim now zero last deposit rate).1 ∧
    (calcAmountToClaim now zero last deposit rate).1 + (calcAmountToClaim now zero last deposit rate).2 = deposit ∧
    0 ≤ (calcAmountToClaim now zero last deposit rate).2 := by
  unfold calcAmountToClaim
  split
  · exact ⟨hd, by simp, by simp⟩
  · have : 0 ≤ max (durSeconds (satDur (now - last))) 0 * rate := Int.mul_nonneg (by omega) hr
    simp only
    split
    · refine ⟨this, by omega, by omega⟩
    · exact ⟨hd, by simp, by simp⟩

theorem ite_max_sub (b : Int) (denom d : String) (amt : Int) (hpos : amt > 0) :
    b - (if (denom = d) then amt else 0) = b - (if denom = d then max amt 0 else 0) := by
  split <;> omega

/-- effect of one payment out of the escrow account -/
theorem payFee_spec (b b' : Bank) (now : Int) (denom : String) (fee : Int) (hb : BankInv b)
    (hv : find? b.vest Mstr = none) (h : payFee b now denom fee = .ok b') :
    BankInv b' ∧ b'.vest = b.vest ∧ b'.supply = b.supply ∧
    (∀ d, (b'.balOf Mstr d : Int) = b.balOf Mstr d - (if denom = d then max fee 0 else 0)) := by
  unfold payFee at h
  split at h
  · rename_i hpos
    obtain ⟨i, s, v, e⟩ := sendCoins_spec b b' now Mstr Mfee _ hb (locked_nonvesting b now Mstr hv) h
    refine ⟨i, v, s, ?_⟩
    intro d
    rw [e, outSum_single, outSum_other Mfee _ Mstr d (by decide)]
    simp only [outDelta, Prod.mk.injEq, true_and]
    split <;> omega
  · rename_i hnp
    cases h
    refine ⟨hb, rfl, rfl, ?_⟩
    intro d; split <;> omega

theorem payOut_spec (b b' : Bank) (now : Int) (blocked : Addr → Bool) (hbl : blocked Mstr = true) (to : Addr)
    (denom : String) (amt : Int) (hb : BankInv b) (hv : find? b.vest Mstr = none)
    (h : payOut b now blocked to denom amt = .ok b') :
    BankInv b' ∧ b'.vest = b.vest ∧ b'.supply = b.supply ∧
    (∀ d, (b'.balOf Mstr d : Int) = b.balOf Mstr d - (if denom = d then max amt 0 else 0)) := by
  unfold payOut at h
  split at h
  · rename_i hpos
    simp only [bind_eq_ok, require_eq_ok] at h
    obtain ⟨_, hnb, h⟩ := h
    have hto : to ≠ Mstr := by intro e; subst e; simp [hbl] at hnb
    obtain ⟨i, s, v, e⟩ := sendCoins_spec b b' now Mstr to _ hb (locked_nonvesting b now Mstr hv) h
    refine ⟨i, v, s, ?_⟩
    intro d
    rw [e, outSum_single, outSum_other to _ Mstr d hto]
    simp only [outDelta, Prod.mk.injEq, true_and]
    split <;> omega
  · rename_i hnp
    cases h
    refine ⟨hb, rfl, rfl, ?_⟩
    intro d; split <;> omega

theorem depositSum_set (x : SB) (r s : Addr) (st st' : Stream) (d : String)
    (hf : find? x.str.streams (r, s) = some st) :
    sumF (depIn d) (setStream x r s st').streams = depositSum x d - depIn d st + depIn d st' := by
  simp only [setStream, depositSum, sumF_insert, hf, fOpt]

theorem findStream_ok (x : SB) (r s : Addr) (e : Err) (st : Stream) (h : findStream x r s e = .ok st) :
    find? x.str.streams (r, s) = some st := by
  unfold findStream at h; split at h <;> simp_all

/-- `ClaimFromStream` keeps the escrow fully backed; the claim is split exactly into payment and fee
and the deposit shrinks by exactly the claim -/
theorem claim_spec (x x' : SB) (now : Int) (blocked : Addr → Bool) (hbl : blocked Mstr = true) (r s : Addr) (o : ClaimOut)
    (hi : StreamInv x) (h : claimFromStream x now blocked r s = .ok (x', o)) :
    StreamInv x' ∧ x'.str.fee = x.str.fee ∧ x'.bank.supply = x.bank.supply ∧ x'.bank.vest = x.bank.vest ∧
    ∃ st, find? x.str.streams (r, s) = some st ∧ o.pay + o.fee = o.total ∧ 0 ≤ o.pay ∧ 0 ≤ o.fee ∧
      o.total + o.rem = st.deposit ∧ 0 ≤ o.rem ∧ 0 < st.deposit ∧
      o.total = (calcAmountToClaim now st.zero st.last st.deposit st.rate).1 ∧
      x'.str.streams = insert x.str.streams (r, s) { st with deposit := o.rem, last := now } := by
  simp only [claimFromStream, bind_eq_ok, pure_eq_ok, require_eq_ok, decide_eq_true_eq, Prod.mk.injEq] at h
  obtain ⟨st, hst, _, hpos, _, hc0, _, hcle, f, hf, b1, hb1, b2, hb2, rfl, rfl⟩ := h
  have hfind := findStream_ok _ _ _ _ _ hst
  have hd0 : 0 ≤ st.deposit := by omega
  obtain ⟨hsplit, hpay, hfee, _⟩ := calcValidatorFee_split x.str.fee _ f.1 f.2 hc0 (by cases f; exact hf)
  obtain ⟨i1, v1, s1, e1⟩ := payFee_spec x.bank b1 _ st.denom f.2 hi.bank hi.noVest hb1
  obtain ⟨i2, v2, s2, e2⟩ := payOut_spec b1 b2 _ blocked hbl r st.denom f.1 i1 (by rw [v1]; exact hi.noVest) hb2
  -- remaining = deposit − claim
  have hsum := calcAmountToClaim_sum now st.zero st.last st.deposit st.rate
  have hrem : (calcAmountToClaim now st.zero st.last st.deposit st.rate).1 +
      (calcAmountToClaim now st.zero st.last st.deposit st.rate).2 = st.deposit ∧
      0 ≤ (calcAmountToClaim now st.zero st.last st.deposit st.rate).2 := ⟨hsum, by omega⟩
  refine ⟨?_, rfl, by rw [s2, s1], by show b2.vest = x.bank.vest; rw [v2, v1], st, hfind, hsplit, hpay, hfee, hrem.1, hrem.2, hpos, rfl, rfl⟩
  constructor
  · exact nodup_insert _ _ _ hi.nodup
  · exact i2
  · intro a ha
    show find? b2.vest a = none
    rw [v2, v1]; exact hi.modNoVest a ha
  · intro key st' hk
    simp only [setStream, find_insert] at hk
    split at hk
    · cases hk; exact hrem.2
    · exact hi.nonneg key st' hk
  · intro d
    show (b2.balOf Mstr d : Int) = sumF (depIn d) (setStream x r s _).streams
    rw [depositSum_set x r s st _ d hfind, e2, e1, hi.backed d]
    simp only [depIn]
    split <;> omega

end Mainchain

namespace Mainchain
open AL Bank

theorem lockedCoins_vest_eq (b b' : Bank) (now : Int) (a : Addr) (h : b'.vest = b.vest) :
    lockedCoins b' now a = lockedCoins b now a := by
  unfold lockedCoins; rw [h]

/-- `settleIfFunded` : escrow stays backed; the refreshed stream is the stored one -/
theorem settle_spec (x : SB) (now : Int) (blocked : Addr → Bool) (hbl : blocked Mstr = true) (r s : Addr) (st : Stream)
    (z : SB × Stream) (hi : StreamInv x) (hf : find? x.str.streams (r, s) = some st)
    (h : settleIfFunded x now blocked r s st = .ok z) :
    StreamInv z.1 ∧ z.1.str.fee = x.str.fee ∧ z.1.bank.vest = x.bank.vest ∧ z.1.bank.supply = x.bank.supply ∧
    find? z.1.str.streams (r, s) = some z.2 ∧
    z.2.denom = st.denom ∧ z.2.rate = st.rate ∧ z.2.cancellable = st.cancellable ∧ z.2.zero = st.zero ∧ 0 ≤ z.2.deposit ∧
    (∀ key, key ≠ (r, s) → find? z.1.str.streams key = find? x.str.streams key) := by
  unfold settleIfFunded at h
  split at h
  · simp only [bind_eq_ok, pure_eq_ok] at h
    obtain ⟨y, hy, rfl⟩ := h
    obtain ⟨hi', hfee, hsup, hvest, st0, hst0, _, _, _, _, hrem, _, _, hstreams⟩ :=
      claim_spec x y.1 now blocked hbl r s y.2 hi (by cases y; exact hy)
    rw [hf] at hst0; cases hst0
    have hfind : find? y.1.str.streams (r, s) = some { st with deposit := y.2.rem, last := now } := by
      rw [hstreams]; exact find_insert_eq _ _ _
    refine ⟨hi', hfee, hvest, hsup, ?_, ?_, ?_, ?_, ?_, ?_, ?_⟩
    · simp [hfind]
    · simp [hfind]
    · simp [hfind]
    · simp [hfind]
    · simp [hfind]
    · simp [hfind]; exact hrem
    · intro key hne
      rw [hstreams]; exact find_insert_ne _ _ _ _ (Ne.symm hne)
  · rename_i hnp
    cases h
    exact ⟨hi, rfl, rfl, rfl, hf, rfl, rfl, rfl, rfl, hi.nonneg _ _ hf, fun _ _ => rfl⟩

/-- `AddDeposit` by a sender other than the escrow account keeps the escrow fully backed -/
theorem addDeposit_spec (x x' : SB) (now : Int) (blocked : Addr → Bool) (hbl : blocked Mstr = true) (r s : Addr)
    (denom : String) (amt : Int) (hi : StreamInv x) (hs : s ≠ Mstr)
    (hlock : ∀ d, 0 ≤ Coins.amountOf (lockedCoins x.bank (now / nsPerSec) s) d)
    (h : addDeposit x now blocked r s denom amt = .ok x') :
    StreamInv x' ∧ x'.str.fee = x.str.fee ∧ x'.bank.supply = x.bank.supply := by
  simp only [addDeposit, bind_eq_ok, pure_eq_ok, require_eq_ok, decide_eq_true_eq] at h
  obtain ⟨st, hst, _, hden, y, hy, _, _, bank, hbank, _, _, rfl⟩ := h
  have hfind := findStream_ok _ _ _ _ _ hst
  -- the state after the optional settlement
  have hy' : StreamInv y.1 ∧ y.1.str.fee = x.str.fee ∧ y.1.bank.vest = x.bank.vest ∧ y.1.bank.supply = x.bank.supply ∧
      (∃ st0, find? y.1.str.streams (r, s) = some st0 ∧ y.2.1.denom = st.denom ∧ y.2.1.deposit = st0.deposit ∧ 0 ≤ st0.deposit ∧
        st0.denom = st.denom) := by
    split at hy
    · simp only [bind_eq_ok, pure_eq_ok] at hy
      obtain ⟨z, hz, rfl⟩ := hy
      obtain ⟨a1, a2, a3, a4, a5, a6, _, _, _, a7, _⟩ := settle_spec x now blocked hbl r s st z hi hfind hz
      exact ⟨a1, a2, a3, a4, z.2, a5, a6, rfl, a7, a6⟩
    · cases hy
      exact ⟨hi, rfl, rfl, rfl, st, hfind, rfl, rfl, hi.nonneg _ _ hfind, rfl⟩
  obtain ⟨hiy, hfee, hvest, hsup, st0, hst0, hden0, hdep0, hnn0, hden1⟩ := hy'
  -- the transfer into escrow
  have hlock' : ∀ d, 0 ≤ Coins.amountOf (lockedCoins y.1.bank (now / nsPerSec) s) d := by
    intro d; rw [lockedCoins_vest_eq _ _ _ _ hvest]; exact hlock d
  obtain ⟨ib, sb, vb, eb⟩ := sendCoins_spec y.1.bank bank _ s Mstr _ hiy.bank hlock' hbank
  have hbal : ∀ d, (bank.balOf Mstr d : Int) = y.1.bank.balOf Mstr d + (if denom = d then amt else 0) := by
    intro d
    rw [eb, outSum_other s _ Mstr d hs]
    unfold Coins.ofCoin
    split
    · rename_i h0
      have h0' : amt = 0 := h0
      simp [outSum, h0']
    · simp [outSum, outDelta]
  refine ⟨?_, hfee, by rw [sb, hsup]⟩
  have hamt0 : 0 ≤ amt := by
    by_cases hneg : amt < 0
    · exfalso
      -- a negative coin is not a valid coin set: the transfer fails
      simp only [sendCoins, subUnlocked, bind_eq_ok, require_eq_ok] at hbank
      obtain ⟨_, ⟨_, hv, _⟩, _⟩ := hbank
      have : amt ≠ 0 := by omega
      simp [Coins.ofCoin, this, Coins.isValid] at hv
      omega
    · omega
  constructor
  · exact nodup_insert _ _ _ hiy.nodup
  · exact ib
  · intro a ha
    show find? bank.vest a = none
    rw [vb]; exact hiy.modNoVest a ha
  · intro key st' hk
    simp only [setStream, find_insert] at hk
    split at hk
    · cases hk; simp only; omega
    · exact hiy.nonneg key st' hk
  · intro d
    show (bank.balOf Mstr d : Int) = sumF (depIn d) (setStream y.1 r s _).streams
    rw [depositSum_set y.1 r s st0 _ d hst0, hbal, hiy.backed d]
    simp only [depIn, hden0, hden1, hden, hdep0]
    split <;> omega

theorem setNewFlowRate_spec (x x' : SB) (now : Int) (blocked : Addr → Bool) (hbl : blocked Mstr = true) (r s : Addr)
    (rate : Int) (hi : StreamInv x) (h : setNewFlowRate x now blocked r s rate = .ok x') :
    StreamInv x' ∧ x'.str.fee = x.str.fee ∧ x'.bank.supply = x.bank.supply := by
  simp only [setNewFlowRate, bind_eq_ok] at h
  obtain ⟨st, hst, h⟩ := h
  have hfind := findStream_ok _ _ _ _ _ hst
  split at h
  · simp only [bind_eq_ok, pure_eq_ok] at h
    obtain ⟨z, hz, _, _, rfl⟩ := h
    obtain ⟨a1, a2, a3, a4, a5, a6, _, _, _, a7, _⟩ := settle_spec x now blocked hbl r s st z hi hfind hz
    refine ⟨?_, a2, a4⟩
    constructor
    · exact nodup_insert _ _ _ a1.nodup
    · exact a1.bank
    · exact a1.modNoVest
    · intro key st' hk
      simp only [setStream, find_insert] at hk
      split at hk
      · cases hk; exact a7
      · exact a1.nonneg key st' hk
    · intro d
      show (z.1.bank.balOf Mstr d : Int) = sumF (depIn d) (setStream z.1 r s _).streams
      rw [depositSum_set z.1 r s z.2 _ d a5, a1.backed d]
      simp only [depIn]; split <;> omega
  · simp only [pure_eq_ok] at h
    subst h
    refine ⟨?_, rfl, rfl⟩
    constructor
    · exact nodup_insert _ _ _ hi.nodup
    · exact hi.bank
    · exact hi.modNoVest
    · intro key st' hk
      simp only [setStream, find_insert] at hk
      split at hk
      · cases hk; exact hi.nonneg (r, s) st hfind
      · exact hi.nonneg key st' hk
    · intro d
      show (x.bank.balOf Mstr d : Int) = sumF (depIn d) (setStream x r s _).streams
      rw [depositSum_set x r s st _ d hfind, hi.backed d]
      simp only [depIn]; split <;> omega

theorem cancelStream_spec (x x' : SB) (now : Int) (blocked : Addr → Bool) (hbl : blocked Mstr = true) (r s : Addr)
    (hi : StreamInv x) (h : cancelStream x now blocked r s = .ok x') :
    StreamInv x' ∧ x'.str.fee = x.str.fee ∧ x'.bank.supply = x.bank.supply := by
  simp only [cancelStream, bind_eq_ok, pure_eq_ok] at h
  obtain ⟨st, hst, _, _, z, hz, bank, hbank, rfl⟩ := h
  have hfind := findStream_ok _ _ _ _ _ hst
  obtain ⟨a1, a2, a3, a4, a5, a6, _, _, _, a7, _⟩ := settle_spec x now blocked hbl r s st z hi hfind hz
  obtain ⟨ib, vb, sb, eb⟩ := payOut_spec z.1.bank bank _ blocked hbl s z.2.denom z.2.deposit a1.bank a1.noVest hbank
  refine ⟨?_, a2, by rw [sb, a4]⟩
  constructor
  · exact nodup_erase _ _ a1.nodup
  · exact ib
  · intro a ha
    show find? bank.vest a = none
    rw [vb]; exact a1.modNoVest a ha
  · intro key st' hk
    by_cases hkey : (r, s) = key
    · subst hkey; rw [find_erase_eq _ _ a1.nodup] at hk; cases hk
    · rw [find_erase_ne _ _ _ hkey] at hk; exact a1.nonneg key st' hk
  · intro d
    show (bank.balOf Mstr d : Int) = sumF (depIn d) (erase z.1.str.streams (r, s))
    rw [sumF_erase _ _ _ a1.nodup, a5, eb, a1.backed d]
    simp only [fOpt, depIn, depositSum]
    split <;> omega

/-! the five message-server entry points -/

theorem createStream_inv (a b : SB) (now : Int) (r s : AddrTok) (denom : String) (amt rate : Int) (hi : StreamInv a)
    (hs : s.decode ≠ some Mstr) (hlock : ∀ sa d, 0 ≤ Coins.amountOf (lockedCoins a.bank (now / nsPerSec) sa) d)
    (hbl : isBlocked Mstr = true) (h : createStream a now isBlocked r s denom amt rate = .ok b) :
    StreamInv b ∧ b.str.fee = a.str.fee ∧ b.bank.supply = a.bank.supply := by
  simp only [createStream, bind_eq_ok, require_eq_ok, decodeM_eq_ok] at h
  obtain ⟨sa, hsa, ra, hra, _, _, _, _, _, hnew, _, _, _, _, _, _, h⟩ := h
  have hsne : sa ≠ Mstr := by intro e; subst e; exact hs hsa
  have hfresh : find? a.str.streams (ra, sa) = none := by
    simp only [contains, Bool.not_eq_true', Option.isSome_eq_false_iff, Option.isNone_iff_eq_none] at hnew
    exact hnew
  have hi1 : StreamInv { a with str := setStream a ra sa { denom := denom, deposit := 0, rate := rate, last := now, zero := 0, cancellable := true } } := by
    constructor
    · exact nodup_insert _ _ _ hi.nodup
    · exact hi.bank
    · exact hi.modNoVest
    · intro key st' hk
      simp only [setStream, find_insert] at hk
      split at hk
      · cases hk; simp
      · exact hi.nonneg key st' hk
    · intro d
      show (a.bank.balOf Mstr d : Int) = sumF (depIn d) (insert a.str.streams (ra, sa) _)
      rw [sumF_insert, hfresh, hi.backed d]
      simp [fOpt, depIn, depositSum]
  exact addDeposit_spec { a with str := setStream a ra sa { denom := denom, deposit := 0, rate := rate, last := now, zero := 0, cancellable := true } } b now isBlocked hbl ra sa denom amt hi1 hsne (hlock sa) h

theorem claimStream_inv (a b : SB) (now : Int) (r s : AddrTok) (o : ClaimOut) (hi : StreamInv a)
    (hbl : isBlocked Mstr = true) (h : claimStream a now isBlocked r s = .ok (b, o)) :
    StreamInv b ∧ b.str.fee = a.str.fee ∧ b.bank.supply = a.bank.supply := by
  simp only [claimStream, bind_eq_ok, require_eq_ok, decodeM_eq_ok] at h
  obtain ⟨sa, _, ra, _, _, _, h⟩ := h
  obtain ⟨h1, h2, h3, _⟩ := claim_spec a b now isBlocked hbl ra sa o hi h
  exact ⟨h1, h2, h3⟩

theorem topUpDeposit_inv (a b : SB) (now : Int) (r s : AddrTok) (denom : String) (amt d z : Int) (hi : StreamInv a)
    (hs : s.decode ≠ some Mstr) (hlock : ∀ sa d, 0 ≤ Coins.amountOf (lockedCoins a.bank (now / nsPerSec) sa) d)
    (hbl : isBlocked Mstr = true) (h : topUpDeposit a now isBlocked r s denom amt = .ok (b, d, z)) :
    StreamInv b ∧ b.str.fee = a.str.fee ∧ b.bank.supply = a.bank.supply := by
  simp only [topUpDeposit, bind_eq_ok, pure_eq_ok, require_eq_ok, decodeM_eq_ok, Prod.mk.injEq] at h
  obtain ⟨sa, hsa, ra, _, _, _, st, _, _, _, x', hx', rfl, _⟩ := h
  have hsne : sa ≠ Mstr := by intro e; subst e; exact hs hsa
  exact addDeposit_spec a x' now isBlocked hbl ra sa denom amt hi hsne (hlock sa) hx'

theorem updateFlowRate_inv (a b : SB) (now : Int) (r s : AddrTok) (rate : Int) (hi : StreamInv a)
    (hbl : isBlocked Mstr = true) (h : updateFlowRate a now isBlocked r s rate = .ok b) :
    StreamInv b ∧ b.str.fee = a.str.fee ∧ b.bank.supply = a.bank.supply := by
  simp only [updateFlowRate, bind_eq_ok, require_eq_ok, decodeM_eq_ok] at h
  obtain ⟨sa, _, ra, _, _, _, _, _, h⟩ := h
  exact setNewFlowRate_spec a b now isBlocked hbl ra sa rate hi h

theorem cancelStreamMsg_inv (a b : SB) (now : Int) (r s : AddrTok) (hi : StreamInv a)
    (hbl : isBlocked Mstr = true) (h : cancelStreamMsg a now isBlocked r s = .ok b) :
    StreamInv b ∧ b.str.fee = a.str.fee ∧ b.bank.supply = a.bank.supply := by
  simp only [cancelStreamMsg, bind_eq_ok, require_eq_ok, decodeM_eq_ok] at h
  obtain ⟨sa, _, ra, _, _, _, _, _, h⟩ := h
  exact cancelStream_spec a b now isBlocked hbl ra sa hi h

end Mainchain
