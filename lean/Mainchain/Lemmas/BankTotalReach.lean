import Mainchain.Lemmas.BankTotal
import Mainchain.Lemmas.EntBooksReach
/-
The bank is balanced in every state of every run.
-/
namespace Mainchain
open AL Bank

/-- the bank is balanced (Σ balances = supply per denomination) in every state of every run -/
theorem balanced_reachable (g : GenCfg) (hg : GenBooksValid g) (hb : Balanced (initState g).bank) (s : State)
    (h : FineReach g (BooksQ g.ent.denom) s) : Balanced s.bank := by
  have key : ∀ s, FineReach g (BooksQ g.ent.denom) s → StreamInv (toSB s) ∧ Balanced s.bank := by
    intro s hs
    induction hs with
    | init => exact ⟨strInv_init g hg.1, hb⟩
    | step a b _ hq hstep ih => exact ⟨strInv_step a b hq.1 ih.1 hstep, balanced_step a b hq.1 ih.1 ih.2 hstep⟩
  exact (key s h).2


end Mainchain
