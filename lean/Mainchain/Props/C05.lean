import Mainchain.Lemmas.EntBooksReach
import Mainchain.Lemmas.Fees
/-
C05 — Locked eFUND can be spent only as WRKChain/BEACON transaction fees.
-/
namespace Mainchain
namespace C05
open AL Bank

/-- Over every elementary step of every run, the per-account locked and spent books change in exactly
two ways: the completion of an accepted order (purchaser's locked + the order's amount) and the fee
unlock of the ante chain for a transaction that carries a top-level WRKChain or BEACON message and
whose fee payer holds locked eFUND (payer's locked − k, spent + k, with `0 < k ≤ locked`, and
`k = min(fee in the enterprise denomination, locked)` for a valid fee).  No other message type —
transfers, stream operations, authorisations, nested messages, governance — and no other ante step
moves locked eFUND. -/
theorem c05_locked_moves_only_by_fee_unlock_or_completion (g : GenCfg) (hg : GenBooksValid g) (s s' : State)
    (h : FineReach g (BooksQ g.ent.denom) s) (hq : BooksQ g.ent.denom s) (hstep : FineStep s s') :
    (s'.ent.locked = s.ent.locked ∧ s'.ent.spent = s.ent.spent) ∨
    (∃ id po a, find? s.ent.orders id = some po ∧ po.status = stAccepted ∧ po.purchaser.decode = some a ∧
      (s'.ent.lockedOf a).amt = (s.ent.lockedOf a).amt + po.amt ∧
      (∀ b, b ≠ a → find? s'.ent.locked b = find? s.ent.locked b) ∧ s'.ent.spent = s.ent.spent) ∨
    (∃ (tx : Tx) (payer : Addr) (k : Int), tx.payer = some payer ∧ (tx.hasKind .wrk || tx.hasKind .bcn) = true ∧ 0 < k ∧ k ≤ (s.ent.lockedOf payer).amt ∧
      (s'.ent.lockedOf payer).amt = (s.ent.lockedOf payer).amt - k ∧
      (s'.ent.spentOf payer).amt = (s.ent.spentOf payer).amt + k ∧
      (∀ b, b ≠ payer → find? s'.ent.locked b = find? s.ent.locked b ∧ find? s'.ent.spent b = find? s.ent.spent b) ∧
      (Coins.isValid tx.fee = true → k = min (Coins.amountOf tx.fee g.ent.denom) (s.ent.lockedOf payer).amt)) := by
  have ha := entAll_reachable g hg s h
  cases hstep with
  | leaf wall m r hl _ hsig hx =>
    left
    rcases leaf_ent wall s s' m r hl hx with he | hop
    · rw [he]; exact ⟨rfl, rfl⟩
    · obtain ⟨e1, e2, _⟩ := entOp_books _ _ _ ha.book hop
      exact ⟨e1, e2⟩
  | ante tx hu hgr hx =>
    cases hx with
    | none hs => subst hs; exact Or.inl ⟨rfl, rfl⟩
    | unlock payer x hp hk hlk hx hs =>
      subst hs
      have hpu := payer_user tx payer hu hp
      have hpM : payer ≠ Ment := by intro e; subst e; simp [Ment] at hpu
      obtain ⟨_, _, k, hk0, hkl, h1, h2, h3, hz, _, hv⟩ := unlockForFees_spec g.ent.denom s x payer tx.fee ha.books hq.2.2 ha.str hpM hlk hx
      by_cases hk' : k = 0
      · left; have := (hz hk').2; simp only; rw [this]; exact ⟨rfl, rfl⟩
      · right; right
        refine ⟨tx, payer, k, hp, hk, by omega, hkl, h1, h2, h3, ?_⟩
        intro hval
        rcases hv hval with h0 | hm
        · exact absurd h0 hk'
        · exact hm
    | deduct payer src b hp hsrc hx hs => subst hs; exact Or.inl ⟨rfl, rfl⟩
  | time t _ hs => subst hs; exact Or.inl ⟨rfl, rfl⟩
  | complete id x hx hs =>
    subst hs
    obtain ⟨_, po, a, hf, hst, hd, _, _, _, _, _, _, hl, ho, hsp, _⟩ := completeOne_spec g.ent.denom s x id ha.books ha.book ha.str hx
    right; left
    exact ⟨id, po, a, hf, hst, hd, hl, ho, hsp⟩
  | tally id e ht hs =>
    subst hs
    have hf := tallyOne_frame _ _ _ _ ht
    exact Or.inl ⟨hf.2.2.2.1, hf.2.2.2.2.1⟩

/-- In the composed ante chain of the repository (decorator order regenerated on every run) the unlock
decorator runs after the WRKChain/BEACON fee decorators, which reject invalid fee coin sets: so for every
transaction that passes the pre-execution checks the amount moved from locked to spent in
`c05_locked_moves_only_by_fee_unlock_or_completion` is exactly `min(fee in the fee denomination, locked)`. -/
theorem c05_fee_of_admitted_module_tx_is_valid (mode : Mode) (s s' : State) (tx : Tx)
    (hk : (tx.hasKind .wrk || tx.hasKind .bcn) = true) (h : ante Facts.anteOrder mode s tx = .ok s') :
    Coins.isValid tx.fee = true := ante_fee_valid mode s s' tx hk h

/-- A transaction that is rejected before execution (stateless validation or any ante decorator fails —
bad signature, wrong sequence, insufficient fee, …) changes nothing at all: the unlock performed by an
earlier decorator is discarded with the rest of the ante state.  The same holds for CheckTx. -/
theorem c05_rejected_tx_changes_nothing (wall : Nat) (s : State) (tx : Tx) :
    (∀ e, ante Facts.anteOrder .deliver s tx = .error e → (deliverTx Facts.anteOrder wall s tx).1 = s) ∧
    (∀ e, Msg.validateBasicList s tx.msgs = .error e → (deliverTx Facts.anteOrder wall s tx).1 = s) ∧
    (∀ e, ante Facts.anteOrder .check s tx = .error e → (checkTx Facts.anteOrder s tx).1 = s) := by
  refine ⟨?_, ?_, ?_⟩
  · intro e he
    unfold deliverTx
    split
    · rfl
    · split
      · rfl
      · simp [he]
  · intro e he
    unfold deliverTx
    split
    · rfl
    · simp [he]
  · intro e he
    unfold checkTx
    split
    · rfl
    · split
      · rfl
      · simp [he]

/-- Completing a purchase order leaves every bank balance of the purchaser exactly as it was (the minted
coins pass through the purchaser's account and are delegated to the escrow in the same step): for a
base account the spendable balance is the balance, so it does not rise.  (`…_partial`: the full
statement covers vesting accounts too, for which it is FALSE — see below.) -/
theorem c05_completion_keeps_purchaser_balances_partial (g : GenCfg) (hg : GenBooksValid g) (s : State) (x : EB) (id : Nat)
    (h : FineReach g (BooksQ g.ent.denom) s)
    (hx : EB.completeOne { ent := s.ent, bank := s.bank } s.nowSec isBlocked id = .ok x) :
    ∃ po a, find? s.ent.orders id = some po ∧ po.purchaser.decode = some a ∧ ∀ d, x.bank.balOf a d = s.bank.balOf a d := by
  have ha := entAll_reachable g hg s h
  obtain ⟨_, po, a, hf, _, hd, _, haM, _, hbal, _⟩ := completeOne_spec g.ent.denom s x id ha.books ha.book ha.str hx
  refine ⟨po, a, hf, hd, ?_⟩
  intro d
  have := hbal a d
  simp only [haM, false_and, if_false] at this
  omega

/-! ### the full statement fails for two account configurations (known findings) -/

def wGen : GenCfg :=
  { timeSec := 1700000000,
    accts := [{ id := 0, exists_ := true, balance := [{ denom := "nund", amt := 1000000 }], vest := none },
              { id := 1, exists_ := true, balance := [{ denom := "nund", amt := 1000000 }],
                vest := some { orig := [{ denom := "nund", amt := 1000000 }], endTime := 2000000000 } },
              { id := 2, exists_ := true, balance := [{ denom := "nund", amt := 1000000 }], vest := none }],
    ent := { denom := "nund", minAccepts := 1, decisionLimit := 3000, signers := [.ok 0 false] },
    entWl := [1, 2],
    wrk := { denom := "nund", feeReg := 24, feeRec := 2, feeBuy := 2, defLimit := 3, maxLimit := 6 },
    bcn := { denom := "nund", feeReg := 24, feeRec := 2, feeBuy := 2, defLimit := 3, maxLimit := 6 } }

def txOf (signer : Addr) (granter : Option Addr) (fee : Coins) (m : Msg) : Tx :=
  { signers := [signer], granter := granter, fee := fee, sig := .ok, msgs := [m] }

def beginAt (s : State) (sec : Int) : State :=
  match beginBlock Facts.beginBlockSteps { s with time := sec * nsPerSec } with
  | .ok s' => s'
  | .error _ => s

/-- purchaser `p` raises 500000, signer 0 accepts; two more blocks: tallied, then completed -/
def afterOrder (p : Addr) : State × State :=
  let s1 := beginAt (initState wGen) 1700000005
  let s2 := (deliverTx Facts.anteOrder 0 s1 (txOf p none [] (.entRaise (.ok p false) 500000 "nund"))).1
  let s3 := (deliverTx Facts.anteOrder 0 s2 (txOf 0 none [] (.entDecide 1 stAccepted (.ok 0 false)))).1
  let s4 := beginAt s3 1700000010
  (s4, beginAt s4 1700000015)

/-- NEGATION of "completing a purchase order never increases the purchaser's spendable balance":
for a delayed-vesting purchaser whose whole balance is still vesting, the spendable balance is empty
before the completing block and 500000nund after it (the delegation to the escrow is booked against
the vesting coins first). -/
theorem c05_vesting_purchaser_spendable_rises :
    ((afterOrder 1).1.bank.spendable 1700000010 1 = [] ∧ (afterOrder 1).1.ent.lockedOf 1 = { denom := "nund", amt := 0 }) ∧
    ((afterOrder 1).2.bank.spendable 1700000015 1 = [{ denom := "nund", amt := 500000 }] ∧
      (afterOrder 1).2.ent.lockedOf 1 = { denom := "nund", amt := 500000 }) := by
  decide +kernel

/-- NEGATION of "locked eFUND leaves only as the fee of the transaction": with a fee granter the
unlocked amount stays with the payer as liquid coins while the granter pays the fee. -/
theorem c05_fee_granter_pays_while_payer_keeps_unlocked :
    let s := (afterOrder 2).2
    let s1 := (deliverTx Facts.anteOrder 0 s (txOf 0 none [] (.feegrantGrant (.ok 0 false) (.ok 2 false)))).1
    let s2 := (deliverTx Facts.anteOrder 0 s1 (txOf 2 (some 0) [{ denom := "nund", amt := 24 }]
      (.regReg .wrk "mon" "name" "gen" "typ" (.ok 2 false)))).1
    s1.bank.balOf 2 "nund" = 1000000 ∧ s1.ent.lockedOf 2 = { denom := "nund", amt := 500000 } ∧
    s2.bank.balOf 2 "nund" = 1000024 ∧ s2.ent.lockedOf 2 = { denom := "nund", amt := 499976 } ∧
    s2.ent.spentOf 2 = { denom := "nund", amt := 24 } ∧ s2.bank.balOf 0 "nund" = 999976 := by
  decide +kernel

end C05
end Mainchain
