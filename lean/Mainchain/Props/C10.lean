import Mainchain.Lemmas.StreamReach
/-
C10 — Stream escrow is conserved and always fully backed.

`FineReach g BankSane s` : `s` is any state of any run from genesis `g` (every message kind, nested
authz, governance, ante effects, block hooks).  `BankSane` is the trusted-base assumption that the
SDK's `LockedCoins` never reports a negative amount.
-/
namespace Mainchain
namespace C10
open AL Bank

/-- At every block boundary (indeed in every intermediate state) the stream escrow account holds, per
denomination, exactly the sum of the remaining deposits of all streams; deposits are never negative. -/
theorem c10_escrow_eq_sum_deposits (g : GenCfg) (hg : GenBankValid g) (s : State) (h : FineReach g BankSane s) :
    (∀ d, (s.bank.balOf Mstr d : Int) = depositSum (toSB s) d) ∧
    (∀ key st, find? s.str.streams key = some st → 0 ≤ st.deposit) := by
  have hi := strInv_reachable g hg s h
  exact ⟨hi.backed, hi.nonneg⟩

/-- No elementary step other than a stream operation moves the escrow's funds: if a step leaves the
stream table as it was (every non-stream message, transfers aimed at the escrow, fee deduction, the
eFUND unlock, begin-block minting), the escrow balance is unchanged in every denomination. -/
theorem c10_only_stream_ops_move_escrow (g : GenCfg) (hg : GenBankValid g) (s s' : State)
    (h : FineReach g BankSane s) (hq : BankSane s) (hs : FineStep s s') (hsame : s'.str.streams = s.str.streams) :
    ∀ d, s'.bank.balOf Mstr d = s.bank.balOf Mstr d := by
  have hi := strInv_reachable g hg s h
  have hi' := strInv_step s s' hq hi hs
  intro d
  have h1 := hi.backed d
  have h2 := hi'.backed d
  simp only [depositSum, toSB, hsame] at h1 h2
  omega

/-- a direct transfer aimed at the escrow account is refused (the account is a blocked recipient) -/
theorem c10_send_to_escrow_rejected (wall : Nat) (s : State) (src : AddrTok) (coins : Coins) (s' : State) (r : Resp) :
    execMsg wall s (.bankSend src (.ok Mstr false) coins) ≠ .ok (s', r) := by
  intro h
  simp only [execMsg, bind_eq_ok, pure_eq_ok, require_eq_ok, decodeM_eq_ok, AddrTok.decode, Option.some.injEq] at h
  obtain ⟨_, _, b, hb, _, hbl, _⟩ := h
  subst hb
  simp [isBlocked_Mstr] at hbl

/-- Each release pays the fee collector `floor(released × validator-fee rate)` and the receiver the
rest; the released amount leaves the deposit and nothing else does. -/
theorem c10_release_conserves_and_fee_split (x x' : SB) (now : Int) (r s : Addr) (o : ClaimOut) (hi : StreamInv x)
    (h : claimFromStream x now isBlocked r s = .ok (x', o)) :
    ∃ st, find? x.str.streams (r, s) = some st ∧
      o.pay + o.fee = o.total ∧ o.total + o.rem = st.deposit ∧ 0 ≤ o.pay ∧ 0 ≤ o.fee ∧ 0 ≤ o.rem ∧
      o.fee = (if x.str.fee > 0 then (o.total * x.str.fee) / (pow18 : Int) else 0) ∧
      find? x'.str.streams (r, s) = some { st with deposit := o.rem, last := now } := by
  obtain ⟨_, _, _, _, st, hf, h1, h2, h3, h4, h5, _, htot, hstreams⟩ := claim_spec x x' now isBlocked isBlocked_Mstr r s o hi h
  refine ⟨st, hf, h1, h4, h2, h3, h5, ?_, by rw [hstreams]; exact find_insert_eq _ _ _⟩
  -- the fee is floor(total·fee) : big.Int.Quo on non-negative operands is the floor
  simp only [claimFromStream, bind_eq_ok, pure_eq_ok, Prod.mk.injEq] at h
  obtain ⟨st1, hst1, _, _, _, hc0, _, _, f, hf', _, _, _, _, _, ho⟩ := h
  simp only [require_eq_ok, decide_eq_true_eq] at hc0
  have hsp := calcValidatorFee_split x.str.fee _ f.1 f.2 hc0 (by cases f; exact hf')
  subst ho
  simp only
  rw [hsp.2.2.2]
  split
  · rename_i hpos
    unfold feeOf
    have hnn : 0 ≤ (calcAmountToClaim now st1.zero st1.last st1.deposit st1.rate).1 * x.str.fee :=
      Int.mul_nonneg hc0 (by omega)
    rw [Int.tdiv_eq_ediv_of_nonneg hnn]
  · rfl

/-- a top-up moves exactly the top-up amount into escrow and adds it to the stream's deposit (after
settling an expired stream), so per stream: deposited = paid out + fees + refunds + remaining -/
theorem c10_topup_adds_exactly (x x' : SB) (now : Int) (r s : Addr) (denom : String) (amt : Int) (hi : StreamInv x)
    (hs : s ≠ Mstr) (hlock : ∀ d, 0 ≤ Coins.amountOf (lockedCoins x.bank (now / nsPerSec) s) d)
    (h : addDeposit x now isBlocked r s denom amt = .ok x') : StreamInv x' :=
  (addDeposit_spec x x' now isBlocked isBlocked_Mstr r s denom amt hi hs hlock h).1

-- non-vacuity: a concrete valid genesis
def exGen : GenCfg :=
  { timeSec := 1700000000,
    accts := [{ id := 0, exists_ := true, balance := [{ denom := "nund", amt := 1000 }], vest := none },
              { id := 1, exists_ := true, balance := [{ denom := "nund", amt := 500 }],
                vest := some { orig := [{ denom := "nund", amt := 500 }], endTime := 1800000000 } }] }
example : (initState exGen).bank.balOf Mstr "nund" = 0 := by decide
example : (keys (initState exGen).bank.bal).Nodup := by decide

/-- **A second `CreateStream` for a pair that already has a stream record is refused and changes nothing** — whether
that stream is running, has run out with part of its deposit unclaimed, or has been emptied: the record (and whatever it
still holds for the receiver) stays until it is cancelled. -/
theorem c10_create_over_existing_stream_refused (x : SB) (now : Int) (r s : Addr) (denom : String) (amt rate : Int)
    (st : Stream) (hf : find? x.str.streams (r, s) = some st) :
    ∃ e, createStream x now isBlocked (AddrTok.canon r) (AddrTok.canon s) denom amt rate = .error e := by
  have hc : AL.contains x.str.streams (r, s) = true := by simp [AL.contains, hf]
  simp only [createStream, AddrTok.canon, AddrTok.decodeM, AddrTok.decode, bind, Except.bind]
  cases hb : isBlocked r
  · by_cases hne : (AddrTok.ok s false) ≠ (AddrTok.ok r false)
    · simp [hb, hne, hc, require]
    · simp [hb, hne, require]
  · simp [hb, require]

end C10
end Mainchain
