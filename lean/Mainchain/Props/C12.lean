import Mainchain.Lemmas.StreamLive
import Mainchain.Lemmas.StreamTopUp
/-
C12 — Stream funds are never stranded.
-/
namespace Mainchain
namespace C12
open AL Bank

/-- the pure arithmetic of x/stream never panics: `CalculateDuration` and `CalculateAmountToClaim`
are total (they return plain values for every deposit, rate and time), and `CalculateValidatorFee`
succeeds for every non-negative amount and every fee rate in [0,1] -/
theorem c12_arithmetic_never_panics (fee amount : Int) (hf0 : 0 ≤ fee) (hf1 : fee ≤ (pow18 : Int)) (ha : 0 ≤ amount) :
    ∃ pay f, calcValidatorFee fee amount = .ok (pay, f) ∧ pay + f = amount ∧ 0 ≤ pay ∧ 0 ≤ f := by
  obtain ⟨p, hp⟩ := calcValidatorFee_ok fee amount hf0 hf1 ha
  obtain ⟨h1, h2, h3, _⟩ := calcValidatorFee_split fee amount p.1 p.2 ha (by cases p; exact hp)
  exact ⟨p.1, p.2, by cases p; exact hp, h1, h2, h3⟩

/-- For every stream that holds a positive deposit, in every state of every run, a claim by the
receiver succeeds — for every amount, flow rate, elapsed time and validator-fee rate in [0,1].
(`Small` : balances below 2^255, so that the 256-bit `sdk.Int` of the bank cannot overflow.) -/
theorem c12_claim_succeeds (g : GenCfg) (hg : GenBankValid g) (s : State) (h : FineReach g RateQ s)
    (hfee : 0 ≤ s.str.fee ∧ s.str.fee ≤ (pow18 : Int)) (hsmall : Small s.bank)
    (r sn : Addr) (st : Stream) (hf : find? s.str.streams (r, sn) = some st) (hpos : 0 < st.deposit) :
    ∃ x' o, claimStream (toSB s) s.time isBlocked (.ok r false) (.ok sn false) = .ok (x', o) ∧
      o.pay + o.fee = o.total ∧ 0 < o.total + o.rem := by
  obtain ⟨hi, hwf⟩ := strWF_reachable g hg s h
  obtain ⟨x', o, hc⟩ := claim_succeeds (toSB s) s.time r sn st hi hwf hfee hsmall hf hpos
  obtain ⟨_, _, _, _, st0, hf0, h1, _, _, h2, _⟩ := claim_spec (toSB s) x' s.time isBlocked isBlocked_Mstr r sn o hi hc
  have : find? (toSB s).str.streams (r, sn) = some st := hf
  rw [this] at hf0; cases hf0
  refine ⟨x', o, ?_, h1, by omega⟩
  have hcont : contains (toSB s).str.streams (r, sn) = true := by simp [contains, this]
  simp [claimStream, AddrTok.decodeM, AddrTok.decode, bind, Except.bind, hcont, require_true, hc]

/-- …and a cancel by the (non-blocked) sender succeeds and removes the stream, returning the
unreleased remainder (see `C11.c11_cancel_refunds_unreleased`). -/
theorem c12_cancel_succeeds (g : GenCfg) (hg : GenBankValid g) (s : State) (h : FineReach g RateQ s)
    (hfee : 0 ≤ s.str.fee ∧ s.str.fee ≤ (pow18 : Int)) (hsmall : Small254 s.bank)
    (r sn : Addr) (st : Stream) (hf : find? s.str.streams (r, sn) = some st) (hs : MaySign sn) :
    ∃ x', cancelStreamMsg (toSB s) s.time isBlocked (.ok r false) (.ok sn false) = .ok x' := by
  obtain ⟨hi, hwf⟩ := strWF_reachable g hg s h
  obtain ⟨x', hc⟩ := cancel_succeeds (toSB s) s.time r sn st hi hwf hfee hsmall hf (maySign_not_blocked sn hs)
  refine ⟨x', ?_⟩
  have hfs : findStream (toSB s) r sn eStrInvalidData = .ok st := by simp [findStream, toSB, hf]
  have hcan : st.cancellable = true := hwf.canc _ _ hf
  simp [cancelStreamMsg, AddrTok.decodeM, AddrTok.decode, bind, Except.bind, hfs, hcan, require_true, hc]

/-- …and **a top-up the sender can afford succeeds**, on a running stream as on one that has run out (which is settled
first): for every stream in every state of every run, every positive amount the (non-vesting, non-blocked) sender holds in
the stream's denomination, provided the run time it buys, ⌊amount / flow rate⌋ seconds, is within the module's limit
`MaxDurationSeconds` (about 292 years — the handler enforces that limit per top-up: it is the one way a top-up the sender can
afford is refused, and it is deliberate). -/
theorem c12_topup_succeeds (g : GenCfg) (hg : GenBankValid g) (s : State) (h : FineReach g RateQ s)
    (hfee : 0 ≤ s.str.fee ∧ s.str.fee ≤ (pow18 : Int)) (hsmall : Small254 s.bank)
    (r sn : Addr) (st : Stream) (hf : find? s.str.streams (r, sn) = some st) (hs : MaySign sn)
    (amt : Int) (hamt : 0 < amt) (hnv : find? s.bank.vest sn = none) (hfunds : amt ≤ s.bank.balOf sn st.denom)
    (hdur : calcDuration amt st.rate ≤ maxDurationSeconds) :
    ∃ out, topUpDeposit (toSB s) s.time isBlocked (.ok r false) (.ok sn false) st.denom amt = .ok out := by
  obtain ⟨hi, hwf⟩ := strWF_reachable g hg s h
  obtain ⟨x', hc⟩ := topup_succeeds (toSB s) s.time r sn st hi hwf hfee hsmall hf (maySign_not_blocked sn hs) amt hamt hnv hfunds hdur
  have hfs : findStream (toSB s) r sn eStrInvalidData = .ok st := by simp [findStream, toSB, hf]
  have hpos : coinNotPositive amt = false := by simp [coinNotPositive]; omega
  simp only [topUpDeposit, AddrTok.decodeM, AddrTok.decode, bind, Except.bind, hfs, hpos, Bool.not_false, require_true, hc,
    decide_true, pure, Except.pure]
  exact ⟨_, rfl⟩

/-- the validator-fee rate stored in state is always within [0,1] (so the hypotheses above hold in
every reachable state) -/
theorem c12_fee_rate_always_valid (wall : Nat) (s s' : State) (m : Msg) (r : Resp) (auth : AddrTok) (fee : Int)
    (h : execMsg wall s (.strParams auth fee) = .ok (s', r)) : 0 ≤ s'.str.fee ∧ s'.str.fee ≤ (pow18 : Int) := by
  let _ := m
  simp only [execMsg, bind_eq_ok, pure_eq_ok, Prod.mk.injEq, require_eq_ok] at h
  obtain ⟨_, _, _, hv, rfl, _⟩ := h
  simpa [streamParamsValid] using hv

-- the witness on which the unfixed code panicked (2·10^21 at 1 %): now a plain value
example : (calcValidatorFee 10000000000000000 2000000000000000000000).toOption = some (1980000000000000000000, 20000000000000000000) := by
  decide
example : calcDuration 10000000000000000000000 1 = 9223372036854775807 := by decide

end C12
end Mainchain
