import Mainchain.Lemmas.StreamLive
/-
C11 — Streams release funds at exactly the agreed rate, never faster.
Times are nanoseconds since the epoch; `secsOf` is the floor to whole seconds.
`FineReach g RateQ s` : any state of any run in which bank-lite is sane, no stream goes unclaimed for
2^63 ns (~292 years) and block times are non-negative.
-/
namespace Mainchain
namespace C11
open AL Bank

/-- Before the advertised deposit-zero time a release pays exactly
`min(remaining deposit, flow rate × whole seconds since the previous release)`;
at or after that time it pays the whole remainder. -/
theorem c11_release_amount (x x' : SB) (now : Int) (r s : Addr) (o : ClaimOut) (hi : StreamInv x)
    (hwf : StreamWF now x) (hgap : GapOK now x) (h : claimFromStream x now isBlocked r s = .ok (x', o)) :
    ∃ st, find? x.str.streams (r, s) = some st ∧
      (now < st.zero → o.total = min st.deposit (st.rate * secsOf (now - st.last))) ∧
      (st.zero ≤ now → o.total = st.deposit) ∧ o.rem = st.deposit - o.total := by
  obtain ⟨st, hf, _, htot, hrem, _⟩ := claim_shape x x' now r s o hi h
  have hsum := calcAmountToClaim_sum now st.zero st.last st.deposit st.rate
  refine ⟨st, hf, ?_, ?_, by omega⟩
  · intro hlt
    rw [htot]
    exact (claim_amount_before_zero now st.zero st.last st.deposit st.rate hlt (hwf.lastLe _ _ hf) (hgap _ _ hf)).1
  · intro hge
    rw [htot, claim_amount_after_zero _ _ _ _ _ hge]

/-- never faster: before the zero time the amount released is at most rate × elapsed whole seconds -/
theorem c11_never_faster (x x' : SB) (now : Int) (r s : Addr) (o : ClaimOut) (hi : StreamInv x)
    (hwf : StreamWF now x) (hgap : GapOK now x) (h : claimFromStream x now isBlocked r s = .ok (x', o)) :
    ∀ st, find? x.str.streams (r, s) = some st → now < st.zero → o.total ≤ st.rate * secsOf (now - st.last) := by
  intro st hf hlt
  obtain ⟨st', hf', h1, _, _⟩ := c11_release_amount x x' now r s o hi hwf hgap h
  rw [hf] at hf'; cases hf'
  rw [h1 hlt]; omega

/-- The deposit-zero time is the funding time plus floor(deposit / flow rate) seconds: a stream created
at `now` with deposit `D` and rate `r` is stored with zero time `now + ⌊D/r⌋ s`, last release `now`,
deposit `D`. -/
theorem c11_zero_time_on_create (x x' : SB) (now : Int) (rT sT : AddrTok) (denom : String) (amt rate : Int)
    (hi : StreamInv x) (hnow : 0 ≤ now) (h : createStream x now isBlocked rT sT denom amt rate = .ok x') :
    ∃ r s st, rT.decode = some r ∧ sT.decode = some s ∧ find? x'.str.streams (r, s) = some st ∧
      st.deposit = amt ∧ st.rate = rate ∧ st.last = now ∧ st.zero = now + (amt / rate) * 1000000000 ∧
      rate * (amt / rate) ≤ amt := by
  simp only [createStream, bind_eq_ok, require_eq_ok, decodeM_eq_ok, decide_eq_true_eq] at h
  obtain ⟨sa, hsa, ra, hra, _, _, _, _, _, hnew, _, hamt, _, hrate, _, hdur, h⟩ := h
  have hamt' : 0 < amt := by simp [coinNotPositive] at hamt; omega
  refine ⟨ra, sa, ?_⟩
  simp only [addDeposit, bind_eq_ok, pure_eq_ok, require_eq_ok, decide_eq_true_eq] at h
  obtain ⟨st, hst, _, _, y, hy, _, _, bank, _, _, hext, rfl⟩ := h
  have hst' := findStream_ok _ _ _ _ _ hst
  simp only [setStream, find_insert_eq, Option.some.injEq] at hst'
  subst hst'
  have h0 : (0 : Int) ≤ now := hnow
  simp only [h0, if_true, bind_eq_ok, pure_eq_ok] at hy
  obtain ⟨z, hz, rfl⟩ := hy
  simp only [settleIfFunded, Int.lt_irrefl, if_false] at hz
  cases hz
  have hd := calcDuration_spec amt rate hamt' (by omega)
  have hq : calcDuration amt rate = amt / rate := by
    unfold calcDuration
    have : ¬ rate ≤ 0 := by omega
    simp only [this, if_false, hamt', if_true]
    split
    · rfl
    · rename_i hbig
      exfalso
      unfold calcDuration at hext
      simp only [this, if_false, hamt', if_true] at hext
      rw [if_neg hbig] at hext
      unfold maxDurationSeconds maxI64 at hext; omega
  refine ⟨_, hra, hsa, find_insert_eq _ _ _, by simp, rfl, rfl, ?_, ?_⟩
  · simp only; rw [addSeconds_exact now _ hd.1 hext, hq]
  · rw [← hq]; exact hd.2

/-- At every moment the remaining deposit suffices to sustain the flow rate from the last release until
the advertised deposit-zero time (or the stream is empty and already expired): holds for every stored
stream in every state of every run — so a receiver can never drain a stream earlier than advertised. -/
theorem c11_solvency (g : GenCfg) (hg : GenBankValid g) (s : State) (h : FineReach g RateQ s) :
    ∀ key st, find? s.str.streams key = some st →
      1 ≤ st.rate ∧ st.last ≤ s.time ∧
      (st.rate * secsOf (st.zero - st.last) ≤ st.deposit ∨ (st.deposit = 0 ∧ st.zero ≤ s.time)) := by
  intro key st hk
  have hw := (strWF_reachable g hg s h).2
  exact ⟨hw.rate key st hk, hw.lastLe key st hk, hw.solv key st hk⟩

/-- consequence: after any claim made before the zero time, what remains still covers the rate up to
the zero time -/
theorem c11_remainder_covers_rest (now : Int) (st : Stream) (hr : 1 ≤ st.rate) (hd : 0 ≤ st.deposit)
    (hl : st.last ≤ now) (hgap : now - st.last ≤ maxI64) (hs : Solv now st) (hlt : now < st.zero) :
    st.rate * secsOf (st.zero - now) ≤ (calcAmountToClaim now st.zero st.last st.deposit st.rate).2 := by
  have := solv_after_claim now st hr hd hl hgap hs
  rcases this with h1 | ⟨_, h2⟩
  · simpa using h1
  · simp only at h2; omega

/-- A cancelling sender gets back exactly the unreleased remainder: the refund is the deposit left by
the settlement (`deposit − released`), and the stream is removed. -/
theorem c11_cancel_refunds_unreleased (x x' : SB) (now : Int) (r s : Addr) (hi : StreamInv x)
    (h : cancelStream x now isBlocked r s = .ok x') :
    ∃ st z, find? x.str.streams (r, s) = some st ∧ settleIfFunded x now isBlocked r s st = .ok z ∧
      payOut z.1.bank (now / nsPerSec) isBlocked s z.2.denom z.2.deposit = .ok x'.bank ∧
      (0 < st.deposit → z.2.deposit = (calcAmountToClaim now st.zero st.last st.deposit st.rate).2) ∧
      find? x'.str.streams (r, s) = none := by
  simp only [cancelStream, bind_eq_ok, pure_eq_ok] at h
  obtain ⟨st, hst, _, _, z, hz, bank, hbank, rfl⟩ := h
  have hf := findStream_ok _ _ _ _ _ hst
  refine ⟨st, z, hf, hz, hbank, ?_, ?_⟩
  · intro hpos
    rcases settle_shape x now r s st z hi hf hz with ⟨_, o, _, hz2⟩ | ⟨hnp, _⟩
    · rw [hz2]
    · omega
  · exact find_erase_eq _ _ (settle_spec x now isBlocked isBlocked_Mstr r s st z hi hf hz).1.nodup

-- non-vacuity: concrete numbers (deposit 100 at rate 1: 5 s after creation 5 are released, 95 remain)
example : calcAmountToClaim 1700000010000000000 1700000105000000000 1700000005000000000 100 1 = (5, 95) := by decide
example : calcDuration 100 1 = 100 := by decide

/-- the minimum funded duration of the model is the source's (ValidateBasic and message server) -/
theorem c11_limits_from_source :
    (AL.find? Facts.limits "stream.msgs.duration.<").map Int.ofNat = some minStreamDuration ∧
    (AL.find? Facts.limits "stream.msg_server.duration.<").map Int.ofNat = some minStreamDuration := by decide

/-- **Every release restarts the clock.**  After a successful claim the stream is stored with the claim's block time as
its last-release time and the unreleased remainder as its deposit; rate and advertised zero time are untouched. -/
theorem c11_claim_restarts_the_clock (x x' : SB) (now : Int) (r s : Addr) (o : ClaimOut) (hi : StreamInv x)
    (h : claimFromStream x now isBlocked r s = .ok (x', o)) :
    ∃ st st', find? x.str.streams (r, s) = some st ∧ find? x'.str.streams (r, s) = some st' ∧
      st'.last = now ∧ st'.deposit = o.rem ∧ st'.rate = st.rate ∧ st'.zero = st.zero := by
  obtain ⟨_, _, _, _, st, hf, _, _, _, _, _, _, _, hs⟩ := claim_spec x x' now isBlocked isBlocked_Mstr r s o hi h
  exact ⟨st, { st with deposit := o.rem, last := now }, hf, by rw [hs]; simp, rfl, rfl, rfl, rfl⟩

/-- **A flow-rate change settles at the old rate, restarts the clock and recomputes the zero time from the settled
remainder**: whatever happened before — also when the settlement itself pays nothing because less than a second has
passed since the previous release — the stream is stored with last release = the block time, the new rate, deposit =
the remainder after the settlement, and zero time = block time + ⌊remainder / new rate⌋ seconds. -/
theorem c11_rate_change_restarts_the_clock (x x' : SB) (now : Int) (r s : Addr) (newRate : Int) (hi : StreamInv x)
    (h : setNewFlowRate x now isBlocked r s newRate = .ok x') :
    ∃ st st', find? x.str.streams (r, s) = some st ∧ find? x'.str.streams (r, s) = some st' ∧ st'.rate = newRate ∧
      (0 < st.deposit →
        st'.last = now ∧ st'.deposit = (calcAmountToClaim now st.zero st.last st.deposit st.rate).2 ∧
        st'.zero = addSeconds now (calcDuration st'.deposit newRate)) := by
  unfold setNewFlowRate at h
  simp only [bind_eq_ok] at h
  obtain ⟨st, hfs, h⟩ := h
  have hf := findStream_ok x r s _ st hfs
  split at h
  · rename_i hpos
    simp only [bind_eq_ok, pure_eq_ok] at h
    obtain ⟨z, hz, h⟩ := h
    obtain ⟨_, _, h⟩ := h
    unfold settleIfFunded at hz
    rw [if_pos hpos] at hz
    simp only [bind_eq_ok, pure_eq_ok] at hz
    obtain ⟨y, hy, rfl⟩ := hz
    obtain ⟨y1, o⟩ := y
    obtain ⟨_, _, _, _, st0, hf0, _, _, _, hsum, _, _, htot, hs⟩ := claim_spec x y1 now isBlocked isBlocked_Mstr r s o hi hy
    rw [hf] at hf0; cases hf0
    have hfy : find? y1.str.streams (r, s) = some { st with deposit := o.rem, last := now } := by rw [hs]; simp
    subst h
    have hrem : o.rem = (calcAmountToClaim now st.zero st.last st.deposit st.rate).2 := by
      have := calcAmountToClaim_sum now st.zero st.last st.deposit st.rate
      omega
    refine ⟨st, Stream.mk st.denom o.rem newRate now (addSeconds now (calcDuration o.rem newRate)) st.cancellable, hf, ?_, rfl, ?_⟩
    · simp only [setStream, find_insert_eq, hfy, Option.getD_some]
    · intro _
      exact ⟨rfl, hrem, rfl⟩
  · rename_i hnp
    simp only [pure_eq_ok] at h
    subst h
    exact ⟨st, Stream.mk st.denom st.deposit newRate st.last now st.cancellable, hf, by simp [setStream], rfl, fun hp => absurd hp hnp⟩

/-- **A top-up extends the advertised zero time by ⌊top-up / flow rate⌋ seconds** when the stream is still running
(last release and rate untouched, deposit raised by exactly the top-up); on a stream that has run out it first settles
what is left, restarts the clock at the block time and advertises block time + ⌊top-up / flow rate⌋ seconds. -/
theorem c11_topup_extends_zero_time (x x' : SB) (now : Int) (r s : Addr) (denom : String) (amt : Int) (hi : StreamInv x)
    (h : addDeposit x now isBlocked r s denom amt = .ok x') :
    ∃ st st', find? x.str.streams (r, s) = some st ∧ find? x'.str.streams (r, s) = some st' ∧ st'.rate = st.rate ∧
      (now < st.zero → st'.last = st.last ∧ st'.deposit = st.deposit + amt ∧
        st'.zero = addSeconds st.zero (calcDuration amt st.rate)) ∧
      (st.zero ≤ now → st'.last = now ∧ st'.zero = addSeconds now (calcDuration amt st.rate) ∧
        st'.deposit = (if 0 < st.deposit then (calcAmountToClaim now st.zero st.last st.deposit st.rate).2 else st.deposit) + amt) := by
  unfold addDeposit at h
  simp only [bind_eq_ok] at h
  obtain ⟨st, hfs, _, _, y, hy, _, _, bank, _, _, _, h⟩ := h
  have hf := findStream_ok x r s _ st hfs
  simp only [pure_eq_ok] at h
  subst h
  by_cases hz : st.zero ≤ now
  · rw [if_pos hz] at hy
    simp only [bind_eq_ok, pure_eq_ok] at hy
    obtain ⟨z, hzz, rfl⟩ := hy
    unfold settleIfFunded at hzz
    by_cases hpos : st.deposit > 0
    · rw [if_pos hpos] at hzz
      simp only [bind_eq_ok, pure_eq_ok] at hzz
      obtain ⟨yy, hyy, rfl⟩ := hzz
      obtain ⟨y1, o⟩ := yy
      obtain ⟨_, _, _, _, st0, hf0, _, _, _, hsum, _, _, htot, hs⟩ := claim_spec x y1 now isBlocked isBlocked_Mstr r s o hi hyy
      rw [hf] at hf0; cases hf0
      have hfy : find? y1.str.streams (r, s) = some { st with deposit := o.rem, last := now } := by rw [hs]; simp
      have hrem : o.rem = (calcAmountToClaim now st.zero st.last st.deposit st.rate).2 := by
        have := calcAmountToClaim_sum now st.zero st.last st.deposit st.rate
        omega
      refine ⟨st, Stream.mk st.denom (o.rem + amt) st.rate now (addSeconds now (calcDuration amt st.rate)) st.cancellable, hf, ?_, rfl, ?_, ?_⟩
      · simp only [setStream, find_insert_eq, hfy, Option.getD_some]
      · intro hlt; omega
      · intro _; rw [if_pos hpos]; exact ⟨rfl, rfl, by rw [hrem]⟩
    · rw [if_neg hpos] at hzz
      cases hzz
      refine ⟨st, Stream.mk st.denom (st.deposit + amt) st.rate now (addSeconds now (calcDuration amt st.rate)) st.cancellable, hf, ?_, rfl, ?_, ?_⟩
      · simp only [setStream, find_insert_eq]
      · intro hlt; omega
      · intro _; rw [if_neg hpos]; exact ⟨rfl, rfl, rfl⟩
  · rw [if_neg hz] at hy
    cases hy
    refine ⟨st, Stream.mk st.denom (st.deposit + amt) st.rate st.last (addSeconds st.zero (calcDuration amt st.rate)) st.cancellable, hf, ?_, rfl, ?_, ?_⟩
    · simp only [setStream, find_insert_eq]
    · intro _; exact ⟨rfl, rfl, rfl⟩
    · intro hge; exact absurd hge hz

end C11
end Mainchain
