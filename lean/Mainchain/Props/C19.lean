import Mainchain.Lemmas.Convert
/-
C19 — FUND/nund denomination conversion is exact.
The model (`Model/Convert.lean`) is exact decimal-string arithmetic, which is what
`types.ConvertUndDenomination` computes after the `fix:` commit (big.Rat); the correspondence
(`vpure`, kind `conv`) ties the two on every run.
-/
namespace Mainchain
namespace C19
open Convert

/-- printing a natural number and parsing it back is the identity (the model's own digit functions) -/
theorem c19_show_parse (n : Nat) : parseDecimal (showNat n) = some (n, 0) := by
  have hd := digits_lt10 n
  have hne := digits_ne_nil n
  have hall := all_isDigit_map (digits n) hd
  have htw := takeWhile_all_append Char.isDigit ((digits n).map digitChar) [] hall (Or.inl rfl)
  simp only [List.append_nil] at htw
  have hne' : ((digits n).map digitChar).isEmpty = false := by
    cases h : digits n with
    | nil => exact absurd h hne
    | cons a b => simp
  simp only [parseDecimal, showNat, String.toList_ofList, htw.1, htw.2, hne', Bool.false_eq_true, if_false,
    mapM_charDigit (digits n) hd, Option.map_some, ofDigits_digits]

/-- FUND → nund is exact for every decimal amount `m / 10^k` with at most nine fractional digits:
    the result times 10^k equals m × 10^9 (no rounding anywhere) -/
theorem c19_fund_to_nund_exact (m k : Nat) (hk : k ≤ 9) : fundToNundNat m k * 10 ^ k = m * 10 ^ 9 := by
  simp only [fundToNundNat, hk, if_true]
  rw [Nat.mul_assoc, ← Nat.pow_add]
  congr 2
  omega

/-- beyond nine fractional digits the result is the exact value truncated toward zero -/
theorem c19_fund_to_nund_truncates (m k : Nat) (hk : 9 < k) :
    fundToNundNat m k * 10 ^ (k - 9) ≤ m ∧ m < (fundToNundNat m k + 1) * 10 ^ (k - 9) := by
  have h : ¬ k ≤ 9 := by omega
  simp only [fundToNundNat, h, if_false]
  have hp : 0 < 10 ^ (k - 9) := Nat.pow_pos (by omega)
  refine ⟨Nat.div_mul_le_self m _, ?_⟩
  have := Nat.lt_mul_div_succ m hp
  rw [Nat.mul_comm] at this
  exact this

private theorem padLeft_length (w : Nat) (ds : List Nat) (h : ds.length ≤ w) : (padLeft w ds).length = w := by
  simp [padLeft]; omega

private theorem ofDigits_replicate_zero (k : Nat) (ds : List Nat) : ofDigits (List.replicate k 0 ++ ds) = ofDigits ds := by
  induction k with
  | zero => simp
  | succ k ih =>
    rw [List.replicate_succ, List.cons_append, ofDigits_cons, ih]; simp

private theorem digits_length_le (n : Nat) (w : Nat) (h : n < 10 ^ w) (hw : 0 < w) : (digits n).length ≤ w := by
  -- a digit list longer than w with nonzero leading digit would be ≥ 10^w; argue by the value bound
  have key : ∀ fuel n acc, n < fuel → n < 10 ^ (w - acc.length) → acc.length < w →
      (digitsAux fuel n acc).length ≤ w := by
    intro fuel
    induction fuel with
    | zero => intro n acc h; omega
    | succ fuel ih =>
      intro n acc hf hn hacc
      simp only [digitsAux]
      split
      · simp; omega
      · rename_i h10
        have hw2 : 2 ≤ w - acc.length := by
          rcases Nat.lt_or_ge (w - acc.length) 2 with h1 | h1
          · have : w - acc.length = 1 := by omega
            rw [this] at hn; simp at hn; omega
          · exact h1
        apply ih (n / 10) (n % 10 :: acc) (by omega)
        · simp only [List.length_cons]
          have : w - acc.length = (w - (acc.length + 1)) + 1 := by omega
          rw [this, Nat.pow_succ] at hn
          exact Nat.div_lt_of_lt_mul (by rw [Nat.mul_comm]; exact hn)
        · simp only [List.length_cons]; omega
  have := key (n + 1) n [] (by omega) (by simpa using h) (by simpa using hw)
  simpa [digits] using this

/-- nund → FUND prints exactly n / 10^9 with nine decimals: parsing the printed amount gives back
    all digits of `n` with nine fractional digits -/
theorem c19_nund_to_fund_exact (n : Nat) : parseDecimal (nundToFundStr n) = some (n, 9) := by
  have hq := digits_lt10 (n / 1000000000)
  have hr := digits_lt10 (n % 1000000000)
  have hlen : (digits (n % 1000000000)).length ≤ 9 :=
    digits_length_le _ 9 (by have := Nat.mod_lt n (show 0 < 1000000000 by omega); simpa using this) (by omega)
  have hpadlt : ∀ d ∈ padLeft 9 (digits (n % 1000000000)), d < 10 := by
    intro d hd
    simp only [padLeft, List.mem_append, List.mem_replicate] at hd
    rcases hd with ⟨_, h0⟩ | hd
    · omega
    · exact hr d hd
  have hpl := padLeft_length 9 _ hlen
  have hne := digits_ne_nil (n / 1000000000)
  have hall := all_isDigit_map _ hq
  have hall2 := all_isDigit_map _ hpadlt
  have hsplit := takeWhile_all_append Char.isDigit ((digits (n / 1000000000)).map digitChar)
      ('.' :: (padLeft 9 (digits (n % 1000000000))).map digitChar) hall
      (Or.inr ⟨'.', _, rfl, by decide⟩)
  have hne' : ((digits (n / 1000000000)).map digitChar).isEmpty = false := by
    cases h : digits (n / 1000000000) with
    | nil => exact absurd h hne
    | cons a b => simp
  have hfpne : ((padLeft 9 (digits (n % 1000000000))).map digitChar).isEmpty = false := by
    cases h : padLeft 9 (digits (n % 1000000000)) with
    | nil => rw [h] at hpl; simp at hpl
    | cons a b => simp
  have hcat : ((digits (n / 1000000000)).map digitChar ++ (padLeft 9 (digits (n % 1000000000))).map digitChar).mapM charDigit?
      = some (digits (n / 1000000000) ++ padLeft 9 (digits (n % 1000000000))) := by
    rw [← List.map_append]
    apply mapM_charDigit
    intro d hd
    rcases List.mem_append.mp hd with h | h
    · exact hq d h
    · exact hpadlt d h
  simp only [parseDecimal, nundToFundStr, showNat, String.toList_append, String.toList_ofList,
    show ".".toList = ['.'] from rfl, List.singleton_append, List.append_assoc, hsplit.1, hsplit.2, hne',
    Bool.false_eq_true, if_false, hfpne, hall2, Bool.not_true, Bool.or_false, hcat, Option.map_some,
    List.length_map, hpl]
  congr 2
  rw [ofDigits_append, hpl, ofDigits_digits]
  simp only [padLeft, ofDigits_replicate_zero, ofDigits_digits]
  omega

/-- there and back: nund → FUND → nund returns the original amount -/
theorem c19_roundtrip_nund (n : Nat) :
    (parseDecimal (nundToFundStr n)).map (fun (m, k) => fundToNundNat m k) = some n := by
  rw [c19_nund_to_fund_exact]; simp [fundToNundNat]

/-- there and back: FUND (≤ 9 fractional digits) → nund → FUND prints a numeral of the same value -/
theorem c19_roundtrip_fund (m k : Nat) (hk : k ≤ 9) :
    ∃ m', parseDecimal (nundToFundStr (fundToNundNat m k)) = some (m', 9) ∧ m' * 10 ^ k = m * 10 ^ 9 := by
  exact ⟨fundToNundNat m k, c19_nund_to_fund_exact _, c19_fund_to_nund_exact m k hk⟩

/-- **the command's own strings, FUND → nund**: whatever numeral the command accepts (`parseDecimal`) with at most nine
fractional digits, the printed nund amount is exactly FUND × 10⁹ (no rounding: `v · 10ᵏ = m · 10⁹` over ℕ) -/
theorem c19_convert_fund_exact (s : String) (m k : Nat) (hp : parseDecimal s = some (m, k)) (hk : k ≤ 9) :
    ∃ v, convert s "fund" "nund" = some (showNat v ++ "nund") ∧ v * 10 ^ k = m * 10 ^ 9 := by
  refine ⟨fundToNundNat m k, ?_, c19_fund_to_nund_exact m k hk⟩
  simp [convert, hp]

/-- **there and back at the level of the printed strings, nund first**: `convert` applied to the printed nund amount gives the
nine-decimal FUND numeral, and `convert` applied to that numeral prints the original nund amount again -/
theorem c19_convert_roundtrip_nund (n : Nat) :
    convert (showNat n) "nund" "fund" = some (nundToFundStr n ++ "fund") ∧
    convert (nundToFundStr n) "fund" "nund" = some (showNat n ++ "nund") := by
  constructor
  · simp [convert, c19_show_parse]
  · simp [convert, c19_nund_to_fund_exact, fundToNundNat]

/-- **there and back at the level of the printed strings, FUND first**: an accepted FUND numeral with at most nine fractional
digits goes to a nund amount `v`, whose printed form goes back to a nine-decimal FUND numeral of the same value -/
theorem c19_convert_roundtrip_fund (s : String) (m k : Nat) (hp : parseDecimal s = some (m, k)) (hk : k ≤ 9) :
    ∃ v m', convert s "fund" "nund" = some (showNat v ++ "nund") ∧
      convert (showNat v) "nund" "fund" = some (nundToFundStr v ++ "fund") ∧
      parseDecimal (nundToFundStr v) = some (m', 9) ∧ m' * 10 ^ k = m * 10 ^ 9 := by
  obtain ⟨v, hv, hval⟩ := c19_convert_fund_exact s m k hp hk
  exact ⟨v, v, hv, (c19_convert_roundtrip_nund v).1, c19_nund_to_fund_exact v, hval⟩

-- the premises are met by ordinary inputs
example : parseDecimal "1.5" = some (15, 1) ∧ (1 : Nat) ≤ 9 := by decide
example : parseDecimal "123456789.123456789" = some (123456789123456789, 9) := by decide

-- the witnesses on which the unfixed code failed (float64 pipeline), now exact
example : convert "123456789.123456789" "fund" "nund" = some "123456789123456789nund" := by decide
example : convert "9999999999" "fund" "nund" = some "9999999999000000000nund" := by decide
example : convert "120000000000000001" "nund" "fund" = some "120000000.000000001fund" := by decide

end C19
end Mainchain
